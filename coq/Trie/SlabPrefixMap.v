(** Executable model of [PrefixesMap] AS CODED (low_level.rs:73-310): a slab of [InnerNode]s,
    children lists of (byte, slab key) pairs, [root : Option<usize>], the descent loops of
    [insert] / [check_has_no_prefix] / [is_or_has_prefix] / [delete], the stack of [delete] and its
    unwinding loop that prunes empty branches, and the slab with LIFO reuse of freed keys.

    Slab ([slab] 0.4 / the offline shim): [entries : Vec<Entry>] with the vacant entries threaded into
    a free list through [Vacant(next)], head [next] (= [entries.len()] when no entry is vacant).  The
    model keeps the cells ([None] = vacant) and the free list as an explicit stack [sl_free] (head =
    [next]); [insert] pops the head or appends, [remove] pushes the key: the sequence of keys handed
    out is the same.
    [value : Option<NonZeroU32>] is a count in [N] with 0 = [None].  The binary search of a child by its
    byte is a scan of the (sorted, duplicate-free) list: [kids_get]; [Err(idx)] + [Vec::insert(idx, ..)]
    is the sorted insertion [kids_insert]; the stack of [delete] holds (node key, byte) instead of
    (node key, position) and [children.remove(pos)] is [kids_remove] of that byte.
    Definitions only; lemmas in [SlabPrefixMapProofs.v]. *)
From Coq Require Import NArith List Bool.
From CB Require Import Trie.PrefixMap.
Import ListNotations.
Local Open Scope N_scope.

Definition inode := (N * list (N * nat))%type.

Record slab := mkSlab { sl_cells : list (option inode); sl_free : list nat }.

Fixpoint upd {A} (i : nat) (v : A) (l : list A) : list A :=
  match l, i with
  | [], _ => []
  | _ :: r, O => v :: r
  | x :: r, S i' => x :: upd i' v r
  end.

Definition cget (s : list (option inode)) (i : nat) : option inode :=
  match nth_error s i with Some (Some v) => Some v | _ => None end.

Definition sl_get (s : slab) (i : nat) : option inode := cget (sl_cells s) i.
Definition sl_set (s : slab) (i : nat) (v : inode) : slab :=
  mkSlab (upd i (Some v) (sl_cells s)) (sl_free s).
(** [Slab::insert]: returns the key. *)
Definition sl_alloc (s : slab) (v : inode) : slab * nat :=
  match sl_free s with
  | k :: f => (mkSlab (upd k (Some v) (sl_cells s)) f, k)
  | [] => (mkSlab (sl_cells s ++ [Some v]) [], length (sl_cells s))
  end.
(** [Slab::remove]. *)
Definition sl_remove (s : slab) (i : nat) : slab :=
  mkSlab (upd i None (sl_cells s)) (i :: sl_free s).
(** [Slab::len]: number of occupied cells. *)
Definition sl_len (s : slab) : nat :=
  length (filter (fun c => match c with Some _ => true | None => false end) (sl_cells s)).

Fixpoint kids_get (b : N) (kids : list (N * nat)) : option nat :=
  match kids with
  | [] => None
  | (b', j) :: r => if b =? b' then Some j else kids_get b r
  end.

Fixpoint kids_insert (b : N) (j : nat) (kids : list (N * nat)) : list (N * nat) :=
  match kids with
  | [] => [(b, j)]
  | (b', j') :: r => if b <? b' then (b, j) :: kids else (b', j') :: kids_insert b j r
  end.

Fixpoint kids_remove (b : N) (kids : list (N * nat)) : list (N * nat) :=
  match kids with
  | [] => []
  | (b', j') :: r => if b =? b' then r else (b', j') :: kids_remove b r
  end.

Record smap := mkSmap { sm_root : option nat; sm_slab : slab }.
Definition sm_empty : smap := mkSmap None (mkSlab [] []).

(** The loop of [insert] followed by the code after the loop.  [None] = a panic ("Invariant
    violation: node does not exist"); the flag is [false] for [Err(TooManyIterators)]. *)
Fixpoint sl_ins (k : list N) (s : slab) (i : nat) : option (slab * bool) :=
  match k with
  | [] =>
      match sl_get s i with
      | None => None
      | Some (c, kids) => if c =? MAXC then Some (s, false) else Some (sl_set s i (c + 1, kids), true)
      end
  | b :: k' =>
      match sl_get s i with
      | None => None
      | Some (c, kids) =>
          match kids_get b kids with
          | Some j => sl_ins k' s j
          | None =>
              let (s1, nw) := sl_alloc s (0, []) in
              sl_ins k' (sl_set s1 i (c, kids_insert b nw kids)) nw
          end
      end
  end.

Definition sm_insert (k : list N) (m : smap) : option (smap * bool) :=
  let (s0, r) := match sm_root m with
                 | Some r => (sm_slab m, r)
                 | None => sl_alloc (sm_slab m) (0, [])
                 end in
  match sl_ins k s0 r with
  | Some (s', ok) => Some (mkSmap (Some r) s', ok)
  | None => None
  end.

(** [check_has_no_prefix(..).is_ok()]. *)
Fixpoint sl_no_prefix (k : list N) (s : slab) (i : nat) : option bool :=
  match sl_get s i with
  | None => None
  | Some (c, kids) =>
      match k with
      | [] => Some (c =? 0)
      | b :: k' =>
          if negb (c =? 0) then Some false
          else match kids_get b kids with Some j => sl_no_prefix k' s j | None => Some true end
      end
  end.

Definition sm_no_prefix (k : list N) (m : smap) : option bool :=
  match sm_root m with None => Some true | Some r => sl_no_prefix k (sm_slab m) r end.

(** [is_or_has_prefix] (after the loop the code answers [true] without looking at the node). *)
Fixpoint sl_iohp (k : list N) (s : slab) (i : nat) : option bool :=
  match k with
  | [] => Some true
  | b :: k' =>
      match sl_get s i with
      | None => None
      | Some (c, kids) =>
          if negb (c =? 0) then Some true
          else match kids_get b kids with Some j => sl_iohp k' s j | None => Some false end
      end
  end.

Definition sm_iohp (k : list N) (m : smap) : option bool :=
  match sm_root m with None => Some false | Some r => sl_iohp k (sm_slab m) r end.

(** The unwinding loop of [delete] ("back up and delete subtrees if needed"), entered after the
    node below has been removed from the slab. *)
Fixpoint sl_unwind (st : list (nat * N)) (s : slab) : option slab :=
  match st with
  | [] => Some s
  | (i, b) :: st' =>
      match sl_get s i with
      | None => None
      | Some (c, kids) =>
          let kids' := kids_remove b kids in
          let s1 := sl_set s i (c, kids') in
          match kids' with
          | [] => if c =? 0 then sl_unwind st' (sl_remove s1 i) else Some s1
          | _ :: _ => Some s1
          end
      end
  end.

(** The descent of [delete] (pushing on the stack) followed by the code after the loop. *)
Fixpoint sl_del (k : list N) (s : slab) (i : nat) (st : list (nat * N)) : option (slab * bool) :=
  match k with
  | [] =>
      match sl_get s i with
      | None => None
      | Some (c, kids) =>
          if 1 <? c then Some (sl_set s i (c - 1, kids), true)
          else
            let s1 := sl_set s i (0, kids) in
            match kids with
            | [] => option_map (fun s2 => (s2, negb (c =? 0))) (sl_unwind st (sl_remove s1 i))
            | _ :: _ => Some (s1, negb (c =? 0))
            end
      end
  | b :: k' =>
      match sl_get s i with
      | None => None
      | Some (c, kids) =>
          match kids_get b kids with
          | Some j => sl_del k' s j ((i, b) :: st)
          | None => Some (s, false)
          end
      end
  end.

(** "delete the root, if needed": [!self.nodes.contains(root)]. *)
Definition sm_delete (k : list N) (m : smap) : option (smap * bool) :=
  match sm_root m with
  | None => Some (m, false)
  | Some r =>
      match sl_del k (sm_slab m) r [] with
      | None => None
      | Some (s', x) =>
          Some (mkSmap (match sl_get s' r with Some _ => Some r | None => None end) s', x)
      end
  end.

(** Histories (same operations as [pm_step]); [None] = a panic of the implementation. *)
Definition sm_step (o : pop) (m : smap) : option (smap * bool) :=
  match o with
  | PIns k => sm_insert k m
  | PDel k => sm_delete k m
  | PCheck k => option_map (fun x => (m, x)) (sm_no_prefix k m)
  | PIohp k => option_map (fun x => (m, x)) (sm_iohp k m)
  end.

Fixpoint sm_run (ops : list pop) (m : smap) : option (smap * list bool) :=
  match ops with
  | [] => Some (m, [])
  | o :: r =>
      match sm_step o m with
      | None => None
      | Some (m', b) =>
          match sm_run r m' with
          | None => None
          | Some (m'', bs) => Some (m'', b :: bs)
          end
      end
  end.

(** Abstraction function (fuel = number of cells suffices for a tree): the functional trie denoted
    by the slab below key [i]. *)
Fixpoint sl_abs (fuel : nat) (s : list (option inode)) (i : nat) : option pnode :=
  match fuel with
  | O => None
  | S fuel' =>
      match cget s i with
      | None => None
      | Some (c, kids) =>
          option_map (PNode c)
            ((fix go (kids : list (N * nat)) : option pforest :=
                match kids with
                | [] => Some PNil
                | (b, j) :: r =>
                    match sl_abs fuel' s j, go r with
                    | Some n, Some f => Some (PCons b n f)
                    | _, _ => None
                    end
                end) kids)
      end
  end.

Definition sm_abs (m : smap) : option pmap :=
  match sm_root m with
  | None => Some None
  | Some r => option_map Some (sl_abs (S (length (sl_cells (sm_slab m)))) (sl_cells (sm_slab m)) r)
  end.

(** Dump for the correspondence: root, free list head-first, occupied cells (key, count, children). *)
Fixpoint cells_dump (i : nat) (s : list (option inode)) : list (nat * inode) :=
  match s with
  | [] => []
  | Some v :: r => (i, v) :: cells_dump (S i) r
  | None :: r => cells_dump (S i) r
  end.

Definition sm_dump (m : smap) : option nat * list (nat * inode) * nat :=
  (sm_root m, cells_dump 0 (sl_cells (sm_slab m)), sl_len (sm_slab m)).

(** Harness only (mirrors the hook [set_count]): overwrite the count of a key that is present. *)
Fixpoint sl_setc (k : list N) (x : N) (s : slab) (i : nat) : slab :=
  match sl_get s i with
  | None => s
  | Some (c, kids) =>
      match k with
      | [] => if c =? 0 then s else sl_set s i (x, kids)
      | b :: k' => match kids_get b kids with Some j => sl_setc k' x s j | None => s end
      end
  end.
Definition sm_setc (k : list N) (x : N) (m : smap) : smap :=
  match sm_root m with None => m | Some r => mkSmap (Some r) (sl_setc k x (sm_slab m) r) end.

Fixpoint pn_size (n : pnode) : N :=
  match n with PNode _ ch => 1 + pf_size ch end
with pf_size (f : pforest) : N :=
  match f with PNil => 0 | PCons _ n r => pn_size n + pf_size r end.

(** Executable check used by the correspondence (tested, not proved): the slab holds exactly the
    nodes of the trie it denotes (no leaked cell), i.e. [nodes.len()] = number of trie nodes. *)
Definition sm_noleak (m : smap) : bool :=
  match sm_abs m with
  | Some (Some t) => N.of_nat (sl_len (sm_slab m)) =? pn_size t
  | Some None => N.of_nat (sl_len (sm_slab m)) =? 0
  | None => false
  end.

Definition sm_dumpN (m : smap) : option N * N * list (N * N * list (N * N)) :=
  (option_map N.of_nat (sm_root m), N.of_nat (sl_len (sm_slab m)),
   map (fun kv => (N.of_nat (fst kv), fst (snd kv), map (fun bj => (fst bj, N.of_nat (snd bj))) (snd (snd kv))))
       (cells_dump 0 (sl_cells (sm_slab m)))).

Inductive hop := HOp (o : pop) | HSet (k : list N) (x : N).

(** One line per operation: result flag, dump of the slab after it, no-leak flag, and the functional
    trie denoted by the slab (to be compared with the dump of the [pm_*] model). *)
Fixpoint sm_trace (ops : list hop) (m : smap)
  : list (option (bool * (option N * N * list (N * N * list (N * N))) * bool * list (list N * N))) :=
  match ops with
  | [] => []
  | HSet k x :: r => let m' := sm_setc k x m in
                     Some (true, sm_dumpN m', sm_noleak m',
                           match sm_abs m' with Some t => pm_dump t | None => [] end) :: sm_trace r m'
  | HOp o :: r =>
      match sm_step o m with
      | None => [None]
      | Some (m', x) => Some (x, sm_dumpN m', sm_noleak m',
                              match sm_abs m' with Some t => pm_dump t | None => [] end) :: sm_trace r m'
      end
  end.
