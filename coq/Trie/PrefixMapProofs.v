(** Lemmas about [PrefixMap.v]: the reference-counted prefix trie denotes a multiset of
    byte strings; [check_has_no_prefix] and [is_or_has_prefix] decide exactly the stated
    prefix relations; overflow of a count is an error that changes nothing. *)
From Coq Require Import NArith PeanoNat List Bool Lia.
From CB Require Import Trie.Radix.
From CB Require Import Trie.RadixProofs.
From CB Require Import Trie.PrefixMap.
Import ListNotations.
Local Open Scope N_scope.

Scheme pnode_ind2 := Induction for pnode Sort Prop
  with pforest_ind2 := Induction for pforest Sort Prop.
Combined Scheme pnode_pforest_ind from pnode_ind2, pforest_ind2.

(** Unfolding equations. *)
Lemma pn_count_eq k c ch :
  pn_count k (PNode c ch) = match k with [] => c | b :: k' => pf_count b k' ch end.
Proof. destruct k; reflexivity. Qed.
Lemma pf_count_cons b k b' n r :
  pf_count b k (PCons b' n r) = if b =? b' then pn_count k n else pf_count b k r.
Proof. reflexivity. Qed.
Lemma pn_insert_eq k c ch :
  pn_insert k (PNode c ch) =
  match k with
  | [] => if c =? MAXC then None else Some (PNode (c + 1) ch)
  | b :: k' => option_map (PNode c) (pf_insert b k' ch)
  end.
Proof. destruct k; reflexivity. Qed.
Lemma pf_insert_cons b k b' n r :
  pf_insert b k (PCons b' n r) =
  if b =? b' then option_map (fun n' => PCons b' n' r) (pn_insert k n)
  else if b <? b' then Some (PCons b (pn_fresh k) (PCons b' n r))
  else option_map (PCons b' n) (pf_insert b k r).
Proof. reflexivity. Qed.
Lemma pn_delete_eq k c ch :
  pn_delete k (PNode c ch) =
  match k with
  | [] => if 1 <? c then (Some (PNode (c - 1) ch), true) else (pn_mk 0 ch, negb (c =? 0))
  | b :: k' => let (ch', r) := pf_delete b k' ch in (pn_mk c ch', r)
  end.
Proof. destruct k; reflexivity. Qed.
Lemma pf_delete_cons b k b' n r :
  pf_delete b k (PCons b' n r) =
  if b =? b' then
    match pn_delete k n with
    | (Some n', x) => (PCons b' n' r, x)
    | (None, x) => (r, x)
    end
  else let (r', x) := pf_delete b k r in (PCons b' n r', x).
Proof. reflexivity. Qed.
Lemma pn_wf_eq c ch :
  pn_wf (PNode c ch) =
  pf_wf ch && psorted ch && (c <=? MAXC) && (match ch with PNil => negb (c =? 0) | _ => true end).
Proof. reflexivity. Qed.
Lemma pf_wf_cons b n r : pf_wf (PCons b n r) = pn_wf n && pf_wf r.
Proof. reflexivity. Qed.
Lemma psorted_cons b n r : psorted (PCons b n r) = pall_gt b r && psorted r.
Proof. reflexivity. Qed.
Lemma pall_gt_cons b b' n r : pall_gt b (PCons b' n r) = (b <? b') && pall_gt b r.
Proof. reflexivity. Qed.
Lemma pn_no_prefix_eq k c ch :
  pn_no_prefix k (PNode c ch) =
  match k with [] => c =? 0 | b :: k' => if c =? 0 then pf_no_prefix b k' ch else false end.
Proof. destruct k; reflexivity. Qed.
Lemma pf_no_prefix_cons b k b' n r :
  pf_no_prefix b k (PCons b' n r) = if b =? b' then pn_no_prefix k n else pf_no_prefix b k r.
Proof. reflexivity. Qed.
Lemma pn_iohp_eq k c ch :
  pn_iohp k (PNode c ch) =
  match k with [] => true | b :: k' => if c =? 0 then pf_iohp b k' ch else true end.
Proof. destruct k; reflexivity. Qed.
Lemma pf_iohp_cons b k b' n r :
  pf_iohp b k (PCons b' n r) = if b =? b' then pn_iohp k n else pf_iohp b k r.
Proof. reflexivity. Qed.

Lemma pall_gt_trans b b' f : b < b' -> pall_gt b' f = true -> pall_gt b f = true.
Proof.
  intros Hb. induction f as [|x n r IH]; cbn; [reflexivity|].
  intros H. apply andb_true_iff in H as [H1 H2]. apply N.ltb_lt in H1.
  apply andb_true_iff. split; [apply N.ltb_lt; lia | auto].
Qed.

Lemma pf_count_all_gt b k f : pall_gt b f = true -> pf_count b k f = 0.
Proof.
  induction f as [|x n r IH]; cbn; [reflexivity|].
  intros H. apply andb_true_iff in H as [H1 H2]. apply N.ltb_lt in H1.
  destruct (N.eqb_spec b x); [lia | auto].
Qed.

(** * Counts *)

Lemma pn_count_fresh k k' : pn_count k' (pn_fresh k) = if list_eqb k k' then 1 else 0.
Proof.
  revert k'. induction k as [|b k IH]; intros [|b' k']; cbn; try reflexivity.
  rewrite (N.eqb_sym b' b). destruct (b =? b'); cbn; [apply IH | reflexivity].
Qed.

Lemma pn_count_insert_mut :
  (forall n k n' k', pn_wf n = true -> pn_insert k n = Some n' ->
     pn_count k' n' = if list_eqb k k' then pn_count k' n + 1 else pn_count k' n)
  /\ (forall f b k f' b' k', psorted f = true -> pf_wf f = true -> pf_insert b k f = Some f' ->
     pf_count b' k' f' = if (b =? b') && list_eqb k k' then pf_count b' k' f + 1 else pf_count b' k' f).
Proof.
  apply pnode_pforest_ind.
  - intros c ch IHf k n' k' Hwf Hins.
    rewrite pn_wf_eq, !andb_true_iff in Hwf. destruct Hwf as [[[Hw Hs] _] _].
    rewrite pn_insert_eq in Hins. destruct k as [|b k].
    + destruct (c =? MAXC); [discriminate|]. inversion Hins; subst. rewrite !pn_count_eq.
      destruct k'; reflexivity.
    + destruct (pf_insert b k ch) as [ch'|] eqn:E; [|discriminate]. cbn in Hins. inversion Hins; subst.
      rewrite !pn_count_eq. destruct k' as [|b' k']; [reflexivity|].
      cbn [list_eqb]. eapply IHf; eassumption.
  - intros b k f' b' k' _ _ H. cbn in H. inversion H; subst. rewrite pf_count_cons.
    rewrite (N.eqb_sym b' b). destruct (b =? b'); cbn [andb pf_count].
    + rewrite pn_count_fresh. destruct (list_eqb k k'); reflexivity.
    + reflexivity.
  - intros b0 n IHn r IHr b k f' b' k' Hs Hwf Hins.
    rewrite psorted_cons in Hs. apply andb_true_iff in Hs as [Hgt Hs].
    rewrite pf_wf_cons in Hwf. apply andb_true_iff in Hwf as [Hwn Hwr].
    rewrite pf_insert_cons in Hins.
    destruct (N.eqb_spec b b0) as [->|Hne].
    + destruct (pn_insert k n) as [n'|] eqn:E; [|discriminate]. cbn in Hins. inversion Hins; subst.
      rewrite !pf_count_cons, (N.eqb_sym b' b0). destruct (b0 =? b'); cbn [andb]; [|reflexivity].
      eapply IHn; eassumption.
    + destruct (N.ltb_spec b b0) as [Hlt|Hge].
      * inversion Hins; subst. rewrite pf_count_cons, (N.eqb_sym b' b).
        destruct (N.eqb_spec b b') as [<-|Hbb]; cbn [andb]; [|reflexivity].
        rewrite pn_count_fresh.
        rewrite (pf_count_all_gt b k' (PCons b0 n r)).
        -- destruct (list_eqb k k'); reflexivity.
        -- rewrite pall_gt_cons. apply andb_true_iff. split; [apply N.ltb_lt; assumption|].
           eapply pall_gt_trans; eassumption.
      * destruct (pf_insert b k r) as [r'|] eqn:E; [|discriminate]. cbn in Hins. inversion Hins; subst.
        rewrite !pf_count_cons. destruct (N.eqb_spec b' b0) as [->|Hb0].
        -- destruct (N.eqb_spec b b0); [congruence | reflexivity].
        -- eapply IHr; eassumption.
Qed.

(** Overflow: the insertion fails exactly when the count is [u32::MAX]. *)
Lemma pn_insert_none_mut :
  (forall n k, pn_wf n = true -> (pn_insert k n = None <-> pn_count k n = MAXC))
  /\ (forall f b k, psorted f = true -> pf_wf f = true ->
        (pf_insert b k f = None <-> pf_count b k f = MAXC)).
Proof.
  apply pnode_pforest_ind.
  - intros c ch IHf k Hwf.
    rewrite pn_wf_eq, !andb_true_iff in Hwf. destruct Hwf as [[[Hw Hs] _] _].
    rewrite pn_insert_eq, pn_count_eq. destruct k as [|b k].
    + destruct (N.eqb_spec c MAXC); split; congruence.
    + specialize (IHf b k Hs Hw). destruct (pf_insert b k ch) eqn:E; cbn.
      * split; [discriminate|]. intros H. apply IHf in H. congruence.
      * split; [|reflexivity]. intros _. apply IHf. reflexivity.
  - intros b k _ _. cbn. split; [discriminate | intros H; inversion H].
  - intros b0 n IHn r IHr b k Hs Hwf.
    rewrite psorted_cons in Hs. apply andb_true_iff in Hs as [Hgt Hs].
    rewrite pf_wf_cons in Hwf. apply andb_true_iff in Hwf as [Hwn Hwr].
    rewrite pf_insert_cons, pf_count_cons.
    destruct (N.eqb_spec b b0) as [->|Hne].
    + specialize (IHn k Hwn). destruct (pn_insert k n) eqn:E; cbn.
      * split; [discriminate|]. intros H. apply IHn in H. congruence.
      * split; [|reflexivity]. intros _. apply IHn. reflexivity.
    + destruct (N.ltb_spec b b0) as [Hlt|Hge].
      * split; [discriminate|]. intros H. exfalso.
        rewrite (pf_count_all_gt b k r) in H; [discriminate|].
        eapply pall_gt_trans; eassumption.
      * specialize (IHr b k Hs Hwr). destruct (pf_insert b k r) eqn:E; cbn.
        -- split; [discriminate|]. intros H. apply IHr in H. congruence.
        -- split; [|reflexivity]. intros _. apply IHr. reflexivity.
Qed.

(** * Well-formedness *)

Lemma pn_wf_fresh k : pn_wf (pn_fresh k) = true.
Proof.
  induction k as [|b k IH]; [reflexivity|].
  cbn [pn_fresh]. rewrite pn_wf_eq, pf_wf_cons, IH. reflexivity.
Qed.

Lemma pn_wf_parts c ch :
  pn_wf (PNode c ch) = true ->
  pf_wf ch = true /\ psorted ch = true /\ c <= MAXC /\ (ch = PNil -> c <> 0).
Proof.
  rewrite pn_wf_eq, !andb_true_iff. intros [[[H1 H2] H3] H4]. apply N.leb_le in H3.
  repeat split; auto. intros ->. apply negb_true_iff in H4. apply N.eqb_neq in H4. assumption.
Qed.

Lemma pn_wf_intro c ch :
  pf_wf ch = true -> psorted ch = true -> c <= MAXC -> (ch = PNil -> c <> 0) ->
  pn_wf (PNode c ch) = true.
Proof.
  intros H1 H2 H3 H4. rewrite pn_wf_eq, H1, H2. apply N.leb_le in H3. rewrite H3. cbn [andb].
  destruct ch; [|reflexivity]. apply negb_true_iff, N.eqb_neq. auto.
Qed.

Lemma pn_wf_insert_mut :
  (forall n k n', pn_wf n = true -> pn_insert k n = Some n' -> pn_wf n' = true)
  /\ (forall f b k f', psorted f = true -> pf_wf f = true -> pf_insert b k f = Some f' ->
        psorted f' = true /\ pf_wf f' = true /\ f' <> PNil
        /\ (forall x, pall_gt x f = true -> x < b -> pall_gt x f' = true)).
Proof.
  apply pnode_pforest_ind.
  - intros c ch IHf k n' Hwf Hins. apply pn_wf_parts in Hwf as (Hw & Hs & Hc & Hnil).
    rewrite pn_insert_eq in Hins. destruct k as [|b k].
    + destruct (N.eqb_spec c MAXC) as [|Hne]; [discriminate|]. inversion Hins; subst.
      apply pn_wf_intro; auto; lia.
    + destruct (pf_insert b k ch) as [ch'|] eqn:E; [|discriminate]. cbn in Hins. inversion Hins; subst.
      destruct (IHf b k ch' Hs Hw E) as (A & B & C & _). apply pn_wf_intro; auto; intros ->; congruence.
  - intros b k f' _ _ H. cbn in H. inversion H; subst.
    rewrite psorted_cons, pf_wf_cons, pn_wf_fresh. repeat split; auto; try discriminate.
    all: intros x _ Hx; rewrite pall_gt_cons; apply N.ltb_lt in Hx; rewrite Hx; reflexivity.
  - intros b0 n IHn r IHr b k f' Hs Hwf Hins.
    rewrite psorted_cons in Hs. apply andb_true_iff in Hs as [Hgt Hs].
    rewrite pf_wf_cons in Hwf. apply andb_true_iff in Hwf as [Hwn Hwr].
    rewrite pf_insert_cons in Hins.
    destruct (N.eqb_spec b b0) as [->|Hne].
    + destruct (pn_insert k n) as [n'|] eqn:E; [|discriminate]. cbn in Hins. inversion Hins; subst.
      rewrite psorted_cons, pf_wf_cons, Hgt, Hs, Hwr, (IHn k n' Hwn E).
      repeat split; auto; try discriminate. all: intros x Hx _; rewrite pall_gt_cons in *; exact Hx.
    + destruct (N.ltb_spec b b0) as [Hlt|Hge].
      * inversion Hins; subst.
        rewrite !psorted_cons, !pf_wf_cons, !pall_gt_cons, Hgt, Hs, Hwn, Hwr, pn_wf_fresh.
        assert (b <? b0 = true) as -> by (apply N.ltb_lt; assumption).
        rewrite (pall_gt_trans b b0 r Hlt Hgt).
        repeat split; auto; try discriminate.
        all: intros x Hx Hxb; rewrite pall_gt_cons in *;
          assert (x <? b = true) as -> by (apply N.ltb_lt; assumption); exact Hx.
      * destruct (pf_insert b k r) as [r'|] eqn:E; [|discriminate]. cbn in Hins. inversion Hins; subst.
        destruct (IHr b k r' Hs Hwr E) as (A & B & C & D).
        rewrite psorted_cons, pf_wf_cons, A, B, Hwn, (D b0 Hgt ltac:(lia)).
        repeat split; auto; try discriminate.
        all: intros x Hx Hxb; rewrite pall_gt_cons in *; apply andb_true_iff in Hx as [Hx1 Hx2];
          rewrite Hx1; cbn [andb]; apply D; assumption.
Qed.

Definition pno_count (k : list N) (o : option pnode) : N :=
  match o with Some n => pn_count k n | None => 0 end.
Definition pno_wf (o : option pnode) : bool := match o with Some n => pn_wf n | None => true end.

Lemma pno_count_mk k' c ch : pno_count k' (pn_mk c ch) = pn_count k' (PNode c ch).
Proof.
  unfold pn_mk. destruct ch as [|b n r]; [|reflexivity].
  destruct (N.eqb_spec c 0) as [->|Hc]; [|reflexivity].
  cbn [pno_count]. rewrite pn_count_eq. destruct k'; reflexivity.
Qed.

Lemma pno_wf_mk c ch :
  pf_wf ch = true -> psorted ch = true -> c <= MAXC -> pno_wf (pn_mk c ch) = true.
Proof.
  intros H1 H2 H3. unfold pn_mk. destruct ch as [|b n r].
  - destruct (N.eqb_spec c 0); [reflexivity|]. cbn [pno_wf]. apply pn_wf_intro; auto.
  - cbn [pno_wf]. apply pn_wf_intro; auto. discriminate.
Qed.

Lemma pn_delete_mut :
  (forall n k k', pn_wf n = true ->
     snd (pn_delete k n) = negb (pn_count k n =? 0)
     /\ pno_count k' (fst (pn_delete k n)) =
        (if list_eqb k k' then pn_count k' n - 1 else pn_count k' n)
     /\ pno_wf (fst (pn_delete k n)) = true)
  /\ (forall f b k b' k', psorted f = true -> pf_wf f = true ->
     snd (pf_delete b k f) = negb (pf_count b k f =? 0)
     /\ pf_count b' k' (fst (pf_delete b k f)) =
        (if (b =? b') && list_eqb k k' then pf_count b' k' f - 1 else pf_count b' k' f)
     /\ psorted (fst (pf_delete b k f)) = true /\ pf_wf (fst (pf_delete b k f)) = true
     /\ (forall x, pall_gt x f = true -> pall_gt x (fst (pf_delete b k f)) = true)).
Proof.
  apply pnode_pforest_ind.
  - intros c ch IHf k k' Hwf. apply pn_wf_parts in Hwf as (Hw & Hs & Hc & Hnil).
    rewrite pn_delete_eq. destruct k as [|b k].
    + rewrite pn_count_eq. destruct (N.ltb_spec 1 c) as [Hlt|Hge]; cbn [fst snd].
      * split; [|split].
        -- destruct (N.eqb_spec c 0); [lia | reflexivity].
        -- cbn [pno_count]. rewrite !pn_count_eq. destruct k'; reflexivity.
        -- cbn [pno_wf]. apply pn_wf_intro; auto; try lia; intros E; specialize (Hnil E); lia.
      * split; [reflexivity|]. split.
        -- rewrite pno_count_mk, !pn_count_eq. destruct k'; cbn [list_eqb]; [lia | reflexivity].
        -- apply pno_wf_mk; auto. unfold MAXC. lia.
    + destruct (IHf b k b k' Hs Hw) as (A & _ & C & D & _).
      specialize (IHf b k). destruct (pf_delete b k ch) as [ch' x] eqn:E. cbn [fst snd] in *.
      rewrite pn_count_eq. split; [exact A|]. split.
      * rewrite pno_count_mk, !pn_count_eq. destruct k' as [|b' k']; [reflexivity|].
        cbn [list_eqb]. destruct (IHf b' k' Hs Hw) as (_ & B & _). exact B.
      * apply pno_wf_mk; auto.
  - intros b k b' k' _ _. cbn. repeat split; auto. destruct ((b =? b') && list_eqb k k'); reflexivity.
  - intros b0 n IHn r IHr b k b' k' Hs Hwf.
    rewrite psorted_cons in Hs. apply andb_true_iff in Hs as [Hgt Hs].
    rewrite pf_wf_cons in Hwf. apply andb_true_iff in Hwf as [Hwn Hwr].
    rewrite pf_delete_cons, !pf_count_cons.
    destruct (N.eqb_spec b b0) as [->|Hne].
    + destruct (IHn k k' Hwn) as (A & B & C).
      destruct (pn_delete k n) as [[n'|] x] eqn:E; cbn [fst snd pno_wf pno_count] in *.
      * split; [exact A|]. rewrite pf_count_cons, (N.eqb_sym b' b0).
        rewrite psorted_cons, pf_wf_cons, Hgt, Hs, Hwr, C.
        split; [destruct (b0 =? b'); cbn [andb]; [exact B | reflexivity]|].
        repeat split; auto. all: intros y Hy; rewrite pall_gt_cons in *; exact Hy.
      * split; [exact A|]. rewrite (N.eqb_sym b' b0).
        split.
        -- destruct (N.eqb_spec b0 b') as [<-|Hb]; cbn [andb]; [|reflexivity].
           rewrite pf_count_all_gt by assumption. cbn [pno_count] in B. exact B.
        -- repeat split; auto. all: intros y Hy; rewrite pall_gt_cons in Hy;
           apply andb_true_iff in Hy as [_ Hy]; exact Hy.
    + destruct (IHr b k b' k' Hs Hwr) as (A & B & C & D & F).
      destruct (pf_delete b k r) as [r' x] eqn:E. cbn [fst snd] in *.
      split; [exact A|]. rewrite pf_count_cons, psorted_cons, pf_wf_cons, C, D, Hwn, (F b0 Hgt).
      split.
      * destruct (N.eqb_spec b' b0) as [->|Hb0]; [|exact B].
        destruct (N.eqb_spec b b0); [congruence | reflexivity].
      * repeat split; auto. all: intros y Hy; rewrite pall_gt_cons in *;
        apply andb_true_iff in Hy as [Hy1 Hy2]; rewrite Hy1; cbn [andb]; apply F; exact Hy2.
Qed.

(** * The prefix queries *)

Lemma pn_no_prefix_mut :
  (forall n k, pn_no_prefix k n = true <-> (forall p, is_prefix p k = true -> pn_count p n = 0))
  /\ (forall f b k, pf_no_prefix b k f = true <->
        (forall p, is_prefix p k = true -> pf_count b p f = 0)).
Proof.
  apply pnode_pforest_ind.
  - intros c ch IHf k. rewrite pn_no_prefix_eq. destruct k as [|b k].
    + rewrite N.eqb_eq. split.
      * intros -> p Hp. destruct p; [reflexivity | discriminate].
      * intros H. apply (H []). reflexivity.
    + destruct (N.eqb_spec c 0) as [->|Hc].
      * rewrite IHf. split.
        -- intros H p Hp. rewrite pn_count_eq. destruct p as [|x p]; [reflexivity|].
           cbn in Hp. apply andb_true_iff in Hp as [Hx Hp]. apply N.eqb_eq in Hx. subst. auto.
        -- intros H p Hp. specialize (H (b :: p)). rewrite pn_count_eq in H. apply H.
           cbn. rewrite N.eqb_refl. exact Hp.
      * split; [discriminate|]. intros H. exfalso. apply Hc. apply (H []). reflexivity.
  - intros b k. cbn. split; auto.
  - intros b0 n IHn r IHr b k. rewrite pf_no_prefix_cons.
    destruct (N.eqb_spec b b0) as [->|Hne].
    + rewrite IHn. split; intros H p Hp; specialize (H p Hp); rewrite pf_count_cons, N.eqb_refl in *; exact H.
    + rewrite IHr. split; intros H p Hp; specialize (H p Hp); rewrite pf_count_cons in *;
        destruct (N.eqb_spec b b0); try congruence; exact H.
Qed.

(** In a well-formed map every node has a key with a positive count at or below it. *)
Lemma pn_wf_inhabited_mut :
  (forall n, pn_wf n = true -> exists p, 0 < pn_count p n)
  /\ (forall f, pf_wf f = true -> f <> PNil -> exists b p, 0 < pf_count b p f).
Proof.
  apply pnode_pforest_ind.
  - intros c ch IHf Hwf. apply pn_wf_parts in Hwf as (Hw & Hs & Hc & Hnil).
    destruct ch as [|b n r].
    + exists []. rewrite pn_count_eq. specialize (Hnil eq_refl). lia.
    + destruct (IHf Hw ltac:(discriminate)) as (b' & p & H). exists (b' :: p). rewrite pn_count_eq. exact H.
  - intros _ H. congruence.
  - intros b n IHn r _ Hwf _. rewrite pf_wf_cons in Hwf. apply andb_true_iff in Hwf as [Hwn _].
    destruct (IHn Hwn) as [p H]. exists b, p. rewrite pf_count_cons, N.eqb_refl. exact H.
Qed.

Lemma pn_iohp_mut :
  (forall n k, pn_wf n = true ->
     (pn_iohp k n = true <->
      exists p, 0 < pn_count p n /\ (is_prefix p k = true \/ is_prefix k p = true)))
  /\ (forall f b k, pf_wf f = true ->
     (pf_iohp b k f = true <->
      exists p, 0 < pf_count b p f /\ (is_prefix p k = true \/ is_prefix k p = true))).
Proof.
  apply pnode_pforest_ind.
  - intros c ch IHf k Hwf. pose proof Hwf as Hwf0. apply pn_wf_parts in Hwf as (Hw & Hs & Hc & Hnil).
    rewrite pn_iohp_eq. destruct k as [|b k].
    + split; [|reflexivity]. intros _.
      destruct (proj1 pn_wf_inhabited_mut _ Hwf0) as [p Hp]. exists p. split; [exact Hp|]. right. reflexivity.
    + destruct (N.eqb_spec c 0) as [->|Hc0].
      * rewrite (IHf b k Hw). split.
        -- intros (p & Hp & Hrel). exists (b :: p). rewrite pn_count_eq. split; [exact Hp|].
           cbn. rewrite N.eqb_refl. exact Hrel.
        -- intros (p & Hp & Hrel). rewrite pn_count_eq in Hp. destruct p as [|x p]; [lia|].
           cbn in Hrel. rewrite (N.eqb_sym b x) in Hrel.
           destruct (N.eqb_spec x b) as [->|Hx]; cbn in Hrel; [|destruct Hrel; discriminate].
           exists p. split; assumption.
      * split; [|reflexivity]. intros _. exists []. rewrite pn_count_eq. split; [lia|]. left. reflexivity.
  - intros b k _. cbn. split; [discriminate|]. intros (p & Hp & _). lia.
  - intros b0 n IHn r IHr b k Hwf. rewrite pf_wf_cons in Hwf. apply andb_true_iff in Hwf as [Hwn Hwr].
    rewrite pf_iohp_cons. destruct (N.eqb_spec b b0) as [->|Hne].
    + rewrite (IHn k Hwn). split; intros (p & Hp & Hrel); exists p; rewrite pf_count_cons, N.eqb_refl in *; auto.
    + rewrite (IHr b k Hwr). split; intros (p & Hp & Hrel); exists p; rewrite pf_count_cons in *;
        destruct (N.eqb_spec b b0); try congruence; auto.
Qed.

(** * Map-level statements *)

Lemma pm_count_insert k m m' k' :
  pm_wf m = true -> pm_insert k m = Some m' ->
  pm_count k' m' = if list_eqb k k' then pm_count k' m + 1 else pm_count k' m.
Proof.
  destruct m as [n|]; cbn [pm_wf pm_insert pm_count].
  - intros Hwf H. destruct (pn_insert k n) as [n'|] eqn:E; [|discriminate]. cbn in H. inversion H; subst.
    cbn [pm_count]. eapply (proj1 pn_count_insert_mut); eassumption.
  - intros _ H. inversion H; subst. cbn [pm_count]. rewrite pn_count_fresh. destruct (list_eqb k k'); reflexivity.
Qed.

Lemma pm_insert_none k m : pm_wf m = true -> (pm_insert k m = None <-> pm_count k m = MAXC).
Proof.
  destruct m as [n|]; cbn [pm_wf pm_insert pm_count].
  - intros Hwf. rewrite <- (proj1 pn_insert_none_mut n k Hwf).
    destruct (pn_insert k n); cbn; split; intros H; (discriminate H || reflexivity).
  - intros _. split; [discriminate | intros H; inversion H].
Qed.

Lemma pm_wf_insert k m m' : pm_wf m = true -> pm_insert k m = Some m' -> pm_wf m' = true.
Proof.
  destruct m as [n|]; cbn [pm_wf pm_insert].
  - intros Hwf H. destruct (pn_insert k n) as [n'|] eqn:E; [|discriminate]. cbn in H. inversion H; subst.
    cbn [pm_wf]. eapply (proj1 pn_wf_insert_mut); eassumption.
  - intros _ H. inversion H; subst. cbn [pm_wf]. apply pn_wf_fresh.
Qed.

Lemma pm_count_pno k o : pm_count k o = pno_count k o.
Proof. destruct o; reflexivity. Qed.
Lemma pm_wf_pno o : pm_wf o = pno_wf o.
Proof. destruct o; reflexivity. Qed.

Lemma pm_delete_spec k m k' :
  pm_wf m = true ->
  snd (pm_delete k m) = negb (pm_count k m =? 0)
  /\ pm_count k' (fst (pm_delete k m)) = (if list_eqb k k' then pm_count k' m - 1 else pm_count k' m)
  /\ pm_wf (fst (pm_delete k m)) = true.
Proof.
  destruct m as [n|].
  - intros Hwf. destruct (proj1 pn_delete_mut n k k' Hwf) as (A & B & C).
    rewrite pm_count_pno, pm_wf_pno. unfold pm_delete. cbn [pm_count].
    split; [exact A|]. split; [exact B | exact C].
  - intros _. cbn. repeat split; auto. destruct (list_eqb k k'); reflexivity.
Qed.

Lemma pm_no_prefix_spec k m :
  pm_no_prefix k m = true <-> (forall p, is_prefix p k = true -> pm_count p m = 0).
Proof.
  destruct m as [n|]; cbn [pm_no_prefix pm_count]; [apply pn_no_prefix_mut|]. split; auto.
Qed.

Lemma pm_iohp_spec k m :
  pm_wf m = true ->
  (pm_iohp k m = true <->
   exists p, 0 < pm_count p m /\ (is_prefix p k = true \/ is_prefix k p = true)).
Proof.
  destruct m as [n|]; cbn [pm_wf pm_iohp pm_count]; [apply pn_iohp_mut|].
  intros _. split; [discriminate|]. intros (p & Hp & _). lia.
Qed.

(** * Every history of the prefix map is a history of the multiset *)

Lemma bag_count_cons k x b :
  bag_count k (x :: b) = if list_eqb k x then bag_count k b + 1 else bag_count k b.
Proof.
  unfold bag_count. cbn [filter]. destruct (list_eqb k x); [|reflexivity].
  cbn [length]. lia.
Qed.

Lemma bag_count_pos k b : 0 < bag_count k b <-> In k b.
Proof.
  induction b as [|x b IH]; [cbn; split; [lia | intros []]|].
  rewrite bag_count_cons. destruct (list_eqb k x) eqn:E.
  - apply list_eqb_spec in E. subst. split; [intros _; left; reflexivity | lia].
  - rewrite IH. apply list_eqb_neq in E. split; [intros H; right; exact H | intros [H|H]; [congruence | exact H]].
Qed.

Lemma bag_count_remove k b k' :
  bag_count k' (bag_remove k b) = if list_eqb k k' then bag_count k' b - 1 else bag_count k' b.
Proof.
  induction b as [|x b IH]; cbn [bag_remove].
  - destruct (list_eqb k k'); reflexivity.
  - destruct (list_eqb k x) eqn:E.
    + apply list_eqb_spec in E. subst x. rewrite bag_count_cons, (list_eqb_sym k' k).
      destruct (list_eqb k k'); [lia | reflexivity].
    + rewrite !bag_count_cons, IH. destruct (list_eqb k' x) eqn:E2; [|reflexivity].
      apply list_eqb_spec in E2. subst x. rewrite E. reflexivity.
Qed.

Definition PInv (m : pmap) (b : bag) : Prop :=
  pm_wf m = true /\ forall k, pm_count k m = bag_count k b.

Lemma bool_eq_iff (a b : bool) : (a = true <-> b = true) -> a = b.
Proof. destruct a, b; intros [H1 H2]; auto; try (symmetry; auto). Qed.

Lemma pm_step_refines o m b :
  PInv m b ->
  snd (pm_step o m) = snd (bag_step o b) /\ PInv (fst (pm_step o m)) (fst (bag_step o b)).
Proof.
  intros [Hwf Hc]. destruct o as [k|k|k|k]; cbn [pm_step bag_step].
  - destruct (N.eqb_spec (bag_count k b) MAXC) as [E|E].
    + assert (X : pm_insert k m = None) by (apply pm_insert_none; [assumption | rewrite Hc; exact E]).
      rewrite X. cbn. split; [reflexivity | split; assumption].
    + destruct (pm_insert k m) as [m'|] eqn:X.
      * cbn [fst snd]. split; [reflexivity|]. split; [eapply pm_wf_insert; eassumption|].
        intros k'. rewrite (pm_count_insert k m m' k' Hwf X), bag_count_cons, Hc, (list_eqb_sym k' k).
        reflexivity.
      * exfalso. apply E. rewrite <- Hc. apply pm_insert_none; assumption.
  - destruct (pm_delete_spec k m k Hwf) as (A & _ & C).
    cbn [fst snd]. split; [rewrite A, Hc; reflexivity|]. split; [exact C|].
    intros k'. destruct (pm_delete_spec k m k' Hwf) as (_ & B & _).
    rewrite B, bag_count_remove, Hc. reflexivity.
  - cbn [fst snd]. split; [|split; assumption].
    apply bool_eq_iff. rewrite pm_no_prefix_spec, negb_true_iff. split.
    + intros H. destruct (existsb (fun p => is_prefix p k) b) eqn:E; [|reflexivity].
      apply existsb_exists in E as (p & Hin & Hp). specialize (H p Hp). rewrite Hc in H.
      apply bag_count_pos in Hin. lia.
    + intros H p Hp. rewrite Hc. destruct (N.eq_0_gt_0_cases (bag_count p b)) as [Z|Z]; [exact Z|].
      apply bag_count_pos in Z. exfalso.
      assert (X : existsb (fun p => is_prefix p k) b = true) by (apply existsb_exists; eauto).
      congruence.
  - cbn [fst snd]. split; [|split; assumption].
    apply bool_eq_iff. rewrite (pm_iohp_spec k m Hwf), existsb_exists. split.
    + intros (p & Hp & Hrel). rewrite Hc in Hp. apply bag_count_pos in Hp. exists p. split; [exact Hp|].
      apply orb_true_iff. exact Hrel.
    + intros (p & Hin & Hrel). exists p. rewrite Hc. split; [apply bag_count_pos; exact Hin|].
      apply orb_true_iff. exact Hrel.
Qed.

Theorem pm_run_refines ops m b :
  PInv m b ->
  snd (pm_run ops m) = snd (bag_run ops b) /\ PInv (fst (pm_run ops m)) (fst (bag_run ops b)).
Proof.
  revert m b. induction ops as [|o ops IH]; intros m b Hinv; cbn [pm_run bag_run].
  - cbn. split; [reflexivity | assumption].
  - destruct (pm_step_refines o m b Hinv) as [Hout Hinv'].
    destruct (pm_step o m) as [m' x]. destruct (bag_step o b) as [b' y]. cbn [fst snd] in *.
    destruct (IH m' b' Hinv') as [Houts Hinv''].
    destruct (pm_run ops m') as [m'' xs]. destruct (bag_run ops b') as [b'' ys]. cbn [fst snd] in *.
    split; [congruence | assumption].
Qed.

Lemma PInv_init : PInv None [].
Proof. split; reflexivity. Qed.
