(** The invariant of the C04 machine and the storage theorems for REACHABLE states
    (no [tree_ok] / [tok] / [bounded] / [consistent] hypothesis: they are derived from the
    operation history).  See [PersistReach.v] for the depth invariant [kb]. *)
From Coq Require Import NArith ZArith PeanoNat List Bool Lia.
From CB Require Import Common.Codec.
From CB Require Import Common.CodecProofs.
From CB Require Import Trie.Radix.
From CB Require Import Trie.RadixProofs.
From CB Require Import Trie.MerkleHash.
From CB Require Import Trie.MerkleHashProofs.
From CB Require Import Trie.Persist.
From CB Require Import Trie.PersistProofs.
From CB Require Import Trie.PersistFreezeProofs.
From CB Require Import Trie.SerializeProofs.
From CB Require Import Trie.PersistReach.
Import ListNotations.
Local Open Scope N_scope.

Lemma Forall_skipn_own {A} (P : A -> Prop) n : forall l, Forall P l -> Forall P (skipn n l).
Proof.
  induction n as [|n IH]; intros l H; [exact H|]. destruct l as [|x l]; [exact H|].
  cbn [skipn]. apply IH. inversion H; assumption.
Qed.

(** [migrate] does not look at the annotations: it is [store_node] of the stripped
    (purely in-memory) tree. *)
Lemma erase_strip_mut :
  (forall t, erase (strip t) = erase t) /\ (forall f, erase_f (strip_f f) = erase_f f).
Proof.
  apply atree_aforest_ind.
  - intros o p ov cs IH. cbn [strip erase]. rewrite IH. destruct ov as [[v a]|]; reflexivity.
  - reflexivity.
  - intros c t IHt r IHr. cbn [strip_f erase_f]. rewrite IHt, IHr. reflexivity.
Qed.

Lemma labels_strip f : labels (strip_f f) = labels f.
Proof. induction f as [|c t r IH]; [reflexivity|]. cbn [strip_f labels]. rewrite IH. reflexivity. Qed.

Lemma in_memory_strip_mut :
  (forall t, in_memory (strip t) = true) /\ (forall f, in_memory_f (strip_f f) = true).
Proof.
  apply atree_aforest_ind.
  - intros o p ov cs IH. cbn [strip in_memory]. rewrite IH. destruct ov as [[v a]|]; reflexivity.
  - reflexivity.
  - intros c t IHt r IHr. cbn [strip_f in_memory_f]. rewrite IHt, IHr. reflexivity.
Qed.

Section Machine.
Variable sha256 : list N -> list N.

Lemma migrate_value_strip ov st :
  migrate_value sha256 (match ov with Some (v, _) => Some (v, Some None) | None => None end) st
  = migrate_value sha256 ov st.
Proof. destruct ov as [[v a]|]; reflexivity. Qed.

Lemma migrate_strip_mut :
  (forall t st, migrate_node sha256 (strip t) st = migrate_node sha256 t st)
  /\ (forall f st, migrate_children sha256 (strip_f f) st = migrate_children sha256 f st).
Proof.
  apply atree_aforest_ind.
  - intros o p ov cs IH st.
    change (strip (AN o p ov cs))
      with (AN (Some None) p (match ov with Some (v, _) => Some (v, Some None) | None => None end) (strip_f cs)).
    rewrite !migrate_node_eq, IH, labels_strip.
    destruct (migrate_children sha256 cs st) as [[st1 cs'] refs]. rewrite migrate_value_strip.
    assert (E : erase (AN (Some None) p (match ov with Some (v, _) => Some (v, Some None) | None => None end) (strip_f cs))
                = erase (AN o p ov cs)) by (apply (proj1 erase_strip_mut (AN o p ov cs))).
    rewrite E. reflexivity.
  - reflexivity.
  - intros c t IHt r IHr st. cbn [strip_f]. rewrite !migrate_children_cons, IHr.
    destruct (migrate_children sha256 r st) as [[st1 r'] refs]. rewrite IHt. reflexivity.
Qed.

Hypothesis sha_len : forall x, length (sha256 x) = 32%nat.
Variable B : N.
Hypothesis B_u32 : B < 2 ^ 32.

(** What the machine may be asked to insert: byte keys of at most [B / 2] bytes, values
    shorter than 2^32.  Keys of delete / delete_prefix / lookups are unrestricted. *)
Definition key_ok (k : list N) : Prop := bytes_ok k = true /\ 2 * lenN k <= B.
Definition cop_ok (o : cop) : Prop :=
  match o with
  | CInsert k v => key_ok k /\ lenN v < 2 ^ 32
  | CMut _ v => lenN v < 2 ^ 32
  | _ => True
  end.

Definition rb (r : option atree) : Prop := match r with Some t => kb B 0 t | None => True end.
Definition gen_ok (st : store) (r : option atree) : Prop := rb r /\ pre_cons_root sha256 st r.

Definition inv (s : cstate) : Prop :=
  bounded (c_store s) /\ rb (c_pers s) /\ consistent_root sha256 (c_store s) (c_pers s)
  /\ match c_mut s with Some g => Forall (gen_ok (c_store s)) g | None => True end.

Lemma inv_init : inv c_init.
Proof. unfold inv, c_init. cbn. repeat split; try exact I. apply bounded_empty. Qed.

Lemma cons_gen_ok st r : rb r -> consistent_root sha256 st r -> gen_ok st r.
Proof.
  intros A C. split; [exact A|]. destruct r as [t|]; [|exact I].
  apply (proj1 (consistent_pre_mut sha256 st)). exact C.
Qed.

Lemma inv_gens s : inv s -> Forall (gen_ok (c_store s)) (gens s).
Proof.
  intros (Hb & Hp & Hc & Hg). unfold gens, thaw.
  pose proof (cons_gen_ok _ _ Hp Hc) as G.
  destruct (c_mut s) as [[|r g]|]; [constructor; [exact G | constructor] | exact Hg | constructor; [exact G | constructor]].
Qed.

Lemma gens_cur s : exists rest, gens s = cur_root s :: rest.
Proof. unfold gens, cur_root, thaw. destruct (c_mut s) as [[|r g]|]; eauto. Qed.

Lemma cur_ok s : inv s -> gen_ok (c_store s) (cur_root s).
Proof.
  intros H. pose proof (inv_gens s H) as G. destruct (gens_cur s) as [rest E]. rewrite E in G.
  inversion G; assumption.
Qed.

Lemma set_cur_inv s r : inv s -> gen_ok (c_store s) r -> inv (set_cur s r).
Proof.
  intros Hi Hr. pose proof (inv_gens s Hi) as Hg. destruct Hi as (Hb & Hp & Hc & _).
  unfold set_cur. destruct (gens s) as [|x rest]; unfold inv; cbn [c_store c_pers c_mut];
    (split; [exact Hb|]; split; [exact Hp|]; split; [exact Hc|]); constructor; try exact Hr; try constructor.
  inversion Hg; assumption.
Qed.

Lemma do_freeze_inv s : inv s -> inv (fst (do_freeze s)) /\ c_mut (fst (do_freeze s)) = None
                                  /\ c_store (fst (do_freeze s)) = c_store s.
Proof.
  intros Hi. destruct (cur_ok s Hi) as [Hr Hp]. destruct Hi as (Hb & _ & _ & _).
  unfold do_freeze. destruct (cur_root s) as [t|]; cbn [freeze_root].
  - pose proof (proj1 (kb_freeze_mut B) t 0 Hr) as K.
    pose proof (proj1 (freeze_consistent_mut sha256 (c_store s)) t Hp) as C.
    destruct (freeze t) as [[ch t'] n]. cbn [fst snd] in *. unfold inv. cbn [c_store c_pers c_mut rb consistent_root].
    repeat split; try assumption.
  - cbn [fst]. unfold inv. cbn [c_store c_pers c_mut rb consistent_root]. repeat split; try assumption.
Qed.

Lemma settle_inv s : inv s -> inv (settle s) /\ c_mut (settle s) = None /\ c_store (settle s) = c_store s.
Proof.
  intros Hi. unfold settle. destruct (c_mut s) as [g|] eqn:E.
  - apply do_freeze_inv. exact Hi.
  - split; [exact Hi|]. split; [exact E | reflexivity].
Qed.

Lemma kb_reann n o o' p ov cs : kb B n (AN o p ov cs) -> kb B n (AN o' p ov cs).
Proof. exact (fun H => H). Qed.

Lemma store_update_inv st r st' kept loaded top :
  bounded st -> rb r -> consistent_root sha256 st r ->
  store_update sha256 r st = (st', kept, loaded, top) -> s_next st' < 2 ^ 64 ->
  bounded st' /\ rb kept /\ rb loaded
  /\ consistent_root sha256 st' kept /\ consistent_root sha256 st' loaded.
Proof.
  intros Hb Hr Hc E Hn. destruct r as [t|].
  - cbn [rb consistent_root] in Hr, Hc.
    pose proof (proj1 (kb_tree_ok_mut B B_u32) t 0 Hr) as Hok.
    destruct (store_update_incremental sha256 sha_len t st st' kept loaded top E Hok Hb Hc Hn)
      as (_ & _ & _ & Hb' & Ck & Cl).
    split; [exact Hb'|].
    unfold store_update in E.
    pose proof (proj1 (kb_store_mut B sha256) t 0 st Hr) as K.
    destruct (store_node sha256 t st) as [[st1 t1] x]. cbn [fst snd] in K.
    destruct (store_raw st1 (1 :: be64 x)) as [st2 tp]. injection E as <- <- <- <-.
    split; [|split; [exact K|]].
    + destruct t as [[[r0|]|] p ov cs]; destruct t1 as [o1 p1 ov1 cs1]; cbn [rb]; try exact Hr; exact K.
    + split; [exact Ck | exact Cl].
  - unfold store_update in E. destruct (store_raw st [0]) as [st1 tp] eqn:E1. injection E as <- <- <- <-.
    destruct (store_raw_props _ _ _ _ E1 Hb) as (Hb' & _). cbn [rb consistent_root]. auto.
Qed.

Lemma migrate_inv r st' r' :
  rb r -> migrate sha256 r empty_store = (st', r') -> s_next st' < 2 ^ 64 ->
  bounded st' /\ rb r' /\ consistent_root sha256 st' r'.
Proof.
  intros Hr E Hn. unfold migrate in E. destruct r as [t|].
  - cbn [rb] in Hr. rewrite <- (proj1 migrate_strip_mut t empty_store) in E.
    rewrite <- (proj1 (store_is_migrate_mut sha256) (strip t) empty_store (proj1 in_memory_strip_mut t)) in E.
    pose proof (proj1 (kb_strip_mut B) t 0 Hr) as Ks.
    pose proof (proj1 (kb_store_mut B sha256) (strip t) 0 empty_store Ks) as K.
    destruct (store_node sha256 (strip t) empty_store) as [[st1 t1] x] eqn:E1. cbn [fst snd] in K.
    injection E as <- <-.
    destruct (proj1 (store_props_mut sha256 sha_len) (strip t) empty_store st1 t1 x E1 bounded_empty
                (proj1 (kb_tree_ok_mut B B_u32) _ 0 Ks)
                (proj1 (in_memory_consistent_mut sha256 empty_store) _ (proj1 in_memory_strip_mut t)) Hn)
      as (Hb' & _ & _ & _ & _ & Cc & _).
    cbn [rb consistent_root]. auto.
  - injection E as <- <-. cbn [rb consistent_root]. split; [apply bounded_empty | auto].
Qed.

(** Every step keeps the invariant (the only resource assumption: the store stays below
    2^64 bytes, the range of a [Reference]). *)
Lemma step_inv o s :
  inv s -> cop_ok o -> s_next (c_store (fst (c_step sha256 o s))) < 2 ^ 64 -> inv (fst (c_step sha256 o s)).
Proof.
  intros Hi Ho Hn. pose proof (cur_ok s Hi) as [Hr Hp].
  destruct o as [k v|k|k|k|k v|k| |r| | | | | | ]; cbn [c_step cop_ok] in *.
  - (* insert *)
    cbn [fst]. apply set_cur_inv; [exact Hi|]. destruct Ho as [[Hkb Hkl] Hv]. split.
    + cbn [rb]. destruct (cur_root s) as [t|]; cbn [a_insert_root].
      * apply (proj1 (kb_insert_mut B)); try assumption; [apply nibbles_ok_nib; exact Hkb | rewrite lenN_nib; lia].
      * apply kb_leaf; try assumption; [apply nibbles_ok_nib; exact Hkb | rewrite lenN_nib; lia].
    + exact (pre_cons_apply sha256 (c_store s) (MInsert (nib k) v) (cur_root s) Hp).
  - (* delete *)
    destruct (cur_root s) as [t|] eqn:Ec; cbn [fst]; (apply set_cur_inv; [exact Hi|]); [|split; exact I].
    split.
    + destruct (a_delete (nib k) t) as [t'|] eqn:E; [|exact I]. cbn [rb] in *.
      eapply (proj1 (kb_delete_mut B)); eassumption.
    + exact (pre_cons_apply sha256 (c_store s) (MDelete (nib k)) (Some t) Hp).
  - (* delete_prefix *)
    destruct (cur_root s) as [t|] eqn:Ec; cbn [fst]; (apply set_cur_inv; [exact Hi|]); [|split; exact I].
    split.
    + destruct (a_delete_prefix (nib k) t) as [t'|] eqn:E; [|exact I]. cbn [rb] in *.
      eapply (proj1 (kb_delete_prefix_mut B)); eassumption.
    + exact (pre_cons_apply sha256 (c_store s) (MDelPrefix (nib k)) (Some t) Hp).
  - (* get *) cbn [fst]. apply set_cur_inv; [exact Hi | split; assumption].
  - (* get_mut + write *)
    destruct (cur_root s) as [t|] eqn:Ec; cbn [fst]; (apply set_cur_inv; [exact Hi|]); [|split; exact I].
    split.
    + cbn [rb] in *. apply (proj1 (kb_setval_mut B)); assumption.
    + exact (pre_cons_apply sha256 (c_store s) (MSetval (nib k) v) (Some t) Hp).
  - (* iterate *) cbn [fst]. apply set_cur_inv; [exact Hi | split; assumption].
  - (* new generation *)
    cbn [fst]. pose proof (inv_gens s Hi) as Hg. destruct Hi as (Hb & Hpp & Hc & _).
    unfold inv. cbn [c_store c_pers c_mut]. repeat split; try assumption.
    destruct (gens s) as [|r0 g]; [constructor|]. constructor; [inversion Hg; assumption | exact Hg].
  - (* normalize *)
    cbn [fst]. pose proof (inv_gens s Hi) as Hg. destruct Hi as (Hb & Hpp & Hc & _).
    unfold inv. cbn [c_store c_pers c_mut]. repeat split; try assumption.
    apply Forall_skipn_own. exact Hg.
  - (* freeze *)
    pose proof (do_freeze_inv s Hi) as (A & _ & _). destruct (do_freeze s) as [s' n]. exact A.
  - (* store *)
    destruct (settle_inv s Hi) as ((Hb0 & Hr0 & Hc0 & _) & Hm0 & Hs0).
    destruct (store_update sha256 (c_pers (settle s)) (c_store (settle s))) as [[[st kept] loaded] top] eqn:E.
    cbn [fst c_store] in *.
    destruct (store_update_inv _ _ _ _ _ _ Hb0 Hr0 Hc0 E Hn) as (A & Bk & Bl & Ck & Cl).
    unfold inv. cbn [c_store c_pers c_mut]. auto.
  - (* load *)
    destruct (settle_inv s Hi) as ((Hb0 & Hr0 & Hc0 & _) & Hm0 & Hs0).
    destruct (store_update sha256 (c_pers (settle s)) (c_store (settle s))) as [[[st kept] loaded] top] eqn:E.
    cbn [fst c_store] in *.
    destruct (store_update_inv _ _ _ _ _ _ Hb0 Hr0 Hc0 E Hn) as (A & Bk & Bl & Ck & Cl).
    unfold inv. cbn [c_store c_pers c_mut]. auto.
  - (* cache *)
    destruct (settle_inv s Hi) as ((Hb0 & Hr0 & Hc0 & _) & Hm0 & Hs0).
    cbn [fst]. unfold inv, cache. cbn [c_store c_pers c_mut]. auto.
  - (* serialize: the machine continues with the deserialised (in-memory) state *)
    destruct (settle_inv s Hi) as ((Hb0 & Hr0 & Hc0 & _) & Hm0 & Hs0).
    cbn [fst]. unfold inv. cbn [c_store c_pers c_mut]. split; [exact Hb0|].
    destruct (c_pers (settle s)) as [t|]; cbn [option_map rb consistent_root]; [|auto].
    split; [apply (proj1 (kb_strip_mut B)); exact Hr0|]. split; [|exact I].
    apply (proj1 (in_memory_consistent_mut sha256 _)). apply (proj1 in_memory_strip_mut).
  - (* migrate *)
    destruct (settle_inv s Hi) as ((Hb0 & Hr0 & Hc0 & _) & Hm0 & Hs0).
    destruct (migrate sha256 (c_pers (settle s)) empty_store) as [st r] eqn:E. cbn [fst c_store] in *.
    destruct (migrate_inv _ _ _ Hr0 E Hn) as (A & Br & Cr).
    unfold inv. cbn [c_store c_pers c_mut]. auto.
Qed.

(** Reachable states: any history of machine operations with admissible inserts, every
    intermediate store below 2^64 bytes. *)
Inductive reach : cstate -> Prop :=
| reach_init : reach c_init
| reach_step o s : reach s -> cop_ok o -> s_next (c_store (fst (c_step sha256 o s))) < 2 ^ 64 ->
                   reach (fst (c_step sha256 o s)).

Theorem reach_inv s : reach s -> inv s.
Proof. induction 1 as [|o s _ IH Ho Hn]; [apply inv_init | apply step_inv; assumption]. Qed.

(** (1) [tree_ok] (and the stronger [tok] of the contents) hold for the persistent state and
    for the tree the current generation freezes to, in every reachable state. *)
Theorem reach_tree_ok s : reach s ->
  root_ok (c_pers s) /\ root_ok (c_pers (settle s))
  /\ (forall t, c_pers (settle s) = Some t -> tok (erase t))
  /\ bounded (c_store s) /\ consistent_root sha256 (c_store (settle s)) (c_pers (settle s)).
Proof.
  intros H. pose proof (reach_inv s H) as Hi.
  destruct (settle_inv s Hi) as ((Hb0 & Hr0 & Hc0 & _) & _ & Hs0).
  destruct Hi as (Hb & Hr & _ & _).
  split; [destruct (c_pers s) as [t|]; [exact (proj1 (kb_tree_ok_mut B B_u32) t 0 Hr) | exact I]|].
  split; [destruct (c_pers (settle s)) as [t|]; [exact (proj1 (kb_tree_ok_mut B B_u32) t 0 Hr0) | exact I]|].
  split; [intros t E; rewrite E in Hr0; exact (proj1 (kb_tok_mut B B_u32) t 0 Hr0)|].
  split; [exact Hb | exact Hc0].
Qed.

(** (2) store / load round trip for reachable states. *)
Theorem store_load_reachable s t st' kept loaded top :
  reach s -> c_pers (settle s) = Some t ->
  store_update sha256 (Some t) (c_store (settle s)) = (st', kept, loaded, top) -> s_next st' < 2 ^ 64 ->
  erase_root kept = Some (erase t) /\ erase_root loaded = Some (erase t)
  /\ (exists x, root_ref loaded = Some x /\ load_raw st' top = Some (1 :: be64 x)
                /\ loads sha256 st' x (erase t))
  /\ bounded st'
  /\ (match kept with Some k => consistent sha256 st' k | None => False end)
  /\ (match loaded with Some l => consistent sha256 st' l | None => False end).
Proof.
  intros H Et E Hn. pose proof (reach_inv s H) as Hi.
  destruct (settle_inv s Hi) as ((Hb0 & Hr0 & Hc0 & _) & _ & _). rewrite Et in Hr0, Hc0.
  eapply store_update_incremental; try eassumption.
  exact (proj1 (kb_tree_ok_mut B B_u32) t 0 Hr0).
Qed.

(** (3) serialize / deserialize round trip for reachable states (the node count below
    2^32 is a resource bound of the format: parent distances are BE32). *)
Theorem serialize_reachable s t :
  reach s -> c_pers (settle s) = Some t -> N.of_nat (tsize (erase t)) < 2 ^ 32 ->
  deserialize (serialize sha256 (Some (erase t))) = Some (Some (erase t, hash_node sha256 (erase t)), []).
Proof.
  intros H Et Hsz. apply (deserialize_serialize sha256 sha_len); [|exact Hsz].
  exact (proj1 (proj2 (proj2 (reach_tree_ok s H))) t Et).
Qed.

(** (4) migrate for reachable states. *)
Theorem migrate_reachable s st' r' :
  reach s -> migrate sha256 (c_pers (settle s)) empty_store = (st', r') -> s_next st' < 2 ^ 64 ->
  erase_root r' = erase_root (c_pers (settle s))
  /\ match r' with
     | None => c_pers (settle s) = None
     | Some t' =>
         exists x, root_ref r' = Some x
         /\ forall fuel, (theight (erase t') <= fuel)%nat ->
              load_node fuel st' x = Some (erase t', hash_node sha256 (erase t'))
     end.
Proof.
  intros H E Hn. apply (migrate_loads sha256 sha_len); try assumption.
  exact (proj1 (proj2 (reach_tree_ok s H))).
Qed.

End Machine.

(** With [B = 2^32 - 1] (what [stem_len as u32] can hold) the admissible inserted keys are the
    byte strings of at most 2^31 - 1 bytes. *)
Lemma key_bound_exact k :
  key_ok (2 ^ 32 - 1) k <-> (bytes_ok k = true /\ lenN k <= 2 ^ 31 - 1).
Proof.
  unfold key_ok. change (2 ^ 32 - 1) with 4294967295. change (2 ^ 31 - 1) with 2147483647.
  split; intros [A C]; (split; [exact A | lia]).
Qed.
