(** The slab-based prefix map ([SlabPrefixMap.v]) refines the functional prefix trie
    ([PrefixMap.v]) and hence the multiset of prefixes: representation relation with footprints
    (no sharing, no dangling keys), per-operation commutation, histories. *)
From Coq Require Import NArith PeanoNat List Bool Lia.
From CB Require Import Trie.Radix Trie.RadixProofs Trie.PrefixMap Trie.PrefixMapProofs Trie.SlabPrefixMap.
Import ListNotations.
Local Open Scope N_scope.

Notation cells := (list (option inode)).

(** * Lists with update *)
Lemma nth_upd_eq {A} (l : list A) i v : (i < length l)%nat -> nth_error (upd i v l) i = Some v.
Proof.
  revert i; induction l as [|x l IH]; intros [|i] H; cbn in *; try lia; auto. apply IH; lia.
Qed.
Lemma nth_upd_ne {A} (l : list A) i j v : i <> j -> nth_error (upd i v l) j = nth_error l j.
Proof.
  revert i j; induction l as [|x l IH]; intros [|i] [|j] H; cbn; auto; try congruence.
Qed.
Lemma length_upd {A} (l : list A) i v : length (upd i v l) = length l.
Proof. revert i; induction l as [|x l IH]; intros [|i]; cbn; auto. Qed.

Definition occ (s : cells) (x : nat) : Prop := exists v, nth_error s x = Some (Some v).
Definition vac (s : cells) (x : nat) : Prop := nth_error s x = Some None.

Lemma occ_dec s x : {occ s x} + {~ occ s x}.
Proof.
  unfold occ. destruct (nth_error s x) as [[v|]|]; [left; eauto | right | right]; intros [v H]; discriminate.
Qed.
Lemma occ_lt s x : occ s x -> (x < length s)%nat.
Proof. intros [v H]. apply nth_error_Some. congruence. Qed.
Lemma cget_occ s x v : cget s x = Some v <-> nth_error s x = Some (Some v).
Proof. unfold cget. destruct (nth_error s x) as [[w|]|]; split; congruence. Qed.

(** * Representation *)
Fixpoint rep (s : cells) (n : pnode) (i : nat) (fp : list nat) {struct n} : Prop :=
  match n with
  | PNode c ch => exists kids fp', nth_error s i = Some (Some (c, kids)) /\ repf s ch kids fp'
                                   /\ ~ In i fp' /\ fp = i :: fp'
  end
with repf (s : cells) (f : pforest) (kids : list (N * nat)) (fp : list nat) {struct f} : Prop :=
  match f with
  | PNil => kids = [] /\ fp = []
  | PCons b n r => exists j kids' fp1 fp2, kids = (b, j) :: kids' /\ rep s n j fp1 /\ repf s r kids' fp2
                                           /\ (forall x, In x fp1 -> ~ In x fp2) /\ fp = fp1 ++ fp2
  end.

Lemma rep_occ_mut :
  (forall n s i fp, rep s n i fp -> forall x, In x fp -> occ s x)
  /\ (forall f s kids fp, repf s f kids fp -> forall x, In x fp -> occ s x).
Proof.
  apply pnode_pforest_ind.
  - intros c ch IH s i fp (kids & fp' & Hn & Hf & _ & ->) x [<-|Hx]; [eexists; eauto | eapply IH; eauto].
  - intros s kids fp [_ ->] x [].
  - intros b n IHn r IHr s kids fp (j & kids' & fp1 & fp2 & _ & Hn & Hr & _ & ->) x Hx.
    apply in_app_or in Hx as [Hx|Hx]; [eapply IHn | eapply IHr]; eauto.
Qed.
Definition rep_occ := proj1 rep_occ_mut.
Definition repf_occ := proj2 rep_occ_mut.

Lemma rep_frame_mut :
  (forall n s s' i fp, rep s n i fp -> (forall x, In x fp -> nth_error s' x = nth_error s x) -> rep s' n i fp)
  /\ (forall f s s' kids fp, repf s f kids fp -> (forall x, In x fp -> nth_error s' x = nth_error s x) ->
        repf s' f kids fp).
Proof.
  apply pnode_pforest_ind.
  - intros c ch IH s s' i fp (kids & fp' & Hn & Hf & Hni & ->) H.
    exists kids, fp'. repeat split; auto.
    + rewrite H; [exact Hn | left; reflexivity].
    + eapply IH; eauto. intros x Hx. apply H. right. exact Hx.
  - intros s s' kids fp H _. exact H.
  - intros b n IHn r IHr s s' kids fp (j & kids' & fp1 & fp2 & -> & Hn & Hr & Hd & ->) H.
    exists j, kids', fp1, fp2. repeat split; auto.
    + eapply IHn; eauto. intros x Hx. apply H. apply in_or_app. left. exact Hx.
    + eapply IHr; eauto. intros x Hx. apply H. apply in_or_app. right. exact Hx.
Qed.
Definition rep_frame := proj1 rep_frame_mut.
Definition repf_frame := proj2 rep_frame_mut.

(** Frame of a modification: occupied cells outside the old footprint are untouched; the new
    footprint consists of old footprint cells and of cells that were not occupied. *)
Definition Fr (s s' : cells) (fp fp' : list nat) : Prop :=
  (forall x, occ s x -> ~ In x fp -> nth_error s' x = nth_error s x)
  /\ (forall x, In x fp' -> In x fp \/ ~ occ s x).

(** Free-list invariant: the free stack holds distinct vacant keys. *)
Definition FreeInv (s : slab) : Prop :=
  NoDup (sl_free s) /\ forall x, In x (sl_free s) -> vac (sl_cells s) x.

Lemma FreeInv_set s i v : FreeInv s -> occ (sl_cells s) i -> FreeInv (sl_set s i v).
Proof.
  intros [Hnd Hv] [w Hi]. split; [exact Hnd|]. intros x Hx. cbn. unfold vac.
  rewrite nth_upd_ne; [apply Hv; exact Hx|]. intros ->. specialize (Hv _ Hx). unfold vac in Hv. congruence.
Qed.

Lemma FreeInv_remove s i : FreeInv s -> occ (sl_cells s) i -> FreeInv (sl_remove s i).
Proof.
  intros [Hnd Hv] [w Hi]. split; cbn.
  - constructor; [|exact Hnd]. intros Hx. specialize (Hv _ Hx). unfold vac in Hv. congruence.
  - intros x [<-|Hx]; unfold vac.
    + apply nth_upd_eq. apply nth_error_Some. congruence.
    + rewrite nth_upd_ne; [apply Hv; exact Hx|]. intros ->. specialize (Hv _ Hx). unfold vac in Hv. congruence.
Qed.

Lemma alloc_spec s v s1 nw :
  FreeInv s -> sl_alloc s v = (s1, nw) ->
  ~ occ (sl_cells s) nw /\ nth_error (sl_cells s1) nw = Some (Some v)
  /\ (forall x, x <> nw -> occ (sl_cells s) x -> nth_error (sl_cells s1) x = nth_error (sl_cells s) x)
  /\ FreeInv s1.
Proof.
  intros [Hnd Hv] H. unfold sl_alloc in H. destruct (sl_free s) as [|k f] eqn:E.
  - inversion H; subst; clear H. cbn. repeat split.
    + intros Ho. apply occ_lt in Ho. lia.
    + rewrite nth_error_app2 by lia. rewrite Nat.sub_diag. reflexivity.
    + intros x _ Ho. apply nth_error_app1. apply occ_lt. exact Ho.
    + constructor.
    + intros x [].
  - inversion H; subst; clear H. cbn.
    assert (Hk : vac (sl_cells s) nw) by (apply Hv; left; reflexivity).
    repeat split.
    + intros [w Ho]. unfold vac in Hk. congruence.
    + apply nth_upd_eq. apply nth_error_Some. unfold vac in Hk. congruence.
    + intros x Hx _. apply nth_upd_ne. congruence.
    + inversion Hnd; assumption.
    + cbn. intros x Hx. unfold vac. rewrite nth_upd_ne.
      * apply Hv. right. exact Hx.
      * intros ->. inversion Hnd; contradiction.
Qed.

(** * Children lists versus forests *)
Lemma repf_nil_iff s f kids fp : repf s f kids fp -> (kids = [] <-> f = PNil).
Proof.
  destruct f; cbn.
  - intros [-> _]. tauto.
  - intros (j & kids' & fp1 & fp2 & -> & _). split; discriminate.
Qed.

Fixpoint pf_has (b : N) (f : pforest) : bool :=
  match f with PNil => false | PCons b' _ r => (b =? b') || pf_has b r end.

Lemma pall_gt_has b0 b f : pall_gt b0 f = true -> pf_has b f = true -> b0 < b.
Proof.
  induction f as [|b' n r IH]; cbn; [discriminate|].
  intros H1 H2. apply andb_true_iff in H1 as [H1 H1']. apply N.ltb_lt in H1.
  apply orb_true_iff in H2 as [H2|H2]; [apply N.eqb_eq in H2; subst; exact H1 | auto].
Qed.

Lemma repf_get_has s f kids fp b :
  repf s f kids fp -> pf_has b f = match kids_get b kids with Some _ => true | None => false end.
Proof.
  revert kids fp. induction f as [|b' n r IH]; intros kids fp; cbn.
  - intros [-> _]. reflexivity.
  - intros (j & kids' & fp1 & fp2 & -> & _ & Hr & _). cbn. destruct (b =? b'); cbn; [reflexivity|].
    eapply IH; eauto.
Qed.

(** The child found by [kids_get] and what the forest functions do with it. *)
Lemma repf_split f : forall s kids fp b, repf s f kids fp ->
  match kids_get b kids with
  | Some j =>
      exists n fpj (F : pnode -> pforest) (G : pforest),
        rep s n j fpj /\ incl fpj fp
        /\ (pf_wf f = true -> pn_wf n = true)
        /\ (forall k, pf_count b k f = pn_count k n)
        /\ (forall k, pf_no_prefix b k f = pn_no_prefix k n)
        /\ (forall k, pf_iohp b k f = pn_iohp k n)
        /\ (forall k, pf_delete b k f =
                      match pn_delete k n with (Some n', x) => (F n', x) | (None, x) => (G, x) end)
        /\ (psorted f = true -> forall k, pf_insert b k f = option_map F (pn_insert k n))
        /\ (forall n', F n' <> PNil)
        /\ (forall s' n' fpj', rep s' n' j fpj' -> Fr s s' fpj fpj' ->
              exists fp', repf s' (F n') kids fp' /\ (forall x, In x fp' -> In x fp \/ ~ occ s x))
        /\ (forall s', (forall x, In x fp -> ~ In x fpj -> nth_error s' x = nth_error s x) ->
              exists fp', repf s' G (kids_remove b kids) fp' /\ incl fp' fp)
  | None =>
      (forall k, pf_count b k f = 0) /\ (forall k, pf_no_prefix b k f = true)
      /\ (forall k, pf_iohp b k f = false) /\ (forall k, pf_delete b k f = (f, false))
      /\ (psorted f = true -> forall k, exists f', pf_insert b k f = Some f' /\
            forall s' nw fpn, rep s' (pn_fresh k) nw fpn ->
              (forall x, In x fp -> nth_error s' x = nth_error s x) ->
              (forall x, In x fpn -> ~ In x fp) ->
              exists fp', repf s' f' (kids_insert b nw kids) fp'
                          /\ (forall x, In x fp' -> In x fpn \/ In x fp))
  end.
Proof.
  induction f as [|b0 n0 r IH]; intros s kids fp b H.
  - cbn in H. destruct H as [-> ->]. cbn. repeat split; auto.
    intros _ k. eexists. split; [reflexivity|]. intros s' nw fpn Hn _ _.
    exists (fpn ++ []). split.
    + cbn. exists nw, [], fpn, []. repeat split; auto.
    + intros x Hx. left. rewrite app_nil_r in Hx. exact Hx.
  - pose proof H as H0. cbn [repf] in H. destruct H as (j0 & kids' & fp1 & fp2 & -> & Hn & Hr & Hd & ->).
    cbn [kids_get]. destruct (N.eqb_spec b b0) as [->|Hne].
    + exists n0, fp1, (fun n' => PCons b0 n' r), r.
      split; [exact Hn|]. split; [apply incl_appl, incl_refl|].
      split; [rewrite pf_wf_cons; intros Hw; apply andb_true_iff in Hw; tauto|].
      split; [intros k; rewrite pf_count_cons, N.eqb_refl; reflexivity|].
      split; [intros k; rewrite pf_no_prefix_cons, N.eqb_refl; reflexivity|].
      split; [intros k; rewrite pf_iohp_cons, N.eqb_refl; reflexivity|].
      split; [intros k; rewrite pf_delete_cons, N.eqb_refl; destruct (pn_delete k n0) as [[?|] ?]; reflexivity|].
      split; [intros _ k; rewrite pf_insert_cons, N.eqb_refl; reflexivity|].
      split; [discriminate|].
      split.
      * intros s' n' fpj' Hn' [Ha Hb]. exists (fpj' ++ fp2). split.
        -- cbn [repf]. exists j0, kids', fpj', fp2. repeat split; auto.
           ++ eapply (repf_frame r); [exact Hr|]. intros x Hx. apply Ha.
              ** eapply (repf_occ r); [exact Hr|exact Hx].
              ** intros Hx1. exact (Hd _ Hx1 Hx).
           ++ intros x Hx Hx2. destruct (Hb _ Hx) as [Hx1|Hno]; [exact (Hd _ Hx1 Hx2)|].
              apply Hno. eapply (repf_occ r); [exact Hr|exact Hx2].
        -- intros x Hx. apply in_app_or in Hx as [Hx|Hx].
           ++ destruct (Hb _ Hx); [left; apply in_or_app; left; assumption | right; assumption].
           ++ left. apply in_or_app. right. exact Hx.
      * intros s' Hs. cbn [kids_remove]. rewrite N.eqb_refl. exists fp2. split; [|apply incl_appr, incl_refl].
        eapply (repf_frame r); [exact Hr|]. intros x Hx. apply Hs; [apply in_or_app; right; exact Hx|].
        intros Hx1. exact (Hd _ Hx1 Hx).
    + specialize (IH s kids' fp2 b Hr). destruct (kids_get b kids') as [j|] eqn:Eg.
      * destruct IH as (n & fpj & F & G & Hnj & Hincl & Hwf & Hc & Hnp & Hio & Hdel & Hins & HF & Hrepl & Hrem).
        exists n, fpj, (fun n' => PCons b0 n0 (F n')), (PCons b0 n0 G).
        split; [exact Hnj|]. split; [apply incl_appr; exact Hincl|].
        split; [rewrite pf_wf_cons; intros Hw; apply andb_true_iff in Hw; apply Hwf; tauto|].
        assert (Eb : (b =? b0) = false) by (apply N.eqb_neq; exact Hne).
        split; [intros k; rewrite pf_count_cons, Eb; apply Hc|].
        split; [intros k; rewrite pf_no_prefix_cons, Eb; apply Hnp|].
        split; [intros k; rewrite pf_iohp_cons, Eb; apply Hio|].
        split; [intros k; rewrite pf_delete_cons, Eb, Hdel; destruct (pn_delete k n) as [[?|] ?]; reflexivity|].
        split.
        { intros Hs k. rewrite psorted_cons in Hs. apply andb_true_iff in Hs as [Hgt Hs].
          rewrite pf_insert_cons, Eb.
          assert (Hlt : b0 < b).
          { eapply pall_gt_has; [exact Hgt|]. erewrite repf_get_has by eassumption. rewrite Eg. reflexivity. }
          destruct (N.ltb_spec b b0); [lia|]. rewrite (Hins Hs k).
          destruct (pn_insert k n); reflexivity. }
        split; [discriminate|].
        split.
        -- intros s' n' fpj' Hn' HFr. destruct (Hrepl s' n' fpj' Hn' HFr) as (fp' & Hrf & Hsub).
           destruct HFr as [Ha Hb].
           exists (fp1 ++ fp'). split.
           ++ cbn [repf]. exists j0, kids', fp1, fp'. repeat split; auto.
              ** eapply (rep_frame n0); [exact Hn|]. intros x Hx. apply Ha; [eapply (rep_occ n0); [exact Hn|exact Hx]|].
                 intros Hxj. exact (Hd _ Hx (Hincl _ Hxj)).
              ** intros x Hx Hx'. destruct (Hsub _ Hx') as [Hx2|Hno]; [exact (Hd _ Hx Hx2)|].
                 apply Hno. eapply (rep_occ n0); [exact Hn|exact Hx].
           ++ intros x Hx. apply in_app_or in Hx as [Hx|Hx].
              ** left. apply in_or_app. left. exact Hx.
              ** destruct (Hsub _ Hx); [left; apply in_or_app; right; assumption | right; assumption].
        -- intros s' Hs. cbn [kids_remove]. rewrite Eb.
           destruct (Hrem s') as (fp' & Hrf & Hinc).
           { intros x Hx Hxj. apply Hs; [apply in_or_app; right; exact Hx | exact Hxj]. }
           exists (fp1 ++ fp'). split.
           ++ cbn [repf]. exists j0, (kids_remove b kids'), fp1, fp'. repeat split; auto.
              ** eapply (rep_frame n0); [exact Hn|]. intros x Hx. apply Hs; [apply in_or_app; left; exact Hx|].
                 intros Hxj. exact (Hd _ Hx (Hincl _ Hxj)).
              ** intros x Hx Hx'. exact (Hd _ Hx (Hinc _ Hx')).
           ++ intros x Hx. apply in_app_or in Hx as [Hx|Hx]; apply in_or_app; [left | right; apply Hinc]; exact Hx.
      * destruct IH as (Hc & Hnp & Hio & Hdel & Hins).
        assert (Eb : (b =? b0) = false) by (apply N.eqb_neq; exact Hne).
        split; [intros k; rewrite pf_count_cons, Eb; apply Hc|].
        split; [intros k; rewrite pf_no_prefix_cons, Eb; apply Hnp|].
        split; [intros k; rewrite pf_iohp_cons, Eb; apply Hio|].
        split; [intros k; rewrite pf_delete_cons, Eb, Hdel; reflexivity|].
        intros Hs k. rewrite psorted_cons in Hs. apply andb_true_iff in Hs as [Hgt Hs].
        rewrite pf_insert_cons, Eb. cbn [kids_insert]. destruct (N.ltb_spec b b0) as [Hlt|Hge].
        -- eexists. split; [reflexivity|]. intros s' nw fpn Hnw Hfr Hdis.
           exists (fpn ++ (fp1 ++ fp2)). split; [|intros x Hx; apply in_app_or in Hx; exact Hx].
           change (repf s' (PCons b (pn_fresh k) (PCons b0 n0 r)) ((b, nw) :: (b0, j0) :: kids') (fpn ++ (fp1 ++ fp2))).
           cbn [repf]. exists nw, ((b0, j0) :: kids'), fpn, (fp1 ++ fp2). repeat split; auto.
           eapply (repf_frame (PCons b0 n0 r)); eauto.
        -- destruct (Hins Hs k) as (f' & Hf' & Hadd). rewrite Hf'. eexists. split; [reflexivity|].
           intros s' nw fpn Hnw Hfr Hdis.
           destruct (Hadd s' nw fpn Hnw) as (fp' & Hrf' & Hsub').
           { intros x Hx. apply Hfr. apply in_or_app. right. exact Hx. }
           { intros x Hx Hxb. apply (Hdis x Hx). apply in_or_app. right. exact Hxb. }
           exists (fp1 ++ fp'). split.
           ++ cbn [repf]. exists j0, (kids_insert b nw kids'), fp1, fp'. repeat split; auto.
              ** eapply (rep_frame n0); [exact Hn|]. intros x Hx. apply Hfr. apply in_or_app. left. exact Hx.
              ** intros x Hx Hx'. destruct (Hsub' _ Hx') as [Hxn|Hxb]; [|exact (Hd _ Hx Hxb)].
                 apply (Hdis x Hxn). apply in_or_app. left. exact Hx.
           ++ intros x Hx. apply in_app_or in Hx as [Hx|Hx].
              ** right. apply in_or_app. left. exact Hx.
              ** destruct (Hsub' _ Hx); [left; assumption | right; apply in_or_app; right; assumption].
Qed.

(** * Node level: the loops of the code against the recursive tree functions *)

Lemma rep_node s c ch i fp :
  rep s (PNode c ch) i fp ->
  exists kids fp', nth_error s i = Some (Some (c, kids)) /\ cget s i = Some (c, kids)
                   /\ repf s ch kids fp' /\ ~ In i fp' /\ fp = i :: fp'.
Proof.
  intros (kids & fp' & Hn & Hf & Hni & ->). exists kids, fp'. repeat split; auto. apply cget_occ. exact Hn.
Qed.

Lemma sl_no_prefix_ok : forall k n s i fp,
  rep (sl_cells s) n i fp -> sl_no_prefix k s i = Some (pn_no_prefix k n).
Proof.
  induction k as [|b k IH]; intros [c ch] s i fp H; apply rep_node in H as (kids & fp' & _ & Hg & Hf & _);
    cbn [sl_no_prefix]; unfold sl_get; rewrite Hg, pn_no_prefix_eq; [reflexivity|].
  destruct (c =? 0); cbn [negb]; [|reflexivity].
  pose proof (repf_split ch _ _ _ b Hf) as S. destruct (kids_get b kids) as [j|].
  - destruct S as (n & fpj & F & G & Hnj & _ & _ & _ & Hnp & _). rewrite Hnp. eapply IH; eauto.
  - destruct S as (_ & Hnp & _). rewrite Hnp. reflexivity.
Qed.

Lemma sl_iohp_ok : forall k n s i fp,
  rep (sl_cells s) n i fp -> sl_iohp k s i = Some (pn_iohp k n).
Proof.
  induction k as [|b k IH]; intros [c ch] s i fp H; apply rep_node in H as (kids & fp' & _ & Hg & Hf & _);
    cbn [sl_iohp]; rewrite pn_iohp_eq; [reflexivity|]. unfold sl_get; rewrite Hg.
  destruct (c =? 0); cbn [negb]; [|reflexivity].
  pose proof (repf_split ch _ _ _ b Hf) as S. destruct (kids_get b kids) as [j|].
  - destruct S as (n & fpj & F & G & Hnj & _ & _ & _ & _ & Hio & _). rewrite Hio. eapply IH; eauto.
  - destruct S as (_ & _ & Hio & _). rewrite Hio. reflexivity.
Qed.

(** allocate a node and link it into the children of [i] *)
Lemma alloc_link s i c kids kidsnew v s1 nw :
  FreeInv s -> nth_error (sl_cells s) i = Some (Some (c, kids)) -> sl_alloc s v = (s1, nw) ->
  let s2 := sl_set s1 i (c, kidsnew) in
  nw <> i /\ ~ occ (sl_cells s) nw
  /\ nth_error (sl_cells s2) i = Some (Some (c, kidsnew))
  /\ nth_error (sl_cells s2) nw = Some (Some v)
  /\ (forall x, x <> i -> occ (sl_cells s) x -> nth_error (sl_cells s2) x = nth_error (sl_cells s) x)
  /\ (forall x, occ (sl_cells s) x -> occ (sl_cells s2) x)
  /\ FreeInv s2.
Proof.
  intros HF Hi Ha s2. destruct (alloc_spec _ _ _ _ HF Ha) as (Hno & Hnw & Hsame & HF1).
  assert (Hne : nw <> i) by (intros ->; apply Hno; eexists; eauto).
  assert (Hoi : occ (sl_cells s1) i) by (exists (c, kids); rewrite Hsame; auto; eexists; eauto).
  assert (A : nth_error (sl_cells s2) i = Some (Some (c, kidsnew)))
    by (cbn; apply nth_upd_eq; apply occ_lt; exact Hoi).
  assert (B : forall x, x <> i -> occ (sl_cells s) x -> nth_error (sl_cells s2) x = nth_error (sl_cells s) x).
  { intros x Hx Ho. cbn. rewrite nth_upd_ne by congruence. apply Hsame; auto. intros ->. contradiction. }
  repeat split; auto.
  - cbn. rewrite nth_upd_ne by congruence. exact Hnw.
  - intros x Ho. destruct (Nat.eq_dec x i) as [->|Hx]; [eexists; eauto|].
    destruct Ho as [w Hw]. exists w. rewrite B; auto. eexists; eauto.
  - apply FreeInv_set; auto.
  - apply FreeInv_set; auto.
Qed.

Lemma sl_ins_fresh : forall k s i,
  FreeInv s -> nth_error (sl_cells s) i = Some (Some (0, [])) ->
  exists s' fp', sl_ins k s i = Some (s', true) /\ rep (sl_cells s') (pn_fresh k) i fp'
                 /\ Fr (sl_cells s) (sl_cells s') [i] fp' /\ FreeInv s'.
Proof.
  induction k as [|b k IH]; intros s i HF Hi.
  - cbn [sl_ins]. unfold sl_get. rewrite (proj2 (cget_occ _ _ _) Hi).
    change (0 =? MAXC) with false. cbv iota. exists (sl_set s i (0 + 1, [])), [i]. split; [reflexivity|].
    assert (Ho : occ (sl_cells s) i) by (eexists; eauto).
    split; [|split].
    + cbn. exists [], []. repeat split; auto. apply nth_upd_eq. apply occ_lt. exact Ho.
    + split.
      * intros x _ Hx. cbn. apply nth_upd_ne. intros ->. apply Hx. left. reflexivity.
      * intros x Hx. left. exact Hx.
    + apply FreeInv_set; auto.
  - cbn [sl_ins]. unfold sl_get. rewrite (proj2 (cget_occ _ _ _) Hi). cbn [kids_get kids_insert].
    destruct (sl_alloc s (0, [])) as [s1 nw] eqn:Ea.
    destruct (alloc_link s i 0 [] [(b, nw)] (0, []) s1 nw HF Hi Ea) as (Hne & Hno & A & B & C & D & HF2).
    destruct (IH _ nw HF2 B) as (s3 & fpn & Hrun & Hrep & [Fa Fb] & HF3).
    assert (Hoi : occ (sl_cells s) i) by (eexists; eauto).
    exists s3, (i :: fpn ++ []). split; [exact Hrun|]. split; [|split; [|exact HF3]].
    + cbn [pn_fresh rep]. exists [(b, nw)], (fpn ++ []). repeat split; auto.
      * rewrite Fa; [exact A | apply D; exact Hoi | intros [E|[]]; congruence].
      * cbn [repf]. exists nw, [], fpn, []. repeat split; auto.
      * rewrite app_nil_r. intros Hx. destruct (Fb _ Hx) as [[E|[]]|E]; [congruence|]. apply E, D, Hoi.
    + split.
      * intros x Ho Hx. rewrite Fa.
        -- apply C; auto. intros ->. apply Hx. left. reflexivity.
        -- apply D. exact Ho.
        -- intros [E|[]]. subst. contradiction.
      * intros x [<-|Hx]; [left; left; reflexivity|]. rewrite app_nil_r in Hx.
        right. intros Ho. destruct (Fb _ Hx) as [[E|[]]|E]; [subst; contradiction|]. apply E, D, Ho.
Qed.

Lemma sl_ins_ok : forall k n s i fp,
  pn_wf n = true -> FreeInv s -> rep (sl_cells s) n i fp ->
  match pn_insert k n with
  | Some n' => exists s' fp', sl_ins k s i = Some (s', true) /\ rep (sl_cells s') n' i fp'
                              /\ Fr (sl_cells s) (sl_cells s') fp fp' /\ FreeInv s'
  | None => sl_ins k s i = Some (s, false)
  end.
Proof.
  induction k as [|b k IH]; intros [c ch] s i fp Hwf HF H;
    apply rep_node in H as (kids & fp' & Hn & Hg & Hf & Hni & ->);
    rewrite pn_insert_eq; cbn [sl_ins]; unfold sl_get; rewrite Hg;
    assert (Hoi : occ (sl_cells s) i) by (eexists; eauto).
  - destruct (c =? MAXC); [reflexivity|].
    exists (sl_set s i (c + 1, kids)), (i :: fp'). split; [reflexivity|]. split; [|split].
    + cbn [rep]. exists kids, fp'. repeat split; auto.
      * cbn. apply nth_upd_eq. apply occ_lt. exact Hoi.
      * eapply (repf_frame ch); [exact Hf|]. intros x Hx. cbn. apply nth_upd_ne. intros ->. contradiction.
    + split.
      * intros x _ Hx. cbn. apply nth_upd_ne. intros ->. apply Hx. left. reflexivity.
      * intros x Hx. left. exact Hx.
    + apply FreeInv_set; auto.
  - apply pn_wf_parts in Hwf as (Hw & Hs & _ & _).
    pose proof (repf_split ch _ _ _ b Hf) as S. destruct (kids_get b kids) as [j|].
    + destruct S as (n & fpj & F & G & Hnj & Hincl & Hwn & _ & _ & _ & _ & Hins & _ & Hrepl & _).
      rewrite (Hins Hs k). specialize (IH n s j fpj (Hwn Hw) HF Hnj).
      destruct (pn_insert k n) as [n'|]; cbn [option_map]; [|exact IH].
      destruct IH as (s' & fpj' & Hrun & Hrep' & HFr & HF').
      destruct (Hrepl _ _ _ Hrep' HFr) as (fpk' & Hrf & Hsub). destruct HFr as [Fa Fb].
      exists s', (i :: fpk'). split; [exact Hrun|]. split; [|split; [|exact HF']].
      * cbn [rep]. exists kids, fpk'. repeat split; auto.
        -- rewrite Fa; auto; intros Hx; apply Hni, Hincl, Hx.
        -- intros Hx. destruct (Hsub _ Hx); auto.
      * split.
        -- intros x Ho Hx. apply Fa; auto. intros Hxj. apply Hx. right. apply Hincl, Hxj.
        -- intros x [<-|Hx]; [left; left; reflexivity|]. destruct (Hsub _ Hx); [left; right; assumption | right; assumption].
    + destruct S as (_ & _ & _ & _ & Hins). destruct (Hins Hs k) as (f' & Hf' & Hadd). rewrite Hf'.
      cbn [option_map].
      destruct (sl_alloc s (0, [])) as [s1 nw] eqn:Ea.
      destruct (alloc_link s i c kids (kids_insert b nw kids) (0, []) s1 nw HF Hn Ea)
        as (Hne & Hno & A & B & C & D & HF2).
      destruct (sl_ins_fresh k _ nw HF2 B) as (s3 & fpn & Hrun & Hrep & [Fa Fb] & HF3).
      assert (Hfpn : forall x, In x fpn -> ~ occ (sl_cells s) x).
      { intros x Hx Ho. destruct (Fb _ Hx) as [[E|[]]|E]; [subst; contradiction|]. apply E, D, Ho. }
      destruct (Hadd (sl_cells s3) nw fpn Hrep) as (fp3 & Hrf & Hsub).
      { intros x Hx. assert (Ho : occ (sl_cells s) x) by (eapply (repf_occ ch); eauto).
        rewrite Fa.
        - apply C; auto. intros ->. contradiction.
        - apply D, Ho.
        - intros [E|[]]. subst. contradiction. }
      { intros x Hx Hx'. apply (Hfpn _ Hx). eapply (repf_occ ch); eauto. }
      exists s3, (i :: fp3). split; [exact Hrun|]. split; [|split; [|exact HF3]].
      * cbn [rep]. exists (kids_insert b nw kids), fp3. repeat split; auto.
        -- rewrite Fa; [exact A | apply D, Hoi | intros [E|[]]; congruence].
        -- intros Hx. destruct (Hsub _ Hx) as [Hx'|Hx']; [apply (Hfpn _ Hx'), Hoi | contradiction].
      * split.
        -- intros x Ho Hx. rewrite Fa.
           ++ apply C; auto. intros ->. apply Hx. left. reflexivity.
           ++ apply D, Ho.
           ++ intros [E|[]]. subst. contradiction.
        -- intros x [<-|Hx]; [left; left; reflexivity|].
           destruct (Hsub _ Hx) as [Hx'|Hx']; [right; apply Hfpn, Hx' | left; right; exact Hx'].
Qed.

Lemma pn_mk_wf c ch : pn_wf (PNode c ch) = true -> pn_mk c ch = Some (PNode c ch).
Proof.
  intros H. apply pn_wf_parts in H as (_ & _ & _ & Hnil). unfold pn_mk. destruct ch; [|reflexivity].
  destruct (N.eqb_spec c 0) as [->|]; [|reflexivity]. specialize (Hnil eq_refl). lia.
Qed.
Lemma pn_mk_ne c f : f <> PNil -> pn_mk c f = Some (PNode c f).
Proof. destruct f; [congruence | reflexivity]. Qed.

Lemma unwind_step s i b st c kids :
  sl_get s i = Some (c, kids) ->
  sl_unwind ((i, b) :: st) s =
  match kids_remove b kids with
  | [] => if c =? 0 then sl_unwind st (sl_remove (sl_set s i (c, kids_remove b kids)) i)
          else Some (sl_set s i (c, kids_remove b kids))
  | _ :: _ => Some (sl_set s i (c, kids_remove b kids))
  end.
Proof. intros H. cbn [sl_unwind]. rewrite H. destruct (kids_remove b kids); reflexivity. Qed.

Lemma sl_del_ok : forall k n s i fp st,
  pn_wf n = true -> FreeInv s -> rep (sl_cells s) n i fp ->
  match pn_delete k n with
  | (Some n', x) => exists s' fp', sl_del k s i st = Some (s', x) /\ rep (sl_cells s') n' i fp'
                                   /\ Fr (sl_cells s) (sl_cells s') fp fp' /\ FreeInv s'
  | (None, x) => exists s', sl_del k s i st = option_map (fun s2 => (s2, x)) (sl_unwind st s')
        /\ (forall y, occ (sl_cells s) y -> ~ In y fp -> nth_error (sl_cells s') y = nth_error (sl_cells s) y)
        /\ nth_error (sl_cells s') i = Some None /\ FreeInv s'
  end.
Proof.
  induction k as [|b k IH]; intros [c ch] s i fp st Hwf HF H; pose proof H as Hrep0;
    apply rep_node in H as (kids & fp' & Hn & Hg & Hf & Hni & ->);
    rewrite pn_delete_eq; cbn [sl_del]; unfold sl_get; rewrite Hg;
    assert (Hoi : occ (sl_cells s) i) by (eexists; eauto);
    assert (Hset : forall v, rep (sl_cells (sl_set s i (v, kids))) (PNode v ch) i (i :: fp')
                             /\ Fr (sl_cells s) (sl_cells (sl_set s i (v, kids))) (i :: fp') (i :: fp')
                             /\ FreeInv (sl_set s i (v, kids))).
  1, 3: (intros v; split; [|split]; [| |apply FreeInv_set; auto];
    [ cbn [rep]; exists kids, fp'; repeat split; auto;
      [ cbn; apply nth_upd_eq; apply occ_lt; exact Hoi
      | eapply (repf_frame ch); [exact Hf|]; intros x Hx; cbn; apply nth_upd_ne; intros ->; contradiction ]
    | split; [ intros x _ Hx; cbn; apply nth_upd_ne; intros ->; apply Hx; left; reflexivity
             | intros x Hx; left; exact Hx ] ]).
  - destruct (1 <? c).
    + destruct (Hset (c - 1)) as (A & B & C). eexists _, _. split; [reflexivity|]. auto.
    + destruct ch as [|b0 n0 r].
      * cbn in Hf. destruct Hf as [-> ->]. cbn [pn_mk]. change (0 =? 0) with true. cbv iota.
        exists (sl_remove (sl_set s i (0, [])) i). split; [reflexivity|].
        assert (Hoi' : occ (sl_cells (sl_set s i (0, []))) i).
        { eexists. cbn. apply nth_upd_eq. apply occ_lt. exact Hoi. }
        split; [|split].
        -- intros y _ Hy. cbn. rewrite !nth_upd_ne; auto; intros ->; apply Hy; left; reflexivity.
        -- cbn. apply nth_upd_eq. rewrite length_upd. apply occ_lt. exact Hoi.
        -- apply FreeInv_remove; auto. apply FreeInv_set; auto.
      * pose proof Hf as Hf0. cbn [repf] in Hf. destruct Hf as (j0 & kids' & fp1 & fp2 & -> & _).
        cbn [pn_mk]. destruct (Hset 0) as (A & B & C). eexists _, _. split; [reflexivity|]. auto.
  - pose proof (pn_wf_parts _ _ Hwf) as (Hw & Hs & _ & _).
    pose proof (repf_split ch _ _ _ b Hf) as S. destruct (kids_get b kids) as [j|].
    + destruct S as (n & fpj & F & G & Hnj & Hincl & Hwn & _ & _ & _ & Hdel & _ & HFne & Hrepl & Hrem).
      rewrite (Hdel k). specialize (IH n s j fpj ((i, b) :: st) (Hwn Hw) HF Hnj).
      destruct (pn_delete k n) as [[n'|] x].
      * destruct IH as (s' & fpj' & Hrun & Hrep' & HFr & HF').
        destruct (Hrepl _ _ _ Hrep' HFr) as (fpk' & Hrf & Hsub). destruct HFr as [Fa Fb].
        rewrite (pn_mk_ne c (F n') (HFne n')).
        exists s', (i :: fpk'). split; [exact Hrun|]. split; [|split; [|exact HF']].
        -- cbn [rep]. exists kids, fpk'. repeat split; auto.
           ++ rewrite Fa; auto; intros Hx; apply Hni, Hincl, Hx.
           ++ intros Hx. destruct (Hsub _ Hx); auto.
        -- split.
           ++ intros y Ho Hy. apply Fa; auto. intros Hyj. apply Hy. right. apply Hincl, Hyj.
           ++ intros y [<-|Hy]; [left; left; reflexivity|].
              destruct (Hsub _ Hy); [left; right; assumption | right; assumption].
      * destruct IH as (s' & Hrun & Hfr & Hvac & HF').
        assert (Hi' : nth_error (sl_cells s') i = Some (Some (c, kids))).
        { rewrite Hfr; auto; intros Hx; apply Hni, Hincl, Hx. }
        assert (Hg' : sl_get s' i = Some (c, kids)) by (apply cget_occ; exact Hi').
        assert (Hoi' : occ (sl_cells s') i) by (eexists; eauto).
        rewrite (unwind_step _ _ _ _ _ _ Hg') in Hrun.
        set (s1 := sl_set s' i (c, kids_remove b kids)) in *.
        assert (Hs1 : forall y, y <> i -> nth_error (sl_cells s1) y = nth_error (sl_cells s') y).
        { intros y Hy. cbn. apply nth_upd_ne. congruence. }
        assert (Hi1 : nth_error (sl_cells s1) i = Some (Some (c, kids_remove b kids))).
        { cbn. apply nth_upd_eq. apply occ_lt. exact Hoi'. }
        assert (HF1 : FreeInv s1) by (apply FreeInv_set; auto).
        destruct (Hrem (sl_cells s1)) as (fpG & HrG & HincG).
        { intros z Hz Hzj. rewrite Hs1 by (intros ->; contradiction). apply Hfr; auto.
          eapply (repf_occ ch); eauto. }
        assert (HFrG : Fr (sl_cells s) (sl_cells s1) (i :: fp') (i :: fpG)).
        { split.
          - intros y Ho Hy. rewrite Hs1 by (intros ->; apply Hy; left; reflexivity).
            apply Hfr; auto. intros Hyj. apply Hy. right. apply Hincl, Hyj.
          - intros y [<-|Hy]; [left; left; reflexivity | left; right; apply HincG, Hy]. }
        assert (HrepG : rep (sl_cells s1) (PNode c G) i (i :: fpG)).
        { cbn [rep]. exists (kids_remove b kids), fpG. repeat split; auto. }
        pose proof (repf_nil_iff _ _ _ _ HrG) as Hnil.
        destruct G as [|bg ng rg].
        -- rewrite (proj2 Hnil eq_refl) in Hrun. cbn [pn_mk]. destruct (c =? 0).
           ++ exists (sl_remove s1 i). split; [exact Hrun|]. split; [|split].
              ** intros y Ho Hy. cbn. rewrite nth_upd_ne by (intros ->; apply Hy; left; reflexivity).
                 apply (proj1 HFrG); auto.
              ** cbn. apply nth_upd_eq. rewrite length_upd. apply occ_lt. exact Hoi'.
              ** apply FreeInv_remove; auto. eexists; eauto.
           ++ exists s1, (i :: fpG). auto.
        -- destruct (kids_remove b kids) eqn:Ek; [discriminate (proj1 Hnil eq_refl)|].
           cbn [pn_mk]. exists s1, (i :: fpG). auto.
    + destruct S as (_ & _ & _ & Hdel & _). rewrite (Hdel k), (pn_mk_wf _ _ Hwf).
      exists s, (i :: fp'). split; [reflexivity|]. split; [exact Hrep0|]. split; [|exact HF].
      split; [reflexivity | intros x Hx; left; exact Hx].
Qed.

(** * Map level and histories *)
Definition SInv (m : smap) (pm : pmap) : Prop :=
  FreeInv (sm_slab m)
  /\ match sm_root m, pm with
     | None, None => True
     | Some r, Some n => exists fp, rep (sl_cells (sm_slab m)) n r fp
     | _, _ => False
     end.

Lemma SInv_init : SInv sm_empty None.
Proof. split; [split; [constructor | intros x []] | exact I]. Qed.

Lemma sm_step_ok o m pm :
  SInv m pm -> pm_wf pm = true ->
  exists m', sm_step o m = Some (m', snd (pm_step o pm)) /\ SInv m' (fst (pm_step o pm)).
Proof.
  destruct m as [root s]. intros [HF Hr] Hwf. cbn [sm_root sm_slab] in *.
  destruct root as [r|], pm as [n|]; try contradiction.
  - destruct Hr as [fp Hrep]. cbn [pm_wf] in Hwf.
    destruct o as [k|k|k|k]; cbn [sm_step pm_step].
    + unfold sm_insert. cbn [sm_root sm_slab pm_insert].
      pose proof (sl_ins_ok k n s r fp Hwf HF Hrep) as H. destruct (pn_insert k n) as [n'|]; cbn [option_map].
      * destruct H as (s' & fp' & -> & Hrep' & _ & HF'). eexists. split; [reflexivity|].
        split; [exact HF' | exists fp'; exact Hrep'].
      * rewrite H. eexists. split; [reflexivity|]. split; [exact HF | exists fp; exact Hrep].
    + unfold sm_delete, pm_delete. cbn [sm_root sm_slab].
      pose proof (sl_del_ok k n s r fp [] Hwf HF Hrep) as H. destruct (pn_delete k n) as [[n'|] x].
      * destruct H as (s' & fp' & -> & Hrep' & _ & HF').
        destruct n' as [c' ch']. destruct (rep_node _ _ _ _ _ Hrep') as (kids & fq & _ & Hg & _).
        unfold sl_get. rewrite Hg. eexists. split; [reflexivity|].
        split; [exact HF' | exists fp'; exact Hrep'].
      * destruct H as (s' & -> & _ & Hvac & HF'). cbn [sl_unwind option_map].
        unfold sl_get, cget. rewrite Hvac. eexists. split; [reflexivity|]. split; [exact HF' | exact I].
    + unfold sm_no_prefix. cbn [sm_root sm_slab pm_no_prefix]. rewrite (sl_no_prefix_ok k n s r fp Hrep).
      eexists. split; [reflexivity|]. split; [exact HF | exists fp; exact Hrep].
    + unfold sm_iohp. cbn [sm_root sm_slab pm_iohp]. rewrite (sl_iohp_ok k n s r fp Hrep).
      eexists. split; [reflexivity|]. split; [exact HF | exists fp; exact Hrep].
  - destruct o as [k|k|k|k]; cbn [sm_step pm_step].
    + unfold sm_insert. cbn [sm_root sm_slab pm_insert].
      destruct (sl_alloc s (0, [])) as [s1 r] eqn:Ea.
      destruct (alloc_spec _ _ _ _ HF Ea) as (_ & Hnw & _ & HF1).
      destruct (sl_ins_fresh k s1 r HF1 Hnw) as (s' & fp' & -> & Hrep' & _ & HF').
      eexists. split; [reflexivity|]. split; [exact HF' | exists fp'; exact Hrep'].
    + eexists. split; [reflexivity|]. split; [exact HF | exact I].
    + eexists. split; [reflexivity|]. split; [exact HF | exact I].
    + eexists. split; [reflexivity|]. split; [exact HF | exact I].
Qed.

(** Every history of the slab-based structure is a history of the multiset of prefixes: it never
    panics, answers like the multiset, and stays a representation of a well-formed trie whose
    counts are the multiplicities. *)
Theorem sm_run_refines ops : forall m pm b,
  SInv m pm -> PInv pm b ->
  exists m' pm', sm_run ops m = Some (m', snd (bag_run ops b))
                 /\ SInv m' pm' /\ PInv pm' (fst (bag_run ops b)).
Proof.
  induction ops as [|o ops IH]; intros m pm b HS HP; cbn [sm_run bag_run].
  - exists m, pm. auto.
  - destruct (sm_step_ok o m pm HS (proj1 HP)) as (m1 & Hstep & HS1).
    destruct (pm_step_refines o pm b HP) as [Hout HP1]. rewrite Hstep.
    destruct (bag_step o b) as [b1 y]. cbn [fst snd] in *.
    destruct (IH m1 _ b1 HS1 HP1) as (m' & pm' & Hrun & HS' & HP').
    rewrite Hrun. destruct (bag_run ops b1) as [b2 ys]. cbn [fst snd] in *.
    exists m', pm'. rewrite Hout. auto.
Qed.

(** * Structural invariants that follow from the representation *)
Lemma NoDup_app_disj {A} (l1 l2 : list A) :
  NoDup l1 -> NoDup l2 -> (forall x, In x l1 -> ~ In x l2) -> NoDup (l1 ++ l2).
Proof.
  induction l1 as [|a l1 IH]; intros H1 H2 Hd; cbn; [exact H2|].
  inversion H1; subst. constructor.
  - intros Hx. apply in_app_or in Hx as [Hx|Hx]; [contradiction|]. apply (Hd a); [left; reflexivity | exact Hx].
  - apply IH; auto. intros x Hx. apply Hd. right. exact Hx.
Qed.

Lemma rep_root_in s n i fp : rep s n i fp -> In i fp.
Proof. destruct n as [c ch]. intros (kids & fp' & _ & _ & _ & ->). left. reflexivity. Qed.

(** What a cell of the footprint looks like: occupied, its children keys are again in the footprint
    (no dangling slab keys), a node without children carries a positive count (no empty leaf), counts
    fit [u32]. *)
Definition cell_ok (s : cells) (fp : list nat) (x : nat) : Prop :=
  exists c kids, nth_error s x = Some (Some (c, kids))
                 /\ (forall b j, In (b, j) kids -> In j fp) /\ (kids = [] -> 0 < c) /\ c <= MAXC.

Lemma cell_ok_incl s fp fp' x : cell_ok s fp x -> incl fp fp' -> cell_ok s fp' x.
Proof. intros (c & kids & A & B & C & D) H. exists c, kids. repeat split; auto. intros b j Hb. apply H. eapply B; eauto. Qed.

Lemma rep_closed_mut :
  (forall n s i fp, rep s n i fp -> pn_wf n = true -> NoDup fp /\ forall x, In x fp -> cell_ok s fp x)
  /\ (forall f s kids fp, repf s f kids fp -> pf_wf f = true ->
        NoDup fp /\ (forall b j, In (b, j) kids -> In j fp) /\ forall x, In x fp -> cell_ok s fp x).
Proof.
  apply pnode_pforest_ind.
  - intros c ch IH s i fp (kids & fp' & Hn & Hf & Hni & ->) Hwf.
    apply pn_wf_parts in Hwf as (Hw & _ & Hc & Hnil).
    destruct (IH _ _ _ Hf Hw) as (Hnd & Hk & Hcells). split; [constructor; assumption|].
    intros x [<-|Hx].
    + exists c, kids. repeat split; auto.
      * intros b j Hb. right. eapply Hk; eauto.
      * intros ->. assert (E : ch = PNil) by (apply (repf_nil_iff _ _ _ _ Hf); reflexivity).
        specialize (Hnil E). lia.
    + eapply cell_ok_incl; [apply Hcells; exact Hx | apply incl_tl, incl_refl].
  - intros s kids fp [-> ->] _. split; [constructor|]. split; [intros b j []|intros x []].
  - intros b n IHn r IHr s kids fp (j & kids' & fp1 & fp2 & -> & Hn & Hr & Hd & ->) Hwf.
    rewrite pf_wf_cons in Hwf. apply andb_true_iff in Hwf as [Hwn Hwr].
    destruct (IHn _ _ _ Hn Hwn) as (Hnd1 & Hc1). destruct (IHr _ _ _ Hr Hwr) as (Hnd2 & Hk2 & Hc2).
    split; [apply NoDup_app_disj; assumption|]. split.
    + intros b' j' [E|Hb]; apply in_or_app.
      * inversion E; subst. left. eapply rep_root_in; eauto.
      * right. eapply Hk2; eauto.
    + intros x Hx. apply in_app_or in Hx as [Hx|Hx].
      * eapply cell_ok_incl; [apply Hc1; exact Hx | apply incl_appl, incl_refl].
      * eapply cell_ok_incl; [apply Hc2; exact Hx | apply incl_appr, incl_refl].
Qed.

(** In every state reachable by a history: the root (if any) and every slab key stored in a reachable
    children list denote occupied cells, no cell is shared, no reachable node is an empty leaf. *)
Theorem slab_invariants m pm :
  SInv m pm -> pm_wf pm = true ->
  match sm_root m with
  | None => pm = None
  | Some r => exists fp, In r fp /\ NoDup fp /\ forall x, In x fp -> cell_ok (sl_cells (sm_slab m)) fp x
  end
  /\ NoDup (sl_free (sm_slab m))
  /\ forall x, In x (sl_free (sm_slab m)) -> nth_error (sl_cells (sm_slab m)) x = Some None.
Proof.
  intros [[Hnd Hv] Hr] Hwf. split; [|split; [exact Hnd | exact Hv]].
  destruct (sm_root m) as [r|], pm as [n|]; try contradiction; [|reflexivity].
  destruct Hr as [fp Hrep]. exists fp. split; [eapply rep_root_in; eauto|].
  apply (proj1 rep_closed_mut n _ _ _ Hrep Hwf).
Qed.
