(** * Trie/ArenaHist.v — the copying lookup keeps the separation invariant, and histories
    of insert / lookup operations on the arena refine the value-level radix-tree machine.

    [get_entry_sep]: the copying walk of [get_entry] ([make_owned] on every node it descends
    from) keeps the separated-tree relation, the separation of the entries and the values
    of the view, and what it returns is [Radix.lookup] on the view (this re-proves the
    lookup refinement of [ArenaView.v] from the invariant [Sep] alone - no generation
    bookkeeping is used).

    [arena_insert_lookup_run]: for EVERY list of [OInsert] / [OGet] operations, started in
    the empty arena, the outputs of the arena machine [as_step] are the outputs of the
    machine [r_step] that applies [Radix.insert_root] / [Radix.lookup_root] to a radix tree
    of values, and the final view of the arena is the final tree of that machine. *)
From Coq Require Import NArith PeanoNat List Bool Lia Permutation.
From CB Require Import Trie.Radix.
From CB Require Import Trie.RadixProofs.
From CB Require Import Trie.Locks.
From CB Require Import Trie.LocksProofs.
From CB Require Import Trie.Arena.
From CB Require Import Trie.ArenaProofs.
From CB Require Import Trie.ArenaCow.
From CB Require Import Trie.ArenaTree.
From CB Require Import Trie.ArenaView.
From CB Require Import Trie.ArenaSep.
From CB Require Import Trie.ArenaInsert.
Import ListNotations.
Local Open Scope nat_scope.

Lemma TrF_notfound a c : forall (f : forest nat) ch fp p0,
  TrF a ch f fp -> find_child c ch p0 = None ->
  forall (B : Type) (g : nat -> B) k, lookup_f c k (tmap_f g f) = None.
Proof.
  induction f as [|c' t r IH]; intros ch fp p0 HT Hf B g k; [reflexivity|].
  destruct HT as (i0 & ch' & fp1 & fp2 & -> & -> & _ & Hr). cbn [find_child] in Hf. cbn [tmap_f].
  rewrite lookup_f_cons. destruct (N.eqb_spec c c'); [discriminate|]. eapply IH; eauto.
Qed.

Definition GetPost (a : arena) (idx : nat) (k : list N) (t : tree nat) (fp R : list nat)
           (res : arena * option nat) : Prop :=
  let '(a', oe) := res in
  exists t' fp',
    Tr a' idx t' fp' /\ NoDup fp' /\ Forall (fun j => j < length (a_nodes a')) fp'
    /\ (forall j, In j fp' -> In j fp \/ length (a_nodes a) <= j)
    /\ length (a_nodes a) <= length (a_nodes a')
    /\ (forall j, j < length (a_nodes a) -> ~ In j fp -> node_at a' j = node_at a j)
    /\ a_gens a' = a_gens a
    /\ tmap (a_with_entry a') t' = tmap (a_with_entry a) t
    /\ ESep a' (tentries t' ++ R)
    /\ (forall x, In x R -> edat a' x = edat a x /\ a_with_entry a' x = a_with_entry a x)
    /\ option_map (a_with_entry a') oe = lookup k (tmap (a_with_entry a) t)
    /\ (forall e, oe = Some e -> In e (tentries t')).

Lemma get_refl a idx k t fp R oe :
  Tr a idx t fp -> NoDup fp -> Forall (fun j => j < length (a_nodes a)) fp -> ESep a (tentries t ++ R) ->
  option_map (a_with_entry a) oe = lookup k (tmap (a_with_entry a) t) ->
  (forall e, oe = Some e -> In e (tentries t)) ->
  GetPost a idx k t fp R (a, oe).
Proof. intros. cbn [GetPost]. exists t, fp. auto 15. Qed.

Theorem get_entry_sep : forall fuel a idx k t fp R,
  length k < fuel ->
  Tr a idx t fp -> NoDup fp -> Forall (fun j => j < length (a_nodes a)) fp ->
  wfb t = true -> ESep a (tentries t ++ R) ->
  GetPost a idx k t fp R (a_get_entry fuel a idx k).
Proof.
  induction fuel as [|f IH]; intros a idx k t fp R Hk HT Hnd Hb Hwf HS; [lia|].
  destruct t as [p ov cs]. pose proof HT as (Ep & Ev & fp0 & Efp & HTF).
  cbn [a_get_entry]. rewrite <- Ep.
  destruct (follow_stem k p) as [|s ps|c k'|cm kc kr sc sr] eqn:HF.
  - rewrite <- Ev. apply get_refl; auto.
    + cbn [tmap]. rewrite lookup_node', HF. reflexivity.
    + intros e ->. cbn [tentries]. left. reflexivity.
  - apply get_refl; auto; [cbn [tmap]; rewrite lookup_node', HF; reflexivity | discriminate].
  - destruct (mo_sep a idx (Node p ov cs) fp R HT Hnd Hb HS) as (t1 & fp1 & T1 & N1 & B1 & D1 & W1 & S1 & WR1 & Fr1 & Ln1 & Hg1).
    set (a1 := make_owned a idx) in *. set (L := length (a_nodes a)) in *. set (L1 := length (a_nodes a1)) in *.
    destruct t1 as [p1 ov1 cs1]. pose proof T1 as (Ep1 & Ev1 & fp1' & Efp1 & HTF1).
    pose proof W1 as W1'. cbn [tmap] in W1. injection W1 as Wp Wov Wcs. subst p1.
    assert (Hwf1 : wfb (Node p ov1 cs1) = true).
    { rewrite <- (wfb_tmap (a_with_entry a1)), W1', wfb_tmap. exact Hwf. }
    rewrite wfb_node' in Hwf1. apply andb_true_iff in Hwf1. destruct Hwf1 as (Hwf1 & _).
    apply andb_true_iff in Hwf1. destruct Hwf1 as (Hwff & Hsorted).
    assert (Hin : In idx fp) by (subst fp; left; reflexivity).
    assert (Fr1' : forall j, j < L -> ~ In j fp -> node_at a1 j = node_at a j).
    { intros j Hj Hnf. apply Fr1; [exact Hj | intros ->; exact (Hnf Hin)]. }
    destruct (find_child c (an_ch (node_at a1 idx)) 0) as [[pos i]|] eqn:FC.
    2:{ cbn [GetPost]. exists (Node p ov1 cs1), fp1. split; [exact T1|]. split; [exact N1|]. split; [exact B1|].
        split; [exact D1|]. split; [exact Ln1|]. split; [exact Fr1'|]. split; [exact Hg1|]. split; [exact W1'|].
        split; [exact S1|]. split; [exact WR1|]. split; [|discriminate].
        cbn [option_map]. rewrite <- W1'. cbn [tmap]. rewrite lookup_node', HF. symmetry.
        eapply TrF_notfound; eauto. }
    subst fp1. apply NoDup_cons_iff in N1. destruct N1 as (Ni1 & Nd1'). pose proof (Forall_inv B1) as Hidx1. cbn beta in Hidx1.
    pose proof (Forall_inv_tail B1) as Hb1'.
    assert (Hlt1 : forall j, In j fp1' -> j < L1) by (rewrite Forall_forall in Hb1'; exact Hb1').
    set (ov1e := match ov1 with Some e => [e] | None => [] end).
    destruct (TrF_find a1 c cs1 _ fp1' 0 pos i HTF1 Hsorted FC) as (_ & ti & fpi & rest & erest & Ti & P1 & P2 & SC & LK & WF & K).
    rewrite Nat.sub_0_r in SC, K.
    set (R' := ov1e ++ erest ++ R).
    pose proof (Permutation_NoDup P1 Nd1') as NdP. apply nd_app in NdP. destruct NdP as (Ndi & Ndr & Ndd).
    pose proof (Permutation_Forall P1 Hb1') as BP. apply Forall_app in BP. destruct BP as (Hbi & Hbr).
    assert (Hrest : forall j, In j rest -> In j fp1') by (intros j Hj; apply (Permutation_in _ (Permutation_sym P1)); apply in_or_app; right; exact Hj).
    assert (Hfpi : forall j, In j fpi -> In j fp1') by (intros j Hj; apply (Permutation_in _ (Permutation_sym P1)); apply in_or_app; left; exact Hj).
    assert (PE : forall X Y, Permutation (fentries X) (tentries Y ++ erest) ->
                 Permutation ((ov1e ++ fentries X) ++ R) (tentries Y ++ R')).
    { intros X Y PXY. unfold R'. rewrite <- app_assoc. rewrite PXY. rewrite <- app_assoc. apply Permutation_app_swap_app. }
    assert (Si0 : ESep a1 (tentries ti ++ R')) by (apply (ESep_perm a1 _ _ (PE cs1 ti P2)); exact S1).
    assert (Hk' : length k' < f) by (pose proof (follow_stem_shorter k p c k' HF); lia).
    pose proof (IH a1 i k' ti fpi R' Hk' Ti Ndi Hbi (WF Hwff) Si0) as IHr.
    destruct (a_get_entry f a1 i k') as [a' oe]. cbn [GetPost] in IHr |- *.
    destruct IHr as (ti' & fpi' & Ti' & Ndi' & Bi' & Di' & Lni & Fri & Gi & Vi & Si & WRi & Loi & Ini).
    fold L1 in Di', Lni, Fri.
    assert (Nidx : node_at a' idx = node_at a1 idx).
    { apply Fri; [exact Hidx1 | intros X; exact (Ni1 (Hfpi _ X))]. }
    destruct (K a' i ti' fpi' Ti') as (f' & fp'' & TF' & Q1 & Q2 & _ & Q4).
    { intros j Hj. apply Fri; [apply Hlt1, Hrest, Hj | intros X; exact (Ndd j X Hj)]. }
    rewrite SC in TF'.
    assert (Hx'' : forall j, In j fp'' -> In j fpi' \/ In j rest) by (intros j Hj; apply in_app_or; apply (Permutation_in _ Q1); exact Hj).
    exists (Node p ov1 f'), (idx :: fp'').
    split. { cbn [Tr]. rewrite Nidx. split; [exact Ep1|]. split; [exact Ev1|]. exists fp''. auto. }
    split. { constructor.
             - intros X. destruct (Hx'' _ X) as [Y|Y]; [|exact (Ni1 (Hrest _ Y))].
               destruct (Di' _ Y) as [Z|Z]; [exact (Ni1 (Hfpi _ Z)) | lia].
             - apply (Permutation_NoDup (Permutation_sym Q1)). apply nd_app. split; [exact Ndi'|]. split; [exact Ndr|].
               intros x Hx Hr. destruct (Di' _ Hx) as [Z|Z]; [exact (Ndd x Z Hr) | specialize (Hlt1 _ (Hrest _ Hr)); lia]. }
    split. { constructor; [lia|]. rewrite Forall_forall. intros j Hj. destruct (Hx'' _ Hj) as [Y|Y].
             - rewrite Forall_forall in Bi'. apply Bi'. exact Y.
             - specialize (Hlt1 _ (Hrest _ Y)). lia. }
    split. { intros j [<-|Hj]; [left; exact Hin|]. destruct (Hx'' _ Hj) as [Y|Y].
             - destruct (Di' _ Y) as [Z|Z]; [apply D1; right; apply Hfpi; exact Z | right; lia].
             - apply D1. right. apply Hrest. exact Y. }
    split; [lia|].
    split. { intros j Hj Hnf. rewrite Fri; [apply Fr1'; assumption | lia |].
             intros X. destruct (D1 j (or_intror (Hfpi _ X))) as [Y|Y]; [exact (Hnf Y) | lia]. }
    split; [rewrite Gi; exact Hg1|].
    split. { rewrite <- W1'. cbn [tmap]. f_equal.
             - destruct ov1 as [e1|]; [|reflexivity]. cbn [option_map]. f_equal. apply WRi. unfold R', ov1e. left. reflexivity.
             - apply (Q4 _ (a_with_entry a1) (a_with_entry a') Vi).
               intros e1 He1. apply WRi. unfold R'. apply in_or_app. right. apply in_or_app. left. exact He1. }
    split. { apply (ESep_perm a' _ _ (Permutation_sym (PE f' ti' Q2))). exact Si. }
    split. { intros x Hx. assert (HxR : In x R') by (unfold R'; apply in_or_app; right; apply in_or_app; right; exact Hx).
             destruct (WRi x HxR) as (Z1 & Z2). destruct (WR1 x Hx) as (Z3 & Z4). split; congruence. }
    split. { rewrite Loi. rewrite <- W1'. cbn [tmap]. rewrite lookup_node', HF, LK. reflexivity. }
    intros e He. cbn [tentries]. apply in_or_app. right. apply (Permutation_in _ (Permutation_sym Q2)).
    apply in_or_app. left. apply Ini. exact He.
  - apply get_refl; auto; [cbn [tmap]; rewrite lookup_node', HF; reflexivity | discriminate].
Qed.

(** * Lookup at the top level *)

Theorem lookup_refines a key :
  Sep a ->
  let '(a', oe) := a_lookup_key a key in
  Sep a' /\ cur_root a' = cur_root a
  /\ exists D, forall d, D <= d ->
       rview d a' = rview d a
       /\ option_map (a_with_entry a') oe = lookup_root (nib key) (rview d a).
Proof.
  intros (Hne & HS). unfold a_lookup_key, rview. destruct (cur_root a) as [r|] eqn:Er.
  - destruct HS as (t & fp & HT & Hnd & Hb & Hwf & HE).
    assert (HE' : ESep a (tentries t ++ [])) by (rewrite app_nil_r; exact HE).
    pose proof (get_entry_sep (S (length (nib key))) a r (nib key) t fp [] (Nat.lt_succ_diag_r _) HT Hnd Hb Hwf HE') as P.
    destruct (a_get_entry (S (length (nib key))) a r (nib key)) as [a' oe]. cbn [GetPost] in P.
    destruct P as (t' & fp' & T' & Nd' & B' & _ & _ & _ & Ga & V' & S' & _ & Lo & _). rewrite app_nil_r in S'.
    assert (Er' : cur_root a' = Some r) by (rewrite (cur_root_same_gens a a' Ga); exact Er).
    assert (Hwf' : wfb t' = true) by (rewrite <- (wfb_tmap (a_with_entry a')), V', wfb_tmap; exact Hwf).
    split. { split; [rewrite Ga; exact Hne|]. rewrite Er'. exists t', fp'. auto. }
    split; [exact Er'|]. exists (Nat.max (theight t) (theight t')). intros d Hd. rewrite Er'. cbn [option_map lookup_root].
    rewrite (Tr_vview a' t' r fp' d T') by lia. rewrite (Tr_vview a t r fp d HT) by lia. rewrite V'. auto.
  - split; [split; [exact Hne | rewrite Er; exact I]|]. split; [exact Er|]. exists 0. intros d _. rewrite Er. auto.
Qed.

(** * Histories of insert / lookup operations *)

(** The value-level radix machine: a radix tree of (optional) values and the number of
    handles handed out. *)
Definition rstate := (option (tree (option value)) * nat)%type.

Definition r_step (o : op) (s : rstate) : rstate * out :=
  match o with
  | OInsert k v =>
      ((Some (insert_root (nib k) (Some v) (fst s)), S (snd s)),
       RHandle (snd s) (is_some (lookup_root (nib k) (fst s))))
  | OGet k =>
      match lookup_root (nib k) (fst s) with
      | Some ov => ((fst s, S (snd s)), RFound (snd s) ov)
      | None => (s, RNone)
      end
  | _ => (s, RSkip)
  end.

Definition r_init : rstate := (None, 0).

Fixpoint r_outs (ops : list op) (s : rstate) : list out :=
  match ops with [] => [] | o :: r => let (s', x) := r_step o s in x :: r_outs r s' end.
Definition r_run (ops : list op) (s : rstate) : rstate := fold_left (fun s o => fst (r_step o s)) ops s.

Fixpoint as_outs (ops : list op) (s : astate) : list out :=
  match ops with [] => [] | o :: r => let (s', x) := as_step o s in x :: as_outs r s' end.

Definition ins_get_op (o : op) : bool := match o with OInsert _ _ | OGet _ => true | _ => false end.

Definition SimR (s : astate) (rs : rstate) : Prop :=
  Sep (as_arena s) /\ snd rs = length (cur_handles s)
  /\ exists D, forall d, D <= d -> rview d (as_arena s) = fst rs.

Lemma SimR_init : SimR as_init r_init.
Proof. split; [exact Sep_empty|]. split; [reflexivity|]. exists 0. reflexivity. Qed.

Lemma push_handle_len s a e : length (cur_handles (push_handle s a e)) = S (length (cur_handles s)).
Proof.
  unfold push_handle, cur_handles. destruct (as_handles s) as [|h r]; cbn [as_handles length]; [reflexivity|].
  rewrite app_length. cbn. lia.
Qed.

Lemma SimR_step o s rs :
  ins_get_op o = true -> SimR s rs ->
  SimR (fst (as_step o s)) (fst (r_step o rs)) /\ snd (as_step o s) = snd (r_step o rs).
Proof.
  intros Ho (HS & Hh & D & HD). destruct o; try discriminate Ho; cbn [as_step r_step].
  - (* insert *)
    pose proof (insert_refines (as_arena s) k v HS) as P.
    destruct (ar_insert (as_arena s) k v) as [[a1 e] existed]. destruct P as (S1 & We & r' & Er' & D' & HD').
    cbn [fst snd]. destruct (HD' (Nat.max D D') (Nat.le_max_r _ _)) as (_ & Ex). rewrite (HD _ (Nat.le_max_l _ _)) in Ex.
    split; [|rewrite Hh, Ex; reflexivity].
    assert (Ea : as_arena (push_handle s a1 e) = a1) by (unfold push_handle; destruct (as_handles s); reflexivity).
    split; [rewrite Ea; exact S1|]. split; [rewrite push_handle_len, Hh; reflexivity|]. exists (Nat.max D D'). intros d Hd.
    rewrite Ea. unfold rview at 1. rewrite Er'. cbn [option_map fst]. destruct (HD' d) as (V & _); [lia|]. rewrite V, HD by lia. reflexivity.
  - (* lookup *)
    pose proof (lookup_refines (as_arena s) k HS) as P.
    destruct (a_lookup_key (as_arena s) k) as [a1 oe]. destruct P as (S1 & Er' & D' & HD').
    destruct (HD' (Nat.max D D') (Nat.le_max_r _ _)) as (_ & Lo). rewrite (HD _ (Nat.le_max_l _ _)) in Lo.
    assert (Vw : forall d, Nat.max D D' <= d -> rview d a1 = fst rs).
    { intros d Hd. destruct (HD' d) as (V & _); [lia|]. rewrite V. apply HD. lia. }
    destruct oe as [e|]; cbn [option_map] in Lo; rewrite <- Lo; cbn [fst snd].
    + split; [|rewrite Hh; reflexivity]. split.
      * assert (Ea : as_arena (push_handle s a1 e) = a1) by (unfold push_handle; destruct (as_handles s); reflexivity). rewrite Ea. exact S1.
      * split; [rewrite push_handle_len, Hh; reflexivity|]. exists (Nat.max D D').
        assert (Ea : as_arena (push_handle s a1 e) = a1) by (unfold push_handle; destruct (as_handles s); reflexivity). rewrite Ea. exact Vw.
    + split; [|reflexivity]. split; [exact S1|]. split; [exact Hh|]. exists (Nat.max D D'). exact Vw.
Qed.

Theorem insert_lookup_run : forall ops s rs,
  forallb ins_get_op ops = true -> SimR s rs ->
  as_outs ops s = r_outs ops rs /\ SimR (as_run ops s) (r_run ops rs).
Proof.
  induction ops as [|o ops IH]; intros s rs Hf HS; [split; [reflexivity | exact HS]|].
  cbn [forallb] in Hf. apply andb_true_iff in Hf. destruct Hf as (Ho & Hf).
  destruct (SimR_step o s rs Ho HS) as (S1 & Eo). cbn [as_outs r_outs].
  destruct (as_step o s) as [s1 x] eqn:E1. destruct (r_step o rs) as [rs1 y] eqn:E2. cbn [fst snd] in *. subst y.
  destruct (IH s1 rs1 Hf S1) as (I1 & I2). split; [rewrite I1; reflexivity|].
  unfold as_run, r_run. cbn [fold_left]. rewrite E1, E2. exact I2.
Qed.

(** The statement for histories from the empty arena. *)
Theorem arena_insert_lookup_history ops :
  forallb ins_get_op ops = true ->
  as_outs ops as_init = r_outs ops r_init
  /\ Sep (as_arena (as_run ops as_init))
  /\ exists D, forall d, D <= d -> rview d (as_arena (as_run ops as_init)) = fst (r_run ops r_init).
Proof.
  intros Hf. destruct (insert_lookup_run ops as_init r_init Hf SimR_init) as (H1 & H2 & _ & H3). auto.
Qed.

(** Non-vacuity: a history with a stem split at an odd nibble, an overwrite and lookups. *)
Example insert_lookup_history_example :
  let ops := [OInsert [18%N; 52%N] [1%N]; OInsert [18%N; 63%N] [2%N]; OGet [18%N; 52%N];
              OInsert [18%N; 52%N] [3%N]; OGet [18%N; 52%N]; OGet [18%N]; OInsert [18%N] [4%N]; OGet [18%N]] in
  forallb ins_get_op ops = true
  /\ as_outs ops as_init =
     [RHandle 0 false; RHandle 1 false; RFound 2 (Some [1%N]); RHandle 3 true; RFound 4 (Some [3%N]); RNone;
      RHandle 5 false; RFound 6 (Some [4%N])].
Proof. vm_compute. split; reflexivity. Qed.
