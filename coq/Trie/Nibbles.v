(** The nibble paths of the trie exactly as the code stores them
    (smart-contracts/wasm-chain-integration/src/v1/trie/low_level.rs:578-891, 3322-3363):
    a [Stem] / [MutStem] is a byte vector [data] plus the flag [last_partial] (only the
    high 4 bits of the last byte are used); a [StemIter] is [data] + position + length in
    chunks.  This file transcribes [MutStem::{push,truncate,extend,len}],
    [Stem::{new,len,prepend_parts}], [StemIter::{new,next,to_stem,consumed_to_stem,
    last_to_stem}] and [follow_stem] with the byte operations of the code ([&], [|], [<<],
    [>>] on [u8]).  Definitions only; [NibblesProofs.v] shows that each is the obvious
    operation on the list of nibbles. *)
From Coq Require Import NArith PeanoNat List Bool.
Import ListNotations.
Local Open Scope N_scope.

(** * [u8] operations *)
Definition b_and (a b : N) : N := N.land a b.
Definition b_or (a b : N) : N := N.lor a b.
(** [x << 4] on a [u8]: the bits shifted out are lost. *)
Definition shl4 (a : N) : N := N.land (N.shiftl a 4) 255.
Definition shr4 (a : N) : N := N.shiftr a 4.

(** * Stems *)
Record stem := mkStem { st_data : list N; st_partial : bool }.

Definition stem_empty : stem := mkStem [] false.

(** [len]: number of chunks ([2 * len - 1] underflows for the ill-formed empty partial
    stem; the model uses truncated subtraction, the invariant excludes the case). *)
Definition st_len (s : stem) : nat :=
  if st_partial s then 2 * length (st_data s) - 1 else 2 * length (st_data s).

(** [Stem::new(data, len)]. *)
Definition stem_new (data : list N) (len : nat) : stem := mkStem data (Nat.odd len).

(** Apply [f] to the last element ([*data.last_mut().expect(..) op= ..]). *)
Fixpoint on_last (f : N -> N) (l : list N) : list N :=
  match l with
  | [] => []
  | [x] => [f x]
  | x :: r => x :: on_last f r
  end.

(** [MutStem::push]. *)
Definition ms_push (s : stem) (c : N) : stem :=
  if st_partial s then mkStem (on_last (fun x => b_or x c) (st_data s)) false
  else mkStem (st_data s ++ [shl4 c]) true.

(** [MutStem::truncate]. *)
Definition ms_truncate (s : stem) (len : nat) : stem :=
  if Nat.even len then mkStem (firstn (len / 2) (st_data s)) false
  else mkStem (on_last (fun x => b_and x 240) (firstn (len / 2 + 1) (st_data s))) true.

(** The loop of [extend] when both are partial:
    [tmp = *place & 0x0f; *place >>= 4; *place |= right << 4; right = tmp]. *)
Fixpoint shr_loop (right : N) (places : list N) : list N :=
  match places with
  | [] => []
  | p :: r => b_or (shr4 p) (shl4 right) :: shr_loop (b_and p 15) r
  end.

(** The loop of [extend] when only [self] is partial: the places are zipped with the
    following bytes of the extension; [*place <<= 4; *place |= (next & 0xf0) >> 4].
    Places beyond the zip are left alone. *)
Fixpoint shl_loop (places nexts : list N) : list N :=
  match places, nexts with
  | p :: r, n :: nr => b_or (shl4 p) (shr4 (b_and n 240)) :: shl_loop r nr
  | _, _ => places
  end.

(** [MutStem::extend]. *)
Definition ms_extend (s second : stem) : stem :=
  match st_data second with
  | [] => s
  | d0 :: drest =>
      if st_partial s then
        let start := length (st_data s) in
        let left := b_and d0 240 in
        let data1 := on_last (fun x => b_or x (shr4 left)) (st_data s) in
        if st_partial second then
          let data2 := data1 ++ drest in
          mkStem (firstn start data2 ++ shr_loop (b_and d0 15) (skipn start data2)) false
        else
          let data2 := data1 ++ st_data second in
          mkStem (firstn start data2 ++ shl_loop (skipn start data2) (drest ++ [0])) true
      else mkStem (st_data s ++ st_data second) (st_partial second)
  end.

(** The loop of [prepend_parts]:
    [tmp = *place & 0x0f; *place = old | ( *place >> 4); old = tmp << 4]. *)
Fixpoint prep_loop (old : N) (places : list N) : list N :=
  match places with
  | [] => []
  | p :: r => b_or old (shr4 p) :: prep_loop (shl4 (b_and p 15)) r
  end.

(** [Stem::prepend_parts(&mut self, first, mid)]: the new [self]. *)
Definition prepend_parts (self first : stem) (mid : N) : stem :=
  if st_partial first then
    mkStem (on_last (fun x => b_or x mid) (st_data first) ++ st_data self) (st_partial self)
  else
    let start := length (st_data first) in
    let data := st_data first ++ st_data self in
    let data' := if st_partial self then data else data ++ [0] in
    mkStem (firstn start data' ++ prep_loop (shl4 mid) (skipn start data')) (negb (st_partial self)).

(** * Iterators *)
Record iter := mkIter { it_data : list N; it_pos : nat; it_len : nat }.

(** [StemIter::new(data)] (for keys) and [Stem::iter]. *)
Definition iter_new (data : list N) : iter := mkIter data 0 (2 * length data).
Definition stem_iter (s : stem) : iter := mkIter (st_data s) 0 (st_len s).

(** [StemIter::next]. *)
Definition it_next (it : iter) : option N * iter :=
  if Nat.ltb (it_pos it) (it_len it) then
    let v := nth (it_pos it / 2) (it_data it) 0 in
    (Some (if Nat.even (it_pos it) then shr4 (b_and v 240) else b_and v 15),
     mkIter (it_data it) (S (it_pos it)) (it_len it))
  else (None, it).

(** The loop of [last_to_stem] for an odd position. *)
Fixpoint lts_loop (left : N) (bytes : list N) : list N * N :=
  match bytes with
  | [] => ([], left)
  | b :: r =>
      let (out, l') := lts_loop (shl4 (b_and b 15)) r in
      (b_or left (shr4 (b_and b 240)) :: out, l')
  end.

(** [StemIter::last_to_stem(pos)]. *)
Definition last_to_stem (it : iter) (pos : nat) : stem :=
  let new_len := (it_len it - pos)%nat in
  if Nat.even pos then stem_new (skipn (pos / 2) (it_data it)) new_len
  else
    let left := shl4 (b_and (nth (pos / 2) (it_data it) 0) 15) in
    let (out, l') := lts_loop left (skipn (pos / 2 + 1) (it_data it)) in
    stem_new (if Nat.odd new_len then out ++ [l'] else out) new_len.

Definition to_stem (it : iter) : stem := last_to_stem it (it_pos it).

(** [StemIter::consumed_to_stem]: the consumed part without its last element. *)
Definition consumed_to_stem (it : iter) : stem :=
  match it_pos it with
  | O => stem_empty
  | S new_len =>
      if Nat.even new_len then stem_new (firstn (new_len / 2) (it_data it)) new_len
      else stem_new (firstn (new_len / 2) (it_data it)
                     ++ [b_and (nth (new_len / 2) (it_data it) 0) 240]) new_len
  end.

(** * [follow_stem] on iterators *)
Inductive ifollow :=
| IEqual
| IKeyIsPrefix (stem_step : N)
| IStemIsPrefix (key_step : N)
| IDiff (key_step stem_step : N).

(** One [fuel] per round of the [while let Some(stem_step) = stem_iter.next()] loop. *)
Fixpoint follow_it (fuel : nat) (k s : iter) : ifollow * iter * iter :=
  match it_next s with
  | (Some stem_step, s') =>
      match it_next k with
      | (Some key_step, k') =>
          if negb (stem_step =? key_step) then (IDiff key_step stem_step, k', s')
          else match fuel with
               | O => (IEqual, k', s')      (* not reached with enough fuel *)
               | S f => follow_it f k' s'
               end
      | (None, k') => (IKeyIsPrefix stem_step, k', s')
      end
  | (None, s') =>
      match it_next k with
      | (Some key_step, k') => (IStemIsPrefix key_step, k', s')
      | (None, k') => (IEqual, k', s')
      end
  end.

Definition follow_iter (k s : iter) : ifollow * iter * iter := follow_it (it_len s) k s.

(** * Abstraction: the list of nibbles *)
Fixpoint bnibs (bs : list N) : list N :=
  match bs with
  | [] => []
  | b :: r => (b / 16) :: (b mod 16) :: bnibs r
  end.

Definition nibbles (s : stem) : list N := firstn (st_len s) (bnibs (st_data s)).
Definition it_nibbles (it : iter) : list N := firstn (it_len it) (bnibs (it_data it)).

(** The stored form is well-formed: bytes are bytes, and the unused low nibble of a
    partial last byte is zero (the hash and the serialisation depend on it). *)
Definition st_wf (s : stem) : bool :=
  forallb (fun b => b <? 256) (st_data s)
  && (if st_partial s
      then match st_data s with [] => false | _ => last (st_data s) 0 mod 16 =? 0 end
      else true).

(** Packing nibbles into the stored form (used by the harness and in statements). *)
Fixpoint pack (ns : list N) : list N :=
  match ns with
  | [] => []
  | [h] => [16 * h]
  | h :: l :: r => (16 * h + l) :: pack r
  end.
Definition stem_of_nibbles (ns : list N) : stem := mkStem (pack ns) (Nat.odd (length ns)).
