(** Energy of the contract-state host functions on the refused paths: the documented amounts, as a
    table over the generated cost functions ([Gen/HostCosts.v], translated from constants.rs).  The
    host functions themselves (charge order included) are the model [Contract/HostV1.v], which is tied
    to v1/mod.rs + v1/types.rs by the C14 correspondence (energy consumed compared call by call). *)
From Coq Require Import NArith List Bool.
From CB Require Import Gen.HostCosts Contract.HostBase Contract.HostV0 Contract.HostV1.
Import ListNotations.
Local Open Scope N_scope.

Inductive lop := LCreate | LDelete | LDeletePrefix | LIterate.

(** What a call that is refused because of a lock (or, for [LIterate], because the lock count of the
    prefix is u32::MAX) costs: the key-length dependent charge made before the key is read. *)
Definition refused_charge (o : lop) (key_len : N) : N :=
  match o with
  | LCreate => create_entry_cost key_len
  | LDelete => delete_entry_cost key_len
  | LDeletePrefix => delete_prefix_find_cost key_len
  | LIterate => new_iterator_cost key_len
  end.

Definition refused_result (o : lop) : N :=
  match o with
  | LCreate => U64MAX        (* NEW_NONE *)
  | LDelete => 0
  | LDeletePrefix => 0
  | LIterate => NEW_ERR
  end.

Definition run_lop (o : lop) (key_start key_len : N) : M1 (option N) :=
  match o with
  | LCreate => state_create_entry key_start key_len
  | LDelete => state_delete_entry key_start key_len
  | LDeletePrefix => state_delete_prefix key_start key_len
  | LIterate => state_iterator key_start key_len
  end.

Definition the_is (s : st H1) : istate := x_is (h_ext (hs s)).
