(** Model of [PrefixesMap] (low_level.rs:73-310): the reference-counted byte trie of
    locked prefixes.  The slab of [InnerNode]s becomes a functional tree (a freed
    node simply disappears); [value : Option<NonZeroU32>] becomes a count in [N]
    with 0 = [None].  Children are kept sorted by byte as in the code (the code
    finds a child by binary search, the model by a linear scan of the sorted list).
    Definitions only; lemmas in [PrefixMapProofs.v]. *)
From Coq Require Import NArith List Bool.
From CB Require Import Trie.Radix.
Import ListNotations.
Local Open Scope N_scope.

Inductive pnode :=
| PNode : N -> pforest -> pnode
with pforest :=
| PNil : pforest
| PCons : N -> pnode -> pforest -> pforest.

(** [root : Option<usize>]: [None] iff the map is empty. *)
Definition pmap := option pnode.

(** [u32::MAX]: [checked_add(1)] fails at this count. *)
Definition MAXC : N := 4294967295.

(** The chain of fresh nodes created for the not-yet-present part of a key; the
    last one gets count 1. *)
Fixpoint pn_fresh (k : list N) : pnode :=
  match k with
  | [] => PNode 1 PNil
  | b :: k' => PNode 0 (PCons b (pn_fresh k') PNil)
  end.

(** [insert]: [None] = [Err(TooManyIterators)] (nothing changes). *)
Fixpoint pn_insert (k : list N) (n : pnode) {struct n} : option pnode :=
  match n with
  | PNode c ch =>
      match k with
      | [] => if c =? MAXC then None else Some (PNode (c + 1) ch)
      | b :: k' => option_map (PNode c) (pf_insert b k' ch)
      end
  end
with pf_insert (b : N) (k : list N) (f : pforest) {struct f} : option pforest :=
  match f with
  | PNil => Some (PCons b (pn_fresh k) PNil)
  | PCons b' n r =>
      if b =? b' then option_map (fun n' => PCons b' n' r) (pn_insert k n)
      else if b <? b' then Some (PCons b (pn_fresh k) f)
      else option_map (PCons b' n) (pf_insert b k r)
  end.

Definition pm_insert (k : list N) (m : pmap) : option pmap :=
  match m with
  | None => Some (Some (pn_fresh k))
  | Some n => option_map Some (pn_insert k n)
  end.

(** A node without count and without children is removed (and so, going back up,
    is every ancestor that is left without count and children). *)
Definition pn_mk (c : N) (ch : pforest) : option pnode :=
  match ch with
  | PNil => if c =? 0 then None else Some (PNode c ch)
  | _ => Some (PNode c ch)
  end.

(** [delete]: the flag says whether the key was in the map. *)
Fixpoint pn_delete (k : list N) (n : pnode) {struct n} : option pnode * bool :=
  match n with
  | PNode c ch =>
      match k with
      | [] => if 1 <? c then (Some (PNode (c - 1) ch), true)
              else (pn_mk 0 ch, negb (c =? 0))
      | b :: k' => let (ch', r) := pf_delete b k' ch in (pn_mk c ch', r)
      end
  end
with pf_delete (b : N) (k : list N) (f : pforest) {struct f} : pforest * bool :=
  match f with
  | PNil => (PNil, false)
  | PCons b' n r =>
      if b =? b' then
        match pn_delete k n with
        | (Some n', x) => (PCons b' n' r, x)
        | (None, x) => (r, x)
        end
      else let (r', x) := pf_delete b k r in (PCons b' n r', x)
  end.

Definition pm_delete (k : list N) (m : pmap) : pmap * bool :=
  match m with
  | None => (None, false)
  | Some n => pn_delete k n
  end.

(** [check_has_no_prefix]: [true] = [Ok(())], i.e. no stored key is a prefix of [k]. *)
Fixpoint pn_no_prefix (k : list N) (n : pnode) {struct n} : bool :=
  match n with
  | PNode c ch =>
      match k with
      | [] => c =? 0
      | b :: k' => if c =? 0 then pf_no_prefix b k' ch else false
      end
  end
with pf_no_prefix (b : N) (k : list N) (f : pforest) {struct f} : bool :=
  match f with
  | PNil => true
  | PCons b' n r => if b =? b' then pn_no_prefix k n else pf_no_prefix b k r
  end.

Definition pm_no_prefix (k : list N) (m : pmap) : bool :=
  match m with None => true | Some n => pn_no_prefix k n end.

(** [is_or_has_prefix]. *)
Fixpoint pn_iohp (k : list N) (n : pnode) {struct n} : bool :=
  match n with
  | PNode c ch =>
      match k with
      | [] => true
      | b :: k' => if c =? 0 then pf_iohp b k' ch else true
      end
  end
with pf_iohp (b : N) (k : list N) (f : pforest) {struct f} : bool :=
  match f with
  | PNil => false
  | PCons b' n r => if b =? b' then pn_iohp k n else pf_iohp b k r
  end.

Definition pm_iohp (k : list N) (m : pmap) : bool :=
  match m with None => false | Some n => pn_iohp k n end.

(** Overwrite the count of a key that is present (harness only: reaches the overflow
    boundary without 2^32 insertions; mirrors the hook [verif_set_lock_count]). *)
Fixpoint pn_set (k : list N) (x : N) (n : pnode) {struct n} : pnode :=
  match n with
  | PNode c ch =>
      match k with
      | [] => if c =? 0 then n else PNode x ch
      | b :: k' => PNode c (pf_set b k' x ch)
      end
  end
with pf_set (b : N) (k : list N) (x : N) (f : pforest) {struct f} : pforest :=
  match f with
  | PNil => PNil
  | PCons b' n r => if b =? b' then PCons b' (pn_set k x n) r else PCons b' n (pf_set b k x r)
  end.

Definition pm_set (k : list N) (x : N) (m : pmap) : pmap :=
  match m with None => None | Some n => Some (pn_set k x n) end.

(** Abstraction: the multiplicity of a key. *)
Fixpoint pn_count (k : list N) (n : pnode) {struct n} : N :=
  match n with
  | PNode c ch =>
      match k with
      | [] => c
      | b :: k' => pf_count b k' ch
      end
  end
with pf_count (b : N) (k : list N) (f : pforest) {struct f} : N :=
  match f with
  | PNil => 0
  | PCons b' n r => if b =? b' then pn_count k n else pf_count b k r
  end.

Definition pm_count (k : list N) (m : pmap) : N :=
  match m with None => 0 | Some n => pn_count k n end.

(** All (key, count) pairs with positive count, in key order (the dump the harness
    compares with the implementation's slab). *)
Fixpoint pn_dump (n : pnode) : list (list N * N) :=
  match n with
  | PNode c ch => (if c =? 0 then [] else [([], c)]) ++ pf_dump ch
  end
with pf_dump (f : pforest) : list (list N * N) :=
  match f with
  | PNil => []
  | PCons b n r => map (fun kc => (b :: fst kc, snd kc)) (pn_dump n) ++ pf_dump r
  end.

Definition pm_dump (m : pmap) : list (list N * N) :=
  match m with None => [] | Some n => pn_dump n end.

(** Invariant of the structure: children strictly sorted, counts within [u32], and
    every node without children carries a count (no dead branches). *)
Fixpoint pall_gt (b : N) (f : pforest) : bool :=
  match f with
  | PNil => true
  | PCons b' _ r => (b <? b') && pall_gt b r
  end.

Fixpoint psorted (f : pforest) : bool :=
  match f with
  | PNil => true
  | PCons b _ r => pall_gt b r && psorted r
  end.

Fixpoint pn_wf (n : pnode) : bool :=
  match n with
  | PNode c ch =>
      pf_wf ch && psorted ch && (c <=? MAXC)
      && (match ch with PNil => negb (c =? 0) | _ => true end)
  end
with pf_wf (f : pforest) : bool :=
  match f with
  | PNil => true
  | PCons _ n r => pn_wf n && pf_wf r
  end.

Definition pm_wf (m : pmap) : bool :=
  match m with None => true | Some n => pn_wf n end.

(** * Histories of the prefix map and their multiset specification *)

Inductive pop := PIns (k : list N) | PDel (k : list N) | PCheck (k : list N) | PIohp (k : list N).

Definition pm_step (o : pop) (m : pmap) : pmap * bool :=
  match o with
  | PIns k => match pm_insert k m with Some m' => (m', true) | None => (m, false) end
  | PDel k => pm_delete k m
  | PCheck k => (m, pm_no_prefix k m)
  | PIohp k => (m, pm_iohp k m)
  end.

Fixpoint pm_run (ops : list pop) (m : pmap) : pmap * list bool :=
  match ops with
  | [] => (m, [])
  | o :: r => let (m', b) := pm_step o m in let (m'', bs) := pm_run r m' in (m'', b :: bs)
  end.

(** Specification: a multiset of byte strings as a list. *)
Definition bag := list (list N).
Definition bag_count (k : list N) (b : bag) : N := N.of_nat (length (filter (list_eqb k) b)).

Fixpoint bag_remove (k : list N) (b : bag) : bag :=
  match b with
  | [] => []
  | x :: r => if list_eqb k x then r else x :: bag_remove k r
  end.

Definition bag_step (o : pop) (b : bag) : bag * bool :=
  match o with
  | PIns k => if bag_count k b =? MAXC then (b, false) else (k :: b, true)
  | PDel k => (bag_remove k b, negb (bag_count k b =? 0))
  | PCheck k => (b, negb (existsb (fun p => is_prefix p k) b))
  | PIohp k => (b, existsb (fun p => is_prefix p k || is_prefix k p) b)
  end.

Fixpoint bag_run (ops : list pop) (b : bag) : bag * list bool :=
  match ops with
  | [] => (b, [])
  | o :: r => let (b', x) := bag_step o b in let (b'', xs) := bag_run r b' in (b'', x :: xs)
  end.
