(** Lemmas about [Radix.v]: the radix tree denotes a strictly sorted association list,
    and every operation is the corresponding operation of the ordered map. *)
From Coq Require Import NArith PeanoNat List Bool Lia Sorted.
From CB Require Import Trie.Radix.
Import ListNotations.
Local Open Scope N_scope.

(** * Keys *)

Lemma list_eqb_spec a b : list_eqb a b = true <-> a = b.
Proof.
  revert b. induction a as [|x a IH]; intros [|y b]; cbn; try (split; congruence).
  rewrite andb_true_iff, N.eqb_eq, IH. split; [intros [-> ->]; reflexivity | intros H; inversion H; auto].
Qed.

Lemma list_eqb_refl a : list_eqb a a = true.
Proof. apply list_eqb_spec. reflexivity. Qed.

Lemma list_eqb_neq a b : list_eqb a b = false <-> a <> b.
Proof.
  split.
  - intros H E. apply list_eqb_spec in E. congruence.
  - intros H. destruct (list_eqb a b) eqn:E; [apply list_eqb_spec in E; contradiction | reflexivity].
Qed.

Lemma list_eqb_sym a b : list_eqb a b = list_eqb b a.
Proof.
  destruct (list_eqb a b) eqn:E.
  - apply list_eqb_spec in E. subst. symmetry. apply list_eqb_refl.
  - symmetry. apply list_eqb_neq. apply list_eqb_neq in E. congruence.
Qed.

Lemma is_prefix_spec p k : is_prefix p k = true <-> exists r, k = p ++ r.
Proof.
  revert k. induction p as [|x p IH]; intros k; cbn.
  - split; [intros _; exists k; reflexivity | reflexivity].
  - destruct k as [|y k].
    + split; [discriminate | intros [r H]; discriminate].
    + rewrite andb_true_iff, N.eqb_eq, IH. split.
      * intros [-> [r ->]]. exists r. reflexivity.
      * intros [r H]. inversion H. subst. split; [reflexivity | exists r; reflexivity].
Qed.

Lemma is_prefix_app p r : is_prefix p (p ++ r) = true.
Proof. apply is_prefix_spec. exists r. reflexivity. Qed.

Lemma is_prefix_refl p : is_prefix p p = true.
Proof. apply is_prefix_spec. exists []. rewrite app_nil_r. reflexivity. Qed.

Lemma is_prefix_nil k : is_prefix [] k = true.
Proof. reflexivity. Qed.

Lemma is_prefix_app_l p a b : is_prefix (p ++ a) (p ++ b) = is_prefix a b.
Proof. induction p as [|x p IH]; cbn; [reflexivity|]. rewrite N.eqb_refl. exact IH. Qed.

Lemma is_prefix_trans a b c : is_prefix a b = true -> is_prefix b c = true -> is_prefix a c = true.
Proof.
  rewrite !is_prefix_spec. intros [r ->] [s ->]. exists (r ++ s). rewrite app_assoc. reflexivity.
Qed.

(** Two prefixes of the same key are comparable. *)
Lemma is_prefix_comparable a b k :
  is_prefix a k = true -> is_prefix b k = true -> is_prefix a b = true \/ is_prefix b a = true.
Proof.
  revert b k. induction a as [|x a IH]; intros b k Ha Hb; [left; reflexivity|].
  destruct b as [|y b]; [right; reflexivity|].
  destruct k as [|z k]; [discriminate|]. cbn in *.
  apply andb_true_iff in Ha as [Hx Ha]. apply andb_true_iff in Hb as [Hy Hb].
  apply N.eqb_eq in Hx, Hy. subst.
  rewrite N.eqb_refl. cbn. eapply IH; eassumption.
Qed.

Lemma lex_ltb_irrefl a : lex_ltb a a = false.
Proof. induction a as [|x a IH]; cbn; [reflexivity|]. rewrite N.ltb_irrefl, N.eqb_refl. exact IH. Qed.

Lemma lex_ltb_trans a b c : lex_ltb a b = true -> lex_ltb b c = true -> lex_ltb a c = true.
Proof.
  revert b c. induction a as [|x a IH]; intros [|y b] [|z c]; cbn; try congruence.
  destruct (N.ltb_spec x y), (N.ltb_spec y z), (N.ltb_spec x z); try reflexivity; try lia;
    destruct (N.eqb_spec x y), (N.eqb_spec y z), (N.eqb_spec x z); try congruence; try lia.
  apply IH.
Qed.

Lemma lex_ltb_total a b : lex_ltb a b = false -> lex_ltb b a = false -> a = b.
Proof.
  revert b. induction a as [|x a IH]; intros [|y b]; cbn; try congruence.
  destruct (N.ltb_spec x y), (N.ltb_spec y x); try congruence; try lia.
  destruct (N.eqb_spec x y), (N.eqb_spec y x); try congruence; try lia.
  intros. f_equal; auto.
Qed.

Lemma lex_ltb_asym a b : lex_ltb a b = true -> lex_ltb b a = false.
Proof.
  intros H. destruct (lex_ltb b a) eqn:E; [|reflexivity].
  pose proof (lex_ltb_trans _ _ _ H E) as X. rewrite lex_ltb_irrefl in X. discriminate.
Qed.

Lemma lex_ltb_app p a b : lex_ltb (p ++ a) (p ++ b) = lex_ltb a b.
Proof. induction p as [|x p IH]; cbn; [reflexivity|]. rewrite N.ltb_irrefl, N.eqb_refl. exact IH. Qed.

Lemma lex_ltb_nil_cons x a : lex_ltb [] (x :: a) = true.
Proof. reflexivity. Qed.

Lemma lex_ltb_cons_lt x y a b : x < y -> lex_ltb (x :: a) (y :: b) = true.
Proof. intros H. cbn. destruct (N.ltb_spec x y); [reflexivity | lia]. Qed.

(** [nib] is an embedding for equality, prefix and order. *)
Lemma nib_digits b : b = 16 * (b / 16) + b mod 16.
Proof. apply N.div_mod'. Qed.

Lemma nib_byte_inj a b : a / 16 = b / 16 -> a mod 16 = b mod 16 -> a = b.
Proof. intros H1 H2. rewrite (nib_digits a), (nib_digits b), H1, H2. reflexivity. Qed.

Lemma nib_eqb a b : list_eqb (nib a) (nib b) = list_eqb a b.
Proof.
  revert b. induction a as [|x a IH]; intros [|y b]; cbn; try reflexivity.
  rewrite IH. destruct (N.eqb_spec x y) as [->|Hn].
  - rewrite !N.eqb_refl. reflexivity.
  - destruct (N.eqb_spec (x / 16) (y / 16)); [|reflexivity].
    destruct (N.eqb_spec (x mod 16) (y mod 16)); [|reflexivity].
    exfalso. apply Hn. apply nib_byte_inj; assumption.
Qed.

Lemma nib_inj a b : nib a = nib b -> a = b.
Proof. intros H. apply list_eqb_spec. rewrite <- nib_eqb. apply list_eqb_spec. exact H. Qed.

Lemma nib_prefix a b : is_prefix (nib a) (nib b) = is_prefix a b.
Proof.
  revert b. induction a as [|x a IH]; intros [|y b]; cbn; try reflexivity.
  rewrite IH. destruct (N.eqb_spec x y) as [->|Hn].
  - rewrite !N.eqb_refl. reflexivity.
  - destruct (N.eqb_spec (x / 16) (y / 16)); [|reflexivity].
    destruct (N.eqb_spec (x mod 16) (y mod 16)); [|reflexivity].
    exfalso. apply Hn. apply nib_byte_inj; assumption.
Qed.

Lemma nib_byte_lex x y :
  (if x / 16 <? y / 16 then true
   else if x / 16 =? y / 16 then
          if x mod 16 <? y mod 16 then true else if x mod 16 =? y mod 16 then false else false
        else false) = (x <? y).
Proof.
  pose proof (nib_digits x) as Hx. pose proof (nib_digits y) as Hy.
  pose proof (N.mod_lt x 16 ltac:(lia)) as Mx. pose proof (N.mod_lt y 16 ltac:(lia)) as My.
  generalize dependent (x / 16). generalize dependent (x mod 16).
  generalize dependent (y / 16). generalize dependent (y mod 16).
  intros yl My yh Hy xl Mx xh Hx.
  destruct (N.ltb_spec xh yh), (N.eqb_spec xh yh), (N.ltb_spec xl yl), (N.eqb_spec xl yl),
    (N.ltb_spec x y); try reflexivity; lia.
Qed.

Lemma nib_lex a b : lex_ltb (nib a) (nib b) = lex_ltb a b.
Proof.
  revert b. induction a as [|x a IH]; intros [|y b]; cbn; try reflexivity.
  rewrite IH.
  destruct (N.eqb_spec x y) as [->|Hn].
  - rewrite !N.ltb_irrefl, !N.eqb_refl. reflexivity.
  - rewrite <- (nib_byte_lex x y).
    destruct (x / 16 <? y / 16); [reflexivity|].
    destruct (N.eqb_spec (x / 16) (y / 16)) as [E|E]; [|reflexivity].
    destruct (x mod 16 <? y mod 16); [reflexivity|].
    destruct (N.eqb_spec (x mod 16) (y mod 16)) as [E2|E2]; [|reflexivity].
    exfalso. apply Hn. apply nib_byte_inj; assumption.
Qed.

Lemma unnib_nib a : unnib (nib a) = a.
Proof.
  induction a as [|x a IH]; cbn; [reflexivity|]. rewrite IH. f_equal.
  symmetry. apply nib_digits.
Qed.

(** * [strip] and [follow_stem] *)

Fixpoint strip (p k : list N) : option (list N) :=
  match p, k with
  | [], _ => Some k
  | x :: p', y :: k' => if x =? y then strip p' k' else None
  | _ :: _, [] => None
  end.

Lemma strip_spec p k r : strip p k = Some r <-> k = p ++ r.
Proof.
  revert k. induction p as [|x p IH]; intros k; cbn.
  - split; [intros H; inversion H; reflexivity | intros ->; reflexivity].
  - destruct k as [|y k]; [split; discriminate|].
    destruct (N.eqb_spec x y) as [->|Hn].
    + rewrite IH. split; [intros ->; reflexivity | intros H; inversion H; reflexivity].
    + split; [discriminate | intros H; inversion H; congruence].
Qed.

Lemma strip_app_same p r : strip p (p ++ r) = Some r.
Proof. apply strip_spec. reflexivity. Qed.

Lemma strip_refl p : strip p p = Some [].
Proof. apply strip_spec. rewrite app_nil_r. reflexivity. Qed.

Lemma strip_app a b k :
  strip (a ++ b) k = match strip a k with None => None | Some r => strip b r end.
Proof.
  revert k. induction a as [|x a IH]; intros k; cbn; [reflexivity|].
  destruct k as [|y k]; [reflexivity|]. destruct (x =? y); [apply IH | reflexivity].
Qed.

Lemma strip_none_prefix p k : strip p k = None <-> is_prefix p k = false.
Proof.
  revert k. induction p as [|x p IH]; intros k; cbn; [split; discriminate|].
  destruct k as [|y k]; [split; reflexivity|].
  destruct (x =? y); cbn; [apply IH | split; reflexivity].
Qed.

Lemma strip_some_prefix p k r : strip p k = Some r -> is_prefix p k = true.
Proof. intros H. apply strip_spec in H. subst. apply is_prefix_app. Qed.

Lemma follow_stem_spec k p :
  match follow_stem k p with
  | FEqual => k = p
  | FKeyIsPrefix s ps => p = k ++ s :: ps
  | FStemIsPrefix c k' => k = p ++ c :: k'
  | FDiff cm kc kr sc sr => k = cm ++ kc :: kr /\ p = cm ++ sc :: sr /\ kc <> sc
  end.
Proof.
  revert p. induction k as [|c ks IH]; intros [|s ps]; cbn; try reflexivity.
  destruct (N.eqb_spec c s) as [->|Hn].
  - specialize (IH ps). destruct (follow_stem ks ps); cbn.
    + subst. reflexivity.
    + subst. reflexivity.
    + subst. reflexivity.
    + destruct IH as (-> & -> & H). auto.
  - auto.
Qed.

(** * Semantic unfolding of [lookup] *)

Section Lookup.
Context {V : Type}.

Definition lookup_o (k : list N) (o : option (tree V)) : option V := lookup_root k o.

Lemma lookup_node k p (ov : option V) cs :
  lookup k (Node p ov cs) =
  match strip p k with
  | None => None
  | Some [] => ov
  | Some (c :: k') => lookup_f c k' cs
  end.
Proof.
  cbn [lookup]. pose proof (follow_stem_spec k p) as H.
  destruct (follow_stem k p) as [|s ps|c k'|cm kc kr sc sr].
  - subst. rewrite strip_refl. reflexivity.
  - subst. replace (strip (k ++ s :: ps) k) with (@None (list N)); [reflexivity|].
    symmetry. apply strip_none_prefix.
    destruct (is_prefix (k ++ s :: ps) k) eqn:E; [|reflexivity].
    apply is_prefix_spec in E as [r E]. apply (f_equal (@length N)) in E.
    rewrite !app_length in E. cbn in E. lia.
  - subst. rewrite strip_app_same. reflexivity.
  - destruct H as (-> & -> & Hn). rewrite strip_app, strip_app_same. cbn.
    destruct (N.eqb_spec sc kc); [congruence | reflexivity].
Qed.

Lemma lookup_f_cons c k c' (t : tree V) r :
  lookup_f c k (FCons c' t r) = if c =? c' then lookup k t else lookup_f c k r.
Proof. reflexivity. Qed.

Lemma lookup_f_all_gt c k (f : forest V) : all_gt c f = true -> lookup_f c k f = None.
Proof.
  induction f as [|c' t r IH]; cbn; [reflexivity|].
  intros H. apply andb_true_iff in H as [H1 H2]. apply N.ltb_lt in H1.
  destruct (N.eqb_spec c c'); [lia | auto].
Qed.

Lemma all_gt_trans c c' (f : forest V) : c < c' -> all_gt c' f = true -> all_gt c f = true.
Proof.
  intros Hc. induction f as [|x t r IH]; cbn; [reflexivity|].
  intros H. apply andb_true_iff in H as [H1 H2]. apply N.ltb_lt in H1.
  apply andb_true_iff. split; [apply N.ltb_lt; lia | auto].
Qed.

End Lookup.

(** * Operations are the map operations (in terms of [lookup]) *)

Scheme tree_ind2 := Induction for tree Sort Prop
  with forest_ind2 := Induction for forest Sort Prop.
Combined Scheme tree_forest_ind from tree_ind2, forest_ind2.

Lemma list_eqb_strip a b :
  list_eqb a b = match strip a b with Some [] => true | _ => false end.
Proof.
  destruct (strip a b) as [[|c r]|] eqn:E.
  - apply strip_spec in E. subst. rewrite app_nil_r. apply list_eqb_refl.
  - apply strip_spec in E. subst. apply list_eqb_neq. intros H.
    apply (f_equal (@length N)) in H. rewrite app_length in H. cbn in H. lia.
  - apply list_eqb_neq. intros ->. rewrite strip_refl in E. discriminate.
Qed.

Section OpsSpec.
Context {V : Type}.
Implicit Types (t : tree V) (f : forest V).


(** Unfolding equations (the mutual fixpoints do not refold nicely under [cbn]). *)
Lemma wfb_eq p (ov : option V) cs :
  wfb (Node p ov cs) =
  wfb_f cs && sorted_f cs && (match ov with Some _ => true | None => Nat.leb 2 (flen cs) end).
Proof. reflexivity. Qed.

Lemma wfb_f_cons c t f : wfb_f (FCons c t f) = wfb t && wfb_f f.
Proof. reflexivity. Qed.

Lemma insert_eq k (v : V) p ov cs :
  insert k v (Node p ov cs) =
  match follow_stem k p with
  | FEqual => Node p (Some v) cs
  | FKeyIsPrefix s ps => Node k (Some v) (FCons s (Node ps ov cs) FNil)
  | FStemIsPrefix c k' => Node p ov (insert_f c k' v cs)
  | FDiff cm kc kr sc sr =>
      Node cm None (if kc <? sc then FCons kc (Node kr (Some v) FNil) (FCons sc (Node sr ov cs) FNil)
                    else FCons sc (Node sr ov cs) (FCons kc (Node kr (Some v) FNil) FNil))
  end.
Proof. reflexivity. Qed.

Lemma insert_f_cons c k (v : V) c' t r :
  insert_f c k v (FCons c' t r) =
  if c =? c' then FCons c' (insert k v t) r
  else if c <? c' then FCons c (Node k (Some v) FNil) (FCons c' t r)
  else FCons c' t (insert_f c k v r).
Proof. reflexivity. Qed.

Lemma delete_eq k p (ov : option V) cs :
  delete k (Node p ov cs) =
  match follow_stem k p with
  | FEqual => match ov with Some _ => collapse p None cs | None => Some (Node p ov cs) end
  | FStemIsPrefix c k' => collapse p ov (delete_f c k' cs)
  | _ => Some (Node p ov cs)
  end.
Proof. reflexivity. Qed.

Lemma delete_f_cons c k c' (t : tree V) r :
  delete_f c k (FCons c' t r) =
  if c =? c' then match delete k t with Some t' => FCons c' t' r | None => r end
  else FCons c' t (delete_f c k r).
Proof. reflexivity. Qed.

Lemma delete_prefix_eq k p (ov : option V) cs :
  delete_prefix k (Node p ov cs) =
  match follow_stem k p with
  | FEqual => None
  | FKeyIsPrefix _ _ => None
  | FStemIsPrefix c k' => collapse p ov (delete_prefix_f c k' cs)
  | FDiff _ _ _ _ _ => Some (Node p ov cs)
  end.
Proof. reflexivity. Qed.

Lemma delete_prefix_f_cons c k c' (t : tree V) r :
  delete_prefix_f c k (FCons c' t r) =
  if c =? c' then match delete_prefix k t with Some t' => FCons c' t' r | None => r end
  else FCons c' t (delete_prefix_f c k r).
Proof. reflexivity. Qed.

Lemma has_prefix_eq k p (ov : option V) cs :
  has_prefix k (Node p ov cs) =
  match follow_stem k p with
  | FEqual => true
  | FKeyIsPrefix _ _ => true
  | FStemIsPrefix c k' => has_prefix_f c k' cs
  | FDiff _ _ _ _ _ => false
  end.
Proof. reflexivity. Qed.

Lemma has_prefix_f_cons c k c' (t : tree V) r :
  has_prefix_f c k (FCons c' t r) = if c =? c' then has_prefix k t else has_prefix_f c k r.
Proof. reflexivity. Qed.

Lemma to_list_eq p (ov : option V) cs :
  to_list (Node p ov cs) =
  map (pre p) ((match ov with Some v => [([], v)] | None => [] end) ++ to_list_f cs).
Proof. reflexivity. Qed.

Lemma to_list_f_cons c (t : tree V) r :
  to_list_f (FCons c t r) = map (pre [c]) (to_list t) ++ to_list_f r.
Proof. reflexivity. Qed.

Lemma iterate_eq k p (ov : option V) cs :
  iterate k (Node p ov cs) =
  match follow_stem k p with
  | FEqual => to_list (Node p ov cs)
  | FKeyIsPrefix _ _ => to_list (Node p ov cs)
  | FStemIsPrefix c k' => map (pre p) (iterate_f c k' cs)
  | FDiff _ _ _ _ _ => []
  end.
Proof. reflexivity. Qed.

Lemma iterate_f_cons c k c' (t : tree V) r :
  iterate_f c k (FCons c' t r) = if c =? c' then map (pre [c']) (iterate k t) else iterate_f c k r.
Proof. reflexivity. Qed.

Lemma sorted_f_cons c (t : tree V) r : sorted_f (FCons c t r) = all_gt c r && sorted_f r.
Proof. reflexivity. Qed.

Lemma all_gt_cons c c' (t : tree V) r : all_gt c (FCons c' t r) = (c <? c') && all_gt c r.
Proof. reflexivity. Qed.

Lemma wfb_node p (ov : option V) cs :
  wfb (Node p ov cs) = true ->
  wfb_f cs = true /\ sorted_f cs = true /\ (ov = None -> (2 <= flen cs)%nat).
Proof.
  rewrite wfb_eq, !andb_true_iff. intros [[H1 H2] H3]. repeat split; auto.
  intros ->. apply Nat.leb_le. exact H3.
Qed.

Lemma wfb_node_intro p (ov : option V) cs :
  wfb_f cs = true -> sorted_f cs = true -> (ov = None -> (2 <= flen cs)%nat) ->
  wfb (Node p ov cs) = true.
Proof.
  intros H1 H2 H3. rewrite wfb_eq, H1, H2. cbn [andb].
  destruct ov; [reflexivity|]. apply Nat.leb_le. auto.
Qed.

Lemma lookup_leaf k (v : V) k' :
  lookup k' (Node k (Some v) FNil) = if list_eqb k k' then Some v else None.
Proof.
  rewrite lookup_node, list_eqb_strip. destruct (strip k k') as [[|c r]|]; reflexivity.
Qed.

Lemma lookup_insert_mut :
  (forall t k v k', wfb t = true ->
     lookup k' (insert k v t) = if list_eqb k k' then Some v else lookup k' t)
  /\ (forall f c k v c' k', sorted_f f = true -> wfb_f f = true ->
     lookup_f c' k' (insert_f c k v f) =
     if (c =? c') && list_eqb k k' then Some v else lookup_f c' k' f).
Proof.
  apply tree_forest_ind.
  - intros p ov cs IHf k v k' Hwf.
    apply wfb_node in Hwf as (Hwf & Hs & _).
    rewrite insert_eq. pose proof (follow_stem_spec k p) as HF.
    destruct (follow_stem k p) as [|s ps|c k0|cm kc kr sc sr].
    + subst. rewrite !lookup_node, list_eqb_strip.
      destruct (strip p k') as [[|c r]|]; reflexivity.
    + subst. rewrite !lookup_node, list_eqb_strip, strip_app.
      destruct (strip k k') as [[|c r]|]; try reflexivity.
      rewrite lookup_f_cons. cbn [strip lookup_f]. rewrite (N.eqb_sym s c).
      destruct (c =? s); [|reflexivity]. rewrite lookup_node. reflexivity.
    + subst. rewrite !lookup_node, list_eqb_strip, strip_app.
      destruct (strip p k') as [[|c' r]|]; try reflexivity.
      rewrite IHf by assumption. cbn [strip]. rewrite list_eqb_strip.
      destruct (c =? c'); reflexivity.
    + destruct HF as (-> & -> & Hn).
      rewrite !lookup_node, list_eqb_strip, !strip_app.
      destruct (strip cm k') as [[|c r]|]; try reflexivity.
      cbn [strip].
      assert (L : forall f', lookup_f c r f' =
                  (if c =? kc then lookup r (Node kr (Some v) FNil)
                   else if c =? sc then lookup r (Node sr ov cs) else None) ->
              lookup_f c r f' =
              (if match (if kc =? c then strip kr r else None) with Some [] => true | _ => false end
               then Some v
               else match (if sc =? c then strip sr r else None) with
                    | None => None | Some [] => ov | Some (c0 :: k'0) => lookup_f c0 k'0 cs end)).
      { intros f' ->. rewrite (N.eqb_sym kc c), (N.eqb_sym sc c).
        destruct (N.eqb_spec c kc) as [->|H1].
        - destruct (N.eqb_spec kc sc); [congruence|].
          rewrite lookup_leaf, list_eqb_strip. destruct (strip kr r) as [[|? ?]|]; reflexivity.
        - destruct (c =? sc); [|reflexivity]. rewrite lookup_node. reflexivity. }
      apply L. destruct (kc <? sc).
      * rewrite !lookup_f_cons. cbn [lookup_f]. reflexivity.
      * rewrite !lookup_f_cons. cbn [lookup_f].
        destruct (N.eqb_spec c kc) as [->|H1]; [|reflexivity].
        destruct (N.eqb_spec kc sc); [congruence | reflexivity].
  - intros c k v c' k' _ _. cbn [insert_f lookup_f]. rewrite (N.eqb_sym c' c).
    destruct (c =? c'); cbn [andb]; [apply lookup_leaf | reflexivity].
  - intros c0 t IHt r IHr c k v c' k' Hs Hwf.
    rewrite sorted_f_cons in Hs. apply andb_true_iff in Hs as [Hgt Hs].
    rewrite wfb_f_cons in Hwf. apply andb_true_iff in Hwf as [Hwt Hwr].
    rewrite insert_f_cons.
    destruct (N.eqb_spec c c0) as [->|Hne].
    + rewrite !lookup_f_cons. rewrite (N.eqb_sym c' c0).
      destruct (c0 =? c'); cbn [andb]; [apply IHt; assumption | reflexivity].
    + destruct (N.ltb_spec c c0) as [Hlt|Hge].
      * rewrite lookup_f_cons. rewrite (N.eqb_sym c' c).
        destruct (N.eqb_spec c c') as [<-|Hcc]; cbn [andb]; [|reflexivity].
        rewrite lookup_leaf.
        rewrite (lookup_f_all_gt c k' (FCons c0 t r)).
        -- reflexivity.
        -- rewrite all_gt_cons. apply andb_true_iff. split; [apply N.ltb_lt; assumption|].
           eapply all_gt_trans; eassumption.
      * rewrite !lookup_f_cons. rewrite IHr by assumption.
        destruct (N.eqb_spec c' c0) as [->|Hc0]; [|reflexivity].
        destruct (N.eqb_spec c c0); [congruence|]. reflexivity.
Qed.

Lemma lookup_insert t k v k' :
  wfb t = true -> lookup k' (insert k v t) = if list_eqb k k' then Some v else lookup k' t.
Proof. apply lookup_insert_mut. Qed.

Lemma lookup_insert_root r k (v : V) k' :
  wfb_root r = true ->
  lookup k' (insert_root k v r) = if list_eqb k k' then Some v else lookup_root k' r.
Proof.
  destruct r as [t|]; cbn [insert_root lookup_root wfb_root].
  - apply lookup_insert.
  - intros _. apply lookup_leaf.
Qed.

Lemma lookup_collapse p (ov : option V) cs k' :
  lookup_o k' (collapse p ov cs) = lookup k' (Node p ov cs).
Proof.
  unfold collapse. destruct ov as [x|]; [reflexivity|].
  destruct cs as [|c [cp cv ccs] [|c2 t2 r2]]; try reflexivity.
  - cbn [lookup_o lookup_root]. rewrite lookup_node. destruct (strip p k') as [[|c r]|]; reflexivity.
  - cbn [lookup_o lookup_root]. rewrite !lookup_node, strip_app.
    destruct (strip p k') as [[|c' r]|]; try reflexivity.
    rewrite lookup_f_cons. cbn [strip lookup_f]. rewrite (N.eqb_sym c c').
    destruct (c' =? c); [|reflexivity]. rewrite lookup_node. reflexivity.
Qed.

Lemma lookup_delete_mut :
  (forall t k k', wfb t = true ->
     lookup_o k' (delete k t) = if list_eqb k k' then None else lookup k' t)
  /\ (forall f c k c' k', sorted_f f = true -> wfb_f f = true ->
     lookup_f c' k' (delete_f c k f) =
     if (c =? c') && list_eqb k k' then None else lookup_f c' k' f).
Proof.
  apply tree_forest_ind.
  - intros p ov cs IHf k k' Hwf.
    apply wfb_node in Hwf as (Hwf & Hs & _).
    rewrite delete_eq. pose proof (follow_stem_spec k p) as HF.
    destruct (follow_stem k p) as [|s ps|c k0|cm kc kr sc sr].
    + subst. destruct ov as [x|].
      * rewrite lookup_collapse, !lookup_node, list_eqb_strip.
        destruct (strip p k') as [[|c r]|]; reflexivity.
      * cbn [lookup_o lookup_root]. rewrite lookup_node, list_eqb_strip.
        destruct (strip p k') as [[|c r]|]; reflexivity.
    + subst. cbn [lookup_o lookup_root]. rewrite lookup_node, list_eqb_strip, strip_app.
      destruct (strip k k') as [[|c r]|]; reflexivity.
    + subst. rewrite lookup_collapse, !lookup_node, list_eqb_strip, strip_app.
      destruct (strip p k') as [[|c' r]|]; try reflexivity.
      rewrite IHf by assumption. cbn [strip]. rewrite list_eqb_strip.
      destruct (c =? c'); reflexivity.
    + destruct HF as (-> & -> & Hn). cbn [lookup_o lookup_root].
      rewrite lookup_node, list_eqb_strip, !strip_app.
      destruct (strip cm k') as [[|c r]|]; try reflexivity.
      cbn [strip]. destruct (N.eqb_spec kc c) as [->|H1]; [|reflexivity].
      destruct (N.eqb_spec sc c); [congruence|].
      destruct (strip kr r) as [[|? ?]|]; reflexivity.
  - intros c k c' k' _ _. cbn. destruct ((c =? c') && list_eqb k k'); reflexivity.
  - intros c0 t IHt r IHr c k c' k' Hs Hwf.
    rewrite sorted_f_cons in Hs. apply andb_true_iff in Hs as [Hgt Hs].
    rewrite wfb_f_cons in Hwf. apply andb_true_iff in Hwf as [Hwt Hwr].
    rewrite delete_f_cons.
    destruct (N.eqb_spec c c0) as [->|Hne].
    + specialize (IHt k k' Hwt). rewrite lookup_f_cons, (N.eqb_sym c' c0).
      destruct (delete k t) as [t'|].
      * rewrite lookup_f_cons, (N.eqb_sym c' c0).
        destruct (c0 =? c'); cbn [andb]; [exact IHt | reflexivity].
      * destruct (N.eqb_spec c0 c') as [<-|Hc]; cbn [andb]; [|reflexivity].
        rewrite lookup_f_all_gt by assumption. cbn [lookup_o lookup_root] in IHt.
        destruct (list_eqb k k'); [reflexivity | exact IHt].
    + rewrite !lookup_f_cons, IHr by assumption.
      destruct (N.eqb_spec c' c0) as [->|Hc0]; [|reflexivity].
      destruct (N.eqb_spec c c0); [congruence | reflexivity].
Qed.

Lemma lookup_delete t k k' :
  wfb t = true -> lookup_o k' (delete k t) = if list_eqb k k' then None else lookup k' t.
Proof. apply lookup_delete_mut. Qed.

Lemma is_prefix_strip a b :
  is_prefix a b = match strip a b with Some _ => true | None => false end.
Proof.
  destruct (strip a b) eqn:E.
  - eapply strip_some_prefix; eassumption.
  - apply strip_none_prefix. assumption.
Qed.

Lemma lookup_delete_prefix_mut :
  (forall t k k', wfb t = true ->
     lookup_o k' (delete_prefix k t) = if is_prefix k k' then None else lookup k' t)
  /\ (forall f c k c' k', sorted_f f = true -> wfb_f f = true ->
     lookup_f c' k' (delete_prefix_f c k f) =
     if (c =? c') && is_prefix k k' then None else lookup_f c' k' f).
Proof.
  apply tree_forest_ind.
  - intros p ov cs IHf k k' Hwf.
    apply wfb_node in Hwf as (Hwf & Hs & _).
    rewrite delete_prefix_eq. pose proof (follow_stem_spec k p) as HF.
    destruct (follow_stem k p) as [|s ps|c k0|cm kc kr sc sr].
    + subst. cbn [lookup_o lookup_root]. rewrite lookup_node, is_prefix_strip.
      destruct (strip p k'); reflexivity.
    + subst. cbn [lookup_o lookup_root]. rewrite lookup_node, is_prefix_strip, strip_app.
      destruct (strip k k'); reflexivity.
    + subst. rewrite lookup_collapse, !lookup_node, is_prefix_strip, strip_app.
      destruct (strip p k') as [[|c' r]|]; try reflexivity.
      rewrite IHf by assumption. cbn [strip]. rewrite is_prefix_strip.
      destruct (c =? c'); reflexivity.
    + destruct HF as (-> & -> & Hn). cbn [lookup_o lookup_root].
      rewrite lookup_node, is_prefix_strip, !strip_app.
      destruct (strip cm k') as [[|c r]|]; try reflexivity.
      cbn [strip]. destruct (N.eqb_spec kc c) as [->|H1]; [|reflexivity].
      destruct (N.eqb_spec sc c); [congruence|].
      destruct (strip kr r); reflexivity.
  - intros c k c' k' _ _. cbn. destruct ((c =? c') && is_prefix k k'); reflexivity.
  - intros c0 t IHt r IHr c k c' k' Hs Hwf.
    rewrite sorted_f_cons in Hs. apply andb_true_iff in Hs as [Hgt Hs].
    rewrite wfb_f_cons in Hwf. apply andb_true_iff in Hwf as [Hwt Hwr].
    rewrite delete_prefix_f_cons.
    destruct (N.eqb_spec c c0) as [->|Hne].
    + specialize (IHt k k' Hwt). rewrite lookup_f_cons, (N.eqb_sym c' c0).
      destruct (delete_prefix k t) as [t'|].
      * rewrite lookup_f_cons, (N.eqb_sym c' c0).
        destruct (c0 =? c'); cbn [andb]; [exact IHt | reflexivity].
      * destruct (N.eqb_spec c0 c') as [<-|Hc]; cbn [andb]; [|reflexivity].
        rewrite lookup_f_all_gt by assumption. cbn [lookup_o lookup_root] in IHt.
        destruct (is_prefix k k'); [reflexivity | exact IHt].
    + rewrite !lookup_f_cons, IHr by assumption.
      destruct (N.eqb_spec c' c0) as [->|Hc0]; [|reflexivity].
      destruct (N.eqb_spec c c0); [congruence | reflexivity].
Qed.

Lemma lookup_delete_prefix t k k' :
  wfb t = true ->
  lookup_o k' (delete_prefix k t) = if is_prefix k k' then None else lookup k' t.
Proof. apply lookup_delete_prefix_mut. Qed.

(** * Well-formedness is preserved *)

Lemma wfb_path_irrelevant p q (ov : option V) cs : wfb (Node p ov cs) = wfb (Node q ov cs).
Proof. rewrite !wfb_eq. reflexivity. Qed.

Lemma wfb_insert_mut :
  (forall t k v, wfb t = true -> wfb (insert k v t) = true)
  /\ (forall f c k v, sorted_f f = true -> wfb_f f = true ->
        sorted_f (insert_f c k v f) = true /\ wfb_f (insert_f c k v f) = true
        /\ (flen f <= flen (insert_f c k v f))%nat
        /\ (forall x, all_gt x f = true -> x < c -> all_gt x (insert_f c k v f) = true)).
Proof.
  apply tree_forest_ind.
  - intros p ov cs IHf k v Hwf. pose proof Hwf as Hwf0.
    apply wfb_node in Hwf as (Hwf & Hs & Hlen).
    rewrite insert_eq. pose proof (follow_stem_spec k p) as HF.
    destruct (follow_stem k p) as [|s ps|c k0|cm kc kr sc sr].
    + apply wfb_node_intro; auto. discriminate.
    + apply wfb_node_intro; try discriminate.
      * rewrite wfb_f_cons. rewrite (wfb_path_irrelevant ps p), Hwf0. reflexivity.
      * reflexivity.
    + destruct (IHf c k0 v Hs Hwf) as (A & B & C & _).
      apply wfb_node_intro; auto. intros E. specialize (Hlen E). lia.
    + assert (Hold : wfb (Node sr ov cs) = true) by (rewrite (wfb_path_irrelevant sr p); exact Hwf0).
      assert (Hleaf : wfb (Node kr (Some v) (@FNil V)) = true) by reflexivity.
      apply wfb_node_intro.
      * destruct (kc <? sc); rewrite !wfb_f_cons, Hold, Hleaf; reflexivity.
      * destruct HF as (_ & _ & Hn).
        destruct (N.ltb_spec kc sc) as [Hlt|Hge]; rewrite !sorted_f_cons, !all_gt_cons; cbn [all_gt sorted_f andb].
        -- apply N.ltb_lt in Hlt. rewrite Hlt. reflexivity.
        -- assert (sc <? kc = true) as ->; [|reflexivity].
           apply N.ltb_lt. lia.
      * intros _. destruct (kc <? sc); cbn; lia.
  - intros c k v _ _. cbn. repeat split; auto.
    intros x _ Hx. apply N.ltb_lt in Hx. rewrite Hx. reflexivity.
  - intros c0 t IHt r IHr c k v Hs Hwf.
    rewrite sorted_f_cons in Hs. apply andb_true_iff in Hs as [Hgt Hs].
    rewrite wfb_f_cons in Hwf. apply andb_true_iff in Hwf as [Hwt Hwr].
    rewrite insert_f_cons.
    destruct (N.eqb_spec c c0) as [->|Hne].
    + rewrite sorted_f_cons, wfb_f_cons, Hgt, Hs, Hwr, (IHt k v Hwt). cbn [flen].
      repeat split; auto; intros x Hx _; rewrite all_gt_cons in *; exact Hx.
    + destruct (N.ltb_spec c c0) as [Hlt|Hge].
      * rewrite !sorted_f_cons, !wfb_f_cons, !all_gt_cons, Hgt, Hs, Hwt, Hwr.
        assert (c <? c0 = true) as -> by (apply N.ltb_lt; assumption).
        rewrite (all_gt_trans c c0 r Hlt Hgt). cbn [flen].
        repeat split; auto;
        intros x Hx Hxc; rewrite all_gt_cons in *;
        assert (x <? c = true) as -> by (apply N.ltb_lt; assumption); exact Hx.
      * destruct (IHr c k v Hs Hwr) as (A & B & C & D).
        rewrite sorted_f_cons, wfb_f_cons, A, B, Hwt. cbn [flen].
        rewrite (D c0 Hgt ltac:(lia)).
        repeat split; auto; try lia;
        intros x Hx Hxc; rewrite all_gt_cons in *; apply andb_true_iff in Hx as [Hx1 Hx2];
        rewrite Hx1; cbn [andb]; apply D; assumption.
Qed.

Lemma wfb_insert t k (v : V) : wfb t = true -> wfb (insert k v t) = true.
Proof. apply wfb_insert_mut. Qed.

Lemma wfb_insert_root r k (v : V) : wfb_root r = true -> wfb (insert_root k v r) = true.
Proof. destruct r; cbn [insert_root wfb_root]; [apply wfb_insert | reflexivity]. Qed.

Lemma wfb_collapse p (ov : option V) cs :
  wfb_f cs = true -> sorted_f cs = true -> wfb_root (collapse p ov cs) = true.
Proof.
  intros Hw Hs. unfold collapse. destruct ov as [x|].
  - cbn [wfb_root]. apply wfb_node_intro; auto. discriminate.
  - destruct cs as [|c [cp cv ccs] [|c2 t2 r2]].
    + reflexivity.
    + cbn [wfb_root]. rewrite wfb_f_cons in Hw. apply andb_true_iff in Hw as [Hw _].
      rewrite (wfb_path_irrelevant _ cp). exact Hw.
    + cbn [wfb_root]. apply wfb_node_intro; auto. intros _. cbn. lia.
Qed.

Lemma wfb_delete_mut :
  (forall t k, wfb t = true -> wfb_root (delete k t) = true)
  /\ (forall f c k, sorted_f f = true -> wfb_f f = true ->
        sorted_f (delete_f c k f) = true /\ wfb_f (delete_f c k f) = true
        /\ (forall x, all_gt x f = true -> all_gt x (delete_f c k f) = true)).
Proof.
  apply tree_forest_ind.
  - intros p ov cs IHf k Hwf. pose proof Hwf as Hwf0.
    apply wfb_node in Hwf as (Hwf & Hs & Hlen).
    rewrite delete_eq. destruct (follow_stem k p) as [|s ps|c k0|cm kc kr sc sr]; try exact Hwf0.
    + destruct ov; [apply wfb_collapse; assumption | exact Hwf0].
    + destruct (IHf c k0 Hs Hwf) as (A & B & _). apply wfb_collapse; assumption.
  - intros c k _ _. cbn. auto.
  - intros c0 t IHt r IHr c k Hs Hwf.
    rewrite sorted_f_cons in Hs. apply andb_true_iff in Hs as [Hgt Hs].
    rewrite wfb_f_cons in Hwf. apply andb_true_iff in Hwf as [Hwt Hwr].
    rewrite delete_f_cons.
    destruct (N.eqb_spec c c0) as [->|Hne].
    + specialize (IHt k Hwt). destruct (delete k t) as [t'|].
      * cbn [wfb_root] in IHt. rewrite sorted_f_cons, wfb_f_cons, Hgt, Hs, Hwr, IHt.
        repeat split; auto.
      * repeat split; auto; intros x Hx; rewrite all_gt_cons in Hx;
        apply andb_true_iff in Hx as [_ Hx]; exact Hx.
    + destruct (IHr c k Hs Hwr) as (A & B & C).
      rewrite sorted_f_cons, wfb_f_cons, A, B, Hwt, (C c0 Hgt).
      repeat split; auto;
      intros x Hx; rewrite all_gt_cons in *; apply andb_true_iff in Hx as [Hx1 Hx2];
      rewrite Hx1; cbn [andb]; apply C; exact Hx2.
Qed.

Lemma wfb_delete t k : wfb t = true -> wfb_root (delete k t) = true.
Proof. apply wfb_delete_mut. Qed.

Lemma wfb_delete_prefix_mut :
  (forall t k, wfb t = true -> wfb_root (delete_prefix k t) = true)
  /\ (forall f c k, sorted_f f = true -> wfb_f f = true ->
        sorted_f (delete_prefix_f c k f) = true /\ wfb_f (delete_prefix_f c k f) = true
        /\ (forall x, all_gt x f = true -> all_gt x (delete_prefix_f c k f) = true)).
Proof.
  apply tree_forest_ind.
  - intros p ov cs IHf k Hwf. pose proof Hwf as Hwf0.
    apply wfb_node in Hwf as (Hwf & Hs & Hlen).
    rewrite delete_prefix_eq.
    destruct (follow_stem k p) as [|s ps|c k0|cm kc kr sc sr]; try exact Hwf0; try reflexivity.
    destruct (IHf c k0 Hs Hwf) as (A & B & _). apply wfb_collapse; assumption.
  - intros c k _ _. cbn. auto.
  - intros c0 t IHt r IHr c k Hs Hwf.
    rewrite sorted_f_cons in Hs. apply andb_true_iff in Hs as [Hgt Hs].
    rewrite wfb_f_cons in Hwf. apply andb_true_iff in Hwf as [Hwt Hwr].
    rewrite delete_prefix_f_cons.
    destruct (N.eqb_spec c c0) as [->|Hne].
    + specialize (IHt k Hwt). destruct (delete_prefix k t) as [t'|].
      * cbn [wfb_root] in IHt. rewrite sorted_f_cons, wfb_f_cons, Hgt, Hs, Hwr, IHt.
        repeat split; auto.
      * repeat split; auto; intros x Hx; rewrite all_gt_cons in Hx;
        apply andb_true_iff in Hx as [_ Hx]; exact Hx.
    + destruct (IHr c k Hs Hwr) as (A & B & C).
      rewrite sorted_f_cons, wfb_f_cons, A, B, Hwt, (C c0 Hgt).
      repeat split; auto;
      intros x Hx; rewrite all_gt_cons in *; apply andb_true_iff in Hx as [Hx1 Hx2];
      rewrite Hx1; cbn [andb]; apply C; exact Hx2.
Qed.

Lemma wfb_delete_prefix t k : wfb t = true -> wfb_root (delete_prefix k t) = true.
Proof. apply wfb_delete_prefix_mut. Qed.

End OpsSpec.

(** * Sorted association lists (level A) *)

Section AMapFacts.
Context {V : Type}.
Implicit Types (m l : amap V).

Definition klt (a b : list N * V) : Prop := lex_ltb (fst a) (fst b) = true.
Definition ksorted l : Prop := StronglySorted klt l.

Lemma a_lookup_app k l1 l2 :
  a_lookup k (l1 ++ l2) = match a_lookup k l1 with Some v => Some v | None => a_lookup k l2 end.
Proof.
  induction l1 as [|[k1 v1] l1 IH]; cbn; [reflexivity|]. destruct (list_eqb k k1); auto.
Qed.

Lemma list_eqb_app_strip k p k1 :
  list_eqb k (p ++ k1) = match strip p k with Some r => list_eqb r k1 | None => false end.
Proof.
  destruct (strip p k) as [r|] eqn:E.
  - apply strip_spec in E. subst.
    destruct (list_eqb r k1) eqn:E2.
    + apply list_eqb_spec in E2. subst. apply list_eqb_refl.
    + apply list_eqb_neq. apply list_eqb_neq in E2. intros H. apply app_inv_head in H. contradiction.
  - apply list_eqb_neq. intros ->. rewrite strip_app_same in E. discriminate.
Qed.

Lemma a_lookup_map_pre k p l :
  a_lookup k (map (pre p) l) = match strip p k with Some r => a_lookup r l | None => None end.
Proof.
  induction l as [|[k1 v1] l IH]; cbn [map a_lookup pre fst snd].
  - destruct (strip p k); reflexivity.
  - rewrite list_eqb_app_strip, IH. destruct (strip p k); reflexivity.
Qed.

Lemma a_lookup_lt k l :
  ksorted l -> (match l with [] => True | a :: _ => lex_ltb k (fst a) = true end) -> a_lookup k l = None.
Proof.
  induction 1 as [|[k1 v1] l Hs IH Hall]; intros Hk; cbn; [reflexivity|].
  cbn in Hk. destruct (list_eqb k k1) eqn:E.
  - apply list_eqb_spec in E. subst. rewrite lex_ltb_irrefl in Hk. discriminate.
  - apply IH. destruct l as [|[k2 v2] l']; [exact I|].
    inversion Hall as [|? ? H1 _]; subst. cbn in *. eapply lex_ltb_trans; eassumption.
Qed.

Lemma a_lookup_in k v l : a_lookup k l = Some v -> In (k, v) l.
Proof.
  induction l as [|[k1 v1] l IH]; cbn; [discriminate|].
  destruct (list_eqb k k1) eqn:E.
  - apply list_eqb_spec in E. subst. intros H. inversion H. left. reflexivity.
  - intros H. right. auto.
Qed.

Lemma ksorted_in_lookup k v l : ksorted l -> In (k, v) l -> a_lookup k l = Some v.
Proof.
  induction 1 as [|[k1 v1] l Hs IH Hall]; intros Hin; [destruct Hin|].
  cbn. destruct Hin as [E|Hin].
  - inversion E. subst. rewrite list_eqb_refl. reflexivity.
  - destruct (list_eqb k k1) eqn:E.
    + apply list_eqb_spec in E. subst. rewrite Forall_forall in Hall.
      specialize (Hall _ Hin). unfold klt in Hall. cbn in Hall. rewrite lex_ltb_irrefl in Hall. discriminate.
    + auto.
Qed.

(** Canonicity: a strictly sorted association list is determined by its lookup function. *)
Lemma ksorted_ext l1 l2 :
  ksorted l1 -> ksorted l2 -> (forall k, a_lookup k l1 = a_lookup k l2) -> l1 = l2.
Proof.
  intros H1. revert l2. induction H1 as [|[k1 v1] l1 Hs1 IH Hall1]; intros l2 H2 Hext.
  - destruct l2 as [|[k2 v2] l2]; [reflexivity|].
    specialize (Hext k2). cbn in Hext. rewrite list_eqb_refl in Hext. discriminate.
  - destruct l2 as [|[k2 v2] l2].
    + specialize (Hext k1). cbn in Hext. rewrite list_eqb_refl in Hext. discriminate.
    + assert (Hk : k1 = k2).
      { apply lex_ltb_total.
        - destruct (lex_ltb k1 k2) eqn:E; [|reflexivity].
          pose proof (Hext k1) as X. rewrite (a_lookup_lt k1 ((k2, v2) :: l2) H2 E) in X.
          cbn in X. rewrite list_eqb_refl in X. discriminate.
        - destruct (lex_ltb k2 k1) eqn:E; [|reflexivity].
          pose proof (Hext k2) as X.
          rewrite (a_lookup_lt k2 ((k1, v1) :: l1) (SSorted_cons _ Hs1 Hall1) E) in X.
          cbn in X. rewrite list_eqb_refl in X. discriminate. }
      subst k2.
      assert (Hv : v1 = v2).
      { pose proof (Hext k1) as X. cbn in X. rewrite list_eqb_refl in X. congruence. }
      subst v2. f_equal.
      inversion H2 as [|? ? Hs2 Hall2]; subst.
      apply IH; [assumption|]. intros k.
      destruct (list_eqb k k1) eqn:E.
      * apply list_eqb_spec in E. subst k.
        rewrite (a_lookup_lt k1 l1 Hs1), (a_lookup_lt k1 l2 Hs2); [reflexivity| |].
        -- destruct l2 as [|a l2]; [exact I|]. inversion Hall2; subst. assumption.
        -- destruct l1 as [|a l1]; [exact I|]. inversion Hall1; subst. assumption.
      * specialize (Hext k). cbn in Hext. rewrite E in Hext. exact Hext.
Qed.

Lemma a_lookup_insert k (v : V) m k' :
  a_lookup k' (a_insert k v m) = if list_eqb k k' then Some v else a_lookup k' m.
Proof.
  induction m as [|[k1 v1] m IH]; cbn [a_insert a_lookup].
  - rewrite (list_eqb_sym k' k). reflexivity.
  - destruct (list_eqb k k1) eqn:E1.
    + apply list_eqb_spec in E1. subst k1. cbn [a_lookup]. rewrite (list_eqb_sym k' k).
      destruct (list_eqb k k'); reflexivity.
    + destruct (lex_ltb k k1).
      * cbn [a_lookup]. rewrite (list_eqb_sym k' k). reflexivity.
      * cbn [a_lookup]. rewrite IH. destruct (list_eqb k' k1) eqn:E2; [|reflexivity].
        apply list_eqb_spec in E2. subst k1. rewrite E1. reflexivity.
Qed.

Lemma ksorted_insert k (v : V) m : ksorted m -> ksorted (a_insert k v m).
Proof.
  induction 1 as [|[k1 v1] m Hs IH Hall]; cbn [a_insert].
  - repeat constructor.
  - destruct (list_eqb k k1) eqn:E1.
    + apply list_eqb_spec in E1. subst. constructor; assumption.
    + destruct (lex_ltb k k1) eqn:E2.
      * constructor; [constructor; assumption|]. constructor; [exact E2|].
        rewrite Forall_forall in *. intros x Hx. specialize (Hall x Hx). unfold klt in *. cbn in *.
        eapply lex_ltb_trans; eassumption.
      * constructor; [assumption|].
        assert (Hk : lex_ltb k1 k = true).
        { destruct (lex_ltb k1 k) eqn:E3; [reflexivity|].
          apply list_eqb_neq in E1. exfalso. apply E1. apply lex_ltb_total; assumption. }
        rewrite Forall_forall in *. intros x Hx.
        assert (Hx' : x = (k, v) \/ In x m).
        { clear - Hx. induction m as [|[k2 v2] m IHm]; cbn [a_insert] in Hx.
          - destruct Hx as [<-|[]]. left. reflexivity.
          - destruct (list_eqb k k2); [destruct Hx as [<-|Hx]; [left; reflexivity | right; right; assumption]|].
            destruct (lex_ltb k k2); [destruct Hx as [<-|Hx]; [left; reflexivity | right; assumption]|].
            destruct Hx as [<-|Hx]; [right; left; reflexivity|].
            destruct (IHm Hx); [left; assumption | right; right; assumption]. }
        destruct Hx' as [->|Hx']; [exact Hk | apply Hall; assumption].
Qed.

Lemma a_lookup_filter (P : list N -> bool) m k :
  a_lookup k (filter (fun kv => P (fst kv)) m) = if P k then a_lookup k m else None.
Proof.
  induction m as [|[k1 v1] m IH]; cbn [filter a_lookup fst]; [destruct (P k); reflexivity|].
  destruct (P k1) eqn:E1; cbn [a_lookup].
  - rewrite IH. destruct (list_eqb k k1) eqn:E; [|reflexivity].
    apply list_eqb_spec in E. subst. rewrite E1. reflexivity.
  - rewrite IH. destruct (list_eqb k k1) eqn:E; [|reflexivity].
    apply list_eqb_spec in E. subst. rewrite E1. reflexivity.
Qed.

Lemma ksorted_filter (P : list N * V -> bool) m : ksorted m -> ksorted (filter P m).
Proof.
  induction 1 as [|a m Hs IH Hall]; cbn; [constructor|].
  destruct (P a); [|assumption]. constructor; [assumption|].
  rewrite Forall_forall in *. intros x Hx. apply filter_In in Hx as [Hx _]. auto.
Qed.

Lemma ksorted_app l1 l2 :
  ksorted l1 -> ksorted l2 -> (forall a b, In a l1 -> In b l2 -> klt a b) -> ksorted (l1 ++ l2).
Proof.
  induction 1 as [|a l1 Hs IH Hall]; intros H2 Hc; cbn; [assumption|].
  constructor.
  - apply IH; [assumption|]. intros x y Hx Hy. apply Hc; [right; assumption | assumption].
  - apply Forall_app. split; [assumption|]. apply Forall_forall. intros y Hy. apply Hc; [left; reflexivity | assumption].
Qed.

Lemma ksorted_map_pre p l : ksorted l -> ksorted (map (pre p) l).
Proof.
  induction 1 as [|a l Hs IH Hall]; cbn; constructor; [assumption|].
  rewrite Forall_forall in *. intros y Hy. apply in_map_iff in Hy as [x [<- Hx]].
  specialize (Hall x Hx). unfold klt, pre in *. cbn. rewrite lex_ltb_app. exact Hall.
Qed.

Lemma a_lookup_delete k m k' :
  a_lookup k' (a_delete k m) = if list_eqb k k' then None else a_lookup k' m.
Proof.
  unfold a_delete. rewrite (a_lookup_filter (fun x => negb (list_eqb k x))).
  destruct (list_eqb k k'); reflexivity.
Qed.

Lemma a_lookup_delete_prefix p m k' :
  a_lookup k' (a_delete_prefix p m) = if is_prefix p k' then None else a_lookup k' m.
Proof.
  unfold a_delete_prefix. rewrite (a_lookup_filter (fun x => negb (is_prefix p x))).
  destruct (is_prefix p k'); reflexivity.
Qed.

End AMapFacts.

(** * The tree denotes a sorted association list *)

Section ToList.
Context {V : Type}.
Implicit Types (t : tree V) (f : forest V).

Lemma to_list_f_heads f kv : In kv (to_list_f f) -> exists c r, fst kv = c :: r.
Proof.
  induction f as [|c t r IH]; cbn [to_list_f]; [intros []|].
  intros H. apply in_app_iff in H as [H|H]; [|auto].
  apply in_map_iff in H as [x [<- _]]. cbn. eauto.
Qed.

Lemma to_list_f_heads_gt x f kv :
  all_gt x f = true -> In kv (to_list_f f) -> exists c r, fst kv = c :: r /\ x < c.
Proof.
  induction f as [|c t r IH]; cbn [to_list_f]; [intros _ []|].
  rewrite all_gt_cons. intros H Hin. apply andb_true_iff in H as [H1 H2]. apply N.ltb_lt in H1.
  apply in_app_iff in Hin as [Hin|Hin]; [|auto].
  apply in_map_iff in Hin as [y [<- _]]. cbn. eauto.
Qed.

Lemma a_lookup_to_list_mut :
  (forall t k, wfb t = true -> a_lookup k (to_list t) = lookup k t)
  /\ (forall f, sorted_f f = true -> wfb_f f = true ->
        (forall c k, a_lookup (c :: k) (to_list_f f) = lookup_f c k f)
        /\ a_lookup [] (to_list_f f) = None).
Proof.
  apply tree_forest_ind.
  - intros p ov cs IHf k Hwf. apply wfb_node in Hwf as (Hwf & Hs & _).
    destruct (IHf Hs Hwf) as [IH1 IH2].
    rewrite to_list_eq, a_lookup_map_pre, lookup_node.
    destruct (strip p k) as [[|c r]|]; [| |reflexivity].
    + rewrite a_lookup_app. destruct ov; [reflexivity | exact IH2].
    + rewrite a_lookup_app. destruct ov; cbn; apply IH1.
  - intros _ _. split; reflexivity.
  - intros c0 t IHt r IHr Hs Hwf.
    rewrite sorted_f_cons in Hs. apply andb_true_iff in Hs as [Hgt Hs].
    rewrite wfb_f_cons in Hwf. apply andb_true_iff in Hwf as [Hwt Hwr].
    destruct (IHr Hs Hwr) as [IH1 IH2]. split.
    + intros c k. rewrite to_list_f_cons, a_lookup_app, a_lookup_map_pre, lookup_f_cons.
      cbn [strip]. rewrite (N.eqb_sym c0 c). destruct (N.eqb_spec c c0) as [->|Hne].
      * rewrite IHt by assumption. destruct (lookup k t); [reflexivity|].
        rewrite IH1. apply lookup_f_all_gt. assumption.
      * apply IH1.
    + rewrite to_list_f_cons, a_lookup_app, a_lookup_map_pre. cbn [strip]. exact IH2.
Qed.

Lemma a_lookup_to_list t k : wfb t = true -> a_lookup k (to_list t) = lookup k t.
Proof. apply a_lookup_to_list_mut. Qed.

Lemma ksorted_to_list_mut :
  (forall t, wfb t = true -> ksorted (to_list t))
  /\ (forall f, sorted_f f = true -> wfb_f f = true -> ksorted (to_list_f f)).
Proof.
  apply tree_forest_ind.
  - intros p ov cs IHf Hwf. apply wfb_node in Hwf as (Hwf & Hs & _).
    rewrite to_list_eq. apply ksorted_map_pre. apply ksorted_app.
    + destruct ov; repeat constructor.
    + auto.
    + intros a b Ha Hb. destruct ov as [v|]; [|destruct Ha].
      destruct Ha as [<-|[]]. apply to_list_f_heads in Hb as (c & r & Hb).
      unfold klt. cbn. rewrite Hb. reflexivity.
  - intros _ _. constructor.
  - intros c0 t IHt r IHr Hs Hwf.
    rewrite sorted_f_cons in Hs. apply andb_true_iff in Hs as [Hgt Hs].
    rewrite wfb_f_cons in Hwf. apply andb_true_iff in Hwf as [Hwt Hwr].
    rewrite to_list_f_cons. apply ksorted_app.
    + apply ksorted_map_pre. auto.
    + auto.
    + intros a b Ha Hb. apply in_map_iff in Ha as [x [<- _]].
      apply (to_list_f_heads_gt c0) in Hb as (c & rr & Hb & Hlt); [|assumption].
      unfold klt, pre. cbn. rewrite Hb. apply lex_ltb_cons_lt. assumption.
Qed.

Lemma ksorted_to_list t : wfb t = true -> ksorted (to_list t).
Proof. apply ksorted_to_list_mut. Qed.

Lemma a_lookup_to_list_root (r : option (tree V)) k :
  wfb_root r = true -> a_lookup k (to_list_root r) = lookup_root k r.
Proof. destruct r; cbn; [apply a_lookup_to_list | reflexivity]. Qed.

Lemma ksorted_to_list_root (r : option (tree V)) : wfb_root r = true -> ksorted (to_list_root r).
Proof. destruct r; cbn; [apply ksorted_to_list | constructor]. Qed.

(** The operations on the tree are the operations on the sorted association list. *)

Theorem to_list_insert_root (r : option (tree V)) k (v : V) :
  wfb_root r = true -> to_list (insert_root k v r) = a_insert k v (to_list_root r).
Proof.
  intros Hwf. apply ksorted_ext.
  - apply ksorted_to_list. apply wfb_insert_root. assumption.
  - apply ksorted_insert. apply ksorted_to_list_root. assumption.
  - intros k'. rewrite a_lookup_to_list by (apply wfb_insert_root; assumption).
    rewrite lookup_insert_root by assumption.
    rewrite a_lookup_insert, a_lookup_to_list_root by assumption. reflexivity.
Qed.

Theorem to_list_delete t k :
  wfb t = true -> to_list_root (delete k t) = a_delete k (to_list t).
Proof.
  intros Hwf. apply ksorted_ext.
  - apply ksorted_to_list_root. apply wfb_delete. assumption.
  - apply ksorted_filter. apply ksorted_to_list. assumption.
  - intros k'. rewrite a_lookup_to_list_root by (apply wfb_delete; assumption).
    pose proof (lookup_delete t k k' Hwf) as H. unfold lookup_o in H. rewrite H.
    rewrite a_lookup_delete, a_lookup_to_list by assumption. reflexivity.
Qed.

Theorem to_list_delete_prefix t k :
  wfb t = true -> to_list_root (delete_prefix k t) = a_delete_prefix k (to_list t).
Proof.
  intros Hwf. apply ksorted_ext.
  - apply ksorted_to_list_root. apply wfb_delete_prefix. assumption.
  - apply ksorted_filter. apply ksorted_to_list. assumption.
  - intros k'. rewrite a_lookup_to_list_root by (apply wfb_delete_prefix; assumption).
    pose proof (lookup_delete_prefix t k k' Hwf) as H. unfold lookup_o in H. rewrite H.
    rewrite a_lookup_delete_prefix, a_lookup_to_list by assumption. reflexivity.
Qed.

End ToList.

(** * Iteration *)

Definition is_nil {A} (l : list A) : bool := match l with [] => true | _ => false end.

Lemma is_nil_map {A B} (g : A -> B) l : is_nil (map g l) = is_nil l.
Proof. destruct l; reflexivity. Qed.

Lemma filter_map_comm {A B} (P : B -> bool) (g : A -> B) l :
  filter P (map g l) = map g (filter (fun x => P (g x)) l).
Proof. induction l as [|a l IH]; cbn; [reflexivity|]. destruct (P (g a)); cbn; rewrite IH; reflexivity. Qed.

Lemma filter_all {A} (P : A -> bool) l : (forall x, In x l -> P x = true) -> filter P l = l.
Proof.
  induction l as [|a l IH]; intros H; cbn; [reflexivity|].
  rewrite (H a (or_introl eq_refl)). f_equal. apply IH. intros x Hx. apply H. right. assumption.
Qed.

Lemma filter_none {A} (P : A -> bool) l : (forall x, In x l -> P x = false) -> filter P l = [].
Proof.
  induction l as [|a l IH]; intros H; cbn; [reflexivity|].
  rewrite (H a (or_introl eq_refl)). apply IH. intros x Hx. apply H. right. assumption.
Qed.

Section Iterate.
Context {V : Type}.
Implicit Types (t : tree V) (f : forest V).

Lemma to_list_keys_prefix p (ov : option V) cs kv :
  In kv (to_list (Node p ov cs)) -> is_prefix p (fst kv) = true.
Proof.
  rewrite to_list_eq. intros H. apply in_map_iff in H as [x [<- _]]. cbn. apply is_prefix_app.
Qed.

Lemma iterate_spec_mut :
  (forall t k, wfb t = true ->
     iterate k t = filter (fun kv => is_prefix k (fst kv)) (to_list t))
  /\ (forall f c k, sorted_f f = true -> wfb_f f = true ->
     iterate_f c k f = filter (fun kv => is_prefix (c :: k) (fst kv)) (to_list_f f)).
Proof.
  apply tree_forest_ind.
  - intros p ov cs IHf k Hwf. apply wfb_node in Hwf as (Hwf & Hs & _).
    rewrite iterate_eq. pose proof (follow_stem_spec k p) as HF.
    destruct (follow_stem k p) as [|s ps|c k0|cm kc kr sc sr].
    + subst. symmetry. apply filter_all. intros x Hx. eapply to_list_keys_prefix; eassumption.
    + subst. symmetry. apply filter_all. intros x Hx.
      eapply is_prefix_trans; [|eapply to_list_keys_prefix; eassumption]. apply is_prefix_app.
    + subst. rewrite to_list_eq, filter_map_comm. f_equal.
      rewrite filter_app. rewrite IHf by assumption.
      replace (filter _ (match ov with Some v => [([], v)] | None => [] end)) with (@nil (list N * V)).
      * cbn [app]. apply filter_ext. intros [x y]. cbn. rewrite is_prefix_app_l. reflexivity.
      * destruct ov; cbn; [|reflexivity]. rewrite app_nil_r.
        replace (is_prefix (p ++ c :: k0) p) with false; [reflexivity|].
        symmetry. rewrite <- (app_nil_r p) at 2. rewrite is_prefix_app_l. reflexivity.
    + destruct HF as (-> & -> & Hn). symmetry. apply filter_none. intros x Hx.
      rewrite to_list_eq in Hx. apply in_map_iff in Hx as [y [<- _]]. cbn.
      rewrite <- app_assoc, is_prefix_app_l. cbn. destruct (N.eqb_spec kc sc); [congruence | reflexivity].
  - intros c k _ _. reflexivity.
  - intros c0 t IHt r IHr c k Hs Hwf.
    rewrite sorted_f_cons in Hs. apply andb_true_iff in Hs as [Hgt Hs].
    rewrite wfb_f_cons in Hwf. apply andb_true_iff in Hwf as [Hwt Hwr].
    rewrite iterate_f_cons, to_list_f_cons, filter_app, filter_map_comm.
    destruct (N.eqb_spec c c0) as [->|Hne].
    + rewrite IHt by assumption.
      rewrite (filter_none _ (to_list_f r)).
      * rewrite app_nil_r. f_equal. apply filter_ext. intros [x y]. cbn. rewrite N.eqb_refl. reflexivity.
      * intros x Hx. apply (to_list_f_heads_gt c0) in Hx as (c' & rr & Hx & Hlt); [|assumption].
        rewrite Hx. cbn. destruct (N.eqb_spec c0 c'); [lia | reflexivity].
    + rewrite (filter_none _ (to_list t)).
      * cbn [map app]. apply IHr; assumption.
      * intros [x y] _. cbn. destruct (N.eqb_spec c c0); [congruence | reflexivity].
Qed.

Theorem iterate_spec t k :
  wfb t = true -> iterate k t = filter (fun kv => is_prefix k (fst kv)) (to_list t).
Proof. apply iterate_spec_mut. Qed.

Lemma iterate_root_spec (r : option (tree V)) k :
  wfb_root r = true -> iterate_root k r = a_iterate k (to_list_root r).
Proof. destruct r; cbn [iterate_root to_list_root wfb_root]; [apply iterate_spec | reflexivity]. Qed.

Lemma to_list_nonempty_mut :
  (forall t, wfb t = true -> is_nil (to_list t) = false)
  /\ (forall f, wfb_f f = true -> (1 <= flen f)%nat -> is_nil (to_list_f f) = false).
Proof.
  apply tree_forest_ind.
  - intros p ov cs IHf Hwf. apply wfb_node in Hwf as (Hwf & Hs & Hlen).
    rewrite to_list_eq, is_nil_map. destruct ov; [reflexivity|]. cbn [app].
    apply IHf; [assumption|]. specialize (Hlen eq_refl). lia.
  - intros _ H. cbn in H. lia.
  - intros c t IHt r _ Hwf _. rewrite wfb_f_cons in Hwf. apply andb_true_iff in Hwf as [Hwt _].
    rewrite to_list_f_cons. specialize (IHt Hwt). destruct (to_list t); [discriminate | reflexivity].
Qed.

Lemma has_prefix_iterate_mut :
  (forall t k, wfb t = true -> has_prefix k t = negb (is_nil (iterate k t)))
  /\ (forall f c k, wfb_f f = true -> has_prefix_f c k f = negb (is_nil (iterate_f c k f))).
Proof.
  apply tree_forest_ind.
  - intros p ov cs IHf k Hwf. pose proof Hwf as Hwf0. apply wfb_node in Hwf as (Hwf & Hs & _).
    rewrite has_prefix_eq, iterate_eq.
    destruct (follow_stem k p) as [|s ps|c k0|cm kc kr sc sr].
    + rewrite (proj1 to_list_nonempty_mut _ Hwf0). reflexivity.
    + rewrite (proj1 to_list_nonempty_mut _ Hwf0). reflexivity.
    + rewrite is_nil_map. apply IHf. assumption.
    + reflexivity.
  - reflexivity.
  - intros c0 t IHt r IHr c k Hwf. rewrite wfb_f_cons in Hwf. apply andb_true_iff in Hwf as [Hwt Hwr].
    rewrite has_prefix_f_cons, iterate_f_cons. destruct (c =? c0); [|auto].
    rewrite is_nil_map. auto.
Qed.

Lemma has_prefix_root_spec (r : option (tree V)) k :
  wfb_root r = true -> has_prefix_root k r = negb (is_nil (a_iterate k (to_list_root r))).
Proof.
  intros H. rewrite <- iterate_root_spec by assumption.
  destruct r; cbn [has_prefix_root iterate_root]; [|reflexivity].
  apply has_prefix_iterate_mut. assumption.
Qed.

End Iterate.

Section IterateExact.
Context {V : Type}.

Lemma ksorted_map_fst (l : amap V) :
  ksorted l -> StronglySorted (fun a b => lex_ltb a b = true) (map fst l).
Proof.
  induction 1 as [|a l Hs IH Hall]; cbn; constructor; [assumption|].
  rewrite Forall_forall in *. intros x Hx. apply in_map_iff in Hx as [y [<- Hy]]. exact (Hall y Hy).
Qed.

Lemma to_list_in_lookup (t : tree V) k v :
  wfb t = true -> (In (k, v) (to_list t) <-> lookup k t = Some v).
Proof.
  intros Hwf. rewrite <- a_lookup_to_list by assumption. split.
  - apply ksorted_in_lookup. apply ksorted_to_list. assumption.
  - apply a_lookup_in.
Qed.

(** [iterate p t] yields exactly the entries whose key has prefix [p], in strictly
    ascending lexicographic order. *)
Theorem iterate_sorted_exact (t : tree V) p :
  wfb t = true ->
  StronglySorted (fun a b => lex_ltb a b = true) (map fst (iterate p t))
  /\ forall k v, In (k, v) (iterate p t) <-> (is_prefix p k = true /\ lookup k t = Some v).
Proof.
  intros Hwf. rewrite iterate_spec by assumption. split.
  - apply ksorted_map_fst. apply ksorted_filter. apply ksorted_to_list. assumption.
  - intros k v. rewrite filter_In, to_list_in_lookup by assumption. cbn. tauto.
Qed.

End IterateExact.
