(** Lemmas about [InstanceState.v]: stale, forged and tombstoned ids are answered with the
    "invalid" encodings and never touch the trie; resuming after an interrupt invalidates
    every id iff the state was updated, and otherwise restores the caller's tables
    exactly. *)
From Coq Require Import NArith PeanoNat List Bool Lia.
From CB Require Import Trie.Radix.
From CB Require Import Trie.PrefixMap.
From CB Require Import Trie.Locks.
From CB Require Import Trie.LocksProofs.
From CB Require Import Trie.InstanceState.
Import ListNotations.
Local Open Scope N_scope.

(** * Encodings *)

Lemma enc_gen gen idx : N.of_nat idx < TWO32 -> id_gen (enc gen idx) = gen.
Proof.
  intros H. unfold id_gen, enc. rewrite N.div_add_l by (unfold TWO32; lia).
  rewrite N.div_small by assumption. lia.
Qed.

Lemma enc_idx gen idx bound :
  N.of_nat idx < TWO32 -> (idx < bound)%nat -> id_idx (enc gen idx) bound = Some idx.
Proof.
  intros H Hb. unfold id_idx, enc.
  rewrite N.add_comm, N.mod_add by (unfold TWO32; lia). rewrite N.mod_small by assumption.
  destruct (N.leb_spec (N.of_nat bound) (N.of_nat idx)); [lia|]. rewrite Nat2N.id. reflexivity.
Qed.

Lemma id_idx_bound id bound n : id_idx id bound = Some n -> (n < bound)%nat.
Proof.
  unfold id_idx. destruct (N.leb_spec (N.of_nat bound) (id mod TWO32)) as [Hle|Hlt]; [discriminate|].
  intros E. inversion E. lia.
Qed.

(** * What an id that does not denote a live entry / iterator gets *)

Definition is_handle_op (o : cop) : bool :=
  match o with
  | CNext _ | CIterDelete _ | CIterKey _ | CRead _ | CSize _ | CWrite _ _ _ | CResize _ _ => true
  | _ => false
  end.

Definition op_id (o : cop) : N :=
  match o with
  | CNext id | CIterDelete id | CIterKey id | CRead id | CSize id | CWrite id _ _ | CResize id _ => id
  | _ => 0
  end.

(** The answer for an invalid id, and what happens to the [changed] flag (the write
    operations set it before looking at the id). *)
Definition invalid_answer (o : cop) : cout :=
  match o with
  | CNext _ => XId ID_ERR
  | CIterDelete _ | CWrite _ _ _ | CResize _ _ => XNum INVALID32
  | _ => XInvalid
  end.

Definition marks_changed (o : cop) : bool :=
  match o with CWrite _ _ _ | CResize _ _ => true | _ => false end.

Definition after_invalid (o : cop) (i : istate) : istate :=
  if marks_changed o then i_set_changed i else i.

Lemma entry_of_stale i g id : id_gen id <> is_gen i -> entry_of i g id = None.
Proof.
  intros H. unfold entry_of. destruct (N.eqb_spec (id_gen id) (is_gen i)); [contradiction | reflexivity].
Qed.

(** An id whose generation is not the current one: invalid answer, the trie generation
    (tree, entries, locks, tables) is untouched. *)
Theorem stale_id_invalid o i g :
  is_handle_op o = true -> id_gen (op_id o) <> is_gen i ->
  c_op o (i, g) = ((after_invalid o i, g), invalid_answer o).
Proof.
  intros Ho Hg. destruct o; try discriminate Ho; cbn [op_id] in Hg; cbn [c_op];
    try rewrite (entry_of_stale i g _ Hg);
    try (destruct (N.eqb_spec (id_gen id) (is_gen i)); [contradiction|]); reflexivity.
Qed.

(** An id of the current generation whose index is outside the table (forged). *)
Theorem forged_index_invalid o i g :
  is_handle_op o = true ->
  (match o with
   | CNext _ | CIterDelete _ | CIterKey _ => id_idx (op_id o) (length (g_iters g)) = None
   | _ => id_idx (op_id o) (length (g_handles g)) = None
   end) ->
  c_op o (i, g) = ((after_invalid o i, g), invalid_answer o).
Proof.
  intros Ho Hx. destruct o; try discriminate Ho; cbn [op_id] in Hx; cbn [c_op]; unfold entry_of;
    rewrite ?Hx; destruct (negb (id_gen id =? is_gen i)); reflexivity.
Qed.

(** An id of an entry that has been deleted (tombstone). *)
Theorem tombstone_invalid o i g h e :
  (match o with CRead _ | CSize _ | CWrite _ _ _ | CResize _ _ => true | _ => false end) = true ->
  id_idx (op_id o) (length (g_handles g)) = Some h ->
  nth_error (g_handles g) h = Some e -> ent_get (g_ents g) e = None ->
  c_op o (i, g) = ((after_invalid o i, g), invalid_answer o).
Proof.
  intros Ho Hh He Hd. destruct o; try discriminate Ho; cbn [op_id] in Hh; cbn [c_op]; unfold entry_of;
    rewrite Hh, He, Hd; destruct (negb (id_gen id =? is_gen i)); reflexivity.
Qed.

(** Deleting a key turns every id of that entry into a tombstone. *)
Theorem deleted_entry_ids_invalid k i g e h :
  lookup_root (nib k) (g_root g) = Some e -> snd (m_delete k g) <> RLocked ->
  nth_error (g_handles g) h = Some e ->
  let g' := snd (fst (c_op (CDelete k) (i, g))) in
  nth_error (g_handles g') h = Some e /\ ent_get (g_ents g') e = None.
Proof.
  intros Hl Hnl Hh. cbn [c_op]. rewrite m_delete_eq in *.
  destruct (g_root g) as [t|] eqn:Er; [|discriminate]. rewrite <- Er in *.
  destruct (negb (pm_no_prefix k (g_locks g))); [cbn in Hnl; congruence|].
  rewrite Hl.
  destruct (ent_get (g_ents g) e); cbn [fst snd with_ents with_root g_handles g_ents];
    (split; [exact Hh | apply ent_get_set_none]).
Qed.

(** A fresh id denotes the entry it was handed out for. *)
Theorem lookup_id_valid k i g e v :
  lookup_root (nib k) (g_root g) = Some e -> ent_get (g_ents g) e = Some v ->
  N.of_nat (length (g_handles g)) < TWO32 ->
  let r := c_op (CLookup k) (i, g) in
  snd r = XId (enc (is_gen i) (length (g_handles g)))
  /\ entry_of (fst (fst r)) (snd (fst r)) (enc (is_gen i) (length (g_handles g))) = Some (e, v).
Proof.
  intros Hl He Hb. cbn [c_op]. unfold m_get. rewrite Hl. cbn [fst snd]. split; [reflexivity|].
  unfold entry_of. rewrite enc_gen by assumption. rewrite N.eqb_refl. cbn [negb].
  cbn [with_handle g_handles g_ents]. rewrite app_length. cbn [length].
  rewrite enc_idx by (try assumption; lia).
  rewrite nth_error_app2 by lia. rewrite Nat.sub_diag. cbn [nth_error]. rewrite He. reflexivity.
Qed.

(** * Resuming after an interrupt *)

Definition touched (f : frame) : bool := is_changed (fst f) || is_touched (fst f).

(** [state_updated = true]: the generation counter moves on and the tables are empty, so
    every id handed out before the interrupt is stale. *)
Theorem resume_updated inner outer :
  touched inner = true ->
  let f := resume true inner outer in
  is_gen (fst f) = is_gen (fst outer) + 1
  /\ g_handles (snd f) = [] /\ g_iters (snd f) = []
  /\ g_root (snd f) = g_root (snd inner) /\ g_ents (snd f) = g_ents (snd inner).
Proof.
  destruct inner as [ii ig], outer as [oi og]. unfold touched, resume. cbn [fst snd]. intros ->.
  cbn. repeat split.
Qed.

Corollary resume_updated_invalidates inner outer o :
  touched inner = true -> is_handle_op o = true -> id_gen (op_id o) = is_gen (fst outer) ->
  let f := resume true inner outer in
  c_op o f = ((after_invalid o (fst f), snd f), invalid_answer o).
Proof.
  intros Ht Ho Hg. destruct (resume_updated inner outer Ht) as (G & _).
  destruct (resume true inner outer) as [i g] eqn:E. cbn [fst snd] in *.
  apply stale_id_invalid; [assumption|]. rewrite Hg, G. lia.
Qed.

(** No update (the inner call failed, or did not touch the state): the caller continues
    on exactly its own generation record and generation counter. *)
Theorem resume_not_updated commit inner outer :
  commit && touched inner = false ->
  let f := resume commit inner outer in
  snd f = snd outer /\ is_gen (fst f) = is_gen (fst outer).
Proof.
  destruct inner as [ii ig], outer as [oi og]. unfold touched, resume. cbn [fst snd]. intros ->.
  split; reflexivity.
Qed.

(** The answers of the handle operations do not depend on the flags of the instance state,
    so after a resume without update every id behaves exactly as before the interrupt. *)
Lemma c_op_flags o gen c1 t1 c2 t2 g :
  snd (c_op o (mkI gen c1 t1, g)) = snd (c_op o (mkI gen c2 t2, g))
  /\ snd (fst (c_op o (mkI gen c1 t1, g))) = snd (fst (c_op o (mkI gen c2 t2, g))).
Proof.
  destruct o; cbn [c_op i_set_changed is_gen]; unfold entry_of; cbn [is_gen];
    repeat match goal with
           | |- context [match ?x with _ => _ end] => destruct x; cbn [fst snd]
           | |- context [if ?x then _ else _] => destruct x; cbn [fst snd]
           end; split; reflexivity.
Qed.

Corollary resume_not_updated_same_answers commit inner outer o :
  commit && touched inner = false ->
  snd (c_op o (resume commit inner outer)) = snd (c_op o outer)
  /\ snd (fst (c_op o (resume commit inner outer))) = snd (fst (c_op o outer)).
Proof.
  intros H. destruct (resume_not_updated commit inner outer H) as [Hg Hi].
  destruct (resume commit inner outer) as [[g1 c1 t1] gg] eqn:E. destruct outer as [[g2 c2 t2] og].
  cbn [fst snd is_gen] in *. subst. apply c_op_flags.
Qed.

(** * The frames below a re-entrant call are not touched by it *)

Fixpoint c_exec (ops : list cop) (st : list frame) : option (list frame) :=
  match ops with
  | [] => Some st
  | o :: r => match fst (c_step o st) with Some st' => c_exec r st' | None => None end
  end.

(** Interrupts and ends of [ops] are properly nested, starting at nesting depth [d]. *)
Fixpoint balanced (d : nat) (ops : list cop) : bool :=
  match ops with
  | [] => Nat.eqb d 0
  | CInterrupt :: r => balanced (S d) r
  | CEnd _ :: r => match d with O => false | S d' => balanced d' r end
  | _ :: r => balanced d r
  end.

Lemma c_exec_balanced ops : forall d newer base,
  balanced d ops = true -> length newer = S d ->
  exists top, c_exec ops (newer ++ base) = Some (top :: base).
Proof.
  induction ops as [|o ops IH]; intros d newer base Hb Hl.
  - cbn in Hb. apply Nat.eqb_eq in Hb. subst d.
    destruct newer as [|top [|? ?]]; try discriminate. exists top. reflexivity.
  - destruct newer as [|f newer]; [discriminate|]. cbn [length] in Hl.
    assert (Hother : forall x, fst (c_step o ((f :: newer) ++ base)) = Some (x :: newer ++ base) ->
                     balanced d ops = true -> exists top, c_exec (o :: ops) ((f :: newer) ++ base) = Some (top :: base)).
    { intros x Hs Hb'. cbn [c_exec]. rewrite Hs. apply (IH d (x :: newer) base Hb'). cbn. lia. }
    destruct o; cbn [balanced] in Hb;
      try (match goal with
           | |- context [c_exec (?o :: _) _] =>
               destruct (c_op o f) as [f' x] eqn:E;
               apply (Hother f'); [cbn [app c_step]; rewrite E; reflexivity | exact Hb]
           end).
    + (* interrupt *)
      cbn [c_exec app c_step fst]. apply (IH (S d) (inner_frame f :: f :: newer) base Hb). cbn. lia.
    + (* end *)
      destruct d as [|d']; [discriminate|].
      destruct newer as [|outer newer]; [cbn in Hl; lia|].
      cbn [c_exec app c_step fst]. apply (IH d' (resume commit f outer :: newer) base Hb). cbn in *. lia.
Qed.

(** A complete re-entrant call on top of [f :: rest]: the frames [rest] are unchanged and
    the caller is resumed by [resume]. *)
Theorem reentrant_call_shape inner commit f rest :
  balanced 0 inner = true ->
  exists top,
    c_exec (CInterrupt :: inner ++ [CEnd commit]) (f :: rest) = Some (resume commit top f :: rest).
Proof.
  intros Hb. cbn [c_exec c_step fst].
  assert (X : forall ops d newer, balanced d ops = true -> length newer = S d ->
              exists top, c_exec (ops ++ [CEnd commit]) (newer ++ f :: rest)
                          = c_exec [CEnd commit] (top :: f :: rest)).
  { intros ops d newer Hb' Hl.
    destruct (c_exec_balanced ops d newer (f :: rest) Hb' Hl) as [top Ht]. exists top.
    clear - Ht. revert newer Ht. induction ops as [|o ops IH]; intros newer Ht.
    - cbn in Ht. inversion Ht. reflexivity.
    - cbn [app c_exec] in *. destruct (fst (c_step o (newer ++ f :: rest))) as [st'|]; [|discriminate].
      (* the intermediate stacks are of the form newer' ++ f :: rest; we only need the equation *)
      assert (G : forall st', c_exec ops st' = Some (top :: f :: rest) ->
                  c_exec (ops ++ [CEnd commit]) st' = c_exec [CEnd commit] (top :: f :: rest)).
      { clear. induction ops as [|o ops IH]; intros st' H.
        - cbn in H. inversion H. reflexivity.
        - cbn [app c_exec] in *. destruct (fst (c_step o st')); [apply IH; assumption | discriminate]. }
      apply G. assumption. }
  destruct (X inner 0%nat [inner_frame f] Hb eq_refl) as [top Ht].
  exists top. cbn [app] in Ht. rewrite Ht. reflexivity.
Qed.

(** Ids survive an interrupt iff the state was not updated during it. *)
Theorem migrate_iff_changed inner_ops commit f rest :
  balanced 0 inner_ops = true ->
  exists top,
    c_exec (CInterrupt :: inner_ops ++ [CEnd commit]) (f :: rest) = Some (resume commit top f :: rest)
    /\ (commit && touched top = true ->
        is_gen (fst (resume commit top f)) = is_gen (fst f) + 1
        /\ forall o, is_handle_op o = true -> id_gen (op_id o) = is_gen (fst f) ->
             c_op o (resume commit top f)
             = ((after_invalid o (fst (resume commit top f)), snd (resume commit top f)), invalid_answer o))
    /\ (commit && touched top = false ->
        snd (resume commit top f) = snd f
        /\ is_gen (fst (resume commit top f)) = is_gen (fst f)
        /\ forall o, snd (c_op o (resume commit top f)) = snd (c_op o f)
                     /\ snd (fst (c_op o (resume commit top f))) = snd (fst (c_op o f))).
Proof.
  intros Hb. destruct (reentrant_call_shape inner_ops commit f rest Hb) as [top Ht].
  exists top. split; [exact Ht|]. split.
  - intros H. apply andb_true_iff in H as [-> Htouch]. split.
    + apply (resume_updated top f Htouch).
    + intros o Ho Hg. apply resume_updated_invalidates; assumption.
  - intros H. destruct (resume_not_updated commit top f H) as [A B]. split; [exact A|]. split; [exact B|].
    intros o. apply resume_not_updated_same_answers. exact H.
Qed.
