(** Level-B model of the contract-state trie of
    smart-contracts/wasm-chain-integration/src/v1/trie/low_level.rs:
    a functional, path-compressed radix tree over nibbles that follows the case
    analysis of [follow_stem] ([Equal / KeyIsPrefix / StemIsPrefix / Diff]), the
    node split of [MutableTrie::insert] and the collapse of value-less nodes with a
    single child in [MutableTrie::delete] / [delete_prefix].

    The tree is generic in the type [V] stored at a node (the state machine of
    [Locks.v] stores entry identifiers, the persistent tree stores byte strings).
    This file contains definitions only and stays executable; all lemmas are in
    [RadixProofs.v].  Level A (the specification) is the sorted association list
    [amap] at the end of this file. *)
From Coq Require Import NArith List Bool.
Import ListNotations.
Local Open Scope N_scope.

(** * Keys *)

(** A key of the contract state is a byte string; the trie branches on 4-bit
    chunks ([Chunk<4>]), high nibble first ([StemIter::next]). *)
Definition key := list N.

Fixpoint nib (bs : list N) : list N :=
  match bs with
  | [] => []
  | b :: r => (b / 16) :: (b mod 16) :: nib r
  end.

(** Inverse of [nib] on even-length nibble strings (an odd trailing nibble is
    dropped; value nodes always sit at even depth). *)
Fixpoint unnib (ns : list N) : list N :=
  match ns with
  | h :: l :: r => (16 * h + l) :: unnib r
  | _ => []
  end.

Fixpoint list_eqb (a b : list N) : bool :=
  match a, b with
  | [], [] => true
  | x :: a', y :: b' => (x =? y) && list_eqb a' b'
  | _, _ => false
  end.

Fixpoint is_prefix (p k : list N) : bool :=
  match p, k with
  | [], _ => true
  | x :: p', y :: k' => (x =? y) && is_prefix p' k'
  | _ :: _, [] => false
  end.

(** Strict lexicographic order (the order of [Vec<u8>] / [BTreeMap] keys). *)
Fixpoint lex_ltb (a b : list N) : bool :=
  match a, b with
  | [], [] => false
  | [], _ :: _ => true
  | _ :: _, [] => false
  | x :: a', y :: b' => if x <? y then true else if x =? y then lex_ltb a' b' else false
  end.

(** * [follow_stem] *)

(** Result of walking a key along the stem of a node.  The constructors carry
    what the callers reconstruct from the two iterators: the remaining key
    ([key_iter.to_stem()]), the remaining stem ([stem_iter.to_stem()]) and, for
    [Diff], the common part ([stem_iter.consumed_to_stem()]). *)
Inductive follow :=
| FEqual
| FKeyIsPrefix (stem_step : N) (stem_rest : list N)
| FStemIsPrefix (key_step : N) (key_rest : list N)
| FDiff (common : list N) (key_step : N) (key_rest : list N) (stem_step : N) (stem_rest : list N).

Fixpoint follow_stem (k p : list N) : follow :=
  match k, p with
  | [], [] => FEqual
  | [], s :: ps => FKeyIsPrefix s ps
  | c :: ks, [] => FStemIsPrefix c ks
  | c :: ks, s :: ps =>
      if c =? s then
        match follow_stem ks ps with
        | FDiff cm a b c' d => FDiff (c :: cm) a b c' d
        | r => r
        end
      else FDiff [] c ks s ps
  end.

(** * Trees *)

Inductive tree (V : Type) :=
| Node : list N -> option V -> forest V -> tree V
with forest (V : Type) :=
| FNil : forest V
| FCons : N -> tree V -> forest V -> forest V.
Arguments Node {V} _ _ _.
Arguments FNil {V}.
Arguments FCons {V} _ _ _.

Section Ops.
Context {V : Type}.

Fixpoint flen (f : forest V) : nat :=
  match f with FNil => O | FCons _ _ r => S (flen r) end.

(** [get_entry]: follow stems and children down to the node of the key. *)
Fixpoint lookup (k : list N) (t : tree V) : option V :=
  match t with
  | Node p v cs =>
      match follow_stem k p with
      | FEqual => v
      | FStemIsPrefix c k' => lookup_f c k' cs
      | _ => None
      end
  end
with lookup_f (c : N) (k : list N) (f : forest V) : option V :=
  match f with
  | FNil => None
  | FCons c' t r => if c =? c' then lookup k t else lookup_f c k r
  end.

(** [insert]: [Equal] sets the value; [KeyIsPrefix] puts a new value node above the
    (shortened) node; [StemIsPrefix] descends or adds a leaf at the sorted place;
    [Diff] splits the stem with a value-less branch node holding two children in
    key order. *)
Fixpoint insert (k : list N) (v : V) (t : tree V) : tree V :=
  match t with
  | Node p ov cs =>
      match follow_stem k p with
      | FEqual => Node p (Some v) cs
      | FKeyIsPrefix s ps => Node k (Some v) (FCons s (Node ps ov cs) FNil)
      | FStemIsPrefix c k' => Node p ov (insert_f c k' v cs)
      | FDiff cm kc kr sc sr =>
          let nk := Node kr (Some v) FNil in
          let old := Node sr ov cs in
          Node cm None (if kc <? sc then FCons kc nk (FCons sc old FNil)
                        else FCons sc old (FCons kc nk FNil))
      end
  end
with insert_f (c : N) (k : list N) (v : V) (f : forest V) : forest V :=
  match f with
  | FNil => FCons c (Node k (Some v) FNil) FNil
  | FCons c' t r =>
      if c =? c' then FCons c' (insert k v t) r
      else if c <? c' then FCons c (Node k (Some v) FNil) f
      else FCons c' t (insert_f c k v r)
  end.

Definition lookup_root (k : list N) (r : option (tree V)) : option V :=
  match r with None => None | Some t => lookup k t end.

Definition insert_root (k : list N) (v : V) (r : option (tree V)) : tree V :=
  match r with
  | None => Node k (Some v) FNil
  | Some t => insert k v t
  end.

(** Path compression after a value or a child has been removed: a node without
    value and without children disappears, a node without value and with exactly
    one child is merged into that child ([Stem::prepend_parts]). *)
Definition collapse (p : list N) (ov : option V) (cs : forest V) : option (tree V) :=
  match ov, cs with
  | None, FNil => None
  | None, FCons c (Node cp cv ccs) FNil => Some (Node (p ++ c :: cp) cv ccs)
  | _, _ => Some (Node p ov cs)
  end.

(** [delete]: result [None] means the whole (sub)tree disappeared. *)
Fixpoint delete (k : list N) (t : tree V) : option (tree V) :=
  match t with
  | Node p ov cs =>
      match follow_stem k p with
      | FEqual => match ov with Some _ => collapse p None cs | None => Some t end
      | FStemIsPrefix c k' => collapse p ov (delete_f c k' cs)
      | _ => Some t
      end
  end
with delete_f (c : N) (k : list N) (f : forest V) : forest V :=
  match f with
  | FNil => FNil
  | FCons c' t r =>
      if c =? c' then match delete k t with Some t' => FCons c' t' r | None => r end
      else FCons c' t (delete_f c k r)
  end.

Definition delete_root (k : list N) (r : option (tree V)) : option (tree V) :=
  match r with None => None | Some t => delete k t end.

(** [delete_prefix]: [Equal] and [KeyIsPrefix] remove the node with everything
    below it. *)
Fixpoint delete_prefix (k : list N) (t : tree V) : option (tree V) :=
  match t with
  | Node p ov cs =>
      match follow_stem k p with
      | FEqual => None
      | FKeyIsPrefix _ _ => None
      | FStemIsPrefix c k' => collapse p ov (delete_prefix_f c k' cs)
      | FDiff _ _ _ _ _ => Some t
      end
  end
with delete_prefix_f (c : N) (k : list N) (f : forest V) : forest V :=
  match f with
  | FNil => FNil
  | FCons c' t r =>
      if c =? c' then match delete_prefix k t with Some t' => FCons c' t' r | None => r end
      else FCons c' t (delete_prefix_f c k r)
  end.

Definition delete_prefix_root (k : list N) (r : option (tree V)) : option (tree V) :=
  match r with None => None | Some t => delete_prefix k t end.

(** Does a node exist at or below the prefix?  This is the success condition of
    [iter] and the "something was deleted" flag of [delete_prefix]. *)
Fixpoint has_prefix (k : list N) (t : tree V) : bool :=
  match t with
  | Node p ov cs =>
      match follow_stem k p with
      | FEqual => true
      | FKeyIsPrefix _ _ => true
      | FStemIsPrefix c k' => has_prefix_f c k' cs
      | FDiff _ _ _ _ _ => false
      end
  end
with has_prefix_f (c : N) (k : list N) (f : forest V) : bool :=
  match f with
  | FNil => false
  | FCons c' t r => if c =? c' then has_prefix k t else has_prefix_f c k r
  end.

Definition has_prefix_root (k : list N) (r : option (tree V)) : bool :=
  match r with None => false | Some t => has_prefix k t end.

Definition pre (p : list N) (kv : list N * V) : list N * V := (p ++ fst kv, snd kv).

(** In-order traversal: the value of a node comes before its children, children in
    label order (the order of [MutableTrie::next]). *)
Fixpoint to_list (t : tree V) : list (list N * V) :=
  match t with
  | Node p ov cs =>
      map (pre p) ((match ov with Some v => [([], v)] | None => [] end) ++ to_list_f cs)
  end
with to_list_f (f : forest V) : list (list N * V) :=
  match f with
  | FNil => []
  | FCons c t r => map (pre [c]) (to_list t) ++ to_list_f r
  end.

Definition to_list_root (r : option (tree V)) : list (list N * V) :=
  match r with None => [] | Some t => to_list t end.

(** [iter] + repeated [next]: the entries at or below the prefix, in order. *)
Fixpoint iterate (k : list N) (t : tree V) : list (list N * V) :=
  match t with
  | Node p ov cs =>
      match follow_stem k p with
      | FEqual => to_list t
      | FKeyIsPrefix _ _ => to_list t
      | FStemIsPrefix c k' => map (pre p) (iterate_f c k' cs)
      | FDiff _ _ _ _ _ => []
      end
  end
with iterate_f (c : N) (k : list N) (f : forest V) : list (list N * V) :=
  match f with
  | FNil => []
  | FCons c' t r => if c =? c' then map (pre [c']) (iterate k t) else iterate_f c k r
  end.

Definition iterate_root (k : list N) (r : option (tree V)) : list (list N * V) :=
  match r with None => [] | Some t => iterate k t end.

(** Well-formedness: children strictly sorted by label, and no value-less node with
    fewer than two children. *)
Fixpoint all_gt (c : N) (f : forest V) : bool :=
  match f with
  | FNil => true
  | FCons c' _ r => (c <? c') && all_gt c r
  end.

Fixpoint sorted_f (f : forest V) : bool :=
  match f with
  | FNil => true
  | FCons c _ r => all_gt c r && sorted_f r
  end.

Fixpoint wfb (t : tree V) : bool :=
  match t with
  | Node p ov cs =>
      wfb_f cs && sorted_f cs
      && (match ov with Some _ => true | None => Nat.leb 2 (flen cs) end)
  end
with wfb_f (f : forest V) : bool :=
  match f with
  | FNil => true
  | FCons _ t r => wfb t && wfb_f r
  end.

Definition wfb_root (r : option (tree V)) : bool :=
  match r with None => true | Some t => wfb t end.

End Ops.

(** Map over the values (used to resolve entry identifiers when freezing). *)
Fixpoint tmap {A B : Type} (g : A -> B) (t : tree A) : tree B :=
  match t with
  | Node p ov cs => Node p (option_map g ov) (tmap_f g cs)
  end
with tmap_f {A B : Type} (g : A -> B) (f : forest A) : forest B :=
  match f with
  | FNil => FNil
  | FCons c t r => FCons c (tmap g t) (tmap_f g r)
  end.

(** * Level A: ordered finite map as a strictly sorted association list *)

Section AMap.
Context {V : Type}.

Definition amap := list (list N * V).

Fixpoint a_lookup (k : list N) (m : amap) : option V :=
  match m with
  | [] => None
  | (k', v) :: r => if list_eqb k k' then Some v else a_lookup k r
  end.

Fixpoint a_insert (k : list N) (v : V) (m : amap) : amap :=
  match m with
  | [] => [(k, v)]
  | (k', v') :: r =>
      if list_eqb k k' then (k, v) :: r
      else if lex_ltb k k' then (k, v) :: m
      else (k', v') :: a_insert k v r
  end.

Definition a_delete (k : list N) (m : amap) : amap :=
  filter (fun kv => negb (list_eqb k (fst kv))) m.

Definition a_delete_prefix (p : list N) (m : amap) : amap :=
  filter (fun kv => negb (is_prefix p (fst kv))) m.

Definition a_iterate (p : list N) (m : amap) : amap :=
  filter (fun kv => is_prefix p (fst kv)) m.

End AMap.
Arguments amap : clear implicits.

(** * Generations (level B): a non-empty stack of roots *)

(** [new_generation] pushes a copy of the current root, [normalize r] keeps the
    generations [0..r].  The copy-on-write arena of the implementation
    ([nodes], [ChildrenCow], [Checkpoint]) is not modelled here: in this purely
    functional model a copy is free, and the correspondence check ties the
    arena to it. *)
Definition gstack (V : Type) := list (option (tree V)).   (* head = newest *)

Definition g_new {V} (s : gstack V) : gstack V :=
  match s with [] => [] | r :: _ => r :: s end.

Definition g_normalize {V} (root : nat) (s : gstack V) : gstack V :=
  skipn (length s - S root) s.

Definition g_update {V} (f : option (tree V) -> option (tree V)) (s : gstack V) : gstack V :=
  match s with [] => [] | r :: rest => f r :: rest end.
