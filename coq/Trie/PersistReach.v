(** Reachable states of the C04 machine [c_step] (Persist.v).

    [tree_ok] / [tok] (nibbles < 16, stem length < 2^32, values < 2^32) are hypotheses of the
    store / load / migrate / serialize theorems of [PersistProofs.v] / [SerializeProofs.v].
    Here they are DERIVED for every tree that an operation history of the machine can
    produce: the invariant [kb B n t] says that every stem consists of nibbles, every child
    label is a nibble, every value is shorter than 2^32 and - the point - that the DEPTH in
    nibbles of the end of every stem (offset [n] of the node + stem lengths + one label per
    edge) is at most [B].  A key of [L] bytes is [2 L] nibbles, so with all inserted keys at
    most [B / 2] bytes long every stem has at most [B] nibbles.  [delete] / [delete_prefix]
    need no assumption on their key: path compression ([a_collapse]) concatenates
    stem ++ label ++ stem of a parent and its only child, which ends at the same depth.

    The real code encodes a stem length above 63 as [stem_len as u32]
    ([write_node_path_and_value_tag], low_level.rs 3157-3177): it needs [B <= 2^32 - 1], i.e.
    keys of at most 2^31 - 1 bytes.

    The machine invariant [inv] adds: the store is [bounded], the persistent state is
    [consistent] with it, every mutable generation satisfies [pre_cons]. *)
From Coq Require Import NArith ZArith PeanoNat List Bool Lia.
From CB Require Import Common.Codec.
From CB Require Import Common.CodecProofs.
From CB Require Import Trie.Radix.
From CB Require Import Trie.RadixProofs.
From CB Require Import Trie.MerkleHash.
From CB Require Import Trie.MerkleHashProofs.
From CB Require Import Trie.Persist.
From CB Require Import Trie.PersistProofs.
From CB Require Import Trie.PersistFreezeProofs.
From CB Require Import Trie.SerializeProofs.
Import ListNotations.
Local Open Scope N_scope.

Definition val_ok (ov : option aval) : Prop :=
  match ov with Some (v, _) => lenN v < 2 ^ 32 | None => True end.

Lemma nibbles_ok_app a b : nibbles_ok (a ++ b) = nibbles_ok a && nibbles_ok b.
Proof. apply forallb_app. Qed.

Lemma nibbles_ok_cons c l : nibbles_ok (c :: l) = true <-> c < 16 /\ nibbles_ok l = true.
Proof.
  unfold nibbles_ok. cbn [forallb]. rewrite andb_true_iff, N.ltb_lt. reflexivity.
Qed.

Lemma lenN_cons {A} (c : A) l : lenN (c :: l) = lenN l + 1.
Proof. unfold lenN. cbn [length]. lia. Qed.

Lemma lenN_nib k : lenN (nib k) = 2 * lenN k.
Proof.
  induction k as [|b r IH]; [reflexivity|]. cbn [nib]. rewrite !lenN_cons, IH. lia.
Qed.

Section Bound.
Variable B : N.

(** Depth invariant: [n] = number of nibbles above the node. *)
Fixpoint kb (n : N) (t : atree) : Prop :=
  match t with
  | AN _ p ov cs => nibbles_ok p = true /\ n + lenN p <= B /\ val_ok ov /\ kb_f (n + lenN p + 1) cs
  end
with kb_f (n : N) (f : aforest) : Prop :=
  match f with ANil => True | ACons c t r => c < 16 /\ kb n t /\ kb_f n r end.

Lemma kb_f_cast n m f : n = m -> kb_f n f -> kb_f m f.
Proof. intros ->. exact (fun H => H). Qed.

Lemma kb_leaf n k v : nibbles_ok k = true -> n + lenN k <= B -> lenN v < 2 ^ 32 -> kb n (new_leaf k v).
Proof. intros A C D. unfold new_leaf. cbn [kb kb_f val_ok]. auto. Qed.

Lemma kb_insert_mut :
  (forall t n k v, kb n t -> nibbles_ok k = true -> n + lenN k <= B -> lenN v < 2 ^ 32 ->
     kb n (a_insert k v t))
  /\ (forall f n c k v, kb_f n f -> c < 16 -> nibbles_ok k = true -> n + lenN k <= B -> lenN v < 2 ^ 32 ->
     kb_f n (a_insert_f c k v f)).
Proof.
  apply atree_aforest_ind.
  - intros o p ov cs IH n k v (Hp & Hl & Hv & Hc) Hk Hn Hvv. cbn [a_insert].
    pose proof (follow_stem_spec k p) as HF.
    destruct (follow_stem k p) as [|s ps|c k'|cm kc kr sc sr].
    + subst p. cbn [kb val_ok]. auto.
    + subst p. rewrite nibbles_ok_app in Hp. apply andb_true_iff in Hp as [_ Hp].
      apply nibbles_ok_cons in Hp as [Hs Hps]. rewrite lenN_app, lenN_cons in Hl, Hc.
      cbn [kb kb_f val_ok]. repeat split; try assumption; try lia.
      eapply kb_f_cast; [|exact Hc]. lia.
    + subst k. rewrite nibbles_ok_app in Hk. apply andb_true_iff in Hk as [_ Hk].
      apply nibbles_ok_cons in Hk as [Hcc Hk']. rewrite lenN_app, lenN_cons in Hn.
      cbn [kb]. repeat split; try assumption. apply IH; try assumption. lia.
    + destruct HF as (-> & -> & _).
      rewrite nibbles_ok_app in Hk, Hp. apply andb_true_iff in Hk as [Hcm Hk].
      apply andb_true_iff in Hp as [_ Hp].
      apply nibbles_ok_cons in Hk as [Hkc Hkr]. apply nibbles_ok_cons in Hp as [Hsc Hsr].
      rewrite lenN_app, lenN_cons in Hn, Hl, Hc.
      assert (Hold : kb (n + lenN cm + 1) (AN None sr ov cs)).
      { cbn [kb]. repeat split; try assumption; try lia. eapply kb_f_cast; [|exact Hc]. lia. }
      assert (Hnew : kb (n + lenN cm + 1) (new_leaf kr v)) by (apply kb_leaf; try assumption; lia).
      cbn [kb val_ok]. split; [exact Hcm|]. split; [lia|]. split; [exact I|].
      destruct (kc <? sc); cbn [kb_f]; auto 10.
  - intros n c k v _ Hc Hk Hn Hv. cbn [a_insert_f kb_f]. split; [exact Hc|]. split; [|exact I].
    apply kb_leaf; assumption.
  - intros c' t IHt r IHr n c k v (Hc' & Ht & Hr) Hc Hk Hn Hv. cbn [a_insert_f].
    destruct (c =? c'); [cbn [kb_f]; auto|].
    destruct (c <? c'); cbn [kb_f]; [|auto 10].
    split; [exact Hc|]. split; [apply kb_leaf; assumption|]. auto.
Qed.

Lemma kb_collapse o p ov cs n t' :
  a_collapse o p ov cs = Some t' ->
  nibbles_ok p = true -> n + lenN p <= B -> val_ok ov -> kb_f (n + lenN p + 1) cs -> kb n t'.
Proof.
  intros E Hp Hl Hv Hc. unfold a_collapse in E.
  destruct ov as [[v a]|]; [injection E as <-; cbn [kb]; auto|].
  destruct cs as [|c [o' cp cv ccs] [|c2 t2 r2]]; try (injection E as <-; cbn [kb]; auto); [discriminate|].
  destruct Hc as (Hc & (Hcp & Hcl & Hcv & Hcc) & _).
  cbn [kb]. rewrite nibbles_ok_app, Hp. cbn [andb]. split; [apply nibbles_ok_cons; auto|].
  rewrite lenN_app, lenN_cons. split; [lia|]. split; [exact Hcv|].
  eapply kb_f_cast; [|exact Hcc]. lia.
Qed.

Lemma kb_delete_mut :
  (forall t n k t', kb n t -> a_delete k t = Some t' -> kb n t')
  /\ (forall f n c k, kb_f n f -> kb_f n (a_delete_f c k f)).
Proof.
  apply atree_aforest_ind.
  - intros o p ov cs IH n k t' Hk E. pose proof Hk as (Hp & Hl & Hv & Hc). cbn [a_delete] in E.
    destruct (follow_stem k p) as [|s ps|c k'|cm kc kr sc sr]; try (injection E as <-; exact Hk).
    + destruct ov as [[v a]|]; [|injection E as <-; exact Hk].
      eapply kb_collapse; [exact E | exact Hp | exact Hl | exact I | exact Hc].
    + eapply kb_collapse; [exact E | exact Hp | exact Hl | exact Hv | apply IH; exact Hc].
  - auto.
  - intros c' t IHt r IHr n c k (Hc' & Ht & Hr). cbn [a_delete_f]. destruct (c =? c').
    + destruct (a_delete k t) as [t1|] eqn:E; [cbn [kb_f]; split; [exact Hc'|]; split; [eapply IHt; eassumption | exact Hr] | exact Hr].
    + cbn [kb_f]. auto.
Qed.

Lemma kb_delete_prefix_mut :
  (forall t n k t', kb n t -> a_delete_prefix k t = Some t' -> kb n t')
  /\ (forall f n c k, kb_f n f -> kb_f n (a_delete_prefix_f c k f)).
Proof.
  apply atree_aforest_ind.
  - intros o p ov cs IH n k t' Hk E. pose proof Hk as (Hp & Hl & Hv & Hc). cbn [a_delete_prefix] in E.
    destruct (follow_stem k p) as [|s ps|c k'|cm kc kr sc sr]; try discriminate; try (injection E as <-; exact Hk).
    eapply kb_collapse; [exact E | exact Hp | exact Hl | exact Hv | apply IH; exact Hc].
  - auto.
  - intros c' t IHt r IHr n c k (Hc' & Ht & Hr). cbn [a_delete_prefix_f]. destruct (c =? c').
    + destruct (a_delete_prefix k t) as [t1|] eqn:E; [cbn [kb_f]; split; [exact Hc'|]; split; [eapply IHt; eassumption | exact Hr] | exact Hr].
    + cbn [kb_f]. auto.
Qed.

Lemma kb_setval_mut :
  (forall t n k v, kb n t -> lenN v < 2 ^ 32 -> kb n (a_setval k v t))
  /\ (forall f n c k v, kb_f n f -> lenN v < 2 ^ 32 -> kb_f n (a_setval_f c k v f)).
Proof.
  apply atree_aforest_ind.
  - intros o p ov cs IH n k v Hk Hvv. pose proof Hk as (Hp & Hl & Hv & Hc). cbn [a_setval].
    destruct (follow_stem k p) as [|s ps|c k'|cm kc kr sc sr]; try exact Hk.
    + destruct ov as [[v0 a]|]; [|exact Hk]. cbn [kb val_ok]. auto.
    + cbn [kb]. auto.
  - auto.
  - intros c' t IHt r IHr n c k v (Hc' & Ht & Hr) Hv. cbn [a_setval_f].
    destruct (c =? c'); cbn [kb_f]; auto.
Qed.

Lemma val_ok_freeze ov : val_ok ov -> val_ok (freeze_val ov).
Proof. destruct ov as [[v [l|]]|]; exact (fun H => H). Qed.

Lemma kb_freeze_mut :
  (forall t n, kb n t -> kb n (snd (fst (freeze t))))
  /\ (forall f n, kb_f n f -> kb_f n (snd (fst (freeze_f f)))).
Proof.
  apply atree_aforest_ind.
  - intros o p ov cs IH n Hk. pose proof Hk as (Hp & Hl & Hv & Hc). specialize (IH _ Hc). cbn [freeze].
    destruct (freeze_f cs) as [[chc cs'] nc]. cbn [fst snd] in IH.
    assert (G : kb n (AN (Some None) p (freeze_val ov) cs')).
    { cbn [kb]. split; [exact Hp|]. split; [exact Hl|]. split; [apply val_ok_freeze; exact Hv | exact IH]. }
    destruct o as [l|]; [|exact G]. destruct (value_owned ov || chc); [exact G | exact Hk].
  - auto.
  - intros c t IHt r IHr n (Hc & Ht & Hr). specialize (IHt _ Ht). specialize (IHr _ Hr). cbn [freeze_f].
    destruct (freeze t) as [[ch1 t'] n1]. destruct (freeze_f r) as [[ch2 r'] n2]. cbn [fst snd kb_f] in *. auto.
Qed.

Lemma kb_strip_mut :
  (forall t n, kb n t -> kb n (strip t)) /\ (forall f n, kb_f n f -> kb_f n (strip_f f)).
Proof.
  apply atree_aforest_ind.
  - intros o p ov cs IH n (Hp & Hl & Hv & Hc). cbn [strip kb]. split; [exact Hp|]. split; [exact Hl|].
    split; [destruct ov as [[v a]|]; exact Hv | apply IH; exact Hc].
  - auto.
  - intros c t IHt r IHr n (Hc & Ht & Hr). cbn [strip_f kb_f]. auto.
Qed.

Section Sha.
Variable sha256 : list N -> list N.

Lemma val_ok_store_value ov st : val_ok ov -> val_ok (snd (fst (store_value sha256 ov st))).
Proof.
  unfold store_value. destruct ov as [[x a]|]; [|exact (fun H => H)].
  destruct (lenN x <=? INLINE_VALUE_LEN); [exact (fun H => H)|].
  destruct a as [[r|]|]; [exact (fun H => H)| |]; destruct (store_raw st x); exact (fun H => H).
Qed.

Lemma val_ok_migrate_value ov st : val_ok ov -> val_ok (snd (fst (migrate_value sha256 ov st))).
Proof.
  unfold migrate_value. destruct ov as [[x a]|]; [|exact (fun H => H)].
  destruct (lenN x <=? INLINE_VALUE_LEN); [exact (fun H => H)|].
  destruct (store_raw st x); exact (fun H => H).
Qed.

Lemma kb_store_mut :
  (forall t n st, kb n t -> kb n (snd (fst (store_node sha256 t st))))
  /\ (forall f n st, kb_f n f -> kb_f n (snd (fst (store_children sha256 f st)))).
Proof.
  apply atree_aforest_ind.
  - intros o p ov cs IH n st Hk. pose proof Hk as (Hp & Hl & Hv & Hc). rewrite store_node_eq.
    specialize (IH _ st Hc). destruct (store_children sha256 cs st) as [[st1 cs'] refs]. cbn [fst snd] in IH.
    pose proof (val_ok_store_value ov st1 Hv) as Hv'.
    destruct (store_value sha256 ov st1) as [[st2 ov'] sv]. cbn [fst snd] in Hv'. cbv zeta.
    destruct (store_raw st2 _) as [st3 r].
    destruct o as [[r0|]|]; cbn [fst snd kb]; auto.
  - auto.
  - intros c t IHt r IHr n st (Hc & Ht & Hr). rewrite store_children_cons.
    specialize (IHr _ st Hr). destruct (store_children sha256 r st) as [[st1 r'] refs]. cbn [fst snd] in IHr.
    specialize (IHt _ st1 Ht). destruct (store_node sha256 t st1) as [[st2 t'] x]. cbn [fst snd kb_f] in *. auto.
Qed.

Lemma kb_migrate_mut :
  (forall t n st, kb n t -> kb n (snd (fst (migrate_node sha256 t st))))
  /\ (forall f n st, kb_f n f -> kb_f n (snd (fst (migrate_children sha256 f st)))).
Proof.
  apply atree_aforest_ind.
  - intros o p ov cs IH n st Hk. pose proof Hk as (Hp & Hl & Hv & Hc). rewrite migrate_node_eq.
    specialize (IH _ st Hc). destruct (migrate_children sha256 cs st) as [[st1 cs'] refs]. cbn [fst snd] in IH.
    pose proof (val_ok_migrate_value ov st1 Hv) as Hv'.
    destruct (migrate_value sha256 ov st1) as [[st2 ov'] sv]. cbn [fst snd] in Hv'. cbv zeta.
    destruct (store_raw st2 _) as [st3 r]. cbn [fst snd kb]. auto.
  - auto.
  - intros c t IHt r IHr n st (Hc & Ht & Hr). rewrite migrate_children_cons.
    specialize (IHr _ st Hr). destruct (migrate_children sha256 r st) as [[st1 r'] refs]. cbn [fst snd] in IHr.
    specialize (IHt _ st1 Ht). destruct (migrate_node sha256 t st1) as [[st2 t'] x]. cbn [fst snd kb_f] in *. auto.
Qed.

End Sha.

(** The depth invariant gives the side conditions of the storage theorems. *)
Hypothesis B_u32 : B < 2 ^ 32.

Lemma kb_tree_ok_mut :
  (forall t n, kb n t -> tree_ok t) /\ (forall f n, kb_f n f -> forest_ok f).
Proof.
  apply atree_aforest_ind.
  - intros o p ov cs IH n (Hp & Hl & Hv & Hc). cbn [tree_ok]. split; [split; [exact Hp | lia] | eapply IH; exact Hc].
  - intros; exact I.
  - intros c t IHt r IHr n (Hc & Ht & Hr). cbn [forest_ok]. split; [eapply IHt; exact Ht | eapply IHr; exact Hr].
Qed.

Lemma kb_tok_mut :
  (forall t n, kb n t -> tok (erase t)) /\ (forall f n, kb_f n f -> fok (erase_f f)).
Proof.
  apply atree_aforest_ind.
  - intros o p ov cs IH n (Hp & Hl & Hv & Hc). cbn [erase tok]. split; [split; [exact Hp | lia]|].
    split; [destruct ov as [[v a]|]; exact Hv | eapply IH; exact Hc].
  - intros; exact I.
  - intros c t IHt r IHr n (Hc & Ht & Hr). cbn [erase_f fok]. split; [eapply IHt; exact Ht | eapply IHr; exact Hr].
Qed.

End Bound.
