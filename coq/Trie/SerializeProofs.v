(** [deserialize (serialize t) = t]: the breadth-first record stream written by
    [Hashed<Node>::serialize] is read back and reassembled by [Hashed<Node>::deserialize]
    into exactly the same tree, and the hash read for the root is the hash of the tree. *)
From Coq Require Import NArith PeanoNat List Bool Lia.
From CB Require Import Common.Codec.
From CB Require Import Common.CodecProofs.
From CB Require Import Trie.Radix.
From CB Require Import Trie.RadixProofs.
From CB Require Import Trie.MerkleHash.
From CB Require Import Trie.MerkleHashProofs.
From CB Require Import Trie.Persist.
From CB Require Import Trie.PersistProofs.
Import ListNotations.
Local Open Scope N_scope.

(** Side conditions on a tree: nibbles below 16, stems and values shorter than 2^32. *)
Fixpoint tok (t : tree value) : Prop :=
  match t with
  | Node p ov cs =>
      path_ok p /\ (match ov with Some v => lenN v < 2 ^ 32 | None => True end) /\ fok cs
  end
with fok (f : forest value) : Prop :=
  match f with FNil => True | FCons _ t r => tok t /\ fok r end.

(** Queue entries with the label under which the node hangs below its parent. *)
Definition entry := (N * tree value * N)%type.
Definition e_key (e : entry) : N := fst (fst e).
Definition e_tree (e : entry) : tree value := snd (fst e).
Definition e_idx (e : entry) : N := snd e.
Definition strip_q (q : list entry) : list (tree value * N) := map (fun e => (e_tree e, e_idx e)) q.

Fixpoint kids3 (f : forest value) (parent : N) : list entry :=
  match f with FNil => [] | FCons c t r => (c, t, parent) :: kids3 r parent end.

Definition children (t : tree value) : forest value := match t with Node _ _ cs => cs end.

Fixpoint qsize (q : list entry) : nat :=
  match q with [] => O | e :: r => (tsize (e_tree e) + qsize r)%nat end.

Lemma strip_kids3 f p : strip_q (kids3 f p) = kids_with f p.
Proof. induction f as [|c t r IH]; cbn; [reflexivity|]. rewrite <- IH. reflexivity. Qed.

Lemma strip_q_app a b : strip_q (a ++ b) = strip_q a ++ strip_q b.
Proof. apply map_app. Qed.

Lemma keys_kids3 f p : map e_key (kids3 f p) = flabels f.
Proof. induction f as [|c t r IH]; cbn; [reflexivity|]. rewrite <- IH. reflexivity. Qed.

Lemma qsize_app a b : qsize (a ++ b) = (qsize a + qsize b)%nat.
Proof. induction a as [|e a IH]; cbn; [reflexivity|]. rewrite IH. lia. Qed.

Lemma qsize_kids3 f p : qsize (kids3 f p) = fsize f.
Proof. induction f as [|c t r IH]; cbn; [reflexivity|]. rewrite IH. reflexivity. Qed.

Section Roundtrip.
Variable sha256 : list N -> list N.
Hypothesis sha_len : forall x, length (sha256 x) = 32%nat.

Definition drec_of (back : N) (t : tree value) : drec :=
  match t with
  | Node p ov cs => mkD back (hash_node sha256 t) p (ser_value_dec sha256 ov) (flabels cs)
  end.

(** The records in breadth-first order, with the label and the parent index of each. *)
Fixpoint bfs_recs (fuel : nat) (q : list entry) (counter : N) : list (N * nat * drec) :=
  match fuel with
  | O => []
  | S f =>
      match q with
      | [] => []
      | e :: q' =>
          (e_key e, N.to_nat (e_idx e), drec_of (counter - e_idx e) (e_tree e))
          :: bfs_recs f (q' ++ kids3 (children (e_tree e)) counter) (counter + 1)
      end
  end.

Definition q_ok (q : list entry) (counter : N) : Prop :=
  Forall (fun e => tok (e_tree e) /\ e_idx e <= counter) q.

Lemma fok_kids3 f p : fok f -> Forall (fun e => tok (e_tree e) /\ e_idx e <= p) (kids3 f p).
Proof.
  induction f as [|c t r IH]; cbn [kids3 fok]; [constructor|]. intros [Ht Hr].
  constructor; [split; [exact Ht | cbn; lia] | apply IH; exact Hr].
Qed.

(** ** Reading the stream gives the breadth-first records *)
Lemma deser_ser : forall fuelS q counter fuelD rest,
  (qsize q <= fuelS)%nat -> (qsize q <= fuelD)%nat -> q_ok q counter ->
  counter + N.of_nat (qsize q) < 2 ^ 32 ->
  deser_loop fuelD (map e_key q) (N.to_nat counter) (ser_loop sha256 fuelS (strip_q q) counter ++ rest)
  = Some (bfs_recs fuelS q counter, rest).
Proof.
  induction fuelS as [|f IH]; intros q counter fuelD rest HS HD Hok Hb.
  - destruct q as [|e q]; [destruct fuelD; reflexivity|]. cbn [qsize] in HS. destruct (e_tree e). cbn [tsize] in HS. lia.
  - destruct q as [|[[k t] idx] q']; [destruct fuelD; reflexivity|].
    destruct t as [p ov cs]. cbn [qsize e_tree fst snd tsize] in HS, HD, Hb.
    destruct fuelD as [|fd]; [lia|].
    inversion Hok as [|e0 q0 [Ht Hi] Hq']; subst. cbn [e_tree e_idx fst snd] in Ht, Hi.
    destruct Ht as (Hp & Hv & Hcs).
    cbn [map strip_q e_key e_tree e_idx fst snd ser_loop deser_loop bfs_recs children].
    rewrite <- app_assoc.
    rewrite (dec_ser_record_enc sha256 sha_len) by (try assumption; lia).
    fold (strip_q q'). rewrite <- strip_kids3, <- strip_q_app.
    cbn [d_labels d_back]. rewrite <- (keys_kids3 cs counter), <- map_app.
    replace (S (N.to_nat counter)) with (N.to_nat (counter + 1)) by lia.
    rewrite IH.
    + cbn [drec_of]. repeat f_equal; try lia; try apply keys_kids3.
    + rewrite qsize_app, qsize_kids3. lia.
    + rewrite qsize_app, qsize_kids3. lia.
    + unfold q_ok. apply Forall_app. split.
      * eapply Forall_impl; [|exact Hq']. cbn. intros a [A B]. split; [exact A | lia].
      * eapply Forall_impl; [|apply fok_kids3; exact Hcs]. cbn. intros a [A B]. split; [exact A | lia].
    + rewrite qsize_app, qsize_kids3. lia.
Qed.

(** ** Reassembly *)

(** The children that the queue entries contribute to parent [i], in queue order. *)
Definition forest_from (base : forest value) (q : list entry) (i : N) : forest value :=
  fold_right (fun e acc => if e_idx e =? i then FCons (e_key e) (e_tree e) acc else acc) base q.
Definition forest_of (q : list entry) (i : N) : forest value := forest_from FNil q i.

Lemma forest_from_app base a b i : forest_from base (a ++ b) i = forest_from (forest_from base b i) a i.
Proof. unfold forest_from. apply fold_right_app. Qed.

Lemma forest_from_other base q i : Forall (fun e => e_idx e <> i) q -> forest_from base q i = base.
Proof.
  induction 1 as [|e q He _ IH]; [reflexivity|]. cbn [forest_from fold_right]. fold (forest_from base q i).
  apply N.eqb_neq in He. rewrite He. exact IH.
Qed.

Lemma forest_of_kids3 f p : forest_of (kids3 f p) p = f.
Proof.
  induction f as [|c t r IH]; [reflexivity|]. unfold forest_of, forest_from in *. cbn [kids3 fold_right e_idx e_key e_tree fst snd].
  rewrite N.eqb_refl, IH. reflexivity.
Qed.

Lemma kids3_idx f p : Forall (fun e => e_idx e = p) (kids3 f p).
Proof. induction f as [|c t r IH]; cbn; constructor; [reflexivity | exact IH]. Qed.

Lemma value_dec_fst ov : option_map fst (ser_value_dec sha256 ov) = ov.
Proof. destruct ov; reflexivity. Qed.

Lemma rebuild_bfs : forall fuel q counter,
  (qsize q <= fuel)%nat -> Forall (fun e => e_idx e < counter) q ->
  forall i, i < counter -> rebuild (N.to_nat counter) (bfs_recs fuel q counter) (N.to_nat i) = forest_of q i.
Proof.
  induction fuel as [|f IH]; intros q counter HS Hidx i Hi.
  - destruct q as [|e q]; [reflexivity|]. cbn [qsize] in HS. destruct (e_tree e). cbn [tsize] in HS. lia.
  - destruct q as [|[[k t] idx] q']; [reflexivity|].
    destruct t as [p ov cs]. cbn [qsize e_tree fst snd tsize] in HS.
    inversion Hidx as [|e0 q0 Hlt Hq']; subst. cbn [e_idx snd] in Hlt.
    cbn [bfs_recs e_key e_tree e_idx fst snd children rebuild drec_of d_path d_value].
    replace (S (N.to_nat counter)) with (N.to_nat (counter + 1)) by lia.
    set (q'' := q' ++ kids3 cs counter).
    assert (Hq'' : Forall (fun e => e_idx e < counter + 1) q'').
    { apply Forall_app. split.
      - eapply Forall_impl; [|exact Hq']. cbn. intros; lia.
      - eapply Forall_impl; [|apply kids3_idx]. cbn. intros a ->. lia. }
    assert (HS'' : (qsize q'' <= f)%nat) by (unfold q''; rewrite qsize_app, qsize_kids3; lia).
    pose proof (IH q'' (counter + 1) HS'' Hq'') as P.
    assert (Hne : Nat.eqb (N.to_nat idx) (N.to_nat counter) = false) by (apply Nat.eqb_neq; lia).
    rewrite Hne.
    (* the node built for the head record is the head tree *)
    assert (Hnode : rebuild (N.to_nat (counter + 1)) (bfs_recs f q'' (counter + 1)) (N.to_nat counter) = cs).
    { rewrite (P counter) by lia. unfold q'', forest_of. rewrite forest_from_app.
      fold (forest_of (kids3 cs counter) counter). rewrite forest_of_kids3.
      apply forest_from_other. eapply Forall_impl; [|exact Hq']. cbn. intros; lia. }
    rewrite Hnode, value_dec_fst.
    (* the contribution of the tail of the queue to parent i *)
    assert (Htail : forest_of q'' i = forest_of q' i).
    { unfold q'', forest_of. rewrite forest_from_app. f_equal.
      apply forest_from_other. eapply Forall_impl; [|apply kids3_idx]. cbn. intros a ->. lia. }
    unfold forest_of at 1. cbn [forest_from fold_right e_idx e_key e_tree fst snd]. fold (forest_from FNil q' i).
    fold (forest_of q' i).
    destruct (N.eqb_spec idx i) as [->|Hni].
    + rewrite Nat.eqb_refl. rewrite (P i) by lia. rewrite Htail. reflexivity.
    + assert (Hn2 : Nat.eqb (N.to_nat i) (N.to_nat idx) = false) by (apply Nat.eqb_neq; lia).
      rewrite Hn2. rewrite (P i) by lia. exact Htail.
Qed.

(** ** The stream is at least as long as the number of records *)
Lemma ser_loop_length : forall fuel q counter,
  (qsize q <= fuel)%nat -> (qsize q <= length (ser_loop sha256 fuel (strip_q q) counter))%nat.
Proof.
  induction fuel as [|f IH]; intros q counter HS.
  - lia.
  - destruct q as [|[[k t] idx] q']; [cbn; lia|]. destruct t as [p ov cs].
    cbn [qsize e_tree fst snd tsize] in *. cbn [strip_q map e_tree e_idx fst snd ser_loop].
    fold (strip_q q'). rewrite <- strip_kids3, <- strip_q_app.
    rewrite app_length.
    specialize (IH (q' ++ kids3 cs counter) (counter + 1)).
    rewrite qsize_app, qsize_kids3 in IH. specialize (IH ltac:(lia)).
    assert (Hrec : (1 <= length (ser_record sha256 (counter - idx) (Node p ov cs)))%nat).
    { unfold ser_record. rewrite app_length. unfold be32. rewrite enc_uint_length. lia. }
    lia.
Qed.

(** ** The round trip *)
Theorem deserialize_serialize t :
  tok t -> N.of_nat (tsize t) < 2 ^ 32 ->
  deserialize (serialize sha256 (Some t)) = Some (Some (t, hash_node sha256 t), []).
Proof.
  intros Hok Hsz. unfold serialize, deserialize.
  set (q0 := [(0, t, 0)] : list entry).
  assert (Hq : qsize q0 = tsize t) by (cbn; lia).
  pose proof (ser_loop_length (S (tsize t)) q0 0 ltac:(lia)) as Hlen.
  assert (Hok0 : q_ok q0 0) by (constructor; [split; [exact Hok | cbn; lia] | constructor]).
  pose proof (deser_ser (S (tsize t)) q0 0 (S (length (ser_loop sha256 (S (tsize t)) (strip_q q0) 0))) []
                ltac:(lia) ltac:(lia) Hok0 ltac:(rewrite Hq; lia)) as D.
  rewrite app_nil_r in D. change (strip_q q0) with [(t, 0)] in D. change (map e_key q0) with [0] in D.
  change (N.to_nat 0) with O in D. rewrite D. clear D Hlen.
  destruct t as [p ov cs]. cbn [bfs_recs q0 e_key e_tree e_idx fst snd children drec_of d_path d_value d_hash].
  rewrite value_dec_fst.
  pose proof (rebuild_bfs (tsize (Node p ov cs)) (kids3 cs 0) 1) as R.
  change (0 + 1) with 1. change 1%nat with (N.to_nat 1) at 1. change O with (N.to_nat 0).
  rewrite app_nil_l. rewrite R.
  - rewrite forest_of_kids3. reflexivity.
  - rewrite qsize_kids3. cbn [tsize]. lia.
  - eapply Forall_impl; [|apply kids3_idx]. cbn. intros a ->. lia.
  - lia.
Qed.

Theorem deserialize_serialize_empty : deserialize (serialize sha256 None) = Some (None, []).
Proof. reflexivity. Qed.

End Roundtrip.
