(** Lemmas about [Nibbles.v]: each transcribed function of [Stem] / [MutStem] / [StemIter]
    is the obvious operation on the list of nibbles, including odd nibble boundaries, and
    keeps the stored form well-formed (bytes are bytes; the unused low nibble of a partial
    last byte is zero). *)
From Coq Require Import NArith PeanoNat List Bool Lia.
From CB Require Import Trie.Radix.
From CB Require Import Trie.RadixProofs.
From CB Require Import Trie.Nibbles.
Import ListNotations.
Local Open Scope N_scope.

(** * Byte identities, by exhaustive sweep over the 256 bytes *)

Definition bytes256 : list N := map N.of_nat (seq 0 256).

Lemma in_bytes256 b : b < 256 -> In b bytes256.
Proof.
  intros H. unfold bytes256. apply in_map_iff. exists (N.to_nat b). split; [apply N2Nat.id|].
  apply in_seq. lia.
Qed.

Lemma sweep1 (P : N -> bool) :
  forallb P bytes256 = true -> forall b, b < 256 -> P b = true.
Proof. intros H b Hb. rewrite forallb_forall in H. apply H. apply in_bytes256. exact Hb. Qed.

Lemma sweep2 (P : N -> N -> bool) :
  forallb (fun a => forallb (P a) bytes256) bytes256 = true ->
  forall a b, a < 256 -> b < 256 -> P a b = true.
Proof.
  intros H a b Ha Hb. rewrite forallb_forall in H. specialize (H a (in_bytes256 a Ha)).
  rewrite forallb_forall in H. apply H. apply in_bytes256. exact Hb.
Qed.

Lemma shr_and_hi b : b < 256 -> shr4 (b_and b 240) = b / 16.
Proof.
  intros H. apply N.eqb_eq. revert b H.
  apply (sweep1 (fun b => shr4 (b_and b 240) =? b / 16)). vm_compute. reflexivity.
Qed.

Lemma and_lo b : b < 256 -> b_and b 15 = b mod 16.
Proof.
  intros H. apply N.eqb_eq. revert b H.
  apply (sweep1 (fun b => b_and b 15 =? b mod 16)). vm_compute. reflexivity.
Qed.

Lemma and_hi b : b < 256 -> b_and b 240 = 16 * (b / 16).
Proof.
  intros H. apply N.eqb_eq. revert b H.
  apply (sweep1 (fun b => b_and b 240 =? 16 * (b / 16))). vm_compute. reflexivity.
Qed.

Lemma shr_byte b : b < 256 -> shr4 b = b / 16.
Proof.
  intros H. apply N.eqb_eq. revert b H.
  apply (sweep1 (fun b => shr4 b =? b / 16)). vm_compute. reflexivity.
Qed.

Lemma shl_byte b : b < 256 -> shl4 b = 16 * (b mod 16).
Proof.
  intros H. apply N.eqb_eq. revert b H.
  apply (sweep1 (fun b => shl4 b =? 16 * (b mod 16))). vm_compute. reflexivity.
Qed.

(** [|] of a byte with empty low nibble and a nibble (either order) is their sum. *)
Lemma or_disjoint a c :
  a < 256 -> c < 256 ->
  (a mod 16 = 0 /\ c < 16) \/ (c mod 16 = 0 /\ a < 16) -> b_or a c = a + c.
Proof.
  intros Ha Hc H.
  assert (X : (if ((a mod 16 =? 0) && (c <? 16)) || ((c mod 16 =? 0) && (a <? 16))
               then b_or a c =? a + c else true) = true).
  { revert a c Ha Hc H. intros a c Ha Hc _. revert a c Ha Hc.
    apply (sweep2 (fun a c => if ((a mod 16 =? 0) && (c <? 16)) || ((c mod 16 =? 0) && (a <? 16))
                              then b_or a c =? a + c else true)).
    vm_compute. reflexivity. }
  assert (Y : ((a mod 16 =? 0) && (c <? 16)) || ((c mod 16 =? 0) && (a <? 16)) = true).
  { apply orb_true_iff. destruct H as [[H1 H2]|[H1 H2]]; [left|right];
      apply andb_true_iff; split; try (apply N.eqb_eq; assumption); apply N.ltb_lt; assumption. }
  rewrite Y in X. apply N.eqb_eq. exact X.
Qed.

Lemma div16_lt b : b < 256 -> b / 16 < 16.
Proof. intros H. apply N.div_lt_upper_bound; lia. Qed.

Lemma mod16_lt b : b mod 16 < 16.
Proof. apply N.mod_lt. lia. Qed.

Lemma mk_div h l : l < 16 -> (16 * h + l) / 16 = h.
Proof. intros H. rewrite N.mul_comm, N.div_add_l by lia. rewrite N.div_small by assumption. lia. Qed.

Lemma mk_mod h l : l < 16 -> (16 * h + l) mod 16 = l.
Proof. intros H. rewrite N.add_comm, N.mul_comm, N.mod_add by lia. apply N.mod_small. assumption. Qed.

Lemma mk_lt h l : h < 16 -> l < 16 -> 16 * h + l < 256.
Proof. lia. Qed.

Lemma mul16_mod h : (16 * h) mod 16 = 0.
Proof. rewrite N.mul_comm. apply N.mod_mul. lia. Qed.

Lemma mul16_div h : (16 * h) / 16 = h.
Proof. rewrite N.mul_comm. apply N.div_mul. lia. Qed.

(** * Lists of nibbles *)

Lemma bnibs_nib l : bnibs l = nib l.
Proof. induction l as [|b l IH]; cbn; [reflexivity|]. rewrite IH. reflexivity. Qed.

Lemma bnibs_app a b : bnibs (a ++ b) = bnibs a ++ bnibs b.
Proof. induction a as [|x a IH]; cbn; [reflexivity|]. rewrite IH. reflexivity. Qed.

Lemma bnibs_length l : length (bnibs l) = (2 * length l)%nat.
Proof. induction l as [|b l IH]; cbn; [reflexivity|]. rewrite IH. lia. Qed.

Lemma bnibs_mk h l : l < 16 -> bnibs [16 * h + l] = [h; l].
Proof. intros H. cbn [bnibs]. rewrite mk_div, mk_mod by assumption. reflexivity. Qed.

Lemma bnibs_mk0 h : bnibs [16 * h] = [h; 0].
Proof. rewrite <- (N.add_0_r (16 * h)). apply bnibs_mk. lia. Qed.

Lemma bnibs_firstn q l : bnibs (firstn q l) = firstn (2 * q) (bnibs l).
Proof.
  revert l. induction q as [|q IH]; intros l; [reflexivity|].
  destruct l as [|b l]; [reflexivity|]. cbn [firstn bnibs].
  replace (2 * S q)%nat with (S (S (2 * q))) by lia. cbn [firstn]. rewrite IH. reflexivity.
Qed.

Lemma bnibs_skipn q l : bnibs (skipn q l) = skipn (2 * q) (bnibs l).
Proof.
  revert l. induction q as [|q IH]; intros l; [reflexivity|].
  destruct l as [|b l]; [reflexivity|]. cbn [skipn bnibs].
  replace (2 * S q)%nat with (S (S (2 * q))) by lia. cbn [skipn]. apply IH.
Qed.

Lemma on_last_cons2 f x y l : on_last f (x :: y :: l) = x :: on_last f (y :: l).
Proof. reflexivity. Qed.

Lemma on_last_app f l a : on_last f (l ++ [a]) = l ++ [f a].
Proof.
  induction l as [|x l IH]; [reflexivity|]. destruct l as [|y l]; [reflexivity|].
  cbn [app] in *. rewrite on_last_cons2, IH. reflexivity.
Qed.

Lemma on_last_length f l : length (on_last f l) = length l.
Proof.
  induction l as [|x l IH]; [reflexivity|]. destruct l as [|y l]; [reflexivity|].
  cbn [on_last length] in *. rewrite IH. reflexivity.
Qed.

(** * The shape of a well-formed stem *)

Notation bytes_ok d := (Forall (fun b : N => b < 256) d).

Lemma bytes_ok_app a b : bytes_ok (a ++ b) <-> bytes_ok a /\ bytes_ok b.
Proof. apply Forall_app. Qed.

Lemma nibbles_full d : nibbles (mkStem d false) = bnibs d.
Proof.
  unfold nibbles, st_len. cbn [st_partial st_data]. rewrite <- bnibs_length. apply firstn_all.
Qed.

Lemma nibbles_partial d x : nibbles (mkStem (d ++ [16 * x]) true) = bnibs d ++ [x].
Proof.
  unfold nibbles, st_len. cbn [st_partial st_data]. rewrite app_length, bnibs_app, bnibs_mk0. cbn [length].
  replace (2 * (length d + 1) - 1)%nat with (length (bnibs d) + 1)%nat by (rewrite bnibs_length; lia).
  rewrite firstn_app_2. reflexivity.
Qed.

(** A well-formed stem is either full, or [d ++ [16 * x]] with [x] a nibble. *)
Lemma st_wf_shape s :
  st_wf s = true ->
  bytes_ok (st_data s)
  /\ (st_partial s = true -> exists d x, st_data s = d ++ [16 * x] /\ x < 16).
Proof.
  destruct s as [d p]. unfold st_wf. cbn [st_data st_partial]. intros H.
  apply andb_true_iff in H as [H1 H2].
  assert (Hb : bytes_ok d).
  { apply Forall_forall. intros b Hb. rewrite forallb_forall in H1. apply N.ltb_lt. auto. }
  split; [exact Hb|]. intros ->.
  destruct d as [|b0 d0] eqn:E; [discriminate|]. rewrite <- E in *.
  assert (Hne : d <> []) by (rewrite E; discriminate).
  destruct (exists_last Hne) as (d' & l & ->).
  rewrite last_last in H2. apply N.eqb_eq in H2.
  apply bytes_ok_app in Hb as [_ Hl]. inversion Hl as [|? ? Hl' _]; subst.
  exists d', (l / 16). split; [|apply div16_lt; assumption].
  f_equal. f_equal. rewrite (N.div_mod' l 16) at 1. rewrite H2. lia.
Qed.

Lemma st_wf_full d : bytes_ok d -> st_wf (mkStem d false) = true.
Proof.
  intros H. unfold st_wf. cbn. rewrite andb_true_r. apply forallb_forall. intros b Hb.
  apply N.ltb_lt. rewrite Forall_forall in H. auto.
Qed.

Lemma st_wf_partial d x : bytes_ok d -> x < 16 -> st_wf (mkStem (d ++ [16 * x]) true) = true.
Proof.
  intros H Hx. unfold st_wf. cbn [st_data st_partial]. apply andb_true_iff. split.
  - apply forallb_forall. intros b Hb. apply N.ltb_lt. apply in_app_iff in Hb as [Hb|[<-|[]]]; [|lia].
    rewrite Forall_forall in H. auto.
  - destruct (d ++ [16 * x]) eqn:E; [destruct d; discriminate|]. rewrite <- E, last_last.
    apply N.eqb_eq. apply mul16_mod.
Qed.

Lemma bnibs_lt d : bytes_ok d -> Forall (fun c => c < 16) (bnibs d).
Proof.
  induction 1 as [|b d Hb _ IH]; cbn; constructor; [apply div16_lt; assumption|].
  constructor; [apply mod16_lt | assumption].
Qed.

(** * [push] *)
Theorem ms_push_spec s c :
  st_wf s = true -> c < 16 ->
  nibbles (ms_push s c) = nibbles s ++ [c] /\ st_wf (ms_push s c) = true.
Proof.
  intros Hwf Hc. destruct (st_wf_shape s Hwf) as [Hb Hp]. destruct s as [d p]. cbn [st_data st_partial] in *.
  unfold ms_push. cbn [st_data st_partial]. destruct p.
  - destruct (Hp eq_refl) as (d' & x & -> & Hx). apply bytes_ok_app in Hb as [Hb' _].
    rewrite on_last_app, nibbles_full, nibbles_partial.
    rewrite or_disjoint; try lia; [|left; split; [apply mul16_mod | assumption]].
    rewrite bnibs_app, bnibs_mk by assumption. rewrite <- app_assoc. split; [reflexivity|].
    apply st_wf_full. apply bytes_ok_app. split; [assumption|]. repeat constructor. lia.
  - rewrite shl_byte by lia. rewrite N.mod_small by assumption.
    rewrite nibbles_partial, nibbles_full. split; [reflexivity|]. apply st_wf_partial; assumption.
Qed.

(** * Parity and indexing helpers *)

Lemma even_half n : Nat.even n = true -> n = (2 * (n / 2))%nat.
Proof.
  intros H. apply Nat.even_spec in H as [m ->]. rewrite Nat.mul_comm, Nat.div_mul by lia. lia.
Qed.

Lemma odd_half n : Nat.even n = false -> n = (2 * (n / 2) + 1)%nat.
Proof.
  intros H. assert (Ho : Nat.odd n = true) by (rewrite <- Nat.negb_even, H; reflexivity).
  apply Nat.odd_spec in Ho as [m ->].
  replace ((2 * m + 1) / 2)%nat with m; [lia|].
  symmetry. rewrite Nat.mul_comm, Nat.div_add_l by lia. cbn. lia.
Qed.

Lemma firstn_succ_nth {A} (d : A) q l : (q < length l)%nat -> firstn (S q) l = firstn q l ++ [nth q l d].
Proof.
  revert l. induction q as [|q IH]; intros [|a l] H; cbn in *; try lia; [reflexivity|].
  rewrite IH by lia. reflexivity.
Qed.

Lemma Forall_firstn' {A} (P : A -> Prop) n l : Forall P l -> Forall P (firstn n l).
Proof.
  intros H. revert n. induction H as [|a l Ha _ IH]; intros [|n]; cbn; constructor; auto.
Qed.

Lemma Forall_skipn' {A} (P : A -> Prop) n l : Forall P l -> Forall P (skipn n l).
Proof.
  intros H. revert n. induction H as [|a l Ha H IH]; intros [|n]; cbn; auto.
Qed.

Lemma Forall_nth' {A} (P : A -> Prop) d n l : Forall P l -> P d -> P (nth n l d).
Proof.
  intros H Hd. revert n. induction H as [|a l Ha _ IH]; intros [|n]; cbn; auto.
Qed.

Lemma bnibs_nth_even q d : (q < length d)%nat -> nth (2 * q) (bnibs d) 0 = nth q d 0 / 16.
Proof.
  revert d. induction q as [|q IH]; intros [|b d] H; cbn [length] in *; try lia; [reflexivity|].
  replace (2 * S q)%nat with (S (S (2 * q))) by lia. cbn [bnibs nth]. apply IH. lia.
Qed.

Lemma bnibs_nth_odd q d : (q < length d)%nat -> nth (2 * q + 1) (bnibs d) 0 = nth q d 0 mod 16.
Proof.
  revert d. induction q as [|q IH]; intros [|b d] H; cbn [length] in *; try lia; [reflexivity|].
  replace (2 * S q + 1)%nat with (S (S (2 * q + 1))) by lia. cbn [bnibs nth]. apply IH. lia.
Qed.

Lemma nibbles_length s : st_wf s = true -> length (nibbles s) = st_len s.
Proof.
  intros H. unfold nibbles. rewrite firstn_length, bnibs_length. unfold st_len.
  destruct (st_partial s); lia.
Qed.

Lemma st_len_le s : (st_len s <= 2 * length (st_data s))%nat.
Proof. unfold st_len. destruct (st_partial s); lia. Qed.

(** * [truncate] *)
Theorem ms_truncate_spec s n :
  st_wf s = true -> (n <= st_len s)%nat ->
  nibbles (ms_truncate s n) = firstn n (nibbles s) /\ st_wf (ms_truncate s n) = true.
Proof.
  intros Hwf Hn. destruct (st_wf_shape s Hwf) as [Hb _]. pose proof (st_len_le s) as Hle.
  assert (Hf : firstn n (nibbles s) = firstn n (bnibs (st_data s))).
  { unfold nibbles. rewrite firstn_firstn. f_equal. lia. }
  rewrite Hf. unfold ms_truncate. destruct (Nat.even n) eqn:E.
  - apply even_half in E. rewrite nibbles_full, bnibs_firstn, <- E. split; [reflexivity|].
    apply st_wf_full. apply Forall_firstn'. assumption.
  - apply odd_half in E. set (q := (n / 2)%nat) in *. clearbody q.
    assert (Hq : (q < length (st_data s))%nat) by lia.
    replace (q + 1)%nat with (S q) by lia.
    rewrite (firstn_succ_nth 0) by assumption. rewrite on_last_app.
    assert (Hbq : nth q (st_data s) 0 < 256) by (apply Forall_nth'; [assumption | lia]).
    rewrite and_hi by assumption. rewrite nibbles_partial, bnibs_firstn. split.
    + rewrite E. replace (2 * q + 1)%nat with (S (2 * q)) by lia.
      rewrite (firstn_succ_nth 0) by (rewrite bnibs_length; lia).
      rewrite bnibs_nth_even by assumption. reflexivity.
    + apply st_wf_partial; [apply Forall_firstn'; assumption | apply div16_lt; assumption].
Qed.

(** * The shifting loops *)

Lemma shr_loop_spec r ps :
  r < 16 -> bytes_ok ps ->
  bnibs (shr_loop r ps) = firstn (2 * length ps) (r :: bnibs ps) /\ bytes_ok (shr_loop r ps).
Proof.
  intros Hr Hps. revert r Hr. induction Hps as [|p ps Hp _ IH]; intros r Hr; [split; [reflexivity | constructor]|].
  cbn [shr_loop]. rewrite shr_byte, shl_byte, and_lo by lia. rewrite (N.mod_small r) by assumption.
  pose proof (div16_lt p Hp) as Hd. pose proof (mod16_lt p) as Hm.
  rewrite or_disjoint; try lia; [|right; split; [apply mul16_mod | assumption]].
  destruct (IH (p mod 16) Hm) as [IH1 IH2]. split.
  - change (bnibs ((p / 16 + 16 * r) :: shr_loop (p mod 16) ps))
      with (bnibs [p / 16 + 16 * r] ++ bnibs (shr_loop (p mod 16) ps)).
    rewrite (N.add_comm (p / 16)), bnibs_mk by assumption. rewrite IH1.
    cbn [length bnibs]. replace (2 * S (length ps))%nat with (S (S (2 * length ps))) by lia.
    reflexivity.
  - constructor; [lia | assumption].
Qed.

Lemma prep_loop_spec m ps :
  m < 16 -> bytes_ok ps ->
  bnibs (prep_loop (16 * m) ps) = firstn (2 * length ps) (m :: bnibs ps)
  /\ bytes_ok (prep_loop (16 * m) ps).
Proof.
  intros Hm Hps. revert m Hm. induction Hps as [|p ps Hp _ IH]; intros m Hm; [split; [reflexivity | constructor]|].
  cbn [prep_loop]. rewrite shr_byte by assumption. rewrite and_lo by assumption.
  pose proof (div16_lt p Hp) as Hd. pose proof (mod16_lt p) as Hmd.
  rewrite shl_byte by lia. rewrite (N.mod_small (p mod 16)) by assumption.
  rewrite or_disjoint; try lia; [|left; split; [apply mul16_mod | assumption]].
  destruct (IH (p mod 16) Hmd) as [IH1 IH2]. split.
  - change (bnibs ((16 * m + p / 16) :: prep_loop (16 * (p mod 16)) ps))
      with (bnibs [16 * m + p / 16] ++ bnibs (prep_loop (16 * (p mod 16)) ps)).
    rewrite bnibs_mk by assumption. rewrite IH1.
    cbn [length bnibs]. replace (2 * S (length ps))%nat with (S (S (2 * length ps))) by lia.
    reflexivity.
  - constructor; [lia | assumption].
Qed.

Lemma shl_loop_cons p r n nr :
  shl_loop (p :: r) (n :: nr) = b_or (shl4 p) (shr4 (b_and n 240)) :: shl_loop r nr.
Proof. reflexivity. Qed.

Lemma shl_loop_spec p r :
  bytes_ok (p :: r) ->
  bnibs (shl_loop (p :: r) (r ++ [0])) = tl (bnibs (p :: r)) ++ [0]
  /\ bytes_ok (shl_loop (p :: r) (r ++ [0]))
  /\ last (shl_loop (p :: r) (r ++ [0])) 0 mod 16 = 0.
Proof.
  revert p. induction r as [|q r IH]; intros p Hb.
  - inversion Hb as [|? ? Hp _]; subst. cbn [shl_loop app].
    rewrite shl_byte by assumption. change (shr4 (b_and 0 240)) with 0.
    pose proof (mod16_lt p) as Hm.
    rewrite or_disjoint; try lia; [|left; split; [apply mul16_mod | lia]].
    rewrite N.add_0_r. split; [|split].
    + rewrite bnibs_mk0. reflexivity.
    + repeat constructor. lia.
    + cbn [last]. apply mul16_mod.
  - inversion Hb as [|? ? Hp Hb']; subst. inversion Hb' as [|? ? Hq _]; subst.
    change ((q :: r) ++ [0]) with (q :: (r ++ [0])). rewrite shl_loop_cons.
    rewrite shl_byte by assumption. rewrite shr_and_hi by assumption.
    pose proof (mod16_lt p) as Hm. pose proof (div16_lt q Hq) as Hd.
    rewrite or_disjoint; try lia; [|left; split; [apply mul16_mod | assumption]].
    destruct (IH q Hb') as (IH1 & IH2 & IH3). split; [|split].
    + change (bnibs ((16 * (p mod 16) + q / 16) :: shl_loop (q :: r) (r ++ [0])))
        with (bnibs [16 * (p mod 16) + q / 16] ++ bnibs (shl_loop (q :: r) (r ++ [0]))).
      rewrite bnibs_mk by assumption. rewrite IH1. reflexivity.
    + constructor; [lia | assumption].
    + destruct (shl_loop (q :: r) (r ++ [0])) eqn:E; [cbn in E; discriminate|].
      cbn [last] in *. exact IH3.
Qed.

(** * [extend] and [prepend_parts] *)

Lemma firstn_app_exact {A} (a b : list A) n : length a = n -> firstn n (a ++ b) = a.
Proof. intros <-. rewrite firstn_app, Nat.sub_diag, firstn_all. cbn. apply app_nil_r. Qed.

Lemma skipn_app_exact {A} (a b : list A) n : length a = n -> skipn n (a ++ b) = b.
Proof. intros <-. rewrite skipn_app, Nat.sub_diag, skipn_all. reflexivity. Qed.

Lemma nibbles_partial_of d ns z : bnibs d = ns ++ [z] -> nibbles (mkStem d true) = ns.
Proof.
  intros H. unfold nibbles, st_len. cbn [st_data st_partial]. rewrite H.
  apply firstn_app_exact. apply (f_equal (@length N)) in H. rewrite bnibs_length, app_length in H.
  cbn in H. lia.
Qed.

Lemma last_app_ne {A} (a b : list A) d : b <> [] -> last (a ++ b) d = last b d.
Proof.
  intros Hb. destruct (exists_last Hb) as (b' & z & ->).
  rewrite app_assoc, !last_last. reflexivity.
Qed.

Lemma st_wf_partial_gen d :
  bytes_ok d -> d <> [] -> last d 0 mod 16 = 0 -> st_wf (mkStem d true) = true.
Proof.
  intros Hb Hne Hl. unfold st_wf. cbn [st_data st_partial]. apply andb_true_iff. split.
  - apply forallb_forall. intros b Hin. apply N.ltb_lt. rewrite Forall_forall in Hb. auto.
  - destruct d; [congruence|]. apply N.eqb_eq. exact Hl.
Qed.

Theorem ms_extend_spec s t :
  st_wf s = true -> st_wf t = true ->
  nibbles (ms_extend s t) = nibbles s ++ nibbles t /\ st_wf (ms_extend s t) = true.
Proof.
  intros Hs Ht. destruct (st_wf_shape s Hs) as [Hbs Hps]. destruct (st_wf_shape t Ht) as [Hbt Hpt].
  destruct s as [sd sp], t as [td tp]. cbn [st_data st_partial] in *.
  unfold ms_extend. cbn [st_data st_partial]. destruct td as [|d0 dr].
  - destruct tp.
    + destruct (Hpt eq_refl) as (d & x & E & _). destruct d; discriminate.
    + rewrite (nibbles_full []). cbn [bnibs]. rewrite app_nil_r. split; [reflexivity | exact Hs].
  - inversion Hbt as [|? ? Hd0 Hdr]; subst. pose proof (div16_lt d0 Hd0) as Hd0h. pose proof (mod16_lt d0) as Hd0l.
    destruct sp.
    + destruct (Hps eq_refl) as (sd' & x & -> & Hx). apply Forall_app in Hbs as [Hbs' _].
      rewrite on_last_app. rewrite shr_and_hi by assumption.
      rewrite or_disjoint; try lia; [|left; split; [apply mul16_mod | assumption]].
      assert (Hlen : length (sd' ++ [16 * x + d0 / 16]) = length (sd' ++ [16 * x]))
        by (rewrite !app_length; reflexivity).
      rewrite nibbles_partial.
      destruct tp.
      * rewrite firstn_app_exact, skipn_app_exact by exact Hlen.
        rewrite and_lo by assumption.
        destruct (shr_loop_spec (d0 mod 16) dr Hd0l Hdr) as [L1 L2].
        rewrite nibbles_full, !bnibs_app, bnibs_mk, L1 by assumption. split.
        -- unfold nibbles, st_len. cbn [st_data st_partial length bnibs].
           replace (2 * S (length dr) - 1)%nat with (S (2 * length dr)) by lia.
           cbn [firstn]. rewrite <- !app_assoc. reflexivity.
        -- apply st_wf_full. apply Forall_app. split; [|assumption].
           apply Forall_app. split; [assumption|]. repeat constructor. lia.
      * rewrite firstn_app_exact, skipn_app_exact by exact Hlen.
        destruct (shl_loop_spec d0 dr Hbt) as (L1 & L2 & L3).
        assert (Hne : shl_loop (d0 :: dr) (dr ++ [0]) <> []).
        { intros E. rewrite E in L1. cbn in L1. destruct (bnibs dr); discriminate. }
        split.
        -- apply (nibbles_partial_of _ _ 0). rewrite !bnibs_app, bnibs_mk, L1 by assumption.
           rewrite nibbles_full. cbn [bnibs tl]. rewrite <- !app_assoc. cbn [app]. reflexivity.
        -- apply st_wf_partial_gen.
           ++ apply Forall_app. split; [|assumption]. apply Forall_app. split; [assumption|].
              repeat constructor. lia.
           ++ intros E. apply app_eq_nil in E as [_ E]. contradiction.
           ++ rewrite last_app_ne by assumption. exact L3.
    + destruct tp.
      * destruct (Hpt eq_refl) as (td' & y & E & Hy). rewrite E in *. apply Forall_app in Hbt as [Hbt' _].
        rewrite app_assoc, !nibbles_partial, nibbles_full, bnibs_app, <- app_assoc. split; [reflexivity|].
        apply st_wf_partial; [apply Forall_app; split; assumption | assumption].
      * rewrite !nibbles_full, bnibs_app. split; [reflexivity|]. apply st_wf_full.
        apply Forall_app. split; assumption.
Qed.

Theorem prepend_parts_spec self first mid :
  st_wf self = true -> st_wf first = true -> mid < 16 ->
  nibbles (prepend_parts self first mid) = nibbles first ++ mid :: nibbles self
  /\ st_wf (prepend_parts self first mid) = true.
Proof.
  intros Hs Hf Hm. destruct (st_wf_shape self Hs) as [Hbs Hps]. destruct (st_wf_shape first Hf) as [Hbf Hpf].
  destruct self as [sd sp], first as [fd fp]. cbn [st_data st_partial] in *.
  unfold prepend_parts. cbn [st_data st_partial]. destruct fp.
  - destruct (Hpf eq_refl) as (fd' & x & -> & Hx). apply Forall_app in Hbf as [Hbf' _].
    rewrite on_last_app. rewrite or_disjoint; try lia; [|left; split; [apply mul16_mod | assumption]].
    rewrite nibbles_partial. destruct sp.
    + destruct (Hps eq_refl) as (sd' & y & -> & Hy). apply Forall_app in Hbs as [Hbs' _].
      rewrite (app_assoc (fd' ++ [16 * x + mid]) sd' [16 * y]).
      rewrite !nibbles_partial, !bnibs_app, bnibs_mk by assumption. split.
      * rewrite <- !app_assoc. reflexivity.
      * apply st_wf_partial; [|assumption]. apply Forall_app. split; [|assumption].
        apply Forall_app. split; [assumption|]. repeat constructor. lia.
    + rewrite !nibbles_full, !bnibs_app, bnibs_mk by assumption. rewrite <- !app_assoc.
      split; [reflexivity|]. apply st_wf_full.
      repeat (apply Forall_app; split); try assumption; repeat constructor; lia.
  - rewrite shl_byte by lia. rewrite (N.mod_small mid) by assumption. rewrite nibbles_full.
    destruct sp; cbn [negb].
    + destruct (Hps eq_refl) as (sd' & y & -> & Hy).
      rewrite firstn_app_exact, skipn_app_exact by reflexivity.
      destruct (prep_loop_spec mid (sd' ++ [16 * y]) Hm Hbs) as [L1 L2].
      rewrite nibbles_full, bnibs_app, L1, nibbles_partial. split.
      * f_equal. rewrite app_length, bnibs_app, bnibs_mk0. cbn [length].
        replace (2 * (length sd' + 1))%nat with (S (length (bnibs sd' ++ [y]))) by (rewrite app_length, bnibs_length; cbn; lia).
        cbn [firstn]. f_equal. change [y; 0] with ([y] ++ [0]). rewrite app_assoc. apply firstn_app_exact. reflexivity.
      * apply st_wf_full. apply Forall_app. split; assumption.
    + rewrite <- app_assoc. rewrite firstn_app_exact, skipn_app_exact by reflexivity.
      assert (Hb0 : bytes_ok (sd ++ [0])) by (apply Forall_app; split; [assumption | repeat constructor; lia]).
      destruct (prep_loop_spec mid (sd ++ [0]) Hm Hb0) as [L1 L2].
      assert (Hn : bnibs (prep_loop (16 * mid) (sd ++ [0])) = (mid :: bnibs sd) ++ [0]).
      { rewrite L1, app_length, bnibs_app. cbn [length bnibs].
        change (0 / 16) with 0. change (0 mod 16) with 0.
        replace (2 * (length sd + 1))%nat with (S (length (bnibs sd ++ [0]))) by (rewrite app_length, bnibs_length; cbn; lia).
        cbn [firstn]. cbn [app]. f_equal. rewrite (app_assoc (bnibs sd) [0] [0]) at 1.
        apply firstn_app_exact. reflexivity. }
      assert (Hne : prep_loop (16 * mid) (sd ++ [0]) <> []).
      { intros E. rewrite E in Hn. cbn in Hn. discriminate. }
      split.
      * apply (nibbles_partial_of _ _ 0). rewrite bnibs_app, Hn, nibbles_full.
        rewrite <- app_assoc. reflexivity.
      * apply st_wf_partial_gen.
        -- apply Forall_app. split; assumption.
        -- intros E. apply app_eq_nil in E as [_ E]. contradiction.
        -- rewrite last_app_ne by assumption.
           (* the last nibble of the loop output is the appended zero *)
           assert (X : exists l' z, prep_loop (16 * mid) (sd ++ [0]) = l' ++ [z]).
           { destruct (exists_last Hne) as (l' & z & E). eauto. }
           destruct X as (l' & z & E). rewrite E, last_last. rewrite E in Hn.
           rewrite bnibs_app in Hn. cbn [bnibs] in Hn.
           assert (Y : [z mod 16] = [0]).
           { apply (f_equal (@rev N)) in Hn. rewrite !rev_app_distr in Hn. cbn in Hn. inversion Hn. reflexivity. }
           inversion Y. reflexivity.
Qed.

(** * Iterators *)

(** Every iterator of the code is an iterator over a stem ([Stem::iter]) or over a key
    ([StemIter::new], a stem without partial byte), advanced to some position. *)
Definition it_of (s : stem) (pos : nat) : iter := mkIter (st_data s) pos (st_len s).

Lemma stem_iter_it_of s : stem_iter s = it_of s 0.
Proof. reflexivity. Qed.

Lemma iter_new_it_of key : iter_new key = it_of (mkStem key false) 0.
Proof. reflexivity. Qed.

Lemma nth_firstn' {A} (d : A) i n l : (i < n)%nat -> nth i (firstn n l) d = nth i l d.
Proof.
  revert n l. induction i as [|i IH]; intros [|n] [|a l] H; cbn; try lia; try reflexivity.
  apply IH. lia.
Qed.

Lemma nibbles_nth s pos :
  st_wf s = true -> (pos < st_len s)%nat ->
  nth pos (nibbles s) 0 =
  if Nat.even pos then nth (pos / 2) (st_data s) 0 / 16 else nth (pos / 2) (st_data s) 0 mod 16.
Proof.
  intros Hwf Hp. pose proof (st_len_le s) as Hle. unfold nibbles. rewrite nth_firstn' by assumption.
  destruct (Nat.even pos) eqn:E.
  - apply even_half in E. rewrite E at 1. apply bnibs_nth_even. lia.
  - apply odd_half in E. rewrite E at 1. apply bnibs_nth_odd. lia.
Qed.

Theorem it_next_spec s pos :
  st_wf s = true ->
  it_next (it_of s pos) =
  if Nat.ltb pos (st_len s) then (Some (nth pos (nibbles s) 0), it_of s (S pos)) else (None, it_of s pos).
Proof.
  intros Hwf. unfold it_next, it_of. cbn [it_pos it_len it_data].
  destruct (Nat.ltb_spec pos (st_len s)) as [Hlt|Hge]; [|reflexivity].
  destruct (st_wf_shape s Hwf) as [Hb _]. pose proof (st_len_le s) as Hle.
  assert (Hv : nth (pos / 2) (st_data s) 0 < 256) by (apply Forall_nth'; [assumption | lia]).
  rewrite nibbles_nth by assumption. rewrite shr_and_hi, and_lo by assumption. reflexivity.
Qed.

Lemma st_len_parity s : st_wf s = true -> Nat.odd (st_len s) = st_partial s.
Proof.
  intros Hwf. destruct (st_wf_shape s Hwf) as [_ Hp]. unfold st_len. destruct (st_partial s).
  - destruct (Hp eq_refl) as (d & x & -> & _). rewrite app_length. cbn [length].
    replace (2 * (length d + 1) - 1)%nat with (1 + 2 * length d)%nat by lia.
    rewrite Nat.odd_add_mul_2. reflexivity.
  - replace (2 * length (st_data s))%nat with (0 + 2 * length (st_data s))%nat by lia.
    rewrite Nat.odd_add_mul_2. reflexivity.
Qed.

Lemma odd_sub_even a q : (2 * q <= a)%nat -> Nat.odd (a - 2 * q) = Nat.odd a.
Proof.
  intros H. replace a with ((a - 2 * q) + 2 * q)%nat at 2 by lia. rewrite Nat.odd_add_mul_2. reflexivity.
Qed.

Lemma lts_loop_spec x bs :
  x < 16 -> bytes_ok bs ->
  exists out y, lts_loop (16 * x) bs = (out, 16 * y) /\ y < 16 /\ bytes_ok out
                /\ bnibs out ++ [y] = x :: bnibs bs.
Proof.
  intros Hx Hb. revert x Hx. induction Hb as [|b bs Hb0 _ IH]; intros x Hx.
  - exists [], x. cbn. repeat split; auto.
  - cbn [lts_loop]. rewrite and_lo, shr_and_hi by assumption.
    pose proof (mod16_lt b) as Hm. pose proof (div16_lt b Hb0) as Hd.
    rewrite shl_byte by lia. rewrite (N.mod_small (b mod 16)) by assumption.
    destruct (IH (b mod 16) Hm) as (out & y & E & Hy & Ho & Hn). rewrite E.
    rewrite or_disjoint; try lia; [|left; split; [apply mul16_mod | assumption]].
    exists ((16 * x + b / 16) :: out), y. repeat split; auto.
    + constructor; [lia | assumption].
    + change (bnibs ((16 * x + b / 16) :: out)) with (bnibs [16 * x + b / 16] ++ bnibs out).
      rewrite bnibs_mk by assumption. cbn [app bnibs]. rewrite Hn. reflexivity.
Qed.

Lemma bnibs_skipn_odd q d :
  (q < length d)%nat -> skipn (2 * q + 1) (bnibs d) = nth q d 0 mod 16 :: bnibs (skipn (S q) d).
Proof.
  revert d. induction q as [|q IH]; intros [|b d] H; cbn [length] in *; try lia; [reflexivity|].
  replace (2 * S q + 1)%nat with (S (S (2 * q + 1))) by lia. cbn [bnibs skipn nth]. apply IH. lia.
Qed.

Theorem last_to_stem_spec s pos p :
  st_wf s = true -> (p <= st_len s)%nat ->
  nibbles (last_to_stem (it_of s pos) p) = skipn p (nibbles s)
  /\ st_wf (last_to_stem (it_of s pos) p) = true.
Proof.
  intros Hwf Hp. destruct (st_wf_shape s Hwf) as [Hb Hps]. pose proof (st_len_parity s Hwf) as Hpar.
  unfold last_to_stem, it_of. cbn [it_data it_len it_pos]. unfold stem_new.
  destruct (Nat.even p) eqn:E.
  - apply even_half in E. set (q := (p / 2)%nat) in *. clearbody q. subst p.
    rewrite odd_sub_even, Hpar by assumption.
    destruct s as [d sp]. cbn [st_data st_partial] in *. destruct sp.
    + destruct (Hps eq_refl) as (d' & x & -> & Hx). apply Forall_app in Hb as [Hb' _].
      unfold st_len in Hp. cbn [st_data st_partial] in Hp. rewrite app_length in Hp. cbn [length] in Hp.
      rewrite skipn_app. replace (q - length d')%nat with O by lia. cbn [skipn].
      rewrite !nibbles_partial, bnibs_skipn. split.
      * rewrite skipn_app. rewrite bnibs_length. replace (2 * q - 2 * length d')%nat with O by lia. reflexivity.
      * apply st_wf_partial; [apply Forall_skipn'; assumption | assumption].
    + rewrite !nibbles_full, bnibs_skipn. split; [reflexivity|]. apply st_wf_full. apply Forall_skipn'. assumption.
  - apply odd_half in E. set (q := (p / 2)%nat) in *. clearbody q. subst p.
    pose proof (st_len_le s) as Hle.
    assert (Hq : (q < length (st_data s))%nat) by lia.
    assert (Hbq : nth q (st_data s) 0 < 256) by (apply Forall_nth'; [assumption | lia]).
    rewrite and_lo by assumption. pose proof (mod16_lt (nth q (st_data s) 0)) as Hm.
    rewrite shl_byte by lia. rewrite (N.mod_small _ 16 Hm).
    replace (q + 1)%nat with (S q) by lia.
    destruct (lts_loop_spec (nth q (st_data s) 0 mod 16) (skipn (S q) (st_data s)) Hm (Forall_skipn' _ _ _ Hb))
      as (out & y & EL & Hy & Ho & Hn).
    rewrite EL.
    assert (Hodd : Nat.odd (st_len s - (2 * q + 1)) = negb (st_partial s)).
    { rewrite <- Hpar. destruct (st_len s) as [|n] eqn:En; [lia|].
      replace (S n - (2 * q + 1))%nat with (n - 2 * q)%nat by lia.
      rewrite odd_sub_even by lia. rewrite Nat.odd_succ, <- Nat.negb_odd, negb_involutive. reflexivity. }
    rewrite Hodd.
    destruct s as [d sp]. cbn [st_data st_partial negb] in *. destruct sp; cbn [negb].
    + destruct (Hps eq_refl) as (d' & z & -> & Hz).
      rewrite nibbles_full, nibbles_partial.
      unfold st_len in Hp. cbn [st_data st_partial] in Hp. rewrite app_length in Hp. cbn [length] in Hp.
      rewrite <- bnibs_skipn_odd in Hn by assumption.
      rewrite bnibs_app, bnibs_mk0 in Hn.
      change [z; 0] with ([z] ++ [0]) in Hn. rewrite app_assoc in Hn.
      rewrite skipn_app in Hn.
      replace (2 * q + 1 - length (bnibs d' ++ [z]))%nat with O in Hn
        by (rewrite app_length, bnibs_length; cbn; lia).
      cbn [skipn] in Hn. apply app_inj_tail in Hn as [Hn _]. split; [exact Hn|].
      apply st_wf_full. assumption.
    + rewrite nibbles_full. rewrite <- bnibs_skipn_odd in Hn by assumption. split.
      * apply (nibbles_partial_of _ _ 0). rewrite bnibs_app, bnibs_mk0.
        change [y; 0] with ([y] ++ [0]). rewrite app_assoc, Hn. reflexivity.
      * apply st_wf_partial; assumption.
Qed.

Theorem to_stem_spec s pos :
  st_wf s = true -> (pos <= st_len s)%nat ->
  nibbles (to_stem (it_of s pos)) = skipn pos (nibbles s) /\ st_wf (to_stem (it_of s pos)) = true.
Proof. intros. unfold to_stem. cbn [it_pos it_of]. apply last_to_stem_spec; assumption. Qed.

Theorem consumed_to_stem_spec s pos :
  st_wf s = true -> (pos <= st_len s)%nat ->
  nibbles (consumed_to_stem (it_of s pos)) = firstn (pos - 1) (nibbles s)
  /\ st_wf (consumed_to_stem (it_of s pos)) = true.
Proof.
  intros Hwf Hp. destruct (st_wf_shape s Hwf) as [Hb _]. pose proof (st_len_le s) as Hle.
  unfold consumed_to_stem, it_of. cbn [it_pos it_data]. destruct pos as [|nl].
  - split; reflexivity.
  - replace (S nl - 1)%nat with nl by lia.
    assert (Hf : firstn nl (nibbles s) = firstn nl (bnibs (st_data s))).
    { unfold nibbles. rewrite firstn_firstn. f_equal. lia. }
    rewrite Hf. unfold stem_new. destruct (Nat.even nl) eqn:E.
    + rewrite <- Nat.negb_even, E. cbn [negb]. apply even_half in E.
      rewrite nibbles_full, bnibs_firstn, <- E. split; [reflexivity|].
      apply st_wf_full. apply Forall_firstn'. assumption.
    + rewrite <- Nat.negb_even, E. cbn [negb]. apply odd_half in E.
      set (q := (nl / 2)%nat) in *. clearbody q.
      assert (Hq : (q < length (st_data s))%nat) by lia.
      assert (Hbq : nth q (st_data s) 0 < 256) by (apply Forall_nth'; [assumption | lia]).
      rewrite and_hi by assumption. rewrite nibbles_partial, bnibs_firstn. split.
      * rewrite E. replace (2 * q + 1)%nat with (S (2 * q)) by lia.
        rewrite (firstn_succ_nth 0) by (rewrite bnibs_length; lia).
        rewrite bnibs_nth_even by assumption. reflexivity.
      * apply st_wf_partial; [apply Forall_firstn'; assumption | apply div16_lt; assumption].
Qed.

(** * [follow_stem] on iterators is the classification of [Radix.follow_stem] on nibble lists *)

Lemma skipn_nth_cons {A} (d : A) pos l : (pos < length l)%nat -> skipn pos l = nth pos l d :: skipn (S pos) l.
Proof.
  revert l. induction pos as [|pos IH]; intros [|a l] H; cbn [length] in *; try lia; [reflexivity|].
  cbn [skipn nth]. apply IH. lia.
Qed.

Lemma skipn_skipn' {A} a b (l : list A) : skipn a (skipn b l) = skipn (b + a) l.
Proof.
  revert l. induction b as [|b IH]; intros l; [reflexivity|].
  destruct l as [|x l]; [destruct a; reflexivity|]. cbn [skipn Nat.add]. apply IH.
Qed.

Definition follow_expected (kpos spos : nat) (K P : list N) (r : follow) : ifollow * nat * nat :=
  match r with
  | FEqual => (IEqual, kpos + length K, spos + length P)%nat
  | FKeyIsPrefix c _ => (IKeyIsPrefix c, kpos + length K, spos + length K + 1)%nat
  | FStemIsPrefix c _ => (IStemIsPrefix c, kpos + length P + 1, spos + length P)%nat
  | FDiff cm kc _ sc _ => (IDiff kc sc, kpos + length cm + 1, spos + length cm + 1)%nat
  end.

Lemma triple_eq sk ss (r r' : ifollow) a a' b b' :
  r = r' -> a = a' -> b = b' -> (r, it_of sk a, it_of ss b) = (r', it_of sk a', it_of ss b').
Proof. intros -> -> ->. reflexivity. Qed.

Lemma follow_it_spec sk ss :
  st_wf sk = true -> st_wf ss = true ->
  forall fuel kpos spos,
    (kpos <= st_len sk)%nat -> (spos <= st_len ss)%nat -> (st_len ss - spos <= fuel)%nat ->
    follow_it fuel (it_of sk kpos) (it_of ss spos) =
    (let K := skipn kpos (nibbles sk) in
     let P := skipn spos (nibbles ss) in
     let '(r, kp, sp) := follow_expected kpos spos K P (follow_stem K P) in
     (r, it_of sk kp, it_of ss sp)).
Proof.
  intros Hk Hs. pose proof (nibbles_length sk Hk) as Lk. pose proof (nibbles_length ss Hs) as Ls.
  induction fuel as [|fuel IH]; intros kpos spos Hkp Hsp Hf.
  - (* no fuel: the stem is exhausted *)
    assert (spos = st_len ss) by lia. subst spos.
    cbn [follow_it]. rewrite (it_next_spec ss) by assumption. rewrite Nat.ltb_irrefl.
    rewrite (it_next_spec sk) by assumption.
    rewrite (skipn_all2 (nibbles ss)) by lia.
    destruct (Nat.ltb_spec kpos (st_len sk)) as [Hlt|Hge].
    + rewrite (skipn_nth_cons 0 kpos) by lia. cbn [follow_stem follow_expected length].
      (apply triple_eq; [reflexivity | lia | lia]).
    + rewrite (skipn_all2 (nibbles sk)) by lia. cbn [follow_stem follow_expected length]. (apply triple_eq; [reflexivity | lia | lia]).
  - cbn [follow_it]. rewrite (it_next_spec ss) by assumption. rewrite (it_next_spec sk) by assumption.
    destruct (Nat.ltb_spec spos (st_len ss)) as [Hslt|Hsge].
    + rewrite (skipn_nth_cons 0 spos (nibbles ss)) by lia.
      set (cs := nth spos (nibbles ss) 0).
      destruct (Nat.ltb_spec kpos (st_len sk)) as [Hklt|Hkge].
      * rewrite (skipn_nth_cons 0 kpos (nibbles sk)) by lia.
        set (ck := nth kpos (nibbles sk) 0).
        cbn [follow_stem]. rewrite (N.eqb_sym cs ck).
        destruct (N.eqb_spec ck cs) as [E|E]; cbn [negb].
        -- rewrite IH by lia. cbv zeta.
           destruct (follow_stem (skipn (S kpos) (nibbles sk)) (skipn (S spos) (nibbles ss)));
             cbn [follow_expected length]; (apply triple_eq; [reflexivity | lia | lia]).
        -- cbn [follow_expected length]. (apply triple_eq; [reflexivity | lia | lia]).
      * rewrite (skipn_all2 (nibbles sk)) by lia. cbn [follow_stem follow_expected length]. (apply triple_eq; [reflexivity | lia | lia]).
    + assert (spos = st_len ss) by lia. subst spos.
      rewrite (skipn_all2 (nibbles ss)) by lia.
      destruct (Nat.ltb_spec kpos (st_len sk)) as [Hlt|Hge].
      * rewrite (skipn_nth_cons 0 kpos) by lia. cbn [follow_stem follow_expected length]. (apply triple_eq; [reflexivity | lia | lia]).
      * rewrite (skipn_all2 (nibbles sk)) by lia. cbn [follow_stem follow_expected length]. (apply triple_eq; [reflexivity | lia | lia]).
Qed.

(** The statement the callers rely on: a key iterator that has consumed [kpos] chunks of
    [key] is followed along a fresh iterator over the stem [st]; the classification is
    that of the nibble lists, and the stems the callers rebuild from the two iterators
    ([to_stem], [consumed_to_stem], [last_to_stem(checkpoint)]) denote the remaining key,
    the remaining stem, the common part and the key from the checkpoint. *)
Theorem follow_iter_correct key kpos st :
  Forall (fun b => b < 256) key -> st_wf st = true -> (kpos <= 2 * length key)%nat ->
  let K := skipn kpos (nib key) in
  let P := nibbles st in
  let '(r, k', s') := follow_iter (it_of (mkStem key false) kpos) (stem_iter st) in
  nibbles (last_to_stem k' kpos) = K /\
  match follow_stem K P with
  | FEqual => r = IEqual
  | FKeyIsPrefix c ps => r = IKeyIsPrefix c /\ nibbles (to_stem s') = ps
  | FStemIsPrefix c kr => r = IStemIsPrefix c /\ nibbles (to_stem k') = kr
  | FDiff cm kc kr sc sr =>
      r = IDiff kc sc /\ nibbles (consumed_to_stem s') = cm
      /\ nibbles (to_stem k') = kr /\ nibbles (to_stem s') = sr
  end.
Proof.
  intros Hkey Hst Hkp. cbv zeta.
  set (sk := mkStem key false).
  assert (Hsk : st_wf sk = true) by (apply st_wf_full; assumption).
  assert (Lsk : st_len sk = (2 * length key)%nat) by reflexivity.
  assert (Nsk : nibbles sk = nib key) by (unfold sk; rewrite nibbles_full; apply bnibs_nib).
  unfold follow_iter. rewrite stem_iter_it_of. cbn [it_len it_of].
  rewrite (follow_it_spec sk st Hsk Hst (st_len st) kpos 0) by lia.
  cbv zeta. rewrite Nsk. cbn [skipn].
  pose proof (follow_stem_spec (skipn kpos (nib key)) (nibbles st)) as HF.
  pose proof (nibbles_length st Hst) as Lst.
  assert (LK : length (skipn kpos (nib key)) = (2 * length key - kpos)%nat).
  { rewrite skipn_length, <- bnibs_nib, bnibs_length. reflexivity. }
  set (K := skipn kpos (nib key)) in *. set (P := nibbles st) in *.
  assert (Hlts : forall kp, nibbles (last_to_stem (it_of sk kp) kpos) = K).
  { intros kp. destruct (last_to_stem_spec sk kp kpos Hsk ltac:(lia)) as [X _]. rewrite X, Nsk. reflexivity. }
  destruct (follow_stem K P) as [|c ps|c kr|cm kc kr sc sr]; cbn [follow_expected].
  - split; [apply Hlts | reflexivity].
  - split; [apply Hlts|]. split; [reflexivity|]. subst P.
    destruct (to_stem_spec st (0 + length K + 1) Hst) as [X _].
    { rewrite <- Lst, HF, app_length. cbn. lia. }
    rewrite X, HF. replace (0 + length K + 1)%nat with (length (K ++ [c])) by (rewrite app_length; cbn; lia).
    change (c :: ps) with ([c] ++ ps). rewrite app_assoc. apply skipn_app_exact. reflexivity.
  - split; [apply Hlts|]. split; [reflexivity|].
    destruct (to_stem_spec sk (kpos + length P + 1) Hsk) as [X _].
    { assert (length K = length (P ++ c :: kr)) by (rewrite HF at 1; reflexivity).
      rewrite app_length in *. cbn [length] in *. lia. }
    rewrite X, Nsk.
    assert (E : skipn (kpos + length P + 1) (nib key) = skipn (length P + 1) K).
    { unfold K. rewrite skipn_skipn'. f_equal. lia. }
    rewrite E, HF. replace (length P + 1)%nat with (length (P ++ [c])) by (rewrite app_length; cbn; lia).
    change (c :: kr) with ([c] ++ kr). rewrite app_assoc. apply skipn_app_exact. reflexivity.
  - destruct HF as (HK & HP & Hne). split; [apply Hlts|]. split; [reflexivity|].
    assert (Hs1 : (0 + length cm + 1 <= st_len st)%nat).
    { rewrite <- Lst. fold P. rewrite HP, app_length. cbn. lia. }
    assert (Hk1 : (kpos + length cm + 1 <= st_len sk)%nat).
    { assert (length K = length (cm ++ kc :: kr)) by (rewrite HK at 1; reflexivity).
      rewrite app_length in *. cbn [length] in *. lia. }
    split; [|split].
    + destruct (consumed_to_stem_spec st (0 + length cm + 1) Hst Hs1) as [X _].
      rewrite X. fold P. rewrite HP. replace (0 + length cm + 1 - 1)%nat with (length cm) by lia.
      apply firstn_app_exact. reflexivity.
    + destruct (to_stem_spec sk (kpos + length cm + 1) Hsk Hk1) as [X _]. rewrite X, Nsk.
      assert (E : skipn (kpos + length cm + 1) (nib key) = skipn (length cm + 1) K).
      { unfold K. rewrite skipn_skipn'. f_equal. lia. }
      rewrite E, HK. replace (length cm + 1)%nat with (length (cm ++ [kc])) by (rewrite app_length; cbn; lia).
      change (kc :: kr) with ([kc] ++ kr). rewrite app_assoc. apply skipn_app_exact. reflexivity.
    + destruct (to_stem_spec st (0 + length cm + 1) Hst Hs1) as [X _]. rewrite X. fold P. rewrite HP.
      replace (0 + length cm + 1)%nat with (length (cm ++ [sc])) by (rewrite app_length; cbn; lia).
      change (sc :: sr) with ([sc] ++ sr). rewrite app_assoc. apply skipn_app_exact. reflexivity.
Qed.
