(** Lemmas about [Nibbles.v]: each transcribed function of [Stem] / [MutStem] / [StemIter]
    is the obvious operation on the list of nibbles, including odd nibble boundaries, and
    keeps the stored form well-formed (bytes are bytes; the unused low nibble of a partial
    last byte is zero). *)
From Coq Require Import NArith PeanoNat List Bool Lia.
From CB Require Import Trie.Radix.
From CB Require Import Trie.RadixProofs.
From CB Require Import Trie.Nibbles.
Import ListNotations.
Local Open Scope N_scope.

(** * Byte identities, by exhaustive sweep over the 256 bytes *)

Definition bytes256 : list N := map N.of_nat (seq 0 256).

Lemma in_bytes256 b : b < 256 -> In b bytes256.
Proof.
  intros H. unfold bytes256. apply in_map_iff. exists (N.to_nat b). split; [apply N2Nat.id|].
  apply in_seq. lia.
Qed.

Lemma sweep1 (P : N -> bool) :
  forallb P bytes256 = true -> forall b, b < 256 -> P b = true.
Proof. intros H b Hb. rewrite forallb_forall in H. apply H. apply in_bytes256. exact Hb. Qed.

Lemma sweep2 (P : N -> N -> bool) :
  forallb (fun a => forallb (P a) bytes256) bytes256 = true ->
  forall a b, a < 256 -> b < 256 -> P a b = true.
Proof.
  intros H a b Ha Hb. rewrite forallb_forall in H. specialize (H a (in_bytes256 a Ha)).
  rewrite forallb_forall in H. apply H. apply in_bytes256. exact Hb.
Qed.

Lemma shr_and_hi b : b < 256 -> shr4 (b_and b 240) = b / 16.
Proof.
  intros H. apply N.eqb_eq. revert b H.
  apply (sweep1 (fun b => shr4 (b_and b 240) =? b / 16)). vm_compute. reflexivity.
Qed.

Lemma and_lo b : b < 256 -> b_and b 15 = b mod 16.
Proof.
  intros H. apply N.eqb_eq. revert b H.
  apply (sweep1 (fun b => b_and b 15 =? b mod 16)). vm_compute. reflexivity.
Qed.

Lemma and_hi b : b < 256 -> b_and b 240 = 16 * (b / 16).
Proof.
  intros H. apply N.eqb_eq. revert b H.
  apply (sweep1 (fun b => b_and b 240 =? 16 * (b / 16))). vm_compute. reflexivity.
Qed.

Lemma shr_byte b : b < 256 -> shr4 b = b / 16.
Proof.
  intros H. apply N.eqb_eq. revert b H.
  apply (sweep1 (fun b => shr4 b =? b / 16)). vm_compute. reflexivity.
Qed.

Lemma shl_byte b : b < 256 -> shl4 b = 16 * (b mod 16).
Proof.
  intros H. apply N.eqb_eq. revert b H.
  apply (sweep1 (fun b => shl4 b =? 16 * (b mod 16))). vm_compute. reflexivity.
Qed.

(** [|] of a byte with empty low nibble and a nibble (either order) is their sum. *)
Lemma or_disjoint a c :
  a < 256 -> c < 256 ->
  (a mod 16 = 0 /\ c < 16) \/ (c mod 16 = 0 /\ a < 16) -> b_or a c = a + c.
Proof.
  intros Ha Hc H.
  assert (X : (if ((a mod 16 =? 0) && (c <? 16)) || ((c mod 16 =? 0) && (a <? 16))
               then b_or a c =? a + c else true) = true).
  { revert a c Ha Hc H. intros a c Ha Hc _. revert a c Ha Hc.
    apply (sweep2 (fun a c => if ((a mod 16 =? 0) && (c <? 16)) || ((c mod 16 =? 0) && (a <? 16))
                              then b_or a c =? a + c else true)).
    vm_compute. reflexivity. }
  assert (Y : ((a mod 16 =? 0) && (c <? 16)) || ((c mod 16 =? 0) && (a <? 16)) = true).
  { apply orb_true_iff. destruct H as [[H1 H2]|[H1 H2]]; [left|right];
      apply andb_true_iff; split; try (apply N.eqb_eq; assumption); apply N.ltb_lt; assumption. }
  rewrite Y in X. apply N.eqb_eq. exact X.
Qed.

Lemma div16_lt b : b < 256 -> b / 16 < 16.
Proof. intros H. apply N.div_lt_upper_bound; lia. Qed.

Lemma mod16_lt b : b mod 16 < 16.
Proof. apply N.mod_lt. lia. Qed.

Lemma mk_div h l : l < 16 -> (16 * h + l) / 16 = h.
Proof. intros H. rewrite N.mul_comm, N.div_add_l by lia. rewrite N.div_small by assumption. lia. Qed.

Lemma mk_mod h l : l < 16 -> (16 * h + l) mod 16 = l.
Proof. intros H. rewrite N.add_comm, N.mul_comm, N.mod_add by lia. apply N.mod_small. assumption. Qed.

Lemma mk_lt h l : h < 16 -> l < 16 -> 16 * h + l < 256.
Proof. lia. Qed.

Lemma mul16_mod h : (16 * h) mod 16 = 0.
Proof. rewrite N.mul_comm. apply N.mod_mul. lia. Qed.

Lemma mul16_div h : (16 * h) / 16 = h.
Proof. rewrite N.mul_comm. apply N.div_mul. lia. Qed.

(** * Lists of nibbles *)

Lemma bnibs_nib l : bnibs l = nib l.
Proof. induction l as [|b l IH]; cbn; [reflexivity|]. rewrite IH. reflexivity. Qed.

Lemma bnibs_app a b : bnibs (a ++ b) = bnibs a ++ bnibs b.
Proof. induction a as [|x a IH]; cbn; [reflexivity|]. rewrite IH. reflexivity. Qed.

Lemma bnibs_length l : length (bnibs l) = (2 * length l)%nat.
Proof. induction l as [|b l IH]; cbn; [reflexivity|]. rewrite IH. lia. Qed.

Lemma bnibs_mk h l : l < 16 -> bnibs [16 * h + l] = [h; l].
Proof. intros H. cbn [bnibs]. rewrite mk_div, mk_mod by assumption. reflexivity. Qed.

Lemma bnibs_mk0 h : bnibs [16 * h] = [h; 0].
Proof. rewrite <- (N.add_0_r (16 * h)). apply bnibs_mk. lia. Qed.

Lemma bnibs_firstn q l : bnibs (firstn q l) = firstn (2 * q) (bnibs l).
Proof.
  revert l. induction q as [|q IH]; intros l; [reflexivity|].
  destruct l as [|b l]; [reflexivity|]. cbn [firstn bnibs].
  replace (2 * S q)%nat with (S (S (2 * q))) by lia. cbn [firstn]. rewrite IH. reflexivity.
Qed.

Lemma bnibs_skipn q l : bnibs (skipn q l) = skipn (2 * q) (bnibs l).
Proof.
  revert l. induction q as [|q IH]; intros l; [reflexivity|].
  destruct l as [|b l]; [reflexivity|]. cbn [skipn bnibs].
  replace (2 * S q)%nat with (S (S (2 * q))) by lia. cbn [skipn]. apply IH.
Qed.

Lemma on_last_cons2 f x y l : on_last f (x :: y :: l) = x :: on_last f (y :: l).
Proof. reflexivity. Qed.

Lemma on_last_app f l a : on_last f (l ++ [a]) = l ++ [f a].
Proof.
  induction l as [|x l IH]; [reflexivity|]. destruct l as [|y l]; [reflexivity|].
  cbn [app] in *. rewrite on_last_cons2, IH. reflexivity.
Qed.

Lemma on_last_length f l : length (on_last f l) = length l.
Proof.
  induction l as [|x l IH]; [reflexivity|]. destruct l as [|y l]; [reflexivity|].
  cbn [on_last length] in *. rewrite IH. reflexivity.
Qed.

(** * The shape of a well-formed stem *)

Notation bytes_ok d := (Forall (fun b : N => b < 256) d).

Lemma bytes_ok_app a b : bytes_ok (a ++ b) <-> bytes_ok a /\ bytes_ok b.
Proof. apply Forall_app. Qed.

Lemma nibbles_full d : nibbles (mkStem d false) = bnibs d.
Proof.
  unfold nibbles, st_len. cbn [st_partial st_data]. rewrite <- bnibs_length. apply firstn_all.
Qed.

Lemma nibbles_partial d x : nibbles (mkStem (d ++ [16 * x]) true) = bnibs d ++ [x].
Proof.
  unfold nibbles, st_len. cbn [st_partial st_data]. rewrite app_length, bnibs_app, bnibs_mk0. cbn [length].
  replace (2 * (length d + 1) - 1)%nat with (length (bnibs d) + 1)%nat by (rewrite bnibs_length; lia).
  rewrite firstn_app_2. reflexivity.
Qed.

(** A well-formed stem is either full, or [d ++ [16 * x]] with [x] a nibble. *)
Lemma st_wf_shape s :
  st_wf s = true ->
  bytes_ok (st_data s)
  /\ (st_partial s = true -> exists d x, st_data s = d ++ [16 * x] /\ x < 16).
Proof.
  destruct s as [d p]. unfold st_wf. cbn [st_data st_partial]. intros H.
  apply andb_true_iff in H as [H1 H2].
  assert (Hb : bytes_ok d).
  { apply Forall_forall. intros b Hb. rewrite forallb_forall in H1. apply N.ltb_lt. auto. }
  split; [exact Hb|]. intros ->.
  destruct d as [|b0 d0] eqn:E; [discriminate|]. rewrite <- E in *.
  assert (Hne : d <> []) by (rewrite E; discriminate).
  destruct (exists_last Hne) as (d' & l & ->).
  rewrite last_last in H2. apply N.eqb_eq in H2.
  apply bytes_ok_app in Hb as [_ Hl]. inversion Hl as [|? ? Hl' _]; subst.
  exists d', (l / 16). split; [|apply div16_lt; assumption].
  f_equal. f_equal. rewrite (N.div_mod' l 16) at 1. rewrite H2. lia.
Qed.

Lemma st_wf_full d : bytes_ok d -> st_wf (mkStem d false) = true.
Proof.
  intros H. unfold st_wf. cbn. rewrite andb_true_r. apply forallb_forall. intros b Hb.
  apply N.ltb_lt. rewrite Forall_forall in H. auto.
Qed.

Lemma st_wf_partial d x : bytes_ok d -> x < 16 -> st_wf (mkStem (d ++ [16 * x]) true) = true.
Proof.
  intros H Hx. unfold st_wf. cbn [st_data st_partial]. apply andb_true_iff. split.
  - apply forallb_forall. intros b Hb. apply N.ltb_lt. apply in_app_iff in Hb as [Hb|[<-|[]]]; [|lia].
    rewrite Forall_forall in H. auto.
  - destruct (d ++ [16 * x]) eqn:E; [destruct d; discriminate|]. rewrite <- E, last_last.
    apply N.eqb_eq. apply mul16_mod.
Qed.

Lemma bnibs_lt d : bytes_ok d -> Forall (fun c => c < 16) (bnibs d).
Proof.
  induction 1 as [|b d Hb _ IH]; cbn; constructor; [apply div16_lt; assumption|].
  constructor; [apply mod16_lt | assumption].
Qed.

(** * [push] *)
Theorem ms_push_spec s c :
  st_wf s = true -> c < 16 ->
  nibbles (ms_push s c) = nibbles s ++ [c] /\ st_wf (ms_push s c) = true.
Proof.
  intros Hwf Hc. destruct (st_wf_shape s Hwf) as [Hb Hp]. destruct s as [d p]. cbn [st_data st_partial] in *.
  unfold ms_push. cbn [st_data st_partial]. destruct p.
  - destruct (Hp eq_refl) as (d' & x & -> & Hx). apply bytes_ok_app in Hb as [Hb' _].
    rewrite on_last_app, nibbles_full, nibbles_partial.
    rewrite or_disjoint; try lia; [|left; split; [apply mul16_mod | assumption]].
    rewrite bnibs_app, bnibs_mk by assumption. rewrite <- app_assoc. split; [reflexivity|].
    apply st_wf_full. apply bytes_ok_app. split; [assumption|]. repeat constructor. lia.
  - rewrite shl_byte by lia. rewrite N.mod_small by assumption.
    rewrite nibbles_partial, nibbles_full. split; [reflexivity|]. apply st_wf_partial; assumption.
Qed.

(** * Parity and indexing helpers *)

Lemma even_half n : Nat.even n = true -> n = (2 * (n / 2))%nat.
Proof.
  intros H. apply Nat.even_spec in H as [m ->]. rewrite Nat.mul_comm, Nat.div_mul by lia. lia.
Qed.

Lemma odd_half n : Nat.even n = false -> n = (2 * (n / 2) + 1)%nat.
Proof.
  intros H. assert (Ho : Nat.odd n = true) by (rewrite <- Nat.negb_even, H; reflexivity).
  apply Nat.odd_spec in Ho as [m ->].
  replace ((2 * m + 1) / 2)%nat with m; [lia|].
  symmetry. rewrite Nat.mul_comm, Nat.div_add_l by lia. cbn. lia.
Qed.

Lemma firstn_succ_nth {A} (d : A) q l : (q < length l)%nat -> firstn (S q) l = firstn q l ++ [nth q l d].
Proof.
  revert l. induction q as [|q IH]; intros [|a l] H; cbn in *; try lia; [reflexivity|].
  rewrite IH by lia. reflexivity.
Qed.

Lemma Forall_firstn' {A} (P : A -> Prop) n l : Forall P l -> Forall P (firstn n l).
Proof.
  intros H. revert n. induction H as [|a l Ha _ IH]; intros [|n]; cbn; constructor; auto.
Qed.

Lemma Forall_skipn' {A} (P : A -> Prop) n l : Forall P l -> Forall P (skipn n l).
Proof.
  intros H. revert n. induction H as [|a l Ha H IH]; intros [|n]; cbn; auto.
Qed.

Lemma Forall_nth' {A} (P : A -> Prop) d n l : Forall P l -> P d -> P (nth n l d).
Proof.
  intros H Hd. revert n. induction H as [|a l Ha _ IH]; intros [|n]; cbn; auto.
Qed.

Lemma bnibs_nth_even q d : (q < length d)%nat -> nth (2 * q) (bnibs d) 0 = nth q d 0 / 16.
Proof.
  revert d. induction q as [|q IH]; intros [|b d] H; cbn [length] in *; try lia; [reflexivity|].
  replace (2 * S q)%nat with (S (S (2 * q))) by lia. cbn [bnibs nth]. apply IH. lia.
Qed.

Lemma bnibs_nth_odd q d : (q < length d)%nat -> nth (2 * q + 1) (bnibs d) 0 = nth q d 0 mod 16.
Proof.
  revert d. induction q as [|q IH]; intros [|b d] H; cbn [length] in *; try lia; [reflexivity|].
  replace (2 * S q + 1)%nat with (S (S (2 * q + 1))) by lia. cbn [bnibs nth]. apply IH. lia.
Qed.

Lemma nibbles_length s : st_wf s = true -> length (nibbles s) = st_len s.
Proof.
  intros H. unfold nibbles. rewrite firstn_length, bnibs_length. unfold st_len.
  destruct (st_partial s); lia.
Qed.

Lemma st_len_le s : (st_len s <= 2 * length (st_data s))%nat.
Proof. unfold st_len. destruct (st_partial s); lia. Qed.

(** * [truncate] *)
Theorem ms_truncate_spec s n :
  st_wf s = true -> (n <= st_len s)%nat ->
  nibbles (ms_truncate s n) = firstn n (nibbles s) /\ st_wf (ms_truncate s n) = true.
Proof.
  intros Hwf Hn. destruct (st_wf_shape s Hwf) as [Hb _]. pose proof (st_len_le s) as Hle.
  assert (Hf : firstn n (nibbles s) = firstn n (bnibs (st_data s))).
  { unfold nibbles. rewrite firstn_firstn. f_equal. lia. }
  rewrite Hf. unfold ms_truncate. destruct (Nat.even n) eqn:E.
  - apply even_half in E. rewrite nibbles_full, bnibs_firstn, <- E. split; [reflexivity|].
    apply st_wf_full. apply Forall_firstn'. assumption.
  - apply odd_half in E. set (q := (n / 2)%nat) in *. clearbody q.
    assert (Hq : (q < length (st_data s))%nat) by lia.
    replace (q + 1)%nat with (S q) by lia.
    rewrite (firstn_succ_nth 0) by assumption. rewrite on_last_app.
    assert (Hbq : nth q (st_data s) 0 < 256) by (apply Forall_nth'; [assumption | lia]).
    rewrite and_hi by assumption. rewrite nibbles_partial, bnibs_firstn. split.
    + rewrite E. replace (2 * q + 1)%nat with (S (2 * q)) by lia.
      rewrite (firstn_succ_nth 0) by (rewrite bnibs_length; lia).
      rewrite bnibs_nth_even by assumption. reflexivity.
    + apply st_wf_partial; [apply Forall_firstn'; assumption | apply div16_lt; assumption].
Qed.

(** * The shifting loops *)

Lemma shr_loop_spec r ps :
  r < 16 -> bytes_ok ps ->
  bnibs (shr_loop r ps) = firstn (2 * length ps) (r :: bnibs ps) /\ bytes_ok (shr_loop r ps).
Proof.
  intros Hr Hps. revert r Hr. induction Hps as [|p ps Hp _ IH]; intros r Hr; [split; [reflexivity | constructor]|].
  cbn [shr_loop]. rewrite shr_byte, shl_byte, and_lo by lia. rewrite (N.mod_small r) by assumption.
  pose proof (div16_lt p Hp) as Hd. pose proof (mod16_lt p) as Hm.
  rewrite or_disjoint; try lia; [|right; split; [apply mul16_mod | assumption]].
  destruct (IH (p mod 16) Hm) as [IH1 IH2]. split.
  - change (bnibs ((p / 16 + 16 * r) :: shr_loop (p mod 16) ps))
      with (bnibs [p / 16 + 16 * r] ++ bnibs (shr_loop (p mod 16) ps)).
    rewrite (N.add_comm (p / 16)), bnibs_mk by assumption. rewrite IH1.
    cbn [length bnibs]. replace (2 * S (length ps))%nat with (S (S (2 * length ps))) by lia.
    reflexivity.
  - constructor; [lia | assumption].
Qed.

Lemma prep_loop_spec m ps :
  m < 16 -> bytes_ok ps ->
  bnibs (prep_loop (16 * m) ps) = firstn (2 * length ps) (m :: bnibs ps)
  /\ bytes_ok (prep_loop (16 * m) ps).
Proof.
  intros Hm Hps. revert m Hm. induction Hps as [|p ps Hp _ IH]; intros m Hm; [split; [reflexivity | constructor]|].
  cbn [prep_loop]. rewrite shr_byte by assumption. rewrite and_lo by assumption.
  pose proof (div16_lt p Hp) as Hd. pose proof (mod16_lt p) as Hmd.
  rewrite shl_byte by lia. rewrite (N.mod_small (p mod 16)) by assumption.
  rewrite or_disjoint; try lia; [|left; split; [apply mul16_mod | assumption]].
  destruct (IH (p mod 16) Hmd) as [IH1 IH2]. split.
  - change (bnibs ((16 * m + p / 16) :: prep_loop (16 * (p mod 16)) ps))
      with (bnibs [16 * m + p / 16] ++ bnibs (prep_loop (16 * (p mod 16)) ps)).
    rewrite bnibs_mk by assumption. rewrite IH1.
    cbn [length bnibs]. replace (2 * S (length ps))%nat with (S (S (2 * length ps))) by lia.
    reflexivity.
  - constructor; [lia | assumption].
Qed.

Lemma shl_loop_cons p r n nr :
  shl_loop (p :: r) (n :: nr) = b_or (shl4 p) (shr4 (b_and n 240)) :: shl_loop r nr.
Proof. reflexivity. Qed.

Lemma shl_loop_spec p r :
  bytes_ok (p :: r) ->
  bnibs (shl_loop (p :: r) (r ++ [0])) = tl (bnibs (p :: r)) ++ [0]
  /\ bytes_ok (shl_loop (p :: r) (r ++ [0]))
  /\ last (shl_loop (p :: r) (r ++ [0])) 0 mod 16 = 0.
Proof.
  revert p. induction r as [|q r IH]; intros p Hb.
  - inversion Hb as [|? ? Hp _]; subst. cbn [shl_loop app].
    rewrite shl_byte by assumption. change (shr4 (b_and 0 240)) with 0.
    pose proof (mod16_lt p) as Hm.
    rewrite or_disjoint; try lia; [|left; split; [apply mul16_mod | lia]].
    rewrite N.add_0_r. split; [|split].
    + rewrite bnibs_mk0. reflexivity.
    + repeat constructor. lia.
    + cbn [last]. apply mul16_mod.
  - inversion Hb as [|? ? Hp Hb']; subst. inversion Hb' as [|? ? Hq _]; subst.
    change ((q :: r) ++ [0]) with (q :: (r ++ [0])). rewrite shl_loop_cons.
    rewrite shl_byte by assumption. rewrite shr_and_hi by assumption.
    pose proof (mod16_lt p) as Hm. pose proof (div16_lt q Hq) as Hd.
    rewrite or_disjoint; try lia; [|left; split; [apply mul16_mod | assumption]].
    destruct (IH q Hb') as (IH1 & IH2 & IH3). split; [|split].
    + change (bnibs ((16 * (p mod 16) + q / 16) :: shl_loop (q :: r) (r ++ [0])))
        with (bnibs [16 * (p mod 16) + q / 16] ++ bnibs (shl_loop (q :: r) (r ++ [0]))).
      rewrite bnibs_mk by assumption. rewrite IH1. reflexivity.
    + constructor; [lia | assumption].
    + destruct (shl_loop (q :: r) (r ++ [0])) eqn:E; [cbn in E; discriminate|].
      cbn [last] in *. exact IH3.
Qed.

(** * [extend] and [prepend_parts] *)

Lemma firstn_app_exact {A} (a b : list A) n : length a = n -> firstn n (a ++ b) = a.
Proof. intros <-. rewrite firstn_app, Nat.sub_diag, firstn_all. cbn. apply app_nil_r. Qed.

Lemma skipn_app_exact {A} (a b : list A) n : length a = n -> skipn n (a ++ b) = b.
Proof. intros <-. rewrite skipn_app, Nat.sub_diag, skipn_all. reflexivity. Qed.

Lemma nibbles_partial_of d ns z : bnibs d = ns ++ [z] -> nibbles (mkStem d true) = ns.
Proof.
  intros H. unfold nibbles, st_len. cbn [st_data st_partial]. rewrite H.
  apply firstn_app_exact. apply (f_equal (@length N)) in H. rewrite bnibs_length, app_length in H.
  cbn in H. lia.
Qed.

Lemma last_app_ne {A} (a b : list A) d : b <> [] -> last (a ++ b) d = last b d.
Proof.
  intros Hb. induction a as [|x a IH]; [reflexivity|]. cbn [app].
  destruct (a ++ b) eqn:E; [destruct a; [cbn in E; congruence | discriminate]|].
  cbn [last]. rewrite <- E. exact IH.
Qed.

Lemma st_wf_partial_gen d :
  bytes_ok d -> d <> [] -> last d 0 mod 16 = 0 -> st_wf (mkStem d true) = true.
Proof.
  intros Hb Hne Hl. unfold st_wf. cbn [st_data st_partial]. apply andb_true_iff. split.
  - apply forallb_forall. intros b Hin. apply N.ltb_lt. rewrite Forall_forall in Hb. auto.
  - destruct d; [congruence|]. apply N.eqb_eq. exact Hl.
Qed.

Theorem ms_extend_spec s t :
  st_wf s = true -> st_wf t = true ->
  nibbles (ms_extend s t) = nibbles s ++ nibbles t /\ st_wf (ms_extend s t) = true.
Proof.
  intros Hs Ht. destruct (st_wf_shape s Hs) as [Hbs Hps]. destruct (st_wf_shape t Ht) as [Hbt Hpt].
  destruct s as [sd sp], t as [td tp]. cbn [st_data st_partial] in *.
  unfold ms_extend. cbn [st_data st_partial]. destruct td as [|d0 dr].
  - destruct tp.
    + destruct (Hpt eq_refl) as (d & x & E & _). destruct d; discriminate.
    + rewrite (nibbles_full []). cbn [bnibs]. rewrite app_nil_r. split; [reflexivity | exact Hs].
  - inversion Hbt as [|? ? Hd0 Hdr]; subst. pose proof (div16_lt d0 Hd0) as Hd0h. pose proof (mod16_lt d0) as Hd0l.
    destruct sp.
    + destruct (Hps eq_refl) as (sd' & x & -> & Hx). apply Forall_app in Hbs as [Hbs' _].
      rewrite on_last_app. rewrite shr_and_hi by assumption.
      rewrite or_disjoint; try lia; [|left; split; [apply mul16_mod | assumption]].
      assert (Hlen : length (sd' ++ [16 * x + d0 / 16]) = length (sd' ++ [16 * x]))
        by (rewrite !app_length; reflexivity).
      rewrite nibbles_partial.
      destruct tp.
      * rewrite firstn_app_exact, skipn_app_exact by (symmetry; exact Hlen).
        rewrite and_lo by assumption.
        destruct (shr_loop_spec (d0 mod 16) dr Hd0l Hdr) as [L1 L2].
        rewrite nibbles_full, !bnibs_app, bnibs_mk, L1 by assumption. split.
        -- unfold nibbles, st_len. cbn [st_data st_partial length bnibs].
           replace (2 * S (length dr) - 1)%nat with (S (2 * length dr)) by lia.
           cbn [firstn]. rewrite <- !app_assoc. reflexivity.
        -- apply st_wf_full. apply Forall_app. split; [|assumption].
           apply Forall_app. split; [assumption|]. repeat constructor. lia.
      * rewrite firstn_app_exact, skipn_app_exact by (symmetry; exact Hlen).
        destruct (shl_loop_spec d0 dr Hbt) as (L1 & L2 & L3).
        assert (Hne : shl_loop (d0 :: dr) (dr ++ [0]) <> []).
        { intros E. rewrite E in L1. cbn in L1. destruct (bnibs dr); discriminate. }
        split.
        -- apply (nibbles_partial_of _ _ 0). rewrite !bnibs_app, bnibs_mk, L1 by assumption.
           rewrite nibbles_full. cbn [bnibs tl]. rewrite <- !app_assoc. cbn [app]. reflexivity.
        -- apply st_wf_partial_gen.
           ++ apply Forall_app. split; [|assumption]. apply Forall_app. split; [assumption|].
              repeat constructor. lia.
           ++ intros E. apply app_eq_nil in E as [_ E]. contradiction.
           ++ rewrite last_app_ne by assumption. exact L3.
    + destruct tp.
      * destruct (Hpt eq_refl) as (td' & y & E & Hy). rewrite E in *. apply Forall_app in Hbt as [Hbt' _].
        rewrite app_assoc, !nibbles_partial, nibbles_full, bnibs_app, <- app_assoc. split; [reflexivity|].
        apply st_wf_partial; [apply Forall_app; split; assumption | assumption].
      * rewrite !nibbles_full, bnibs_app. split; [reflexivity|]. apply st_wf_full.
        apply Forall_app. split; assumption.
Qed.

Theorem prepend_parts_spec self first mid :
  st_wf self = true -> st_wf first = true -> mid < 16 ->
  nibbles (prepend_parts self first mid) = nibbles first ++ mid :: nibbles self
  /\ st_wf (prepend_parts self first mid) = true.
Proof.
  intros Hs Hf Hm. destruct (st_wf_shape self Hs) as [Hbs Hps]. destruct (st_wf_shape first Hf) as [Hbf Hpf].
  destruct self as [sd sp], first as [fd fp]. cbn [st_data st_partial] in *.
  unfold prepend_parts. cbn [st_data st_partial]. destruct fp.
  - destruct (Hpf eq_refl) as (fd' & x & -> & Hx). apply Forall_app in Hbf as [Hbf' _].
    rewrite on_last_app. rewrite or_disjoint; try lia; [|left; split; [apply mul16_mod | assumption]].
    rewrite nibbles_partial. destruct sp.
    + destruct (Hps eq_refl) as (sd' & y & -> & Hy). apply Forall_app in Hbs as [Hbs' _].
      rewrite app_assoc, !nibbles_partial, !bnibs_app, bnibs_mk by assumption.
      rewrite <- !app_assoc. split; [reflexivity|].
      apply st_wf_partial; [|assumption]. apply Forall_app. split; [|assumption].
      apply Forall_app. split; [assumption|]. repeat constructor. lia.
    + rewrite !nibbles_full, !bnibs_app, bnibs_mk by assumption. rewrite <- !app_assoc.
      split; [reflexivity|]. apply st_wf_full. apply Forall_app. split; [|assumption].
      apply Forall_app. split; [assumption|]. repeat constructor. lia.
  - rewrite shl_byte by lia. rewrite (N.mod_small mid) by assumption. rewrite nibbles_full.
    destruct sp; cbn [negb].
    + destruct (Hps eq_refl) as (sd' & y & -> & Hy).
      rewrite firstn_app_exact, skipn_app_exact by reflexivity.
      destruct (prep_loop_spec mid (sd' ++ [16 * y]) Hm Hbs) as [L1 L2].
      rewrite nibbles_full, bnibs_app, L1, nibbles_partial. split.
      * f_equal. rewrite app_length, bnibs_app, bnibs_mk0. cbn [length].
        replace (2 * (length sd' + 1))%nat with (S (length (bnibs sd' ++ [y]))) by (rewrite app_length, bnibs_length; cbn; lia).
        cbn [firstn]. f_equal. rewrite (app_assoc (bnibs sd') [y] [0]). apply firstn_app_exact. reflexivity.
      * apply st_wf_full. apply Forall_app. split; assumption.
    + rewrite <- app_assoc. rewrite firstn_app_exact, skipn_app_exact by reflexivity.
      assert (Hb0 : bytes_ok (sd ++ [0])) by (apply Forall_app; split; [assumption | repeat constructor; lia]).
      destruct (prep_loop_spec mid (sd ++ [0]) Hm Hb0) as [L1 L2].
      assert (Hn : bnibs (prep_loop (16 * mid) (sd ++ [0])) = (mid :: bnibs sd) ++ [0]).
      { rewrite L1, app_length, bnibs_app. cbn [length bnibs].
        change (0 / 16) with 0. change (0 mod 16) with 0.
        replace (2 * (length sd + 1))%nat with (S (length (bnibs sd ++ [0]))) by (rewrite app_length, bnibs_length; cbn; lia).
        cbn [firstn]. cbn [app]. f_equal. rewrite (app_assoc (bnibs sd) [0] [0]) at 1.
        apply firstn_app_exact. reflexivity. }
      assert (Hne : prep_loop (16 * mid) (sd ++ [0]) <> []).
      { intros E. rewrite E in Hn. cbn in Hn. discriminate. }
      split.
      * apply (nibbles_partial_of _ _ 0). rewrite bnibs_app, Hn, nibbles_full.
        rewrite <- app_assoc. reflexivity.
      * apply st_wf_partial_gen.
        -- apply Forall_app. split; assumption.
        -- intros E. apply app_eq_nil in E as [_ E]. contradiction.
        -- rewrite last_app_ne by assumption.
           (* the last nibble of the loop output is the appended zero *)
           assert (X : exists l' z, prep_loop (16 * mid) (sd ++ [0]) = l' ++ [z]).
           { destruct (exists_last Hne) as (l' & z & E). eauto. }
           destruct X as (l' & z & E). rewrite E, last_last. rewrite E in Hn.
           rewrite bnibs_app in Hn. cbn [bnibs] in Hn.
           assert (Y : [z mod 16] = [0]).
           { apply (f_equal (@rev N)) in Hn. rewrite !rev_app_distr in Hn. cbn in Hn. inversion Hn. reflexivity. }
           inversion Y. reflexivity.
Qed.
