(** * Trie/ArenaEnt.v — the entries referenced by the nodes of the arena exist ([EInv]) in
    every reachable state, so that the assumption of the [_partial] theorems of
    ArenaView.v holds for every state the arena machine can reach. *)

From Coq Require Import NArith PeanoNat List Bool Lia.
From CB Require Import Trie.Radix.
From CB Require Import Trie.RadixProofs.
From CB Require Import Trie.Locks.
From CB Require Import Trie.LocksProofs.
From CB Require Import Trie.Arena.
From CB Require Import Trie.ArenaProofs.
From CB Require Import Trie.ArenaCow.
From CB Require Import Trie.ArenaTree.
From CB Require Import Trie.ArenaView.
Import ListNotations.
Local Open Scope nat_scope.

Lemma E_same a a' :
  a_nodes a' = a_nodes a -> length (a_entries a) <= length (a_entries a') -> EInv a -> EInv a'.
Proof.
  intros En Le HE j e Hv. unfold node_at in Hv. rewrite En in Hv. pose proof (HE j e Hv). lia.
Qed.

Lemma E_set_node a i n :
  EInv a -> (forall e, an_val n = Some e -> e < length (a_entries a)) -> EInv (set_node a i n).
Proof.
  intros HE Hn j e Hv. rewrite node_at_set_node in Hv. change (a_entries (set_node a i n)) with (a_entries a).
  destruct (Nat.eqb i j); [destruct (Nat.ltb i (length (a_nodes a)))|]; auto; apply (HE j e Hv).
Qed.

Lemma E_push_node a n :
  EInv a -> (forall e, an_val n = Some e -> e < length (a_entries a)) -> EInv (push_node a n).
Proof.
  intros HE Hn j e Hv. rewrite node_at_push in Hv. change (a_entries (push_node a n)) with (a_entries a).
  destruct (Nat.eqb j (length (a_nodes a))); auto; apply (HE j e Hv).
Qed.

Lemma set_root_same a r : a_nodes (set_root a r) = a_nodes a /\ a_entries (set_root a r) = a_entries a.
Proof. unfold set_root. destruct (rev (a_gens a)); split; reflexivity. Qed.

Lemma E_set_root a r : EInv a -> EInv (set_root a r).
Proof. intros HE. destruct (set_root_same a r) as (E1 & E2). apply (E_same a); [exact E1 | rewrite E2; lia | exact HE]. Qed.

Lemma E_new_entry a v :
  EInv a -> EInv (fst (new_entry a v)) /\ snd (new_entry a v) < length (a_entries (fst (new_entry a v)))
            /\ length (a_entries a) <= length (a_entries (fst (new_entry a v))).
Proof.
  intros HE.
  assert (L : length (a_entries (fst (new_entry a v))) = S (length (a_entries a))).
  { unfold new_entry. cbn [fst push_entry push_value a_entries]. rewrite app_length. cbn. lia. }
  split; [apply (E_same a); [reflexivity | lia | exact HE]|]. rewrite L. unfold new_entry. cbn [snd]. lia.
Qed.

Lemma E_set_entry_value a e v : EInv a -> EInv (a_set_entry_value a e v).
Proof.
  intros HE. apply (E_same a); [apply set_entry_value_shape | | exact HE].
  unfold a_set_entry_value. destruct (nth e (a_entries a) EDeleted); cbn; rewrite ?set_nth_length; lia.
Qed.

Lemma E_kill_entry a e : EInv a -> EInv (fst (kill_entry a e)).
Proof.
  intros HE. apply (E_same a); [apply kill_entry_shape | | exact HE].
  unfold kill_entry. destruct (nth e (a_entries a) EDeleted); cbn; rewrite ?set_nth_length; lia.
Qed.

Lemma E_a_set a e v : EInv a -> EInv (fst (a_set a e v)).
Proof.
  intros HE. apply (E_same a); [apply a_set_shape | | exact HE].
  unfold a_set. destruct (nth_error (a_entries a) e) as [[?|?|]|]; cbn; rewrite ?set_nth_length; lia.
Qed.

Lemma E_a_mut a e v : EInv a -> EInv (fst (a_mut a e v)).
Proof.
  intros HE. apply (E_same a); [apply a_mut_shape | | exact HE].
  unfold a_mut. destruct (nth_error (a_entries a) e) as [[?|?|]|]; cbn; rewrite ?set_nth_length; lia.
Qed.

Lemma E_relink a parent i : EInv a -> EInv (relink a parent i).
Proof.
  intros HE. destruct parent as [[p pos]|]; cbn [relink]; [|apply E_set_root; exact HE].
  apply E_set_node; [exact HE|]. intros e Hv. apply (HE p e Hv).
Qed.

Theorem E_make_owned a idx : EInv a -> EInv (make_owned a idx).
Proof.
  intros HE. unfold make_owned.
  destruct (Nat.eqb (an_cgen (node_at a idx)) (an_gen (node_at a idx))); [exact HE|].
  set (n := node_at a idx). set (L := length (a_nodes a)).
  pose proof (migrate_children_view (an_ch n) a (an_gen n) L HE) as M.
  pose proof (migrate_children_spec (an_ch n) a (an_gen n) L) as M0.
  destruct (migrate_children a (an_gen n) L (an_ch n)) as [[a1 ns] cs].
  destruct M as (V1 & (es & E1) & Cp & Sq). destruct M0 as (_ & N1 & _ & Ln & _).
  apply E_set_node.
  - intros j e Hv. cbn [a_entries]. unfold node_at in Hv. cbn [a_nodes] in Hv. rewrite N1 in Hv.
    destruct (Nat.lt_ge_cases j L) as [Hj|Hj].
    + rewrite app_nth1 in Hv by exact Hj. pose proof (HE j e Hv). rewrite E1, app_length. lia.
    + rewrite app_nth2 in Hv by exact Hj. fold L in Hv.
      destruct (nth_error ns (j - L)) as [n'|] eqn:Hn.
      * rewrite (nth_error_nth _ _ anode_default Hn) in Hv.
        assert (exists kc, nth_error (an_ch n) (j - L) = Some kc) as [kc Hk].
        { destruct (nth_error (an_ch n) (j - L)) eqn:Y; [eauto|]. apply nth_error_None in Y.
          assert (X : nth_error ns (j - L) <> None) by congruence. apply nth_error_Some in X. lia. }
        destruct (copies_nth _ _ _ _ _ _ Cp Hk) as (n'' & c & Hn' & _ & (_ & _ & _ & _ & Q5)).
        rewrite Hn in Hn'. inversion Hn'; subst n''. apply (Q5 e Hv).
      * apply nth_error_None in Hn. rewrite nth_overflow in Hv by exact Hn. discriminate.
  - cbn [an_val a_entries]. intros e Hv. pose proof (HE idx e Hv). rewrite E1, app_length. lia.
Qed.

Lemma E_get_entry : forall fuel a idx k, EInv a -> EInv (fst (a_get_entry fuel a idx k)).
Proof.
  induction fuel as [|fuel IH]; intros a idx k HE; cbn [a_get_entry]; [exact HE|].
  destruct (follow_stem k (an_path (node_at a idx))); cbn [fst]; try exact HE.
  pose proof (E_make_owned a idx HE) as H1.
  destruct (find_child _ _ 0) as [[pos i]|]; [apply IH; exact H1 | exact H1].
Qed.

Lemma E_insert_loop : forall fuel a gen idx parent k v,
  EInv a -> EInv (fst (fst (ar_insert_loop fuel a gen idx parent k v))).
Proof.
  induction fuel as [|fuel IH]; intros a gen idx parent k v HE; cbn [ar_insert_loop]; [exact HE|].
  destruct (follow_stem k (an_path (node_at a idx))) as [|s ps|c k'|cm kc kr sc sr].
  - destruct (an_val (node_at a idx)) as [e0|] eqn:Ev; cbn [fst].
    + apply E_set_entry_value. exact HE.
    + destruct (E_new_entry a v HE) as (H1 & H2 & H3). destruct (new_entry a v) as [a1 e]. cbn [fst snd] in *.
      apply E_set_node; [exact H1|]. cbn [with_val an_val]. intros e' E. inversion E. subst. exact H2.
  - destruct (E_new_entry a v HE) as (H1 & H2 & H3). destruct (new_entry a v) as [a1 e]. cbn [fst snd] in *.
    apply E_push_node.
    + apply E_relink. apply E_set_node; [exact H1|]. cbn [with_path an_val]. intros e' E. pose proof (HE idx e' E). lia.
    + cbn [an_val]. intros e' E. inversion E. subst.
      destruct parent as [[p pos]|]; cbn [relink]; [exact H2|]. rewrite (proj2 (set_root_same _ _)). exact H2.
  - pose proof (E_make_owned a idx HE) as H1. set (a1 := make_owned a idx) in *.
    destruct (find_child c (an_ch (node_at a1 idx)) 0) as [[pos i]|]; [apply IH; exact H1|].
    set (a2 := set_node a1 idx _).
    assert (H2 : EInv a2) by (apply E_set_node; [exact H1|]; cbn [with_children an_val]; intros e' E; apply (H1 idx e' E)).
    destruct (E_new_entry a2 v H2) as (H3 & H4 & H5). destruct (new_entry a2 v) as [a3 e]. cbn [fst snd] in *.
    apply E_push_node; [exact H3|]. cbn [an_val]. intros e' E. inversion E. subst. exact H4.
  - set (a1 := set_node a idx (with_path (node_at a idx) sr)).
    assert (H1 : EInv a1) by (apply E_set_node; [exact HE|]; cbn [with_path an_val]; intros e' E; apply (HE idx e' E)).
    destruct (E_new_entry a1 v H1) as (H2 & H3 & H4). destruct (new_entry a1 v) as [a2 e]. cbn [fst snd] in *.
    apply E_relink. apply E_push_node; [apply E_push_node; [exact H2|]|].
    + cbn [an_val]. intros e' E. inversion E. subst. exact H3.
    + cbn [an_val]. intros e' E. discriminate.
Qed.

Lemma E_insert a key v : EInv a -> EInv (fst (fst (ar_insert a key v))).
Proof.
  intros HE. unfold ar_insert. destruct (cur_root a) as [r|]; [apply E_insert_loop; exact HE|].
  destruct (E_new_entry a v HE) as (H1 & H2 & H3). destruct (new_entry a v) as [a1 e]. cbn [fst snd] in *.
  apply E_set_root. apply E_push_node; [exact H1|]. cbn [an_val]. intros e' E. inversion E. subst. exact H2.
Qed.

Lemma E_collapse a idx up : EInv a -> EInv (collapse_into_child a idx up).
Proof.
  intros HE. unfold collapse_into_child. destruct (an_ch (node_at a idx)) as [|[ck ci] [|? ?]]; try exact HE.
  set (a1 := set_node a idx anode_default).
  assert (H1 : EInv a1) by (apply E_set_node; [exact HE | intros e E; discriminate]).
  set (a2 := set_node a1 ci _).
  assert (H2 : EInv a2) by (apply E_set_node; [exact H1|]; cbn [with_path an_val]; intros e E; apply (H1 ci e E)).
  destruct up as [[pos u]|]; [|apply E_set_root; exact H2].
  apply E_set_node; [exact H2|]. cbn [with_children an_val]. intros e E. apply (H2 u e E).
Qed.

Lemma E_remove_child a pos f : EInv a -> EInv (set_node a f (with_children (node_at a f) (remove_nth pos (an_ch (node_at a f))))).
Proof. intros HE. apply E_set_node; [exact HE|]. cbn [with_children an_val]. intros e E. apply (HE f e E). Qed.

Lemma E_delete_loop : forall fuel a idx father gf k,
  EInv a -> EInv (fst (ar_delete_loop fuel a idx father gf k)).
Proof.
  induction fuel as [|fuel IH]; intros a idx father gf k HE; cbn [ar_delete_loop]; [exact HE|].
  destruct (follow_stem k (an_path (node_at a idx))) as [|s ps|c k'|cm kc kr sc sr]; try exact HE.
  - destruct (an_val (node_at a idx)) as [e|]; [|exact HE].
    pose proof (E_kill_entry a e HE) as H1. destruct (kill_entry a e) as [a1 rv]. cbn [fst] in *.
    set (a2 := set_node a1 idx (with_val (node_at a1 idx) None)).
    assert (H2 : EInv a2) by (apply E_set_node; [exact H1 | intros e' E; discriminate]).
    pose proof (E_make_owned a2 idx H2) as H3. set (a3 := make_owned a2 idx) in *.
    destruct (an_ch (node_at a3 idx)) as [|c0 [|c1 cr]]; cbn [fst]; [|apply E_collapse; exact H3 | exact H3].
    destruct father as [[child_pos fidx]|]; cbn [fst]; [|apply E_set_root; exact H3].
    pose proof (E_make_owned a3 fidx H3) as H4. set (a4 := make_owned a3 fidx) in *.
    pose proof (E_remove_child a4 child_pos fidx H4) as H5.
    destruct (_ && _); cbn [fst]; [apply E_collapse; exact H5 | exact H5].
  - pose proof (E_make_owned a idx HE) as H1.
    destruct (find_child _ _ 0) as [[pos i]|]; [apply IH; exact H1 | exact H1].
Qed.

Lemma E_delete a key : EInv a -> EInv (fst (ar_delete a key)).
Proof. intros HE. unfold ar_delete. destruct (cur_root a); [apply E_delete_loop; exact HE | exact HE]. Qed.

Lemma E_invalidate : forall fuel a stack, EInv a -> EInv (invalidate fuel a stack).
Proof.
  induction fuel as [|fuel IH]; intros a stack HE; cbn [invalidate]; [exact HE|].
  destruct stack as [|i rest]; [exact HE|]. apply IH.
  destruct (an_val (node_at a i)); [apply E_kill_entry; exact HE | exact HE].
Qed.

Lemma E_delete_prefix_loop : forall fuel a idx parent gp k,
  EInv a -> EInv (fst (ar_delete_prefix_loop fuel a idx parent gp k)).
Proof.
  induction fuel as [|fuel IH]; intros a idx parent gp k HE; cbn [ar_delete_prefix_loop]; [exact HE|].
  assert (Found : EInv (fst (
        let a1 := invalidate (S (length (a_nodes a))) a [idx] in
        match parent with
        | Some (child_pos, parent_idx) =>
            let a2 := make_owned a1 parent_idx in
            let pn := node_at a2 parent_idx in
            let has_value := match an_val pn with Some _ => true | None => false end in
            let ch' := remove_nth child_pos (an_ch pn) in
            let a3 := set_node a2 parent_idx (with_children pn ch') in
            if negb has_value && Nat.eqb (length ch') 1
            then (collapse_into_child a3 parent_idx gp, true)
            else (a3, true)
        | None => (set_root a1 None, true)
        end))).
  { cbv zeta. pose proof (E_invalidate (S (length (a_nodes a))) a [idx] HE) as H1.
    set (a1 := invalidate (S (length (a_nodes a))) a [idx]) in *.
    destruct parent as [[child_pos pidx]|]; cbn [fst]; [|apply E_set_root; exact H1].
    pose proof (E_make_owned a1 pidx H1) as H2. set (a2 := make_owned a1 pidx) in *.
    pose proof (E_remove_child a2 child_pos pidx H2) as H3.
    destruct (_ && _); cbn [fst]; [apply E_collapse; exact H3 | exact H3]. }
  destruct (follow_stem k (an_path (node_at a idx))) as [|s ps|c k'|cm kc kr sc sr]; try exact Found; try exact HE.
  pose proof (E_make_owned a idx HE) as H1.
  destruct (find_child _ _ 0) as [[pos i]|]; [apply IH; exact H1 | exact H1].
Qed.

Lemma E_delete_prefix a key : EInv a -> EInv (fst (ar_delete_prefix a key)).
Proof. intros HE. unfold ar_delete_prefix. destruct (cur_root a); [apply E_delete_prefix_loop; exact HE | exact HE]. Qed.

Lemma E_new_generation a : EInv a -> EInv (a_new_generation a).
Proof.
  intros HE. unfold a_new_generation. destruct (cur_root a) as [r|].
  - pose proof (migrate_view a (node_at a r) (S (an_gen (node_at a r)))) as M.
    destruct (migrate a (node_at a r) (S (an_gen (node_at a r)))) as [a1 n'].
    destruct M as (_ & (es & E1) & N1 & _ & _ & _ & R1).
    assert (H1 : EInv a1) by (apply (E_same a); [exact N1 | rewrite E1, app_length; lia | exact HE]).
    pose proof (E_push_node a1 n' H1 R1) as H2.
    intros j e Hv. apply (H2 j e Hv).
  - destruct (a_gens a); [exact HE|]. intros j e Hv. apply (HE j e Hv).
Qed.

Theorem as_step_e o s : gen_op o = false -> EInv (as_arena s) -> EInv (as_arena (fst (as_step o s))).
Proof.
  intros Hg HE. destruct o; try discriminate Hg; cbn [as_step]; try exact HE.
  - pose proof (E_insert (as_arena s) k v HE) as X.
    destruct (ar_insert (as_arena s) k v) as [[a1 e] existed]. cbn [fst] in *. rewrite arena_push_handle. exact X.
  - assert (X : EInv (fst (a_lookup_key (as_arena s) k))).
    { unfold a_lookup_key. destruct (cur_root (as_arena s)); [apply E_get_entry; exact HE | exact HE]. }
    destruct (a_lookup_key (as_arena s) k) as [a1 [e|]]; cbn [fst] in *; [rewrite arena_push_handle|]; exact X.
  - destruct (nth_error (cur_handles s) h); exact HE.
  - destruct (nth_error (cur_handles s) h) as [e|]; [|exact HE].
    pose proof (E_a_set (as_arena s) e v HE) as X. destruct (a_set (as_arena s) e v). exact X.
  - destruct (nth_error (cur_handles s) h) as [e|]; [|exact HE].
    pose proof (E_a_mut (as_arena s) e v HE) as X. destruct (a_mut (as_arena s) e v). exact X.
  - pose proof (E_delete (as_arena s) k HE) as X. destruct (ar_delete (as_arena s) k). exact X.
  - pose proof (E_delete_prefix (as_arena s) k HE) as X. destruct (ar_delete_prefix (as_arena s) k). exact X.
Qed.

(** * Reachable states *)

Definition ReachE (s : astate) : Prop :=
  SInv s /\ TInv (as_arena s) /\ EInv (as_arena s)
  /\ exists saved, Hist s saved /\ Forall (fun b => TInv (as_arena b) /\ EInv (as_arena b)) saved.

Lemma EInv_empty : EInv a_empty.
Proof. intros j e Hv. unfold node_at in Hv. cbn in Hv. destruct j; discriminate. Qed.

Lemma ReachE_init : ReachE as_init.
Proof.
  split; [exact SInv_init|]. split; [exact TInv_empty|]. split; [exact EInv_empty|].
  exists []. split; [exact Hist_init | constructor].
Qed.

Theorem ReachE_step o s : ReachE s -> ReachE (fst (as_step o s)).
Proof.
  intros (HS & T & HE & saved & HH & FT).
  destruct (gen_op o) eqn:Hg.
  - destruct o; try discriminate Hg.
    + pose proof (tinv_tag_ok _ T) as Et. destruct (newgen_step s saved HH HS Et) as (H1 & S1).
      split; [exact S1|]. destruct HS as (H & _ & Hne & _).
      split; [cbn [as_step fst as_arena]; apply new_generation_t; assumption|].
      split; [cbn [as_step fst as_arena]; apply E_new_generation; exact HE|].
      exists (s :: saved). split; [exact H1 | constructor; auto].
    + pose proof HS as (_ & _ & _ & Hlc).
      destruct (Nat.le_gt_cases (length (a_gens (as_arena s))) (S r)) as [Hle|Hgt].
      * rewrite (normalize_noop s r Hlc Hle). split; [exact HS|]. split; [exact T|]. split; [exact HE|]. exists saved. auto.
      * destruct (normalize_hist _ s r HH HS Hgt) as (b & Hn & Hs & Hh & Sb). rewrite Hs.
        assert (X : TInv (as_arena b) /\ EInv (as_arena b)).
        { rewrite Forall_forall in FT. apply FT. eapply nth_error_In. exact Hn. }
        split; [exact Sb|]. split; [apply X|]. split; [apply X|].
        eexists. split; [exact Hh | apply Forall_skipn; exact FT].
  - split; [apply (proj1 (proj2 (as_step_cow o s HS Hg)))|]. split; [apply as_step_t; assumption|].
    split; [apply as_step_e; assumption|].
    exists saved. split; [apply Hist_step; assumption | exact FT].
Qed.

Theorem ReachE_run : forall ops s, ReachE s -> ReachE (as_run ops s).
Proof.
  induction ops as [|o ops IH]; intros s R; [exact R|]. cbn [as_run fold_left]. apply IH. apply ReachE_step. exact R.
Qed.

(** The lookup of the arena machine refines [Radix.lookup] in every reachable state. *)
Theorem reachable_lookup_refines_radix_partial ops key r :
  let a := as_arena (as_run ops as_init) in
  cur_root a = Some r ->
  let res := a_lookup_key a key in
  option_map (a_with_entry (fst res)) (snd res) = lookup (nib key) (vview (S (length (nib key))) a r)
  /\ (forall d j, j < length (a_nodes a) -> vview d (fst res) j = vview d a j)
  /\ (forall e, e < length (a_entries a) -> a_with_entry (fst res) e = a_with_entry a e).
Proof.
  intros a Er res. destruct (ReachE_run ops as_init ReachE_init) as ((H & _) & T & HE & _). fold a in H, T, HE.
  destruct (arena_lookup_refines_radix_partial a key r H T HE Er) as (R1 & R2 & R3 & _). auto.
Qed.
