(** The stem bytes that enter the hash are literally the stored representation of the
    stem: for a well-formed [Nibbles.stem] (the transcription of [Stem { data, last_partial }]
    of low_level.rs, shared with C03 / C15) with nibble list [nibbles s],
    [MerkleHash.pack (nibbles s) = st_data s] and the hashed length is [st_len s], i.e.
    exactly what [Stem::to_slice] returns.  Imports [Nibbles.v] / [NibblesProofs.v] only. *)
From Coq Require Import NArith PeanoNat List Bool Lia.
From CB Require Import Common.Codec.
From CB Require Import Trie.Radix.
From CB Require Import Trie.Nibbles.
From CB Require Import Trie.NibblesProofs.
From CB Require Import Trie.MerkleHash.
Import ListNotations.
Local Open Scope N_scope.

Lemma mpack_bnibs d : MerkleHash.pack (bnibs d) = d.
Proof.
  induction d as [|b d IH]; [reflexivity|]. cbn [bnibs MerkleHash.pack]. rewrite IH. f_equal.
  symmetry. apply N.div_mod'.
Qed.

Lemma mpack_bnibs_snoc d x : MerkleHash.pack (bnibs d ++ [x]) = d ++ [16 * x].
Proof.
  induction d as [|b d IH]; [reflexivity|]. cbn [bnibs MerkleHash.pack app]. rewrite IH. f_equal.
  symmetry. apply N.div_mod'.
Qed.

(** The two packing functions (this family's and [Nibbles.pack]) coincide. *)
Lemma mpack_is_nibbles_pack ns : MerkleHash.pack ns = Nibbles.pack ns.
Proof.
  assert (H : forall n ns, (length ns <= n)%nat -> MerkleHash.pack ns = Nibbles.pack ns).
  { induction n as [|n IH]; intros l Hl.
    - destruct l; [reflexivity | cbn in Hl; lia].
    - destruct l as [|h [|x r]]; [reflexivity | reflexivity |].
      cbn [MerkleHash.pack Nibbles.pack]. rewrite IH by (cbn [length] in Hl; lia). reflexivity. }
  apply (H (length ns)). lia.
Qed.

Theorem hashed_stem_is_stored_stem s :
  st_wf s = true ->
  MerkleHash.pack (nibbles s) = st_data s /\ lenN (nibbles s) = N.of_nat (st_len s).
Proof.
  intros Hwf. split; [|unfold lenN; rewrite (nibbles_length s Hwf); reflexivity].
  destruct (st_wf_shape s Hwf) as [_ Hp]. destruct s as [d [|]]; cbn [st_partial st_data] in *.
  - destruct (Hp eq_refl) as (d' & x & -> & Hx). rewrite nibbles_partial. apply mpack_bnibs_snoc.
  - rewrite nibbles_full. apply mpack_bnibs.
Qed.

Section Hash.
Variable sha256 : list N -> list N.

(** [ToSHA256 for Node] in terms of the stored stem: [stem_len] as LE64, then [stem_ref]
    (the two components of [self.path.to_slice()]). *)
Theorem hash_node_stored_stem (s : stem) ov cs :
  st_wf s = true ->
  hash_node sha256 (Node (nibbles s) ov cs) =
  sha256 (value_part sha256 ov ++ le64 (N.of_nat (st_len s)) ++ st_data s
          ++ sha256 (be16 (N.of_nat (flen cs)) ++ hash_children sha256 cs)).
Proof.
  intros Hwf. destruct (hashed_stem_is_stored_stem s Hwf) as [Hp Hl].
  cbn [hash_node]. rewrite Hp, Hl. reflexivity.
Qed.

End Hash.
