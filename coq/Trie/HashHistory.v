(** The tree that a history freezes to depends only on the final contents: with
    [canonical_unique] (CanonProofs.v), [wf_preserved] and the simulation invariant of
    [history_refines] (LocksProofs.v).  Hence equal hashes for every hash function. *)
From Coq Require Import NArith PeanoNat List Bool Lia Sorted.
From CB Require Import Trie.Radix.
From CB Require Import Trie.RadixProofs.
From CB Require Import Trie.PrefixMap.
From CB Require Import Trie.Locks.
From CB Require Import Trie.LocksProofs.
From CB Require Import Trie.Canon.
From CB Require Import Trie.CanonProofs.
From CB Require Import Trie.MerkleHash.
Import ListNotations.
Local Open Scope N_scope.

(** * [tmap] keeps the shape *)
Section TMap.
Context {A B : Type} (g : A -> B).

Lemma tmap_shape_f : forall f : forest A,
  flen (tmap_f g f) = flen f /\ sorted_f (tmap_f g f) = sorted_f f
  /\ forall c, all_gt c (tmap_f g f) = all_gt c f.
Proof.
  induction f as [|c t r IH]; [repeat split|]. destruct IH as (Hl & Hs & Hg).
  cbn [tmap_f flen]. rewrite Hl. split; [reflexivity|]. split.
  - rewrite !sorted_f_cons, Hs, Hg. reflexivity.
  - intros x. rewrite !all_gt_cons, Hg. reflexivity.
Qed.

Lemma wfb_tmap_mut :
  (forall t : tree A, wfb (tmap g t) = wfb t) /\ (forall f : forest A, wfb_f (tmap_f g f) = wfb_f f).
Proof.
  apply tree_forest_ind.
  - intros p ov cs IH. cbn [tmap]. rewrite !wfb_eq, IH.
    destruct (tmap_shape_f cs) as (Hl & Hs & _). rewrite Hl, Hs. destruct ov; reflexivity.
  - reflexivity.
  - intros c t IHt r IHr. cbn [tmap_f]. rewrite !wfb_f_cons, IHt, IHr. reflexivity.
Qed.

Definition on_snd (kv : list N * A) : list N * B := (fst kv, g (snd kv)).

Lemma to_list_tmap_mut :
  (forall t : tree A, to_list (tmap g t) = map on_snd (to_list t))
  /\ (forall f : forest A, to_list_f (tmap_f g f) = map on_snd (to_list_f f)).
Proof.
  apply tree_forest_ind.
  - intros p ov cs IH. cbn [tmap]. rewrite !to_list_eq, IH, map_map, map_app, map_map.
    f_equal. destruct ov; reflexivity.
  - reflexivity.
  - intros c t IHt r IHr. cbn [tmap_f]. rewrite !to_list_f_cons, IHt, IHr, map_app, !map_map. reflexivity.
Qed.

End TMap.

(** * The tree a history freezes to *)

Definition dflt (ov : option value) : value := match ov with Some v => v | None => [] end.

(** Freezing resolves the entry identifiers of the current generation. *)
Definition frozen (g : gen) : option (tree value) :=
  option_map (tmap (fun e => dflt (ent_get (g_ents g) e))) (g_root g).

Definition final_gen (ops : list op) : gen := hd empty_gen (m_exec ops m_init).

(** Contents of the current generation after the history: byte-string keys with values,
    in key order (this is what [OFreeze] shows). *)
Definition final_contents (ops : list op) : list (list N * option value) := m_dump (final_gen ops).

Lemma frozen_spec ops :
  wfb_root (frozen (final_gen ops)) = true
  /\ to_list_root (frozen (final_gen ops))
     = map (fun kv => (nib (fst kv), dflt (snd kv))) (final_contents ops).
Proof.
  unfold final_contents, final_gen.
  pose proof (exec_refines ops m_init s_init RS_init) as H.
  destruct (m_exec ops m_init) as [|g rest].
  - cbn. split; reflexivity.
  - inversion H as [|g0 s0 m0 s1 HR _]; subst. cbn [hd].
    pose proof (R_wf _ _ HR) as Hwf. pose proof (R_map _ _ HR) as Hmap.
    unfold frozen, m_dump. destruct (g_root g) as [t|]; cbn [option_map wfb_root to_list_root] in *.
    + split; [rewrite (proj1 (wfb_tmap_mut _)); exact Hwf|].
      rewrite (proj1 (to_list_tmap_mut _)), Hmap. unfold mapk. rewrite !map_map.
      apply map_ext. intros [k e]. unfold on_snd. cbn [fst snd]. rewrite unnib_nib. reflexivity.
    + split; reflexivity.
Qed.

Theorem frozen_history_independent ops1 ops2 :
  final_contents ops1 = final_contents ops2 -> frozen (final_gen ops1) = frozen (final_gen ops2).
Proof.
  intros E. destruct (frozen_spec ops1) as [W1 L1]. destruct (frozen_spec ops2) as [W2 L2].
  apply canonical_unique_root; try assumption. rewrite L1, L2, E. reflexivity.
Qed.

Theorem hash_history_independent_all (sha256 : list N -> list N) ops1 ops2 :
  final_contents ops1 = final_contents ops2 ->
  hash_root sha256 (frozen (final_gen ops1)) = hash_root sha256 (frozen (final_gen ops2)).
Proof. intros E. rewrite (frozen_history_independent _ _ E). reflexivity. Qed.

Theorem frozen_wf ops : wfb_root (frozen (final_gen ops)) = true.
Proof. apply frozen_spec. Qed.
