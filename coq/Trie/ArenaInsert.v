(** * Trie/ArenaInsert.v — [MutableTrie::insert] on the arena refines [Radix.insert]

    Gap (b) of C03, first part: the commutation of the MUTATING operation [insert] of the
    arena model ([Arena.ar_insert]: the four [follow_stem] cases, the copying [make_owned]
    walk, parent relinking, [set_entry_value] on an existing key) with the abstraction
    relation of [ArenaSep.v].

    Invariant [Sep a]: the current root unfolds to a finite, well-formed radix tree [t] of
    entry indices with a duplicate-free node footprint, and the entries of [t] are
    separated ([ESep]): pairwise distinct, in range, pointing into the value vector, and a
    value slot owned by a [Mutable] entry of the tree is not referenced by any other entry
    of the tree.  (The last clause is what makes the in-place [set_value] of
    [set_entry_value] invisible to the other keys; entries OUTSIDE the current tree - e.g.
    the originals of migrated entries in older generations - may alias, and do.) *)
From Coq Require Import NArith PeanoNat List Bool Lia Permutation.
From CB Require Import Trie.Radix.
From CB Require Import Trie.RadixProofs.
From CB Require Import Trie.Locks.
From CB Require Import Trie.LocksProofs.
From CB Require Import Trie.Arena.
From CB Require Import Trie.ArenaProofs.
From CB Require Import Trie.ArenaCow.
From CB Require Import Trie.ArenaTree.
From CB Require Import Trie.ArenaView.
From CB Require Import Trie.ArenaSep.
Import ListNotations.
Local Open Scope nat_scope.

(** * Small helpers *)

Lemma nth_error_set_nth {A} i (x : A) l j :
  nth_error (set_nth i x l) j =
  if Nat.eqb i j then (if Nat.ltb i (length l) then Some x else nth_error l j) else nth_error l j.
Proof.
  revert i j. induction l as [|y l IH]; intros i j.
  - destruct i, j; cbn; try reflexivity. destruct (Nat.eqb i j); reflexivity.
  - destruct i as [|i], j as [|j]; cbn [set_nth nth_error Nat.eqb length]; try reflexivity.
    rewrite IH. change (Nat.ltb (S i) (S (length l))) with (Nat.ltb i (length l)). reflexivity.
Qed.

Lemma with_entry_frame a a' x :
  edat a' x = edat a x ->
  (forall i, eptr (edat a x) = Some i -> nth_error (a_values a') i = nth_error (a_values a) i) ->
  a_with_entry a' x = a_with_entry a x.
Proof.
  intros E H. rewrite !with_entry_edat, E. destruct (eptr (edat a x)) as [i|]; [apply H; reflexivity | reflexivity].
Qed.

Lemma cur_root_set_root a r : a_gens a <> [] -> cur_root (set_root a r) = r.
Proof.
  intros Hne. destruct (set_root_shape a r Hne) as (older & g & _ & E & _).
  unfold cur_root. rewrite E, rev_app_distr. reflexivity.
Qed.

Lemma cur_root_gens a r : cur_root a = Some r -> a_gens a <> [].
Proof. unfold cur_root. intros H E. rewrite E in H. discriminate. Qed.

Lemma cur_root_same_gens a a' : a_gens a' = a_gens a -> cur_root a' = cur_root a.
Proof. unfold cur_root. intros ->. reflexivity. Qed.

Lemma follow_stem_refl k : follow_stem k k = FEqual.
Proof.
  induction k as [|c k IH]; [reflexivity|]. cbn [follow_stem]. rewrite N.eqb_refl, IH. reflexivity.
Qed.

Lemma wfb_node' {V} p (ov : option V) cs :
  wfb (Node p ov cs) = wfb_f cs && sorted_f cs && match ov with Some _ => true | None => Nat.leb 2 (flen cs) end.
Proof. reflexivity. Qed.
Lemma wfb_f_cons' {V} c (t : tree V) r : wfb_f (FCons c t r) = wfb t && wfb_f r.
Proof. reflexivity. Qed.

Lemma wfb_tmap_mut {A B} (g : A -> B) :
  (forall t, wfb (tmap g t) = wfb t)
  /\ (forall f, wfb_f (tmap_f g f) = wfb_f f /\ sorted_f (tmap_f g f) = sorted_f f
                /\ flen (tmap_f g f) = flen f /\ forall c, all_gt c (tmap_f g f) = all_gt c f).
Proof.
  apply tree_forest_ind.
  - intros p ov f (H1 & H2 & H3 & _). cbn [tmap]. rewrite !wfb_node', H1, H2, H3. destruct ov; reflexivity.
  - repeat split; reflexivity.
  - intros c t Ht f (H1 & H2 & H3 & H4). cbn [tmap_f]. rewrite !wfb_f_cons', Ht, H1.
    split; [reflexivity|]. split; [cbn [sorted_f]; rewrite H2, H4; reflexivity|].
    split; [cbn [flen]; rewrite H3; reflexivity|]. intros c0. cbn [all_gt]. rewrite H4. reflexivity.
Qed.

Lemma wfb_tmap {A B} (g : A -> B) t : wfb (tmap g t) = wfb t.
Proof. apply (proj1 (wfb_tmap_mut g)). Qed.

(** * Separation of the entries of a tree *)

Definition ESep (a : arena) (l : list nat) : Prop :=
  NoDup l /\ Forall (fun e => e < length (a_entries a)) l
  /\ (forall x i, In x l -> eptr (edat a x) = Some i -> i < length (a_values a))
  /\ (forall x y i, In x l -> In y l -> x <> y -> edat a x = EMutable i -> eptr (edat a y) <> Some i).

Lemma ESep_perm a l l' : Permutation l l' -> ESep a l -> ESep a l'.
Proof.
  intros P (H1 & H2 & H3 & H4). pose proof (Permutation_sym P) as P'.
  split; [eapply Permutation_NoDup; eauto|]. split; [eapply Permutation_Forall; eauto|].
  split; [intros x i Hx; apply H3; eapply Permutation_in; eauto|].
  intros x y i Hx Hy. apply H4; eapply Permutation_in; eauto.
Qed.

Lemma ESep_ren a A ll ll1 :
  ESep a ll -> Forall2 (eren a A) ll ll1 -> NoDup ll1 ->
  (forall e, e < length (a_entries a) -> edat A e = edat a e) ->
  length (a_entries a) <= length (a_entries A) -> a_values A = a_values a ->
  ESep A ll1.
Proof.
  intros (H1 & H2 & H3 & H4) F ND Hed Hle Hv.
  assert (Src : forall q y, nth_error ll1 q = Some y -> exists x, nth_error ll q = Some x /\ In x ll /\ eren a A x y).
  { intros q y Hq. pose proof (Forall2_nth_error _ _ _ q F) as Z. rewrite Hq in Z.
    destruct (nth_error ll q) as [x|] eqn:Hx; [|contradiction]. exists x. split; [reflexivity|]. split; [eapply nth_error_In; eauto | exact Z]. }
  assert (Hlt : forall x, In x ll -> x < length (a_entries a)) by (rewrite Forall_forall in H2; exact H2).
  split; [exact ND|]. split; [eapply eren_bound; eauto|]. split.
  - intros y i Hy Hp. destruct (In_nth_error _ _ Hy) as (q & Hq). destruct (Src q y Hq) as (x & _ & Hx & [->|(_ & E)]).
    + rewrite Hv. apply (H3 x i Hx). rewrite <- Hed by (apply Hlt; exact Hx). exact Hp.
    + rewrite Hv. apply (H3 x i Hx). rewrite E, eptr_ro in Hp. exact Hp.
  - intros x y i Hx Hy Hne Hm. destruct (In_nth_error _ _ Hx) as (p & Hp). destruct (In_nth_error _ _ Hy) as (q & Hq).
    destruct (Src p x Hp) as (sx & Hsx & Isx & [->|(_ & E)]); [|rewrite E in Hm; exfalso; exact (ro_not_mut _ _ Hm)].
    destruct (Src q y Hq) as (sy & Hsy & Isy & Ry).
    assert (Hd : sx <> sy).
    { intros ->. assert (p = q); [|subst q; congruence].
      apply (proj1 (NoDup_nth_error ll) H1); [apply nth_error_Some; congruence | congruence]. }
    rewrite Hed in Hm by (apply Hlt; exact Isx).
    destruct Ry as [->|(_ & E)].
    + rewrite Hed by (apply Hlt; exact Isy). apply (H4 sx sy i); assumption.
    + rewrite E, eptr_ro. apply (H4 sx sy i); assumption.
Qed.

(** [new_entry]: a fresh [Mutable] entry with a fresh value. *)
Lemma new_entry_sep a v l :
  ESep a l ->
  let a1 := fst (new_entry a v) in
  snd (new_entry a v) = length (a_entries a)
  /\ ESep a1 (length (a_entries a) :: l) /\ a_with_entry a1 (length (a_entries a)) = Some v
  /\ (forall x, In x l -> edat a1 x = edat a x /\ a_with_entry a1 x = a_with_entry a x)
  /\ a_nodes a1 = a_nodes a /\ a_gens a1 = a_gens a
  /\ length (a_entries a1) = S (length (a_entries a)).
Proof.
  intros (H1 & H2 & H3 & H4). cbn [new_entry fst snd].
  set (Lv := length (a_values a)).
  set (a1 := push_entry (push_value a v) (EMutable Lv)).
  assert (Hlt : forall x, In x l -> x < (length (a_entries a))) by (rewrite Forall_forall in H2; exact H2).
  assert (Eold : forall x, x < (length (a_entries a)) -> edat a1 x = edat a x).
  { intros x Hx. unfold edat, a1. cbn [push_entry push_value a_entries]. rewrite app_nth1 by exact Hx. reflexivity. }
  assert (Enew : edat a1 (length (a_entries a)) = EMutable Lv).
  { unfold edat, a1. cbn [push_entry push_value a_entries]. rewrite app_nth2, Nat.sub_diag by lia. reflexivity. }
  assert (Lv1 : length (a_values a1) = S Lv) by (unfold a1; cbn [push_entry push_value a_values]; rewrite app_length; cbn; unfold Lv; lia).
  split; [reflexivity|]. split.
  { split; [constructor; [intros X; specialize (Hlt _ X); lia | exact H1]|].
    split; [constructor; [unfold a1; cbn [push_entry push_value a_entries]; rewrite app_length; cbn [length]; lia|]|].
    { eapply Forall_impl; [|exact H2]. cbn beta. intros x Hx. unfold a1. cbn [push_entry push_value a_entries]. rewrite app_length. lia. }
    split.
    - intros x i [<-|Hx] Hp.
      + rewrite Enew in Hp. inversion Hp. lia.
      + rewrite Eold in Hp by (apply Hlt; exact Hx). pose proof (H3 x i Hx Hp). fold Lv in H. lia.
    - intros x y i [<-|Hx] [<-|Hy] Hne Hm; [congruence| | |].
      + rewrite Enew in Hm. inversion Hm; subst i. rewrite Eold by (apply Hlt; exact Hy). intros Hp.
        pose proof (H3 y Lv Hy Hp). fold Lv in H. lia.
      + rewrite Eold in Hm by (apply Hlt; exact Hx). rewrite Enew. cbn [eptr]. intros Hp. inversion Hp; subst i.
        assert (eptr (edat a x) = Some Lv) by (rewrite Hm; reflexivity). pose proof (H3 x Lv Hx H). fold Lv in H0. lia.
      + rewrite Eold in Hm by (apply Hlt; exact Hx). rewrite Eold by (apply Hlt; exact Hy). apply (H4 x y i); assumption. }
  split.
  { rewrite with_entry_edat, Enew. cbn [eptr]. unfold a1. cbn [push_entry push_value a_values].
    rewrite nth_error_app2, Nat.sub_diag by (fold Lv; lia). reflexivity. }
  split.
  { intros x Hx. split; [apply Eold, Hlt, Hx|]. apply with_entry_frame; [apply Eold, Hlt, Hx|].
    intros i Hp. unfold a1. cbn [push_entry push_value a_values]. rewrite nth_error_app1; [reflexivity | apply (H3 x i Hx Hp)]. }
  split; [reflexivity|]. split; [reflexivity|]. unfold a1. cbn [push_entry push_value a_entries]. rewrite app_length. cbn [length]. lia.
Qed.

(** [set_entry_value] on an entry of a separated list: only that entry changes. *)
Lemma sev_spec a e0 v l :
  ESep a (e0 :: l) ->
  let a' := a_set_entry_value a e0 v in
  a_with_entry a' e0 = Some v
  /\ (forall x, In x l -> edat a' x = edat a x /\ a_with_entry a' x = a_with_entry a x)
  /\ ESep a' (e0 :: l) /\ a_nodes a' = a_nodes a /\ a_gens a' = a_gens a
  /\ length (a_entries a') = length (a_entries a).
Proof.
  intros (H1 & H2 & H3 & H4). cbn zeta. unfold a_set_entry_value. fold (edat a e0).
  apply NoDup_cons_iff in H1. destruct H1 as (Ni & Nd). pose proof (Forall_inv H2) as He0. cbn beta in He0.
  assert (Hne : forall x, In x l -> x <> e0) by (intros x Hx ->; exact (Ni Hx)).
  destruct (edat a e0) as [i|i|] eqn:E0.
  2:{ (* Mutable: overwrite in place *)
    assert (Hi : i < length (a_values a)) by (apply (H3 e0 i (or_introl eq_refl)); rewrite E0; reflexivity).
    assert (Ed : forall x, edat (set_value a i v) x = edat a x) by reflexivity.
    split. { rewrite with_entry_edat, Ed, E0. cbn [eptr set_value a_values]. rewrite nth_error_set_nth, Nat.eqb_refl.
             destruct (Nat.ltb_spec i (length (a_values a))); [reflexivity | lia]. }
    split. { intros x Hx. split; [reflexivity|]. apply with_entry_frame; [reflexivity|]. intros j Hp.
             cbn [set_value a_values]. rewrite nth_error_set_nth. destruct (Nat.eqb_spec i j) as [->|]; [|reflexivity].
             exfalso. apply (H4 e0 x j (or_introl eq_refl) (or_intror Hx)); auto. intros ->. exact (Ni Hx). }
    split. { split; [constructor; assumption|]. split; [exact H2|]. split.
             - intros x j Hx Hp. cbn [set_value a_values]. rewrite set_nth_length. apply (H3 x j Hx Hp).
             - intros x y j Hx Hy Hn Hm. apply (H4 x y j); assumption. }
    split; [reflexivity|]. split; reflexivity. }
  all: (* ReadOnly / Deleted: push the value, repoint the entry *)
    set (Lv := length (a_values a)); set (a' := set_entry (push_value a v) e0 (EMutable Lv));
    assert (Ed : forall x, edat a' x = if Nat.eqb e0 x then EMutable Lv else edat a x)
      by (intros x; unfold edat, a'; cbn [set_entry push_value a_entries]; rewrite nth_set_nth;
          destruct (Nat.eqb e0 x); [destruct (Nat.ltb_spec e0 (length (a_entries a))); [reflexivity | lia] | reflexivity]);
    assert (Vl : forall j, j < Lv -> nth_error (a_values a') j = nth_error (a_values a) j)
      by (intros j Hj; unfold a'; cbn [set_entry push_value a_values]; rewrite nth_error_app1 by exact Hj; reflexivity);
    (split; [rewrite with_entry_edat, Ed, Nat.eqb_refl; cbn [eptr]; unfold a'; cbn [set_entry push_value a_values];
             rewrite nth_error_app2, Nat.sub_diag by (fold Lv; lia); reflexivity|]);
    (split; [intros x Hx; assert (Ex : edat a' x = edat a x)
               by (rewrite Ed; destruct (Nat.eqb_spec e0 x) as [->|]; [exfalso; exact (Ni Hx) | reflexivity]);
             split; [exact Ex|]; apply with_entry_frame; [exact Ex|]; intros j Hp; apply Vl; apply (H3 x j (or_intror Hx) Hp)|]);
    (split; [|split; [reflexivity|]; split; [reflexivity|]; unfold a'; cbn [set_entry a_entries]; apply set_nth_length]);
    (split; [constructor; assumption|]);
    (split; [eapply Forall_impl; [|exact H2]; cbn beta; intros x Hx; unfold a'; cbn [set_entry a_entries]; rewrite set_nth_length; exact Hx|]);
    assert (Lv' : length (a_values a') = S Lv) by (unfold a'; cbn [set_entry push_value a_values]; rewrite app_length; cbn; fold Lv; lia);
    (split;
     [intros x j Hx Hp; rewrite Ed in Hp; rewrite Lv'; destruct (Nat.eqb_spec e0 x) as [->|Hn];
      [inversion Hp; lia | pose proof (H3 x j Hx Hp); fold Lv in H; lia]
     |intros x y j Hx Hy Hn Hm; rewrite Ed in Hm; rewrite Ed;
      destruct (Nat.eqb_spec e0 x) as [<-|Hnx]; destruct (Nat.eqb_spec e0 y) as [<-|Hny]; [congruence| | |apply (H4 x y j); assumption];
      [inversion Hm; subst j; intros Hp; pose proof (H3 y Lv Hy Hp); fold Lv in H; lia
      |cbn [eptr]; intros Hp; inversion Hp; subst j;
       assert (Q : eptr (edat a x) = Some Lv) by (rewrite Hm; reflexivity); pose proof (H3 x Lv Hx Q); fold Lv in H; lia]]).
Qed.

(** * Finding / adding a child in a separated forest *)

Lemma all_gt_found a c c' : forall (f : forest nat) ch fp p0 r,
  TrF a ch f fp -> find_child c ch p0 = Some r -> all_gt c' f = true -> (c' < c)%N.
Proof.
  induction f as [|c0 t r0 IH]; intros ch fp p0 r HT Hf Hg.
  - destruct HT as (-> & _). discriminate.
  - destruct HT as (i & ch' & fp1 & fp2 & -> & -> & _ & Hr). cbn [find_child] in Hf. cbn [all_gt] in Hg.
    apply andb_true_iff in Hg. destruct Hg as (G1 & G2). destruct (N.eqb_spec c c0) as [->|].
    + apply N.ltb_lt. exact G1.
    + eapply IH; eauto.
Qed.

Lemma TrF_find a c : forall f ch fp p0 pos i,
  TrF a ch f fp -> sorted_f f = true -> find_child c ch p0 = Some (pos, i) ->
  p0 <= pos /\
  exists ti fpi rest erest,
    Tr a i ti fpi /\ Permutation fp (fpi ++ rest) /\ Permutation (fentries f) (tentries ti ++ erest)
    /\ set_child_index (pos - p0) i ch = ch
    /\ (forall (B : Type) (g : nat -> B) k, lookup_f c k (tmap_f g f) = lookup k (tmap g ti))
    /\ (wfb_f f = true -> wfb ti = true)
    /\ forall a' i' t' fp', Tr a' i' t' fp' -> (forall j, In j rest -> node_at a' j = node_at a j) ->
         exists f' fp'', TrF a' (set_child_index (pos - p0) i' ch) f' fp''
           /\ Permutation fp'' (fp' ++ rest) /\ Permutation (fentries f') (tentries t' ++ erest)
           /\ (forall (B : Type) (g g' : nat -> B) k v, tmap g' t' = insert k v (tmap g ti) ->
                (forall e, In e erest -> g' e = g e) -> tmap_f g' f' = insert_f c k v (tmap_f g f))
           /\ (forall (B : Type) (g g' : nat -> B), tmap g' t' = tmap g ti ->
                (forall e, In e erest -> g' e = g e) -> tmap_f g' f' = tmap_f g f).
Proof.
  induction f as [|c' t r IH]; intros ch fp p0 pos i HT Hs Hf.
  - destruct HT as (-> & _). discriminate.
  - destruct HT as (i0 & ch' & fp1 & fp2 & -> & -> & Ht & Hr). cbn [find_child] in Hf. cbn [sorted_f] in Hs.
    apply andb_true_iff in Hs. destruct Hs as (S1 & S2).
    destruct (N.eqb_spec c c') as [<-|Hne].
    + inversion Hf; subst pos i0. split; [lia|]. exists t, fp1, fp2, (fentries r). rewrite Nat.sub_diag.
      split; [exact Ht|]. split; [apply Permutation_refl|]. split; [apply Permutation_refl|]. split; [reflexivity|].
      split; [intros B g k; cbn [tmap_f]; rewrite lookup_f_cons, N.eqb_refl; reflexivity|].
      split; [cbn [wfb_f]; intros X; apply andb_true_iff in X; apply X|].
      intros a' i' t' fp' Ht' Hfr. exists (FCons c t' r), (fp' ++ fp2).
      split; [cbn [set_child_index TrF]; exists i', ch', fp', fp2; repeat split; auto; apply (TrF_frame a a'); assumption|].
      split; [apply Permutation_refl|]. split; [apply Permutation_refl|].
      split.
      * intros B g g' k v Hins Hg. cbn [tmap_f insert_f]. rewrite N.eqb_refl, Hins. f_equal.
        apply (proj2 (tmap_ext_mut g' g)). exact Hg.
      * intros B g g' Heq Hg. cbn [tmap_f]. rewrite Heq. f_equal. apply (proj2 (tmap_ext_mut g' g)). exact Hg.
    + destruct (IH ch' fp2 (S p0) pos i Hr S2 Hf) as (Hle & ti & fpi & rest & erest & T1 & P1 & P2 & SC & LK & WF & K).
      split; [lia|]. exists ti, fpi, (fp1 ++ rest), (tentries t ++ erest).
      assert (Epos : pos - p0 = S (pos - S p0)) by lia. rewrite Epos.
      split; [exact T1|].
      split; [rewrite P1; apply Permutation_app_swap_app|].
      split; [cbn [fentries]; rewrite P2; apply Permutation_app_swap_app|].
      split; [cbn [set_child_index]; f_equal; exact SC|].
      split; [intros B g k; cbn [tmap_f]; rewrite lookup_f_cons; destruct (N.eqb_spec c c'); [contradiction | apply LK]|].
      split; [cbn [wfb_f]; intros X; apply andb_true_iff in X; apply WF, X|].
      intros a' i' t' fp' Ht' Hfr.
      destruct (K a' i' t' fp' Ht') as (f' & fp'' & T2 & Q1 & Q2 & Q3 & Q4).
      { intros j Hj. apply Hfr. apply in_or_app. right. exact Hj. }
      exists (FCons c' t f'), (fp1 ++ fp'').
      split. { cbn [set_child_index TrF]. exists i0, (set_child_index (pos - S p0) i' ch'), fp1, fp''.
               repeat split; auto. apply (Tr_frame a a'); [exact Ht|]. intros j Hj. apply Hfr. apply in_or_app. left. exact Hj. }
      split; [rewrite Q1; apply Permutation_app_swap_app|].
      split; [cbn [fentries]; rewrite Q2; apply Permutation_app_swap_app|].
      split.
      { intros B g g' k v Hins Hg. cbn [tmap_f insert_f]. destruct (N.eqb_spec c c'); [contradiction|].
        pose proof (all_gt_found a c c' r ch' fp2 (S p0) (pos, i) Hr Hf S1) as Hlt.
        destruct (N.ltb_spec c c'); [lia|]. f_equal.
        * apply (proj1 (tmap_ext_mut g' g)). intros e He. apply Hg. apply in_or_app. left. exact He.
        * apply (Q3 B g g' k v Hins). intros e He. apply Hg. apply in_or_app. right. exact He. }
      intros B g g' Heq Hg. cbn [tmap_f]. f_equal.
      * apply (proj1 (tmap_ext_mut g' g)). intros e He. apply Hg. apply in_or_app. left. exact He.
      * apply (Q4 B g g' Heq). intros e He. apply Hg. apply in_or_app. right. exact He.
Qed.

Lemma TrF_add a a' c ni tl : forall f ch fp p0,
  TrF a ch f fp -> find_child c ch p0 = None ->
  (forall j, In j fp -> node_at a' j = node_at a j) ->
  Tr a' ni tl [ni] ->
  exists f' fp', TrF a' (insert_child c ni ch) f' fp' /\ Permutation fp' (ni :: fp)
    /\ Permutation (fentries f') (tentries tl ++ fentries f)
    /\ (forall (B : Type) (g g' : nat -> B) k v, tmap g' tl = Node k (Some v) FNil ->
          (forall e, In e (fentries f) -> g' e = g e) -> tmap_f g' f' = insert_f c k v (tmap_f g f))
    /\ (forall (B : Type) (g : nat -> B) k, lookup_f c k (tmap_f g f) = None).
Proof.
  induction f as [|c' t r IH]; intros ch fp p0 HT Hf Hfr Hl.
  - destruct HT as (-> & ->). exists (FCons c tl FNil), ([ni] ++ []).
    split; [cbn [insert_child TrF]; exists ni, [], [ni], []; repeat split; auto|].
    split; [apply Permutation_refl|]. split; [cbn [fentries]; apply Permutation_refl|].
    split; [intros B g g' k v E _; cbn [tmap_f insert_f]; rewrite E; reflexivity | reflexivity].
  - destruct HT as (i0 & ch' & fp1 & fp2 & -> & -> & Ht & Hr). cbn [find_child] in Hf.
    destruct (N.eqb_spec c c') as [|Hne]; [discriminate|]. cbn [insert_child].
    destruct (N.ltb_spec c c') as [Hlt|Hge].
    + exists (FCons c tl (FCons c' t r)), ([ni] ++ (fp1 ++ fp2)).
      split. { cbn [TrF]. exists ni, ((c', i0) :: ch'), [ni], (fp1 ++ fp2). repeat split; auto.
               exists i0, ch', fp1, fp2. repeat split; auto.
               - apply (Tr_frame a a'); [exact Ht|]. intros j Hj. apply Hfr. apply in_or_app. left. exact Hj.
               - apply (TrF_frame a a'); [exact Hr|]. intros j Hj. apply Hfr. apply in_or_app. right. exact Hj. }
      split; [apply Permutation_refl|]. split; [cbn [fentries]; apply Permutation_refl|].
      split.
      * intros B g g' k v E Hg. cbn [tmap_f insert_f]. destruct (N.eqb_spec c c'); [contradiction|].
        destruct (N.ltb_spec c c'); [|lia]. rewrite E. f_equal. f_equal.
        -- apply (proj1 (tmap_ext_mut g' g)). intros e He. apply Hg. cbn [fentries]. apply in_or_app. left. exact He.
        -- apply (proj2 (tmap_ext_mut g' g)). intros e He. apply Hg. cbn [fentries]. apply in_or_app. right. exact He.
      * intros B g k. cbn [tmap_f]. rewrite lookup_f_cons. destruct (N.eqb_spec c c'); [contradiction|].
        destruct (IH ch' fp2 (S p0) Hr Hf) as (_ & _ & _ & _ & _ & _ & X); auto.
        intros j Hj. apply Hfr. apply in_or_app. right. exact Hj.
    + destruct (IH ch' fp2 (S p0) Hr Hf) as (f' & fp' & T1 & P1 & P2 & V1 & L1); auto.
      { intros j Hj. apply Hfr. apply in_or_app. right. exact Hj. }
      exists (FCons c' t f'), (fp1 ++ fp').
      split. { cbn [TrF]. exists i0, (insert_child c ni ch'), fp1, fp'. repeat split; auto.
               apply (Tr_frame a a'); [exact Ht|]. intros j Hj. apply Hfr. apply in_or_app. left. exact Hj. }
      split; [rewrite P1; symmetry; apply Permutation_middle|].
      split; [cbn [fentries]; rewrite P2; apply Permutation_app_swap_app|].
      split.
      * intros B g g' k v E Hg. cbn [tmap_f insert_f]. destruct (N.eqb_spec c c'); [contradiction|].
        destruct (N.ltb_spec c c'); [lia|]. f_equal.
        -- apply (proj1 (tmap_ext_mut g' g)). intros e He. apply Hg. cbn [fentries]. apply in_or_app. left. exact He.
        -- apply (V1 B g g' k v E). intros e He. apply Hg. cbn [fentries]. apply in_or_app. right. exact He.
      * intros B g k. cbn [tmap_f]. rewrite lookup_f_cons. destruct (N.eqb_spec c c'); [contradiction | apply L1].
Qed.

(** * The insert loop *)

Definition parent_ok (a : arena) (parent : option (nat * nat)) (idx : nat) (fp : list nat) : Prop :=
  match parent with
  | Some (pidx, _) => pidx < length (a_nodes a) /\ ~ In pidx fp
  | None => cur_root a = Some idx
  end.
Definition not_parent (parent : option (nat * nat)) (j : nat) : Prop :=
  match parent with Some (pidx, _) => j <> pidx | None => True end.
Definition plink (a a' : arena) (parent : option (nat * nat)) (idx idx' : nat) : Prop :=
  match parent with
  | Some (pidx, pos) =>
      a_gens a' = a_gens a /\
      node_at a' pidx = (if Nat.eqb idx' idx then node_at a pidx
                         else with_children (node_at a pidx) (set_child_index pos idx' (an_ch (node_at a pidx))))
  | None => cur_root a' = Some idx'
  end.
Definition is_some {A} (o : option A) : bool := match o with Some _ => true | None => false end.

Definition InsPost (a : arena) (parent : option (nat * nat)) (idx : nat) (k : list N) (v : value)
           (t : tree nat) (fp R : list nat) (res : arena * nat * bool) : Prop :=
  let '(a', e, existed) := res in
  exists idx' t' fp',
    Tr a' idx' t' fp' /\ NoDup fp' /\ Forall (fun j => j < length (a_nodes a')) fp'
    /\ (forall j, In j fp' -> In j fp \/ length (a_nodes a) <= j)
    /\ length (a_nodes a) <= length (a_nodes a')
    /\ (forall j, j < length (a_nodes a) -> ~ In j fp -> not_parent parent j -> node_at a' j = node_at a j)
    /\ plink a a' parent idx idx'
    /\ tmap (a_with_entry a') t' = insert k (Some v) (tmap (a_with_entry a) t)
    /\ ESep a' (tentries t' ++ R)
    /\ (forall x, In x R -> edat a' x = edat a x /\ a_with_entry a' x = a_with_entry a x)
    /\ a_with_entry a' e = Some v
    /\ existed = is_some (lookup k (tmap (a_with_entry a) t)).

Lemma insert_node {V} k (v : V) p ov cs :
  insert k v (Node p ov cs) =
  match follow_stem k p with
  | FEqual => Node p (Some v) cs
  | FKeyIsPrefix s ps => Node k (Some v) (FCons s (Node ps ov cs) FNil)
  | FStemIsPrefix c k' => Node p ov (insert_f c k' v cs)
  | FDiff cm kc kr sc sr =>
      Node cm None (if (kc <? sc)%N then FCons kc (Node kr (Some v) FNil) (FCons sc (Node sr ov cs) FNil)
                    else FCons sc (Node sr ov cs) (FCons kc (Node kr (Some v) FNil) FNil))
  end.
Proof. reflexivity. Qed.

Lemma same_ev a a' :
  a_entries a' = a_entries a -> a_values a' = a_values a ->
  (forall x, edat a' x = edat a x /\ a_with_entry a' x = a_with_entry a x)
  /\ (forall l, ESep a l -> ESep a' l).
Proof.
  intros E V. assert (D : forall x, edat a' x = edat a x) by (intros x; unfold edat; rewrite E; reflexivity).
  split; [intros x; split; [apply D | unfold a_with_entry; rewrite E, V; reflexivity]|].
  intros l (H1 & H2 & H3 & H4). split; [exact H1|]. split; [rewrite E; exact H2|].
  split; [intros x i; rewrite D, V; apply H3 | intros x y i; rewrite !D; apply H4].
Qed.

Lemma relink_spec b parent ni :
  match parent with Some (pidx, _) => pidx < length (a_nodes b) | None => a_gens b <> [] end ->
  let b' := relink b parent ni in
  length (a_nodes b') = length (a_nodes b) /\ a_entries b' = a_entries b /\ a_values b' = a_values b
  /\ (forall j, not_parent parent j -> node_at b' j = node_at b j)
  /\ match parent with
     | Some (pidx, pos) => a_gens b' = a_gens b
         /\ node_at b' pidx = with_children (node_at b pidx) (set_child_index pos ni (an_ch (node_at b pidx)))
     | None => cur_root b' = Some ni
     end.
Proof.
  destruct parent as [[pidx pos]|]; cbn [relink not_parent]; intros H.
  - cbn [set_node a_nodes a_entries a_values a_gens]. rewrite set_nth_length.
    split; [reflexivity|]. split; [reflexivity|]. split; [reflexivity|].
    split; [intros j Hj; rewrite node_at_set_node; destruct (Nat.eqb_spec pidx j); [congruence | reflexivity]|].
    split; [reflexivity|]. rewrite node_at_set_node, Nat.eqb_refl.
    destruct (Nat.ltb_spec pidx (length (a_nodes b))); [reflexivity | lia].
  - destruct (set_root_shape b (Some ni) H) as (older & g & _ & _ & En & Ev & Ee).
    split; [rewrite En; reflexivity|]. split; [exact Ee|]. split; [exact Ev|].
    split; [intros j _; apply node_at_same_nodes; exact En | apply cur_root_set_root; exact H].
Qed.

Lemma parent_ok_gens a parent idx fp (b : arena) :
  parent_ok a parent idx fp -> a_gens b = a_gens a -> length (a_nodes a) <= length (a_nodes b) ->
  match parent with Some (pidx, _) => pidx < length (a_nodes b) | None => a_gens b <> [] end.
Proof.
  destruct parent as [[pidx pos]|]; cbn [parent_ok]; [intros (H & _) _ L; lia|].
  intros H E _. rewrite E. eapply cur_root_gens; eauto.
Qed.

(** [Equal]: the key has a node. *)
Lemma ins_equal a idx parent k v p ov cs fp R :
  Tr a idx (Node p ov cs) fp -> NoDup fp -> Forall (fun j => j < length (a_nodes a)) fp ->
  ESep a (tentries (Node p ov cs) ++ R) -> parent_ok a parent idx fp ->
  follow_stem k p = FEqual ->
  InsPost a parent idx k v (Node p ov cs) fp R
    (match ov with
     | Some e0 => (a_set_entry_value a e0 v, e0, true)
     | None => let (a1, e) := new_entry a v in (set_node a1 idx (with_val (node_at a idx) (Some e)), e, false)
     end).
Proof.
  intros HT Hnd Hb HS HP HF. pose proof HT as (Ep & Ev & fp0 & Efp & HTF). destruct ov as [e0|].
  - cbn [tentries app] in HS. destruct (sev_spec a e0 v (fentries cs ++ R) HS) as (W0 & Wr & S' & En & Eg & _).
    set (a' := a_set_entry_value a e0 v) in *. cbn [InsPost].
    assert (Nd : forall j, node_at a' j = node_at a j) by (intros j; apply node_at_same_nodes; exact En).
    exists idx, (Node p (Some e0) cs), fp.
    split; [apply (Tr_frame a a'); [exact HT | intros; apply Nd]|]. split; [exact Hnd|].
    split; [rewrite En; exact Hb|]. split; [auto|]. split; [rewrite En; lia|]. split; [intros; apply Nd|].
    split. { destruct parent as [[pidx pos]|]; cbn [plink parent_ok] in *; [rewrite Nat.eqb_refl; auto|].
             rewrite (cur_root_same_gens a a' Eg). exact HP. }
    split. { cbn [tmap option_map]. rewrite insert_node, HF. rewrite W0. f_equal.
             apply (proj2 (tmap_ext_mut _ _)). intros e He. apply Wr. apply in_or_app. left. exact He. }
    split; [exact S'|]. split; [intros x Hx; apply Wr; apply in_or_app; right; exact Hx|].
    split; [exact W0|]. cbn [tmap]. rewrite lookup_node', HF. reflexivity.
  - cbn [tentries app] in HS. destruct (new_entry_sep a v (fentries cs ++ R) HS) as (E1 & S1 & W1 & Wr & En & Eg & Le1).
    destruct (new_entry a v) as [a1 e] eqn:NE. cbn [fst snd] in *. subst e. cbn [InsPost].
    set (Le := length (a_entries a)) in *. set (n := node_at a idx) in *.
    set (a' := set_node a1 idx (with_val n (Some Le))).
    subst fp. apply NoDup_cons_iff in Hnd. destruct Hnd as (Ni & Nd0). pose proof (Forall_inv Hb) as Hidx. cbn beta in Hidx.
    destruct (same_ev a1 a' eq_refl eq_refl) as (SE & SS).
    assert (N1 : forall j, node_at a1 j = node_at a j) by (intros j; apply node_at_same_nodes; exact En).
    assert (Nidx : node_at a' idx = with_val n (Some Le)).
    { unfold a'. rewrite node_at_set_node, Nat.eqb_refl, En. destruct (Nat.ltb_spec idx (length (a_nodes a))); [reflexivity | lia]. }
    assert (Nold : forall j, j <> idx -> node_at a' j = node_at a j).
    { intros j Hj. unfold a'. rewrite node_at_set_node. destruct (Nat.eqb_spec idx j); [congruence | apply N1]. }
    assert (Ln : length (a_nodes a') = length (a_nodes a)) by (unfold a'; cbn [set_node a_nodes]; rewrite set_nth_length, En; reflexivity).
    exists idx, (Node p (Some Le) cs), (idx :: fp0).
    split. { cbn [Tr]. rewrite Nidx. cbn [with_val an_path an_val an_ch]. split; [exact Ep|]. split; [reflexivity|].
             exists fp0. split; [reflexivity|]. apply (TrF_frame a a'); [exact HTF|]. intros j Hj. apply Nold. intros ->. exact (Ni Hj). }
    split; [constructor; assumption|]. split; [rewrite Ln; exact Hb|]. split; [auto|]. split; [lia|].
    split; [intros j _ Hj _; apply Nold; intros ->; apply Hj; left; reflexivity|].
    split. { destruct parent as [[pidx pos]|]; cbn [plink parent_ok] in *.
             - rewrite Nat.eqb_refl. split; [exact Eg|]. apply Nold. intros ->. apply (proj2 HP). left. reflexivity.
             - rewrite (cur_root_same_gens a a' Eg). exact HP. }
    split. { cbn [tmap option_map]. rewrite insert_node, HF. rewrite (proj2 (SE Le)), W1. f_equal.
             apply (proj2 (tmap_ext_mut _ _)). intros e He. rewrite (proj2 (SE e)). apply Wr. apply in_or_app. left. exact He. }
    split; [cbn [tentries app]; apply SS; exact S1|].
    split; [intros x Hx; rewrite (proj1 (SE x)), (proj2 (SE x)); apply Wr; apply in_or_app; right; exact Hx|].
    split; [rewrite (proj2 (SE Le)); exact W1|]. cbn [tmap]. rewrite lookup_node', HF. reflexivity.
Qed.

(** [KeyIsPrefix]: a new node for the key above the (shortened) node. *)
Lemma ins_keyprefix a g idx parent k v p ov cs fp R s ps :
  Tr a idx (Node p ov cs) fp -> NoDup fp -> Forall (fun j => j < length (a_nodes a)) fp ->
  ESep a (tentries (Node p ov cs) ++ R) -> parent_ok a parent idx fp ->
  follow_stem k p = FKeyIsPrefix s ps ->
  InsPost a parent idx k v (Node p ov cs) fp R
    (let (a1, e) := new_entry a v in
     let a2 := set_node a1 idx (with_path (node_at a idx) ps) in
     let new_idx := length (a_nodes a2) in
     let a3 := relink a2 parent new_idx in
     (push_node a3 (mkAN g (Some e) k g [(s, idx)]), e, false)).
Proof.
  intros HT Hnd Hb HS HP HF. pose proof HT as (Ep & Ev & fp0 & Efp & HTF).
  destruct (new_entry_sep a v _ HS) as (E1 & S1 & W1 & Wr & En & Eg & Le1).
  destruct (new_entry a v) as [a1 e] eqn:NE. cbn [fst snd] in *. subst e. cbn zeta.
  set (Le := length (a_entries a)) in *. set (n := node_at a idx) in *. set (L := length (a_nodes a)) in *.
  set (a2 := set_node a1 idx (with_path n ps)).
  assert (L2 : length (a_nodes a2) = L) by (unfold a2; cbn [set_node a_nodes]; rewrite set_nth_length, En; reflexivity).
  rewrite L2.
  assert (Hidx : idx < L) by (subst fp; exact (Forall_inv Hb)).
  assert (Hin : In idx fp) by (subst fp; left; reflexivity).
  assert (Hlt : forall j, In j fp -> j < L) by (rewrite Forall_forall in Hb; exact Hb).
  assert (PO : match parent with Some (pidx, _) => pidx < length (a_nodes a2) | None => a_gens a2 <> [] end).
  { apply (parent_ok_gens a parent idx fp a2 HP); [exact Eg | lia]. }
  destruct (relink_spec a2 parent L PO) as (L3 & Ee3 & Ev3 & Nn3 & Pl3). set (a3 := relink a2 parent L) in *.
  set (newn := mkAN g (Some Le) k g [(s, idx)]). set (a' := push_node a3 newn). cbn [InsPost].
  assert (La : length (a_nodes a') = S L) by (unfold a'; cbn [push_node a_nodes]; rewrite app_length, L3, L2; cbn; lia).
  destruct (same_ev a1 a') as (SE & SS); [exact Ee3 | exact Ev3|].
  assert (NL : node_at a' L = newn).
  { unfold a'. rewrite node_at_push, L3, L2, Nat.eqb_refl. reflexivity. }
  assert (N3 : forall j, j < L -> node_at a' j = node_at a3 j).
  { intros j Hj. unfold a'. rewrite node_at_push, L3, L2. destruct (Nat.eqb_spec j L); [lia | reflexivity]. }
  assert (Hnp : not_parent parent idx).
  { destruct parent as [[pidx pos]|]; cbn [not_parent parent_ok] in *; [|exact I]. intros ->. exact (proj2 HP Hin). }
  assert (N2 : forall j, node_at a2 j = if Nat.eqb idx j then with_path n ps else node_at a j).
  { intros j. unfold a2. rewrite node_at_set_node, En. fold L. destruct (Nat.eqb idx j) eqn:Q.
    - destruct (Nat.ltb_spec idx L); [reflexivity | lia].
    - apply node_at_same_nodes. exact En. }
  assert (Nidx : node_at a' idx = with_path n ps).
  { rewrite N3 by exact Hidx. rewrite Nn3 by exact Hnp. rewrite N2, Nat.eqb_refl. reflexivity. }
  assert (Nold : forall j, j < L -> j <> idx -> not_parent parent j -> node_at a' j = node_at a j).
  { intros j Hj Hne Hp. rewrite N3 by exact Hj. rewrite Nn3 by exact Hp. rewrite N2. destruct (Nat.eqb_spec idx j); [congruence | reflexivity]. }
  assert (Hfpnp : forall j, In j fp -> not_parent parent j).
  { intros j Hj. destruct parent as [[pidx pos]|]; cbn [not_parent parent_ok] in *; [|exact I]. intros ->. exact (proj2 HP Hj). }
  assert (Told : Tr a' idx (Node ps ov cs) fp).
  { cbn [Tr]. rewrite Nidx. cbn [with_path an_path an_val an_ch]. split; [reflexivity|]. split; [exact Ev|]. exists fp0.
    split; [exact Efp|]. apply (TrF_frame a a'); [exact HTF|]. intros j Hj.
    assert (In j fp) by (subst fp; right; exact Hj).
    apply Nold; [apply Hlt; assumption| |apply Hfpnp; assumption].
    intros ->. subst fp. apply NoDup_cons_iff in Hnd. exact (proj1 Hnd Hj). }
  exists L, (Node k (Some Le) (FCons s (Node ps ov cs) FNil)), (L :: (fp ++ [])).
  rewrite app_nil_r.
  split. { cbn [Tr]. rewrite NL. cbn [newn an_path an_val an_ch]. split; [reflexivity|]. split; [reflexivity|].
           exists (fp ++ []). split; [rewrite app_nil_r; reflexivity|]. cbn [TrF]. exists idx, [], fp, []. split; [reflexivity|]. split; [reflexivity|]. split; [exact Told|]. split; reflexivity. }
  split. { constructor; [intros X; specialize (Hlt _ X); lia | exact Hnd]. }
  split. { rewrite La. constructor; [lia|]. eapply Forall_impl; [|exact Hb]. cbn beta. intros; lia. }
  split. { intros j [<-|Hj]; [right; lia | left; exact Hj]. }
  split; [lia|].
  split. { intros j Hj Hnf Hp. apply Nold; auto. intros ->. exact (Hnf Hin). }
  split. { destruct parent as [[pidx pos]|]; cbn [plink parent_ok not_parent] in *.
           - destruct Pl3 as (G3 & P3). split; [exact (eq_trans G3 Eg)|].
             destruct (Nat.eqb_spec L idx); [lia|]. rewrite N3 by lia. rewrite P3, N2.
             destruct (Nat.eqb_spec idx pidx) as [->|]; [exfalso; exact (proj2 HP Hin) | reflexivity].
           - exact Pl3. }
  assert (Wt : tmap (a_with_entry a') (Node ps ov cs) = tmap (a_with_entry a) (Node ps ov cs)).
  { apply (proj1 (tmap_ext_mut _ _)). intros e He. rewrite (proj2 (SE e)). apply Wr. apply in_or_app. left. exact He. }
  split. { cbn [tmap tmap_f option_map] in Wt |- *. rewrite insert_node, HF. rewrite (proj2 (SE Le)), W1, Wt. reflexivity. }
  split. { cbn [tentries fentries app]. rewrite !app_nil_r. apply SS. exact S1. }
  split; [intros x Hx; rewrite (proj1 (SE x)), (proj2 (SE x)); apply Wr; apply in_or_app; right; exact Hx|].
  split; [rewrite (proj2 (SE Le)); exact W1|]. cbn [tmap]. rewrite lookup_node', HF. reflexivity.
Qed.

(** [Diff]: the stem is split; a value-less branch node with two children. *)
Lemma ins_diff a g idx parent k v p ov cs fp R cm kc kr sc sr :
  Tr a idx (Node p ov cs) fp -> NoDup fp -> Forall (fun j => j < length (a_nodes a)) fp ->
  ESep a (tentries (Node p ov cs) ++ R) -> parent_ok a parent idx fp ->
  follow_stem k p = FDiff cm kc kr sc sr ->
  InsPost a parent idx k v (Node p ov cs) fp R
    (let key_node_idx := length (a_nodes a) in
     let new_idx := S key_node_idx in
     let a1 := set_node a idx (with_path (node_at a idx) sr) in
     let (a2, e) := new_entry a1 v in
     let a3 := push_node a2 (mkAN g (Some e) kr g []) in
     let ch := if (kc <? sc)%N then [(kc, key_node_idx); (sc, idx)] else [(sc, idx); (kc, key_node_idx)] in
     let a4 := push_node a3 (mkAN g None cm g ch) in
     (relink a4 parent new_idx, e, false)).
Proof.
  intros HT Hnd Hb HS HP HF. pose proof HT as (Ep & Ev & fp0 & Efp & HTF). cbn zeta.
  set (n := node_at a idx) in *. set (L := length (a_nodes a)) in *.
  set (a1 := set_node a idx (with_path n sr)).
  destruct (same_ev a a1 eq_refl eq_refl) as (SE1 & SS1).
  destruct (new_entry_sep a1 v _ (SS1 _ HS)) as (E1 & S1 & W1 & Wr & En & Eg & Le1).
  destruct (new_entry a1 v) as [a2 e] eqn:NE. cbn [fst snd] in *. subst e.
  set (Le := length (a_entries a1)) in *.
  set (leaf := mkAN g (Some Le) kr g []). set (a3 := push_node a2 leaf).
  set (chx := if (kc <? sc)%N then [(kc, L); (sc, idx)] else [(sc, idx); (kc, L)]).
  set (branch := mkAN g None cm g chx). set (a4 := push_node a3 branch).
  assert (L1 : length (a_nodes a1) = L) by (unfold a1; cbn [set_node a_nodes]; apply set_nth_length).
  assert (L2 : length (a_nodes a2) = L) by (rewrite En; exact L1).
  assert (L3 : length (a_nodes a3) = S L) by (unfold a3; cbn [push_node a_nodes]; rewrite app_length, L2; cbn; lia).
  assert (L4 : length (a_nodes a4) = S (S L)) by (unfold a4; cbn [push_node a_nodes]; rewrite app_length, L3; cbn; lia).
  assert (Hidx : idx < L) by (subst fp; exact (Forall_inv Hb)).
  assert (Hin : In idx fp) by (subst fp; left; reflexivity).
  assert (Hlt : forall j, In j fp -> j < L) by (rewrite Forall_forall in Hb; exact Hb).
  assert (PO : match parent with Some (pidx, _) => pidx < length (a_nodes a4) | None => a_gens a4 <> [] end).
  { apply (parent_ok_gens a parent idx fp a4 HP); [exact Eg | lia]. }
  destruct (relink_spec a4 parent (S L) PO) as (L5 & Ee5 & Ev5 & Nn5 & Pl5). set (a' := relink a4 parent (S L)) in *.
  cbn [InsPost].
  destruct (same_ev a2 a') as (SE & SS); [exact Ee5 | exact Ev5|].
  assert (N1 : forall j, node_at a1 j = if Nat.eqb idx j then with_path n sr else node_at a j).
  { intros j. unfold a1. rewrite node_at_set_node. fold L. destruct (Nat.eqb idx j) eqn:Q; [|reflexivity].
    destruct (Nat.ltb_spec idx L); [reflexivity | lia]. }
  assert (N4 : forall j, node_at a4 j = if Nat.eqb j (S L) then branch else if Nat.eqb j L then leaf else node_at a1 j).
  { intros j. unfold a4. rewrite node_at_push, L3. destruct (Nat.eqb j (S L)); [reflexivity|].
    unfold a3. rewrite node_at_push, L2. destruct (Nat.eqb j L); [reflexivity|]. apply node_at_same_nodes. exact En. }
  assert (Hnp : forall j, In j fp \/ L <= j -> not_parent parent j).
  { intros j Hj. destruct parent as [[pidx pos]|]; cbn [not_parent parent_ok] in *; [|exact I]. intros ->.
    destruct Hj as [Hj|Hj]; [exact (proj2 HP Hj) | lia]. }
  assert (NL : node_at a' L = leaf).
  { rewrite Nn5 by (apply Hnp; right; lia). rewrite N4. destruct (Nat.eqb_spec L (S L)); [lia|]. rewrite Nat.eqb_refl. reflexivity. }
  assert (NSL : node_at a' (S L) = branch).
  { rewrite Nn5 by (apply Hnp; right; lia). rewrite N4, Nat.eqb_refl. reflexivity. }
  assert (Nlow : forall j, j < L -> not_parent parent j -> node_at a' j = node_at a1 j).
  { intros j Hj Hp. rewrite Nn5 by exact Hp. rewrite N4. destruct (Nat.eqb_spec j (S L)); [lia|]. destruct (Nat.eqb_spec j L); [lia | reflexivity]. }
  assert (Nidx : node_at a' idx = with_path n sr).
  { rewrite Nlow by (auto). rewrite N1, Nat.eqb_refl. reflexivity. }
  assert (Nold : forall j, j < L -> j <> idx -> not_parent parent j -> node_at a' j = node_at a j).
  { intros j Hj Hne Hp. rewrite Nlow by assumption. rewrite N1. destruct (Nat.eqb_spec idx j); [congruence | reflexivity]. }
  assert (Told : Tr a' idx (Node sr ov cs) fp).
  { cbn [Tr]. rewrite Nidx. cbn [with_path an_path an_val an_ch]. split; [reflexivity|]. split; [exact Ev|]. exists fp0.
    split; [exact Efp|]. apply (TrF_frame a a'); [exact HTF|]. intros j Hj.
    assert (In j fp) by (subst fp; right; exact Hj).
    apply Nold; [apply Hlt; assumption| |apply Hnp; left; assumption].
    intros ->. subst fp. apply NoDup_cons_iff in Hnd. exact (proj1 Hnd Hj). }
  assert (Tleaf : Tr a' L (Node kr (Some Le) FNil) [L]).
  { cbn [Tr]. rewrite NL. cbn [leaf an_path an_val an_ch]. split; [reflexivity|]. split; [reflexivity|]. exists []. split; [reflexivity|].
    cbn [TrF]. split; reflexivity. }
  assert (Wt : tmap (a_with_entry a') (Node sr ov cs) = tmap (a_with_entry a) (Node sr ov cs)).
  { apply (proj1 (tmap_ext_mut _ _)). intros e He. rewrite (proj2 (SE e)).
    rewrite (proj2 (Wr e (in_or_app _ _ _ (or_introl He)))). apply SE1. }
  assert (WL : a_with_entry a' Le = Some v) by (rewrite (proj2 (SE Le)); exact W1).
  assert (HB : exists f' fpx, TrF a' chx f' fpx /\ Permutation fpx (L :: fp)
             /\ Permutation (fentries f') (Le :: tentries (Node p ov cs))
             /\ tmap_f (a_with_entry a') f' =
                (if (kc <? sc)%N
                 then FCons kc (Node kr (Some (Some v)) FNil) (FCons sc (Node sr (option_map (a_with_entry a) ov) (tmap_f (a_with_entry a) cs)) FNil)
                 else FCons sc (Node sr (option_map (a_with_entry a) ov) (tmap_f (a_with_entry a) cs)) (FCons kc (Node kr (Some (Some v)) FNil) FNil))).
  { cbn [tmap] in Wt. unfold chx. destruct (kc <? sc)%N.
    - exists (FCons kc (Node kr (Some Le) FNil) (FCons sc (Node sr ov cs) FNil)), ([L] ++ (fp ++ [])).
      split. { cbn [TrF]. exists L, [(sc, idx)], [L], (fp ++ []). split; [reflexivity|]. split; [reflexivity|]. split; [exact Tleaf|].
               exists idx, [], fp, []. split; [reflexivity|]. split; [reflexivity|]. split; [exact Told|]. split; reflexivity. }
      split. { rewrite app_nil_r. apply Permutation_refl. }
      split. { change (Permutation (Le :: (tentries (Node p ov cs) ++ [])) (Le :: tentries (Node p ov cs))). rewrite app_nil_r. apply Permutation_refl. }
      cbn [tmap_f tmap option_map]. rewrite WL, Wt. reflexivity.
    - exists (FCons sc (Node sr ov cs) (FCons kc (Node kr (Some Le) FNil) FNil)), (fp ++ ([L] ++ [])).
      split. { cbn [TrF]. exists idx, [(kc, L)], fp, ([L] ++ []). split; [reflexivity|]. split; [reflexivity|]. split; [exact Told|].
               exists L, [], [L], []. split; [reflexivity|]. split; [reflexivity|]. split; [exact Tleaf|]. split; reflexivity. }
      split. { cbn [app]. symmetry. apply Permutation_cons_append. }
      split. { change (Permutation (tentries (Node p ov cs) ++ [Le]) (Le :: tentries (Node p ov cs))). symmetry. apply Permutation_cons_append. }
      cbn [tmap_f tmap option_map]. rewrite WL, Wt. reflexivity. }
  destruct HB as (f' & fpx & TB & PB & EB & VB).
  assert (Hx : forall j, In j fpx -> j = L \/ In j fp).
  { intros j Hj. apply (Permutation_in _ PB) in Hj. destruct Hj as [<-|Hj]; auto. }
  exists (S L), (Node cm None f'), (S L :: fpx).
  split. { cbn [Tr]. rewrite NSL. cbn [branch an_path an_val an_ch]. split; [reflexivity|]. split; [reflexivity|]. exists fpx. auto. }
  split. { constructor.
           - intros X. destruct (Hx _ X) as [Y|Y]; [lia | specialize (Hlt _ Y); lia].
           - apply (Permutation_NoDup (Permutation_sym PB)). constructor; [intros X; specialize (Hlt _ X); lia | exact Hnd]. }
  split. { rewrite L5, L4. constructor; [lia|]. rewrite Forall_forall. intros j Hj. destruct (Hx _ Hj) as [->|Y]; [lia | specialize (Hlt _ Y); lia]. }
  split. { intros j [<-|Hj]; [right; lia|]. destruct (Hx _ Hj) as [->|Y]; [right; lia | left; exact Y]. }
  split; [rewrite L5, L4; lia|].
  split. { intros j Hj Hnf Hp. apply Nold; auto. intros ->. exact (Hnf Hin). }
  split. { destruct parent as [[pidx pos]|]; cbn [plink parent_ok not_parent] in *.
           - destruct Pl5 as (G5 & P5). split; [exact (eq_trans G5 Eg)|].
             destruct (Nat.eqb_spec (S L) idx); [lia|]. rewrite P5, N4.
             destruct (Nat.eqb_spec pidx (S L)); [lia|]. destruct (Nat.eqb_spec pidx L); [lia|]. rewrite N1.
             destruct (Nat.eqb_spec idx pidx) as [->|]; [exfalso; exact (proj2 HP Hin) | reflexivity].
           - exact Pl5. }
  split. { cbn [tmap option_map]. rewrite insert_node, HF. f_equal. exact VB. }
  split. { cbn [tentries app]. apply (ESep_perm a' ((Le :: tentries (Node p ov cs)) ++ R)).
           - apply Permutation_app_tail. symmetry. exact EB.
           - apply SS. exact S1. }
  split. { intros x Hx'. rewrite (proj1 (SE x)), (proj2 (SE x)).
           destruct (Wr x (in_or_app _ _ _ (or_intror Hx'))) as (Q1 & Q2). rewrite Q1, Q2. apply SE1. }
  split; [exact WL|]. cbn [tmap]. rewrite lookup_node', HF. reflexivity.
Qed.

(** [make_owned] keeps the separation of the entries (it renames entries of the tree to
    fresh read-only copies pointing at the same values). *)
Lemma mo_sep a idx t fp R :
  Tr a idx t fp -> NoDup fp -> Forall (fun j => j < length (a_nodes a)) fp ->
  ESep a (tentries t ++ R) ->
  let a1 := make_owned a idx in
  exists t1 fp1, Tr a1 idx t1 fp1 /\ NoDup fp1
    /\ Forall (fun j => j < length (a_nodes a1)) fp1
    /\ (forall j, In j fp1 -> In j fp \/ length (a_nodes a) <= j)
    /\ tmap (a_with_entry a1) t1 = tmap (a_with_entry a) t
    /\ ESep a1 (tentries t1 ++ R)
    /\ (forall x, In x R -> edat a1 x = edat a x /\ a_with_entry a1 x = a_with_entry a x)
    /\ (forall j, j < length (a_nodes a) -> j <> idx -> node_at a1 j = node_at a j)
    /\ length (a_nodes a) <= length (a_nodes a1)
    /\ a_gens a1 = a_gens a.
Proof.
  intros HT Hnd Hb HS a1. pose proof HS as (H1 & H2 & H3 & H4).
  apply Forall_app in H2. destruct H2 as (H2t & H2r). apply nd_app in H1. destruct H1 as (H1t & H1r & H1d).
  destruct (mo_tr a idx t fp HT Hnd Hb H2t) as (t1 & fp1 & T1 & N1 & B1 & D1 & W1 & F1 & U1 & Fr & Ln & Hed & Lee & Hv & Hg & _).
  fold a1 in T1, N1, B1, W1, F1, Fr, Ln, Hed, Lee, Hv, Hg.
  exists t1, fp1. split; [exact T1|]. split; [exact N1|]. split; [exact B1|]. split; [exact D1|]. split; [exact W1|].
  assert (HltR : forall x, In x R -> x < length (a_entries a)) by (rewrite Forall_forall in H2r; exact H2r).
  split.
  { apply (ESep_ren a a1 (tentries t ++ R) (tentries t1 ++ R) HS); auto.
    - apply Forall2_app; [exact F1 | apply eren_refl_list].
    - apply nd_app. split; [apply U1; exact H1t|]. split; [exact H1r|]. intros x Hx Hr.
      destruct (In_nth_error _ _ Hx) as (q & Hq). pose proof (Forall2_nth_error _ _ _ q F1) as Z. rewrite Hq in Z.
      destruct (nth_error (tentries t) q) as [e|] eqn:Hq1; [|contradiction].
      destruct Z as [->|((Z & _) & _)].
      + apply (H1d e); [eapply nth_error_In; exact Hq1 | exact Hr].
      + specialize (HltR _ Hr). lia. }
  split.
  { intros x Hx. split; [apply Hed, HltR, Hx|]. apply with_entry_frame; [apply Hed, HltR, Hx|]. intros i _. rewrite Hv. reflexivity. }
  auto.
Qed.

(** * The loop: induction over the descent *)

Theorem ins_loop : forall fuel a g idx parent k v t fp R,
  length k < fuel ->
  Tr a idx t fp -> NoDup fp -> Forall (fun j => j < length (a_nodes a)) fp ->
  wfb t = true -> ESep a (tentries t ++ R) -> parent_ok a parent idx fp ->
  InsPost a parent idx k v t fp R (ar_insert_loop fuel a g idx parent k v).
Proof.
  induction fuel as [|f IH]; intros a g idx parent k v t fp R Hk HT Hnd Hb Hwf HS HP; [lia|].
  destruct t as [p ov cs]. pose proof HT as (Ep & Ev & fp0 & Efp & HTF).
  cbn [ar_insert_loop]. rewrite <- Ep.
  destruct (follow_stem k p) as [|s ps|c k'|cm kc kr sc sr] eqn:HF.
  - rewrite <- Ev. apply ins_equal; assumption.
  - apply ins_keyprefix; assumption.
  - (* StemIsPrefix: copy the children, then descend or add a leaf *)
    destruct (mo_sep a idx (Node p ov cs) fp R HT Hnd Hb HS) as (t1 & fp1 & T1 & N1 & B1 & D1 & W1 & S1 & WR1 & Fr1 & Ln1 & Hg1).
    set (a1 := make_owned a idx) in *. set (L := length (a_nodes a)) in *. set (L1 := length (a_nodes a1)) in *.
    destruct t1 as [p1 ov1 cs1]. pose proof T1 as (Ep1 & Ev1 & fp1' & Efp1 & HTF1).
    pose proof W1 as W1'. cbn [tmap] in W1. injection W1 as Wp Wov Wcs. subst p1.
    assert (Hwf1 : wfb (Node p ov1 cs1) = true).
    { rewrite <- (wfb_tmap (a_with_entry a1)), W1', wfb_tmap. exact Hwf. }
    rewrite wfb_node' in Hwf1. apply andb_true_iff in Hwf1. destruct Hwf1 as (Hwf1 & _).
    apply andb_true_iff in Hwf1. destruct Hwf1 as (Hwff & Hsorted).
    subst fp1. apply NoDup_cons_iff in N1. destruct N1 as (Ni1 & Nd1'). pose proof (Forall_inv B1) as Hidx1. cbn beta in Hidx1.
    pose proof (Forall_inv_tail B1) as Hb1'.
    assert (Hin : In idx fp) by (subst fp; left; reflexivity).
    assert (Hlt1 : forall j, In j fp1' -> j < L1) by (rewrite Forall_forall in Hb1'; exact Hb1').
    set (ov1e := match ov1 with Some e => [e] | None => [] end).
    destruct (find_child c (an_ch (node_at a1 idx)) 0) as [[pos i]|] eqn:FC.
    + destruct (TrF_find a1 c cs1 _ fp1' 0 pos i HTF1 Hsorted FC) as (_ & ti & fpi & rest & erest & Ti & P1 & P2 & SC & LK & WF & K).
      rewrite Nat.sub_0_r in SC, K.
      set (R' := ov1e ++ erest ++ R).
      pose proof (Permutation_NoDup P1 Nd1') as NdP. apply nd_app in NdP. destruct NdP as (Ndi & Ndr & Ndd).
      pose proof (Permutation_Forall P1 Hb1') as BP. apply Forall_app in BP. destruct BP as (Hbi & Hbr).
      assert (Hrest : forall j, In j rest -> In j fp1') by (intros j Hj; apply (Permutation_in _ (Permutation_sym P1)); apply in_or_app; right; exact Hj).
      assert (Hfpi : forall j, In j fpi -> In j fp1') by (intros j Hj; apply (Permutation_in _ (Permutation_sym P1)); apply in_or_app; left; exact Hj).
      assert (PE : forall X Y, Permutation (fentries X) (tentries Y ++ erest) ->
                   Permutation ((ov1e ++ fentries X) ++ R) (tentries Y ++ R')).
      { intros X Y PXY. unfold R'. rewrite <- app_assoc. rewrite PXY. rewrite <- app_assoc. apply Permutation_app_swap_app. }
      assert (Si0 : ESep a1 (tentries ti ++ R')) by (apply (ESep_perm a1 _ _ (PE cs1 ti P2)); exact S1).
      assert (Hk' : length k' < f) by (pose proof (follow_stem_shorter k p c k' HF); lia).
      assert (HPi : parent_ok a1 (Some (idx, pos)) i fpi) by (split; [exact Hidx1 | intros X; apply Ni1; apply Hfpi; exact X]).
      pose proof (IH a1 g i (Some (idx, pos)) k' v ti fpi R' Hk' Ti Ndi Hbi (WF Hwff) Si0 HPi) as IHr.
      destruct (ar_insert_loop f a1 g i (Some (idx, pos)) k' v) as [[a' e] existed]. cbn [InsPost] in IHr |- *.
      destruct IHr as (i' & ti' & fpi' & Ti' & Ndi' & Bi' & Di' & Lni & Fri & Pli & Vi & Si & WRi & Wei & Exi).
      cbn [plink] in Pli. destruct Pli as (Gi & Pi). fold L1 in Di', Lni, Fri.
      destruct (K a' i' ti' fpi' Ti') as (f' & fp'' & TF' & Q1 & Q2 & Q3 & _).
      { intros j Hj. apply Fri; [apply Hlt1, Hrest, Hj | intros X; exact (Ndd j X Hj) |].
        cbn [not_parent]. intros ->. exact (Ni1 (Hrest _ Hj)). }
      assert (NI : an_path (node_at a' idx) = p /\ an_val (node_at a' idx) = ov1
                   /\ an_ch (node_at a' idx) = set_child_index pos i' (an_ch (node_at a1 idx))).
      { rewrite Pi. destruct (Nat.eqb_spec i' i) as [->|]; [rewrite SC; auto|]. cbn [with_children an_path an_val an_ch]. auto. }
      destruct NI as (A1 & A2 & A3).
      assert (Hx'' : forall j, In j fp'' -> In j fpi' \/ In j rest) by (intros j Hj; apply in_app_or; apply (Permutation_in _ Q1); exact Hj).
      assert (F6 : forall j, j < L -> ~ In j fp -> node_at a' j = node_at a j).
      { intros j Hj Hnf. assert (j <> idx) by (intros ->; exact (Hnf Hin)).
        rewrite Fri; [apply Fr1; assumption | lia | | cbn [not_parent]; assumption].
        intros X. destruct (D1 j (or_intror (Hfpi _ X))) as [Y|Y]; [exact (Hnf Y) | lia]. }
      assert (Ga : a_gens a' = a_gens a) by (rewrite Gi; exact Hg1).
      exists idx, (Node p ov1 f'), (idx :: fp'').
      split. { cbn [Tr]. rewrite A1, A2, A3. split; [reflexivity|]. split; [reflexivity|]. exists fp''. auto. }
      split. { constructor.
               - intros X. destruct (Hx'' _ X) as [Y|Y]; [|exact (Ni1 (Hrest _ Y))].
                 destruct (Di' _ Y) as [Z|Z]; [exact (Ni1 (Hfpi _ Z)) | lia].
               - apply (Permutation_NoDup (Permutation_sym Q1)). apply nd_app. split; [exact Ndi'|]. split; [exact Ndr|].
                 intros x Hx Hr. destruct (Di' _ Hx) as [Z|Z]; [exact (Ndd x Z Hr) | specialize (Hlt1 _ (Hrest _ Hr)); lia]. }
      split. { constructor; [lia|]. rewrite Forall_forall. intros j Hj. destruct (Hx'' _ Hj) as [Y|Y].
               - rewrite Forall_forall in Bi'. apply Bi'. exact Y.
               - specialize (Hlt1 _ (Hrest _ Y)). lia. }
      split. { intros j [<-|Hj]; [left; exact Hin|]. destruct (Hx'' _ Hj) as [Y|Y].
               - destruct (Di' _ Y) as [Z|Z]; [apply D1; right; apply Hfpi; exact Z | right; lia].
               - apply D1. right. apply Hrest. exact Y. }
      split; [lia|].
      split; [intros j Hj Hnf _; apply F6; assumption|].
      split. { destruct parent as [[pidx ppos]|]; cbn [plink parent_ok] in *.
               - rewrite Nat.eqb_refl. split; [exact Ga | apply F6; apply HP].
               - rewrite (cur_root_same_gens a a' Ga). exact HP. }
      split. { cbn [tmap]. rewrite insert_node, HF. f_equal.
               - rewrite <- Wov. destruct ov1 as [e1|]; [|reflexivity]. cbn [option_map]. f_equal.
                 apply WRi. unfold R', ov1e. left. reflexivity.
               - rewrite <- Wcs. apply (Q3 _ (a_with_entry a1) (a_with_entry a') k' (Some v) Vi).
                 intros e1 He1. apply WRi. unfold R'. apply in_or_app. right. apply in_or_app. left. exact He1. }
      split. { apply (ESep_perm a' _ _ (Permutation_sym (PE f' ti' Q2))). exact Si. }
      split. { intros x Hx. assert (HxR : In x R') by (unfold R'; apply in_or_app; right; apply in_or_app; right; exact Hx).
               destruct (WRi x HxR) as (Z1 & Z2). destruct (WR1 x Hx) as (Z3 & Z4). split; congruence. }
      split; [exact Wei|].
      rewrite <- W1'. cbn [tmap]. rewrite lookup_node', HF, LK. exact Exi.
    + (* no such child: a new leaf *)
      set (n1 := node_at a1 idx) in *.
      set (a2 := set_node a1 idx (with_children n1 (insert_child c L1 (an_ch n1)))).
      destruct (same_ev a1 a2 eq_refl eq_refl) as (SE2 & SS2).
      destruct (new_entry_sep a2 v _ (SS2 _ S1)) as (E3 & S3 & W3 & Wr3 & En3 & Eg3 & Le3).
      destruct (new_entry a2 v) as [a3 e] eqn:NE. cbn [fst snd] in *. subst e. cbn [InsPost].
      set (Le2 := length (a_entries a2)) in *.
      set (leaf := mkAN g (Some Le2) k' g []). set (a' := push_node a3 leaf).
      assert (L2 : length (a_nodes a2) = L1) by (unfold a2; cbn [set_node a_nodes]; apply set_nth_length).
      assert (L3 : length (a_nodes a3) = L1) by (rewrite En3; exact L2).
      assert (La : length (a_nodes a') = S L1) by (unfold a'; cbn [push_node a_nodes]; rewrite app_length, L3; cbn; lia).
      destruct (same_ev a3 a' eq_refl eq_refl) as (SE & SS).
      assert (Na : forall j, node_at a' j = if Nat.eqb j L1 then leaf
                                            else if Nat.eqb idx j then with_children n1 (insert_child c L1 (an_ch n1))
                                            else node_at a1 j).
      { intros j. unfold a'. rewrite node_at_push, L3. destruct (Nat.eqb j L1); [reflexivity|].
        rewrite (node_at_same_nodes a2 a3 j En3). unfold a2. rewrite node_at_set_node. fold L1.
        destruct (Nat.eqb idx j); [|reflexivity]. destruct (Nat.ltb_spec idx L1); [reflexivity | lia]. }
      assert (NL : node_at a' L1 = leaf) by (rewrite Na, Nat.eqb_refl; reflexivity).
      assert (Nidx : node_at a' idx = with_children n1 (insert_child c L1 (an_ch n1))).
      { rewrite Na. destruct (Nat.eqb_spec idx L1); [lia|]. rewrite Nat.eqb_refl. reflexivity. }
      assert (Nold : forall j, j < L1 -> j <> idx -> node_at a' j = node_at a1 j).
      { intros j Hj Hne. rewrite Na. destruct (Nat.eqb_spec j L1); [lia|]. destruct (Nat.eqb_spec idx j); [congruence | reflexivity]. }
      assert (Tleaf : Tr a' L1 (Node k' (Some Le2) FNil) [L1]).
      { cbn [Tr]. rewrite NL. cbn [leaf an_path an_val an_ch]. split; [reflexivity|]. split; [reflexivity|]. exists [].
        split; [reflexivity|]. cbn [TrF]. split; reflexivity. }
      destruct (TrF_add a1 a' c L1 (Node k' (Some Le2) FNil) cs1 _ fp1' 0 HTF1 FC) as (f' & fp'' & TF' & P1 & P2 & V1 & LKN).
      { intros j Hj. apply Nold; [apply Hlt1, Hj | intros ->; exact (Ni1 Hj)]. }
      { exact Tleaf. }
      assert (Hx'' : forall j, In j fp'' -> j = L1 \/ In j fp1').
      { intros j Hj. apply (Permutation_in _ P1) in Hj. destruct Hj as [<-|Hj]; auto. }
      assert (F6 : forall j, j < L -> ~ In j fp -> node_at a' j = node_at a j).
      { intros j Hj Hnf. assert (j <> idx) by (intros ->; exact (Hnf Hin)). rewrite Nold by (try assumption; lia). apply Fr1; assumption. }
      assert (Ga : a_gens a' = a_gens a) by (exact (eq_trans Eg3 Hg1)).
      assert (WL : a_with_entry a' Le2 = Some v) by (rewrite (proj2 (SE Le2)); exact W3).
      assert (Wold : forall x, In x (tentries (Node p ov1 cs1) ++ R) -> edat a' x = edat a1 x /\ a_with_entry a' x = a_with_entry a1 x).
      { intros x Hx. rewrite (proj1 (SE x)), (proj2 (SE x)). destruct (Wr3 x Hx) as (Z1 & Z2). rewrite Z1, Z2. apply SE2. }
      exists idx, (Node p ov1 f'), (idx :: fp'').
      split. { cbn [Tr]. rewrite Nidx. cbn [with_children an_path an_val an_ch]. split; [exact Ep1|]. split; [exact Ev1|]. exists fp''. auto. }
      split. { constructor.
               - intros X. destruct (Hx'' _ X) as [Y|Y]; [lia | exact (Ni1 Y)].
               - apply (Permutation_NoDup (Permutation_sym P1)). constructor; [intros X; specialize (Hlt1 _ X); lia | exact Nd1']. }
      split. { rewrite La. constructor; [lia|]. rewrite Forall_forall. intros j Hj. destruct (Hx'' _ Hj) as [->|Y]; [lia | specialize (Hlt1 _ Y); lia]. }
      split. { intros j [<-|Hj]; [left; exact Hin|]. destruct (Hx'' _ Hj) as [->|Y]; [right; lia | apply D1; right; exact Y]. }
      split; [lia|].
      split; [intros j Hj Hnf _; apply F6; assumption|].
      split. { destruct parent as [[pidx ppos]|]; cbn [plink parent_ok] in *.
               - rewrite Nat.eqb_refl. split; [exact Ga | apply F6; apply HP].
               - rewrite (cur_root_same_gens a a' Ga). exact HP. }
      split. { cbn [tmap]. rewrite insert_node, HF. f_equal.
               - rewrite <- Wov. destruct ov1 as [e1|]; [|reflexivity]. cbn [option_map]. f_equal.
                 apply Wold. cbn [tentries app]. left. reflexivity.
               - rewrite <- Wcs. apply (V1 _ (a_with_entry a1) (a_with_entry a') k' (Some v)).
                 + cbn [tmap option_map tmap_f]. rewrite WL. reflexivity.
                 + intros e1 He1. apply Wold. apply in_or_app. left. cbn [tentries]. apply in_or_app. right. exact He1. }
      split. { apply (ESep_perm a' (Le2 :: tentries (Node p ov1 cs1) ++ R)); [|apply SS; exact S3].
               cbn [tentries]. fold ov1e. rewrite P2. cbn [tentries fentries app]. rewrite <- !app_assoc. cbn [app].
               apply Permutation_middle. }
      split. { intros x Hx. destruct (Wold x (in_or_app _ _ _ (or_intror Hx))) as (Z1 & Z2). destruct (WR1 x Hx) as (Z3 & Z4). split; congruence. }
      split; [exact WL|].
      rewrite <- W1'. cbn [tmap]. rewrite lookup_node', HF, LKN. reflexivity.
  - apply ins_diff; assumption.
Qed.

(** * The state invariant and the refinement theorem for [insert] *)

Definition Sep (a : arena) : Prop :=
  a_gens a <> [] /\
  match cur_root a with
  | None => True
  | Some r => exists t fp, Tr a r t fp /\ NoDup fp /\ Forall (fun j => j < length (a_nodes a)) fp
                           /\ wfb t = true /\ ESep a (tentries t)
  end.

Lemma ESep_nil a : ESep a [].
Proof. split; [constructor|]. split; [constructor|]. split; [intros x i []| intros x y i []]. Qed.

Lemma Sep_empty : Sep a_empty.
Proof. split; [discriminate | exact I]. Qed.

(** The view of the current root as an optional radix tree of optional values, at depth [d]. *)
Definition rview (d : nat) (a : arena) : option (tree (option value)) :=
  option_map (vview d a) (cur_root a).

Theorem insert_refines a key v :
  Sep a ->
  let '(a', e, existed) := ar_insert a key v in
  Sep a' /\ a_with_entry a' e = Some v
  /\ exists r', cur_root a' = Some r'
  /\ exists D, forall d, D <= d ->
       vview d a' r' = insert_root (nib key) (Some v) (rview d a)
       /\ existed = is_some (lookup_root (nib key) (rview d a)).
Proof.
  intros (Hne & HS). unfold ar_insert, rview. destruct (cur_root a) as [r|] eqn:Er.
  - destruct HS as (t & fp & HT & Hnd & Hb & Hwf & HE).
    assert (HE' : ESep a (tentries t ++ [])) by (rewrite app_nil_r; exact HE).
    pose proof (ins_loop (S (length (nib key))) a (an_gen (node_at a r)) r None (nib key) v t fp []
                         (Nat.lt_succ_diag_r _) HT Hnd Hb Hwf HE' Er) as P.
    destruct (ar_insert_loop (S (length (nib key))) a (an_gen (node_at a r)) r None (nib key) v) as [[a' e] existed].
    cbn [InsPost] in P. destruct P as (r' & t' & fp' & T' & Nd' & B' & _ & _ & _ & Pl & V' & S' & _ & We & Ex).
    cbn [plink] in Pl. rewrite app_nil_r in S'.
    assert (Hwf' : wfb t' = true).
    { rewrite <- (wfb_tmap (a_with_entry a')), V'. apply wfb_insert. rewrite wfb_tmap. exact Hwf. }
    split. { split; [eapply cur_root_gens; exact Pl|]. rewrite Pl. exists t', fp'. auto. }
    split; [exact We|]. exists r'. split; [exact Pl|]. exists (Nat.max (theight t) (theight t')).
    intros d Hd. cbn [option_map insert_root lookup_root].
    rewrite (Tr_vview a' t' r' fp' d T') by lia. rewrite (Tr_vview a t r fp d HT) by lia. auto.
  - destruct (new_entry_sep a v [] (ESep_nil a)) as (E1 & S1 & W1 & _ & En & Eg & _).
    destruct (new_entry a v) as [a1 e] eqn:NE. cbn [fst snd] in *. subst e.
    set (Le := length (a_entries a)) in *. set (L := length (a_nodes a)).
    set (g := length (a_gens a) - 1).
    set (a2 := push_node a1 (mkAN g (Some Le) (nib key) g [])).
    assert (Hne2 : a_gens a2 <> []) by (unfold a2; cbn [push_node a_gens]; rewrite Eg; exact Hne).
    destruct (set_root_shape a2 (Some L) Hne2) as (older & gg & _ & Eg' & En' & Ev' & Ee').
    set (a' := set_root a2 (Some L)) in *.
    destruct (same_ev a1 a') as (SE & SS); [exact Ee' | exact Ev'|].
    assert (Er' : cur_root a' = Some L) by (apply cur_root_set_root; exact Hne2).
    assert (NL : node_at a' L = mkAN g (Some Le) (nib key) g []).
    { rewrite (node_at_same_nodes a2 a' L En'). unfold a2. rewrite node_at_push, En. fold L. rewrite Nat.eqb_refl. reflexivity. }
    assert (T' : Tr a' L (Node (nib key) (Some Le) FNil) [L]).
    { cbn [Tr]. rewrite NL. cbn [an_path an_val an_ch]. split; [reflexivity|]. split; [reflexivity|]. exists [].
      split; [reflexivity|]. cbn [TrF]. split; reflexivity. }
    assert (WL : a_with_entry a' Le = Some v) by (rewrite (proj2 (SE Le)); exact W1).
    split. { split; [rewrite Eg'; intros X; apply app_eq_nil in X; destruct X; discriminate|]. rewrite Er'.
             exists (Node (nib key) (Some Le) FNil), [L]. split; [exact T'|]. split; [repeat constructor; intros []|].
             split; [constructor; [|constructor]; rewrite En'; unfold a2; cbn [push_node a_nodes]; rewrite app_length, En; cbn; fold L; lia|].
             split; [reflexivity|]. cbn [tentries fentries app]. apply SS. exact S1. }
    split; [exact WL|]. exists L. split; [exact Er'|]. exists 1. intros d Hd. cbn [option_map insert_root lookup_root is_some].
    rewrite (Tr_vview a' _ L [L] d T') by (cbn; lia). cbn [tmap tmap_f option_map]. rewrite WL. auto.
Qed.
