(** * Trie/ArenaView.v — the abstraction function from the arena (level C) to radix trees
    (level B), and the commutation of the copying lookup with [Radix.lookup] (PARTIAL
    refinement: lookup only; see design/C03.md).

    [abs_t d a idx] unfolds the arena below node [idx] into a radix tree of entry indices,
    to depth [d]; [vview] resolves the entries to their values.  The copying walk of the
    implementation ([make_owned] on every node it descends from, which renumbers nodes and
    entries) does not change the view of any node or the value of any entry that existed
    before, and what it returns is what [Radix.lookup] returns on the view. *)

From Coq Require Import NArith PeanoNat List Bool Lia.
From CB Require Import Trie.Radix.
From CB Require Import Trie.RadixProofs.
From CB Require Import Trie.Locks.
From CB Require Import Trie.LocksProofs.
From CB Require Import Trie.Arena.
From CB Require Import Trie.ArenaProofs.
From CB Require Import Trie.ArenaCow.
From CB Require Import Trie.ArenaTree.
Import ListNotations.
Local Open Scope nat_scope.

(** * The abstraction function *)

Fixpoint mk_forest {V : Type} (f : nat -> tree V) (ch : list (N * nat)) : forest V :=
  match ch with
  | [] => FNil
  | (c, i) :: r => FCons c (f i) (mk_forest f r)
  end.

Fixpoint abs_t (d : nat) (a : arena) (idx : nat) : tree nat :=
  match d with
  | O => Node [] None FNil
  | S d' => let n := node_at a idx in
            Node (an_path n) (an_val n) (mk_forest (abs_t d' a) (an_ch n))
  end.

(** The radix tree of the current generation (entry indices), and its values. *)
Definition abs_root (d : nat) (a : arena) : option (tree nat) :=
  match cur_root a with Some r => Some (abs_t d a r) | None => None end.

Definition vview (d : nat) (a : arena) (idx : nat) : tree (option value) :=
  tmap (a_with_entry a) (abs_t d a idx).

Lemma tmap_node {A B} (g : A -> B) p ov cs : tmap g (Node p ov cs) = Node p (option_map g ov) (tmap_f g cs).
Proof. reflexivity. Qed.
Lemma tmap_f_cons {A B} (g : A -> B) c t r : tmap_f g (FCons c t r) = FCons c (tmap g t) (tmap_f g r).
Proof. reflexivity. Qed.

Lemma tmap_mk_forest {A B} (g : A -> B) f ch :
  tmap_f g (mk_forest f ch) = mk_forest (fun i => tmap g (f i)) ch.
Proof.
  induction ch as [|[c i] r IH]; [reflexivity|]. cbn [mk_forest]. rewrite tmap_f_cons, IH. reflexivity.
Qed.

Lemma vview_0 a idx : vview 0 a idx = Node [] None FNil.
Proof. reflexivity. Qed.

Lemma vview_S d a idx :
  vview (S d) a idx =
  Node (an_path (node_at a idx)) (option_map (a_with_entry a) (an_val (node_at a idx)))
       (mk_forest (vview d a) (an_ch (node_at a idx))).
Proof. unfold vview. cbn [abs_t]. rewrite tmap_node, tmap_mk_forest. reflexivity. Qed.

Lemma mk_forest_ext {V} (f g : nat -> tree V) ch :
  (forall i, In i (map snd ch) -> f i = g i) -> mk_forest f ch = mk_forest g ch.
Proof.
  induction ch as [|[c i] r IH]; intros H; [reflexivity|]. cbn [mk_forest].
  rewrite (H i) by (left; reflexivity). rewrite IH; [reflexivity|]. intros j Hj. apply H. right. exact Hj.
Qed.

Lemma lookup_node' {V} k p (ov : option V) cs :
  lookup k (Node p ov cs) =
  match follow_stem k p with
  | FEqual => ov
  | FStemIsPrefix c k' => lookup_f c k' cs
  | _ => None
  end.
Proof. reflexivity. Qed.

Lemma lookup_mk_forest {V} (f : nat -> tree V) c k ch pos :
  lookup_f c k (mk_forest f ch) =
  match find_child c ch pos with Some (_, i) => lookup k (f i) | None => None end.
Proof.
  revert pos. induction ch as [|[c' i] r IH]; intros pos; [reflexivity|].
  cbn [mk_forest find_child]. rewrite lookup_f_cons. destruct (c =? c')%N; [reflexivity | apply IH].
Qed.

(** * Entries referenced by nodes exist *)

Definition EInv (a : arena) : Prop :=
  forall j e, an_val (node_at a j) = Some e -> e < length (a_entries a).

Lemma with_entry_app a a' es e :
  a_entries a' = a_entries a ++ es -> a_values a' = a_values a -> e < length (a_entries a) ->
  a_with_entry a' e = a_with_entry a e.
Proof.
  intros E V He. unfold a_with_entry. rewrite E, V, nth_error_app1 by exact He. reflexivity.
Qed.

Lemma with_entry_val a a' es ov :
  a_entries a' = a_entries a ++ es -> a_values a' = a_values a ->
  (forall e, ov = Some e -> e < length (a_entries a)) ->
  option_map (a_with_entry a') ov = option_map (a_with_entry a) ov.
Proof.
  intros E V H. destruct ov as [e|]; [|reflexivity]. cbn [option_map]. f_equal.
  eapply with_entry_app; eauto.
Qed.

Lemma migrate_view a n g :
  let '(a', n') := migrate a n g in
  a_values a' = a_values a /\ (exists es, a_entries a' = a_entries a ++ es)
  /\ a_nodes a' = a_nodes a
  /\ an_path n' = an_path n /\ an_ch n' = an_ch n
  /\ option_map (a_with_entry a') (an_val n') = option_map (a_with_entry a) (an_val n)
  /\ (forall e, an_val n' = Some e -> e < length (a_entries a')).
Proof.
  unfold migrate. destruct (an_val n) as [e|] eqn:Ev.
  - cbn [push_entry a_values a_entries a_nodes an_path an_ch an_val option_map].
    split; [reflexivity|]. split; [eexists; reflexivity|]. split; [reflexivity|].
    split; [reflexivity|]. split; [reflexivity|]. split.
    + f_equal. unfold a_with_entry. cbn [push_entry a_entries a_values].
      rewrite nth_error_app2, Nat.sub_diag by lia. cbn [nth_error].
      destruct (nth_error (a_entries a) e) as [y|] eqn:En.
      * rewrite (nth_error_nth _ _ EDeleted En). destruct y; reflexivity.
      * apply nth_error_None in En. rewrite nth_overflow by exact En. reflexivity.
    + intros e' E. inversion E. rewrite app_length. cbn. lia.
  - cbn [a_values a_entries a_nodes an_path an_ch an_val option_map].
    split; [reflexivity|]. split; [exists []; rewrite app_nil_r; reflexivity|].
    repeat split; try reflexivity. intros e' E. discriminate.
Qed.

(** Pointwise relation between the children, their copies and the new children vector. *)
Fixpoint copies (P : N * nat -> anode -> N * nat -> Prop)
         (ch : list (N * nat)) (ns : list anode) (cs : list (N * nat)) : Prop :=
  match ch, ns, cs with
  | [], [], [] => True
  | kc :: ch', n :: ns', c :: cs' => P kc n c /\ copies P ch' ns' cs'
  | _, _, _ => False
  end.

Lemma copies_impl (P Q : N * nat -> anode -> N * nat -> Prop) :
  (forall kc n c, P kc n c -> Q kc n c) -> forall ch ns cs, copies P ch ns cs -> copies Q ch ns cs.
Proof.
  intros H. induction ch as [|kc ch IH]; intros [|n ns] [|c cs] X; cbn [copies] in *; try contradiction; auto.
  destruct X as (X1 & X2). split; [apply H; exact X1 | apply IH; exact X2].
Qed.

Definition copy_rel (a a' : arena) (kc : N * nat) (n : anode) (c : N * nat) : Prop :=
  fst c = fst kc
  /\ an_path n = an_path (node_at a (snd kc)) /\ an_ch n = an_ch (node_at a (snd kc))
  /\ option_map (a_with_entry a') (an_val n) = option_map (a_with_entry a) (an_val (node_at a (snd kc)))
  /\ (forall e, an_val n = Some e -> e < length (a_entries a')).

Lemma migrate_children_view : forall ch a g next,
  EInv a ->
  let '(a', ns, cs) := migrate_children a g next ch in
  a_values a' = a_values a /\ (exists es, a_entries a' = a_entries a ++ es)
  /\ copies (copy_rel a a') ch ns cs
  /\ map snd cs = seq next (length ch).
Proof.
  induction ch as [|[k i] ch IH]; intros a g next HE; cbn [migrate_children].
  - split; [reflexivity|]. split; [exists []; rewrite app_nil_r; reflexivity|]. split; [exact I | reflexivity].
  - pose proof (migrate_view a (node_at a i) g) as M.
    destruct (migrate a (node_at a i) g) as [a1 n'].
    destruct M as (V1 & (es1 & E1) & N1 & P1 & C1 & W1 & R1).
    assert (HE1 : EInv a1).
    { intros j e Hv. unfold node_at in Hv. rewrite N1 in Hv. specialize (HE j e Hv). rewrite E1, app_length. lia. }
    specialize (IH a1 g (S next) HE1). destruct (migrate_children a1 g (S next) ch) as [[a2 ns] cs].
    destruct IH as (V2 & (es2 & E2) & Cp & Sq).
    split; [congruence|]. split; [exists (es1 ++ es2); rewrite E2, E1, app_assoc; reflexivity|].
    split; [|cbn [map snd length seq]; rewrite Sq; reflexivity].
    cbn [copies]. split.
    + unfold copy_rel. cbn [fst snd]. split; [reflexivity|]. split; [exact P1|]. split; [exact C1|]. split.
      * rewrite <- W1. eapply with_entry_val; eauto.
      * intros e Hv. specialize (R1 e Hv). rewrite E2, app_length. lia.
    + eapply copies_impl; [|exact Cp]. intros kc n c (Q1 & Q2 & Q3 & Q4 & Q5).
      assert (Nd : node_at a1 (snd kc) = node_at a (snd kc)) by (unfold node_at; rewrite N1; reflexivity).
      unfold copy_rel. rewrite <- Nd. split; [exact Q1|]. split; [exact Q2|]. split; [exact Q3|]. split; [|exact Q5].
      rewrite Q4. rewrite Nd. eapply with_entry_val; eauto.
Qed.

(** * [make_owned] does not change the view *)

Lemma mk_forest_copies {V} (f g : nat -> tree V) P ch ns cs :
  copies P ch ns cs ->
  (forall kc n c, P kc n c -> fst c = fst kc) ->
  forall next, map snd cs = seq next (length ch) ->
  (forall p kc, nth_error ch p = Some kc -> f (next + p) = g (snd kc)) ->
  mk_forest f cs = mk_forest g ch.
Proof.
  intros Cp Hk. revert ns cs Cp. induction ch as [|[k i] ch IH]; intros [|n ns] [|[k' i'] cs] Cp next Sq Hf;
    cbn [copies] in Cp; try contradiction; [reflexivity|].
  destruct Cp as (X1 & X2). pose proof (Hk _ _ _ X1) as Ek. cbn [fst] in Ek. subst k'.
  cbn [map snd length seq] in Sq. inversion Sq as [[Ei Sq']]. cbn [mk_forest].
  pose proof (Hf 0 (k, i) eq_refl) as F0. rewrite Nat.add_0_r in F0. cbn [snd] in F0. rewrite F0.
  rewrite (IH ns cs X2 (S next) Sq'); [reflexivity|].
  intros p kc Hp. replace (S next + p) with (next + S p) by lia. apply Hf. exact Hp.
Qed.

Lemma copies_nth P ch ns cs p kc :
  copies P ch ns cs -> nth_error ch p = Some kc ->
  exists n c, nth_error ns p = Some n /\ nth_error cs p = Some c /\ P kc n c.
Proof.
  revert ns cs p. induction ch as [|kc0 ch IH]; intros [|n ns] [|c cs] p Cp Hp; cbn [copies] in Cp; try contradiction.
  - destruct p; discriminate.
  - destruct Cp as (X1 & X2). destruct p as [|p]; cbn [nth_error] in *.
    + inversion Hp; subst. eauto.
    + apply (IH ns cs p X2 Hp).
Qed.

Theorem make_owned_view a idx :
  AInv a -> TInv a -> EInv a -> cpn a <= idx -> idx < length (a_nodes a) ->
  (forall d j, j < length (a_nodes a) -> vview d (make_owned a idx) j = vview d a j)
  /\ (forall e, e < length (a_entries a) -> a_with_entry (make_owned a idx) e = a_with_entry a e)
  /\ EInv (make_owned a idx).
Proof.
  intros H T HE Hi Hlt. unfold make_owned.
  destruct (Nat.eqb (an_cgen (node_at a idx)) (an_gen (node_at a idx))); [auto|].
  set (n := node_at a idx). set (L := length (a_nodes a)).
  pose proof (migrate_children_view (an_ch n) a (an_gen n) L HE) as M.
  pose proof (migrate_children_spec (an_ch n) a (an_gen n) L) as M0.
  destruct (migrate_children a (an_gen n) L (an_ch n)) as [[a1 ns] cs].
  destruct M as (V1 & (es & E1) & Cp & Sq). destruct M0 as (_ & N1 & _ & Ln & _).
  set (a2 := mkA (a_gens a1) (a_entries a1) (a_values a1) (a_nodes a1 ++ ns)).
  set (newn := mkAN (an_gen n) (an_val n) (an_path n) (an_gen n) cs).
  set (A := set_node a2 idx newn).
  assert (WE : forall e, a_with_entry A e = a_with_entry a1 e) by reflexivity.
  assert (Wold : forall e, e < length (a_entries a) -> a_with_entry A e = a_with_entry a e).
  { intros e He. rewrite WE. eapply with_entry_app; eauto. }
  assert (Len2 : length (a_nodes a2) = L + length ns) by (unfold a2; cbn [a_nodes]; rewrite app_length, N1; reflexivity).
  assert (Nidx : node_at A idx = newn).
  { unfold A. rewrite node_at_set_node, Nat.eqb_refl. destruct (Nat.ltb_spec idx (length (a_nodes a2))); [reflexivity | lia]. }
  assert (Nold : forall j, j < L -> j <> idx -> node_at A j = node_at a j).
  { intros j Hj Hne. unfold A. rewrite node_at_set_node. destruct (Nat.eqb_spec idx j); [congruence|].
    unfold node_at, a2. cbn [a_nodes]. rewrite app_nth1 by (rewrite N1; exact Hj). rewrite N1. reflexivity. }
  assert (Nnew : forall p n', nth_error ns p = Some n' -> node_at A (L + p) = n').
  { intros p n' Hp. unfold A. rewrite node_at_set_node. destruct (Nat.eqb_spec idx (L + p)); [lia|].
    unfold node_at, a2. cbn [a_nodes]. rewrite app_nth2 by (rewrite N1; fold L; lia). rewrite N1. fold L.
    replace (L + p - L) with p by lia. apply nth_error_nth. exact Hp. }
  assert (Vold : forall j, option_map (a_with_entry A) (an_val (node_at a j)) = option_map (a_with_entry a) (an_val (node_at a j))).
  { intros j. destruct (an_val (node_at a j)) as [e|] eqn:Ev; [|reflexivity]. cbn [option_map]. f_equal.
    apply Wold. apply (HE j e Ev). }
  assert (ChR : forall j c, j < L -> In c (map snd (an_ch (node_at a j))) -> c < L).
  { intros j c Hj Hin. apply (children_in_range a j c H T Hj Hin). }
  (* the view: old nodes and the copies, by induction on the depth *)
  assert (Main : forall d,
            (forall j, j < L -> vview d A j = vview d a j)
            /\ (forall p kc, nth_error (an_ch n) p = Some kc -> vview d A (L + p) = vview d a (snd kc))).
  { induction d as [|d (IH1 & IH2)]; [split; intros; rewrite !vview_0; reflexivity|]. split.
    - intros j Hj. rewrite !vview_S. destruct (Nat.eq_dec j idx) as [->|Hne].
      + rewrite Nidx. fold n. unfold newn. cbn [an_path an_val an_ch]. f_equal; [apply Vold|].
        apply (mk_forest_copies _ _ _ _ _ _ Cp (fun kc n' c X => proj1 X) L Sq IH2).
      + rewrite (Nold j Hj Hne). f_equal; [apply Vold|]. apply mk_forest_ext.
        intros c Hin. apply IH1. apply (ChR j c Hj Hin).
    - intros p kc Hp. destruct (copies_nth _ _ _ _ _ _ Cp Hp) as (n' & c & Hn & _ & (_ & Q2 & Q3 & Q4 & _)).
      rewrite !vview_S. rewrite (Nnew p n' Hn). rewrite Q2, Q3. f_equal.
      + rewrite <- Q4. destruct (an_val n'); reflexivity.
      + apply mk_forest_ext. intros gc Hin. apply IH1.
        assert (Hkc : snd kc < L).
        { apply (ChR idx (snd kc) Hlt). apply in_map. eapply nth_error_In. exact Hp. }
        apply (ChR (snd kc) gc Hkc Hin). }
  split; [intros d j Hj; apply (proj1 (Main d)); exact Hj|]. split; [exact Wold|].
  (* entries referenced by nodes exist *)
  intros j e Hv. change (a_entries A) with (a_entries a1). rewrite E1, app_length.
  destruct (Nat.eq_dec j idx) as [->|Hne].
  - rewrite Nidx in Hv. unfold newn in Hv. cbn [an_val] in Hv. pose proof (HE idx e Hv). lia.
  - destruct (Nat.lt_ge_cases j L) as [Hj|Hj].
    + rewrite (Nold j Hj Hne) in Hv. pose proof (HE j e Hv). lia.
    + destruct (nth_error ns (j - L)) as [n'|] eqn:Hn.
      * pose proof (Nnew (j - L) n' Hn) as X. replace (L + (j - L)) with j in X by lia. rewrite X in Hv.
        assert (exists kc, nth_error (an_ch n) (j - L) = Some kc) as [kc Hk].
        { destruct (nth_error (an_ch n) (j - L)) eqn:Y; [eauto|]. apply nth_error_None in Y.
          assert (nth_error ns (j - L) <> None) by congruence. apply nth_error_Some in H0. lia. }
        destruct (copies_nth _ _ _ _ _ _ Cp Hk) as (n'' & c & Hn' & _ & (_ & _ & _ & _ & Q5)).
        rewrite Hn in Hn'. inversion Hn'; subst n''. specialize (Q5 e Hv). rewrite E1, app_length in Q5. exact Q5.
      * apply nth_error_None in Hn. unfold A in Hv. rewrite node_at_set_node in Hv.
        destruct (Nat.eqb_spec idx j); [congruence|]. unfold node_at in Hv. rewrite nth_overflow in Hv by (rewrite Len2; lia).
        discriminate.
Qed.

(** * The copying lookup is [Radix.lookup] on the view, and keeps the view *)

Theorem get_entry_view : forall fuel a idx k,
  AInv a -> TInv a -> EInv a -> cpn a <= idx -> idx < length (a_nodes a) ->
  let r := a_get_entry fuel a idx k in
  option_map (a_with_entry (fst r)) (snd r) = lookup k (vview fuel a idx)
  /\ (forall d j, j < length (a_nodes a) -> vview d (fst r) j = vview d a j)
  /\ (forall e, e < length (a_entries a) -> a_with_entry (fst r) e = a_with_entry a e)
  /\ length (a_nodes a) <= length (a_nodes (fst r)) /\ length (a_entries a) <= length (a_entries (fst r))
  /\ EInv (fst r).
Proof.
  induction fuel as [|fuel IH]; intros a idx k H T HE Hi Hlt; cbn [a_get_entry].
  - cbn [fst snd option_map]. rewrite vview_0, lookup_node'. destruct (follow_stem k []); auto 10.
  - rewrite vview_S, lookup_node'.
    destruct (follow_stem k (an_path (node_at a idx))) as [|s ps|c k'|cm kc kr sc sr]; cbn [fst snd option_map]; auto 10.
    destruct (make_owned_view a idx H T HE Hi Hlt) as (Vw & We & HE1).
    destruct (make_owned_ok a idx H Hi) as (O1 & Eown). destruct (make_owned_t a idx H T Hi) as (T1 & _).
    set (a1 := make_owned a idx) in *. destruct (Ok_cp _ _ O1) as (F1 & _).
    assert (Ln1 : length (a_nodes a) <= length (a_nodes a1)) by apply O1.
    assert (Le1 : length (a_entries a) <= length (a_entries a1)).
    { destruct (Nat.le_gt_cases (length (a_entries a)) (length (a_entries a1))) as [X|X]; [exact X|]. exfalso.
      (* entries are never removed by [make_owned] *)
      unfold a1, make_owned in X. destruct (Nat.eqb _ _); [lia|].
      pose proof (migrate_children_view (an_ch (node_at a idx)) a (an_gen (node_at a idx)) (length (a_nodes a)) HE) as M.
      destruct (migrate_children a (an_gen (node_at a idx)) (length (a_nodes a)) (an_ch (node_at a idx))) as [[a' ns] cs].
      destruct M as (_ & (es & E) & _). cbn [set_node a_entries] in X. rewrite E, app_length in X. lia. }
    (* the view of [idx] is the same in [a1]; read the children there *)
    pose proof (Vw (S fuel) idx Hlt) as V1. rewrite !vview_S in V1. injection V1 as _ _ Vf. rewrite <- Vf.
    rewrite (lookup_mk_forest _ c k' _ 0).
    destruct (find_child c (an_ch (node_at a1 idx)) 0) as [[pos i]|] eqn:F; cbn [fst snd option_map].
    + destruct (find_child_in _ _ _ _ _ F) as [kk Hin].
      pose proof (make_owned_children a idx (kk, i) H Hi Hin) as Hci. cbn [snd] in Hci.
      assert (Hi1 : i < length (a_nodes a1)).
      { apply (T_g a1 T1 i). pose proof (owned_le_rc a1 idx i ltac:(lia)) as X.
        rewrite owned_unshared in X by (try assumption; lia).
        assert (In i (chi (node_at a1 idx))) by (unfold chi; apply in_map_iff; exists (kk, i); auto).
        apply cnt_pos in H0. lia. }
      destruct (IH a1 i k' (proj1 O1) T1 HE1 ltac:(lia) Hi1) as (R1 & R2 & R3 & R4 & R5 & R6).
      split; [exact R1|]. split; [intros d j Hj; rewrite R2 by lia; apply Vw; exact Hj|].
      split; [intros e He; rewrite R3 by lia; apply We; exact He|]. split; [lia|]. split; [lia | exact R6].
    + auto 10.
Qed.

(** The partial refinement statement for lookup: on an arena satisfying the invariants, the
    lookup of the arena machine returns (the entry holding) exactly what [Radix.lookup]
    finds in the radix tree that the abstraction function assigns to the root; the view of
    every node and the value of every entry that existed before are unchanged by the
    copying it does on the way, and the invariants are kept. *)
Theorem arena_lookup_refines_radix_partial a key r :
  AInv a -> TInv a -> EInv a -> cur_root a = Some r ->
  let res := a_lookup_key a key in
  option_map (a_with_entry (fst res)) (snd res) = lookup (nib key) (vview (S (length (nib key))) a r)
  /\ (forall d j, j < length (a_nodes a) -> vview d (fst res) j = vview d a j)
  /\ (forall e, e < length (a_entries a) -> a_with_entry (fst res) e = a_with_entry a e)
  /\ EInv (fst res).
Proof.
  intros H T HE Er. unfold a_lookup_key. rewrite Er.
  assert (Hr : r < length (a_nodes a)) by (apply (T_g a T r); unfold rc, rroot; rewrite Er, Nat.eqb_refl; lia).
  destruct (get_entry_view (S (length (nib key))) a r (nib key) H T HE (AI_root a H r Er) Hr) as (R1 & R2 & R3 & _ & _ & R6).
  auto.
Qed.

(** Non-vacuity: the view of a concrete arena after a checkpoint, and a lookup through
    shared children. *)
Example view_example :
  let s := as_run [OInsert [18%N] [1%N]; OInsert [19%N] [2%N]; ONewGen] as_init in
  let a := as_arena s in
  exists r, cur_root a = Some r
    /\ lookup (nib [19%N]) (vview 3 a r) = Some (Some [2%N])
    /\ option_map (a_with_entry (fst (a_lookup_key a [19%N]))) (snd (a_lookup_key a [19%N])) = Some (Some [2%N])
    /\ length (a_nodes (fst (a_lookup_key a [19%N]))) = length (a_nodes a) + 2.
Proof. eexists. vm_compute. repeat split. Qed.
