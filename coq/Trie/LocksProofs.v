(** The model machine of [Locks.v] (radix tree + prefix map + lazy iterators) produces,
    for every history, the outputs of the specification machine (sorted association list
    + snapshot iterators + "locked = under the prefix of a live iterator"). *)
From Coq Require Import NArith PeanoNat List Bool Lia Sorted.
From CB Require Import Trie.Radix.
From CB Require Import Trie.RadixProofs.
From CB Require Import Trie.PrefixMap.
From CB Require Import Trie.PrefixMapProofs.
From CB Require Import Trie.Locks.
Import ListNotations.
Local Open Scope N_scope.

(** * Keys: byte strings versus nibble strings *)

Definition mapk {V} (m : amap V) : amap V := map (fun kv => (nib (fst kv), snd kv)) m.

Lemma mapk_cons {V} k (v : V) m : mapk ((k, v) :: m) = (nib k, v) :: mapk m.
Proof. reflexivity. Qed.

Lemma a_lookup_mapk {V} k (m : amap V) : a_lookup (nib k) (mapk m) = a_lookup k m.
Proof.
  induction m as [|[k1 v1] m IH]; [reflexivity|].
  rewrite mapk_cons. cbn [a_lookup]. rewrite nib_eqb, IH. reflexivity.
Qed.

Lemma a_insert_mapk {V} k (v : V) m : a_insert (nib k) v (mapk m) = mapk (a_insert k v m).
Proof.
  induction m as [|[k1 v1] m IH]; [reflexivity|].
  rewrite mapk_cons. cbn [a_insert]. rewrite nib_eqb, nib_lex.
  destruct (list_eqb k k1); [reflexivity|]. destruct (lex_ltb k k1); [reflexivity|].
  rewrite mapk_cons, <- IH. reflexivity.
Qed.

Lemma filter_mapk {V} (P Q : list N -> bool) (m : amap V) :
  (forall k, P (nib k) = Q k) ->
  filter (fun kv => P (fst kv)) (mapk m) = mapk (filter (fun kv => Q (fst kv)) m).
Proof.
  intros H. induction m as [|[k1 v1] m IH]; [reflexivity|].
  rewrite mapk_cons. cbn [filter fst]. rewrite H.
  destruct (Q k1); [rewrite mapk_cons|]; rewrite IH; reflexivity.
Qed.

Lemma a_delete_mapk {V} k (m : amap V) : a_delete (nib k) (mapk m) = mapk (a_delete k m).
Proof.
  unfold a_delete. apply (filter_mapk (fun x => negb (list_eqb (nib k) x)) (fun x => negb (list_eqb k x))).
  intros x. rewrite nib_eqb. reflexivity.
Qed.

Lemma a_delete_prefix_mapk {V} k (m : amap V) :
  a_delete_prefix (nib k) (mapk m) = mapk (a_delete_prefix k m).
Proof.
  unfold a_delete_prefix. apply (filter_mapk (fun x => negb (is_prefix (nib k) x)) (fun x => negb (is_prefix k x))).
  intros x. rewrite nib_prefix. reflexivity.
Qed.

Lemma a_iterate_mapk {V} k (m : amap V) : a_iterate (nib k) (mapk m) = mapk (a_iterate k m).
Proof.
  unfold a_iterate. apply (filter_mapk (fun x => is_prefix (nib k) x) (fun x => is_prefix k x)).
  intros x. apply nib_prefix.
Qed.

Lemma mapk_nil {V} (m : amap V) : is_nil (mapk m) = is_nil m.
Proof. apply is_nil_map. Qed.

Lemma map_snd_mapk {V} (m : amap V) : map snd (mapk m) = map snd m.
Proof. unfold mapk. rewrite map_map. reflexivity. Qed.

(** * Locks: the prefix map against the live iterators *)

Lemma live_roots_app {A} (a b : list (option (list N * A))) :
  live_roots (a ++ b) = live_roots a ++ live_roots b.
Proof. unfold live_roots. apply flat_map_app. Qed.

Definition count_in (p : list N) (l : list (list N)) : N := N.of_nat (length (filter (list_eqb p) l)).

Lemma count_in_app p a b : count_in p (a ++ b) = count_in p a + count_in p b.
Proof. unfold count_in. rewrite filter_app, app_length. lia. Qed.

Lemma count_in_pos p l : 0 < count_in p l <-> In p l.
Proof. apply bag_count_pos. Qed.

Lemma s_count_eq p s : s_count p s = count_in p (live_roots (s_iters s)).
Proof. reflexivity. Qed.

Lemma live_roots_set_same {A} i p (x y : A) its :
  nth_error its i = Some (Some (p, x)) ->
  live_roots (set_nth i (Some (p, y)) its) = live_roots its.
Proof.
  revert i. induction its as [|o its IH]; intros [|i] H; cbn in *; try discriminate.
  - inversion H; subst. reflexivity.
  - unfold live_roots in *. cbn. f_equal. apply IH. assumption.
Qed.

Lemma live_roots_cons {A} (o : option (list N * A)) its :
  live_roots (o :: its) = (match o with Some (p, _) => [p] | None => [] end) ++ live_roots its.
Proof. reflexivity. Qed.

Lemma live_roots_in {A} i p (x : A) its :
  nth_error its i = Some (Some (p, x)) -> In p (live_roots its).
Proof.
  intros H. unfold live_roots. apply in_flat_map. exists (Some (p, x)). split.
  - eapply nth_error_In; eassumption.
  - left. reflexivity.
Qed.

Lemma live_roots_set_none_in {A} i (its : list (option (list N * A))) q :
  In q (live_roots (set_nth i None its)) -> In q (live_roots its).
Proof.
  revert i. induction its as [|o its IH]; intros [|i] H; cbn [set_nth] in *; try assumption.
  - rewrite live_roots_cons in *. cbn [app] in H. apply in_or_app. right. exact H.
  - rewrite live_roots_cons in *. apply in_app_iff in H as [H|H]; apply in_or_app; [left; exact H | right; eapply IH; exact H].
Qed.

Lemma count_in_set_none {A} i p (x : A) its q :
  nth_error its i = Some (Some (p, x)) ->
  count_in q (live_roots (set_nth i None its)) =
  if list_eqb p q then count_in q (live_roots its) - 1 else count_in q (live_roots its).
Proof.
  revert i. induction its as [|o its IH]; intros [|i] H; cbn [nth_error set_nth] in *; try discriminate.
  - inversion H; subst. rewrite !live_roots_cons. cbn [app].
    unfold count_in. cbn [filter]. rewrite (list_eqb_sym q p).
    destruct (list_eqb p q); cbn [length]; lia.
  - rewrite !live_roots_cons, !count_in_app, (IH i H).
    destruct (list_eqb p q) eqn:Epq; [|reflexivity].
    apply list_eqb_spec in Epq. subst q.
    assert (X : 0 < count_in p (live_roots its)) by (apply count_in_pos; eapply live_roots_in; eassumption).
    lia.
Qed.

(** * The simulation relation *)

Definition after_b {V} (last : option (list N)) (l : amap V) : amap V :=
  match last with
  | None => l
  | Some k0 => filter (fun kv => lex_ltb k0 (fst kv)) l
  end.

Definition iter_rel (m : amap nat) (gi : option (list N * option (list N)))
           (si : option (list N * list (list N))) : Prop :=
  match gi, si with
  | None, None => True
  | Some (p, last), Some (p', rem) => p = p' /\ rem = map fst (after_b last (a_iterate p m))
  | _, _ => False
  end.

Record R (g : gen) (s : sgen) : Prop := mkR {
  R_wf : wfb_root (g_root g) = true;
  R_map : to_list_root (g_root g) = mapk (s_map s);
  R_sorted : ksorted (s_map s);
  R_ents : g_ents g = s_ents s;
  R_handles : g_handles g = s_handles s;
  R_pwf : pm_wf (g_locks g) = true;
  R_locks : forall p, pm_count p (g_locks g) = s_count p s;
  R_iters : Forall2 (iter_rel (s_map s)) (g_iters g) (s_iters s);
  R_live : forall p, In p (live_roots (s_iters s)) -> is_nil (a_iterate p (s_map s)) = false
}.

Lemma lookup_agree g s k : R g s -> lookup_root (nib k) (g_root g) = a_lookup k (s_map s).
Proof.
  intros HR. rewrite <- a_lookup_to_list_root by apply HR. rewrite (R_map _ _ HR). apply a_lookup_mapk.
Qed.

Lemma existsb_false {A} (f : A -> bool) l : existsb f l = false -> forall x, In x l -> f x = false.
Proof.
  intros H x Hx. destruct (f x) eqn:E; [|reflexivity].
  assert (existsb f l = true) by (apply existsb_exists; eauto). congruence.
Qed.

Lemma count_zero_not_in p s : s_count p s = 0 -> ~ In p (live_roots (s_iters s)).
Proof. intros H Hin. apply count_in_pos in Hin. rewrite <- s_count_eq in Hin. lia. Qed.

Lemma locked_agree g s k : R g s -> negb (pm_no_prefix k (g_locks g)) = s_locked k s.
Proof.
  intros HR. unfold s_locked. destruct (pm_no_prefix k (g_locks g)) eqn:E; cbn [negb]; symmetry.
  - destruct (existsb _ _) eqn:X; [|reflexivity]. exfalso.
    apply existsb_exists in X as (p & Hin & Hp).
    pose proof (proj1 (pm_no_prefix_spec k _) E p Hp) as Z. rewrite (R_locks _ _ HR) in Z.
    eapply count_zero_not_in; eassumption.
  - destruct (existsb _ _) eqn:X; [reflexivity|]. exfalso.
    assert (Y : pm_no_prefix k (g_locks g) = true).
    { apply pm_no_prefix_spec. intros p Hp. rewrite (R_locks _ _ HR).
      destruct (N.eq_0_gt_0_cases (s_count p s)) as [Z|Z]; [exact Z|].
      rewrite s_count_eq in Z. apply count_in_pos in Z.
      pose proof (existsb_false _ _ X p Z) as W. cbn in W. congruence. }
    congruence.
Qed.

Lemma locked2_agree g s k : R g s -> pm_iohp k (g_locks g) = s_locked2 k s.
Proof.
  intros HR. unfold s_locked2. apply bool_eq_iff.
  rewrite (pm_iohp_spec k _ (R_pwf _ _ HR)), existsb_exists. split.
  - intros (p & Hp & Hrel). rewrite (R_locks _ _ HR), s_count_eq in Hp. apply count_in_pos in Hp.
    exists p. split; [exact Hp|]. apply orb_true_iff. exact Hrel.
  - intros (p & Hin & Hrel). exists p. rewrite (R_locks _ _ HR), s_count_eq.
    split; [apply count_in_pos; exact Hin|]. apply orb_true_iff. exact Hrel.
Qed.

Lemma root_agree g s : R g s ->
  match g_root g with None => s_map s = [] | Some _ => s_map s <> [] end.
Proof.
  intros HR. pose proof (R_map _ _ HR) as HM. pose proof (R_wf _ _ HR) as HW.
  destruct (g_root g) as [t|]; cbn [to_list_root wfb_root] in *.
  - intros E. rewrite E in HM. cbn in HM.
    pose proof (proj1 to_list_nonempty_mut t HW) as X. rewrite HM in X. discriminate.
  - destruct (s_map s); [reflexivity | discriminate].
Qed.

Lemma iter_roots_agree m gi si :
  Forall2 (iter_rel m) gi si -> live_roots gi = live_roots si.
Proof.
  induction 1 as [|a b gi si Hab _ IH]; [reflexivity|].
  rewrite !live_roots_cons, IH. destruct a as [[p l]|], b as [[p' r]|]; cbn in Hab; try contradiction.
  - destruct Hab as [-> _]. reflexivity.
  - reflexivity.
Qed.

Lemma iter_rel_change m m' gi si :
  Forall2 (iter_rel m) gi si ->
  (forall p, In p (live_roots si) -> a_iterate p m' = a_iterate p m) ->
  Forall2 (iter_rel m') gi si.
Proof.
  induction 1 as [|a b gi si Hab _ IH]; intros Hsame; constructor.
  - destruct a as [[p l]|], b as [[p' r]|]; cbn [iter_rel] in Hab |- *; try contradiction; auto.
    destruct Hab as [-> ->]. split; [reflexivity|]. rewrite Hsame; [reflexivity|].
    rewrite live_roots_cons. left. reflexivity.
  - apply IH. intros p Hp. apply Hsame. rewrite live_roots_cons. apply in_or_app. right. exact Hp.
Qed.

Lemma filter_filter_impl {A} (P Q : A -> bool) l :
  (forall x, In x l -> P x = true -> Q x = true) -> filter P (filter Q l) = filter P l.
Proof.
  induction l as [|a l IH]; intros H; cbn; [reflexivity|].
  destruct (Q a) eqn:EQ; cbn.
  - destruct (P a); rewrite IH; auto; intros x Hx; apply H; right; exact Hx.
  - destruct (P a) eqn:EP.
    + rewrite (H a (or_introl eq_refl) EP) in EQ. discriminate.
    + apply IH. intros x Hx. apply H. right. exact Hx.
Qed.

Lemma a_iterate_insert_other {V} p k (v : V) m :
  is_prefix p k = false -> a_iterate p (a_insert k v m) = a_iterate p m.
Proof.
  intros Hp. unfold a_iterate. induction m as [|[k1 v1] m IH]; cbn [a_insert filter fst].
  - rewrite Hp. reflexivity.
  - destruct (list_eqb k k1) eqn:E.
    + apply list_eqb_spec in E. subst k1. cbn [filter fst]. rewrite Hp. reflexivity.
    + destruct (lex_ltb k k1); cbn [filter fst]; [rewrite Hp; reflexivity|].
      rewrite IH. reflexivity.
Qed.

Lemma a_iterate_delete_other {V} p k (m : amap V) :
  is_prefix p k = false -> a_iterate p (a_delete k m) = a_iterate p m.
Proof.
  intros Hp. unfold a_iterate, a_delete. apply filter_filter_impl.
  intros [x y] _ Hx. cbn in *. apply negb_true_iff. apply list_eqb_neq. intros ->. congruence.
Qed.

Lemma a_iterate_delete_prefix_other {V} p q (m : amap V) :
  is_prefix p q = false -> is_prefix q p = false ->
  a_iterate p (a_delete_prefix q m) = a_iterate p m.
Proof.
  intros H1 H2. unfold a_iterate, a_delete_prefix. apply filter_filter_impl.
  intros [x y] _ Hx. cbn in *. apply negb_true_iff.
  destruct (is_prefix q x) eqn:E; [|reflexivity].
  destruct (is_prefix_comparable p q x Hx E); congruence.
Qed.

Lemma locked_false_roots k s p :
  s_locked k s = false -> In p (live_roots (s_iters s)) -> is_prefix p k = false.
Proof. intros H Hin. exact (existsb_false _ _ H p Hin). Qed.

Lemma locked2_false_roots k s p :
  s_locked2 k s = false -> In p (live_roots (s_iters s)) ->
  is_prefix p k = false /\ is_prefix k p = false.
Proof.
  intros H Hin. pose proof (existsb_false _ _ H p Hin) as X. cbn in X.
  apply orb_false_iff in X. exact X.
Qed.

(** * List helpers *)

Lemma Forall2_nth_error {A B} (P : A -> B -> Prop) l1 l2 i :
  Forall2 P l1 l2 ->
  match nth_error l1 i, nth_error l2 i with
  | Some a, Some b => P a b
  | None, None => True
  | _, _ => False
  end.
Proof.
  intros H. revert i. induction H as [|a b l1 l2 Hab _ IH]; intros [|i]; cbn; auto. apply IH.
Qed.

Lemma Forall2_set_nth {A B} (P : A -> B -> Prop) l1 l2 i a b :
  Forall2 P l1 l2 -> P a b -> Forall2 P (set_nth i a l1) (set_nth i b l2).
Proof.
  intros H Hab. revert i. induction H as [|x y l1 l2 Hxy H IH]; intros [|i]; cbn; constructor; auto.
Qed.

Lemma Forall2_skipn {A B} (P : A -> B -> Prop) l1 l2 n :
  Forall2 P l1 l2 -> Forall2 P (skipn n l1) (skipn n l2).
Proof.
  intros H. revert n. induction H as [|x y l1 l2 Hxy H IH]; intros [|n]; cbn; auto.
Qed.

Lemma Forall2_length_eq {A B} (P : A -> B -> Prop) l1 l2 : Forall2 P l1 l2 -> length l1 = length l2.
Proof. induction 1; cbn; congruence. Qed.

Lemma after_step {V} last (X : amap V) kb e T :
  ksorted X -> after_b last X = (kb, e) :: T -> after_b (Some kb) X = T.
Proof.
  intros HX HL.
  assert (Hs : ksorted ((kb, e) :: T)).
  { rewrite <- HL. destruct last; cbn [after_b]; [apply ksorted_filter|]; assumption. }
  assert (HT : filter (fun kv => lex_ltb kb (fst kv)) ((kb, e) :: T) = T).
  { cbn [filter fst]. rewrite lex_ltb_irrefl. apply filter_all.
    inversion Hs as [|? ? _ Hall]; subst. rewrite Forall_forall in Hall. intros x Hx. exact (Hall x Hx). }
  cbn [after_b]. rewrite <- HT. rewrite <- HL.
  destruct last as [k0|]; cbn [after_b]; [|reflexivity].
  symmetry. apply filter_filter_impl. intros x Hx Hk.
  assert (Hk0 : lex_ltb k0 kb = true).
  { assert (Hin : In (kb, e) (filter (fun kv => lex_ltb k0 (fst kv)) X)) by (cbn [after_b] in HL; rewrite HL; left; reflexivity).
    apply filter_In in Hin as [_ Hin]. exact Hin. }
  eapply lex_ltb_trans; eassumption.
Qed.

Lemma s_delete_eq k g :
  s_delete k g =
  if is_nil (s_map g) then (g, RBool false)
  else if s_locked k g then (g, RLocked)
  else match a_lookup k (s_map g) with
       | None => (g, RBool false)
       | Some e =>
           (s_with_ents (s_with_map g (a_delete k (s_map g))) (set_nth e None (s_ents g)),
            RBool (match ent_get (s_ents g) e with Some _ => true | None => false end))
       end.
Proof. unfold s_delete. destruct (s_map g); reflexivity. Qed.

Lemma s_delete_prefix_eq k g :
  s_delete_prefix k g =
  if is_nil (s_map g) then (g, RBool false)
  else if s_locked2 k g then (g, RLocked)
  else if is_nil (a_iterate k (s_map g)) then (g, RBool false)
  else (s_with_ents (s_with_map g (a_delete_prefix k (s_map g)))
                    (kill (s_ents g) (map snd (a_iterate k (s_map g)))), RBool true).
Proof.
  unfold s_delete_prefix. destruct (s_map g) eqn:E; [reflexivity|]. cbn [is_nil].
  destruct (s_locked2 k g); [reflexivity|]. destruct (a_iterate k (p :: a)); reflexivity.
Qed.

Lemma s_iter_eq k g :
  s_iter k g =
  if is_nil (a_iterate k (s_map g)) then (g, RNone)
  else if s_count k g =? MAXC then (g, RTooMany)
  else (s_with_iters g (s_iters g ++ [Some (k, map fst (a_iterate k (s_map g)))]),
        RIter (length (s_iters g))).
Proof. unfold s_iter. destruct (a_iterate k (s_map g)); reflexivity. Qed.

Lemma m_delete_eq k g :
  m_delete k g =
  match g_root g with
  | None => (g, RBool false)
  | Some t =>
      if negb (pm_no_prefix k (g_locks g)) then (g, RLocked) else
      match lookup_root (nib k) (g_root g) with
      | None => (g, RBool false)
      | Some e =>
          (with_ents (with_root g (delete_root (nib k) (g_root g))) (set_nth e None (g_ents g)),
           RBool (match ent_get (g_ents g) e with Some _ => true | None => false end))
      end
  end.
Proof. unfold m_delete. destruct (g_root g); reflexivity. Qed.

Lemma m_delete_prefix_eq k g :
  m_delete_prefix k g =
  match g_root g with
  | None => (g, RBool false)
  | Some t =>
      if pm_iohp k (g_locks g) then (g, RLocked) else
      if has_prefix_root (nib k) (g_root g) then
        (with_ents (with_root g (delete_prefix_root (nib k) (g_root g)))
                   (kill (g_ents g) (map snd (iterate_root (nib k) (g_root g)))), RBool true)
      else (g, RBool false)
  end.
Proof. unfold m_delete_prefix. destruct (g_root g); reflexivity. Qed.

Lemma m_iter_eq k g :
  m_iter k g =
  match g_root g with
  | None => (g, RNone)
  | Some t =>
      if has_prefix_root (nib k) (g_root g) then
        match pm_insert k (g_locks g) with
        | None => (g, RTooMany)
        | Some l' => (with_locks_iters g l' (g_iters g ++ [Some (k, None)]), RIter (length (g_iters g)))
        end
      else (g, RNone)
  end.
Proof. unfold m_iter. destruct (g_root g); reflexivity. Qed.

(** * Every operation preserves the relation and produces the same output *)

Ltac proj_simpl :=
  cbn [g_root g_ents g_locks g_handles g_iters s_map s_ents s_handles s_iters
       with_handle with_ents with_root with_locks_iters
       s_with_handle s_with_ents s_with_map s_with_iters fst snd] in *.

Definition sim (mo : gen * out) (so : sgen * out) : Prop :=
  snd mo = snd so /\ R (fst mo) (fst so).

Lemma sim_same g s o : R g s -> sim (g, o) (s, o).
Proof. intros H. split; [reflexivity | exact H]. Qed.

Lemma R_with_handle g s e : R g s -> R (with_handle g e) (s_with_handle s e).
Proof.
  intros [A B C D E F G H J]. constructor; proj_simpl; auto. rewrite E. reflexivity.
Qed.

Lemma R_with_ents g s ents : R g s -> R (with_ents g ents) (s_with_ents s ents).
Proof. intros [A B C D E F G H J]. constructor; proj_simpl; auto. Qed.

Lemma sim_insert k v g s : R g s -> sim (m_insert k v g) (s_insert k v s).
Proof.
  intros HR. unfold m_insert, s_insert. rewrite (locked_agree g s k HR).
  destruct (s_locked k s) eqn:EL; [apply sim_same; assumption|].
  rewrite (lookup_agree g s k HR), (R_handles _ _ HR), (R_ents _ _ HR).
  destruct (a_lookup k (s_map s)) as [e|] eqn:E.
  - split; [reflexivity|]. cbn [fst]. apply R_with_handle.
    rewrite <- (R_ents _ _ HR). apply R_with_ents. exact HR.
  - split; [reflexivity|]. cbn [fst]. apply R_with_handle. apply R_with_ents.
    destruct HR as [A B C D F G H I J]. constructor; proj_simpl; auto.
    + cbn [wfb_root]. apply wfb_insert_root. assumption.
    + cbn [to_list_root]. rewrite to_list_insert_root by assumption. rewrite B. apply a_insert_mapk.
    + apply ksorted_insert. assumption.
    + eapply iter_rel_change; [eassumption|]. intros p Hp.
      apply a_iterate_insert_other. eapply locked_false_roots; eassumption.
    + intros p Hp. rewrite a_iterate_insert_other; [apply J; assumption | eapply locked_false_roots; eassumption].
Qed.

Lemma sim_get k g s : R g s -> sim (m_get k g) (s_get k s).
Proof.
  intros HR. unfold m_get, s_get. rewrite (lookup_agree g s k HR), (R_handles _ _ HR), (R_ents _ _ HR).
  destruct (a_lookup k (s_map s)); [|apply sim_same; assumption].
  split; [reflexivity|]. cbn [fst]. apply R_with_handle. exact HR.
Qed.

Lemma sim_read h g s : R g s -> sim (m_read h g) (s_read h s).
Proof.
  intros HR. unfold m_read, s_read. rewrite (R_handles _ _ HR), (R_ents _ _ HR).
  destruct (nth_error (s_handles s) h); apply sim_same; assumption.
Qed.

Lemma sim_set h v g s : R g s -> sim (m_set h v g) (s_set h v s).
Proof.
  intros HR. unfold m_set, s_set. rewrite (R_handles _ _ HR), (R_ents _ _ HR).
  destruct (nth_error (s_handles s) h); [|apply sim_same; assumption].
  destruct (ent_get (s_ents s) n); [|apply sim_same; assumption].
  split; [reflexivity|]. cbn [fst]. apply R_with_ents. exact HR.
Qed.

Lemma sim_mut h v g s : R g s -> sim (m_mut h v g) (s_mut h v s).
Proof.
  intros HR. unfold m_mut, s_mut. rewrite (R_handles _ _ HR), (R_ents _ _ HR).
  destruct (nth_error (s_handles s) h); [|apply sim_same; assumption].
  destruct (ent_get (s_ents s) n); [|apply sim_same; assumption].
  split; [reflexivity|]. cbn [fst]. apply R_with_ents. exact HR.
Qed.

Lemma root_nil_agree g s : R g s ->
  match g_root g with None => is_nil (s_map s) = true | Some _ => is_nil (s_map s) = false end.
Proof.
  intros HR. pose proof (root_agree g s HR) as H. destruct (g_root g).
  - destruct (s_map s); [congruence | reflexivity].
  - rewrite H. reflexivity.
Qed.

Lemma sim_delete k g s : R g s -> sim (m_delete k g) (s_delete k s).
Proof.
  intros HR. rewrite m_delete_eq, s_delete_eq. pose proof (root_nil_agree g s HR) as HN.
  destruct (g_root g) as [t|] eqn:Eroot; rewrite HN; [|apply sim_same; assumption].
  rewrite <- Eroot. rewrite (locked_agree g s k HR).
  destruct (s_locked k s) eqn:EL; [apply sim_same; assumption|].
  rewrite (lookup_agree g s k HR), (R_ents _ _ HR).
  destruct (a_lookup k (s_map s)) as [e|] eqn:E; [|apply sim_same; assumption].
  split; [reflexivity|]. cbn [fst]. rewrite <- (R_ents _ _ HR). apply R_with_ents.
  destruct HR as [A B C D F G H I J]. constructor; proj_simpl; auto.
  - rewrite Eroot. cbn [delete_root]. rewrite Eroot in A. apply wfb_delete. exact A.
  - rewrite Eroot in *. cbn [delete_root to_list_root wfb_root] in *.
    rewrite to_list_delete by assumption. rewrite B. apply a_delete_mapk.
  - apply ksorted_filter. assumption.
  - eapply iter_rel_change; [eassumption|]. intros p Hp.
    apply a_iterate_delete_other. eapply locked_false_roots; eassumption.
  - intros p Hp. rewrite a_iterate_delete_other; [apply J; assumption | eapply locked_false_roots; eassumption].
Qed.

Lemma has_prefix_agree g s k : R g s ->
  has_prefix_root (nib k) (g_root g) = negb (is_nil (a_iterate k (s_map s))).
Proof.
  intros HR. rewrite has_prefix_root_spec by apply HR.
  rewrite (R_map _ _ HR), a_iterate_mapk, mapk_nil. reflexivity.
Qed.

Lemma iterate_agree g s k : R g s ->
  iterate_root (nib k) (g_root g) = mapk (a_iterate k (s_map s)).
Proof.
  intros HR. rewrite iterate_root_spec by apply HR. rewrite (R_map _ _ HR). apply a_iterate_mapk.
Qed.

Lemma sim_delete_prefix k g s : R g s -> sim (m_delete_prefix k g) (s_delete_prefix k s).
Proof.
  intros HR. rewrite m_delete_prefix_eq, s_delete_prefix_eq. pose proof (root_nil_agree g s HR) as HN.
  destruct (g_root g) as [t|] eqn:Eroot; rewrite HN; [|apply sim_same; assumption].
  rewrite <- Eroot. rewrite (locked2_agree g s k HR).
  destruct (s_locked2 k s) eqn:EL; [apply sim_same; assumption|].
  rewrite (has_prefix_agree g s k HR).
  destruct (is_nil (a_iterate k (s_map s))) eqn:EN; cbn [negb]; [apply sim_same; assumption|].
  rewrite (iterate_agree g s k HR), map_snd_mapk, (R_ents _ _ HR).
  split; [reflexivity|]. cbn [fst]. apply R_with_ents.
  destruct HR as [A B C D F G H I J]. constructor; proj_simpl; auto.
  - rewrite Eroot. cbn [delete_prefix_root]. rewrite Eroot in A. apply wfb_delete_prefix. exact A.
  - rewrite Eroot in *. cbn [delete_prefix_root to_list_root wfb_root] in *.
    rewrite to_list_delete_prefix by assumption. rewrite B. apply a_delete_prefix_mapk.
  - apply ksorted_filter. assumption.
  - eapply iter_rel_change; [eassumption|]. intros p Hp.
    destruct (locked2_false_roots k s p EL Hp) as [X Y].
    apply a_iterate_delete_prefix_other; assumption.
  - intros p Hp. destruct (locked2_false_roots k s p EL Hp) as [X Y].
    rewrite a_iterate_delete_prefix_other by assumption. apply J; assumption.
Qed.

Lemma count_in_single {A} p k (x : A) :
  count_in p (live_roots [Some (k, x)]) = if list_eqb p k then 1 else 0.
Proof. unfold live_roots, count_in. cbn. destruct (list_eqb p k); reflexivity. Qed.

Lemma sim_iter k g s : R g s -> sim (m_iter k g) (s_iter k s).
Proof.
  intros HR. rewrite m_iter_eq, s_iter_eq.
  pose proof (root_nil_agree g s HR) as HN.
  destruct (g_root g) as [t|] eqn:Eroot.
  2:{ destruct (s_map s); [|discriminate]. cbn. apply sim_same; assumption. }
  rewrite <- Eroot. rewrite (has_prefix_agree g s k HR).
  destruct (is_nil (a_iterate k (s_map s))) eqn:EN; cbn [negb]; [apply sim_same; assumption|].
  pose proof (pm_insert_none k (g_locks g) (R_pwf _ _ HR)) as HO.
  rewrite (R_locks _ _ HR) in HO.
  destruct (N.eqb_spec (s_count k s) MAXC) as [EM|EM].
  - rewrite (proj2 HO EM). apply sim_same; assumption.
  - destruct (pm_insert k (g_locks g)) as [l'|] eqn:EI; [|exfalso; apply EM; apply HO; reflexivity].
    pose proof (Forall2_length_eq _ _ _ (R_iters _ _ HR)) as HL.
    split; [cbn [snd]; rewrite HL; reflexivity|]. cbn [fst].
    destruct HR as [A B C D F G H I J]. constructor; proj_simpl; auto.
    + eapply pm_wf_insert; eassumption.
    + intros p. rewrite (pm_count_insert k _ l' p G EI), H.
      rewrite !s_count_eq. proj_simpl. rewrite live_roots_app, count_in_app, count_in_single.
      rewrite (list_eqb_sym p k). destruct (list_eqb k p); lia.
    + apply Forall2_app; [assumption|]. constructor; [|constructor].
      cbn [iter_rel after_b]. split; reflexivity.
    + intros p Hp. rewrite live_roots_app in Hp. apply in_app_iff in Hp as [Hp|Hp]; [apply J; assumption|].
      unfold live_roots in Hp. cbn in Hp. destruct Hp as [<-|[]]. exact EN.
Qed.

Lemma after_agree {V} last (X : amap V) :
  after last (mapk X) = mapk (after_b last X).
Proof.
  destruct last as [k0|]; cbn [after after_b]; [|reflexivity].
  apply (filter_mapk (fun x => lex_ltb (nib k0) x) (fun x => lex_ltb k0 x)). intros x. apply nib_lex.
Qed.

Lemma sim_next i g s : R g s -> sim (m_next i g) (s_next i s).
Proof.
  intros HR. unfold m_next, s_next.
  pose proof (Forall2_nth_error _ _ _ i (R_iters _ _ HR)) as HI.
  destruct (nth_error (g_iters g) i) as [[[p last]|]|] eqn:EG;
    destruct (nth_error (s_iters s) i) as [[[p' rem]|]|] eqn:ES; cbn [iter_rel] in HI; try contradiction;
    try (apply sim_same; assumption).
  destruct HI as [<- Hrem].
  rewrite (iterate_agree g s p HR), after_agree.
  destruct (after_b last (a_iterate p (s_map s))) as [|[kb e] T] eqn:EL.
  - subst rem. cbn. apply sim_same; assumption.
  - subst rem. rewrite mapk_cons. cbn [map fst].
    assert (Hin : In (kb, e) (s_map s)).
    { assert (X : In (kb, e) (after_b last (a_iterate p (s_map s)))) by (rewrite EL; left; reflexivity).
      destruct last; cbn [after_b] in X; [apply filter_In in X as [X _]|]; apply filter_In in X as [X _]; exact X. }
    rewrite (ksorted_in_lookup kb e (s_map s) (R_sorted _ _ HR) Hin).
    rewrite unnib_nib, (R_handles _ _ HR), (R_ents _ _ HR).
    split; [reflexivity|]. cbn [fst]. apply R_with_handle.
    destruct HR as [A B C D F G H I J]. constructor; proj_simpl; auto.
    + intros q. rewrite H, !s_count_eq. proj_simpl.
      rewrite (live_roots_set_same i p _ (map fst T) (s_iters s) ES). reflexivity.
    + apply Forall2_set_nth; [assumption|]. cbn [iter_rel]. split; [reflexivity|].
      f_equal. symmetry. eapply after_step; [|exact EL].
      apply ksorted_filter. assumption.
    + intros q Hq. rewrite (live_roots_set_same i p _ (map fst T) (s_iters s) ES) in Hq. apply J; assumption.
Qed.

Lemma sim_deliter i g s : R g s -> sim (m_deliter i g) (s_deliter i s).
Proof.
  intros HR. unfold m_deliter, s_deliter.
  pose proof (Forall2_nth_error _ _ _ i (R_iters _ _ HR)) as HI.
  destruct (nth_error (g_iters g) i) as [[[p last]|]|] eqn:EG;
    destruct (nth_error (s_iters s) i) as [[[p' rem]|]|] eqn:ES; cbn [iter_rel] in HI; try contradiction;
    try (apply sim_same; assumption).
  destruct HI as [<- Hrem].
  destruct (pm_delete_spec p (g_locks g) p (R_pwf _ _ HR)) as (HA & _ & HC).
  destruct (pm_delete p (g_locks g)) as [l' b] eqn:ED. cbn [fst snd] in *.
  assert (Hpos : 0 < s_count p s).
  { rewrite s_count_eq. apply count_in_pos. eapply live_roots_in; eassumption. }
  split.
  - cbn [snd]. rewrite HA, (R_locks _ _ HR). destruct (N.eqb_spec (s_count p s) 0); [lia | reflexivity].
  - cbn [fst]. pose proof HR as HR0. destruct HR as [A B C D F G H I J]. constructor; proj_simpl; auto.
    + intros q. destruct (pm_delete_spec p (g_locks g) q G) as (_ & HB & _).
      rewrite ED in HB. cbn [fst] in HB. rewrite HB, !H, !s_count_eq. proj_simpl.
      rewrite (count_in_set_none i p rem (s_iters s) q ES). reflexivity.
    + apply Forall2_set_nth; [assumption|]. exact Logic.I.
    + intros q Hq. apply J. eapply live_roots_set_none_in; exact Hq.
Qed.

(** * Histories *)

Definition RS (m : state) (s : sstate) : Prop := Forall2 R m s.

Lemma sim_on_cur f f' m s :
  RS m s -> (forall g s0, R g s0 -> sim (f g) (f' s0)) ->
  snd (on_cur f m) = snd (s_on_cur f' s) /\ RS (fst (on_cur f m)) (fst (s_on_cur f' s)).
Proof.
  intros H Hf. destruct H as [|g s0 m s Hg Hrest]; cbn [on_cur s_on_cur].
  - split; [reflexivity | constructor].
  - destruct (Hf g s0 Hg) as [Ho Hr]. destruct (f g) as [g' o]. destruct (f' s0) as [s0' o'].
    cbn [fst snd] in *. split; [exact Ho|]. constructor; assumption.
Qed.

Lemma R_fresh g s : R g s -> R (mkGen (g_root g) (g_ents g) None [] []) (mkS (s_map s) (s_ents s) [] []).
Proof.
  intros [A B C D E F G H J]. constructor; proj_simpl; auto; try constructor. intros p [].
Qed.

Lemma dump_agree g s : R g s -> m_dump g = s_dump s.
Proof.
  intros HR. unfold m_dump, s_dump. rewrite (R_map _ _ HR), (R_ents _ _ HR).
  unfold mapk. rewrite map_map. apply map_ext. intros [k e]. cbn. rewrite unnib_nib. reflexivity.
Qed.

Lemma step_refines o m s :
  RS m s -> snd (m_step o m) = snd (s_step o s) /\ RS (fst (m_step o m)) (fst (s_step o s)).
Proof.
  intros H. destruct o; cbn [m_step s_step].
  - apply sim_on_cur; [assumption|]. intros. apply sim_insert. assumption.
  - apply sim_on_cur; [assumption|]. intros. apply sim_get. assumption.
  - apply sim_on_cur; [assumption|]. intros. apply sim_read. assumption.
  - apply sim_on_cur; [assumption|]. intros. apply sim_set. assumption.
  - apply sim_on_cur; [assumption|]. intros. apply sim_mut. assumption.
  - apply sim_on_cur; [assumption|]. intros. apply sim_delete. assumption.
  - apply sim_on_cur; [assumption|]. intros. apply sim_delete_prefix. assumption.
  - apply sim_on_cur; [assumption|]. intros. apply sim_iter. assumption.
  - apply sim_on_cur; [assumption|]. intros. apply sim_next. assumption.
  - apply sim_on_cur; [assumption|]. intros. apply sim_deliter. assumption.
  - pose proof (Forall2_length_eq _ _ _ H) as HL. destruct H as [|g s0 m s Hg Hrest]; cbn [fst snd].
    + split; [reflexivity | constructor].
    + split; [cbn [length] in *; congruence|]. constructor; [apply R_fresh; assumption|].
      constructor; assumption.
  - pose proof (Forall2_length_eq _ _ _ H) as HL. unfold normalize. cbn [fst snd]. rewrite HL.
    assert (X : RS (skipn (length s - S r) m) (skipn (length s - S r) s)) by (apply Forall2_skipn; assumption).
    split; [rewrite (Forall2_length_eq _ _ _ X); reflexivity | exact X].
  - destruct H as [|g s0 m s Hg Hrest]; cbn [fst snd].
    + split; [reflexivity | constructor].
    + split; [rewrite (dump_agree _ _ Hg); reflexivity | constructor; assumption].
  - destruct H as [|g s0 m s Hg Hrest]; cbn [fst snd].
    + split; [reflexivity | constructor].
    + split; [rewrite (dump_agree _ _ Hg); reflexivity|]. constructor; [apply R_fresh; assumption | constructor].
Qed.

Theorem run_refines ops m s : RS m s -> m_run ops m = s_run ops s.
Proof.
  revert m s. induction ops as [|o ops IH]; intros m s H; cbn [m_run s_run]; [reflexivity|].
  destruct (step_refines o m s H) as [Ho Hr].
  destruct (m_step o m) as [m' x]. destruct (s_step o s) as [s' y]. cbn [fst snd] in *.
  rewrite Ho, (IH m' s' Hr). reflexivity.
Qed.

Lemma RS_init : RS m_init s_init.
Proof.
  constructor; [|constructor]. constructor; cbn; auto; try constructor. intros p [].
Qed.

Theorem history_refines_all ops : m_run ops m_init = s_run ops s_init.
Proof. apply run_refines. apply RS_init. Qed.

(** The invariants of the model hold after every history. *)
Lemma RS_m_wf m s : RS m s -> m_wf m = true.
Proof.
  induction 1 as [|g s0 m s Hg _ IH]; [reflexivity|].
  unfold m_wf in *. cbn [forallb]. rewrite IH, (R_wf _ _ Hg), (R_pwf _ _ Hg). reflexivity.
Qed.

Fixpoint m_exec (ops : list op) (s : state) : state :=
  match ops with [] => s | o :: r => m_exec r (fst (m_step o s)) end.
Fixpoint s_exec (ops : list op) (s : sstate) : sstate :=
  match ops with [] => s | o :: r => s_exec r (fst (s_step o s)) end.

Lemma exec_refines ops m s : RS m s -> RS (m_exec ops m) (s_exec ops s).
Proof.
  revert m s. induction ops as [|o ops IH]; intros m s H; cbn; [assumption|].
  apply IH. apply step_refines. assumption.
Qed.

Theorem wf_preserved_all ops : m_wf (m_exec ops m_init) = true.
Proof. eapply RS_m_wf. apply exec_refines. apply RS_init. Qed.

(** * Generations: rollback restores, newer generations do not leak *)

Definition keeps (n : nat) (o : op) : Prop :=
  match o with
  | ONormalize r => (n <= r)%nat
  | OThaw => False
  | _ => True
  end.

Lemma on_cur_shape {G} (f : G -> G * out) (on : (G -> G * out) -> list G -> list G * out)
      (Hon : forall f l, on f l = match l with [] => ([], RSkip) | g :: rest => let (g', o) := f g in (g' :: rest, o) end)
      newer (base : list G) :
  newer <> [] -> exists newer', newer' <> [] /\ fst (on f (newer ++ base)) = newer' ++ base.
Proof.
  intros Hn. destruct newer as [|g newer]; [congruence|].
  rewrite Hon. cbn [app]. destruct (f g) as [g' o]. exists (g' :: newer). split; [discriminate | reflexivity].
Qed.

Lemma normalize_shape {G} r newer (base : list G) :
  newer <> [] -> (length base <= r)%nat ->
  exists newer', newer' <> [] /\ normalize r (newer ++ base) = newer' ++ base.
Proof.
  intros Hn Hr. unfold normalize. rewrite app_length.
  set (j := (length newer + length base - S r)%nat).
  assert (Hj : (j < length newer)%nat).
  { destruct newer; [congruence|]. cbn [length] in *. lia. }
  exists (skipn j newer). split.
  - intros E. apply (f_equal (@length G)) in E. rewrite skipn_length in E. cbn in E. lia.
  - rewrite skipn_app. replace (j - length newer)%nat with O by lia. reflexivity.
Qed.

Lemma m_step_shape o newer base :
  newer <> [] -> keeps (length base) o ->
  exists newer', newer' <> [] /\ fst (m_step o (newer ++ base)) = newer' ++ base.
Proof.
  intros Hn Hk.
  destruct o; cbn [m_step keeps] in *;
    try (apply (on_cur_shape _ on_cur); [intros; reflexivity | assumption]).
  - destruct newer as [|g newer]; [congruence|]. cbn [app fst].
    eexists (_ :: g :: newer). split; [discriminate | reflexivity].
  - cbn [fst]. apply normalize_shape; assumption.
  - destruct newer as [|g newer]; [congruence|]. cbn [app fst]. exists (g :: newer). split; [discriminate | reflexivity].
  - contradiction.
Qed.

Theorem m_no_leak ops base :
  base <> [] -> Forall (keeps (length base)) ops ->
  exists newer, newer <> [] /\ m_exec (ONewGen :: ops) base = newer ++ base.
Proof.
  intros Hb Hops.
  assert (H0 : exists newer, newer <> [] /\ fst (m_step ONewGen base) = newer ++ base).
  { destruct base as [|g rest]; [congruence|]. cbn. eexists [_]. split; [discriminate | reflexivity]. }
  cbn [m_exec]. destruct H0 as (newer & Hn & ->).
  revert newer Hn. induction Hops as [|o ops Ho _ IH]; intros newer Hn; cbn [m_exec].
  - exists newer. auto.
  - destruct (m_step_shape o newer base Hn Ho) as (newer' & Hn' & ->). apply IH. assumption.
Qed.

Lemma m_exec_app a b s : m_exec (a ++ b) s = m_exec b (m_exec a s).
Proof. revert s. induction a as [|o a IH]; intros s; cbn; [reflexivity | apply IH]. Qed.

Theorem m_rollback_restores ops base :
  base <> [] -> Forall (keeps (length base)) ops ->
  m_exec (ONewGen :: ops ++ [ONormalize (length base - 1)]) base = base.
Proof.
  intros Hb Hops. change (ONewGen :: ops ++ [ONormalize (length base - 1)])
    with ((ONewGen :: ops) ++ [ONormalize (length base - 1)]).
  rewrite m_exec_app. destruct (m_no_leak ops base Hb Hops) as (newer & Hn & ->).
  cbn [m_exec m_step fst]. unfold normalize. rewrite app_length.
  assert (Hl : (1 <= length base)%nat) by (destruct base; [congruence | cbn; lia]).
  replace (length newer + length base - S (length base - 1))%nat with (length newer) by lia.
  rewrite skipn_app, skipn_all, Nat.sub_diag. reflexivity.
Qed.

(** The same two facts for the specification machine. *)
Lemma s_step_shape o newer base :
  newer <> [] -> keeps (length base) o ->
  exists newer', newer' <> [] /\ fst (s_step o (newer ++ base)) = newer' ++ base.
Proof.
  intros Hn Hk.
  destruct o; cbn [s_step keeps] in *;
    try (apply (on_cur_shape _ s_on_cur); [intros; reflexivity | assumption]).
  - destruct newer as [|g newer]; [congruence|]. cbn [app fst].
    eexists (_ :: g :: newer). split; [discriminate | reflexivity].
  - cbn [fst]. apply normalize_shape; assumption.
  - destruct newer as [|g newer]; [congruence|]. cbn [app fst]. exists (g :: newer). split; [discriminate | reflexivity].
  - contradiction.
Qed.

Theorem s_no_leak ops base :
  base <> [] -> Forall (keeps (length base)) ops ->
  exists newer, newer <> [] /\ s_exec (ONewGen :: ops) base = newer ++ base.
Proof.
  intros Hb Hops.
  assert (H0 : exists newer, newer <> [] /\ fst (s_step ONewGen base) = newer ++ base).
  { destruct base as [|g rest]; [congruence|]. cbn. eexists [_]. split; [discriminate | reflexivity]. }
  cbn [s_exec]. destruct H0 as (newer & Hn & ->).
  revert newer Hn. induction Hops as [|o ops Ho _ IH]; intros newer Hn; cbn [s_exec].
  - exists newer. auto.
  - destruct (s_step_shape o newer base Hn Ho) as (newer' & Hn' & ->). apply IH. assumption.
Qed.

Lemma s_exec_app a b s : s_exec (a ++ b) s = s_exec b (s_exec a s).
Proof. revert s. induction a as [|o a IH]; intros s; cbn; [reflexivity | apply IH]. Qed.

Theorem s_rollback_restores ops base :
  base <> [] -> Forall (keeps (length base)) ops ->
  s_exec (ONewGen :: ops ++ [ONormalize (length base - 1)]) base = base.
Proof.
  intros Hb Hops. change (ONewGen :: ops ++ [ONormalize (length base - 1)])
    with ((ONewGen :: ops) ++ [ONormalize (length base - 1)]).
  rewrite s_exec_app. destruct (s_no_leak ops base Hb Hops) as (newer & Hn & ->).
  cbn [s_exec s_step fst]. unfold normalize. rewrite app_length.
  assert (Hl : (1 <= length base)%nat) by (destruct base; [congruence | cbn; lia]).
  replace (length newer + length base - S (length base - 1))%nat with (length newer) by lia.
  rewrite skipn_app, skipn_all, Nat.sub_diag. reflexivity.
Qed.

(** * Locks protect the state (C15) *)

Lemma live_root_locked g s p k :
  R g s -> In p (live_roots (g_iters g)) -> is_prefix p k = true -> s_locked k s = true.
Proof.
  intros HR Hin Hp. rewrite (iter_roots_agree _ _ _ (R_iters _ _ HR)) in Hin.
  unfold s_locked. apply existsb_exists. exists p. split; assumption.
Qed.

Lemma live_root_locked2 g s p k :
  R g s -> In p (live_roots (g_iters g)) -> is_prefix p k = true \/ is_prefix k p = true ->
  s_locked2 k s = true.
Proof.
  intros HR Hin Hp. rewrite (iter_roots_agree _ _ _ (R_iters _ _ HR)) in Hin.
  unfold s_locked2. apply existsb_exists. exists p. split; [assumption|]. apply orb_true_iff. exact Hp.
Qed.

Lemma live_root_nonempty g s p :
  R g s -> In p (live_roots (g_iters g)) -> exists t, g_root g = Some t.
Proof.
  intros HR Hin. rewrite (iter_roots_agree _ _ _ (R_iters _ _ HR)) in Hin.
  pose proof (R_live _ _ HR p Hin) as HL. pose proof (root_nil_agree g s HR) as HN.
  destruct (g_root g) as [t|]; [eauto|]. exfalso.
  destruct (s_map s); [discriminate HL | discriminate HN].
Qed.

Theorem locked_refused g s p k v :
  R g s -> In p (live_roots (g_iters g)) ->
  (is_prefix p k = true -> m_insert k v g = (g, RLocked) /\ m_delete k g = (g, RLocked))
  /\ (is_prefix p k = true \/ is_prefix k p = true -> m_delete_prefix k g = (g, RLocked)).
Proof.
  intros HR Hin. destruct (live_root_nonempty g s p HR Hin) as [t Ht]. split.
  - intros Hp. pose proof (live_root_locked g s p k HR Hin Hp) as HL. split.
    + unfold m_insert. rewrite (locked_agree g s k HR), HL. reflexivity.
    + rewrite m_delete_eq, Ht. rewrite (locked_agree g s k HR), HL. reflexivity.
  - intros Hp. pose proof (live_root_locked2 g s p k HR Hin Hp) as HL.
    rewrite m_delete_prefix_eq, Ht. rewrite (locked2_agree g s k HR), HL. reflexivity.
Qed.

Lemma reachable_R ops g rest :
  m_exec ops m_init = g :: rest -> exists s srest, s_exec ops s_init = s :: srest /\ R g s /\ RS rest srest.
Proof.
  intros H. pose proof (exec_refines ops m_init s_init RS_init) as X. rewrite H in X.
  inversion X as [|? s ? srest HRg Hrest]; subst. eauto.
Qed.

Theorem locked_refused_reachable ops g rest p k v :
  m_exec ops m_init = g :: rest -> In p (live_roots (g_iters g)) ->
  (is_prefix p k = true -> m_insert k v g = (g, RLocked) /\ m_delete k g = (g, RLocked))
  /\ (is_prefix p k = true \/ is_prefix k p = true -> m_delete_prefix k g = (g, RLocked)).
Proof.
  intros H Hin. destruct (reachable_R ops g rest H) as (s & srest & _ & HR & _).
  eapply locked_refused; eassumption.
Qed.

Theorem deliter_releases_reachable ops g rest i p x :
  m_exec ops m_init = g :: rest -> nth_error (g_iters g) i = Some (Some (p, x)) ->
  exists l',
    m_deliter i g = (with_locks_iters g l' (set_nth i None (g_iters g)), RBool true)
    /\ forall q, pm_count q l' = if list_eqb p q then pm_count q (g_locks g) - 1 else pm_count q (g_locks g).
Proof.
  intros H Hi. destruct (reachable_R ops g rest H) as (s & srest & _ & HR & _).
  unfold m_deliter. rewrite Hi.
  destruct (pm_delete_spec p (g_locks g) p (R_pwf _ _ HR)) as (HA & _ & _).
  assert (Hpos : 0 < pm_count p (g_locks g)).
  { rewrite (R_locks _ _ HR), s_count_eq. apply count_in_pos.
    rewrite <- (iter_roots_agree _ _ _ (R_iters _ _ HR)). eapply live_roots_in; eassumption. }
  destruct (pm_delete p (g_locks g)) as [l' b] eqn:ED. cbn [snd] in HA.
  exists l'. split.
  - rewrite HA. destruct (N.eqb_spec (pm_count p (g_locks g)) 0); [lia | reflexivity].
  - intros q. destruct (pm_delete_spec p (g_locks g) q (R_pwf _ _ HR)) as (_ & HB & _).
    rewrite ED in HB. exact HB.
Qed.

Theorem overflow_is_error_reachable ops g rest k t :
  m_exec ops m_init = g :: rest -> g_root g = Some t -> has_prefix (nib k) t = true ->
  pm_count k (g_locks g) = MAXC -> m_iter k g = (g, RTooMany).
Proof.
  intros H Ht Hp Hc. destruct (reachable_R ops g rest H) as (s & srest & _ & HR & _).
  unfold m_iter. rewrite Ht, Hp.
  rewrite (proj2 (pm_insert_none k (g_locks g) (R_pwf _ _ HR)) Hc). reflexivity.
Qed.

Lemma ent_get_set_none ents e : ent_get (set_nth e None ents) e = None.
Proof.
  unfold ent_get. revert e. induction ents as [|x ents IH]; intros [|e]; cbn; auto.
Qed.

(** A handle to a deleted entry is invalid for every later use. *)
Theorem deleted_entry_invalid k g e h v :
  lookup_root (nib k) (g_root g) = Some e -> snd (m_delete k g) <> RLocked ->
  nth_error (g_handles g) h = Some e ->
  let g' := fst (m_delete k g) in
  m_read h g' = (g', RVal None) /\ m_set h v g' = (g', RBool false) /\ m_mut h v g' = (g', RVal None).
Proof.
  intros Hl Hnl Hh. rewrite m_delete_eq in *. destruct (g_root g) as [t|] eqn:Er; [|discriminate].
  rewrite <- Er in *. destruct (negb (pm_no_prefix k (g_locks g))); [cbn in Hnl; congruence|].
  rewrite Hl. cbn [fst]. unfold m_read, m_set, m_mut. proj_simpl. rewrite Hh, ent_get_set_none.
  repeat split; reflexivity.
Qed.

(** * An iterator yields the snapshot taken at its creation (specification machine,
      any interleaving of operations of its generation) *)

Definition sg_step (o : op) (g : sgen) : sgen * out :=
  match o with
  | OInsert k v => s_insert k v g
  | OGet k => s_get k g
  | ORead h => s_read h g
  | OSet h v => s_set h v g
  | OMut h v => s_mut h v g
  | ODelete k => s_delete k g
  | ODeletePrefix k => s_delete_prefix k g
  | OIter k => s_iter k g
  | ONext i => s_next i g
  | ODelIter i => s_deliter i g
  | _ => (g, RSkip)
  end.

(** What the [ONext i] operations of a history return: [Some key] or [None] (exhausted). *)
Fixpoint sg_yields (i : nat) (ops : list op) (g : sgen) : list (option (list N)) :=
  match ops with
  | [] => []
  | o :: r =>
      let g' := fst (sg_step o g) in
      match o with
      | ONext j =>
          if Nat.eqb j i
          then (match snd (sg_step o g) with RNext k _ _ => Some k | _ => None end) :: sg_yields i r g'
          else sg_yields i r g'
      | _ => sg_yields i r g'
      end
  end.

(** The first [n] elements of the snapshot, then [None] for ever. *)
Fixpoint snapshot_prefix (n : nat) (S : list (list N)) : list (option (list N)) :=
  match n with
  | O => []
  | Datatypes.S n' =>
      match S with
      | [] => None :: snapshot_prefix n' []
      | k :: S' => Some k :: snapshot_prefix n' S'
      end
  end.

Definition not_deliter (i : nat) (o : op) : Prop :=
  match o with ODelIter j => j <> i | _ => True end.

(** Invariant: slot [i] holds the rest [S'] of the snapshot, all of whose keys are still
    in the (sorted) map, and the keys under the prefix are those at creation. *)
Record SnapInv (i : nat) (k : list N) (L0 : amap nat) (S' : list (list N)) (g : sgen) : Prop := {
  SI_slot : nth_error (s_iters g) i = Some (Some (k, S'));
  SI_sorted : ksorted (s_map g);
  SI_same : a_iterate k (s_map g) = L0;
  SI_sub : forall key, In key S' -> In key (map fst L0)
}.

Lemma nth_error_set_nth_other {A} (l : list A) i j x : i <> j -> nth_error (set_nth j x l) i = nth_error l i.
Proof.
  revert i j. induction l as [|a l IH]; intros [|i] [|j] H; cbn; try reflexivity; try congruence.
  apply IH. congruence.
Qed.

Lemma nth_error_set_nth_same {A} (l : list A) i x y :
  nth_error l i = Some y -> nth_error (set_nth i x l) i = Some x.
Proof. revert i. induction l as [|a l IH]; intros [|i] H; cbn in *; try discriminate; auto. Qed.

Lemma SnapInv_map_change i k L0 S' g m' :
  SnapInv i k L0 S' g -> ksorted m' -> a_iterate k m' = a_iterate k (s_map g) ->
  forall ents, SnapInv i k L0 S' (s_with_ents (s_with_map g m') ents).
Proof. intros [A B C D] Hs Hsame ents. constructor; proj_simpl; auto. congruence. Qed.

Lemma SnapInv_prefix_unlocked i k L0 S' g key :
  SnapInv i k L0 S' g -> s_locked key g = false -> is_prefix k key = false.
Proof. intros H HL. eapply locked_false_roots; [exact HL|]. eapply live_roots_in. apply H. Qed.

Lemma SnapInv_step i k L0 S' g o :
  SnapInv i k L0 S' g -> not_deliter i o ->
  match o with
  | ONext j =>
      if Nat.eqb j i then
        match S' with
        | [] => snd (sg_step o g) = RNone /\ SnapInv i k L0 [] (fst (sg_step o g))
        | key :: S'' => (exists h v, snd (sg_step o g) = RNext key h v) /\ SnapInv i k L0 S'' (fst (sg_step o g))
        end
      else SnapInv i k L0 S' (fst (sg_step o g))
  | _ => SnapInv i k L0 S' (fst (sg_step o g))
  end.
Proof.
  intros HI Hnd. pose proof HI as [A B C D].
  destruct o; cbn [sg_step]; try exact HI.
  - (* insert *)
    unfold s_insert. destruct (s_locked k0 g) eqn:EL; [exact HI|].
    pose proof (SnapInv_prefix_unlocked _ _ _ _ _ _ HI EL) as Hp.
    destruct (a_lookup k0 (s_map g)); cbn [fst].
    + constructor; proj_simpl; auto.
    + constructor; proj_simpl; auto.
      * apply ksorted_insert. assumption.
      * rewrite a_iterate_insert_other by assumption. assumption.
  - unfold s_get. destruct (a_lookup k0 (s_map g)); cbn [fst]; [constructor; proj_simpl; auto | exact HI].
  - unfold s_read. destruct (nth_error (s_handles g) h); exact HI.
  - unfold s_set. destruct (nth_error (s_handles g) h); [|exact HI].
    destruct (ent_get (s_ents g) n); [|exact HI]. cbn [fst]. constructor; proj_simpl; auto.
  - unfold s_mut. destruct (nth_error (s_handles g) h); [|exact HI].
    destruct (ent_get (s_ents g) n); [|exact HI]. cbn [fst]. constructor; proj_simpl; auto.
  - (* delete *)
    rewrite s_delete_eq. destruct (is_nil (s_map g)); [exact HI|].
    destruct (s_locked k0 g) eqn:EL; [exact HI|].
    pose proof (SnapInv_prefix_unlocked _ _ _ _ _ _ HI EL) as Hp.
    destruct (a_lookup k0 (s_map g)); [|exact HI]. cbn [fst].
    constructor; proj_simpl; auto.
    + apply ksorted_filter. assumption.
    + rewrite a_iterate_delete_other by assumption. assumption.
  - (* delete_prefix *)
    rewrite s_delete_prefix_eq. destruct (is_nil (s_map g)); [exact HI|].
    destruct (s_locked2 k0 g) eqn:EL; [exact HI|].
    destruct (is_nil (a_iterate k0 (s_map g))); [exact HI|]. cbn [fst].
    destruct (locked2_false_roots k0 g k EL (live_roots_in _ _ _ _ A)) as [X Y].
    constructor; proj_simpl; auto.
    + apply ksorted_filter. assumption.
    + rewrite a_iterate_delete_prefix_other by assumption. assumption.
  - (* iter *)
    rewrite s_iter_eq. destruct (is_nil (a_iterate k0 (s_map g))); [exact HI|].
    destruct (s_count k0 g =? MAXC); [exact HI|]. cbn [fst].
    constructor; proj_simpl; auto.
    rewrite nth_error_app1; [assumption|]. apply nth_error_Some. congruence.
  - (* next *)
    unfold s_next. destruct (Nat.eqb_spec i0 i) as [->|Hne].
    + rewrite A. destruct S' as [|key S''].
      * split; [reflexivity | exact HI].
      * assert (Hin : In key (map fst L0)) by (apply D; left; reflexivity).
        apply in_map_iff in Hin as [[key' e] [Hk Hin]]. cbn in Hk. subst key'.
        rewrite <- C in Hin. apply filter_In in Hin as [Hin _].
        rewrite (ksorted_in_lookup key e (s_map g) B Hin). cbn [fst snd].
        split; [eauto|]. constructor; proj_simpl; auto.
        -- eapply nth_error_set_nth_same. eassumption.
        -- intros x Hx. apply D. right. exact Hx.
    + destruct (nth_error (s_iters g) i0) as [[[p rem]|]|]; try exact HI.
      destruct rem as [|key rem']; [exact HI|].
      destruct (a_lookup key (s_map g)); [|exact HI]. cbn [fst].
      constructor; proj_simpl; auto. rewrite nth_error_set_nth_other by congruence. assumption.
  - (* delete_iter *)
    cbn [not_deliter] in Hnd. unfold s_deliter.
    destruct (nth_error (s_iters g) i0) as [[[p rem]|]|]; try exact HI. cbn [fst].
    constructor; proj_simpl; auto. rewrite nth_error_set_nth_other by congruence. assumption.
Qed.

Lemma sg_yields_snapshot i k L0 ops : forall S' g,
  SnapInv i k L0 S' g -> Forall (not_deliter i) ops ->
  sg_yields i ops g = snapshot_prefix (length (sg_yields i ops g)) S'.
Proof.
  induction ops as [|o ops IH]; intros S' g HI Hops; [reflexivity|].
  inversion Hops as [|? ? Ho Hrest]; subst.
  pose proof (SnapInv_step i k L0 S' g o HI Ho) as HS.
  cbn [sg_yields]. destruct o; try (apply IH; assumption).
  destruct (Nat.eqb i0 i).
  - destruct S' as [|key S''].
    + destruct HS as [Hout HI']. rewrite Hout. cbn [length snapshot_prefix]. f_equal. apply IH; assumption.
    + destruct HS as [(h & v & Hout) HI']. rewrite Hout. cbn [length snapshot_prefix]. f_equal. apply IH; assumption.
  - apply IH; assumption.
Qed.

(** Creation: [s_iter] stores exactly the keys under the prefix. *)
Theorem iterator_snapshot g k g1 i ops :
  ksorted (s_map g) -> s_iter k g = (g1, RIter i) -> Forall (not_deliter i) ops ->
  sg_yields i ops g1 =
  snapshot_prefix (length (sg_yields i ops g1)) (map fst (a_iterate k (s_map g))).
Proof.
  intros Hs Hit Hops. rewrite s_iter_eq in Hit.
  destruct (is_nil (a_iterate k (s_map g))); [discriminate|].
  destruct (s_count k g =? MAXC); [discriminate|]. inversion Hit; subst.
  apply (sg_yields_snapshot (length (s_iters g)) k (a_iterate k (s_map g))); [|assumption].
  constructor; proj_simpl; auto.
  rewrite nth_error_app2, Nat.sub_diag by lia. reflexivity.
Qed.
