(** * Trie/ArenaNewGen.v — [new_generation] keeps the view and the separation invariant

    [new_generation] migrates the root into the new generation (a copy of the root node
    with a fresh read-only entry, sharing the children vector) and pushes a checkpoint.
    The view of the new current root equals the view of the old one, and [Sep] is kept.
    ([normalize] lands on a saved state - [ArenaTree.arena_rollback_restores] gives the
    arena back literally, hence its view; that [Sep] holds for the saved states of a full
    history is NOT proved here, see design/C03.md.) *)
From Coq Require Import NArith PeanoNat List Bool Lia Permutation.
From CB Require Import Trie.Radix.
From CB Require Import Trie.RadixProofs.
From CB Require Import Trie.Locks.
From CB Require Import Trie.LocksProofs.
From CB Require Import Trie.Arena.
From CB Require Import Trie.ArenaProofs.
From CB Require Import Trie.ArenaCow.
From CB Require Import Trie.ArenaTree.
From CB Require Import Trie.ArenaView.
From CB Require Import Trie.ArenaSep.
From CB Require Import Trie.ArenaInsert.
From CB Require Import Trie.ArenaEnt.
From CB Require Import Trie.ArenaHist.
Import ListNotations.
Local Open Scope nat_scope.

Theorem new_generation_refines a :
  Sep a ->
  let a' := a_new_generation a in
  Sep a' /\ length (a_gens a') = S (length (a_gens a))
  /\ exists D, forall d, D <= d -> rview d a' = rview d a.
Proof.
  intros (Hne & HS). unfold a_new_generation, rview. destruct (cur_root a) as [r|] eqn:Er.
  - destruct HS as (t & fp & HT & Hnd & Hb & Hwf & HE). destruct t as [p ov cs]. pose proof HT as (Ep & Ev & fp0 & Efp & HTF).
    set (root := node_at a r) in *. set (g' := S (an_gen root)).
    pose proof (mig_spec a root g') as M. destruct (migrate a root g') as [a1 n'].
    destruct M as (G1 & V1 & N1 & P1 & C1 & M).
    set (L := length (a_nodes a)). set (Le := length (a_entries a)) in *.
    set (ck := mkAG (Some L) L (length (a_values a)) Le).
    set (a' := mkA (a_gens (push_node a1 n') ++ [ck]) (a_entries (push_node a1 n')) (a_values (push_node a1 n')) (a_nodes (push_node a1 n'))).
    assert (Er' : cur_root a' = Some L) by (unfold a'; apply cur_root_app).
    assert (Na : a_nodes a' = a_nodes a ++ [n']) by (unfold a'; cbn [push_node a_nodes]; rewrite N1; reflexivity).
    assert (NL : node_at a' L = n') by (unfold node_at; rewrite Na; apply nth_middle).
    assert (Nold : forall j, j < L -> node_at a' j = node_at a j) by (intros j Hj; unfold node_at; rewrite Na, app_nth1 by exact Hj; reflexivity).
    assert (Va : a_values a' = a_values a) by exact V1.
    assert (Ea : exists es, a_entries a' = a_entries a ++ es).
    { change (a_entries a') with (a_entries a1). destruct (an_val root); destruct M as (M & _); [eexists; exact M | exists []; rewrite app_nil_r; exact M]. }
    destruct Ea as (es & Ea).
    assert (Hed : forall e, e < Le -> edat a' e = edat a e) by (intros e He; apply (edat_app1 a a' es e Ea He)).
    assert (Hw : forall e, e < Le -> a_with_entry a' e = a_with_entry a e).
    { intros e He. apply with_entry_frame; [apply Hed; exact He|]. intros i _. rewrite Va. reflexivity. }
    subst fp. apply NoDup_cons_iff in Hnd. destruct Hnd as (Ni & Nd0). pose proof (Forall_inv_tail Hb) as Hb0.
    assert (Hlt : forall j, In j fp0 -> j < L) by (rewrite Forall_forall in Hb0; exact Hb0).
    pose proof HE as (HE1 & HE2 & _). cbn [tentries] in HE1, HE2.
    apply Forall_app in HE2. destruct HE2 as (Hov & Hcs).
    assert (T' : Tr a' L (Node p (an_val n') cs) (L :: fp0)).
    { cbn [Tr]. rewrite NL. split; [congruence|]. split; [reflexivity|]. exists fp0. split; [reflexivity|]. rewrite C1.
      apply (TrF_frame a a'); [exact HTF|]. intros j Hj. apply Nold. apply Hlt. exact Hj. }
    assert (Wcs : tmap_f (a_with_entry a') cs = tmap_f (a_with_entry a) cs).
    { apply (proj2 (tmap_ext_mut _ _)). intros e He. apply Hw. rewrite Forall_forall in Hcs. apply Hcs. exact He. }
    assert (Hval : match ov with
                   | Some e => an_val n' = Some Le /\ edat a' Le = ro (edat a e) /\ Le < length (a_entries a')
                   | None => an_val n' = None end).
    { rewrite Ev. fold root. destruct (an_val root) as [e|]; destruct M as (M1 & M2); [|exact M2].
      change (a_entries a') with (a_entries a1). rewrite M1, app_length. cbn [length]. split; [exact M2|]. split; [|lia].
      unfold edat at 1. change (a_entries a') with (a_entries a1). rewrite M1, app_nth2, Nat.sub_diag by (unfold Le; lia). reflexivity. }
    assert (V' : tmap (a_with_entry a') (Node p (an_val n') cs) = tmap (a_with_entry a) (Node p ov cs)).
    { cbn [tmap]. f_equal; [|exact Wcs]. destruct ov as [e|].
      - destruct Hval as (X1 & X2 & _). rewrite X1. cbn [option_map]. f_equal. rewrite !with_entry_edat, X2, eptr_ro, Va. reflexivity.
      - rewrite Hval. reflexivity. }
    split.
    { split; [unfold a'; intros X; apply app_eq_nil in X; destruct X; discriminate|]. rewrite Er'.
      exists (Node p (an_val n') cs), (L :: fp0). split; [exact T'|].
      split; [constructor; [intros X; specialize (Hlt _ X); lia | exact Nd0]|].
      split; [rewrite Na, app_length; cbn [length]; fold L; constructor; [lia|]; eapply Forall_impl; [|exact Hb0]; cbn beta; intros; lia|].
      split; [rewrite <- (wfb_tmap (a_with_entry a')), V', wfb_tmap; exact Hwf|].
      apply (ESep_ren a a' (tentries (Node p ov cs)) _ HE); auto.
      - cbn [tentries]. apply Forall2_app; [|apply eren_refl_list]. destruct ov as [e|].
        + destruct Hval as (X1 & X2 & X3). rewrite X1. constructor; [|constructor]. right. fold Le. split; [lia | exact X2].
        + rewrite Hval. constructor.
      - cbn [tentries]. apply nd_app in HE1. destruct HE1 as (Y1 & Y2 & Y3). apply nd_app. split; [|split; [exact Y2|]].
        + destruct (an_val n'); constructor; [intros [] | constructor].
        + intros x Hx Hx'. destruct ov as [e|]; [destruct Hval as (X1 & _); rewrite X1 in Hx | rewrite Hval in Hx; contradiction].
          destruct Hx as [<-|[]]. rewrite Forall_forall in Hcs. specialize (Hcs _ Hx'). lia.
      - rewrite Ea, app_length. fold Le. lia. }
    split; [unfold a'; cbn [push_node a_gens]; rewrite app_length, G1; cbn; lia|].
    exists (Nat.max (theight (Node p ov cs)) (theight (Node p (an_val n') cs))). intros d Hd. rewrite Er'. cbn [option_map]. f_equal.
    rewrite (Tr_vview a' _ L _ d T') by lia. rewrite (Tr_vview a _ r _ d HT) by lia. exact V'.
  - destruct (a_gens a) as [|g0 gs] eqn:Eg; [congruence|]. rewrite <- Eg.
    set (a' := mkA (a_gens a ++ [_]) (a_entries a) (a_values a) (a_nodes a)).
    assert (Er' : cur_root a' = None) by (unfold a'; apply cur_root_app).
    split; [split; [unfold a'; intros X; apply app_eq_nil in X; destruct X; discriminate | rewrite Er'; exact I]|].
    split; [unfold a'; cbn [a_gens]; rewrite app_length; cbn; lia|]. exists 0. intros d _. rewrite Er'. reflexivity.
Qed.

(** Non-vacuity: after a checkpoint the root is a copy with a fresh read-only entry; the
    view is the same. *)
Example new_generation_example :
  let a := fst (fst (ar_insert (fst (fst (ar_insert a_empty [18%N] [1%N]))) [19%N] [2%N])) in
  exists r r', cur_root a = Some r /\ cur_root (a_new_generation a) = Some r' /\ r' <> r
    /\ rview 3 (a_new_generation a) = rview 3 a.
Proof. eexists. eexists. vm_compute. repeat split; try discriminate. Qed.

(** * Histories of insert / lookup / new_generation operations (checkpoints, no rollback) *)

(** Value-level machine with a generation counter: a checkpoint keeps the tree, restarts the
    handle numbering and reports the number of generations. *)
Definition rstate2 := (rstate * nat)%type.

Definition r2_step (o : op) (s : rstate2) : rstate2 * out :=
  match o with
  | ONewGen => (((fst (fst s), 0), S (snd s)), RGens (S (snd s)))
  | _ => ((fst (r_step o (fst s)), snd s), snd (r_step o (fst s)))
  end.

Definition r2_init : rstate2 := (r_init, 1).

Fixpoint r2_outs (ops : list op) (s : rstate2) : list out :=
  match ops with [] => [] | o :: r => let (s', x) := r2_step o s in x :: r2_outs r s' end.
Definition r2_run (ops : list op) (s : rstate2) : rstate2 := fold_left (fun s o => fst (r2_step o s)) ops s.

Definition ins_get_new_op (o : op) : bool :=
  match o with OInsert _ _ | OGet _ | ONewGen => true | _ => false end.

Definition SimR2 (s : astate) (rs : rstate2) : Prop :=
  ReachE s /\ SimR s (fst rs) /\ snd rs = length (a_gens (as_arena s)).

Lemma SimR2_init : SimR2 as_init r2_init.
Proof. split; [exact ReachE_init|]. split; [exact SimR_init | reflexivity]. Qed.

Lemma SimR2_step o s rs :
  ins_get_new_op o = true -> SimR2 s rs ->
  SimR2 (fst (as_step o s)) (fst (r2_step o rs)) /\ snd (as_step o s) = snd (r2_step o rs).
Proof.
  intros Ho (HR & HS & Hg).
  assert (Plain : forall o', gen_op o' = false -> ins_get_op o' = true ->
            SimR2 (fst (as_step o' s)) (fst (r_step o' (fst rs)), snd rs) /\ snd (as_step o' s) = snd (r_step o' (fst rs))).
  { intros o' G I. destruct (SimR_step o' s (fst rs) I HS) as (S1 & Eo). split; [|exact Eo].
    split; [apply ReachE_step; exact HR|]. split; [exact S1|]. cbn [snd].
    destruct (as_step_cow o' s (proj1 HR) G) as ((_ & B & _) & _). rewrite (B_glen _ _ B). exact Hg. }
  destruct o; try discriminate Ho.
  - apply (Plain (OInsert k v)); reflexivity.
  - apply (Plain (OGet k)); reflexivity.
  - cbn [as_step r2_step fst snd]. destruct HS as (HSep & Hh & D & HD).
    destruct (new_generation_refines (as_arena s) HSep) as (S1 & Lg & D' & HD').
    split; [|rewrite Lg, Hg; reflexivity].
    split; [exact (ReachE_step ONewGen s HR)|]. split; [|cbn [as_arena snd]; rewrite Lg, Hg; reflexivity].
    split; [exact S1|]. split; [reflexivity|]. exists (Nat.max D D'). intros d Hd. cbn [as_arena fst].
    rewrite HD' by lia. apply HD. lia.
Qed.

Theorem insert_lookup_newgen_run : forall ops s rs,
  forallb ins_get_new_op ops = true -> SimR2 s rs ->
  as_outs ops s = r2_outs ops rs /\ SimR2 (as_run ops s) (r2_run ops rs).
Proof.
  induction ops as [|o ops IH]; intros s rs Hf HS; [split; [reflexivity | exact HS]|].
  cbn [forallb] in Hf. apply andb_true_iff in Hf. destruct Hf as (Ho & Hf).
  destruct (SimR2_step o s rs Ho HS) as (S1 & Eo). cbn [as_outs r2_outs].
  destruct (as_step o s) as [s1 x] eqn:E1. destruct (r2_step o rs) as [rs1 y] eqn:E2. cbn [fst snd] in *. subst y.
  destruct (IH s1 rs1 Hf S1) as (I1 & I2). split; [rewrite I1; reflexivity|].
  unfold as_run, r2_run. cbn [fold_left]. rewrite E1, E2. exact I2.
Qed.

Theorem arena_insert_lookup_newgen_history ops :
  forallb ins_get_new_op ops = true ->
  as_outs ops as_init = r2_outs ops r2_init
  /\ Sep (as_arena (as_run ops as_init))
  /\ exists D, forall d, D <= d ->
       rview d (as_arena (as_run ops as_init)) = fst (fst (r2_run ops r2_init)).
Proof.
  intros Hf. destruct (insert_lookup_newgen_run ops as_init r2_init Hf SimR2_init) as (H1 & _ & (H2 & _ & H3) & _). auto.
Qed.

Example newgen_history_example :
  let ops := [OInsert [18%N; 52%N] [1%N]; OInsert [18%N; 63%N] [2%N]; ONewGen; OGet [18%N; 63%N];
              OInsert [18%N; 52%N] [3%N]; ONewGen; OInsert [18%N] [4%N]; OGet [18%N; 52%N]] in
  forallb ins_get_new_op ops = true
  /\ as_outs ops as_init =
     [RHandle 0 false; RHandle 1 false; RGens 2; RFound 0 (Some [2%N]); RHandle 1 true; RGens 3;
      RHandle 0 false; RFound 1 (Some [3%N])].
Proof. vm_compute. split; reflexivity. Qed.

(** * Rollback restores the view (corollary of [ArenaTree.arena_rollback_run])

    For every reachable state, a checkpoint followed by ANY operations that do not roll back
    below it (inserts, sets, deletes with collapses, delete_prefix, nested checkpoints and
    rollbacks) and a rollback to the checkpoint gives back the arena literally; hence the view
    of the older generation at every depth, and [Sep] if it held. *)
Theorem rollback_restores_view pre ops d :
  let s := as_run pre as_init in
  Forall (keeps (length (a_gens (as_arena s)))) ops ->
  let s' := as_run (ONewGen :: ops ++ [ONormalize (length (a_gens (as_arena s)) - 1)]) s in
  rview d (as_arena s') = rview d (as_arena s)
  /\ (forall j, vview d (as_arena s') j = vview d (as_arena s) j)
  /\ (Sep (as_arena s) -> Sep (as_arena s')).
Proof.
  intros s Hk s'. subst s'. subst s. pose proof (arena_rollback_run pre ops Hk) as E. cbv zeta in E. rewrite E. auto.
Qed.
