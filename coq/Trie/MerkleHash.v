(** The hash of a frozen contract state, exactly as
    smart-contracts/wasm-chain-integration/src/v1/trie/low_level.rs defines it
    ([ToSHA256 for Node], lines 1107-1130; [ToSHA256 for InlineOrHashed] 1029-1037;
    [ToSHA256 for [u8]] in types.rs 434-443; [PersistentState::hash] in api.rs 289-300):

      H(node)  = sha256(  (0x01 ++ Hv(value) | 0x00)
                       ++ LE64(number of nibbles of the stem)
                       ++ stem bytes (two nibbles per byte, high nibble first; an odd stem
                                      ends with a byte whose low nibble is 0)
                       ++ sha256( BE16(number of children)
                                  ++ concat [ nibble byte ++ H(child) | children in label order ] ) )
      Hv(v)    = sha256( BE64(length v) ++ v )      for inline (<= 64 bytes) and indirect values alike
      H(empty) = sha256("empty contract state")

    [sha256] is a section variable: nothing is assumed about it.  Besides the hash the
    file defines the *preimage tree* [sym] (byte strings with nested, still unhashed
    parts) so that the check can fold it with the real SHA-256 outside Coq.
    Definitions only (executable); lemmas are in [MerkleHashProofs.v]. *)
From Coq Require Import NArith List Bool.
From CB Require Import Common.Codec.
From CB Require Import Trie.Radix.
Import ListNotations.
Local Open Scope N_scope.

Definition value := list N.

(** [Stem::to_slice]: nibbles packed two per byte, high nibble first; the unused low
    nibble of an odd stem is zero ([MutStem::truncate], [consumed_to_stem],
    [last_to_stem] keep it zero). *)
Fixpoint pack (ns : list N) : list N :=
  match ns with
  | h :: l :: r => (16 * h + l) :: pack r
  | [h] => [16 * h]
  | [] => []
  end.

(** Inverse of [pack] given the number of nibbles ([StemIter::next]). *)
Fixpoint unpack (n : nat) (bs : list N) : list N :=
  match n, bs with
  | S (S n'), b :: r => (b / 16) :: (b mod 16) :: unpack n' r
  | S O, b :: _ => [b / 16]
  | _, _ => []
  end.

Definition lenN {A} (l : list A) : N := N.of_nat (length l).

Definition le64 (n : N) : list N := enc_uint LE 8 n.
Definition be64 (n : N) : list N := enc_uint BE 8 n.
Definition be32 (n : N) : list N := enc_uint BE 4 n.
Definition be16 (n : N) : list N := enc_uint BE 2 n.

(** "empty contract state" *)
Definition empty_state_tag : list N :=
  [101; 109; 112; 116; 121; 32; 99; 111; 110; 116; 114; 97; 99; 116; 32; 115; 116; 97; 116; 101].

(** Preimage trees: a byte string, or the (not yet computed) hash of a concatenation. *)
Inductive sym :=
| SB (bs : list N)
| SH (parts : list sym).

Section Hash.
Variable sha256 : list N -> list N.

Definition hash_value (v : value) : list N := sha256 (be64 (lenN v) ++ v).

Definition value_part (ov : option value) : list N :=
  match ov with
  | Some v => 1 :: hash_value v
  | None => [0]
  end.

Fixpoint hash_node (t : tree value) : list N :=
  match t with
  | Node p ov cs =>
      sha256 (value_part ov ++ le64 (lenN p) ++ pack p
              ++ sha256 (be16 (N.of_nat (flen cs)) ++ hash_children cs))
  end
with hash_children (f : forest value) : list N :=
  match f with
  | FNil => []
  | FCons c t r => c :: hash_node t ++ hash_children r
  end.

Definition hash_root (r : option (tree value)) : list N :=
  match r with
  | None => sha256 empty_state_tag
  | Some t => hash_node t
  end.

(** Folding a preimage tree with the hash function. *)
Fixpoint eval (s : sym) : list N :=
  match s with
  | SB bs => bs
  | SH parts => sha256 (flat_map eval parts)
  end.

End Hash.

(** The preimage tree of a node: [eval sha (pre_node t) = hash_node sha t] for every [sha]. *)
Definition pre_value (v : value) : sym := SH [SB (be64 (lenN v)); SB v].

Definition pre_value_part (ov : option value) : list sym :=
  match ov with
  | Some v => [SB [1]; pre_value v]
  | None => [SB [0]]
  end.

Fixpoint pre_node (t : tree value) : sym :=
  match t with
  | Node p ov cs =>
      SH (pre_value_part ov
          ++ [SB (le64 (lenN p)); SB (pack p);
              SH (SB (be16 (N.of_nat (flen cs))) :: pre_children cs)])
  end
with pre_children (f : forest value) : list sym :=
  match f with
  | FNil => []
  | FCons c t r => SB [c] :: pre_node t :: pre_children r
  end.

Definition pre_root (r : option (tree value)) : sym :=
  match r with
  | None => SH [SB empty_state_tag]
  | Some t => pre_node t
  end.
