(** Thaw - modify - freeze keeps a state consistent with the backing store, and [freeze]
    charges exactly the rebuilt nodes and the owned values.

    [pre_cons st t] is the invariant of a *mutable* tree: every subtree that is still
    all-original (no dropped origin, no owned value below it) is where its reference says,
    and every borrowed long value is where its reference says.  It follows from
    [consistent], is preserved by insert / delete / delete_prefix / get_mut+write, and
    gives [consistent] back after [freeze]. *)
From Coq Require Import NArith PeanoNat List Bool Lia.
From CB Require Import Common.Codec.
From CB Require Import Trie.Radix.
From CB Require Import Trie.RadixProofs.
From CB Require Import Trie.MerkleHash.
From CB Require Import Trie.Persist.
From CB Require Import Trie.PersistProofs.
Import ListNotations.
Local Open Scope N_scope.

(** * The collector counts exactly the new data *)

(** A node is paid for iff it is rebuilt, i.e. iff it or something below it lost its
    origin or holds an owned value; a value is paid for iff it is owned. *)
Fixpoint charge_spec (t : atree) : N :=
  match t with
  | AN o p ov cs =>
      (if all_orig (AN o p ov cs) then 0 else path_charge (lenN p) + 9 * N.of_nat (aflen cs))
      + value_charge ov + charge_spec_f cs
  end
with charge_spec_f (f : aforest) : N :=
  match f with
  | ANil => 0
  | ACons _ t r => charge_spec t + charge_spec_f r
  end.

Lemma freeze_aflen f : aflen (snd (fst (freeze_f f))) = aflen f.
Proof.
  induction f as [|c t r IH]; [reflexivity|]. cbn [freeze_f].
  destruct (freeze t) as [[ch1 t'] n1]. destruct (freeze_f r) as [[ch2 r'] n2]. cbn [fst snd aflen] in *.
  rewrite IH. reflexivity.
Qed.

Lemma freeze_charge_mut :
  (forall t, fst (fst (freeze t)) = negb (all_orig t) /\ snd (freeze t) = charge_spec t)
  /\ (forall f, fst (fst (freeze_f f)) = negb (all_orig_f f) /\ snd (freeze_f f) = charge_spec_f f).
Proof.
  apply atree_aforest_ind.
  - intros o p ov cs IH. pose proof (freeze_aflen cs) as Hlen.
    cbn [freeze charge_spec]. destruct (freeze_f cs) as [[chc cs'] nc]. cbn [fst snd] in *.
    destruct IH as [IHc IHn]. subst chc nc. rewrite Hlen.
    cbn [all_orig].
    destruct o as [l|]; destruct (value_owned ov) eqn:Ev; destruct (all_orig_f cs) eqn:Ec;
      cbn [negb orb andb fst snd]; split; try reflexivity; lia.
  - split; reflexivity.
  - intros c t [IHt1 IHt2] r [IHr1 IHr2]. cbn [freeze_f charge_spec_f all_orig_f].
    destruct (freeze t) as [[ch1 t'] n1]. destruct (freeze_f r) as [[ch2 r'] n2]. cbn [fst snd] in *.
    subst. split; [|reflexivity]. rewrite negb_andb. reflexivity.
Qed.

Theorem freeze_root_charge r :
  snd (freeze_root r) = match r with Some t => charge_spec t | None => 0 end.
Proof.
  destruct r as [t|]; [|reflexivity]. cbn [freeze_root].
  pose proof (proj2 (proj1 freeze_charge_mut t)) as H. destruct (freeze t) as [[ch t'] n]. exact H.
Qed.

(** * The invariant of mutable trees *)

Section ThawFreeze.
Variable sha256 : list N -> list N.

Definition vcons (st : store) (ov : option aval) : Prop :=
  value_owned ov = false -> value_consistent st ov.

Fixpoint pre_cons (st : store) (t : atree) : Prop :=
  match t with
  | AN o p ov cs =>
      (all_orig (AN o p ov cs) = true ->
       match o with
       | Some (Some r) => loads sha256 st r (Node p (option_map fst ov) (erase_f cs)) /\ r < s_next st
       | _ => True
       end)
      /\ vcons st ov /\ pre_cons_f st cs
  end
with pre_cons_f (st : store) (f : aforest) : Prop :=
  match f with ANil => True | ACons _ t r => pre_cons st t /\ pre_cons_f st r end.

Lemma consistent_pre_mut st :
  (forall t, consistent sha256 st t -> pre_cons st t)
  /\ (forall f, consistent_f sha256 st f -> pre_cons_f st f).
Proof.
  apply atree_aforest_ind.
  - intros o p ov cs IH (A & B & C). cbn [pre_cons]. split; [intros _; exact A|].
    split; [intros _; exact B | apply IH; exact C].
  - auto.
  - intros c t IHt r IHr [A B]. split; [apply IHt; exact A | apply IHr; exact B].
Qed.

Lemma pre_orig_cons_mut st :
  (forall t, all_orig t = true -> pre_cons st t -> consistent sha256 st t)
  /\ (forall f, all_orig_f f = true -> pre_cons_f st f -> consistent_f sha256 st f).
Proof.
  apply atree_aforest_ind.
  - intros o p ov cs IH Ho (A & B & C). pose proof Ho as Ho'. cbn [all_orig] in Ho'.
    apply andb_true_iff in Ho' as [Ho' Hc]. apply andb_true_iff in Ho' as [_ Hv]. apply negb_true_iff in Hv.
    cbn [consistent]. split; [exact (A Ho)|]. split; [exact (B Hv) | apply IH; assumption].
  - auto.
  - intros c t IHt r IHr Ho [A B]. cbn [all_orig_f] in Ho. apply andb_true_iff in Ho as [Ht Hr].
    split; [apply IHt; assumption | apply IHr; assumption].
Qed.

(** ** freeze turns the invariant into consistency *)
Lemma freeze_consistent_mut st :
  (forall t, pre_cons st t -> consistent sha256 st (snd (fst (freeze t))))
  /\ (forall f, pre_cons_f st f -> consistent_f sha256 st (snd (fst (freeze_f f)))).
Proof.
  apply atree_aforest_ind.
  - intros o p ov cs IH Hp.
    destruct (fst (fst (freeze (AN o p ov cs)))) eqn:Ech.
    + (* rebuilt *)
      destruct Hp as (_ & B & C). specialize (IH C). cbn [freeze] in *.
      destruct (freeze_f cs) as [[chc cs'] nc]. cbn [fst snd] in *.
      assert (G : consistent sha256 st (AN (Some None) p (freeze_val ov) cs')).
      { cbn [consistent]. split; [exact I|]. split; [|exact IH].
        destruct ov as [[v [l|]]|]; cbn [freeze_val]; [apply B; reflexivity | exact I | exact I]. }
      destruct o as [l|]; destruct (value_owned ov); destruct chc; cbn [orb fst snd] in *;
        try exact G; discriminate.
    + destruct (proj1 freeze_inv_mut (AN o p ov cs)) as (A & _ & E). destruct (E Ech) as [Et _].
      rewrite Et in *. apply (proj1 (pre_orig_cons_mut st)); assumption.
  - intros _. exact I.
  - intros c t IHt r IHr [A B]. cbn [freeze_f]. specialize (IHt A). specialize (IHr B).
    destruct (freeze t) as [[ch1 t'] n1]. destruct (freeze_f r) as [[ch2 r'] n2]. cbn [fst snd] in *.
    split; assumption.
Qed.

(** ** insert *)
Lemma pre_cons_leaf st k v : pre_cons st (new_leaf k v).
Proof.
  unfold new_leaf. cbn [pre_cons pre_cons_f]. split; [cbn [all_orig andb]; discriminate|].
  split; [unfold vcons; cbn; discriminate | exact I].
Qed.

Lemma pre_cons_none st p ov cs : vcons st ov -> pre_cons_f st cs -> pre_cons st (AN None p ov cs).
Proof. intros A B. cbn [pre_cons]. split; [cbn [all_orig andb]; discriminate | auto]. Qed.

Lemma vcons_owned st v : vcons st (Some (v, None)).
Proof. unfold vcons. cbn. discriminate. Qed.

Lemma pre_cons_insert_mut st :
  (forall t k v, pre_cons st t -> pre_cons st (a_insert k v t))
  /\ (forall f c k v, pre_cons_f st f -> pre_cons_f st (a_insert_f c k v f)).
Proof.
  apply atree_aforest_ind.
  - intros o p ov cs IH k v (A & B & C). cbn [a_insert].
    destruct (follow_stem k p) as [|s ps|c k'|cm kc kr sc sr].
    + apply pre_cons_none; [apply vcons_owned | exact C].
    + apply pre_cons_none; [apply vcons_owned|]. cbn [pre_cons_f]. split; [|exact I].
      apply pre_cons_none; assumption.
    + apply pre_cons_none; [exact B | apply IH; exact C].
    + apply pre_cons_none; [unfold vcons; cbn; intros _; exact I|].
      destruct (kc <? sc); cbn [pre_cons_f]; repeat split;
        try apply pre_cons_leaf; try (apply pre_cons_none; assumption); try assumption.
  - intros c k v _. cbn [a_insert_f pre_cons_f]. split; [apply pre_cons_leaf | exact I].
  - intros c' t IHt r IHr c k v [A B]. cbn [a_insert_f].
    destruct (c =? c'); [split; [apply IHt; exact A | exact B]|].
    destruct (c <? c'); [split; [apply pre_cons_leaf | split; assumption]|].
    split; [exact A | apply IHr; exact B].
Qed.

(** ** delete / delete_prefix: a result that is still all-original is the argument itself *)
Lemma a_delete_f_len :
  forall f c k, (aflen (a_delete_f c k f) <= aflen f)%nat.
Proof.
  induction f as [|c' t r IH]; intros c k; [cbn; lia|]. cbn [a_delete_f].
  destruct (c =? c'); [destruct (a_delete k t); cbn [aflen]; lia|]. cbn [aflen]. specialize (IH c k). lia.
Qed.

Lemma a_delete_prefix_f_len :
  forall f c k, (aflen (a_delete_prefix_f c k f) <= aflen f)%nat.
Proof.
  induction f as [|c' t r IH]; intros c k; [cbn; lia|]. cbn [a_delete_prefix_f].
  destruct (c =? c'); [destruct (a_delete_prefix k t); cbn [aflen]; lia|]. cbn [aflen]. specialize (IH c k). lia.
Qed.

Lemma collapse_orig o p ov cs cs0 t' :
  a_collapse (shrunk o cs0 cs) p ov cs = Some t' -> all_orig t' = true ->
  (aflen cs <= aflen cs0)%nat ->
  t' = AN o p ov cs /\ aflen cs = aflen cs0 /\ all_orig_f cs = true.
Proof.
  intros E Ho Hle.
  assert (Hplain : Some (AN (shrunk o cs0 cs) p ov cs) = Some t' ->
                   t' = AN o p ov cs /\ aflen cs = aflen cs0 /\ all_orig_f cs = true).
  { intros E'. injection E' as <-. cbn [all_orig] in Ho. unfold shrunk in *.
    destruct (Nat.ltb_spec (aflen cs) (aflen cs0)) as [Hlt|Hge]; [cbn in Ho; discriminate|].
    apply andb_true_iff in Ho as [_ Hc]. repeat split; [lia | exact Hc]. }
  unfold a_collapse in E. destruct ov as [[v a]|]; [apply Hplain; exact E|].
  destruct cs as [|c [o' cp cv ccs] [|c2 t2 r2]]; try (apply Hplain; exact E); [discriminate|].
  injection E as <-. cbn [all_orig andb] in Ho. discriminate.
Qed.

Lemma a_delete_same_mut :
  (forall t k t', a_delete k t = Some t' -> all_orig t' = true -> t' = t)
  /\ (forall f c k, all_orig_f (a_delete_f c k f) = true -> aflen (a_delete_f c k f) = aflen f ->
        a_delete_f c k f = f).
Proof.
  apply atree_aforest_ind.
  - intros o p ov cs IH k t' E Ho. cbn [a_delete] in E.
    destruct (follow_stem k p) as [|s ps|c k'|cm kc kr sc sr]; try (injection E as <-; reflexivity).
    + destruct ov as [[v a]|]; [|injection E as <-; reflexivity]. exfalso.
      unfold a_collapse in E. destruct cs as [|c [o' cp cv ccs] [|c2 t2 r2]]; try discriminate;
        injection E as <-; cbn [all_orig andb] in Ho; discriminate.
    + destruct (collapse_orig _ _ _ _ _ _ E Ho (a_delete_f_len cs c k')) as (-> & Hl & Hc).
      rewrite (IH c k' Hc Hl). reflexivity.
  - reflexivity.
  - intros c' t IHt r IHr c k Ho Hl. cbn [a_delete_f] in *. destruct (c =? c').
    + destruct (a_delete k t) as [t1|] eqn:E.
      * cbn [all_orig_f] in Ho. apply andb_true_iff in Ho as [Ht _]. rewrite (IHt k t1 E Ht). reflexivity.
      * cbn [aflen] in Hl. lia.
    + cbn [all_orig_f aflen] in *. apply andb_true_iff in Ho as [_ Hr]. rewrite (IHr c k Hr) by lia. reflexivity.
Qed.

Lemma a_delete_prefix_same_mut :
  (forall t k t', a_delete_prefix k t = Some t' -> all_orig t' = true -> t' = t)
  /\ (forall f c k, all_orig_f (a_delete_prefix_f c k f) = true ->
        aflen (a_delete_prefix_f c k f) = aflen f -> a_delete_prefix_f c k f = f).
Proof.
  apply atree_aforest_ind.
  - intros o p ov cs IH k t' E Ho. cbn [a_delete_prefix] in E.
    destruct (follow_stem k p) as [|s ps|c k'|cm kc kr sc sr]; try discriminate; try (injection E as <-; reflexivity).
    destruct (collapse_orig _ _ _ _ _ _ E Ho (a_delete_prefix_f_len cs c k')) as (-> & Hl & Hc).
    rewrite (IH c k' Hc Hl). reflexivity.
  - reflexivity.
  - intros c' t IHt r IHr c k Ho Hl. cbn [a_delete_prefix_f] in *. destruct (c =? c').
    + destruct (a_delete_prefix k t) as [t1|] eqn:E.
      * cbn [all_orig_f] in Ho. apply andb_true_iff in Ho as [Ht _]. rewrite (IHt k t1 E Ht). reflexivity.
      * cbn [aflen] in Hl. lia.
    + cbn [all_orig_f aflen] in *. apply andb_true_iff in Ho as [_ Hr]. rewrite (IHr c k Hr) by lia. reflexivity.
Qed.

(** The parts of the invariant below the head. *)
Lemma pre_cons_collapse st o p ov cs t' :
  a_collapse o p ov cs = Some t' -> vcons st ov -> pre_cons_f st cs ->
  match t' with AN _ _ ov' cs' => vcons st ov' /\ pre_cons_f st cs' end.
Proof.
  intros E B C. unfold a_collapse in E.
  destruct ov as [[v a]|]; [injection E as <-; auto|].
  destruct cs as [|c [o' cp cv ccs] [|c2 t2 r2]]; try (injection E as <-; auto); [discriminate|].
  destruct C as [(_ & B1 & C1) _]. auto.
Qed.

Lemma pre_cons_of_parts st t t0 :
  (all_orig t = true -> t = t0) -> pre_cons st t0 ->
  match t with AN _ _ ov' cs' => vcons st ov' /\ pre_cons_f st cs' end -> pre_cons st t.
Proof.
  intros Hs H0 Hr. destruct t as [o p ov cs]. destruct Hr as [B C]. cbn [pre_cons]. split; [|auto].
  intros Ho. specialize (Hs Ho). subst t0. destruct H0 as (A & _ & _). exact (A Ho).
Qed.

Lemma pre_cons_delete_mut st :
  (forall t k t', pre_cons st t -> a_delete k t = Some t' -> pre_cons st t')
  /\ (forall f c k, pre_cons_f st f -> pre_cons_f st (a_delete_f c k f)).
Proof.
  apply atree_aforest_ind.
  - intros o p ov cs IH k t' Hp E.
    apply (pre_cons_of_parts st t' (AN o p ov cs)); [intros Ho; eapply (proj1 a_delete_same_mut); eassumption | exact Hp |].
    destruct Hp as (_ & B & C). cbn [a_delete] in E.
    destruct (follow_stem k p) as [|s ps|c k'|cm kc kr sc sr]; try (injection E as <-; auto).
    + destruct ov as [[v a]|]; [|injection E as <-; auto].
      eapply pre_cons_collapse; [exact E | unfold vcons; cbn; intros _; exact I | exact C].
    + eapply pre_cons_collapse; [exact E | exact B | apply IH; exact C].
  - auto.
  - intros c' t IHt r IHr c k [A B]. cbn [a_delete_f]. destruct (c =? c').
    + destruct (a_delete k t) as [t1|] eqn:E; [split; [eapply IHt; eassumption | exact B] | exact B].
    + split; [exact A | apply IHr; exact B].
Qed.

Lemma pre_cons_delete_prefix_mut st :
  (forall t k t', pre_cons st t -> a_delete_prefix k t = Some t' -> pre_cons st t')
  /\ (forall f c k, pre_cons_f st f -> pre_cons_f st (a_delete_prefix_f c k f)).
Proof.
  apply atree_aforest_ind.
  - intros o p ov cs IH k t' Hp E.
    apply (pre_cons_of_parts st t' (AN o p ov cs));
      [intros Ho; eapply (proj1 a_delete_prefix_same_mut); eassumption | exact Hp |].
    destruct Hp as (_ & B & C). cbn [a_delete_prefix] in E.
    destruct (follow_stem k p) as [|s ps|c k'|cm kc kr sc sr]; try discriminate; try (injection E as <-; auto).
    eapply pre_cons_collapse; [exact E | exact B | apply IH; exact C].
  - auto.
  - intros c' t IHt r IHr c k [A B]. cbn [a_delete_prefix_f]. destruct (c =? c').
    + destruct (a_delete_prefix k t) as [t1|] eqn:E; [split; [eapply IHt; eassumption | exact B] | exact B].
    + split; [exact A | apply IHr; exact B].
Qed.

(** ** get_mut + write *)
Lemma a_setval_same_mut :
  (forall t k v, all_orig (a_setval k v t) = true -> a_setval k v t = t)
  /\ (forall f c k v, all_orig_f (a_setval_f c k v f) = true -> a_setval_f c k v f = f).
Proof.
  apply atree_aforest_ind.
  - intros o p ov cs IH k v Ho. cbn [a_setval] in *.
    destruct (follow_stem k p) as [|s ps|c k'|cm kc kr sc sr]; try reflexivity.
    + destruct ov as [[x a]|]; [|reflexivity]. cbn [all_orig value_owned negb andb] in Ho.
      rewrite andb_false_r in Ho. discriminate.
    + cbn [all_orig] in Ho. apply andb_true_iff in Ho as [_ Hc]. rewrite (IH c k' v Hc). reflexivity.
  - reflexivity.
  - intros c' t IHt r IHr c k v Ho. cbn [a_setval_f] in *. destruct (c =? c'); cbn [all_orig_f] in Ho;
      apply andb_true_iff in Ho as [Ht Hr]; [rewrite (IHt k v Ht) | rewrite (IHr c k v Hr)]; reflexivity.
Qed.

Lemma pre_cons_setval_mut st :
  (forall t k v, pre_cons st t -> pre_cons st (a_setval k v t))
  /\ (forall f c k v, pre_cons_f st f -> pre_cons_f st (a_setval_f c k v f)).
Proof.
  apply atree_aforest_ind.
  - intros o p ov cs IH k v Hp.
    apply (pre_cons_of_parts st _ (AN o p ov cs)); [apply (proj1 a_setval_same_mut) | exact Hp |].
    destruct Hp as (_ & B & C). cbn [a_setval].
    destruct (follow_stem k p) as [|s ps|c k'|cm kc kr sc sr]; auto.
    destruct ov as [[x a]|]; [split; [apply vcons_owned | exact C] | auto].
  - auto.
  - intros c' t IHt r IHr c k v [A B]. cbn [a_setval_f]. destruct (c =? c');
      (split; [try apply IHt; assumption | try apply IHr; assumption]).
Qed.

(** ** Histories of modifying operations between thaw and freeze *)
Inductive mop :=
| MInsert (k : list N) (v : value)
| MDelete (k : list N)
| MDelPrefix (k : list N)
| MSetval (k : list N) (v : value).

Definition apply_mop (o : mop) (r : option atree) : option atree :=
  match o, r with
  | MInsert k v, _ => Some (a_insert_root k v r)
  | MDelete k, Some t => a_delete k t
  | MDelPrefix k, Some t => a_delete_prefix k t
  | MSetval k v, Some t => Some (a_setval k v t)
  | _, None => None
  end.

Definition pre_cons_root (st : store) (r : option atree) : Prop :=
  match r with Some t => pre_cons st t | None => True end.
Definition consistent_root (st : store) (r : option atree) : Prop :=
  match r with Some t => consistent sha256 st t | None => True end.

Lemma pre_cons_apply st o r : pre_cons_root st r -> pre_cons_root st (apply_mop o r).
Proof.
  destruct o as [k v|k|k|k v]; destruct r as [t|]; cbn [apply_mop pre_cons_root a_insert_root]; intros H; try exact I.
  - apply (proj1 (pre_cons_insert_mut st)). exact H.
  - apply pre_cons_leaf.
  - destruct (a_delete k t) as [t'|] eqn:E; [|exact I]. eapply (proj1 (pre_cons_delete_mut st)); eassumption.
  - destruct (a_delete_prefix k t) as [t'|] eqn:E; [|exact I].
    eapply (proj1 (pre_cons_delete_prefix_mut st)); eassumption.
  - apply (proj1 (pre_cons_setval_mut st)). exact H.
Qed.

(** Thaw a state that is consistent with the store, apply any modifying operations,
    freeze: the frozen state is consistent with the store again. *)
Theorem thaw_modify_freeze_consistent_root st (ops : list mop) r :
  consistent_root st r ->
  consistent_root st (fst (freeze_root (fold_left (fun x o => apply_mop o x) ops (thaw r)))).
Proof.
  intros Hc.
  assert (Hp : pre_cons_root st (fold_left (fun x o => apply_mop o x) ops (thaw r))).
  { unfold thaw. assert (H0 : pre_cons_root st r).
    { destruct r as [t|]; [apply (proj1 (consistent_pre_mut st)); exact Hc | exact I]. }
    clear Hc. revert r H0. induction ops as [|o ops IH]; intros r H0; [exact H0|].
    cbn [fold_left]. apply IH. apply pre_cons_apply. exact H0. }
  destruct (fold_left _ ops (thaw r)) as [t|]; [|exact I]. cbn [freeze_root pre_cons_root] in *.
  pose proof (proj1 (freeze_consistent_mut st) t Hp) as H.
  destruct (freeze t) as [[ch t'] n]. exact H.
Qed.

End ThawFreeze.

(** Closing the chain: a state consistent with the store is thawed, modified, frozen and
    stored again - the top record names the root, following the references loads the
    frozen tree with the right hashes, and the resulting states are consistent again. *)
Theorem modified_state_stores (sha256 : list N -> list N) :
  (forall x, length (sha256 x) = 32%nat) ->
  forall st (ops : list mop) r t' st' kept loaded top,
  consistent_root sha256 st r ->
  fst (freeze_root (fold_left (fun x o => apply_mop o x) ops (thaw r))) = Some t' ->
  tree_ok t' -> bounded st ->
  store_update sha256 (Some t') st = (st', kept, loaded, top) -> s_next st' < 2 ^ 64 ->
  erase_root kept = Some (erase t') /\ erase_root loaded = Some (erase t')
  /\ (exists x, root_ref loaded = Some x /\ load_raw st' top = Some (1 :: be64 x)
                /\ loads sha256 st' x (erase t'))
  /\ bounded st'
  /\ (match kept with Some k => consistent sha256 st' k | None => False end)
  /\ (match loaded with Some l => consistent sha256 st' l | None => False end).
Proof.
  intros sha_len st ops r t' st' kept loaded top Hc Ef Hok Hb Es Hn.
  pose proof (thaw_modify_freeze_consistent_root sha256 st ops r Hc) as H. rewrite Ef in H.
  eapply store_update_incremental; eassumption.
Qed.
