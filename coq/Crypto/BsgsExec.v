(** C12 - executable entry point of [Bsgs.v] for the correspondence: the group is Z/r "in the
    exponent" (a point is its discrete logarithm to the base h), so the base is 1. *)
From Coq Require Import NArith List.
From CB Require Import Crypto.Chunks Crypto.ValueChunks Crypto.Bsgs.
Local Open Scope N_scope.

Definition zr_add (a b : N) : N := let s := a + b in if s <? r_bls_N then s else s - r_bls_N.   (* operands are below r *)
Definition zr_opp (a : N) : N := if a =? 0 then 0 else r_bls_N - a.
(** table of size [m], value [x*h]; fuel = x/m + 2 giant steps *)
Definition bsgs_case (m x : N) : dl_result :=
  discrete_log N zr_add N.eqb (N.to_nat (x / m + 2)) (bsgs_new N 0 zr_add zr_opp 1 m) (x mod r_bls_N).
(** same with one giant step too few: must not have returned *)
Definition bsgs_case_short (m x : N) : dl_result :=
  discrete_log N zr_add N.eqb (N.to_nat (x / m)) (bsgs_new N 0 zr_add zr_opp 1 m) (x mod r_bls_N).
