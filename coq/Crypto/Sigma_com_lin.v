(** sigma_protocols/com_lin.rs: knowledge of [(x_i, r_i)_i, r] with [C_i = x_i*g + r_i*h] and
    [C = (sum u_i*x_i)*g + r*h], for every n.  Response style [rho - c*w].  All the length checks of
    the Rust code are part of the model. *)
From Coq Require Import ZArith NArith List Field Lia String Bool.
From CB Require Import Crypto.Alg Crypto.Transcript Crypto.TranscriptProofs Crypto.SigmaGeneric Crypto.SigmaCodec.
Import ListNotations.

Record com_lin_stmt {K : FieldOps} (M : ModOps K) := mkComLin {
  cl_us : list K; cl_cmms : list M; cl_cmm : M; cl_g : M; cl_h : M }.
Arguments mkComLin {K M} _ _ _ _ _. Arguments cl_us {K M} _. Arguments cl_cmms {K M} _.
Arguments cl_cmm {K M} _. Arguments cl_g {K M} _. Arguments cl_h {K M} _.

Section ComLin.
  Context {K : FieldOps} {M : ModOps K} (Cd : CodecOps M).
  Local Open Scope G_scope.
  Definition cl_wit : Type := (list K * list K * K)%type.   (* xs / alphas, rs / r~_i, r / r~ *)
  Notation len := (@List.length _).
  Definition neqb (a b : nat) : bool := negb (Nat.eqb a b).

  Definition com_lin_public (k : tkind) (s : com_lin_stmt M) : bytes :=
    msgs k (str "us") (map (serF Cd) (cl_us s)) ++ msgs k (str "cmms") (map (serG Cd) (cl_cmms s)) ++
    msg k (str "cmm") (serG Cd (cl_cmm s)) ++ msg k (str "cmm_key") (serG Cd (cl_g s) ++ serG Cd (cl_h s)).
  Definition hide (g h : M) (x r : K) : M := x *: g + r *: h.
  (** [if self.us.len() != n return None]; a_i = commit(alpha_i; r~_i); a = commit(sum u_i*alpha_i; r~) *)
  Definition com_lin_commit (s : com_lin_stmt M) (r : cl_wit) : option (list M * M) :=
    let '(alphas, rts, rt) := r in
    if neqb (len (cl_us s)) (len (cl_cmms s)) then None
    else Some (map2 (hide (cl_g s) (cl_h s)) alphas rts, hide (cl_g s) (cl_h s) (Fdot (cl_us s) alphas) rt).
  Definition resp1 (c w rho : K) : K := Fadd K (Fopp K (Fmul K c w)) rho.
  Definition com_lin_respond (s : com_lin_stmt M) (w : cl_wit) (r : cl_wit) (c : K) : option cl_wit :=
    let '(xs, rs, rr) := w in let '(alphas, rts, rt) := r in
    let n := len alphas in
    if neqb (len (cl_cmms s)) n || neqb (len (cl_us s)) n || neqb (len xs) n || neqb (len rs) n then None
    else Some (map2 (resp1 c) xs alphas, map2 (resp1 c) rs rts, resp1 c rr rt).
  Definition com_lin_extract (s : com_lin_stmt M) (c : K) (z : cl_wit) : option (list M * M) :=
    let '(zs, ss, sf) := z in
    let n := len zs in
    if neqb (len ss) n || neqb (len (cl_us s)) n || neqb (len (cl_cmms s)) n then None
    else Some (map3 (fun Ci zi si => zi *: cl_g s + (si *: cl_h s + c *: Ci)) (cl_cmms s) zs ss,
               Fdot (cl_us s) zs *: cl_g s + (sf *: cl_h s + c *: cl_cmm s)).

  Definition com_lin_proto : proto K := {|
    p_stmt := com_lin_stmt M; p_wit := cl_wit; p_rand := cl_wit; p_cm := list M * M; p_resp := cl_wit;
    p_public := com_lin_public; p_commit := com_lin_commit; p_respond := com_lin_respond; p_extract := com_lin_extract;
    p_ser_cm := fun a => ser_vec (map (serG Cd) (fst a)) ++ serG Cd (snd a);
    p_ser_resp := fun z => let '(zs, ss, sf) := z in
      ser_vec32 (map (serF Cd) zs) ++ ser_vec32 (map (serF Cd) ss) ++ serF Cd sf |}.

  Definition com_lin_rel (s : com_lin_stmt M) (w : cl_wit) : Prop :=
    let '(xs, rs, rr) := w in
    len xs = len (cl_us s) /\ len rs = len (cl_us s) /\
    cl_cmms s = map2 (hide (cl_g s) (cl_h s)) xs rs /\
    cl_cmm s = hide (cl_g s) (cl_h s) (Fdot (cl_us s) xs) rr.
  Definition com_lin_rok (s : com_lin_stmt M) (r : cl_wit) : Prop :=
    let '(alphas, rts, _) := r in len alphas = len (cl_us s) /\ len rts = len (cl_us s).
  Definition com_lin_recover (s : com_lin_stmt M) (w : cl_wit) (c : K) (z : cl_wit) : cl_wit :=
    let '(xs, rs, rr) := w in let '(zs, ss, sf) := z in
    let rec zi wi := Fadd K zi (Fmul K c wi) in (map2 rec zs xs, map2 rec ss rs, rec sf rr).

  Context {KL : FieldLaws K} {ML : ModLaws M}.
  Add Field Kf_cl : (@F_th K KL).

  Lemma Fdot_resp c (us : list K) : forall xs alphas : list K, len xs = len alphas ->
    Fdot us (map2 (resp1 c) xs alphas) = Fsub K (Fdot us alphas) (Fmul K c (Fdot us xs)).
  Proof.
    induction us as [|u us IH]; intros [|x xs] [|a al] L; try discriminate; cbn; try ring.
    rewrite IH by (cbn in L; lia). unfold resp1. ring.
  Qed.
  Lemma items_complete c (g h : M) : forall xs rs alphas rts : list K,
    len rs = len xs -> len alphas = len xs -> len rts = len xs ->
    map3 (fun Ci zi si => zi *: g + (si *: h + c *: Ci)) (map2 (hide g h) xs rs)
         (map2 (resp1 c) xs alphas) (map2 (resp1 c) rs rts) = map2 (hide g h) alphas rts.
  Proof.
    induction xs as [|x xs IH]; intros [|r rs] [|a al] [|t rts] L1 L2 L3; try discriminate; [reflexivity|].
    cbn [map2 map3]. rewrite IH by (cbn in *; lia). f_equal. unfold hide, resp1. mod_norm.
  Qed.

  Theorem com_lin_complete_ : complete com_lin_proto com_lin_rel com_lin_rok.
  Proof.
    intros [us cmms cmm g h] [[xs rs] rr] [[al rts] rt] (L1 & L2 & Hc & Hm) [L3 L4]. cbn in L1, L2, L3, L4, Hc, Hm. subst cmms cmm.
    assert (Lc : len (map2 (hide g h) xs rs) = len us) by (rewrite map2_length, L1, L2; apply Nat.min_id).
    eexists. split.
    { cbn [p_commit com_lin_proto com_lin_commit cl_us cl_cmms cl_g cl_h cl_cmm]. unfold neqb. rewrite Lc, Nat.eqb_refl. reflexivity. }
    intro c. cbn [p_respond p_extract com_lin_proto com_lin_respond com_lin_extract cl_us cl_cmms cl_g cl_h cl_cmm]. unfold neqb. rewrite Lc, L1, L2, L3, !Nat.eqb_refl. cbn [negb orb]. eexists. split; [reflexivity|].
    unfold com_lin_extract, neqb. cbn [cl_us cl_cmms cl_g cl_h cl_cmm]. rewrite !map2_length, L1, L2, L3, L4, !Nat.min_id, !Nat.eqb_refl. cbn [negb orb]. f_equal. f_equal.
    - apply items_complete; congruence.
    - rewrite Fdot_resp by congruence. unfold hide, resp1. mod_norm.
  Qed.

  (** a response whose vectors do not have the statement's length is rejected *)
  Theorem com_lin_extract_length_ : forall s c zs ss sf a, com_lin_extract s c (zs, ss, sf) = Some a ->
    len zs = len (cl_cmms s) /\ len ss = len (cl_cmms s) /\ len (cl_us s) = len (cl_cmms s).
  Proof.
    intros s c zs ss sf a. unfold com_lin_extract, neqb.
    destruct (Nat.eqb (len ss) (len zs)) eqn:E1; [|discriminate].
    destruct (Nat.eqb (len (cl_us s)) (len zs)) eqn:E2; [|discriminate].
    destruct (Nat.eqb (len (cl_cmms s)) (len zs)) eqn:E3; [|discriminate].
    intros _. apply Nat.eqb_eq in E1, E2, E3. repeat split; congruence.
  Qed.

  (** special soundness, extractor (z - z')/(c' - c) componentwise *)
  Definition exv (c c' : K) (a b : list K) : list K := map2 (fun z z' => Fmul K (Finv K (Fsub K c' c)) (Fsub K z z')) a b.
  Definition com_lin_extractor (s : com_lin_stmt M) (c c' : K) (z z' : cl_wit) : cl_wit :=
    let '(zs, ss, sf) := z in let '(zs', ss', sf') := z' in
    (exv c c' zs zs', exv c c' ss ss', Fmul K (Finv K (Fsub K c' c)) (Fsub K sf sf')).

  Lemma ss_row3 (c c' : K) (y a a' : M) : c <> c' -> a + c *: y = a' + c' *: y ->
    y = Finv K (Fsub K c' c) *: (a - a').
  Proof.
    intros Hc E.
    assert (Hd : Fsub K c' c <> F0 K) by (intro Z; apply Hc; transitivity (Fsub K c' (Fsub K c' c)); [ring | rewrite Z; ring]).
    rewrite <- (smul_inv_cancel (Fsub K c' c) y Hd) at 1. f_equal.
    assert (Ea : a = a' + c' *: y - c *: y) by (apply (Gadd_cancel_r (c *: y)); rewrite E; mod_norm).
    rewrite Ea. mod_norm.
  Qed.
  Lemma items_ss c c' (g h : M) : c <> c' -> forall (cm : list M) (zs ss zs' ss' : list K),
    len zs = len cm -> len ss = len cm -> len zs' = len cm -> len ss' = len cm ->
    map3 (fun Ci zi si => zi *: g + (si *: h + c *: Ci)) cm zs ss =
    map3 (fun Ci zi si => zi *: g + (si *: h + c' *: Ci)) cm zs' ss' ->
    cm = map2 (hide g h) (exv c c' zs zs') (exv c c' ss ss').
  Proof.
    intros Hc. induction cm as [|C cm IH]; intros [|z zs] [|s ss] [|z' zs'] [|s' ss'] L1 L2 L3 L4 E; try discriminate; [reflexivity|].
    cbn [map3] in E. injection E as E0 E. cbn [exv map2]. f_equal.
    - rewrite !Gadd_assoc in E0. apply (ss_row3 c c' C _ _ Hc) in E0. rewrite E0. unfold hide. mod_norm.
    - apply IH; cbn in *; auto; lia.
  Qed.
  Lemma Fdot_exv c c' (us : list K) : forall zs zs' : list K, len zs = len zs' ->
    Fdot us (exv c c' zs zs') = Fmul K (Finv K (Fsub K c' c)) (Fsub K (Fdot us zs) (Fdot us zs')).
  Proof.
    induction us as [|u us IH]; intros [|z zs] [|z' zs'] L; try discriminate; cbn; try ring.
    fold (exv c c' zs zs'). rewrite IH by (cbn in L; lia). ring.
  Qed.

  Theorem com_lin_special_sound_ : special_sound com_lin_proto com_lin_rel com_lin_extractor.
  Proof.
    intros [us cmms cmm g h] a c c' [[zs ss] sf] [[zs' ss'] sf'] Hc E E'.
    destruct (com_lin_extract_length_ _ _ _ _ _ _ E) as (A1 & A2 & A3).
    destruct (com_lin_extract_length_ _ _ _ _ _ _ E') as (B1 & B2 & _). cbn [cl_cmms cl_us] in *.
    cbn [p_extract com_lin_proto] in E, E'. unfold com_lin_extract, neqb in E, E'. cbn [cl_us cl_cmms cl_cmm cl_g cl_h] in E, E'.
    rewrite A2, A3, A1, !Nat.eqb_refl in E. rewrite B2, A3, B1, !Nat.eqb_refl in E'. cbn [negb orb] in E, E'.
    rewrite <- E' in E. injection E as E1 E2.
    unfold com_lin_rel, com_lin_extractor. cbn [cl_us cl_cmms cl_cmm cl_g cl_h].
    assert (Lx : forall a b : list K, len a = len cmms -> len b = len cmms -> len (exv c c' a b) = len us).
    { intros a0 b0 La Lb. unfold exv. rewrite map2_length, La, Lb, Nat.min_id. congruence. }
    repeat split; auto.
    - apply items_ss; auto.
    - rewrite !Gadd_assoc in E2. apply (ss_row3 c c' cmm _ _ Hc) in E2. rewrite E2 at 1.
      rewrite Fdot_exv by congruence. unfold hide. mod_norm.
  Qed.

  Context {CL : CodecLaws Cd}.
  Theorem com_lin_public_prefix_free_v1_ :
    public_prefix_free com_lin_proto V1
      (fun s => (N.of_nat (len (cl_us s)) < W64)%N /\ (N.of_nat (len (cl_cmms s)) < W64)%N).
  Proof.
    intros [us cm c g h] [us' cm' c' g' h'] x y [L1 L2] [L1' L2'] E. cbn [cl_us cl_cmms] in *.
    cbn [p_public com_lin_proto] in E. unfold com_lin_public in E. cbn [cl_us cl_cmms cl_cmm cl_g cl_h] in E.
    rewrite <- !app_assoc in E.
    apply (msgs_v1_split_F Cd) in E; auto. destruct E as [-> E].
    apply (msgs_v1_split_G Cd) in E; auto. destruct E as [-> E].
    apply (msg_split_G Cd) in E. destruct E as [-> E].
    unfold msg in E. rewrite <- !app_assoc in E. apply app_inv_head in E.
    apply (serG_split Cd) in E. destruct E as [-> E]. apply (serG_split Cd) in E. destruct E as [-> ->]. auto.
  Qed.
  Theorem com_lin_public_prefix_free_fixed_size_ : forall k n,
    public_prefix_free com_lin_proto k (fun s => len (cl_us s) = n /\ len (cl_cmms s) = n).
  Proof.
    intros k n [us cm c g h] [us' cm' c' g' h'] x y [L1 L2] [L1' L2'] E. cbn [cl_us cl_cmms] in *.
    cbn [p_public com_lin_proto] in E. unfold com_lin_public in E. cbn [cl_us cl_cmms cl_cmm cl_g cl_h] in E.
    rewrite <- !app_assoc in E.
    apply (msgs_split_F_samelen Cd) in E; [|congruence]. destruct E as [-> E].
    apply (msgs_split_G_samelen Cd) in E; [|congruence]. destruct E as [-> E].
    apply (msg_split_G Cd) in E. destruct E as [-> E].
    unfold msg in E. rewrite <- !app_assoc in E. apply app_inv_head in E.
    apply (serG_split Cd) in E. destruct E as [-> E]. apply (serG_split Cd) in E. destruct E as [-> ->]. auto.
  Qed.
End ComLin.
