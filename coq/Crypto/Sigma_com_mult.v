(** sigma_protocols/com_mult.rs: knowledge of [(x1, x2, r1, r2, r3)] with [C_i = x_i*g + r_i*h] and
    [C_3 = (x1*x2)*g + r3*h].  The linear map depends on the public commitment [C_1]:
    [C_3 = x2*C_1 + (r3 - r1*x2)*h]; it is linear in the witness vector [x1; x2; r1; r2; r3 - r1*x2]. *)
From Coq Require Import ZArith NArith List Field Lia String.
From CB Require Import Crypto.Alg Crypto.Transcript Crypto.TranscriptProofs Crypto.SigmaGeneric Crypto.SigmaCodec.
Import ListNotations.

Record com_mult_stmt {K : FieldOps} (M : ModOps K) := mkComMult { cm_c1 : M; cm_c2 : M; cm_c3 : M; cm_g : M; cm_h : M }.
Arguments mkComMult {K M} _ _ _ _ _. Arguments cm_c1 {K M} _. Arguments cm_c2 {K M} _. Arguments cm_c3 {K M} _.
Arguments cm_g {K M} _. Arguments cm_h {K M} _.

Section ComMult.
  Context {K : FieldOps} {M : ModOps K} (Cd : CodecOps M).
  Local Open Scope G_scope.
  Definition K5 : Type := (K * K * K * K * K)%type.

  (** [public]: append_messages("cmms", the three commitments); append_message("cmm_key", key) *)
  Definition com_mult_public (k : tkind) (s : com_mult_stmt M) : bytes :=
    msgs k (str "cmms") [serG Cd (cm_c1 s); serG Cd (cm_c2 s); serG Cd (cm_c3 s)] ++
    msg k (str "cmm_key") (serG Cd (cm_g s) ++ serG Cd (cm_h s)).
  (** randomness (alpha1, alpha2, R1, R2, R); commit ([v1, v2], v) with v committed under key (C_1, h) *)
  Definition com_mult_commit (s : com_mult_stmt M) (r : K5) : option (M * M * M) :=
    let '(a1, a2, R1, R2, R) := r in
    Some (a1 *: cm_g s + R1 *: cm_h s, a2 *: cm_g s + R2 *: cm_h s, a2 *: cm_c1 s + R *: cm_h s).
  (** secret (x1, x2, r1, r2, r3); response (s1, s2, t1, t2, t) *)
  Definition com_mult_respond (s : com_mult_stmt M) (w : K5) (r : K5) (c : K) : option K5 :=
    let '(x1, x2, r1, r2, r3) := w in let '(a1, a2, R1, R2, R) := r in
    let rr := Fadd K (Fopp K (Fmul K (Fmul K (F1 K) r1) x2)) r3 in
    Some (Fadd K (Fopp K (Fmul K c x1)) a1, Fadd K (Fopp K (Fmul K c x2)) a2,
          Fadd K (Fopp K (Fmul K c r1)) R1, Fadd K (Fopp K (Fmul K c r2)) R2,
          Fadd K (Fopp K (Fmul K rr c)) R).
  Definition com_mult_extract (s : com_mult_stmt M) (c : K) (z : K5) : option (M * M * M) :=
    let '(s1, s2, t1, t2, t) := z in
    Some (c *: cm_c1 s + (s1 *: cm_g s + t1 *: cm_h s),
          c *: cm_c2 s + (s2 *: cm_g s + t2 *: cm_h s),
          s2 *: cm_c1 s + (t *: cm_h s + c *: cm_c3 s)).

  Definition ser5F (z : K5) : bytes :=
    let '(s1, s2, t1, t2, t) := z in serF Cd s1 ++ serF Cd s2 ++ serF Cd t1 ++ serF Cd t2 ++ serF Cd t.
  Definition ser3G_cm (a : M * M * M) : bytes := let '(a1, a2, a3) := a in serG Cd a1 ++ serG Cd a2 ++ serG Cd a3.
  Definition com_mult_proto : proto K := {|
    p_stmt := com_mult_stmt M; p_wit := K5; p_rand := K5; p_cm := M * M * M; p_resp := K5;
    p_public := com_mult_public; p_commit := com_mult_commit; p_respond := com_mult_respond;
    p_extract := com_mult_extract; p_ser_cm := ser3G_cm; p_ser_resp := ser5F |}.

  Definition com_mult_rel (s : com_mult_stmt M) (w : K5) : Prop :=
    let '(x1, x2, r1, r2, r3) := w in
    cm_c1 s = x1 *: cm_g s + r1 *: cm_h s /\ cm_c2 s = x2 *: cm_g s + r2 *: cm_h s /\
    cm_c3 s = Fmul K x1 x2 *: cm_g s + r3 *: cm_h s.
  Definition com_mult_recover (s : com_mult_stmt M) (w : K5) (c : K) (z : K5) : K5 :=
    let '(x1, x2, r1, r2, r3) := w in let '(s1, s2, t1, t2, t) := z in
    (Fadd K s1 (Fmul K c x1), Fadd K s2 (Fmul K c x2), Fadd K t1 (Fmul K c r1), Fadd K t2 (Fmul K c r2),
     Fadd K t (Fmul K c (Fsub K r3 (Fmul K r1 x2)))).

  (** linear map over [x1; x2; r1; r2; r'] *)
  Definition com_mult_A (s : com_mult_stmt M) : list (list M) :=
    [[cm_g s; G0 M; cm_h s; G0 M; G0 M]; [G0 M; cm_g s; G0 M; cm_h s; G0 M]; [G0 M; cm_c1 s; G0 M; G0 M; cm_h s]].
  Definition com_mult_y (s : com_mult_stmt M) : list M := [cm_c1 s; cm_c2 s; cm_c3 s].
  Definition fl5 (z : K5) : list K := let '(a, b, c, d, e) := z in [a; b; c; d; e].
  Definition fl3m (a : M * M * M) : list M := let '(a1, a2, a3) := a in [a1; a2; a3].
  (** the witness as the linear map sees it *)
  Definition com_mult_lin_wit (w : K5) : list K :=
    let '(x1, x2, r1, r2, r3) := w in [x1; x2; r1; r2; Fsub K r3 (Fmul K r1 x2)].

  Context {KL : FieldLaws K} {ML : ModLaws M}.
  Add Field Kf_cmult : (@F_th K KL).

  Lemma com_mult_commit_generic s r a : com_mult_commit s r = Some a -> fl3m a = m_commit (com_mult_A s) (fl5 r).
  Proof. destruct r as [[[[a1 a2] R1] R2] R]. intro E. injection E as <-. cbn. list_split; mod_norm. Qed.
  Lemma com_mult_respond_generic s w r c z : com_mult_respond s w r c = Some z ->
    fl5 z = m_respond RespMinus c (com_mult_lin_wit w) (fl5 r).
  Proof.
    destruct w as [[[[x1 x2] r1] r2] r3], r as [[[[a1 a2] R1] R2] R]. intro E. injection E as <-. cbn. list_split; ring.
  Qed.
  Lemma com_mult_extract_generic s c z a : com_mult_extract s c z = Some a ->
    fl3m a = m_reconstruct RespMinus (com_mult_A s) (com_mult_y s) c (fl5 z).
  Proof. destruct z as [[[[s1 s2] t1] t2] t]. intro E. injection E as <-. cbn. list_split; mod_norm. Qed.
  (** a witness of the multiplicative relation is a preimage under the linear map ... *)
  Lemma com_mult_rel_generic s w : com_mult_rel s w -> phi (com_mult_A s) (com_mult_lin_wit w) = com_mult_y s.
  Proof.
    destruct w as [[[[x1 x2] r1] r2] r3], s as [c1 c2 c3 g h]. unfold com_mult_rel, phi, com_mult_A, com_mult_y. cbn.
    intros (-> & -> & ->). list_split; mod_norm.
  Qed.
  (** ... and a preimage [x1; x2; r1; r2; r'] gives the witness (x1, x2, r1, r2, r' + r1*x2) *)
  Lemma com_mult_rel_back s x1 x2 r1 r2 r' :
    phi (com_mult_A s) [x1; x2; r1; r2; r'] = com_mult_y s ->
    com_mult_rel s (x1, x2, r1, r2, Fadd K r' (Fmul K r1 x2)).
  Proof.
    unfold com_mult_rel, phi, com_mult_A, com_mult_y. cbn. intro E. injection E as E1 E2 E3.
    repeat split.
    - rewrite <- E1. mod_norm.
    - rewrite <- E2. mod_norm.
    - rewrite <- E3. rewrite <- E1. mod_norm.
  Qed.

  Theorem com_mult_complete_ : complete com_mult_proto com_mult_rel (fun _ _ => True).
  Proof.
    intros [c1 c2 c3 g h] [[[[x1 x2] r1] r2] r3] [[[[a1 a2] R1] R2] R] (H1 & H2 & H3) _. cbn in H1, H2, H3. subst c1 c2 c3.
    eexists. split; [reflexivity|].
    intro c. eexists. split; [reflexivity|]. cbn. list_split; mod_norm.
  Qed.

  Definition com_mult_extractor (s : com_mult_stmt M) (c c' : K) (z z' : K5) : K5 :=
    let v := m_extract RespMinus c c' (fl5 z) (fl5 z') in
    let n i := nth i v (F0 K) in (n 0%nat, n 1%nat, n 2%nat, n 3%nat, Fadd K (n 4%nat) (Fmul K (n 2%nat) (n 1%nat))).
  Theorem com_mult_special_sound_ : special_sound com_mult_proto com_mult_rel com_mult_extractor.
  Proof.
    intros s a c c' z z' Hc E E'.
    pose proof (com_mult_extract_generic s c z a E) as G1. pose proof (com_mult_extract_generic s c' z' a E') as G2.
    destruct z as [[[[s1 s2] t1] t2] t], z' as [[[[s1' s2'] t1'] t2'] t'].
    pose proof (sigma_special_sound_ RespMinus (com_mult_A s) (com_mult_y s) (fl3m a) c c'
                  [s1; s2; t1; t2; t] [s1'; s2'; t1'; t2'; t'] Hc eq_refl eq_refl (eq_sym G1) (eq_sym G2)) as S.
    unfold com_mult_extractor. cbn [fl5]. cbn [m_extract vscale vsub map map2 nth] in S |- *.
    apply com_mult_rel_back. exact S.
  Qed.

  Context {CL : CodecLaws Cd}.
  Theorem com_mult_public_prefix_free_ : forall k, public_prefix_free com_mult_proto k (fun _ => True).
  Proof.
    intros k [a b c d e] [a' b' c' d' e'] x y _ _ E. cbn in E. unfold com_mult_public in E.
    cbn [cm_c1 cm_c2 cm_c3 cm_g cm_h] in E. rewrite <- !app_assoc in E.
    change [serG Cd a; serG Cd b; serG Cd c] with (map (serG Cd) [a; b; c]) in E.
    change [serG Cd a'; serG Cd b'; serG Cd c'] with (map (serG Cd) [a'; b'; c']) in E.
    apply (msgs_split_G_samelen Cd) in E; [|reflexivity]. destruct E as [E1 E]. injection E1 as -> -> ->.
    unfold msg in E. rewrite <- !app_assoc in E. apply app_inv_head in E.
    apply (serG_split Cd) in E. destruct E as [-> E]. apply (serG_split Cd) in E. destruct E as [-> ->]. auto.
  Qed.
End ComMult.
