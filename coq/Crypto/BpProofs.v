(** C11 - proofs about the bulletproof models ([BpAlg], [Ipa], [RangeProof], [SetProof]).

    One Section: the scalar carrier is any commutative ring ([ring_theory], Leibniz equality), the
    group any module over it (laws as Section hypotheses).  Inverses never appear: wherever the code
    inverts a challenge, the theorems take the inverse as a separate element with  u * ui = 1.

    Module equalities are decided by [mod_ring]: the module is embedded into the trivial-extension
    ring F (+) G  ((a,x)(b,y) = (ab, a.y + b.x)), where [ring] applies.                              *)
From Coq Require Import List Ring Lia Arith Bool ZArith.
From CB Require Import Crypto.BpAlg Crypto.Ipa Crypto.RangeProof.
Import ListNotations.

Section BpProofs.
  Variable Ops : bp_ops.
  Local Notation F := (o_F Ops).
  Local Notation G := (o_G Ops).
  Local Notation f0 := (o_f0 Ops).
  Local Notation f1 := (o_f1 Ops).
  Local Notation fadd := (o_fadd Ops).
  Local Notation fmul := (o_fmul Ops).
  Local Notation fsub := (o_fsub Ops).
  Local Notation fopp := (o_fopp Ops).
  Local Notation feqb := (o_feqb Ops).
  Local Notation g0 := (o_g0 Ops).
  Local Notation gadd := (o_gadd Ops).
  Local Notation gopp := (o_gopp Ops).
  Local Notation smul := (o_smul Ops).
  Local Notation geqb := (o_geqb Ops).
  Local Notation dot := (dot Ops).
  Local Notation msum := (msum Ops).
  Local Notation vadd := (vadd Ops).
  Local Notation vmul := (vmul Ops).
  Local Notation vscale := (vscale Ops).
  Local Notation vconst := (@vconst Ops).
  Local Notation vsum := (vsum Ops).
  Local Notation gvadd := (gvadd Ops).
  Local Notation gvscale := (gvscale Ops).
  Local Notation gvmul := (gvmul Ops).
  Local Notation z_vec := (z_vec Ops).
  Local Notation fpow := (fpow Ops).
  Local Notation powers_from := (powers_from Ops).
  Local Notation gsub := (gsub Ops).
  Local Notation ipa_prove := (ipa_prove Ops).
  Local Notation ipa_code_lhs := (ipa_code_lhs Ops).
  Local Notation ipa_check := (ipa_check Ops).
  Local Notation ipa_L := (ipa_L Ops).
  Local Notation ipa_R := (ipa_R Ops).
  Local Notation fold_a := (fold_a Ops).
  Local Notation fold_b := (fold_b Ops).
  Local Notation fold_G := (fold_G Ops).
  Local Notation fold_H := (fold_H Ops).
  Local Notation svec := (svec Ops).
  Local Notation lr_sum := (lr_sum Ops).
  Local Notation vsub := (vsub Ops).

  Hypothesis Fth : ring_theory f0 f1 fadd fmul fsub fopp (@eq F).
  Add Ring Fring : Fth.

  Hypothesis gadd_assoc : forall x y z, gadd x (gadd y z) = gadd (gadd x y) z.
  Hypothesis gadd_comm : forall x y, gadd x y = gadd y x.
  Hypothesis gadd_0_l : forall x, gadd g0 x = x.
  Hypothesis gadd_opp : forall x, gadd x (gopp x) = g0.
  Hypothesis smul_add_r : forall c x y, smul c (gadd x y) = gadd (smul c x) (smul c y).
  Hypothesis smul_add_l : forall c d x, smul (fadd c d) x = gadd (smul c x) (smul d x).
  Hypothesis smul_mul : forall c d x, smul (fmul c d) x = smul c (smul d x).
  Hypothesis smul_1 : forall x, smul f1 x = x.

  (** * derived module facts *)
  Lemma gadd_0_r x : gadd x g0 = x.
  Proof. rewrite gadd_comm. apply gadd_0_l. Qed.

  Lemma gadd_idem_zero y : gadd y y = y -> y = g0.
  Proof.
    intros H. assert (E : gadd (gadd y y) (gopp y) = gadd y (gopp y)) by (rewrite H; reflexivity).
    rewrite <- gadd_assoc in E. rewrite gadd_opp in E. rewrite gadd_0_r in E. exact E.
  Qed.

  Lemma smul_0_l x : smul f0 x = g0.
  Proof. apply gadd_idem_zero. rewrite <- smul_add_l. f_equal. ring. Qed.

  Lemma smul_0_r c : smul c g0 = g0.
  Proof. apply gadd_idem_zero. rewrite <- smul_add_r. rewrite gadd_0_l. reflexivity. Qed.

  Lemma gopp_0 : gopp g0 = g0.
  Proof. rewrite <- (gadd_0_l (gopp g0)). apply gadd_opp. Qed.

  Lemma gadd_swap4 a b c d : gadd (gadd a b) (gadd c d) = gadd (gadd a c) (gadd b d).
  Proof.
    rewrite <- gadd_assoc. rewrite (gadd_assoc b c d). rewrite (gadd_comm b c).
    rewrite <- (gadd_assoc c b d). rewrite gadd_assoc. reflexivity.
  Qed.

  (** * the trivial-extension ring F (+) G *)
  Definition R : Type := (F * G)%type.
  Definition r0 : R := (f0, g0).
  Definition r1 : R := (f1, g0).
  Definition radd (p q : R) : R := (fadd (fst p) (fst q), gadd (snd p) (snd q)).
  Definition rmul (p q : R) : R :=
    (fmul (fst p) (fst q), gadd (smul (fst p) (snd q)) (smul (fst q) (snd p))).
  Definition ropp (p : R) : R := (fopp (fst p), gopp (snd p)).
  Definition rsub (p q : R) : R := radd p (ropp q).

  Lemma Rth : ring_theory r0 r1 radd rmul rsub ropp (@eq R).
  Proof.
    constructor.
    - intros [a x]. unfold radd, r0; cbn [fst snd]. f_equal; [ring | apply gadd_0_l].
    - intros [a x] [b y]. unfold radd; cbn [fst snd]. f_equal; [ring | apply gadd_comm].
    - intros [a x] [b y] [c z]. unfold radd; cbn [fst snd]. f_equal; [ring | apply gadd_assoc].
    - intros [a x]. unfold rmul, r1; cbn [fst snd]. f_equal; [ring |].
      rewrite smul_1, smul_0_r. apply gadd_0_r.
    - intros [a x] [b y]. unfold rmul; cbn [fst snd]. f_equal; [ring | apply gadd_comm].
    - intros [a x] [b y] [c z]. unfold rmul; cbn [fst snd]. f_equal; [ring |].
      rewrite !smul_add_r, <- !smul_mul.
      replace (fmul c a) with (fmul a c) by ring. replace (fmul c b) with (fmul b c) by ring.
      rewrite gadd_assoc. reflexivity.
    - intros [a x] [b y] [c z]. unfold rmul, radd; cbn [fst snd]. f_equal; [ring |].
      rewrite smul_add_l, smul_add_r. apply gadd_swap4.
    - reflexivity.
    - intros [a x]. unfold radd, ropp, r0; cbn [fst snd]. f_equal; [ring | apply gadd_opp].
  Qed.
  Add Ring Rring : Rth.

  Definition iF (c : F) : R := (c, g0).
  Definition iG (x : G) : R := (f0, x).
  Lemma iG_inj x y : iG x = iG y -> x = y.
  Proof. unfold iG. intros H. injection H. auto. Qed.
  Lemma iG_add x y : iG (gadd x y) = radd (iG x) (iG y).
  Proof. unfold iG, radd; cbn [fst snd]. f_equal. ring. Qed.
  Lemma iG_smul c x : iG (smul c x) = rmul (iF c) (iG x).
  Proof. unfold iG, iF, rmul; cbn [fst snd]. f_equal; [ring |]. rewrite smul_0_l. symmetry. apply gadd_0_r. Qed.
  Lemma iG_0 : iG g0 = r0.
  Proof. reflexivity. Qed.
  Lemma iG_opp x : iG (gopp x) = ropp (iG x).
  Proof. unfold iG, ropp; cbn [fst snd]. f_equal. ring. Qed.
  Lemma iF_add a b : iF (fadd a b) = radd (iF a) (iF b).
  Proof. unfold iF, radd; cbn [fst snd]. f_equal. symmetry. apply gadd_0_l. Qed.
  Lemma iF_mul a b : iF (fmul a b) = rmul (iF a) (iF b).
  Proof. unfold iF, rmul; cbn [fst snd]. f_equal. rewrite !smul_0_r. symmetry. apply gadd_0_l. Qed.
  Lemma iF_opp a : iF (fopp a) = ropp (iF a).
  Proof. unfold iF, ropp; cbn [fst snd]. f_equal. symmetry. apply gopp_0. Qed.
  Lemma iF_sub a b : iF (fsub a b) = rsub (iF a) (iF b).
  Proof.
    unfold rsub. rewrite <- iF_opp, <- iF_add. f_equal. ring.
  Qed.
  Lemma iF_0 : iF f0 = r0.
  Proof. reflexivity. Qed.
  Lemma iF_1 : iF f1 = r1.
  Proof. reflexivity. Qed.

  Ltac mod_push :=
    repeat first [ rewrite iG_add | rewrite iG_smul | rewrite iG_opp | rewrite iG_0
                 | rewrite iF_add | rewrite iF_mul | rewrite iF_sub | rewrite iF_opp
                 | rewrite iF_0 | rewrite iF_1 ].
  Ltac mod_ring := unfold BpAlg.gsub; apply iG_inj; mod_push; ring.

  Lemma gsub_zero_iff x y : gadd x (gopp y) = g0 <-> x = y.
  Proof.
    split.
    - intros H. assert (E : gadd (gadd x (gopp y)) y = gadd g0 y) by (rewrite H; reflexivity).
      rewrite gadd_0_l in E. rewrite <- E. mod_ring.
    - intros ->. apply gadd_opp.
  Qed.

  (** * vectors: unfolding equations *)
  Lemma dot_cons x a y b : dot (x :: a) (y :: b) = fadd (fmul x y) (dot a b).
  Proof. reflexivity. Qed.
  Lemma msum_cons x a p P : msum (x :: a) (p :: P) = gadd (smul x p) (msum a P).
  Proof. reflexivity. Qed.
  Lemma vadd_cons x a y b : vadd (x :: a) (y :: b) = fadd x y :: vadd a b.
  Proof. reflexivity. Qed.
  Lemma vmul_cons x a y b : vmul (x :: a) (y :: b) = fmul x y :: vmul a b.
  Proof. reflexivity. Qed.
  Lemma vsub_cons x a y b : vsub (x :: a) (y :: b) = fsub x y :: vsub a b.
  Proof. reflexivity. Qed.
  Lemma vscale_cons c x a : vscale c (x :: a) = fmul c x :: vscale c a.
  Proof. reflexivity. Qed.
  Lemma gvadd_cons x a y b : gvadd (x :: a) (y :: b) = gadd x y :: gvadd a b.
  Proof. reflexivity. Qed.
  Lemma gvscale_cons c x a : gvscale c (x :: a) = smul c x :: gvscale c a.
  Proof. reflexivity. Qed.
  Lemma gvmul_cons c cs x a : gvmul (c :: cs) (x :: a) = smul c x :: gvmul cs a.
  Proof. reflexivity. Qed.
  Lemma vconst_S c n : vconst c (S n) = c :: vconst c n.
  Proof. reflexivity. Qed.
  Lemma vsum_cons x a : vsum (x :: a) = fadd x (vsum a).
  Proof. reflexivity. Qed.

  Ltac vcons := repeat (progress (rewrite ?vadd_cons, ?vmul_cons, ?vsub_cons, ?vscale_cons,
                        ?gvadd_cons, ?gvscale_cons, ?gvmul_cons, ?vconst_S, ?vsum_cons, ?dot_cons, ?msum_cons)).

  Lemma vzip_length {A B C} (f : A -> B -> C) a b : length a = length b -> length (vzip f a b) = length a.
  Proof. intros H. unfold vzip. rewrite map_length, combine_length. lia. Qed.
  Lemma vadd_length a b : length a = length b -> length (vadd a b) = length a.
  Proof. apply vzip_length. Qed.
  Lemma vmul_length a b : length a = length b -> length (vmul a b) = length a.
  Proof. apply vzip_length. Qed.
  Lemma gvadd_length a b : length a = length b -> length (gvadd a b) = length a.
  Proof. apply vzip_length. Qed.
  Lemma gvmul_length a b : length a = length b -> length (gvmul a b) = length a.
  Proof. apply vzip_length. Qed.
  Lemma vscale_length c a : length (vscale c a) = length a.
  Proof. apply map_length. Qed.
  Lemma gvscale_length c a : length (gvscale c a) = length a.
  Proof. apply map_length. Qed.
  Lemma vconst_length c n : length (vconst c n) = n.
  Proof. apply repeat_length. Qed.

  (** * bilinearity *)
  Lemma msum_app : forall a b P Q, length a = length P ->
    msum (a ++ b) (P ++ Q) = gadd (msum a P) (msum b Q).
  Proof.
    induction a as [|x a IH]; intros b [|p P] Q H; cbn [length] in H; try discriminate.
    - cbn [app]. symmetry. apply gadd_0_l.
    - cbn [app]. rewrite !msum_cons, IH by lia. mod_ring.
  Qed.

  Lemma dot_app : forall a b c d, length a = length c ->
    dot (a ++ b) (c ++ d) = fadd (dot a c) (dot b d).
  Proof.
    induction a as [|x a IH]; intros b [|y c] d H; cbn [length] in H; try discriminate.
    - cbn [app]. change (dot [] []) with f0. ring.
    - cbn [app]. rewrite !dot_cons, IH by lia. ring.
  Qed.

  Lemma msum_vadd : forall a b P, length a = length b -> length P = length a ->
    msum (vadd a b) P = gadd (msum a P) (msum b P).
  Proof.
    induction a as [|x a IH]; intros [|y b] [|p P] H1 H2; cbn [length] in *; try discriminate.
    - change (msum (vadd [] []) []) with g0. change (msum [] []) with g0. mod_ring.
    - vcons. rewrite IH by lia. mod_ring.
  Qed.

  Lemma msum_vscale : forall c a P, msum (vscale c a) P = smul c (msum a P).
  Proof.
    induction a as [|x a IH]; intros [|p P].
    - change (msum (vscale c []) []) with g0. change (msum [] []) with g0. mod_ring.
    - change (msum (vscale c []) (p :: P)) with g0. change (msum [] (p :: P)) with g0. mod_ring.
    - change (msum (vscale c (x :: a)) []) with g0. change (msum (x :: a) []) with g0. mod_ring.
    - vcons. rewrite IH. mod_ring.
  Qed.

  Lemma msum_vsub : forall a b P, length a = length b -> length P = length a ->
    msum (vsub a b) P = gadd (msum a P) (gopp (msum b P)).
  Proof.
    induction a as [|x a IH]; intros [|y b] [|p P] H1 H2; cbn [length] in *; try discriminate.
    - change (msum (vsub [] []) []) with g0. change (msum [] []) with g0. mod_ring.
    - vcons. rewrite IH by lia. mod_ring.
  Qed.

  Lemma msum_map_opp : forall a P, msum (map fopp a) P = gopp (msum a P).
  Proof.
    induction a as [|x a IH]; intros [|p P].
    - change (msum (map fopp []) []) with g0. change (msum [] []) with g0. mod_ring.
    - change (msum (map fopp []) (p :: P)) with g0. change (msum [] (p :: P)) with g0. mod_ring.
    - change (msum (map fopp (x :: a)) []) with g0. change (msum (x :: a) []) with g0. mod_ring.
    - cbn [map]. vcons. rewrite IH. mod_ring.
  Qed.

  Lemma msum_gvmul : forall c v P, length c = length v -> length P = length v ->
    msum v (gvmul c P) = msum (vmul c v) P.
  Proof.
    induction c as [|c0 c IH]; intros [|v0 v] [|p P] H1 H2; cbn [length] in *; try discriminate.
    - reflexivity.
    - vcons. rewrite IH by lia. mod_ring.
  Qed.

  Lemma dot_vadd_r : forall u p q, length p = length u -> length q = length u ->
    dot u (vadd p q) = fadd (dot u p) (dot u q).
  Proof.
    induction u as [|x u IH]; intros [|y p] [|w q] H1 H2; cbn [length] in *; try discriminate.
    - change (dot [] (vadd [] [])) with f0. change (dot [] []) with f0. ring.
    - vcons. rewrite IH by lia. ring.
  Qed.

  Lemma dot_vadd_l : forall u p q, length p = length u -> length q = length u ->
    dot (vadd p q) u = fadd (dot p u) (dot q u).
  Proof.
    induction u as [|x u IH]; intros [|y p] [|w q] H1 H2; cbn [length] in *; try discriminate.
    - change (dot (vadd [] []) []) with f0. change (dot [] []) with f0. ring.
    - vcons. rewrite IH by lia. ring.
  Qed.

  Lemma dot_vscale_r : forall c u p, dot u (vscale c p) = fmul c (dot u p).
  Proof.
    induction u as [|x u IH]; intros [|y p].
    - change (dot [] (vscale c [])) with f0. change (dot [] []) with f0. ring.
    - change (dot [] (vscale c (y :: p))) with f0. change (dot [] (y :: p)) with f0. ring.
    - change (dot (x :: u) (vscale c [])) with f0. change (dot (x :: u) []) with f0. ring.
    - vcons. rewrite IH. ring.
  Qed.

  Lemma dot_vconst_l : forall c u, dot (vconst c (length u)) u = fmul c (vsum u).
  Proof.
    induction u as [|x u IH].
    - change (dot (vconst c (length [])) []) with f0. change (vsum []) with f0. ring.
    - cbn [length]. vcons. rewrite IH. ring.
  Qed.

  (** * folding one round *)
  Lemma msum_fold c d : forall aL aH GL GH,
    length aH = length aL -> length GL = length aL -> length GH = length aL ->
    msum (vadd (vscale c aL) (vscale d aH)) (gvadd (gvscale d GL) (gvscale c GH))
    = gadd (gadd (smul (fmul c d) (gadd (msum aL GL) (msum aH GH)))
                 (smul (fmul c c) (msum aL GH)))
           (smul (fmul d d) (msum aH GL)).
  Proof.
    induction aL as [|x aL IH]; intros [|y aH] [|p GL] [|q GH] H1 H2 H3; cbn [length] in *; try discriminate.
    - change (msum (vadd (vscale c []) (vscale d [])) (gvadd (gvscale d []) (gvscale c []))) with g0.
      change (msum [] []) with g0. mod_ring.
    - vcons. rewrite IH by lia. mod_ring.
  Qed.

  Lemma dot_fold c d : forall aL aH bL bH,
    length aH = length aL -> length bL = length aL -> length bH = length aL ->
    dot (vadd (vscale c aL) (vscale d aH)) (vadd (vscale d bL) (vscale c bH))
    = fadd (fadd (fmul (fmul c d) (fadd (dot aL bL) (dot aH bH)))
                 (fmul (fmul c c) (dot aL bH)))
           (fmul (fmul d d) (dot aH bL)).
  Proof.
    induction aL as [|x aL IH]; intros [|y aH] [|p bL] [|q bH] H1 H2 H3; cbn [length] in *; try discriminate.
    - change (dot (vadd (vscale c []) (vscale d [])) (vadd (vscale d []) (vscale c []))) with f0.
      change (dot [] []) with f0. ring.
    - vcons. rewrite IH by lia. ring.
  Qed.

  Lemma msum_scaled_split c d : forall s GL GH, length GL = length s -> length GH = length s ->
    msum s (gvadd (gvscale c GL) (gvscale d GH)) = msum (vscale c s ++ vscale d s) (GL ++ GH).
  Proof.
    intros s GL GH H1 H2. rewrite msum_app by (rewrite vscale_length; lia).
    revert GL GH H1 H2. induction s as [|x s IH]; intros [|p GL] [|q GH] H1 H2; cbn [length] in *; try discriminate.
    - change (msum [] (gvadd (gvscale c []) (gvscale d []))) with g0.
      change (msum (vscale c []) []) with g0. change (msum (vscale d []) []) with g0. mod_ring.
    - vcons. rewrite IH by lia. mod_ring.
  Qed.

  (** * halves *)
  Lemma lo_hi_app {A} (l : list A) : lo l ++ hi l = l.
  Proof. apply firstn_skipn. Qed.
  Lemma lo_length {A} (l : list A) h : length l = 2 * h -> length (lo l) = h.
  Proof. intros H. unfold lo. rewrite firstn_length, H, Nat.div2_double. lia. Qed.
  Lemma hi_length {A} (l : list A) h : length l = 2 * h -> length (hi l) = h.
  Proof. intros H. unfold hi. rewrite skipn_length, H, Nat.div2_double. lia. Qed.

  Lemma msum_lo_hi a P h : length a = 2 * h -> length P = 2 * h ->
    msum a P = gadd (msum (lo a) (lo P)) (msum (hi a) (hi P)).
  Proof.
    intros H1 H2. transitivity (msum (lo a ++ hi a) (lo P ++ hi P)).
    - rewrite !lo_hi_app. reflexivity.
    - apply msum_app. rewrite (lo_length a h), (lo_length P h) by assumption. reflexivity.
  Qed.
  Lemma dot_lo_hi a b h : length a = 2 * h -> length b = 2 * h ->
    dot a b = fadd (dot (lo a) (lo b)) (dot (hi a) (hi b)).
  Proof.
    intros H1 H2. transitivity (dot (lo a ++ hi a) (lo b ++ hi b)).
    - rewrite !lo_hi_app. reflexivity.
    - apply dot_app. rewrite (lo_length a h), (lo_length b h) by assumption. reflexivity.
  Qed.

  (** * the inner-product argument *)
  Definition Pf (a b : list F) (Gs Hs : list G) (Q : G) : G :=
    gadd (gadd (msum a Gs) (msum b Hs)) (smul (dot a b) Q).

  Lemma ipa_step u ui Gs Hs Q a b h :
    fmul u ui = f1 ->
    length a = 2 * h -> length b = 2 * h -> length Gs = 2 * h -> length Hs = 2 * h ->
    Pf (fold_a u ui a) (fold_b u ui b) (fold_G u ui Gs) (fold_H u ui Hs) Q
    = gadd (Pf a b Gs Hs Q)
           (gadd (smul (fmul u u) (ipa_L Gs Hs Q a b)) (smul (fmul ui ui) (ipa_R Gs Hs Q a b))).
  Proof.
    intros Hu Ha Hb HG HH.
    assert (Hu' : fmul ui u = f1) by (rewrite <- Hu; ring).
    pose proof (lo_length a h Ha). pose proof (hi_length a h Ha).
    pose proof (lo_length b h Hb). pose proof (hi_length b h Hb).
    pose proof (lo_length Gs h HG). pose proof (hi_length Gs h HG).
    pose proof (lo_length Hs h HH). pose proof (hi_length Hs h HH).
    unfold Pf, Ipa.fold_a, Ipa.fold_b, Ipa.fold_G, Ipa.fold_H, Ipa.ipa_L, Ipa.ipa_R.
    rewrite (msum_fold u ui (lo a) (hi a) (lo Gs) (hi Gs)) by lia.
    rewrite (msum_fold ui u (lo b) (hi b) (lo Hs) (hi Hs)) by lia.
    rewrite (dot_fold u ui (lo a) (hi a) (lo b) (hi b)) by lia.
    rewrite (msum_lo_hi a Gs h Ha HG), (msum_lo_hi b Hs h Hb HH), (dot_lo_hi a b h Ha Hb).
    rewrite Hu, Hu'. mod_ring.
  Qed.

  Lemma svec_length us : length (svec us) = Nat.pow 2 (length us).
  Proof.
    induction us as [|[u ui] us IH]; [reflexivity|].
    cbn [Ipa.svec length]. rewrite app_length, !vscale_length, IH. cbn [Nat.pow]. lia.
  Qed.

  Lemma vscale_rev c s : rev (vscale c s) = vscale c (rev s).
  Proof. unfold BpAlg.vscale. symmetry. apply map_rev. Qed.

  Lemma lr_sum_cons u ui us L Rr lr :
    lr_sum ((u, ui) :: us) ((L, Rr) :: lr)
    = gadd (gadd (smul (fmul u u) L) (smul (fmul ui ui) Rr)) (lr_sum us lr).
  Proof. reflexivity. Qed.

  Definition invs_ok (us : list (F * F)) : Prop := Forall (fun p => fmul (fst p) (snd p) = f1) us.

  Theorem ipa_prove_correct : forall us Gs Hs Q a b,
    invs_ok us ->
    length a = Nat.pow 2 (length us) -> length b = Nat.pow 2 (length us) ->
    length Gs = Nat.pow 2 (length us) -> length Hs = Nat.pow 2 (length us) ->
    forall lr fa fb, ipa_prove us Gs Hs Q a b = (lr, fa, fb) ->
    ipa_check us Gs Hs Q (Pf a b Gs Hs Q) lr fa fb /\ length lr = length us.
  Proof.
    induction us as [|[u ui] us IH]; intros Gs Hs Q a b Hinv Ha Hb HG HH lr fa fb E.
    - cbn [length Nat.pow] in *.
      destruct a as [|a0 [|]]; cbn [length] in Ha; try discriminate.
      destruct b as [|b0 [|]]; cbn [length] in Hb; try discriminate.
      destruct Gs as [|G0 [|]]; cbn [length] in HG; try discriminate.
      destruct Hs as [|H0 [|]]; cbn [length] in HH; try discriminate.
      cbn in E. injection E as <- <- <-. split; [|reflexivity].
      unfold Ipa.ipa_check, Pf. cbn. mod_ring.
    - cbn [length Nat.pow] in *. inversion Hinv as [|? ? Hu Hinv']; subst. cbn [fst snd] in Hu.
      set (h := Nat.pow 2 (length us)) in *.
      cbn [Ipa.ipa_prove] in E.
      destruct (ipa_prove us (fold_G u ui Gs) (fold_H u ui Hs) Q (fold_a u ui a) (fold_b u ui b))
        as [[lr' fa'] fb'] eqn:E'.
      injection E as <- <- <-.
      assert (La : length (fold_a u ui a) = h).
      { unfold Ipa.fold_a. rewrite vadd_length; rewrite !vscale_length;
          rewrite ?(lo_length a h), ?(hi_length a h); lia. }
      assert (Lb : length (fold_b u ui b) = h).
      { unfold Ipa.fold_b. rewrite vadd_length; rewrite !vscale_length;
          rewrite ?(lo_length b h), ?(hi_length b h); lia. }
      assert (LG : length (fold_G u ui Gs) = h).
      { unfold Ipa.fold_G. rewrite gvadd_length; rewrite !gvscale_length;
          rewrite ?(lo_length Gs h), ?(hi_length Gs h); lia. }
      assert (LH : length (fold_H u ui Hs) = h).
      { unfold Ipa.fold_H. rewrite gvadd_length; rewrite !gvscale_length;
          rewrite ?(lo_length Hs h), ?(hi_length Hs h); lia. }
      destruct (IH _ _ Q _ _ Hinv' La Lb LG LH _ _ _ E') as [IHc IHl].
      split; [|cbn [length]; lia].
      unfold Ipa.ipa_check in *. rewrite lr_sum_cons.
      cbn [Ipa.svec]. rewrite rev_app_distr, !vscale_rev.
      pose proof (svec_length us) as Ls. fold h in Ls.
      assert (Lr : length (rev (svec us)) = h) by (rewrite rev_length; exact Ls).
      rewrite <- (lo_hi_app Gs) at 2. rewrite <- (lo_hi_app Hs) at 2.
      rewrite <- (msum_scaled_split ui u (svec us) (lo Gs) (hi Gs))
        by (rewrite ?(lo_length Gs h), ?(hi_length Gs h); lia).
      rewrite <- (msum_scaled_split u ui (rev (svec us)) (lo Hs) (hi Hs))
        by (rewrite ?(lo_length Hs h), ?(hi_length Hs h); lia).
      change (gvadd (gvscale ui (lo Gs)) (gvscale u (hi Gs))) with (fold_G u ui Gs).
      change (gvadd (gvscale u (lo Hs)) (gvscale ui (hi Hs))) with (fold_H u ui Hs).
      rewrite <- IHc. rewrite (ipa_step u ui Gs Hs Q a b h) by (assumption || lia).
      mod_ring.
  Qed.

  (** the code's single multi-exponentiation is the textbook check *)
  Theorem ipa_code_iff : forall us c Gs Hs Q Xs eG eH eQ eX lr a b,
    length Gs = Nat.pow 2 (length us) -> length Hs = length Gs -> length c = length Gs ->
    length eG = length Gs -> length eH = length Gs ->
    (ipa_code_lhs us c Gs Hs Q Xs eG eH eQ eX lr a b = g0
     <-> ipa_check us Gs (gvmul c Hs) Q
           (gadd (gadd (gadd (msum eG Gs) (msum eH Hs)) (smul eQ Q)) (msum eX Xs)) lr a b).
  Proof.
    intros us c Gs Hs Q Xs eG eH eQ eX lr a b HG HH Hc HeG HeH.
    pose proof (svec_length us) as Ls.
    unfold Ipa.ipa_code_lhs, Ipa.ipa_check.
    rewrite msum_vsub by (rewrite ?vscale_length; lia).
    rewrite msum_vsub by (rewrite ?vscale_length, ?vmul_length; rewrite ?rev_length; lia).
    rewrite !msum_vscale, msum_map_opp.
    rewrite <- (msum_gvmul c (rev (svec us)) Hs) by (rewrite ?rev_length; lia).
    set (X1 := gadd (gadd (smul a (msum (svec us) Gs)) (smul b (msum (rev (svec us)) (gvmul c Hs))))
                    (smul (fmul a b) Q)).
    set (X2 := gadd (gadd (gadd (gadd (msum eG Gs) (msum eH Hs)) (smul eQ Q)) (msum eX Xs)) (lr_sum us lr)).
    match goal with |- ?lhs = g0 <-> _ => assert (E : lhs = gadd X1 (gopp X2)) by (unfold X1, X2; mod_ring) end.
    rewrite E, gsub_zero_iff. split; intro H; symmetry; exact H.
  Qed.
End BpProofs.
