(** C11 - proofs about the bulletproof models ([BpAlg], [Ipa], [RangeProof], [SetProof]).

    One Section: the scalar carrier is any commutative ring ([ring_theory], Leibniz equality), the
    group any module over it (laws as Section hypotheses).  Inverses never appear: wherever the code
    inverts a challenge, the theorems take the inverse as a separate element with  u * ui = 1.

    Module equalities are decided by [mod_ring]: the module is embedded into the trivial-extension
    ring F (+) G  ((a,x)(b,y) = (ab, a.y + b.x)), where [ring] applies.                              *)
From Coq Require Import List Ring Lia Arith Bool ZArith.
From CB Require Import Crypto.BpAlg Crypto.Ipa Crypto.RangeProof Crypto.SetProof Crypto.RangeStmt Crypto.RangeStmtProofs.
Import ListNotations.

Section BpProofs.
  Variable Ops : bp_ops.
  Local Notation F := (o_F Ops).
  Local Notation G := (o_G Ops).
  Local Notation f0 := (o_f0 Ops).
  Local Notation f1 := (o_f1 Ops).
  Local Notation fadd := (o_fadd Ops).
  Local Notation fmul := (o_fmul Ops).
  Local Notation fsub := (o_fsub Ops).
  Local Notation fopp := (o_fopp Ops).
  Local Notation feqb := (o_feqb Ops).
  Local Notation g0 := (o_g0 Ops).
  Local Notation gadd := (o_gadd Ops).
  Local Notation gopp := (o_gopp Ops).
  Local Notation smul := (o_smul Ops).
  Local Notation geqb := (o_geqb Ops).
  Local Notation dot := (dot Ops).
  Local Notation msum := (msum Ops).
  Local Notation vadd := (vadd Ops).
  Local Notation vmul := (vmul Ops).
  Local Notation vscale := (vscale Ops).
  Local Notation vconst := (@vconst Ops).
  Local Notation vsum := (vsum Ops).
  Local Notation gvadd := (gvadd Ops).
  Local Notation gvscale := (gvscale Ops).
  Local Notation gvmul := (gvmul Ops).
  Local Notation z_vec := (z_vec Ops).
  Local Notation fpow := (fpow Ops).
  Local Notation powers_from := (powers_from Ops).
  Local Notation gsub := (gsub Ops).
  Local Notation ipa_prove := (ipa_prove Ops).
  Local Notation ipa_code_lhs := (ipa_code_lhs Ops).
  Local Notation ipa_check := (ipa_check Ops).
  Local Notation ipa_L := (ipa_L Ops).
  Local Notation ipa_R := (ipa_R Ops).
  Local Notation fold_a := (fold_a Ops).
  Local Notation fold_b := (fold_b Ops).
  Local Notation fold_G := (fold_G Ops).
  Local Notation fold_H := (fold_H Ops).
  Local Notation svec := (svec Ops).
  Local Notation lr_sum := (lr_sum Ops).
  Local Notation vsub := (vsub Ops).

  Hypothesis Fth : ring_theory f0 f1 fadd fmul fsub fopp (@eq F).
  Add Ring Fring : Fth.

  Hypothesis gadd_assoc : forall x y z, gadd x (gadd y z) = gadd (gadd x y) z.
  Hypothesis gadd_comm : forall x y, gadd x y = gadd y x.
  Hypothesis gadd_0_l : forall x, gadd g0 x = x.
  Hypothesis gadd_opp : forall x, gadd x (gopp x) = g0.
  Hypothesis smul_add_r : forall c x y, smul c (gadd x y) = gadd (smul c x) (smul c y).
  Hypothesis smul_add_l : forall c d x, smul (fadd c d) x = gadd (smul c x) (smul d x).
  Hypothesis smul_mul : forall c d x, smul (fmul c d) x = smul c (smul d x).
  Hypothesis smul_1 : forall x, smul f1 x = x.

  (** * derived module facts *)
  Lemma gadd_0_r x : gadd x g0 = x.
  Proof. rewrite gadd_comm. apply gadd_0_l. Qed.

  Lemma gadd_idem_zero y : gadd y y = y -> y = g0.
  Proof.
    intros H. assert (E : gadd (gadd y y) (gopp y) = gadd y (gopp y)) by (rewrite H; reflexivity).
    rewrite <- gadd_assoc in E. rewrite gadd_opp in E. rewrite gadd_0_r in E. exact E.
  Qed.

  Lemma smul_0_l x : smul f0 x = g0.
  Proof. apply gadd_idem_zero. rewrite <- smul_add_l. f_equal. ring. Qed.

  Lemma smul_0_r c : smul c g0 = g0.
  Proof. apply gadd_idem_zero. rewrite <- smul_add_r. rewrite gadd_0_l. reflexivity. Qed.

  Lemma gopp_0 : gopp g0 = g0.
  Proof. rewrite <- (gadd_0_l (gopp g0)). apply gadd_opp. Qed.

  Lemma gadd_swap4 a b c d : gadd (gadd a b) (gadd c d) = gadd (gadd a c) (gadd b d).
  Proof.
    rewrite <- gadd_assoc. rewrite (gadd_assoc b c d). rewrite (gadd_comm b c).
    rewrite <- (gadd_assoc c b d). rewrite gadd_assoc. reflexivity.
  Qed.

  (** * the trivial-extension ring F (+) G *)
  Definition R : Type := (F * G)%type.
  Definition r0 : R := (f0, g0).
  Definition r1 : R := (f1, g0).
  Definition radd (p q : R) : R := (fadd (fst p) (fst q), gadd (snd p) (snd q)).
  Definition rmul (p q : R) : R :=
    (fmul (fst p) (fst q), gadd (smul (fst p) (snd q)) (smul (fst q) (snd p))).
  Definition ropp (p : R) : R := (fopp (fst p), gopp (snd p)).
  Definition rsub (p q : R) : R := radd p (ropp q).

  Lemma Rth : ring_theory r0 r1 radd rmul rsub ropp (@eq R).
  Proof.
    constructor.
    - intros [a x]. unfold radd, r0; cbn [fst snd]. f_equal; [ring | apply gadd_0_l].
    - intros [a x] [b y]. unfold radd; cbn [fst snd]. f_equal; [ring | apply gadd_comm].
    - intros [a x] [b y] [c z]. unfold radd; cbn [fst snd]. f_equal; [ring | apply gadd_assoc].
    - intros [a x]. unfold rmul, r1; cbn [fst snd]. f_equal; [ring |].
      rewrite smul_1, smul_0_r. apply gadd_0_r.
    - intros [a x] [b y]. unfold rmul; cbn [fst snd]. f_equal; [ring | apply gadd_comm].
    - intros [a x] [b y] [c z]. unfold rmul; cbn [fst snd]. f_equal; [ring |].
      rewrite !smul_add_r, <- !smul_mul.
      replace (fmul c a) with (fmul a c) by ring. replace (fmul c b) with (fmul b c) by ring.
      rewrite gadd_assoc. reflexivity.
    - intros [a x] [b y] [c z]. unfold rmul, radd; cbn [fst snd]. f_equal; [ring |].
      rewrite smul_add_l, smul_add_r. apply gadd_swap4.
    - reflexivity.
    - intros [a x]. unfold radd, ropp, r0; cbn [fst snd]. f_equal; [ring | apply gadd_opp].
  Qed.
  Add Ring Rring : Rth.

  Definition iF (c : F) : R := (c, g0).
  Definition iG (x : G) : R := (f0, x).
  Lemma iG_inj x y : iG x = iG y -> x = y.
  Proof. unfold iG. intros H. injection H. auto. Qed.
  Lemma iG_add x y : iG (gadd x y) = radd (iG x) (iG y).
  Proof. unfold iG, radd; cbn [fst snd]. f_equal. ring. Qed.
  Lemma iG_smul c x : iG (smul c x) = rmul (iF c) (iG x).
  Proof. unfold iG, iF, rmul; cbn [fst snd]. f_equal; [ring |]. rewrite smul_0_l. symmetry. apply gadd_0_r. Qed.
  Lemma iG_0 : iG g0 = r0.
  Proof. reflexivity. Qed.
  Lemma iG_opp x : iG (gopp x) = ropp (iG x).
  Proof. unfold iG, ropp; cbn [fst snd]. f_equal. ring. Qed.
  Lemma iF_add a b : iF (fadd a b) = radd (iF a) (iF b).
  Proof. unfold iF, radd; cbn [fst snd]. f_equal. symmetry. apply gadd_0_l. Qed.
  Lemma iF_mul a b : iF (fmul a b) = rmul (iF a) (iF b).
  Proof. unfold iF, rmul; cbn [fst snd]. f_equal. rewrite !smul_0_r. symmetry. apply gadd_0_l. Qed.
  Lemma iF_opp a : iF (fopp a) = ropp (iF a).
  Proof. unfold iF, ropp; cbn [fst snd]. f_equal. symmetry. apply gopp_0. Qed.
  Lemma iF_sub a b : iF (fsub a b) = rsub (iF a) (iF b).
  Proof.
    unfold rsub. rewrite <- iF_opp, <- iF_add. f_equal. ring.
  Qed.
  Lemma iF_0 : iF f0 = r0.
  Proof. reflexivity. Qed.
  Lemma iF_1 : iF f1 = r1.
  Proof. reflexivity. Qed.

  Ltac mod_push :=
    repeat first [ rewrite iG_add | rewrite iG_smul | rewrite iG_opp | rewrite iG_0
                 | rewrite iF_add | rewrite iF_mul | rewrite iF_sub | rewrite iF_opp
                 | rewrite iF_0 | rewrite iF_1 ].
  Ltac mod_ring := unfold BpAlg.gsub; apply iG_inj; mod_push; ring.

  Lemma gsub_zero_iff x y : gadd x (gopp y) = g0 <-> x = y.
  Proof.
    split.
    - intros H. assert (E : gadd (gadd x (gopp y)) y = gadd g0 y) by (rewrite H; reflexivity).
      rewrite gadd_0_l in E. rewrite <- E. mod_ring.
    - intros ->. apply gadd_opp.
  Qed.

  (** * vectors: unfolding equations *)
  Lemma dot_cons x a y b : dot (x :: a) (y :: b) = fadd (fmul x y) (dot a b).
  Proof. reflexivity. Qed.
  Lemma msum_cons x a p P : msum (x :: a) (p :: P) = gadd (smul x p) (msum a P).
  Proof. reflexivity. Qed.
  Lemma vadd_cons x a y b : vadd (x :: a) (y :: b) = fadd x y :: vadd a b.
  Proof. reflexivity. Qed.
  Lemma vmul_cons x a y b : vmul (x :: a) (y :: b) = fmul x y :: vmul a b.
  Proof. reflexivity. Qed.
  Lemma vsub_cons x a y b : vsub (x :: a) (y :: b) = fsub x y :: vsub a b.
  Proof. reflexivity. Qed.
  Lemma vscale_cons c x a : vscale c (x :: a) = fmul c x :: vscale c a.
  Proof. reflexivity. Qed.
  Lemma gvadd_cons x a y b : gvadd (x :: a) (y :: b) = gadd x y :: gvadd a b.
  Proof. reflexivity. Qed.
  Lemma gvscale_cons c x a : gvscale c (x :: a) = smul c x :: gvscale c a.
  Proof. reflexivity. Qed.
  Lemma gvmul_cons c cs x a : gvmul (c :: cs) (x :: a) = smul c x :: gvmul cs a.
  Proof. reflexivity. Qed.
  Lemma vconst_S c n : vconst c (S n) = c :: vconst c n.
  Proof. reflexivity. Qed.
  Lemma vsum_cons x a : vsum (x :: a) = fadd x (vsum a).
  Proof. reflexivity. Qed.

  Ltac vcons := repeat (progress (rewrite ?vadd_cons, ?vmul_cons, ?vsub_cons, ?vscale_cons,
                        ?gvadd_cons, ?gvscale_cons, ?gvmul_cons, ?vconst_S, ?vsum_cons, ?dot_cons, ?msum_cons)).

  Lemma vzip_length {A B C} (f : A -> B -> C) a b : length a = length b -> length (vzip f a b) = length a.
  Proof. intros H. unfold vzip. rewrite map_length, combine_length. lia. Qed.
  Lemma vadd_length a b : length a = length b -> length (vadd a b) = length a.
  Proof. apply vzip_length. Qed.
  Lemma vmul_length a b : length a = length b -> length (vmul a b) = length a.
  Proof. apply vzip_length. Qed.
  Lemma gvadd_length a b : length a = length b -> length (gvadd a b) = length a.
  Proof. apply vzip_length. Qed.
  Lemma gvmul_length a b : length a = length b -> length (gvmul a b) = length a.
  Proof. apply vzip_length. Qed.
  Lemma vscale_length c a : length (vscale c a) = length a.
  Proof. apply map_length. Qed.
  Lemma gvscale_length c a : length (gvscale c a) = length a.
  Proof. apply map_length. Qed.
  Lemma vconst_length c n : length (vconst c n) = n.
  Proof. apply repeat_length. Qed.

  (** * bilinearity *)
  Lemma msum_app : forall a b P Q, length a = length P ->
    msum (a ++ b) (P ++ Q) = gadd (msum a P) (msum b Q).
  Proof.
    induction a as [|x a IH]; intros b [|p P] Q H; cbn [length] in H; try discriminate.
    - cbn [app]. symmetry. apply gadd_0_l.
    - cbn [app]. rewrite !msum_cons, IH by lia. mod_ring.
  Qed.

  Lemma dot_app : forall a b c d, length a = length c ->
    dot (a ++ b) (c ++ d) = fadd (dot a c) (dot b d).
  Proof.
    induction a as [|x a IH]; intros b [|y c] d H; cbn [length] in H; try discriminate.
    - cbn [app]. change (dot [] []) with f0. ring.
    - cbn [app]. rewrite !dot_cons, IH by lia. ring.
  Qed.

  Lemma msum_vadd : forall a b P, length a = length b -> length P = length a ->
    msum (vadd a b) P = gadd (msum a P) (msum b P).
  Proof.
    induction a as [|x a IH]; intros [|y b] [|p P] H1 H2; cbn [length] in *; try discriminate.
    - change (msum (vadd [] []) []) with g0. change (msum [] []) with g0. mod_ring.
    - vcons. rewrite IH by lia. mod_ring.
  Qed.

  Lemma msum_vscale : forall c a P, msum (vscale c a) P = smul c (msum a P).
  Proof.
    induction a as [|x a IH]; intros [|p P].
    - change (msum (vscale c []) []) with g0. change (msum [] []) with g0. mod_ring.
    - change (msum (vscale c []) (p :: P)) with g0. change (msum [] (p :: P)) with g0. mod_ring.
    - change (msum (vscale c (x :: a)) []) with g0. change (msum (x :: a) []) with g0. mod_ring.
    - vcons. rewrite IH. mod_ring.
  Qed.

  Lemma msum_vsub : forall a b P, length a = length b -> length P = length a ->
    msum (vsub a b) P = gadd (msum a P) (gopp (msum b P)).
  Proof.
    induction a as [|x a IH]; intros [|y b] [|p P] H1 H2; cbn [length] in *; try discriminate.
    - change (msum (vsub [] []) []) with g0. change (msum [] []) with g0. mod_ring.
    - vcons. rewrite IH by lia. mod_ring.
  Qed.

  Lemma msum_map_opp : forall a P, msum (map fopp a) P = gopp (msum a P).
  Proof.
    induction a as [|x a IH]; intros [|p P].
    - change (msum (map fopp []) []) with g0. change (msum [] []) with g0. mod_ring.
    - change (msum (map fopp []) (p :: P)) with g0. change (msum [] (p :: P)) with g0. mod_ring.
    - change (msum (map fopp (x :: a)) []) with g0. change (msum (x :: a) []) with g0. mod_ring.
    - cbn [map]. vcons. rewrite IH. mod_ring.
  Qed.

  Lemma msum_gvmul : forall c v P, length c = length v -> length P = length v ->
    msum v (gvmul c P) = msum (vmul c v) P.
  Proof.
    induction c as [|c0 c IH]; intros [|v0 v] [|p P] H1 H2; cbn [length] in *; try discriminate.
    - reflexivity.
    - vcons. rewrite IH by lia. mod_ring.
  Qed.

  Lemma dot_vadd_r : forall u p q, length p = length u -> length q = length u ->
    dot u (vadd p q) = fadd (dot u p) (dot u q).
  Proof.
    induction u as [|x u IH]; intros [|y p] [|w q] H1 H2; cbn [length] in *; try discriminate.
    - change (dot [] (vadd [] [])) with f0. change (dot [] []) with f0. ring.
    - vcons. rewrite IH by lia. ring.
  Qed.

  Lemma dot_vadd_l : forall u p q, length p = length u -> length q = length u ->
    dot (vadd p q) u = fadd (dot p u) (dot q u).
  Proof.
    induction u as [|x u IH]; intros [|y p] [|w q] H1 H2; cbn [length] in *; try discriminate.
    - change (dot (vadd [] []) []) with f0. change (dot [] []) with f0. ring.
    - vcons. rewrite IH by lia. ring.
  Qed.

  Lemma dot_vscale_r : forall c u p, dot u (vscale c p) = fmul c (dot u p).
  Proof.
    induction u as [|x u IH]; intros [|y p].
    - change (dot [] (vscale c [])) with f0. change (dot [] []) with f0. ring.
    - change (dot [] (vscale c (y :: p))) with f0. change (dot [] (y :: p)) with f0. ring.
    - change (dot (x :: u) (vscale c [])) with f0. change (dot (x :: u) []) with f0. ring.
    - vcons. rewrite IH. ring.
  Qed.

  Lemma dot_vconst_l : forall c u, dot (vconst c (length u)) u = fmul c (vsum u).
  Proof.
    induction u as [|x u IH].
    - change (dot (vconst c (length [])) []) with f0. change (vsum []) with f0. ring.
    - cbn [length]. vcons. rewrite IH. ring.
  Qed.

  (** * folding one round *)
  Lemma msum_fold c d : forall aL aH GL GH,
    length aH = length aL -> length GL = length aL -> length GH = length aL ->
    msum (vadd (vscale c aL) (vscale d aH)) (gvadd (gvscale d GL) (gvscale c GH))
    = gadd (gadd (smul (fmul c d) (gadd (msum aL GL) (msum aH GH)))
                 (smul (fmul c c) (msum aL GH)))
           (smul (fmul d d) (msum aH GL)).
  Proof.
    induction aL as [|x aL IH]; intros [|y aH] [|p GL] [|q GH] H1 H2 H3; cbn [length] in *; try discriminate.
    - change (msum (vadd (vscale c []) (vscale d [])) (gvadd (gvscale d []) (gvscale c []))) with g0.
      change (msum [] []) with g0. mod_ring.
    - vcons. rewrite IH by lia. mod_ring.
  Qed.

  Lemma dot_fold c d : forall aL aH bL bH,
    length aH = length aL -> length bL = length aL -> length bH = length aL ->
    dot (vadd (vscale c aL) (vscale d aH)) (vadd (vscale d bL) (vscale c bH))
    = fadd (fadd (fmul (fmul c d) (fadd (dot aL bL) (dot aH bH)))
                 (fmul (fmul c c) (dot aL bH)))
           (fmul (fmul d d) (dot aH bL)).
  Proof.
    induction aL as [|x aL IH]; intros [|y aH] [|p bL] [|q bH] H1 H2 H3; cbn [length] in *; try discriminate.
    - change (dot (vadd (vscale c []) (vscale d [])) (vadd (vscale d []) (vscale c []))) with f0.
      change (dot [] []) with f0. ring.
    - vcons. rewrite IH by lia. ring.
  Qed.

  Lemma msum_scaled_split c d : forall s GL GH, length GL = length s -> length GH = length s ->
    msum s (gvadd (gvscale c GL) (gvscale d GH)) = msum (vscale c s ++ vscale d s) (GL ++ GH).
  Proof.
    intros s GL GH H1 H2. rewrite msum_app by (rewrite vscale_length; lia).
    revert GL GH H1 H2. induction s as [|x s IH]; intros [|p GL] [|q GH] H1 H2; cbn [length] in *; try discriminate.
    - change (msum [] (gvadd (gvscale c []) (gvscale d []))) with g0.
      change (msum (vscale c []) []) with g0. change (msum (vscale d []) []) with g0. mod_ring.
    - vcons. rewrite IH by lia. mod_ring.
  Qed.

  (** * halves *)
  Lemma lo_hi_app {A} (l : list A) : lo l ++ hi l = l.
  Proof. apply firstn_skipn. Qed.
  Lemma lo_length {A} (l : list A) h : length l = 2 * h -> length (lo l) = h.
  Proof. intros H. unfold lo. rewrite firstn_length, H, Nat.div2_double. lia. Qed.
  Lemma hi_length {A} (l : list A) h : length l = 2 * h -> length (hi l) = h.
  Proof. intros H. unfold hi. rewrite skipn_length, H, Nat.div2_double. lia. Qed.

  Lemma msum_lo_hi a P h : length a = 2 * h -> length P = 2 * h ->
    msum a P = gadd (msum (lo a) (lo P)) (msum (hi a) (hi P)).
  Proof.
    intros H1 H2. transitivity (msum (lo a ++ hi a) (lo P ++ hi P)).
    - rewrite !lo_hi_app. reflexivity.
    - apply msum_app. rewrite (lo_length a h), (lo_length P h) by assumption. reflexivity.
  Qed.
  Lemma dot_lo_hi a b h : length a = 2 * h -> length b = 2 * h ->
    dot a b = fadd (dot (lo a) (lo b)) (dot (hi a) (hi b)).
  Proof.
    intros H1 H2. transitivity (dot (lo a ++ hi a) (lo b ++ hi b)).
    - rewrite !lo_hi_app. reflexivity.
    - apply dot_app. rewrite (lo_length a h), (lo_length b h) by assumption. reflexivity.
  Qed.

  Lemma msum_svec_step c d s P h : length s = h -> length P = 2 * h ->
    msum (vscale c s ++ vscale d s) P = msum s (gvadd (gvscale c (lo P)) (gvscale d (hi P))).
  Proof.
    intros H1 H2.
    rewrite (msum_scaled_split c d s (lo P) (hi P))
      by (rewrite ?(lo_length P h), ?(hi_length P h); lia).
    rewrite lo_hi_app. reflexivity.
  Qed.

  (** * the inner-product argument *)
  Definition Pf (a b : list F) (Gs Hs : list G) (Q : G) : G :=
    gadd (gadd (msum a Gs) (msum b Hs)) (smul (dot a b) Q).

  Lemma ipa_step u ui Gs Hs Q a b h :
    fmul u ui = f1 ->
    length a = 2 * h -> length b = 2 * h -> length Gs = 2 * h -> length Hs = 2 * h ->
    Pf (fold_a u ui a) (fold_b u ui b) (fold_G u ui Gs) (fold_H u ui Hs) Q
    = gadd (Pf a b Gs Hs Q)
           (gadd (smul (fmul u u) (ipa_L Gs Hs Q a b)) (smul (fmul ui ui) (ipa_R Gs Hs Q a b))).
  Proof.
    intros Hu Ha Hb HG HH.
    assert (Hu' : fmul ui u = f1) by (rewrite <- Hu; ring).
    pose proof (lo_length a h Ha). pose proof (hi_length a h Ha).
    pose proof (lo_length b h Hb). pose proof (hi_length b h Hb).
    pose proof (lo_length Gs h HG). pose proof (hi_length Gs h HG).
    pose proof (lo_length Hs h HH). pose proof (hi_length Hs h HH).
    unfold Pf, Ipa.fold_a, Ipa.fold_b, Ipa.fold_G, Ipa.fold_H, Ipa.ipa_L, Ipa.ipa_R.
    rewrite (msum_fold u ui (lo a) (hi a) (lo Gs) (hi Gs)) by lia.
    rewrite (msum_fold ui u (lo b) (hi b) (lo Hs) (hi Hs)) by lia.
    rewrite (dot_fold u ui (lo a) (hi a) (lo b) (hi b)) by lia.
    rewrite (msum_lo_hi a Gs h Ha HG), (msum_lo_hi b Hs h Hb HH), (dot_lo_hi a b h Ha Hb).
    rewrite Hu, Hu'. mod_ring.
  Qed.

  Lemma svec_length us : length (svec us) = Nat.pow 2 (length us).
  Proof.
    induction us as [|[u ui] us IH]; [reflexivity|].
    cbn [Ipa.svec length]. rewrite app_length, !vscale_length, IH. cbn [Nat.pow]. lia.
  Qed.

  Lemma vscale_rev c s : rev (vscale c s) = vscale c (rev s).
  Proof. unfold BpAlg.vscale. symmetry. apply map_rev. Qed.

  Lemma lr_sum_cons u ui us L Rr lr :
    lr_sum ((u, ui) :: us) ((L, Rr) :: lr)
    = gadd (gadd (smul (fmul u u) L) (smul (fmul ui ui) Rr)) (lr_sum us lr).
  Proof. reflexivity. Qed.

  Definition invs_ok (us : list (F * F)) : Prop := Forall (fun p => fmul (fst p) (snd p) = f1) us.

  Theorem ipa_prove_correct : forall us Gs Hs Q a b,
    invs_ok us ->
    length a = Nat.pow 2 (length us) -> length b = Nat.pow 2 (length us) ->
    length Gs = Nat.pow 2 (length us) -> length Hs = Nat.pow 2 (length us) ->
    forall lr fa fb, ipa_prove us Gs Hs Q a b = (lr, fa, fb) ->
    ipa_check us Gs Hs Q (Pf a b Gs Hs Q) lr fa fb /\ length lr = length us.
  Proof.
    induction us as [|[u ui] us IH]; intros Gs Hs Q a b Hinv Ha Hb HG HH lr fa fb E.
    - cbn [length Nat.pow] in *.
      destruct a as [|a0 [|]]; cbn [length] in Ha; try discriminate.
      destruct b as [|b0 [|]]; cbn [length] in Hb; try discriminate.
      destruct Gs as [|G0 [|]]; cbn [length] in HG; try discriminate.
      destruct Hs as [|H0 [|]]; cbn [length] in HH; try discriminate.
      cbn in E. injection E as <- <- <-. split; [|reflexivity].
      unfold Ipa.ipa_check, Pf. cbn. mod_ring.
    - cbn [length Nat.pow] in *. inversion Hinv as [|? ? Hu Hinv']; subst. cbn [fst snd] in Hu.
      set (h := Nat.pow 2 (length us)) in *.
      cbn [Ipa.ipa_prove] in E.
      destruct (ipa_prove us (fold_G u ui Gs) (fold_H u ui Hs) Q (fold_a u ui a) (fold_b u ui b))
        as [[lr' fa'] fb'] eqn:E'.
      injection E as <- <- <-.
      assert (La : length (fold_a u ui a) = h).
      { unfold Ipa.fold_a. rewrite vadd_length; rewrite !vscale_length;
          rewrite ?(lo_length a h), ?(hi_length a h); lia. }
      assert (Lb : length (fold_b u ui b) = h).
      { unfold Ipa.fold_b. rewrite vadd_length; rewrite !vscale_length;
          rewrite ?(lo_length b h), ?(hi_length b h); lia. }
      assert (LG : length (fold_G u ui Gs) = h).
      { unfold Ipa.fold_G. rewrite gvadd_length; rewrite !gvscale_length;
          rewrite ?(lo_length Gs h), ?(hi_length Gs h); lia. }
      assert (LH : length (fold_H u ui Hs) = h).
      { unfold Ipa.fold_H. rewrite gvadd_length; rewrite !gvscale_length;
          rewrite ?(lo_length Hs h), ?(hi_length Hs h); lia. }
      destruct (IH _ _ Q _ _ Hinv' La Lb LG LH _ _ _ E') as [IHc IHl].
      split; [|cbn [length]; lia].
      unfold Ipa.ipa_check in *. rewrite lr_sum_cons.
      cbn [Ipa.svec]. rewrite rev_app_distr, !vscale_rev.
      pose proof (svec_length us) as Ls. fold h in Ls.
      assert (Lr : length (rev (svec us)) = h) by (rewrite rev_length; exact Ls).
      rewrite (msum_svec_step ui u (svec us) Gs h) by (assumption || lia).
      rewrite (msum_svec_step u ui (rev (svec us)) Hs h) by (assumption || lia).
      change (gvadd (gvscale ui (lo Gs)) (gvscale u (hi Gs))) with (fold_G u ui Gs).
      change (gvadd (gvscale u (lo Hs)) (gvscale ui (hi Hs))) with (fold_H u ui Hs).
      rewrite <- IHc. rewrite (ipa_step u ui Gs Hs Q a b h) by (assumption || lia).
      mod_ring.
  Qed.

  (** the code's single multi-exponentiation is the textbook check *)
  Theorem ipa_code_iff : forall us c Gs Hs Q Xs eG eH eQ eX lr a b,
    length Gs = Nat.pow 2 (length us) -> length Hs = length Gs -> length c = length Gs ->
    length eG = length Gs -> length eH = length Gs ->
    (ipa_code_lhs us c Gs Hs Q Xs eG eH eQ eX lr a b = g0
     <-> ipa_check us Gs (gvmul c Hs) Q
           (gadd (gadd (gadd (msum eG Gs) (msum eH Hs)) (smul eQ Q)) (msum eX Xs)) lr a b).
  Proof.
    intros us c Gs Hs Q Xs eG eH eQ eX lr a b HG HH Hc HeG HeH.
    pose proof (svec_length us) as Ls.
    unfold Ipa.ipa_code_lhs, Ipa.ipa_check.
    rewrite msum_vsub by (rewrite ?vscale_length; lia).
    rewrite msum_vsub by (rewrite ?vscale_length, ?vmul_length; rewrite ?rev_length; lia).
    rewrite !msum_vscale, msum_map_opp.
    rewrite <- (msum_gvmul c (rev (svec us)) Hs) by (rewrite ?rev_length; lia).
    set (X1 := gadd (gadd (smul a (msum (svec us) Gs)) (smul b (msum (rev (svec us)) (gvmul c Hs))))
                    (smul (fmul a b) Q)).
    set (X2 := gadd (gadd (gadd (gadd (msum eG Gs) (msum eH Hs)) (smul eQ Q)) (msum eX Xs)) (lr_sum us lr)).
    match goal with |- ?lhs = g0 <-> _ => assert (E : lhs = gadd X1 (gopp X2)) by (unfold X1, X2; mod_ring) end.
    rewrite E, gsub_zero_iff. split; intro H; symmetry; exact H.
  Qed.

  (** * the bulletproof skeleton *)
  Local Notation bp_prove := (bp_prove Ops).
  Local Notation bp_accepts := (bp_accepts Ops).
  Local Notation bp_verdict := (bp_verdict Ops).
  Local Notation bp_t0 := (bp_t0 Ops).
  Local Notation bp_t1 := (bp_t1 Ops).
  Local Notation bp_t2 := (bp_t2 Ops).
  Local Notation bp_l0 := (bp_l0 Ops).
  Local Notation bp_r0 := (bp_r0 Ops).
  Local Notation bp_r1 := (bp_r1 Ops).

  Lemma dot_poly x : forall l0 l1 r0 r1,
    length l1 = length l0 -> length r0 = length l0 -> length r1 = length l0 ->
    dot (vadd l0 (vscale x l1)) (vadd r0 (vscale x r1))
    = fadd (fadd (dot l0 r0)
                 (fmul (fsub (fsub (dot (vadd l0 l1) (vadd r0 r1)) (dot l0 r0)) (dot l1 r1)) x))
           (fmul (dot l1 r1) (fmul x x)).
  Proof.
    induction l0 as [|a l0 IH]; intros [|b l1] [|c r0] [|d r1] H1 H2 H3; cbn [length] in *; try discriminate.
    - change (dot (vadd [] (vscale x [])) (vadd [] (vscale x []))) with f0.
      change (dot (vadd [] []) (vadd [] [])) with f0. change (dot [] []) with f0. ring.
    - vcons. rewrite IH by lia. ring.
  Qed.

  Definition inv_pairs (ys yis : list F) : Prop := Forall2 (fun a b => fmul a b = f1) ys yis.

  Lemma powers_inv : forall n y yi c d, fmul y yi = f1 -> fmul c d = f1 ->
    inv_pairs (powers_from y c n) (powers_from yi d n).
  Proof.
    induction n; intros y yi c d Hy Hc; cbn [BpAlg.powers_from]; constructor; [exact Hc|].
    apply IHn; [exact Hy|]. transitivity (fmul (fmul c d) (fmul y yi)); [ring|]. rewrite Hy, Hc. ring.
  Qed.

  Lemma powers_length : forall n z c, length (powers_from z c n) = n.
  Proof. induction n; intros; cbn [BpAlg.powers_from length]; [reflexivity | rewrite IHn; reflexivity]. Qed.

  Lemma z_vec_length z f n : length (z_vec z f n) = n.
  Proof. apply powers_length. Qed.

  Lemma z_vec_inv n y yi : fmul y yi = f1 -> inv_pairs (z_vec y 0 n) (z_vec yi 0 n).
  Proof. intros H. unfold BpAlg.z_vec. apply powers_inv; [exact H|]. cbn [BpAlg.fpow]. ring. Qed.

  Lemma msum_cancel : forall ys yis, inv_pairs ys yis -> forall v Hs,
    length v = length ys -> length Hs = length ys ->
    msum (vmul ys v) (gvmul yis Hs) = msum v Hs.
  Proof.
    induction 1 as [|y yi ys yis Hy HF IH]; intros [|v0 v] [|h0 Hs] H1 H2; cbn [length] in *; try discriminate.
    - reflexivity.
    - vcons. rewrite IH by lia. f_equal. rewrite <- smul_mul. f_equal.
      transitivity (fmul v0 (fmul y yi)); [ring|]. rewrite Hy. ring.
  Qed.

  Lemma inv_pairs_length ys yis : inv_pairs ys yis -> length yis = length ys.
  Proof. induction 1; cbn [length]; lia. Qed.

  Theorem bp_complete : forall Gs Hs B Bt aL aR sL sR at_ st t1t t2t cl cr e cvr y yi z x w us Vterm delta eH,
    length Gs = Nat.pow 2 (length us) -> length Hs = length Gs ->
    length aL = length Gs -> length aR = length Gs -> length sL = length Gs -> length sR = length Gs ->
    length cl = length Gs -> length cr = length Gs -> length e = length Gs ->
    fmul y yi = f1 -> invs_ok us ->
    eH = vadd cr (vmul (z_vec yi 0 (length Gs)) e) ->
    gadd (smul (bp_t0 (z_vec y 0 (length Gs)) aL aR cl cr e) B) (smul cvr Bt) = gadd Vterm (smul delta B) ->
    bp_accepts Gs Hs B Bt
      (bp_prove Gs Hs B Bt aL aR sL sR at_ st t1t t2t cl cr e cvr y yi z x w us)
      Vterm delta cl eH yi x w us.
  Proof.
    intros Gs Hs B Bt aL aR sL sR at_ st t1t t2t cl cr e cvr y yi z x w us Vterm delta eH
           HG HH HaL HaR HsL HsR Hcl Hcr He Hy Hus HeH Ht0.
    set (N := length Gs) in *.
    pose proof (z_vec_inv N y yi Hy) as Hinv.
    pose proof (z_vec_length y 0 N) as LyN. pose proof (z_vec_length yi 0 N) as LyiN.
    unfold RangeProof.bp_prove. fold N.
    set (yN := z_vec y 0 N) in *. set (yiN := z_vec yi 0 N) in *.
    set (l0 := bp_l0 aL cl). set (r0 := bp_r0 yN aR cr e). set (r1 := bp_r1 yN sR).
    assert (Ll0 : length l0 = N) by (unfold l0, RangeProof.bp_l0; rewrite vadd_length; lia).
    assert (Lr1 : length r1 = N) by (unfold r1, RangeProof.bp_r1; rewrite vmul_length; lia).
    assert (Lac : length (vadd aR cr) = N) by (rewrite vadd_length; lia).
    assert (Lyac : length (vmul yN (vadd aR cr)) = N) by (rewrite vmul_length; lia).
    assert (Lr0 : length r0 = N) by (unfold r0, RangeProof.bp_r0; rewrite vadd_length; lia).
    set (l := vadd l0 (vscale x sL)). set (r := vadd r0 (vscale x r1)).
    assert (Ll : length l = N) by (unfold l; rewrite vadd_length; rewrite ?vscale_length; lia).
    assert (Lr : length r = N) by (unfold r; rewrite vadd_length; rewrite ?vscale_length; lia).
    set (Hp := gvmul yiN Hs).
    assert (LHp : length Hp = N) by (unfold Hp; rewrite gvmul_length; lia).
    destruct (ipa_prove us Gs Hp (smul w B) l r) as [[lr a] b] eqn:E.
    destruct (ipa_prove_correct us Gs Hp (smul w B) l r Hus ltac:(lia) ltac:(lia) ltac:(lia) ltac:(lia) _ _ _ E)
      as [Hchk Hlen].
    unfold RangeProof.bp_accepts. split.
    - unfold RangeProof.bp_eq1_lhs, RangeProof.bp_eq1_rhs. cbn [ptx ptxt pT1 pT2].
      fold l0 r0 r1. change (RangeProof.bp_t0 Ops yN aL aR cl cr e) with (bp_t0 yN aL aR cl cr e) in *.
      set (t0 := bp_t0 yN aL aR cl cr e) in *. set (t1 := bp_t1 yN aL aR sL sR cl cr e). set (t2 := bp_t2 yN sL sR).
      transitivity (gadd (gadd (smul t0 B) (smul cvr Bt))
                         (gadd (smul x (gadd (smul t1 B) (smul t1t Bt)))
                               (smul (fmul x x) (gadd (smul t2 B) (smul t2t Bt))))); [mod_ring|].
      rewrite Ht0. mod_ring.
    - unfold RangeProof.bp_eq2_lhs. cbn [ptx pet pA pS plr pa pb]. fold N. fold yiN.
      apply ipa_code_iff; try lia; [rewrite HeH; rewrite vadd_length; rewrite ?vmul_length; lia|].
      fold Hp.
      match goal with |- Ipa.ipa_check _ _ _ _ _ ?P _ _ _ => replace P with (Pf l r Gs Hp (smul w B)); [exact Hchk|] end.
      unfold Pf.
      (* t(x) = <l, r> *)
      assert (Htx : dot l r = fadd (fadd (bp_t0 yN aL aR cl cr e) (fmul (bp_t1 yN aL aR sL sR cl cr e) x))
                                   (fmul (bp_t2 yN sL sR) (fmul x x))).
      { unfold l, r. rewrite dot_poly by (rewrite ?vscale_length; lia). reflexivity. }
      rewrite Htx.
      (* <l, G> *)
      unfold l at 1. rewrite msum_vadd by (rewrite ?vscale_length; lia).
      unfold l0 at 1, RangeProof.bp_l0. rewrite msum_vadd by lia. rewrite msum_vscale.
      (* <r, H'> *)
      unfold r at 1. rewrite msum_vadd by (rewrite ?vscale_length; lia).
      unfold r0 at 1, RangeProof.bp_r0. rewrite msum_vadd by lia. rewrite msum_vscale.
      unfold Hp at 1 2 3.
      rewrite (msum_cancel yN yiN Hinv (vadd aR cr) Hs) by lia.
      rewrite msum_vadd by lia.
      rewrite (msum_gvmul yiN e Hs) by lia.
      unfold r1 at 1, RangeProof.bp_r1.
      rewrite (msum_cancel yN yiN Hinv sR Hs) by lia.
      rewrite HeH. rewrite msum_vadd by (rewrite ?vmul_length; lia).
      vcons. change (msum [] []) with g0.
      mod_ring.
  Qed.

  (** the executable verifier returns Ok exactly when the two equations hold *)
  Hypothesis feqb_spec : forall a b, feqb a b = true <-> a = b.
  Hypothesis geqb_spec : forall a b, geqb a b = true <-> a = b.

  Theorem bp_verdict_ok_iff : forall Gs Hs B Bt p Vterm delta eG eH y yi x w us,
    bp_verdict Gs Hs B Bt p Vterm delta eG eH y yi x w us = VOk
    <-> (bp_accepts Gs Hs B Bt p Vterm delta eG eH yi x w us /\ fmul y yi = f1 /\ invs_ok us).
  Proof.
    intros. unfold RangeProof.bp_verdict, RangeProof.bp_accepts, BpAlg.gsub.
    destruct (geqb (gadd (RangeProof.bp_eq1_lhs Ops B Bt p) (gopp (RangeProof.bp_eq1_rhs Ops B p Vterm delta x))) g0) eqn:E1; cbn [negb].
    2:{ split; [discriminate|]. intros [[H _] _]. apply (proj2 (gsub_zero_iff _ _)) in H. apply geqb_spec in H. congruence. }
    apply geqb_spec in E1. apply (proj1 (gsub_zero_iff _ _)) in E1.
    destruct (feqb (fmul y yi) f1) eqn:E2; cbn [negb].
    2:{ split; [discriminate|]. intros [_ [H _]]. apply feqb_spec in H. congruence. }
    apply feqb_spec in E2.
    destruct (forallb (fun u => feqb (fmul (fst u) (snd u)) f1) us) eqn:E3; cbn [negb].
    2:{ split; [discriminate|]. intros [_ [_ H]]. exfalso.
        assert (forallb (fun u => feqb (fmul (fst u) (snd u)) f1) us = true); [|congruence].
        apply forallb_forall. intros u Hu. apply feqb_spec. unfold invs_ok in H. rewrite Forall_forall in H. auto. }
    assert (Hus : invs_ok us).
    { unfold invs_ok. apply Forall_forall. intros u Hu. rewrite forallb_forall in E3. apply feqb_spec. auto. }
    destruct (geqb (RangeProof.bp_eq2_lhs Ops Gs Hs B Bt p eG eH yi x w us) g0) eqn:E4.
    - apply geqb_spec in E4. split; auto.
    - split; [discriminate|]. intros [[_ H] _]. apply geqb_spec in H. congruence.
  Qed.

  (** * statement-specific part: t_0 = (weighted value) + delta *)
  Definition is_bit (b : F) : Prop := b = f0 \/ b = f1.

  Lemma t0_split yN aL aR cl cr e :
    length (vmul yN (vadd aR cr)) = length (vadd aL cl) -> length e = length (vadd aL cl) ->
    bp_t0 yN aL aR cl cr e
    = fadd (dot (vadd aL cl) (vmul yN (vadd aR cr))) (dot (vadd aL cl) e).
  Proof. intros H1 H2. unfold RangeProof.bp_t0, RangeProof.bp_l0, RangeProof.bp_r0. apply dot_vadd_r; assumption. Qed.

  Lemma bits_part1 z : forall aL yN, Forall is_bit aL -> length yN = length aL ->
    dot (vadd aL (vconst (fopp z) (length aL)))
        (vmul yN (vadd (map (fun b => fsub b f1) aL) (vconst z (length aL))))
    = fmul (fsub z (fmul z z)) (vsum yN).
  Proof.
    induction aL as [|b aL IH]; intros [|y0 yN] HF HL; cbn [length] in *; try discriminate.
    - change (vsum []) with f0.
      change (dot (vadd [] (vconst (fopp z) 0)) (vmul [] (vadd (map (fun b => fsub b f1) []) (vconst z 0)))) with f0. ring.
    - inversion HF as [|? ? Hb HF']; subst. cbn [map]. vcons. rewrite IH by (auto; lia).
      destruct Hb as [-> | ->]; ring.
  Qed.

  Lemma vadd_app : forall a b c d, length a = length c -> vadd (a ++ b) (c ++ d) = vadd a c ++ vadd b d.
  Proof.
    induction a as [|x a IH]; intros b [|y c] d H; cbn [length] in H; try discriminate.
    - reflexivity.
    - cbn [app]. vcons. rewrite IH by lia. reflexivity.
  Qed.
  Lemma vconst_add c a b : vconst c (a + b) = vconst c a ++ vconst c b.
  Proof. unfold BpAlg.vconst. apply repeat_app. Qed.
  Lemma dot_vconst_l' c k u : length u = k -> dot (vconst c k) u = fmul c (vsum u).
  Proof. intros <-. apply dot_vconst_l. Qed.

  (** ** range proofs *)
  Local Notation two_n_vec := (two_n_vec Ops).
  Local Notation fbits := (fbits Ops).
  Local Notation fbit := (fbit Ops).
  Local Notation range_aL := (range_aL Ops).
  Local Notation range_aR := (range_aR Ops).
  Local Notation range_e := (range_e Ops).
  Local Notation zgeo := (zgeo Ops).
  Local Notation zweighted := (zweighted Ops).
  Local Notation gweighted := (gweighted Ops).
  Local Notation range_prove := (range_prove Ops).
  Local Notation range_accepts := (range_accepts Ops).
  Local Notation range_delta := (range_delta Ops).
  Local Notation range_eH := (range_eH Ops).

  (** the scalar represented by the n low bits of v:  sum_i bit_i(v) 2^i  in F *)
  Definition fval (n : nat) (v : Z) : F := dot (fbits v n) (two_n_vec n).

  Lemma fbits_length v n : length (fbits v n) = n.
  Proof. unfold RangeProof.fbits. rewrite map_length, seq_length. reflexivity. Qed.
  Lemma two_n_length n : length (two_n_vec n) = n.
  Proof. apply powers_length. Qed.
  Lemma range_aL_length n vs : length (range_aL n vs) = n * length vs.
  Proof.
    induction vs as [|v vs IH]; cbn [RangeProof.range_aL flat_map length]; [lia|].
    rewrite app_length, fbits_length. fold (range_aL n vs). rewrite IH. lia.
  Qed.
  Lemma range_e_length n z : forall m zc, length (range_e n zc z m) = n * m.
  Proof.
    induction m; intros zc; cbn [RangeProof.range_e length]; [lia|].
    rewrite app_length, vscale_length, two_n_length, IHm. lia.
  Qed.
  Lemma fbits_bits v n : Forall is_bit (fbits v n).
  Proof.
    unfold RangeProof.fbits. apply Forall_forall. intros b Hb. apply in_map_iff in Hb.
    destruct Hb as [i [<- _]]. unfold RangeProof.fbit, is_bit. destruct Z.testbit; auto.
  Qed.
  Lemma range_aL_bits n vs : Forall is_bit (range_aL n vs).
  Proof.
    induction vs as [|v vs IH]; cbn [RangeProof.range_aL flat_map]; [constructor|].
    apply Forall_app. split; [apply fbits_bits | exact IH].
  Qed.

  Lemma zgeo_scale z c : forall m zc, zgeo (fmul zc c) z m = fmul c (zgeo zc z m).
  Proof.
    induction m; intros zc; cbn [RangeProof.zgeo]; [ring|].
    replace (fmul (fmul zc c) z) with (fmul (fmul zc z) c) by ring. rewrite IHm. ring.
  Qed.

  Lemma range_part2 n z : forall vs zc,
    dot (vadd (range_aL n vs) (vconst (fopp z) (n * length vs))) (range_e n zc z (length vs))
    = fsub (zweighted zc z (map (fval n) vs))
           (fmul (fmul z (vsum (two_n_vec n))) (zgeo zc z (length vs))).
  Proof.
    induction vs as [|v vs IH]; intros zc.
    - cbn [length map RangeProof.zweighted RangeProof.zgeo RangeProof.range_e RangeProof.range_aL flat_map].
      rewrite Nat.mul_0_r. change (dot (vadd [] (vconst (fopp z) 0)) []) with f0. ring.
    - cbn [length map RangeProof.zweighted RangeProof.zgeo RangeProof.range_e RangeProof.range_aL flat_map].
      fold (range_aL n vs).
      replace (n * S (length vs)) with (n + n * length vs) by lia.
      rewrite vconst_add.
      rewrite vadd_app by (rewrite fbits_length, vconst_length; reflexivity).
      rewrite dot_app by (rewrite vadd_length; rewrite ?vscale_length, ?fbits_length, ?two_n_length, ?vconst_length; reflexivity).
      rewrite IH.
      rewrite dot_vscale_r, dot_vadd_l by (rewrite ?fbits_length, ?vconst_length, ?two_n_length; reflexivity).
      rewrite (dot_vconst_l' (fopp z) n (two_n_vec n)) by apply two_n_length.
      fold (fval n v). ring.
  Qed.

  Lemma gweighted_commits z B Bt : forall vals rs zc, length rs = length vals ->
    gweighted zc z (vzip (fun v r => gadd (smul v B) (smul r Bt)) vals rs)
    = gadd (smul (zweighted zc z vals) B) (smul (zweighted zc z rs) Bt).
  Proof.
    induction vals as [|v vals IH]; intros [|r rs] zc H; cbn [length] in H; try discriminate.
    - cbn. mod_ring.
    - change (vzip (fun v r => gadd (smul v B) (smul r Bt)) (v :: vals) (r :: rs))
        with (gadd (smul v B) (smul r Bt) :: vzip (fun v r => gadd (smul v B) (smul r Bt)) vals rs).
      cbn [RangeProof.gweighted RangeProof.zweighted]. rewrite IH by lia. mod_ring.
  Qed.

  Lemma vadd_comm a b : vadd a b = vadd b a.
  Proof.
    revert b. induction a as [|x a IH]; intros [|y b]; try reflexivity.
    vcons. rewrite IH. f_equal. ring.
  Qed.

  (** Completeness of the range proof: for every bit width n, every batch vs (any integers - only
      their n low bits are used), all blinding factors and all challenges, the proof produced by
      [range_prove] satisfies both verifier equations against the commitments to the values
      represented by those bits.  (For 0 <= v < 2^n that value is v itself: [bits_iff_in_range].) *)
  Theorem range_complete_l : forall n vs rs Gs Hs B Bt sL sR at_ st t1t t2t y yi z x w us,
    let m := length vs in
    length rs = m ->
    length Gs = Nat.pow 2 (length us) -> length Gs = n * m -> length Hs = length Gs ->
    length sL = length Gs -> length sR = length Gs ->
    fmul y yi = f1 -> invs_ok us ->
    range_accepts n (vzip (fun v r => gadd (smul v B) (smul r Bt)) (map (fval n) vs) rs) Gs Hs B Bt
      (range_prove n vs rs Gs Hs B Bt sL sR at_ st t1t t2t y yi z x w us) y yi z x w us.
  Proof.
    intros n vs rs Gs Hs B Bt sL sR at_ st t1t t2t y yi z x w us m Hrs HG HN HH HsL HsR Hy Hus.
    unfold RangeProof.range_accepts, RangeProof.range_prove. fold m.
    assert (Lv : length (vzip (fun v r => gadd (smul v B) (smul r Bt)) (map (fval n) vs) rs) = m).
    { rewrite vzip_length; rewrite map_length; [reflexivity | lia]. }
    rewrite Lv.
    pose proof (range_aL_length n vs) as LaL. fold m in LaL.
    assert (LaR : length (range_aR (range_aL n vs)) = n * m) by (unfold RangeProof.range_aR; rewrite map_length; exact LaL).
    pose proof (range_e_length n z m (fmul z z)) as Le.
    apply bp_complete; rewrite ?vconst_length; try lia; try assumption.
    - (* eH *) unfold RangeProof.range_eH. rewrite HN. apply vadd_comm.
    - (* t_0 *)
      rewrite HN.
      pose proof (z_vec_length y 0 (n * m)) as LyN.
      assert (L1 : length (vadd (range_aL n vs) (vconst (fopp z) (n * m))) = n * m)
        by (rewrite vadd_length; rewrite ?vconst_length; lia).
      assert (L2 : length (vadd (range_aR (range_aL n vs)) (vconst z (n * m))) = n * m)
        by (rewrite vadd_length; rewrite ?vconst_length; lia).
      assert (L3 : length (vmul (z_vec y 0 (n * m)) (vadd (range_aR (range_aL n vs)) (vconst z (n * m)))) = n * m)
        by (rewrite vmul_length; lia).
      rewrite t0_split by lia.
      pose proof (bits_part1 z (range_aL n vs) (z_vec y 0 (n * m)) (range_aL_bits n vs) ltac:(lia)) as P1.
      rewrite LaL in P1. unfold RangeProof.range_aR. rewrite P1.
      unfold m. rewrite range_part2. fold m.
      rewrite gweighted_commits by (rewrite map_length; lia).
      unfold RangeProof.range_delta.
      rewrite (zgeo_scale z z m (fmul z z)).
      mod_ring.
  Qed.
  (** ** set membership *)
  Local Notation indicator := (indicator Ops).
  Local Notation memb := (memb Ops).
  Local Notation fofnat := (fofnat Ops).
  Local Notation mem_e := (mem_e Ops).
  Local Notation mem_prove := (mem_prove Ops).
  Local Notation mem_accepts := (mem_accepts Ops).
  Local Notation nonmem_prove := (nonmem_prove Ops).
  Local Notation nonmem_accepts := (nonmem_accepts Ops).

  Lemma memb_In v s : memb v s = true <-> In v s.
  Proof.
    unfold SetProof.memb. rewrite existsb_exists. split.
    - intros [x [Hx E]]. apply feqb_spec in E. subst. exact Hx.
    - intros H. exists v. split; [exact H | apply feqb_spec; reflexivity].
  Qed.

  Lemma indicator_true_cons v a s : indicator v (a :: s) true = f0 :: indicator v s true.
  Proof. reflexivity. Qed.
  Lemma indicator_false_cons v a s :
    indicator v (a :: s) false = if feqb v a then f1 :: indicator v s true else f0 :: indicator v s false.
  Proof. reflexivity. Qed.

  Lemma indicator_found v : forall s,
    length (indicator v s true) = length s /\ Forall is_bit (indicator v s true)
    /\ vsum (indicator v s true) = f0 /\ dot (indicator v s true) s = f0.
  Proof.
    induction s as [|a s IH].
    - repeat split; try constructor.
    - rewrite indicator_true_cons. cbn [length]. destruct IH as [L [B [S D]]]. repeat split.
      + rewrite L. reflexivity.
      + constructor; [left; reflexivity | exact B].
      + vcons. rewrite S. ring.
      + vcons. rewrite D. ring.
  Qed.

  Lemma indicator_spec v : forall s, memb v s = true ->
    length (indicator v s false) = length s /\ Forall is_bit (indicator v s false)
    /\ vsum (indicator v s false) = f1 /\ dot (indicator v s false) s = v.
  Proof.
    induction s as [|a s IH]; intros M.
    - discriminate.
    - rewrite indicator_false_cons. cbn [length]. unfold SetProof.memb in M. cbn [existsb] in M.
      destruct (feqb v a) eqn:E; cbn [length].
      + apply feqb_spec in E. subst a. destruct (indicator_found v s) as [L [B [S D]]]. repeat split.
        * rewrite L. reflexivity.
        * constructor; [right; reflexivity | exact B].
        * vcons. rewrite S. ring.
        * vcons. rewrite D. ring.
      + cbn [orb] in M. destruct (IH M) as [L [B [S D]]]. repeat split.
        * rewrite L. reflexivity.
        * constructor; [left; reflexivity | exact B].
        * vcons. rewrite S. ring.
        * vcons. rewrite D. ring.
  Qed.

  Lemma mem_part2 z : forall aL s, length aL = length s ->
    dot (vadd aL (vconst (fopp z) (length s))) (mem_e z s)
    = fsub (fadd (fmul (fmul (fmul z z) z) (vsum aL)) (fmul (fmul z z) (dot aL s)))
           (fmul z (fadd (fmul (fmul (fmul z z) z) (fofnat (length s))) (fmul (fmul z z) (vsum s)))).
  Proof.
    induction aL as [|a aL IH]; intros [|si s] H; cbn [length] in H; try discriminate.
    - cbn. ring.
    - unfold SetProof.mem_e, SetProof.fofnat in *. cbn [map length]. vcons. rewrite IH by lia. ring.
  Qed.

  Theorem mem_complete_l : forall set v vr Gs Hs B Bt sL sR at_ st t1t t2t y yi z x w us p,
    mem_prove set v vr Gs Hs B Bt sL sR at_ st t1t t2t y yi z x w us = Some p ->
    length Gs = Nat.pow 2 (length us) -> length Gs = length (pad_pow2 set) -> length Hs = length Gs ->
    length sL = length Gs -> length sR = length Gs ->
    fmul y yi = f1 -> invs_ok us ->
    mem_accepts set (gadd (smul v B) (smul vr Bt)) Gs Hs B Bt p y yi z x w us.
  Proof.
    intros set v vr Gs Hs B Bt sL sR at_ st t1t t2t y yi z x w us p E HG HN HH HsL HsR Hy Hus.
    unfold SetProof.mem_prove in E. unfold SetProof.mem_accepts.
    set (s := pad_pow2 set) in *.
    destruct (memb v s) eqn:M; [|discriminate]. injection E as <-.
    destruct (indicator_spec v s M) as [L [Bb [S D]]].
    assert (L4 : length (mem_e z s) = length s) by (unfold SetProof.mem_e; apply map_length).
    apply bp_complete; rewrite ?vconst_length, ?map_length; try lia; try assumption.
    - unfold SetProof.mem_eH. rewrite HN. reflexivity.
    - rewrite HN.
      pose proof (z_vec_length y 0 (length s)) as LyN.
      assert (L1 : length (vadd (indicator v s false) (vconst (fopp z) (length s))) = length s)
        by (rewrite vadd_length; rewrite ?vconst_length; lia).
      assert (L2 : length (vadd (map (fun b => fsub b f1) (indicator v s false)) (vconst z (length s))) = length s)
        by (rewrite vadd_length; rewrite ?map_length, ?vconst_length; lia).
      assert (L3 : length (vmul (z_vec y 0 (length s)) (vadd (map (fun b => fsub b f1) (indicator v s false)) (vconst z (length s)))) = length s)
        by (rewrite vmul_length; lia).
      rewrite t0_split by lia.
      pose proof (bits_part1 z (indicator v s false) (z_vec y 0 (length s)) Bb ltac:(lia)) as P1.
      rewrite L in P1. rewrite P1.
      rewrite mem_part2 by exact L. rewrite S, D.
      unfold SetProof.mem_delta. mod_ring.
  Qed.

  Theorem mem_prove_some_iff : forall set v vr Gs Hs B Bt sL sR at_ st t1t t2t y yi z x w us,
    (exists p, mem_prove set v vr Gs Hs B Bt sL sR at_ st t1t t2t y yi z x w us = Some p) <-> In v set.
  Proof.
    intros. unfold SetProof.mem_prove. rewrite <- (pad_pow2_In _ set v), <- memb_In.
    destruct (memb v (pad_pow2 set)); split.
    - reflexivity.
    - intros _. eexists. reflexivity.
    - intros [p E]; discriminate.
    - discriminate.
  Qed.

  (** ** set non-membership *)
  Lemma nonmem_t0 v z : forall s invs, Forall2 (fun si iv => fmul (fsub v si) iv = f1) s invs ->
    forall yN, length yN = length s ->
    dot (vadd invs (vconst z (length s)))
        (vadd (vmul yN (vadd (vconst v (length s)) (map fopp s))) (vconst f0 (length s)))
    = fadd (fmul (fmul z (vsum yN)) v) (fsub (vsum yN) (fmul z (dot s yN))).
  Proof.
    induction 1 as [|si iv s invs Hi HF IH]; intros [|y0 yN] HL; cbn [length map] in *; try discriminate.
    - cbn. ring.
    - vcons. rewrite IH by lia.
      assert (K : fmul (fadd iv z) (fadd (fmul y0 (fadd v (fopp si))) f0)
                  = fadd (fmul y0 (fmul (fsub v si) iv)) (fmul (fmul z y0) (fsub v si))) by ring.
      rewrite K, Hi. ring.
  Qed.

  Lemma vadd_zero_r : forall a w, length w = length a -> vadd a (vmul w (vconst f0 (length a))) = a.
  Proof.
    induction a as [|x a IH]; intros [|w0 w] H; cbn [length] in *; try discriminate.
    - reflexivity.
    - vcons. rewrite IH by lia. f_equal. ring.
  Qed.

  Theorem nonmem_complete_l : forall set v vr invs Gs Hs B Bt sL sR at_ st t1t t2t y yi z x w us p,
    nonmem_prove set v vr invs Gs Hs B Bt sL sR at_ st t1t t2t y yi z x w us = Some p ->
    Forall2 (fun si iv => fmul (fsub v si) iv = f1) (pad_pow2 set) invs ->
    length Gs = Nat.pow 2 (length us) -> length Gs = length (pad_pow2 set) -> length Hs = length Gs ->
    length sL = length Gs -> length sR = length Gs ->
    fmul y yi = f1 -> invs_ok us ->
    nonmem_accepts set (gadd (smul v B) (smul vr Bt)) Gs Hs B Bt p y yi z x w us.
  Proof.
    intros set v vr invs Gs Hs B Bt sL sR at_ st t1t t2t y yi z x w us p E Hinv HG HN HH HsL HsR Hy Hus.
    unfold SetProof.nonmem_prove in E. unfold SetProof.nonmem_accepts.
    set (s := pad_pow2 set) in *.
    destruct (memb v s) eqn:M; [discriminate|]. injection E as <-.
    assert (Li : length invs = length s).
    { clear -Hinv. induction Hinv; cbn [length]; lia. }
    pose proof (z_vec_length yi 0 (length s)) as LyiN.
    apply bp_complete; rewrite ?vconst_length, ?map_length; try lia; try assumption.
    - rewrite HN. symmetry. rewrite <- (map_length fopp s) at 2. apply vadd_zero_r.
      rewrite map_length. exact LyiN.
    - rewrite HN. unfold RangeProof.bp_t0, RangeProof.bp_l0, RangeProof.bp_r0.
      rewrite (nonmem_t0 v z s invs Hinv) by apply z_vec_length.
      unfold SetProof.nonmem_delta. mod_ring.
  Qed.

  Theorem nonmem_prove_some_iff : forall set v vr invs Gs Hs B Bt sL sR at_ st t1t t2t y yi z x w us,
    (exists p, nonmem_prove set v vr invs Gs Hs B Bt sL sR at_ st t1t t2t y yi z x w us = Some p) <-> ~ In v set.
  Proof.
    intros. unfold SetProof.nonmem_prove. rewrite <- (pad_pow2_In _ set v), <- memb_In.
    destruct (memb v (pad_pow2 set)); split.
    - intros [p E]; discriminate.
    - intros H. exfalso. apply H. reflexivity.
    - intros _. discriminate.
    - intros _. eexists. reflexivity.
  Qed.
End BpProofs.
