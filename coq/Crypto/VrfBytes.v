(** C19 - byte-level model of ECVRF-EDWARDS25519-SHA512-TAI as coded in
    rust-src/concordium_base/src/ecvrf/{secret,public,proof}.rs: the exact byte strings that are
    hashed (suite byte, domain separators, order of the point encodings, counter, trailing zero),
    the truncation of the challenge to 16 bytes, nonce generation, secret-key expansion with
    clamping, the scalar arithmetic of the response, and the 80-byte proof format with its
    rejects.  Definitions only, executable.

    The byte-level scheme IS the abstract model [Vrf.v] instantiated with these framings
    ([ecvrf_prove_bytes] calls [vrf_prove], [ecvrf_verify_bytes] calls [vrf_verify]), so the theorems of
    VrfProofs.v apply to it by instantiation (VrfBytesProofs.v).

    Abstract (Section variables): the curve group [G] with integer action, point [compress] /
    [decompress], and SHA-512 as a function on byte strings.  For the correspondence these are
    instantiated by ORACLE TABLES filled by the real curve arithmetic (dalek, harness) and by a real
    SHA-512 (VrfBytesExec.v), so that [ecvrf_prove_bytes] / [ecvrf_verify_bytes] themselves are run
    against the code. *)
From Coq Require Import ZArith NArith List Bool.
From CB Require Import Crypto.Vrf.
Import ListNotations.
Local Open Scope Z_scope.

(** little-endian integers *)
Fixpoint le_decode (bs : list N) : Z :=
  match bs with
  | [] => 0
  | b :: r => Z.of_N b + 256 * le_decode r
  end.
Fixpoint le_encode (n : nat) (z : Z) : list N :=
  match n with
  | O => []
  | S n' => Z.to_N (z mod 256) :: le_encode n' (z / 256)
  end.

(** the group order of the prime-order subgroup of edwards25519 *)
Definition ed_l : Z := 2 ^ 252 + 27742317777372353535851937790883648493.

(** constants.rs: SUITE_STRING = [3], ZERO/ONE/TWO/THREE_STRING = [0],[1],[2],[3] *)
Definition suite : N := 3%N.

(** [hash_to_curve]: SHA512(suite || 1 || PK_string || alpha || ctr || 0), first 32 bytes *)
Definition h2c_input (pk alpha : list N) (ctr : N) : list N := [suite; 1%N] ++ pk ++ alpha ++ [ctr; 0%N].

(** [hash_points]: SHA512(suite || 2 || P1 || P2 || P3 || P4 || 0) *)
Definition challenge_input (h gm u v : list N) : list N := [suite; 2%N] ++ h ++ gm ++ u ++ v ++ [0%N].

(** first 16 bytes of the digest, padded with 16 zero bytes, [Scalar::from_bytes_mod_order] *)
Definition challenge_of_digest (d : list N) : Z := le_decode (firstn 16 d ++ repeat 0%N 16) mod ed_l.

(** [Proof::to_hash]: SHA512(suite || 3 || compress(8*Gamma) || 0) *)
Definition beta_input (g8 : list N) : list N := [suite; 3%N] ++ g8 ++ [0%N].

(** [nonce_generation]: SHA512(nonce || h_string), [Scalar::from_bytes_mod_order_wide] *)
Definition nonce_input (nonce hstring : list N) : list N := nonce ++ hstring.
Definition nonce_of_digest (d : list N) : Z := le_decode d mod ed_l.

(** [clamp_integer]: b[0] &= 248; b[31] &= 127; b[31] |= 64 *)
Definition clamp (b : list N) : list N :=
  match b with
  | [] => []
  | b0 :: r => N.land b0 248 ::
               (firstn 30 r ++ match skipn 30 r with
                               | b31 :: r' => N.lor (N.land b31 127) 64 :: r'
                               | [] => []
                               end)
  end.

(** [ExpandedSecretKey::from(&SecretKey)]: digest = SHA512(sk); key = clamp(lower) mod l, nonce = upper *)
Definition expand_key (digest : list N) : Z * list N :=
  (le_decode (clamp (firstn 32 digest)) mod ed_l, skipn 32 digest).

(** the response [k + c * x] (dalek [Scalar] arithmetic = arithmetic mod l) *)
Definition response (k c x : Z) : Z := (k + c * x) mod ed_l.

(** [Scalar::from_canonical_bytes]: accepted iff the 32-byte little-endian value is below l
    (the additional test "bit 255 clear" of dalek is implied by this, l < 2^253) *)
Definition scalar_from_canonical (bs : list N) : option Z :=
  let z := le_decode bs in if z <? ed_l then Some z else None.

Section VrfBytes.
  Variable G : Type.
  Variable gzero : G.
  Variable gadd : G -> G -> G.
  Variable gopp : G -> G.
  Variable zmul : Z -> G -> G.
  Variable geqb : G -> G -> bool.
  Variable B : G.
  Variable compress : G -> list N.
  Variable decompress : list N -> option G.
  Variable sha512 : list N -> list N.

  (** [EdwardsPoint::is_small_order] = [mul_by_cofactor().is_identity()] *)
  Definition small_order (P : G) : bool := geqb (zmul 8 P) gzero.

  (** the loop of [hash_to_curve]: [for ctr in 0..=255] *)
  Fixpoint h2c_loop (fuel : nat) (ctr : N) (pkb alpha : list N) : option G :=
    match fuel with
    | O => None
    | S fuel' =>
        let cand := firstn 32 (sha512 (h2c_input pkb alpha ctr)) in
        match decompress cand with
        | Some P => if small_order P then h2c_loop fuel' (ctr + 1)%N pkb alpha else Some (zmul 8 P)
        | None => h2c_loop fuel' (ctr + 1)%N pkb alpha
        end
    end.
  (** the key bytes are the stored bytes of the key ([self.as_bytes()]), not a re-encoding *)
  Definition h2c_bytes (pkb : list N) (alpha : list N) : option G := h2c_loop 256 0%N pkb alpha.

  Definition hpoints_bytes (t : G * G * G * G) : Z :=
    let '(H, gm, U, V) := t in
    challenge_of_digest (sha512 (challenge_input (compress H) (compress gm) (compress U) (compress V))).

  Definition hout_bytes (P : G) : list N := sha512 (beta_input (compress P)).

  Definition noncegen_bytes (nonce : list N) (H : G) : Z :=
    nonce_of_digest (sha512 (nonce_input nonce (compress H))).

  (** a public key as stored: (bytes, point) *)
  Definition pk_of_secret (skb : list N) : list N * G :=
    let Y := zmul (fst (expand_key (sha512 skb))) B in (compress Y, Y).

  (** [Serial for Proof]: Gamma (32) || c (16, after [assert_eq!(c[16..32], [0; 16])]) || s (32);
      [None] = the assertion fails *)
  Definition encode_proof (pi : G * Z * Z) : option (list N) :=
    let '(gm, c, s) := pi in
    if c <? 2 ^ 128 then Some (compress gm ++ le_encode 16 c ++ le_encode 32 s) else None.

  (** [Deserial for Proof]: 32 + 16 + 32 bytes; point decompression; both scalars canonical *)
  Definition decode_proof (bs : list N) : option (G * Z * Z) :=
    if (length bs <? 80)%nat then None else
    match decompress (firstn 32 bs) with
    | None => None
    | Some gm =>
        match scalar_from_canonical (firstn 16 (skipn 32 bs) ++ repeat 0%N 16) with
        | None => None
        | Some c =>
            match scalar_from_canonical (firstn 32 (skipn 48 bs)) with
            | None => None
            | Some s => Some (gm, c, s)
            end
        end
    end.

  (** [SecretKey::prove] = [ExpandedSecretKey::from(self).prove(pk, alpha)], on the abstract model *)
  Definition ecvrf_prove_pi (skb : list N) (pk : list N * G) (alpha : list N) : option (G * Z * Z) :=
    let '(x, nonce) := expand_key (sha512 skb) in
    vrf_prove G zmul ed_l B (list N) (list N) (fun _ a => h2c_bytes (fst pk) a) hpoints_bytes noncegen_bytes
      x nonce (snd pk) alpha.

  Definition ecvrf_prove_bytes (skb : list N) (pk : list N * G) (alpha : list N) : option (list N) :=
    match ecvrf_prove_pi skb pk alpha with
    | None => None
    | Some pi => encode_proof pi
    end.

  (** [PublicKey::verify] on a parsed proof / on proof bytes *)
  Definition ecvrf_verify_pi (pk : list N * G) (pi : G * Z * Z) (alpha : list N) : bool :=
    vrf_verify G gadd gopp zmul B (list N) (fun _ a => h2c_bytes (fst pk) a) hpoints_bytes (snd pk) pi alpha.

  Definition ecvrf_verify_bytes (pk : list N * G) (pib : list N) (alpha : list N) : bool :=
    match decode_proof pib with
    | None => false
    | Some pi => ecvrf_verify_pi pk pi alpha
    end.

  (** [Proof::to_hash] *)
  Definition ecvrf_hash_pi (pi : G * Z * Z) : list N := vrf_to_hash G zmul (list N) hout_bytes pi.
  Definition ecvrf_hash_bytes (pib : list N) : option (list N) :=
    match decode_proof pib with
    | None => None
    | Some pi => Some (ecvrf_hash_pi pi)
    end.

  (** [Deserial for PublicKey]: 32 bytes, decompress, reject small order; keeps the bytes *)
  Definition decode_pk (bs : list N) : option (list N * G) :=
    if (length bs <? 32)%nat then None else
    match decompress (firstn 32 bs) with
    | None => None
    | Some Y => if small_order Y then None else Some (firstn 32 bs, Y)
    end.
End VrfBytes.
