(** sigma_protocols/vcom_eq.rs: a vector commitment [C = sum x_i*g_i + r*h] and individual commitments
    [C_i = x_i*g_bar + r_i*h_bar] for the indices i in a map [comms : BTreeMap<u8, Commitment>].
    Maps are association lists in increasing key order (the iteration order of BTreeMap); the loops over
    the indices 0..n with [get] on both maps are transcribed as [walk].  Response style [rho - c*w].

    The model follows the code AFTER the repair 82fae784a ([points.len() != comms.len() => None]);
    [vcom_eq_extract_prefix] is the code before it, see [vcom_eq_prefix_unchecked_commitment_refuted_]. *)
From Coq Require Import ZArith NArith List Field Lia String Bool.
From CB Require Import Crypto.Alg Crypto.Transcript Crypto.TranscriptProofs Crypto.SigmaGeneric Crypto.SigmaCodec.
Import ListNotations.

Definition amap (X : Type) : Type := list (N * X).
Definition aget {X} (m : amap X) (i : N) : option X :=
  match find (fun p => N.eqb (fst p) i) m with Some p => Some (snd p) | None => None end.
(** [for (i, v) in vals.enumerate() { if let (Some(a), Some(b)) = (m1.get(i), m2.get(i)) { push f i v a b } }] *)
Fixpoint walk {A X Y Z} (f : N -> A -> X -> Y -> Z) (m1 : amap X) (m2 : amap Y) (i : N) (vals : list A) : list Z :=
  match vals with
  | [] => []
  | v :: vals' =>
    match aget m1 i, aget m2 i with
    | Some a, Some b => f i v a b :: walk f m1 m2 (i + 1)%N vals'
    | _, _ => walk f m1 m2 (i + 1)%N vals'
    end
  end.

Definition hit {X Y} (m1 : amap X) (m2 : amap Y) (k : N) : bool :=
  match aget m1 k, aget m2 k with Some _, Some _ => true | _, _ => false end.

(** two loops with the same hit pattern produce equally many items *)
Lemma walk_length_eq {A A' X Y X' Y' Z Z'} (f : N -> A -> X -> Y -> Z) (f' : N -> A' -> X' -> Y' -> Z')
    (m1 : amap X) (m2 : amap Y) (m1' : amap X') (m2' : amap Y') :
  forall (vals : list A) (vals' : list A') (i : N), List.length vals = List.length vals' ->
  (forall k, (i <= k < i + N.of_nat (List.length vals))%N -> hit m1 m2 k = hit m1' m2' k) ->
  List.length (walk f m1 m2 i vals) = List.length (walk f' m1' m2' i vals').
Proof.
  induction vals as [|v vals IH]; intros [|v' vals'] i L Hh; try discriminate; [reflexivity|].
  assert (Hi := Hh i). unfold hit in Hi. cbn [walk].
  assert (R : List.length (walk f m1 m2 (i + 1)%N vals) = List.length (walk f' m1' m2' (i + 1)%N vals')).
  { apply IH; [cbn in L; lia|]. intros k Hk. apply Hh. cbn [List.length]. lia. }
  cbn [List.length] in Hi.
  destruct (aget m1 i), (aget m2 i), (aget m1' i), (aget m2' i); cbn [List.length];
    try (specialize (Hi ltac:(lia)); discriminate); congruence.
Qed.

Fixpoint inc_from (i : N) (ks : list N) : Prop :=
  match ks with [] => True | k :: ks' => (i <= k)%N /\ inc_from (k + 1)%N ks' end.
Lemma inc_from_weaken : forall ks i j, (j <= i)%N -> inc_from i ks -> inc_from j ks.
Proof. destruct ks; cbn; auto. intros i j L [H1 H2]. split; [lia|auto]. Qed.
Lemma aget_none {X} : forall (m : amap X) i j, inc_from j (map fst m) -> (i < j)%N -> aget m i = None.
Proof.
  unfold aget. induction m as [|[k a] m IH]; intros i j Hs L; [reflexivity|]. cbn in Hs. destruct Hs as [H1 H2].
  cbn [find fst]. destruct (N.eqb k i) eqn:E; [apply N.eqb_eq in E; lia|]. apply (IH i (k + 1)%N); auto. lia.
Qed.
(** the response map built by the prover's loop: keys are the hit indices, in increasing order *)
Lemma walk_keys_inc {A X Y V} (g : X -> Y -> V) (m1 : amap X) (m2 : amap Y) : forall (vals : list A) j,
  inc_from j (map fst (walk (fun i (_ : A) a b => (i, g a b)) m1 m2 j vals)).
Proof.
  induction vals as [|v vals IH]; intros j; [exact I|]. cbn [walk].
  destruct (aget m1 j), (aget m2 j); cbn [map fst inc_from];
    try (apply (inc_from_weaken _ (j + 1)%N); [lia|apply IH]).
  split; [lia|apply IH].
Qed.
Lemma aget_walk {A X Y V} (g : X -> Y -> V) (m1 : amap X) (m2 : amap Y) : forall (vals : list A) j k,
  (j <= k < j + N.of_nat (List.length vals))%N ->
  aget (walk (fun i (_ : A) a b => (i, g a b)) m1 m2 j vals) k =
  match aget m1 k, aget m2 k with Some a, Some b => Some (g a b) | _, _ => None end.
Proof.
  induction vals as [|v vals IH]; intros j k Hk; [cbn in Hk; lia|]. cbn [walk].
  destruct (N.eq_dec j k) as [->|Ne].
  - destruct (aget m1 k) eqn:E1, (aget m2 k) eqn:E2;
      try (apply (aget_none _ k (k + 1)%N); [apply walk_keys_inc|lia]).
    unfold aget. cbn [find fst]. now rewrite N.eqb_refl.
  - assert (R : aget (walk (fun i (_ : A) a b => (i, g a b)) m1 m2 (j + 1)%N vals) k =
                match aget m1 k, aget m2 k with Some a, Some b => Some (g a b) | _, _ => None end).
    { apply IH. cbn [List.length] in Hk. lia. }
    destruct (aget m1 j), (aget m2 j); auto.
    unfold aget at 1. cbn [find fst]. destruct (N.eqb j k) eqn:E; [apply N.eqb_eq in E; contradiction|exact R].
Qed.

Record vcom_stmt {K : FieldOps} (M : ModOps K) := mkVcom {
  vc_comm : M; vc_comms : amap M; vc_gis : list M; vc_h : M; vc_gbar : M; vc_hbar : M }.
Arguments mkVcom {K M} _ _ _ _ _ _. Arguments vc_comm {K M} _. Arguments vc_comms {K M} _. Arguments vc_gis {K M} _.
Arguments vc_h {K M} _. Arguments vc_gbar {K M} _. Arguments vc_hbar {K M} _.

Section VcomEq.
  Context {K : FieldOps} {M : ModOps K} (Cd : CodecOps M).
  Local Open Scope G_scope.
  Notation len := (@List.length _).
  Definition vc_wit : Type := (list K * K * amap K)%type.   (* xis / alphas, r / r~, ris / r~_i *)

  (** [Serial] of [BTreeMap<u8, V>]: u64 count, then key byte and value in key order *)
  Definition ser_map8 {X} (ser : X -> bytes) (m : amap X) : bytes :=
    be64 (N.of_nat (len m)) ++ List.concat (map (fun p => [fst p] ++ ser (snd p)) m).
  (** "C", "Cis", "gis", "h", then "h_bar" BEFORE "g_bar" *)
  Definition vcom_public (k : tkind) (s : vcom_stmt M) : bytes :=
    msg k (str "C") (serG Cd (vc_comm s)) ++ msg k (str "Cis") (ser_map8 (serG Cd) (vc_comms s)) ++
    msgs k (str "gis") (map (serG Cd) (vc_gis s)) ++ msg k (str "h") (serG Cd (vc_h s)) ++
    msg k (str "h_bar") (serG Cd (vc_hbar s)) ++ msg k (str "g_bar") (serG Cd (vc_gbar s)).

  (** indices are converted to u8: more than 256 generators make the loops fail *)
  Definition fits_u8 (n : nat) : bool := Nat.leb n 256.
  Definition neqb (a b : nat) : bool := negb (Nat.eqb a b).
  Definition resp1 (c w rho : K) : K := Fadd K (Fopp K (Fmul K c w)) rho.

  Definition vcom_commit (s : vcom_stmt M) (r : vc_wit) : option (M * list M) :=
    let '(alphas, rt, rts) := r in
    if negb (fits_u8 (len (vc_gis s))) then None else
    Some (msm alphas (vc_gis s) + rt *: vc_h s,
          walk (fun _ al (_ : M) rti => al *: vc_gbar s + rti *: vc_hbar s) (vc_comms s) rts 0%N alphas).
  Definition vcom_respond (s : vcom_stmt M) (w r : vc_wit) (c : K) : option vc_wit :=
    let '(xis, wr, ris) := w in let '(alphas, rt, rts) := r in
    if neqb (len alphas) (len xis) || neqb (len rts) (len ris) || neqb (len ris) (len (vc_comms s)) then None else
    if negb (fits_u8 (len xis)) then None else
    Some (map2 (resp1 c) xis alphas, resp1 c wr rt,
          walk (fun i (_ : K * K) rti ri => (i, resp1 c ri rti)) rts ris 0%N (combine alphas xis)).
  Definition vcom_points (s : vcom_stmt M) (c : K) (sis : list K) (tis : amap K) : list M :=
    walk (fun _ si Ci ti => si *: vc_gbar s + (ti *: vc_hbar s + c *: Ci)) (vc_comms s) tis 0%N sis.
  Definition vcom_guard (s : vcom_stmt M) (sis : list K) (tis : amap K) : bool :=
    match sis with [] => false | _ =>
      negb (neqb (len sis) (len (vc_gis s)) || neqb (len tis) (len (vc_comms s)) || Nat.ltb (len sis) (len tis)
            || negb (fits_u8 (len sis)))
    end.
  Definition vcom_point (s : vcom_stmt M) (c : K) (sis : list K) (t : K) : M :=
    msm sis (vc_gis s) + (t *: vc_h s + c *: vc_comm s).
  (** the code before 82fae784a *)
  Definition vcom_extract_prefix (s : vcom_stmt M) (c : K) (z : vc_wit) : option (M * list M) :=
    let '(sis, t, tis) := z in
    if vcom_guard s sis tis then Some (vcom_point s c sis t, vcom_points s c sis tis) else None.
  Definition vcom_extract (s : vcom_stmt M) (c : K) (z : vc_wit) : option (M * list M) :=
    let '(sis, t, tis) := z in
    if vcom_guard s sis tis then
      let pts := vcom_points s c sis tis in
      if neqb (len pts) (len (vc_comms s)) then None else Some (vcom_point s c sis t, pts)
    else None.

  Definition vcom_proto : proto K := {|
    p_stmt := vcom_stmt M; p_wit := vc_wit; p_rand := vc_wit; p_cm := M * list M; p_resp := vc_wit;
    p_public := vcom_public; p_commit := vcom_commit; p_respond := vcom_respond; p_extract := vcom_extract;
    p_ser_cm := fun a => serG Cd (fst a) ++ ser_vec (map (serG Cd) (snd a));
    p_ser_resp := fun z => let '(sis, t, tis) := z in
      ser_vec16 (map (serF Cd) sis) ++ serF Cd t ++
      be16 (N.of_nat (len tis)) ++ List.concat (map (fun p => [fst p] ++ serF Cd (snd p)) tis) |}.

  Definition vcom_recover (s : vcom_stmt M) (w : vc_wit) (c : K) (z : vc_wit) : vc_wit :=
    let '(xis, wr, ris) := w in let '(sis, t, tis) := z in
    let rec zi wi := Fadd K zi (Fmul K c wi) in
    (map2 rec sis xis, rec t wr, map2 (fun p q => (fst p, rec (snd p) (snd q))) tis ris).

  (** after the repair: an accepted response answers every individual commitment, and the vector
      lengths are the statement's *)
  Theorem vcom_extract_checks_every_commitment_ : forall s c sis t tis a pts,
    vcom_extract s c (sis, t, tis) = Some (a, pts) ->
    len pts = len (vc_comms s) /\ len sis = len (vc_gis s) /\ len tis = len (vc_comms s).
  Proof.
    intros s c sis t tis a pts. unfold vcom_extract. destruct (vcom_guard s sis tis) eqn:G; [|discriminate].
    destruct (neqb (len (vcom_points s c sis tis)) (len (vc_comms s))) eqn:E; [discriminate|].
    intro X. injection X as _ <-. unfold neqb in E. apply negb_false_iff, Nat.eqb_eq in E. split; [exact E|].
    unfold vcom_guard in G. destruct sis; [discriminate|]. apply negb_true_iff in G.
    apply orb_false_iff in G. destruct G as [G _]. apply orb_false_iff in G. destruct G as [G _].
    apply orb_false_iff in G. destruct G as [G1 G2]. unfold neqb in G1, G2.
    apply negb_false_iff, Nat.eqb_eq in G1. apply negb_false_iff, Nat.eqb_eq in G2. auto.
  Qed.
  (** the relation, stated in the shape of the verifier's loop: every individual commitment is
      answered by a randomness in [ris] (same key sets, all keys among the indices 0..n-1), and
      for every index present, [C_i = x_i*g_bar + r_i*h_bar] *)
  Definition same_dom {X Y} (m1 : amap X) (m2 : amap Y) : Prop :=
    forall k, aget m1 k = None <-> aget m2 k = None.
  Definition vcom_rel (s : vcom_stmt M) (w : vc_wit) : Prop :=
    let '(xis, wr, ris) := w in
    len xis = len (vc_gis s) /\ (1 <= len xis <= 256)%nat /\
    len ris = len (vc_comms s) /\ same_dom (vc_comms s) ris /\
    vc_comm s = msm xis (vc_gis s) + wr *: vc_h s /\
    Forall (fun p : M * M => fst p = snd p)
      (walk (fun _ x C r => (C, x *: vc_gbar s + r *: vc_hbar s)) (vc_comms s) ris 0%N xis) /\
    len (walk (fun _ (_ : K) (C : M) (_ : K) => C) (vc_comms s) ris 0%N xis) = len (vc_comms s).
  Definition vcom_rok (s : vcom_stmt M) (r : vc_wit) : Prop :=
    let '(alphas, _, rts) := r in
    len alphas = len (vc_gis s) /\ len rts = len (vc_comms s) /\ same_dom rts (vc_comms s).

  Context {KL : FieldLaws K} {ML : ModLaws M}.
  Add Field Kf_vc : (@F_th K KL).

  Lemma resp1_is_generic : forall (w r : list K) c, map2 (resp1 c) w r = m_respond RespMinus c w r.
  Proof.
    unfold m_respond, vsub, vscale, resp1. induction w as [|x w IH]; intros [|y r] c; cbn [map map2]; try reflexivity.
    rewrite IH. f_equal. ring.
  Qed.

  (** the individual points the verifier reconstructs are the ones the prover committed to *)
  Lemma vcom_points_complete (s : vcom_stmt M) c (rts ris tis : amap K) :
    same_dom (vc_comms s) ris -> same_dom rts (vc_comms s) ->
    forall (xis alphas : list K) i, len alphas = len xis ->
    (forall k, (i <= k < i + N.of_nat (len xis))%N ->
       aget tis k = match aget rts k, aget ris k with Some a, Some b => Some (resp1 c b a) | _, _ => None end) ->
    Forall (fun p : M * M => fst p = snd p)
      (walk (fun _ x C r => (C, x *: vc_gbar s + r *: vc_hbar s)) (vc_comms s) ris i xis) ->
    walk (fun _ si Ci ti => si *: vc_gbar s + (ti *: vc_hbar s + c *: Ci)) (vc_comms s) tis i (map2 (resp1 c) xis alphas) =
    walk (fun _ al (_ : M) rti => al *: vc_gbar s + rti *: vc_hbar s) (vc_comms s) rts i alphas.
  Proof.
    intros D1 D2. induction xis as [|x xis IH]; intros [|al alphas] i L Ht Hr; try discriminate; [reflexivity|].
    cbn [map2 walk] in *. pose proof (Ht i ltac:(cbn [len]; lia)) as Hi.
    assert (IHt : forall k, (i + 1 <= k < i + 1 + N.of_nat (len xis))%N ->
       aget tis k = match aget rts k, aget ris k with Some a, Some b => Some (resp1 c b a) | _, _ => None end).
    { intros k Hk. apply Ht. cbn [len]. lia. }
    destruct (aget (vc_comms s) i) as [C|] eqn:EC.
    - destruct (aget ris i) as [r|] eqn:Er; [|apply D1 in Er; congruence].
      destruct (aget rts i) as [rt|] eqn:Ert; [|apply D2 in Ert; congruence].
      rewrite Hi. inversion Hr as [|? ? Hh Hr']; subst. cbn [fst snd] in Hh. f_equal.
      + rewrite Hh. unfold resp1. mod_norm.
      + apply IH; auto.
    - destruct (aget rts i) as [rt|] eqn:Ert.
      + exfalso. assert (aget rts i = None) by (apply D2; exact EC). congruence.
      + apply IH; auto; destruct (aget ris i); exact Hr.
  Qed.

  Theorem vcom_complete_ : complete vcom_proto vcom_rel vcom_rok.
  Proof.
    intros s [[xis wr] ris] [[alphas rt] rts] (Lx & Ln & Lr & D1 & Hc & Hr & Hl) (La & Lt & D2).
    assert (Fit : fits_u8 (len xis) = true) by (unfold fits_u8; apply Nat.leb_le; lia).
    rewrite <- Lx in La.
    eexists. split.
    { cbn [p_commit vcom_proto vcom_commit]. rewrite <- Lx, Fit. reflexivity. }
    intro c. cbn [p_respond p_extract vcom_proto vcom_respond]. unfold neqb.
    rewrite La, Lt, Lr, !Nat.eqb_refl, Fit. cbn [negb orb]. eexists. split; [reflexivity|].
    remember (walk (fun i (_ : K * K) rti ri => (i, resp1 c ri rti)) rts ris 0%N (combine alphas xis)) as tis eqn:Etis.
    remember (map2 (resp1 c) xis alphas) as sis eqn:Esis.
    assert (Ls : len sis = len xis) by (rewrite Esis, map2_length, La; apply Nat.min_id).
    assert (Lc : len (combine alphas xis) = len xis) by (rewrite combine_length, La; apply Nat.min_id).
    assert (Hits : forall k, hit rts ris k = hit (vc_comms s) ris k).
    { intro k. unfold hit. destruct (aget ris k); [|destruct (aget rts k), (aget (vc_comms s) k); reflexivity].
      destruct (aget rts k) eqn:E1, (aget (vc_comms s) k) eqn:E2; auto.
      - apply D2 in E2. congruence. - apply D2 in E1. congruence. }
    assert (Ltis : len tis = len (vc_comms s)).
    { rewrite <- Hl, Etis. apply walk_length_eq; [congruence|]. intros k _. apply Hits. }
    assert (Ht : forall k, (0 <= k < 0 + N.of_nat (len xis))%N ->
       aget tis k = match aget rts k, aget ris k with Some a, Some b => Some (resp1 c b a) | _, _ => None end).
    { intros k Hk. rewrite Etis, (aget_walk (fun rti ri => resp1 c ri rti)); [reflexivity|]. rewrite Lc. exact Hk. }
    assert (Lp : len (vcom_points s c sis tis) = len (vc_comms s)).
    { rewrite <- Hl. unfold vcom_points. apply walk_length_eq; [congruence|]. intros k Hk. rewrite Ls in Hk.
      unfold hit. rewrite (Ht k Hk). destruct (aget (vc_comms s) k) eqn:E2; [|reflexivity].
      destruct (aget ris k) eqn:E3; [|destruct (aget rts k); reflexivity].
      destruct (aget rts k) eqn:E1; [reflexivity|]. apply D2 in E1. congruence. }
    assert (Lle : Nat.ltb (len xis) (len (vc_comms s)) = false).
    { apply Nat.ltb_ge. rewrite <- Hl. clear. generalize 0%N. induction xis as [|x xis IH]; intro i; cbn [walk len]; [lia|].
      destruct (aget (vc_comms s) i), (aget ris i); cbn [len]; specialize (IH (i + 1)%N); lia. }
    assert (Gd : vcom_guard s sis tis = true).
    { unfold vcom_guard, neqb. rewrite <- Lx, Ls, Ltis, !Nat.eqb_refl, Fit, Lle.
      destruct sis; [cbn in Ls; lia|reflexivity]. }
    unfold vcom_extract, neqb. rewrite Gd, Lp, Nat.eqb_refl. cbn [negb]. f_equal. f_equal.
    - unfold vcom_point. rewrite Esis, resp1_is_generic. unfold m_respond.
      rewrite msm_vsub by (rewrite vscale_length; congruence). rewrite msm_vscale, Hc. unfold resp1. mod_norm.
    - unfold vcom_points. rewrite Esis. exact (vcom_points_complete s c rts ris tis D1 D2 xis alphas 0%N La Ht Hr).
  Qed.

  (** before the repair: with [comms] keyed {0} and a response map keyed {1} (same size) the guard
      passes, no individual point is computed and the commitment C_0 is never looked at *)
  Theorem vcom_prefix_unchecked_commitment_refuted_ : forall (g h gb hb C C0 C0' : M) (c s0 s1 t t1 : K),
    let st X := mkVcom C [(0%N, X)] [g; g] h gb hb in
    vcom_extract_prefix (st C0) c ([s0; s1], t, [(1%N, t1)]) = vcom_extract_prefix (st C0') c ([s0; s1], t, [(1%N, t1)])
    /\ exists a, vcom_extract_prefix (st C0) c ([s0; s1], t, [(1%N, t1)]) = Some (a, [])
    /\ vcom_extract (st C0) c ([s0; s1], t, [(1%N, t1)]) = None.
  Proof. intros. split; [reflexivity|]. eexists. split; reflexivity. Qed.

  Context {CL : CodecLaws Cd}.
  Lemma ser_map8_split : forall (m m' : amap M) x y, len m = len m' ->
    List.concat (map (fun p => [fst p] ++ serG Cd (snd p)) m) ++ x =
    List.concat (map (fun p => [fst p] ++ serG Cd (snd p)) m') ++ y -> m = m' /\ x = y.
  Proof.
    induction m as [|[k a] m IH]; intros [|[k' a'] m'] x y L E; try discriminate; cbn in *; auto.
    injection E as -> E. rewrite <- !app_assoc in E. apply (serG_split Cd) in E. destruct E as [-> E].
    destruct (IH m' x y) as [-> ->]; auto.
  Qed.
  (** [public] covers every field incl. the keys and the number of individual commitments and of generators (V1) *)
  Theorem vcom_public_prefix_free_v1_ :
    public_prefix_free vcom_proto V1
      (fun s => (N.of_nat (len (vc_gis s)) < W64)%N /\ (N.of_nat (len (vc_comms s)) < W64)%N).
  Proof.
    intros [a m gs h gb hb] [a' m' gs' h' gb' hb'] x y [L1 L2] [L1' L2'] E. cbn [vc_gis vc_comms] in *.
    cbn [p_public vcom_proto] in E. unfold vcom_public in E. cbn [vc_comm vc_comms vc_gis vc_h vc_gbar vc_hbar] in E.
    rewrite <- !app_assoc in E. apply (msg_split_G Cd) in E. destruct E as [-> E].
    unfold msg at 1 5 in E. unfold ser_map8 in E. rewrite <- !app_assoc in E. apply app_inv_head in E.
    apply app_eq_len in E; [|now rewrite !be64_length]. destruct E as [E1 E].
    apply be64_inj in E1; auto. apply Nat2N.inj in E1.
    destruct (ser_map8_split m m' _ _ E1 E) as [Em E']. subst m'.
    apply (msgs_v1_split_G Cd) in E'; auto. destruct E' as [-> E'].
    apply (msg_split_G Cd) in E'. destruct E' as [-> E']. apply (msg_split_G Cd) in E'. destruct E' as [-> E'].
    apply (msg_split_G Cd) in E'. destruct E' as [-> ->]. auto.
  Qed.
End VcomEq.
