(** Executable instance of [ElGamalExp] for the correspondence run: scalars are Z mod r
    (r = BLS12-381 scalar field order) and group elements are formal combinations
    a*g + b*h represented by their coefficient pair (a, b) - the free module on the two
    generators, so no discrete-log relation between g and h is assumed.  The harness checks
    with real curve arithmetic that each implementation point equals a*g + b*h. *)
From Coq Require Import ZArith NArith List.
From CB Require Import Crypto.Chunks Crypto.ElGamalExp.
Import ListNotations.
Local Open Scope Z_scope.

Definition r_bls : Z := 0x73eda753299d7d483339d80809a1d80553bda402fffe5bfeffffffff00000001.
Definition Fr := Z.
Definition fr_add (a b : Fr) : Fr := (a + b) mod r_bls.
Definition fr_mul (a b : Fr) : Fr := (a * b) mod r_bls.
Definition fr_sub (a b : Fr) : Fr := (a - b) mod r_bls.
Definition fr_opp (a : Fr) : Fr := (- a) mod r_bls.
Definition G2d := (Fr * Fr)%type.
Definition g2_add (p q : G2d) : G2d := (fr_add (fst p) (fst q), fr_add (snd p) (snd q)).
Definition g2_opp (p : G2d) : G2d := (fr_opp (fst p), fr_opp (snd p)).
Definition g2_smul (x : Fr) (p : G2d) : G2d := (fr_mul x (fst p), fr_mul x (snd p)).
Definition gen_g : G2d := (1, 0).
Definition gen_h : G2d := (0, 1).

Definition inst_pk (sk : Fr) : G2d := pk_of Fr G2d g2_smul gen_g sk.
Definition inst_encrypt_amount (sk : Fr) (x : N) (klo khi : Fr) :=
  encrypt_amount Fr 0 1 fr_add fr_mul G2d g2_add g2_smul gen_g gen_h (inst_pk sk) x klo khi.
Definition inst_fixed_amount (x : N) :=
  encrypt_amount Fr 0 1 fr_add fr_mul G2d g2_add g2_smul gen_g gen_h (inst_pk 0) x 0 0.
Definition inst_aggregate := aggregate G2d g2_add.
Definition inst_join := join Fr 0 1 fr_add fr_mul G2d g2_add g2_smul.
Definition inst_decrypt (sk : Fr) (c : cipher G2d) : G2d := decrypt Fr G2d g2_add g2_opp g2_smul sk c.

(** One correspondence case: encrypt x and y under sk, aggregate, join; returns the
    coefficient pairs of every group element the implementation produces, and of the
    decryptions (which must be pure multiples of h: first coefficient 0). *)
Definition enc_case (sk : Fr) (x y : N) (k1 k2 k3 k4 : Fr) :=
  match inst_encrypt_amount sk x k1 k2, inst_encrypt_amount sk y k3 k4 with
  | Some ex, Some ey =>
      let ag := inst_aggregate ex ey in
      let j := inst_join ag in
      Some ([fst (fst ex); snd (fst ex); fst (snd ex); snd (snd ex);
             fst (fst ag); snd (fst ag); fst (snd ag); snd (snd ag);
             fst j; snd j],
            [inst_decrypt sk (fst ag); inst_decrypt sk (snd ag); inst_decrypt sk j])
  | _, _ => None
  end.
