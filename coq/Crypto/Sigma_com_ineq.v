(** sigma_protocols/com_ineq.rs: the committed value differs from a public value.  Not a
    [SigmaProtocol] impl but a wrapper: a legacy [RandomOracle] with domain "InequalityProof" absorbs
    the key, the commitment and the public value; then a [ComMult] proof for
    [C_1 = C - v*g] (commits to x - v), [C_2 = aux] (commits to (x - v)^-1), [C_3 = g] (commits to 1, randomness 0). *)
From Coq Require Import ZArith NArith List Field Lia String.
From CB Require Import Crypto.Alg Crypto.Transcript Crypto.TranscriptProofs Crypto.SigmaGeneric Crypto.SigmaCodec Crypto.Sigma_com_mult.
Import ListNotations.

Section ComIneq.
  Context {K : FieldOps} {M : ModOps K} (Cd : CodecOps M).
  Variable H : bytes -> bytes.
  Variable sfb : bytes -> K.
  Local Open Scope G_scope.

  (** the transcript prefix shared by prover and verifier *)
  Definition com_ineq_ctx (g h c : M) (v : K) : bytes :=
    domain Legacy (str "InequalityProof") ++ msg Legacy (str "commitmentKey") (serG Cd g ++ serG Cd h) ++
    msg Legacy (str "public commitment") (serG Cd c) ++ msg Legacy (str "public value") (serF Cd v).
  (** the ComMult statement the verifier derives *)
  Definition com_ineq_stmt (g h c : M) (v : K) (aux : M) : com_mult_stmt M :=
    mkComMult (c + Fopp K v *: g) aux g g h.

  Definition verify_com_ineq (g h c : M) (v : K) (proof : (bytes * K5) * M) : bool :=
    fst (verify H sfb (com_mult_proto Cd) Legacy (com_ineq_ctx g h c v) (com_ineq_stmt g h c v (snd proof)) (fst proof)).

  (** prover: value x with randomness xt; r2 and the ComMult randomness are the RNG draws.
      [diff.inverse()?] fails exactly when x = v. *)
  Definition prove_com_ineq (g h : M) (x xt v : K) (r2 : K) (rnd : K5) : option ((bytes * K5) * M) :=
    let c := x *: g + xt *: h in
    let diff := Fadd K (Fopp K v) x in
    if Feqb K diff (F0 K) then None else
    let dinv := Finv K diff in
    let cmm1 := diff *: g + xt *: h in
    let cmm2 := dinv *: g + r2 *: h in
    match prove H sfb (com_mult_proto Cd) Legacy (com_ineq_ctx g h c v) (mkComMult cmm1 cmm2 g g h)
                (diff, dinv, xt, r2, F0 K) rnd with
    | Some (pi, _) => Some (pi, cmm2)
    | None => None
    end.

  Context {KL : FieldLaws K} {ML : ModLaws M}.
  Add Field Kf_ineq : (@F_th K KL).

  (** completeness: whenever the committed value differs from the public one, the proof is produced and verifies *)
  Theorem com_ineq_complete_ : forall g h x xt v r2 rnd, x <> v ->
    exists proof, prove_com_ineq g h x xt v r2 rnd = Some proof /\
                  verify_com_ineq g h (x *: g + xt *: h) v proof = true.
  Proof.
    intros g h x xt v r2 rnd Hne. unfold prove_com_ineq.
    assert (Hd : Fadd K (Fopp K v) x <> F0 K).
    { intro Z. apply Hne. transitivity (Fadd K v (Fadd K (Fopp K v) x)); [ring | rewrite Z; ring]. }
    destruct (Feqb K (Fadd K (Fopp K v) x) (F0 K)) eqn:E; [apply Feqb_spec in E; contradiction|].
    set (diff := Fadd K (Fopp K v) x) in *. set (s := mkComMult (diff *: g + xt *: h) (Finv K diff *: g + r2 *: h) g g h).
    assert (R : com_mult_rel s (diff, Finv K diff, xt, r2, F0 K)).
    { cbn. repeat split. replace (Fmul K diff (Finv K diff)) with (F1 K) by (field; exact Hd). mod_norm. }
    destruct (prove_verify_complete_ H sfb (com_mult_proto Cd) _ _ (com_mult_complete_ Cd) Legacy
                (com_ineq_ctx g h (x *: g + xt *: h) v) s _ rnd R I) as (pi & st & P & V).
    cbn [p_stmt p_wit p_rand com_mult_proto] in P. rewrite P. eexists. split; [reflexivity|].
    unfold verify_com_ineq. cbn [fst snd].
    replace (com_ineq_stmt g h (x *: g + xt *: h) v (Finv K diff *: g + r2 *: h)) with s; [now rewrite V|].
    unfold com_ineq_stmt, s. f_equal. subst diff. mod_norm.
  Qed.

  (** what an extracted ComMult witness means: an opening of C to x1 + v, and x1 is non-zero unless g
      is a multiple of h (a discrete-log relation between the two bases of the commitment key) *)
  Theorem com_ineq_extracted_witness_ : forall g h c v aux x1 x2 r1 r2 r3,
    com_mult_rel (com_ineq_stmt g h c v aux) (x1, x2, r1, r2, r3) ->
    c = Fadd K x1 v *: g + r1 *: h /\ (x1 = F0 K -> g = r3 *: h).
  Proof.
    intros g h c v aux x1 x2 r1 r2 r3 (H1 & H2 & H3). cbn in H1, H2, H3. split.
    - apply (Gadd_cancel_r (Fopp K v *: g)). rewrite H1. mod_norm.
    - intros ->. rewrite H3 at 1. mod_norm.
  Qed.

  (** the prefix binds key, commitment and public value *)
  Context {CL : CodecLaws Cd}.
  Theorem com_ineq_ctx_injective_ : forall g h c v g' h' c' v' x y,
    com_ineq_ctx g h c v ++ x = com_ineq_ctx g' h' c' v' ++ y -> g = g' /\ h = h' /\ c = c' /\ v = v' /\ x = y.
  Proof.
    intros g h c v g' h' c' v' x y E. unfold com_ineq_ctx in E. rewrite <- !app_assoc in E.
    apply app_inv_head in E. unfold msg at 1 4 in E. rewrite <- !app_assoc in E. apply app_inv_head in E.
    apply (serG_split Cd) in E. destruct E as [-> E]. apply (serG_split Cd) in E. destruct E as [-> E].
    apply (msg_split_G Cd) in E. destruct E as [-> E].
    unfold msg in E. rewrite <- !app_assoc in E. apply app_inv_head in E.
    apply (serF_split Cd) in E. destruct E as [-> ->]. auto.
  Qed.
End ComIneq.
