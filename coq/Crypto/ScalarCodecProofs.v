(** Proofs about the scalar codecs, [scalar_from_bytes] and the [keygen_bls] reduction
    (model: ScalarCodec.v). *)
From Coq Require Import NArith List Lia Arith.
From CB Require Import Crypto.ScalarCodec.
Import ListNotations.
Local Open Scope N_scope.

Definition bytes_ok (bs : list N) : Prop := Forall (fun b => b < 256) bs.

(** * Big-endian *)
Lemma be_val_app bs b : be_val (bs ++ [b]) = be_val bs * 256 + b.
Proof. unfold be_val. rewrite fold_left_app. reflexivity. Qed.

Lemma to_be_length n x : length (to_be n x) = n.
Proof. revert x. induction n as [|n IH]; intros x; cbn [to_be]; [reflexivity|]. rewrite app_length, IH. cbn. lia. Qed.

Lemma to_be_bytes n x : bytes_ok (to_be n x).
Proof.
  revert x. induction n as [|n IH]; intros x; cbn [to_be]; [constructor|].
  apply Forall_app. split; [apply IH|]. constructor; [|constructor]. apply N.mod_lt. lia.
Qed.

Lemma be_val_to_be n x : be_val (to_be n x) = x mod 256 ^ N.of_nat n.
Proof.
  revert x. induction n as [|n IH]; intros x; cbn [to_be].
  - cbn. rewrite N.mod_1_r. reflexivity.
  - rewrite be_val_app, IH.
    replace (N.of_nat (S n)) with (1 + N.of_nat n) by lia. rewrite N.pow_add_r, N.pow_1_r.
    rewrite N.mod_mul_r by (try apply N.pow_nonzero; lia). lia.
Qed.

Lemma to_be_be_val bs : bytes_ok bs -> to_be (length bs) (be_val bs) = bs.
Proof.
  induction bs as [|b bs IH] using rev_ind; intros Hok; [reflexivity|].
  apply Forall_app in Hok. destruct Hok as [Hbs Hb]. inversion Hb as [|? ? Hb256 _]; subst.
  rewrite app_length. cbn [length]. replace (length bs + 1)%nat with (S (length bs)) by lia.
  cbn [to_be]. rewrite be_val_app.
  replace ((be_val bs * 256 + b) / 256) with (be_val bs)
    by (rewrite N.div_add_l by lia; rewrite (N.div_small b) by assumption; lia).
  replace ((be_val bs * 256 + b) mod 256) with b
    by (replace (be_val bs * 256 + b) with (b + be_val bs * 256) by lia; rewrite N.mod_add by lia;
        rewrite N.mod_small by assumption; reflexivity).
  rewrite IH by assumption. reflexivity.
Qed.

(** scalar_codec_canonical: round trip, canonicity, rejection of values >= r *)
Theorem scalar_codec_rt r x : x < r -> r <= 2 ^ 256 -> scalar_decode r (scalar_encode x) = Some x.
Proof.
  intros Hx Hr. unfold scalar_decode, scalar_encode. rewrite to_be_length. cbn [Nat.eqb].
  rewrite be_val_to_be. change (256 ^ N.of_nat 32) with (2 ^ 256). rewrite N.mod_small by lia.
  destruct (N.ltb_spec x r); [reflexivity|lia].
Qed.

Theorem scalar_codec_canon r bs x : bytes_ok bs -> scalar_decode r bs = Some x ->
  bs = scalar_encode x /\ x < r /\ length bs = 32%nat.
Proof.
  intros Hok. unfold scalar_decode, scalar_encode.
  destruct (Nat.eqb_spec (length bs) 32) as [Hlen|]; [|discriminate].
  destruct (N.ltb_spec (be_val bs) r); [|discriminate]. intros [= <-].
  split; [|split; assumption]. rewrite <- Hlen. symmetry. apply to_be_be_val. assumption.
Qed.

Theorem scalar_codec_rejects r bs : r <= be_val bs -> scalar_decode r bs = None.
Proof.
  intros H. unfold scalar_decode. destruct (Nat.eqb (length bs) 32); [|reflexivity].
  destruct (N.ltb_spec (be_val bs) r); [lia|reflexivity].
Qed.

(** * Little-endian *)
Lemma to_le_length n x : length (to_le n x) = n.
Proof. revert x. induction n as [|n IH]; intros x; cbn [to_le length]; [reflexivity|]. rewrite IH. reflexivity. Qed.

Lemma le_val_to_le n x : le_val (to_le n x) = x mod 256 ^ N.of_nat n.
Proof.
  revert x. induction n as [|n IH]; intros x; cbn [to_le le_val].
  - cbn. rewrite N.mod_1_r. reflexivity.
  - rewrite IH. replace (N.of_nat (S n)) with (1 + N.of_nat n) by lia. rewrite N.pow_add_r, N.pow_1_r.
    rewrite N.mod_mul_r by (try apply N.pow_nonzero; lia). lia.
Qed.

Lemma to_le_le_val bs : bytes_ok bs -> to_le (length bs) (le_val bs) = bs.
Proof.
  induction 1 as [|b bs Hb _ IH]; [reflexivity|]. cbn [length to_le le_val].
  replace (b + 256 * le_val bs) with (le_val bs * 256 + b) by lia.
  rewrite N.div_add_l by lia. rewrite (N.div_small b) by assumption. rewrite N.add_0_r.
  replace (le_val bs * 256 + b) with (b + le_val bs * 256) by lia.
  rewrite N.mod_add by lia. rewrite N.mod_small by assumption.
  rewrite IH. reflexivity.
Qed.

Theorem scalar_codec_le_rt r x : x < r -> r <= 2 ^ 256 -> scalar_decode_le r (scalar_encode_le x) = Some x.
Proof.
  intros Hx Hr. unfold scalar_decode_le, scalar_encode_le. rewrite to_le_length. cbn [Nat.eqb].
  rewrite le_val_to_le. change (256 ^ N.of_nat 32) with (2 ^ 256). rewrite N.mod_small by lia.
  destruct (N.ltb_spec x r); [reflexivity|lia].
Qed.

Theorem scalar_codec_le_canon r bs x : bytes_ok bs -> scalar_decode_le r bs = Some x ->
  bs = scalar_encode_le x /\ x < r /\ length bs = 32%nat.
Proof.
  intros Hok. unfold scalar_decode_le, scalar_encode_le.
  destruct (Nat.eqb_spec (length bs) 32) as [Hlen|]; [|discriminate].
  destruct (N.ltb_spec (le_val bs) r); [|discriminate]. intros [= <-].
  split; [|split; assumption]. rewrite <- Hlen. symmetry. apply to_le_le_val. assumption.
Qed.

(** * [scalar_from_bytes] *)
Lemma le_val_split k : forall bs, le_val bs = le_val (firstn k bs) + 256 ^ N.of_nat k * le_val (skipn k bs).
Proof.
  induction k as [|k IH]; intros bs.
  - change (N.of_nat 0) with 0. rewrite N.pow_0_r. cbn [firstn skipn le_val]. lia.
  - destruct bs as [|b bs]; [cbn [firstn skipn le_val]; lia|]. cbn [firstn skipn le_val]. rewrite (IH bs) at 1.
    replace (N.of_nat (S k)) with (1 + N.of_nat k) by lia. rewrite N.pow_add_r, N.pow_1_r. lia.
Qed.

Lemma le_val_bound bs : bytes_ok bs -> le_val bs < 256 ^ N.of_nat (length bs).
Proof.
  induction 1 as [|b bs Hb _ IH]; [cbn; lia|]. cbn [le_val length].
  replace (N.of_nat (S (length bs))) with (1 + N.of_nat (length bs)) by lia. rewrite N.pow_add_r, N.pow_1_r. nia.
Qed.

Lemma bytes_ok_firstn k bs : bytes_ok bs -> bytes_ok (firstn k bs).
Proof.
  unfold bytes_ok. intros H. revert k. induction H as [|b bs Hb _ IH]; intros k.
  - destruct k; constructor.
  - destruct k; cbn [firstn]; constructor; [assumption|apply IH].
Qed.
Lemma bytes_ok_skipn k bs : bytes_ok bs -> bytes_ok (skipn k bs).
Proof.
  unfold bytes_ok. intros H. revert k. induction H as [|b bs Hb Hbs IH]; intros k.
  - destruct k; constructor.
  - destruct k; cbn [skipn]; [constructor; assumption|apply IH].
Qed.

Lemma le_val_firstn_bound k bs : bytes_ok bs -> le_val (firstn k bs) < 256 ^ N.of_nat k.
Proof.
  intros H. eapply N.lt_le_trans; [apply le_val_bound, bytes_ok_firstn, H|].
  apply N.pow_le_mono_r; [lia|]. pose proof (firstn_le_length k bs). lia.
Qed.

Lemma skipn_skipn' {A} a : forall b (l : list A), skipn a (skipn b l) = skipn (b + a) l.
Proof.
  induction b as [|b IH]; intros l; [reflexivity|]. destruct l as [|x l]; cbn [skipn Nat.add].
  - destruct a; reflexivity.
  - apply IH.
Qed.

(** the four 64-bit limbs are the base-2^64 digits of the first 32 bytes *)
Lemma limbs_of_first_32 bs :
  le_val (firstn 32 bs)
  = sfb_limb bs 0 + 2 ^ 64 * (sfb_limb bs 1 + 2 ^ 64 * (sfb_limb bs 2 + 2 ^ 64 * sfb_limb bs 3)).
Proof.
  unfold sfb_limb. cbn [Nat.mul Nat.add]. change (skipn 0 bs) with bs.
  rewrite (le_val_split 8 (firstn 32 bs)). rewrite firstn_firstn. cbn [Nat.min].
  rewrite skipn_firstn_comm. cbn [Nat.sub].
  rewrite (le_val_split 8 (firstn 24 (skipn 8 bs))). rewrite firstn_firstn. cbn [Nat.min].
  rewrite skipn_firstn_comm, skipn_skipn'. cbn [Nat.sub Nat.add].
  rewrite (le_val_split 8 (firstn 16 (skipn 16 bs))). rewrite firstn_firstn. cbn [Nat.min].
  rewrite skipn_firstn_comm, skipn_skipn'. cbn [Nat.sub Nat.add].
  change (256 ^ N.of_nat 8) with (2 ^ 64). reflexivity.
Qed.

(** [scalar_from_bytes] takes exactly the low [256 - remove] bits of the little-endian value of
    the first 32 bytes *)
Lemma scalar_from_bytes_value r remove bs : bytes_ok bs -> remove <= 64 ->
  N.shiftr (2 ^ 64 - 1) remove = N.ones (64 - remove) -> 2 ^ (256 - remove) <= r ->
  scalar_from_bytes r 4 remove bs = Some (le_val (firstn 32 bs) mod 2 ^ (256 - remove)).
Proof.
  intros Hok Hrm Hmask Hr. unfold scalar_from_bytes, sfb_limbs. cbn [seq map Nat.eqb limbs_val_N].
  rewrite Hmask, N.land_ones. rewrite limbs_of_first_32.
  assert (H0 : sfb_limb bs 0 < 2 ^ 64) by (apply (le_val_firstn_bound 8); apply bytes_ok_skipn; assumption).
  assert (H1 : sfb_limb bs 1 < 2 ^ 64) by (apply (le_val_firstn_bound 8); apply bytes_ok_skipn; assumption).
  assert (H2 : sfb_limb bs 2 < 2 ^ 64) by (apply (le_val_firstn_bound 8); apply bytes_ok_skipn; assumption).
  set (l0 := sfb_limb bs 0) in *. set (l1 := sfb_limb bs 1) in *. set (l2 := sfb_limb bs 2) in *.
  set (l3 := sfb_limb bs 3) in *. set (m := 64 - remove).
  assert (E : (l0 + 2 ^ 64 * (l1 + 2 ^ 64 * (l2 + 2 ^ 64 * l3))) mod 2 ^ (256 - remove)
              = l0 + 2 ^ 64 * (l1 + 2 ^ 64 * (l2 + 2 ^ 64 * (l3 mod 2 ^ m + 2 ^ 64 * 0)))).
  { replace (256 - remove) with (192 + m) by (unfold m; lia). rewrite N.pow_add_r.
    set (T := l0 + 2 ^ 64 * (l1 + 2 ^ 64 * l2)).
    assert (HT : T < 2 ^ 192) by (unfold T; change (2 ^ 192) with (2 ^ 64 * (2 ^ 64 * 2 ^ 64)); nia).
    replace (l0 + 2 ^ 64 * (l1 + 2 ^ 64 * (l2 + 2 ^ 64 * l3))) with (T + l3 * 2 ^ 192)
      by (unfold T; change (2 ^ 192) with (2 ^ 64 * (2 ^ 64 * 2 ^ 64)); lia).
    rewrite N.mod_mul_r by (try apply N.pow_nonzero; lia).
    rewrite N.mod_add by lia. rewrite (N.mod_small T) by assumption.
    rewrite N.div_add by lia. rewrite (N.div_small T) by assumption. rewrite N.add_0_l.
    unfold T. change (2 ^ 192) with (2 ^ 64 * (2 ^ 64 * 2 ^ 64)). lia. }
  rewrite <- E.
  assert (Hlt : (l0 + 2 ^ 64 * (l1 + 2 ^ 64 * (l2 + 2 ^ 64 * l3))) mod 2 ^ (256 - remove) < r).
  { eapply N.lt_le_trans; [apply N.mod_lt; apply N.pow_nonzero; lia|assumption]. }
  destruct (N.ltb_spec ((l0 + 2 ^ 64 * (l1 + 2 ^ 64 * (l2 + 2 ^ 64 * l3))) mod 2 ^ (256 - remove)) r); [reflexivity|lia].
Qed.

Theorem bls_scalar_from_bytes_capacity bs : bytes_ok bs ->
  bls_scalar_from_bytes bs = Some (le_val (firstn 32 bs) mod 2 ^ 254).
Proof.
  intros H. unfold bls_scalar_from_bytes. rewrite (scalar_from_bytes_value bls_r 2 bs H); [reflexivity|lia|reflexivity|].
  vm_compute. discriminate.
Qed.

Theorem ed_scalar_from_bytes_capacity bs : bytes_ok bs ->
  ed_scalar_from_bytes bs = Some (le_val (firstn 32 bs) mod 2 ^ 252).
Proof.
  intros H. unfold ed_scalar_from_bytes. rewrite (scalar_from_bytes_value ed_l 4 bs H); [reflexivity|lia|reflexivity|].
  vm_compute. discriminate.
Qed.

(** * [keygen_bls]: the 31/17-byte split computes OS2IP(okm) mod r *)
Lemma le_val_rev bs : le_val (rev bs) = be_val bs.
Proof.
  induction bs as [|b bs IH] using rev_ind; [reflexivity|].
  rewrite rev_app_distr. cbn [rev app le_val]. rewrite be_val_app, IH. lia.
Qed.

Lemma le_val_app_zeros bs k : le_val (bs ++ repeat 0 k) = le_val bs.
Proof.
  induction bs as [|b bs IH]; cbn [app le_val].
  - induction k as [|k IHk]; cbn [repeat le_val]; [reflexivity|]. rewrite IHk. reflexivity.
  - rewrite IH. reflexivity.
Qed.

Lemma bytes_ok_pad32 bs : bytes_ok bs -> bytes_ok (pad32 bs).
Proof.
  unfold bytes_ok. intros H. unfold pad32. apply Forall_app. split; [assumption|].
  apply Forall_forall. intros x Hx. apply repeat_spec in Hx. subst. reflexivity.
Qed.

Theorem keygen_round_os2ip okm : bytes_ok okm -> length okm = 48%nat ->
  keygen_round okm = Some (be_val okm mod bls_r).
Proof.
  intros Hok Hlen. unfold keygen_round.
  assert (Hrev : bytes_ok (rev okm)) by (apply Forall_rev; assumption).
  assert (Hlr : length (rev okm) = 48%nat) by (rewrite rev_length; assumption).
  set (okm' := rev okm) in *.
  assert (H1ok : bytes_ok (firstn 31 okm')) by (apply bytes_ok_firstn; assumption).
  assert (H2ok : bytes_ok (skipn 31 okm')) by (apply bytes_ok_skipn; assumption).
  assert (L1 : length (firstn 31 okm') = 31%nat) by (rewrite firstn_length; lia).
  assert (L2 : length (skipn 31 okm') = 17%nat) by (rewrite skipn_length; lia).
  rewrite !bls_scalar_from_bytes_capacity by (apply bytes_ok_pad32; assumption).
  assert (P1 : firstn 32 (pad32 (firstn 31 okm')) = pad32 (firstn 31 okm')).
  { apply firstn_all2. unfold pad32. rewrite app_length, repeat_length, L1. cbn. lia. }
  assert (P2 : firstn 32 (pad32 (skipn 31 okm')) = pad32 (skipn 31 okm')).
  { apply firstn_all2. unfold pad32. rewrite app_length, repeat_length, L2. cbn. lia. }
  rewrite P1, P2. unfold pad32. rewrite !le_val_app_zeros.
  set (y1 := le_val (firstn 31 okm')). set (y2 := le_val (skipn 31 okm')).
  assert (B1 : y1 < 2 ^ 248).
  { unfold y1. pose proof (le_val_bound _ H1ok) as B. rewrite L1 in B. exact B. }
  assert (B2 : y2 < 2 ^ 136).
  { unfold y2. pose proof (le_val_bound _ H2ok) as B. rewrite L2 in B. exact B. }
  rewrite (N.mod_small y1) by (eapply N.lt_trans; [exact B1|reflexivity]).
  rewrite (N.mod_small y2) by (eapply N.lt_trans; [exact B2|reflexivity]).
  f_equal.
  assert (Hval : be_val okm = y1 + 2 ^ 248 * y2).
  { rewrite <- le_val_rev. fold okm'. rewrite (le_val_split 31 okm'). reflexivity. }
  rewrite Hval.
  assert (Hr : bls_r <> 0) by discriminate.
  rewrite N.add_mod_idemp_r by assumption.
  rewrite (N.mod_small (2 ^ 248) bls_r) by reflexivity.
  f_equal. lia.
Qed.

(** the loop returns only a non-zero scalar, namely OS2IP(okm_i) mod r for the first round [i]
    whose reduction is non-zero *)
Theorem keygen_loop_spec okms : (forall i, bytes_ok (okms i) /\ length (okms i) = 48%nat) ->
  forall fuel start sk, keygen_loop fuel okms start = Some sk ->
  sk <> 0 /\ exists i, (start <= i)%nat /\ sk = be_val (okms i) mod bls_r /\
                       forall j, (start <= j < i)%nat -> be_val (okms j) mod bls_r = 0.
Proof.
  intros Hok. induction fuel as [|fuel IH]; intros start sk H; [discriminate|].
  cbn [keygen_loop] in H. destruct (Hok start) as [Hb Hl].
  rewrite (keygen_round_os2ip _ Hb Hl) in H.
  destruct (N.eqb_spec (be_val (okms start) mod bls_r) 0) as [Hz|Hnz].
  - destruct (IH _ _ H) as (Hne & i & Hi & Hsk & Hall). split; [assumption|].
    exists i. split; [lia|]. split; [assumption|]. intros j Hj.
    destruct (Nat.eq_dec j start) as [->|]; [assumption|]. apply Hall. lia.
  - injection H as <-. split; [assumption|]. exists start. split; [lia|]. split; [reflexivity|]. intros j Hj. lia.
Qed.

(** * Combined statements (used by Props/C20.v) *)
Theorem scalar_codec_canonical_lemma : forall r : N, r <= 2 ^ 256 ->
  (forall x, x < r -> scalar_decode r (scalar_encode x) = Some x) /\
  (forall bs x, bytes_ok bs -> scalar_decode r bs = Some x ->
                bs = scalar_encode x /\ x < r /\ length bs = 32%nat) /\
  (forall bs, r <= be_val bs -> scalar_decode r bs = None).
Proof.
  intros r Hr. split; [intros; apply scalar_codec_rt; assumption|].
  split; [exact (scalar_codec_canon r)|exact (scalar_codec_rejects r)].
Qed.

Theorem scalar_codec_le_canonical_lemma : forall r : N, r <= 2 ^ 256 ->
  (forall x, x < r -> scalar_decode_le r (scalar_encode_le x) = Some x) /\
  (forall bs x, bytes_ok bs -> scalar_decode_le r bs = Some x ->
                bs = scalar_encode_le x /\ x < r /\ length bs = 32%nat).
Proof.
  intros r Hr. split; [intros; apply scalar_codec_le_rt; assumption|exact (scalar_codec_le_canon r)].
Qed.

Theorem scalar_from_bytes_capacity_lemma : forall bs, bytes_ok bs ->
  bls_scalar_from_bytes bs = Some (le_val (firstn 32 bs) mod 2 ^ 254) /\
  ed_scalar_from_bytes bs = Some (le_val (firstn 32 bs) mod 2 ^ 252).
Proof. intros bs H. split; [apply bls_scalar_from_bytes_capacity|apply ed_scalar_from_bytes_capacity]; assumption. Qed.

Theorem keygen_bls_lemma :
  (forall okm, bytes_ok okm -> length okm = 48%nat -> keygen_round okm = Some (be_val okm mod bls_r)) /\
  (forall okms, (forall i, bytes_ok (okms i) /\ length (okms i) = 48%nat) ->
     forall fuel start sk, keygen_loop fuel okms start = Some sk ->
       sk <> 0 /\ exists i, (start <= i)%nat /\ sk = be_val (okms i) mod bls_r /\
                            forall j, (start <= j < i)%nat -> be_val (okms j) mod bls_r = 0).
Proof. split; [exact keygen_round_os2ip|exact keygen_loop_spec]. Qed.
