(** Generic sigma protocols (DESIGN 7.C07).

    Part 1 (algebra): a sigma protocol for a linear map [phi A : F^n -> G^m] given by a public
    matrix [A] of group elements (one row per output); commit [phi A rho]; response
    [rho - c*w] ([RespMinus], most files) or [rho + c*w] ([RespPlus], dlog.rs); the verifier's
    reconstruction [c*y + phi A z] resp. [phi A z - c*y].  Completeness, special soundness,
    injectivity of responses - for all witnesses, randomness, challenges, dimensions (0, 1, n),
    zero scalars, identity points and repeated generators: nothing but the module laws is used.

    Part 2 (Fiat-Shamir): [proto] packages what the Rust trait [SigmaProtocol] provides; [prove] /
    [verify] transcribe sigma_protocols/common.rs over [Transcript.v]; [verify] accepts iff the
    challenge is the hash of the frame (context, public, reconstructed commit message), and accepting
    two different frames with one proof exhibits an explicit collision of [H].

    Part 3: [AndAdapter] and [ReplicateAdapter] as product constructions. *)
From Coq Require Import ZArith NArith List Field Lia Bool String.
From CB Require Import Crypto.Alg Crypto.Transcript Crypto.TranscriptProofs.
Import ListNotations.

Inductive style := RespMinus | RespPlus.

(** * Part 1: the matrix protocol *)
Section Matrix.
  Context {K : FieldOps} {KL : FieldLaws K} {M : ModOps K} {ML : ModLaws M}.
  Add Field Kf_sg : (@F_th K KL).
  Local Open Scope G_scope.

  Definition phi (A : list (list M)) (w : list K) : list M := map (msm w) A.
  Definition m_commit (A : list (list M)) (rho : list K) : list M := phi A rho.
  Definition m_respond (sty : style) (c : K) (w rho : list K) : list K :=
    match sty with
    | RespMinus => vsub rho (vscale c w)
    | RespPlus => vadd rho (vscale c w)
    end.
  Definition m_reconstruct (sty : style) (A : list (list M)) (y : list M) (c : K) (z : list K) : list M :=
    match sty with
    | RespMinus => gvadd (gvscale c y) (phi A z)
    | RespPlus => gvsub (phi A z) (gvscale c y)
    end.
  (** the special-soundness extractor *)
  Definition m_extract (sty : style) (c c' : K) (z z' : list K) : list K :=
    match sty with
    | RespMinus => vscale (Finv K (Fsub K c' c)) (vsub z z')
    | RespPlus => vscale (Finv K (Fsub K c c')) (vsub z z')
    end.

  Lemma map2_map_map {A B C D} (f : B -> C -> D) (g : A -> B) (h : A -> C) (l : list A) :
    map2 f (map g l) (map h l) = map (fun x => f (g x) (h x)) l.
  Proof. induction l; cbn; congruence. Qed.

  Theorem sigma_complete_ : forall sty (A : list (list M)) (w rho : list K) (c : K),
    List.length w = List.length rho ->
    m_reconstruct sty A (phi A w) c (m_respond sty c w rho) = m_commit A rho.
  Proof.
    intros sty A w rho c Hl. unfold m_reconstruct, m_respond, m_commit, phi, gvadd, gvsub, gvscale.
    destruct sty; rewrite map_map, map2_map_map; apply map_ext; intro row.
    - rewrite msm_vsub by (now rewrite vscale_length). rewrite msm_vscale. mod_norm.
    - rewrite msm_vadd by (now rewrite vscale_length). rewrite msm_vscale. mod_norm.
  Qed.

  Lemma smul_inv_cancel (d : K) (a : M) : d <> F0 K -> Finv K d *: (d *: a) = a.
  Proof.
    intro Hd. rewrite <- smul_mul. replace (Fmul K (Finv K d) d) with (F1 K) by (field; exact Hd).
    apply smul_1.
  Qed.

  Theorem sigma_special_sound_ : forall sty (A : list (list M)) (y a : list M) (c c' : K) (z z' : list K),
    c <> c' -> List.length z = List.length z' -> List.length y = List.length A ->
    m_reconstruct sty A y c z = a -> m_reconstruct sty A y c' z' = a ->
    phi A (m_extract sty c c' z z') = y.
  Proof.
    intros sty A y a c c' z z' Hc Hl Hy H1 H2. rewrite <- H2 in H1. clear H2 a.
    revert y Hy H1. unfold m_reconstruct, m_extract, phi, gvadd, gvsub, gvscale.
    induction A as [|row A IH]; intros [|yi y] Hy H1; try discriminate; [reflexivity|].
    cbn [map]. destruct sty; cbn [map map2] in H1; injection H1 as H0 H1; f_equal;
      try (apply IH; [cbn in Hy; lia | exact H1]);
      rewrite msm_vscale, msm_vsub by exact Hl.
    - assert (Hd : Fsub K c' c <> F0 K) by (intro E; apply Hc; symmetry; apply (proj1 (Feqb_spec _ _));
        destruct (Feq_dec c' c) as [->|N]; [apply Feqb_spec; reflexivity| exfalso; apply N;
        transitivity (Fadd K (Fsub K c' c) c); [ring | rewrite E; ring]]).
      rewrite <- (smul_inv_cancel (Fsub K c' c) yi Hd). f_equal.
      assert (E : msm z row = c' *: yi + msm z' row - c *: yi).
      { apply (Gadd_cancel_l (c *: yi)). rewrite H0. mod_norm. }
      rewrite E. mod_norm.
    - assert (Hd : Fsub K c c' <> F0 K) by (intro E; apply Hc;
        transitivity (Fadd K (Fsub K c c') c'); [ring | rewrite E; ring]).
      rewrite <- (smul_inv_cancel (Fsub K c c') yi Hd). f_equal.
      assert (E : msm z row = msm z' row - c' *: yi + c *: yi).
      { apply (Gadd_cancel_r (- (c *: yi))). fold (Gsub M (msm z row) (c *: yi)). rewrite H0. mod_norm. }
      rewrite E. mod_norm.
  Qed.

  Lemma gvadd_cancel_l : forall (y p q : list M), List.length p = List.length y -> List.length q = List.length y ->
    gvadd y p = gvadd y q -> p = q.
  Proof.
    unfold gvadd. induction y as [|a y IH]; intros [|b p] [|d q] Hp Hq E; try discriminate; auto.
    cbn in E. injection E as E0 E. f_equal; [eapply Gadd_cancel_l; eauto | apply IH; cbn in *; auto; lia].
  Qed.
  Lemma gvsub_cancel_r : forall (y p q : list M), List.length p = List.length y -> List.length q = List.length y ->
    gvsub p y = gvsub q y -> p = q.
  Proof.
    unfold gvsub. induction y as [|a y IH]; intros [|b p] [|d q] Hp Hq E; try discriminate; auto.
    cbn in E. injection E as E0 E. f_equal; [eapply Gadd_cancel_r; eauto | apply IH; cbn in *; auto; lia].
  Qed.

  (** if [phi A] is injective on vectors of List.length [n], a reconstructed commitment determines the
      response: no second response is accepted with the same commitment and challenge *)
  Theorem response_injective_ : forall sty (A : list (list M)) (y : list M) (c : K) (z z' : list K) (n : nat),
    (forall u v, List.length u = n -> List.length v = n -> phi A u = phi A v -> u = v) ->
    List.length z = n -> List.length z' = n -> List.length y = List.length A ->
    m_reconstruct sty A y c z = m_reconstruct sty A y c z' -> z = z'.
  Proof.
    intros sty A y c z z' n Hinj Hz Hz' Hy E. apply Hinj; auto.
    unfold m_reconstruct in E. destruct sty.
    - eapply gvadd_cancel_l; [| |exact E]; unfold gvscale, phi; now rewrite !map_length.
    - eapply gvsub_cancel_r; [| |exact E]; unfold gvscale, phi; now rewrite !map_length.
  Qed.

  (** when [phi A] is not injective (here: the only base is the identity point) two different
      responses reconstruct the same commitment: the hypothesis of [response_injective_] is a genuine
      precondition on the statement, not an artefact *)
  Example response_not_injective_degenerate : forall sty (y : M) (c : K),
    [F0 K] <> [F1 K] /\
    m_reconstruct sty [[G0 M]] [y] c [F0 K] = m_reconstruct sty [[G0 M]] [y] c [F1 K].
  Proof.
    intros sty y c. split.
    - intro E. injection E as E. apply F1_neq_0. now symmetry.
    - destruct sty; cbn; f_equal; mod_norm.
  Qed.
End Matrix.

(** * Part 2: the trait [SigmaProtocol], [prove] and [verify] *)
Record proto (K : FieldOps) : Type := mkProto {
  p_stmt : Type;   (* Self: the public values *)
  p_wit : Type;    (* SecretData *)
  p_rand : Type;   (* ProverState = the randomness drawn by compute_commit_message *)
  p_cm : Type;     (* CommitMessage *)
  p_resp : Type;   (* Response *)
  p_public : tkind -> p_stmt -> bytes;
  p_commit : p_stmt -> p_rand -> option p_cm;
  p_respond : p_stmt -> p_wit -> p_rand -> K -> option p_resp;
  p_extract : p_stmt -> K -> p_resp -> option p_cm;
  p_ser_cm : p_cm -> bytes;
  p_ser_resp : p_resp -> bytes }.
Arguments p_stmt {K} _. Arguments p_wit {K} _. Arguments p_rand {K} _. Arguments p_cm {K} _.
Arguments p_resp {K} _. Arguments p_public {K} _ _ _. Arguments p_commit {K} _ _ _.
Arguments p_respond {K} _ _ _ _ _. Arguments p_extract {K} _ _ _ _. Arguments p_ser_cm {K} _ _.
Arguments p_ser_resp {K} _ _.

Definition bytes_eqb (a b : bytes) : bool := list_eqb N.eqb a b.
Lemma bytes_eqb_spec : forall a b, bytes_eqb a b = true <-> a = b.
Proof.
  unfold bytes_eqb. induction a as [|x a IH]; intros [|y b]; cbn; split; intro E; try discriminate; auto.
  - apply andb_prop in E. destruct E as [E1 E2]. apply N.eqb_eq in E1. apply IH in E2. congruence.
  - injection E as -> ->. rewrite N.eqb_refl. cbn. now apply IH.
Qed.
Lemma bytes_eq_dec (a b : bytes) : {a = b} + {a <> b}.
Proof. apply list_eq_dec, N.eq_dec. Qed.

Section FiatShamir.
  Context {K : FieldOps}.
  Variable H : bytes -> bytes.             (* SHA3-256 *)
  Variable sfb : bytes -> K.               (* Curve::scalar_from_bytes *)
  Variable P : proto K.

  (** the bytes hashed into the challenge: context, [public], then the commit message under the
      label "point" *)
  Definition frame (k : tkind) (ctx : bytes) (s : p_stmt P) (a : p_cm P) : bytes :=
    ctx ++ p_public P k s ++ msg k (str "point") (p_ser_cm P a).
  (** the transcript after the proof (V1 also absorbs the response) *)
  Definition after (k : tkind) (ctx : bytes) (s : p_stmt P) (a : p_cm P) (z : p_resp P) : bytes :=
    frame k ctx s a ++ final_msg k (str "response") (p_ser_resp P z).

  (** common.rs [prove]: the RNG is the explicit randomness [r] *)
  Definition prove (k : tkind) (ctx : bytes) (s : p_stmt P) (w : p_wit P) (r : p_rand P)
    : option ((bytes * p_resp P) * bytes) :=
    match p_commit P s r with
    | None => None
    | Some a =>
      let ch := H (frame k ctx s a) in
      match p_respond P s w r (sfb ch) with
      | None => None
      | Some z => Some ((ch, z), after k ctx s a z)
      end
    end.

  (** common.rs [verify]: result and the transcript state afterwards *)
  Definition verify (k : tkind) (ctx : bytes) (s : p_stmt P) (pi : bytes * p_resp P) : bool * bytes :=
    match p_extract P s (sfb (fst pi)) (snd pi) with
    | None => (false, ctx)
    | Some a => (bytes_eqb (H (frame k ctx s a)) (fst pi), after k ctx s a (snd pi))
    end.

  (** algebraic completeness / special soundness of a [proto] *)
  Definition complete (rel : p_stmt P -> p_wit P -> Prop) (rok : p_stmt P -> p_rand P -> Prop) : Prop :=
    forall s w r, rel s w -> rok s r ->
      exists a, p_commit P s r = Some a /\
        forall c, exists z, p_respond P s w r c = Some z /\ p_extract P s c z = Some a.
  Definition special_sound (rel : p_stmt P -> p_wit P -> Prop)
      (ex : p_stmt P -> K -> K -> p_resp P -> p_resp P -> p_wit P) : Prop :=
    forall s a c c' z z', c <> c' ->
      p_extract P s c z = Some a -> p_extract P s c' z' = Some a -> rel s (ex s c c' z z').

  (** an honest proof verifies, under the same context, for every transcript prefix, and prover and
      verifier end in the same transcript state *)
  Theorem prove_verify_complete_ : forall rel rok, complete rel rok ->
    forall k ctx s w r, rel s w -> rok s r ->
      exists pi st, prove k ctx s w r = Some (pi, st) /\ verify k ctx s pi = (true, st).
  Proof.
    intros rel rok Hc k ctx s w r Hrel Hrok.
    destruct (Hc s w r Hrel Hrok) as (a & Ha & Hz).
    destruct (Hz (sfb (H (frame k ctx s a)))) as (z & Hz1 & Hz2).
    exists (H (frame k ctx s a), z), (after k ctx s a z). unfold prove, verify. cbn [fst snd].
    rewrite Ha, Hz1, Hz2. split; [reflexivity|]. f_equal. now apply bytes_eqb_spec.
  Qed.

  (** [verify] accepts exactly when the challenge is the hash of the frame built from the
      reconstructed commit message *)
  Theorem verify_binds_transcript_ : forall k ctx s ch z,
    fst (verify k ctx s (ch, z)) = true <->
    exists a, p_extract P s (sfb ch) z = Some a /\ ch = H (frame k ctx s a).
  Proof.
    intros k ctx s ch z. unfold verify. cbn [fst snd].
    destruct (p_extract P s (sfb ch) z) as [a|]; cbn [fst].
    - rewrite bytes_eqb_spec. split.
      + intro E. exists a. auto.
      + intros (a' & Ha & E). injection Ha as <-. auto.
    - split; [discriminate | intros (a & Ha & _); discriminate].
  Qed.

  (** one proof accepted for two (context, statement) pairs: either the two hashed frames are the
      same byte string, or they are an explicit collision of [H] *)
  Theorem verify_two_frames_ : forall k ctx s k' ctx' s' pi,
    fst (verify k ctx s pi) = true -> fst (verify k' ctx' s' pi) = true ->
    exists a a', p_extract P s (sfb (fst pi)) (snd pi) = Some a /\
                 p_extract P s' (sfb (fst pi)) (snd pi) = Some a' /\
      (frame k ctx s a = frame k' ctx' s' a' \/
       (frame k ctx s a <> frame k' ctx' s' a' /\ H (frame k ctx s a) = H (frame k' ctx' s' a'))).
  Proof.
    intros k ctx s k' ctx' s' [ch z] V1 V2.
    apply verify_binds_transcript_ in V1. apply verify_binds_transcript_ in V2.
    destruct V1 as (a & Ha & E1). destruct V2 as (a' & Ha' & E2). exists a, a'. cbn [fst snd].
    repeat split; auto.
    destruct (bytes_eq_dec (frame k ctx s a) (frame k' ctx' s' a')); [left; auto|right; split; congruence].
  Qed.

  (** [public] is a prefix-free encoding of the (well-formed) statement: it covers every field *)
  Definition public_prefix_free (k : tkind) (ok : p_stmt P -> Prop) : Prop :=
    forall s s' x y, ok s -> ok s' -> p_public P k s ++ x = p_public P k s' ++ y -> s = s' /\ x = y.
  Definition public_covers_statement (k : tkind) (ok : p_stmt P -> Prop) : Prop :=
    forall s s', ok s -> ok s' -> p_public P k s = p_public P k s' -> s = s'.
  Lemma prefix_free_covers k ok : public_prefix_free k ok -> public_covers_statement k ok.
  Proof.
    intros Hp s s' Hs Hs' E. apply (Hp s s' [] []); auto. now rewrite !app_nil_r.
  Qed.

  (** statement binding: one proof accepted for two different statements under the same context
      yields an explicit collision *)
  Theorem statement_binding_ : forall k ok, public_prefix_free k ok ->
    forall ctx s s' pi, ok s -> ok s' -> s <> s' ->
    fst (verify k ctx s pi) = true -> fst (verify k ctx s' pi) = true ->
    exists x x', x <> x' /\ H x = H x'.
  Proof.
    intros k ok Hpf ctx s s' pi Hs Hs' Hne V1 V2.
    destruct (verify_two_frames_ _ _ _ _ _ _ _ V1 V2) as (a & a' & _ & _ & [E|[N E]]).
    - exfalso. apply Hne. unfold frame in E. apply app_inv_head in E.
      now destruct (Hpf _ _ _ _ Hs Hs' E).
    - eauto.
  Qed.

  (** context binding: one proof accepted under two different contexts of the same List.length (for any
      statements) yields an explicit collision *)
  Theorem context_binding_ : forall k ctx ctx' s s' pi,
    List.length ctx = List.length ctx' -> ctx <> ctx' ->
    fst (verify k ctx s pi) = true -> fst (verify k ctx' s' pi) = true ->
    exists x x', x <> x' /\ H x = H x'.
  Proof.
    intros k ctx ctx' s s' pi Hl Hne V1 V2.
    destruct (verify_two_frames_ _ _ _ _ _ _ _ V1 V2) as (a & a' & _ & _ & [E|[N E]]).
    - exfalso. apply Hne. unfold frame in E. now apply app_eq_len in E.
    - eauto.
  Qed.

  (** context binding for V1 contexts that are sequences of labelled messages of a prefix-free
      schema which also describes this protocol's own frame: different message sequences never give
      the same frame (no List.length hypothesis) *)
  Theorem context_binding_v1_ : forall sch, schema_prefix_free sch ->
    forall (ms ms' tail tail' : list lmsg) s s' a a',
    Forall (conforms sch) (ms ++ tail) -> Forall (conforms sch) (ms' ++ tail') ->
    p_public P V1 s ++ msg V1 (str "point") (p_ser_cm P a) = enc_lmsgs V1 tail ->
    p_public P V1 s' ++ msg V1 (str "point") (p_ser_cm P a') = enc_lmsgs V1 tail' ->
    frame V1 (enc_lmsgs V1 ms) s a = frame V1 (enc_lmsgs V1 ms') s' a' ->
    ms ++ tail = ms' ++ tail'.
  Proof.
    intros sch Hpf ms ms' tl tl' s s' a a' Hc Hc' E1 E2 E. unfold frame in E.
    rewrite E1, E2 in E. unfold enc_lmsgs in *. rewrite <- !concat_app, <- !map_app in E.
    eapply frame_v1_messages_injective_; eauto.
  Qed.
End FiatShamir.

(** * Part 3: adapters *)
Section Adapters.
  Context {K : FieldOps}.

  Definition opt_pair {A B} (a : option A) (b : option B) : option (A * B) :=
    match a, b with Some x, Some y => Some (x, y) | _, _ => None end.

  (** [AndAdapter]: both sub-protocols see the same challenge *)
  Definition and_proto (P1 P2 : proto K) : proto K := {|
    p_stmt := p_stmt P1 * p_stmt P2;
    p_wit := p_wit P1 * p_wit P2;
    p_rand := p_rand P1 * p_rand P2;
    p_cm := p_cm P1 * p_cm P2;
    p_resp := p_resp P1 * p_resp P2;
    p_public := fun k s => p_public P1 k (fst s) ++ p_public P2 k (snd s);
    p_commit := fun s r => opt_pair (p_commit P1 (fst s) (fst r)) (p_commit P2 (snd s) (snd r));
    p_respond := fun s w r c =>
      opt_pair (p_respond P1 (fst s) (fst w) (fst r) c) (p_respond P2 (snd s) (snd w) (snd r) c);
    p_extract := fun s c z => opt_pair (p_extract P1 (fst s) c (fst z)) (p_extract P2 (snd s) c (snd z));
    p_ser_cm := fun a => p_ser_cm P1 (fst a) ++ p_ser_cm P2 (snd a);
    p_ser_resp := fun z => p_ser_resp P1 (fst z) ++ p_ser_resp P2 (snd z) |}.

  Definition prod_rel {A B C D} (r1 : A -> B -> Prop) (r2 : C -> D -> Prop) (s : A * C) (w : B * D) : Prop :=
    r1 (fst s) (fst w) /\ r2 (snd s) (snd w).

  Theorem and_complete_ : forall (P1 P2 : proto K) rel1 rok1 rel2 rok2,
    complete P1 rel1 rok1 -> complete P2 rel2 rok2 ->
    complete (and_proto P1 P2) (prod_rel rel1 rel2) (prod_rel rok1 rok2).
  Proof.
    intros P1 P2 rel1 rok1 rel2 rok2 C1 C2 [s1 s2] [w1 w2] [r1 r2] [R1 R2] [O1 O2]. cbn in *.
    destruct (C1 s1 w1 r1 R1 O1) as (a1 & Ha1 & Z1). destruct (C2 s2 w2 r2 R2 O2) as (a2 & Ha2 & Z2).
    exists (a1, a2). cbn. rewrite Ha1, Ha2. split; [reflexivity|]. intro c.
    destruct (Z1 c) as (z1 & Hz1 & He1). destruct (Z2 c) as (z2 & Hz2 & He2).
    exists (z1, z2). cbn. now rewrite Hz1, Hz2, He1, He2.
  Qed.

  Theorem and_special_sound_ : forall (P1 P2 : proto K) rel1 ex1 rel2 ex2,
    special_sound P1 rel1 ex1 -> special_sound P2 rel2 ex2 ->
    special_sound (and_proto P1 P2) (prod_rel rel1 rel2)
      (fun s c c' z z' => (ex1 (fst s) c c' (fst z) (fst z'), ex2 (snd s) c c' (snd z) (snd z'))).
  Proof.
    intros P1 P2 rel1 ex1 rel2 ex2 S1 S2 [s1 s2] [a1 a2] c c' [z1 z2] [z1' z2'] Hc E E'. cbn in *.
    destruct (p_extract P1 s1 c z1) eqn:X1, (p_extract P2 s2 c z2) eqn:X2; try discriminate.
    destruct (p_extract P1 s1 c' z1') eqn:X1', (p_extract P2 s2 c' z2') eqn:X2'; try discriminate.
    cbn in E, E'. injection E as -> ->. injection E' as -> ->. split; cbn; eauto.
  Qed.

  (** the AND adapter binds *both* statements: its [public] is prefix free when the parts are *)
  Theorem and_public_prefix_free_ : forall (P1 P2 : proto K) k ok1 ok2,
    public_prefix_free P1 k ok1 -> public_prefix_free P2 k ok2 ->
    public_prefix_free (and_proto P1 P2) k (fun s => ok1 (fst s) /\ ok2 (snd s)).
  Proof.
    intros P1 P2 k ok1 ok2 F1 F2 [s1 s2] [s1' s2'] x y [O1 O2] [O1' O2'] E. cbn in *.
    rewrite <- !app_assoc in E. destruct (F1 _ _ _ _ O1 O1' E) as [-> E'].
    destruct (F2 _ _ _ _ O2 O2' E') as [-> ->]. auto.
  Qed.

  (** [ReplicateAdapter]: a list of instances of one protocol under one challenge.
      [get_challenge] takes the first protocol and panics on an empty list (documented
      precondition "assumed to be non-empty"): an empty list is [None] here. *)
  Fixpoint opt_all {A} (l : list (option A)) : option (list A) :=
    match l with
    | [] => Some []
    | Some x :: l' => match opt_all l' with Some xs => Some (x :: xs) | None => None end
    | None :: _ => None
    end.
  Fixpoint map3 {A B C D} (f : A -> B -> C -> D) (xs : list A) (ys : list B) (zs : list C) : list D :=
    match xs, ys, zs with
    | x :: xs', y :: ys', z :: zs' => f x y z :: map3 f xs' ys' zs'
    | _, _, _ => []
    end.
  Definition rep_proto (P : proto K) : proto K := {|
    p_stmt := list (p_stmt P);
    p_wit := list (p_wit P);
    p_rand := list (p_rand P);
    p_cm := list (p_cm P);
    p_resp := list (p_resp P);
    p_public := fun k ss => each k [] (p_public P k) ss;
    p_commit := fun ss rs =>
      if Nat.eqb (List.length ss) 0 then None else opt_all (map2 (p_commit P) ss rs);
    p_respond := fun ss ws rs c =>
      if negb (Nat.eqb (List.length ws) (List.length ss)) || negb (Nat.eqb (List.length rs) (List.length ss))
      then None else opt_all (map3 (fun s w r => p_respond P s w r c) ss ws rs);
    p_extract := fun ss c zs =>
      if Nat.eqb (List.length ss) 0 then None else
      if negb (Nat.eqb (List.length zs) (List.length ss)) then None
      else opt_all (map2 (fun s z => p_extract P s c z) ss zs);
    p_ser_cm := fun a => ser_vec32 (map (p_ser_cm P) a);
    p_ser_resp := fun z => ser_vec32 (map (p_ser_resp P) z) |}.

  Definition rep_rel {A B} (r : A -> B -> Prop) (ss : list A) (ws : list B) : Prop :=
    ss <> [] /\ Forall2 r ss ws.
  Definition rep_rok {A B} (r : A -> B -> Prop) (ss : list A) (rs : list B) : Prop := Forall2 r ss rs.

  Lemma Forall2_len {A B} (R : A -> B -> Prop) l l' : Forall2 R l l' -> List.length l = List.length l'.
  Proof. induction 1; cbn; auto. Qed.

  Lemma rep_complete_aux (P : proto K) rel rok : complete P rel rok ->
    forall ss ws, Forall2 rel ss ws -> forall rs, Forall2 rok ss rs ->
    exists az, opt_all (map2 (p_commit P) ss rs) = Some az /\
      forall c, exists zs, opt_all (map3 (fun s w r => p_respond P s w r c) ss ws rs) = Some zs /\
        opt_all (map2 (fun s z => p_extract P s c z) ss zs) = Some az /\ List.length zs = List.length ss.
  Proof.
    intros C ss ws R. induction R as [|s w ss ws Hr R IH]; intros rs O; inversion O as [|? r ? rs' Ho O']; subst.
    - exists []. split; [reflexivity|]. intro c. exists []. repeat split; reflexivity.
    - destruct (C s w r Hr Ho) as (a & Ha & Z). destruct (IH rs' O') as (az & Haz & Zs).
      exists (a :: az). cbn. rewrite Ha, Haz. split; [reflexivity|]. intro c.
      destruct (Z c) as (z & Hz & He). destruct (Zs c) as (zs & Hzs & Hes & Hl). exists (z :: zs).
      cbn. rewrite Hz, He, Hzs, Hes, Hl. auto.
  Qed.

  Theorem rep_complete_ : forall (P : proto K) rel rok,
    complete P rel rok -> complete (rep_proto P) (rep_rel rel) (rep_rok rok).
  Proof.
    intros P rel rok C ss ws rs [Hne R] O.
    assert (Hn : Nat.eqb (List.length ss) 0 = false) by (destruct ss; [congruence|reflexivity]).
    destruct (rep_complete_aux P rel rok C ss ws R rs O) as (az & Haz & Zs).
    exists az. cbn. rewrite Hn. split; [exact Haz|]. intro c.
    destruct (Zs c) as (zs & Hzs & Hes & Hl). exists zs.
    rewrite <- (Forall2_len _ _ _ R), <- (Forall2_len _ _ _ O), Hl, !Nat.eqb_refl. cbn [negb orb]. auto.
  Qed.

  (** the replicate adapter (V1 framing: label, 8-byte count, then each [public]) binds the number of
      instances and every instance *)
  Theorem rep_public_prefix_free_v1_ : forall (P : proto K) ok,
    public_prefix_free P V1 ok ->
    public_prefix_free (rep_proto P) V1
      (fun ss => (N.of_nat (List.length ss) < W64)%N /\ Forall ok ss).
  Proof.
    intros P ok F ss ss' x y [L O] [L' O'] E. cbn [rep_proto p_public] in E. unfold each in E.
    rewrite <- !app_assoc in E. apply app_inv_head in E. cbn [cnt] in E.
    apply app_eq_len in E; [|now rewrite !be64_length]. destruct E as [E1 E].
    apply be64_inj in E1; auto. apply Nat2N.inj in E1.
    clear L L'. revert ss' O' E1 E. induction O as [|s ss Hs O IH]; intros [|s' ss'] O' E1 E; try discriminate.
    - cbn in E. auto.
    - inversion O'; subst. cbn [map List.concat] in E. rewrite <- !app_assoc in E.
      destruct (F _ _ _ _ Hs H1 E) as [-> E'].
      destruct (IH ss' H2) as [-> ->]; auto.
  Qed.
End Adapters.

(** the replicate adapter among lists of ONE length (any framing; the legacy oracle writes no count) *)
Theorem rep_public_prefix_free_fixed_size_ : forall {K : FieldOps} (P : proto K) k ok n,
  public_prefix_free P k ok ->
  public_prefix_free (rep_proto P) k (fun ss => List.length ss = n /\ Forall ok ss).
Proof.
  intros K P k ok n F ss ss' x y [L O] [L' O'] E. cbn [rep_proto p_public] in E. unfold each in E.
  rewrite <- !app_assoc in E. apply app_inv_head in E. rewrite L, L' in E. apply app_inv_head in E.
  assert (E1 : List.length ss = List.length ss') by congruence.
  clear L L'. revert ss' O' E1 E. induction O as [|s ss Hs O IH]; intros [|s' ss'] O' E1 E; try discriminate.
  - cbn in E. auto.
  - inversion O'; subst. cbn [map List.concat] in E. rewrite <- !app_assoc in E.
    destruct (F _ _ _ _ Hs H1 E) as [-> E'].
    destruct (IH ss' H2) as [-> ->]; auto.
Qed.

(** a replicated proof whose response list has the wrong length is rejected *)
Theorem rep_extract_length_ : forall {K : FieldOps} (P : proto K) ss c zs a,
  p_extract (rep_proto P) ss c zs = Some a -> List.length zs = List.length ss.
Proof.
  intros K P ss c zs a. cbn. destruct (Nat.eqb (List.length ss) 0); [discriminate|].
  destruct (Nat.eqb (List.length zs) (List.length ss)) eqn:E; [|discriminate]. intros _. now apply Nat.eqb_eq.
Qed.

(** one verification equation, two challenges: the public value is determined (row-wise special
    soundness, used by instances that are not presented as one matrix) *)
Section Rows.
  Context {K : FieldOps} {KL : FieldLaws K} {M : ModOps K} {ML : ModLaws M}.
  Add Field Kf_rows : (@F_th K KL).
  Local Open Scope G_scope.
  Lemma sub_neq_0 (c c' : K) : c <> c' -> Fsub K c' c <> F0 K.
  Proof. intros Hc Z. apply Hc. transitivity (Fsub K c' (Fsub K c' c)); [ring | rewrite Z; ring]. Qed.
  Lemma ss_row_l (c c' : K) (y a a' : M) : c <> c' -> c *: y + a = c' *: y + a' ->
    y = Finv K (Fsub K c' c) *: (a - a').
  Proof.
    intros Hc E. rewrite <- (smul_inv_cancel (Fsub K c' c) y (sub_neq_0 c c' Hc)) at 1. f_equal.
    assert (Ea : a = c' *: y + a' - c *: y) by (apply (Gadd_cancel_l (c *: y)); rewrite E; mod_norm).
    rewrite Ea. mod_norm.
  Qed.
  Lemma ss_row_r (c c' : K) (y a a' : M) : c <> c' -> a + c *: y = a' + c' *: y ->
    y = Finv K (Fsub K c' c) *: (a - a').
  Proof. rewrite !(Gadd_comm _ (_ *: y)). apply ss_row_l. Qed.
End Rows.

(** Context binding under the V1 framing for contexts of ANY (also different) lengths: if contexts
    are sequences of labelled messages of a prefix-free schema, and every frame of the protocol is a
    sequence of [n] messages of the same schema, then one proof accepted under two different contexts
    yields an explicit collision. *)
Section ContextV1.
  Context {K : FieldOps}.
  Variable H : bytes -> bytes.
  Variable sfb : bytes -> K.
  Variable P : proto K.
  Definition frame_is_messages (sch : schema) (n : nat) : Prop :=
    forall s a, exists tail, Forall (conforms sch) tail /\ List.length tail = n /\
      p_public P V1 s ++ msg V1 (str "point") (p_ser_cm P a) = enc_lmsgs V1 tail.

  Theorem context_binding_v1_any_length_ : forall sch n, schema_prefix_free sch -> frame_is_messages sch n ->
    forall (ms ms' : list lmsg) s s' pi,
    Forall (conforms sch) ms -> Forall (conforms sch) ms' -> ms <> ms' ->
    fst (verify H sfb P V1 (enc_lmsgs V1 ms) s pi) = true ->
    fst (verify H sfb P V1 (enc_lmsgs V1 ms') s' pi) = true ->
    exists x x', x <> x' /\ H x = H x'.
  Proof.
    intros sch n Hpf Hfr ms ms' s s' pi C C' Hne V1 V2.
    destruct (verify_two_frames_ H sfb P _ _ _ _ _ _ _ V1 V2) as (a & a' & _ & _ & [E|[N E]]); [|eauto].
    exfalso. apply Hne.
    destruct (Hfr s a) as (tl & Ct & Lt & Et). destruct (Hfr s' a') as (tl' & Ct' & Lt' & Et').
    assert (Q : ms ++ tl = ms' ++ tl').
    { eapply (context_binding_v1_ P sch Hpf ms ms' tl tl' s s' a a'); eauto; apply Forall_app; auto. }
    assert (Lm : List.length ms = List.length ms').
    { apply (f_equal (@List.length _)) in Q. rewrite !app_length in Q. lia. }
    now apply app_eq_len in Q.
  Qed.
End ContextV1.

(** ... in both directions: too short AND too long (a surplus response is not silently dropped) *)
Theorem rep_extract_wrong_length_none_ : forall {K : FieldOps} (P : proto K) ss c zs,
  List.length zs <> List.length ss -> p_extract (rep_proto P) ss c zs = None.
Proof.
  intros K P ss c zs Hne. destruct (p_extract (rep_proto P) ss c zs) eqn:E; [|reflexivity].
  exfalso. apply Hne. eapply rep_extract_length_; eauto.
Qed.
