(** Proofs about the wNAF recoding and evaluation of [GenericMultiExp] (model: Wnaf.v). *)
From Coq Require Import ZArith List Lia Bool.
From CB Require Import Crypto.Wnaf.
Import ListNotations.
Local Open Scope Z_scope.

(** * Limb vectors *)

Definition wf_limbs (ls : list Z) : Prop := Forall (fun l => 0 <= l < W64) ls.

Lemma W64_pos : 0 < W64. Proof. reflexivity. Qed.
Lemma W64_eq : W64 = 2 ^ 64. Proof. reflexivity. Qed.

Lemma limbs_val_bound ls : wf_limbs ls -> 0 <= limbs_val ls < 2 ^ (64 * Z.of_nat (length ls)).
Proof.
  induction 1 as [|l ls Hl _ IH]; cbn [limbs_val length].
  - cbn. lia.
  - replace (64 * Z.of_nat (S (length ls))) with (64 + 64 * Z.of_nat (length ls)) by lia.
    rewrite Z.pow_add_r by lia. fold W64. rewrite W64_eq in *. nia.
Qed.

Lemma limb_nil i : limb [] i = 0.
Proof. unfold limb. destruct (Z.to_nat i); reflexivity. Qed.

(** [limb ls i] is the [i]-th base-2^64 digit of [limbs_val ls] (0 beyond the end). *)
Lemma limb_spec ls : wf_limbs ls -> forall i, 0 <= i ->
  limb ls i = (limbs_val ls / 2 ^ (64 * i)) mod 2 ^ 64.
Proof.
  induction 1 as [|l ls Hl Hls IH]; intros i Hi.
  - rewrite limb_nil. cbn [limbs_val]. rewrite Z.div_0_l by (apply Z.pow_nonzero; lia). reflexivity.
  - cbn [limbs_val]. destruct (Z.eq_dec i 0) as [->|Hne].
    + unfold limb. cbn [Z.to_nat nth]. rewrite Z.mul_0_r, Z.pow_0_r, Z.div_1_r.
      rewrite W64_eq in *. replace (l + 2 ^ 64 * limbs_val ls) with (l + limbs_val ls * 2 ^ 64) by lia.
      rewrite Z.mod_add by lia. rewrite Z.mod_small; [reflexivity|lia].
    + unfold limb. replace (Z.to_nat i) with (S (Z.to_nat (i - 1))) by lia. cbn [nth].
      change (nth (Z.to_nat (i - 1)) ls 0) with (limb ls (i - 1)). rewrite IH by lia.
      replace (64 * i) with (64 + 64 * (i - 1)) by lia. rewrite Z.pow_add_r by lia.
      rewrite <- Z.div_div by (try apply Z.pow_pos_nonneg; lia).
      f_equal. f_equal. rewrite W64_eq in *.
      replace (l + 2 ^ 64 * limbs_val ls) with (limbs_val ls * 2 ^ 64 + l) by lia.
      rewrite Z.div_add_l by lia. rewrite (Z.div_small l) by lia. lia.
Qed.

Lemma limb_testbit ls i k : wf_limbs ls -> 0 <= i -> 0 <= k ->
  Z.testbit (limb ls i) k = if k <? 64 then Z.testbit (limbs_val ls) (64 * i + k) else false.
Proof.
  intros Hwf Hi Hk. rewrite (limb_spec ls Hwf i Hi).
  destruct (Z.ltb_spec k 64).
  - rewrite Z.mod_pow2_bits_low by lia. rewrite Z.div_pow2_bits by lia. f_equal. lia.
  - apply Z.mod_pow2_bits_high. lia.
Qed.

(** The window assembled by the code holds the bits [pos .. pos+w1) of the scalar. *)
Lemma bit_buf_testbit w1 ls pos n : wf_limbs ls -> 0 <= pos -> 0 < w1 < 64 -> 0 <= n < w1 ->
  Z.testbit (bit_buf w1 ls pos) n = Z.testbit (limbs_val ls) (pos + n).
Proof.
  intros Hwf Hpos Hw Hn. unfold bit_buf.
  assert (Hq : 0 <= pos / 64) by (apply Z.div_pos; lia).
  assert (Hb : 0 <= pos mod 64 < 64) by (apply Z.mod_pos_bound; lia).
  assert (Hdm : pos = 64 * (pos / 64) + pos mod 64) by (apply Z.div_mod; lia).
  set (q := pos / 64) in *. set (b := pos mod 64) in *.
  destruct (Z.ltb_spec (b + w1) 64).
  - unfold shr64. rewrite Z.shiftr_spec by lia. rewrite limb_testbit by (assumption || lia).
    destruct (Z.ltb_spec (n + b) 64); [|lia]. f_equal. lia.
  - rewrite Z.lor_spec. unfold shr64, shl64. rewrite Z.shiftr_spec by lia.
    rewrite limb_testbit by (assumption || lia). rewrite W64_eq, Z.mod_pow2_bits_low by lia.
    rewrite Z.shiftl_spec by lia.
    destruct (Z.ltb_spec (n + b) 64).
    + rewrite (Z.testbit_neg_r (limb ls (q + 1))) by lia. rewrite orb_false_r. f_equal. lia.
    + cbn [orb]. rewrite limb_testbit by (assumption || lia). destruct (Z.ltb_spec (n - (64 - b)) 64); [|lia]. f_equal. lia.
Qed.

Lemma window_val_spec w1 ls pos carry : wf_limbs ls -> 0 <= pos -> 0 < w1 < 64 ->
  window_val w1 ls pos carry = carry + (limbs_val ls / 2 ^ pos) mod 2 ^ w1.
Proof.
  intros Hwf Hpos Hw. unfold window_val. f_equal.
  replace (2 ^ w1 - 1) with (Z.ones w1) by (rewrite Z.ones_equiv; lia).
  rewrite Z.land_ones by lia.
  apply Z.bits_inj'. intros n Hn.
  destruct (Z.ltb_spec n w1).
  - rewrite !Z.mod_pow2_bits_low by lia. rewrite Z.div_pow2_bits by lia.
    rewrite bit_buf_testbit by (assumption || lia). f_equal. lia.
  - rewrite !Z.mod_pow2_bits_high by lia. reflexivity.
Qed.

(** In the cross-limb branch the left shift amount [64 - bit_idx] is below 64 (no shift overflow). *)
Lemma bit_buf_shift_in_range w1 pos : 0 <= pos -> w1 < 64 -> 64 <= pos mod 64 + w1 ->
  0 < 64 - pos mod 64 < 64.
Proof. intros. pose proof (Z.mod_pos_bound pos 64). lia. Qed.

(** * The recoding loop *)

Lemma digits_val_app_zeros d k rest :
  digits_val (d :: repeat 0 k ++ rest) = d + 2 ^ (Z.of_nat k + 1) * digits_val rest.
Proof.
  cbn [digits_val]. f_equal.
  induction k as [|k IH].
  - cbn [repeat app]. change (Z.of_nat 0 + 1) with 1. lia.
  - cbn [repeat app digits_val]. rewrite IH.
    replace (Z.of_nat (S k) + 1) with (1 + (Z.of_nat k + 1)) by lia.
    rewrite (Z.pow_add_r 2 1) by lia. lia.
Qed.

Lemma wrap_i64_small x : - 2 ^ 63 <= x < 2 ^ 63 -> wrap_i64 x = x.
Proof. intros H. unfold wrap_i64. rewrite Z.mod_small; lia. Qed.

Lemma land_1_even x : (Z.land x 1 =? 0) = Z.even x.
Proof.
  change 1 with (Z.ones 1). rewrite Z.land_ones by lia. change (2 ^ 1) with 2.
  rewrite Zmod_even. destruct (Z.even x); reflexivity.
Qed.

(** Arithmetic facts about the quotient [Q = V / 2^pos]. *)
Lemma div_pow2_step V pos k : 0 <= V -> 0 <= pos -> 0 <= k ->
  V / 2 ^ (pos + k) = (V / 2 ^ pos) / 2 ^ k.
Proof. intros. rewrite Z.pow_add_r by lia. rewrite Z.div_div; try apply Z.pow_pos_nonneg; lia. Qed.

Lemma div_small_pow2 V a b : 0 <= V < 2 ^ a -> 0 <= a <= b -> V / 2 ^ b = 0.
Proof.
  intros HV Hab. apply Z.div_small. split; [lia|].
  apply Z.lt_le_trans with (2 ^ a); [lia|]. apply Z.pow_le_mono_r; lia.
Qed.

(** The loop invariant: [carry] is a bit, and when it is set the scalar has a 1 at bit [pos - 1]. *)
Definition carry_ok (V pos carry : Z) : Prop :=
  (carry = 0 \/ carry = 1) /\ (carry = 1 -> 1 <= pos /\ (V / 2 ^ (pos - 1)) mod 2 = 1).

Section Recoding.
  Variable w1 : Z.
  Variable ls : list Z.
  Hypothesis Hw1 : 2 <= w1 < 63.
  Hypothesis Hwf : wf_limbs ls.
  Let V := limbs_val ls.
  Let P := 2 ^ (w1 - 1).

  Lemma P_facts : 2 <= P /\ 2 ^ w1 = 2 * P /\ 2 ^ w1 / 2 = P /\ P mod 2 = 0 /\ 2 * P <= 2 ^ 62.
  Proof.
    unfold P. assert (E : 2 ^ w1 = 2 * 2 ^ (w1 - 1)).
    { replace w1 with (1 + (w1 - 1)) at 1 by lia. rewrite Z.pow_add_r by lia. reflexivity. }
    assert (2 ^ 1 <= 2 ^ (w1 - 1)) by (apply Z.pow_le_mono_r; lia).
    assert (2 ^ w1 <= 2 ^ 62) by (apply Z.pow_le_mono_r; lia).
    repeat split; try lia.
    - rewrite E. rewrite Z.mul_comm, Z.div_mul; lia.
    - replace (w1 - 1) with (1 + (w1 - 2)) by lia. rewrite Z.pow_add_r by lia.
      rewrite Z.mul_comm, Z.mod_mul; lia.
  Qed.

  Lemma V_nonneg : 0 <= V.
  Proof. apply limbs_val_bound; assumption. Qed.

  (** Decomposition of [Q = V / 2^pos] used in every case of the loop body. *)
  Lemma Q_decomp pos : 0 <= pos ->
    let Q := V / 2 ^ pos in
    let B := Q mod 2 ^ w1 in
    let H := V / 2 ^ (pos + w1) in
    let Q2 := V / 2 ^ (pos + 1) in
    0 <= Q /\ 0 <= B < 2 * P /\ Q = B + 2 * P * H /\ 0 <= H
    /\ Q = 2 * Q2 + Q mod 2 /\ 0 <= Q mod 2 < 2 /\ 0 <= Q2
    /\ (P <= B -> (V / 2 ^ (pos + w1 - 1)) mod 2 = 1).
  Proof.
    intros Hpos Q B H Q2. pose proof P_facts as (HP2 & HE & _ & _ & _). pose proof V_nonneg as HV.
    assert (HQ : 0 <= Q) by (apply Z.div_pos; [lia|apply Z.pow_pos_nonneg; lia]).
    assert (HB : 0 <= B < 2 ^ w1) by (apply Z.mod_pos_bound; apply Z.pow_pos_nonneg; lia).
    assert (HH : H = Q / 2 ^ w1) by (unfold H, Q; apply div_pow2_step; lia).
    assert (HQ2 : Q2 = Q / 2) by (unfold Q2, Q; rewrite div_pow2_step by lia; reflexivity).
    assert (Hdm : Q = 2 ^ w1 * (Q / 2 ^ w1) + B) by (apply Z.div_mod; apply Z.pow_nonzero; lia).
    assert (Hdm2 : Q = 2 * (Q / 2) + Q mod 2) by (apply Z.div_mod; lia).
    assert (0 <= Q / 2 ^ w1) by (apply Z.div_pos; [lia|apply Z.pow_pos_nonneg; lia]).
    repeat split; try lia.
    - pose proof (Z.mod_pos_bound Q 2). lia.
    - pose proof (Z.mod_pos_bound Q 2). lia.
    - apply Z.div_pos; lia.
    - intros HPB.
      replace (pos + w1 - 1) with (pos + (w1 - 1)) by lia. rewrite div_pow2_step by lia.
      fold Q. fold P.
      (* Q = B + 2P * H with P <= B < 2P, so Q / P = 1 + 2 * H *)
      assert (EQ : Q = (1 + 2 * (Q / 2 ^ w1)) * P + (B - P)) by lia.
      rewrite EQ. rewrite Z.div_add_l by lia. rewrite (Z.div_small (B - P)) by lia.
      set (X := Q / 2 ^ w1). replace (1 + 2 * X + 0) with (1 + X * 2) by lia.
      rewrite Z.mod_add by lia. reflexivity.
  Qed.

  Variable num_bits : Z.

  (** wnaf_sum, general form: from any state satisfying the invariant the remaining digits
      encode [carry + V / 2^pos], provided the top bit of the limb vector is clear. *)
  Lemma wnaf_loop_sum : V < 2 ^ (num_bits - 1) -> 1 <= num_bits ->
    forall fuel pos carry, 0 <= pos -> carry_ok V pos carry ->
      (Z.to_nat (num_bits - pos) <= fuel)%nat ->
      digits_val (wnaf_loop fuel w1 ls num_bits pos carry) = carry + V / 2 ^ pos.
  Proof.
    intros HVtop Hnb. pose proof P_facts as (HP2 & HE & HE2 & HPev & HP62). pose proof V_nonneg as HV.
    assert (Hexit : forall pos carry, 0 <= pos -> num_bits <= pos -> carry_ok V pos carry ->
                                      0 = carry + V / 2 ^ pos).
    { intros pos carry Hpos Hge [Hc Hc1].
      rewrite (div_small_pow2 V (num_bits - 1) pos) by lia.
      destruct Hc as [-> | ->]; [reflexivity|].
      destruct (Hc1 eq_refl) as [Hp1 Hodd].
      rewrite (div_small_pow2 V (num_bits - 1) (pos - 1)) in Hodd by lia. discriminate. }
    induction fuel as [|fuel IH]; intros pos carry Hpos Hinv Hfuel.
    - cbn [wnaf_loop digits_val]. apply Hexit; try assumption. lia.
    - cbn [wnaf_loop]. destruct (Z.ltb_spec pos num_bits) as [Hlt|Hge];
        [|cbn [digits_val]; apply Hexit; assumption].
      rewrite window_val_spec by (try assumption; lia). fold V.
      destruct (Q_decomp pos Hpos) as (HQ & HB & HQB & HH & HQ2 & Hb0 & HQ2n & Htop).
      set (Q := V / 2 ^ pos) in *. set (B := Q mod 2 ^ w1) in *.
      set (H := V / 2 ^ (pos + w1)) in *. set (Q2 := V / 2 ^ (pos + 1)) in *.
      destruct Hinv as [Hc Hc1].
      rewrite land_1_even. destruct (Z.even (carry + B)) eqn:Hev.
      + (* even window: emit 0, keep the carry *)
        cbn [digits_val]. rewrite IH; [| lia | | lia].
        * fold Q2. apply Zeven_bool_iff in Hev. apply Zeven_ex_iff in Hev. destruct Hev as [m Hm].
          destruct Hc as [-> | ->]; lia.
        * split; [assumption|]. intros ->. split; [lia|].
          replace (pos + 1 - 1) with pos by lia. fold Q.
          apply Zeven_bool_iff in Hev. apply Zeven_ex_iff in Hev. destruct Hev as [m Hm]. lia.
      + assert (Hodd : (carry + B) mod 2 = 1).
        { rewrite Zmod_even, Hev. reflexivity. }
        rewrite HE2.
        destruct (Z.ltb_spec (carry + B) P) as [Hlow|Hhigh].
        * (* low odd window: digit = window value, carry cleared *)
          replace (Z.to_nat (w1 - 1)) with (Z.to_nat (w1 - 1)) by reflexivity.
          rewrite digits_val_app_zeros. rewrite Z2Nat.id by lia.
          replace (w1 - 1 + 1) with w1 by lia.
          rewrite IH; [| lia | | lia].
          -- fold H. lia.
          -- split; [left; reflexivity|discriminate].
        * (* high odd window: digit = window value - 2^w1, carry set *)
          rewrite wrap_i64_small by (destruct Hc as [-> | ->]; lia).
          rewrite digits_val_app_zeros. rewrite Z2Nat.id by lia.
          replace (w1 - 1 + 1) with w1 by lia.
          rewrite IH; [| lia | | lia].
          -- fold H. lia.
          -- split; [right; reflexivity|]. intros _. split; [lia|].
             apply Htop.
             (* B >= P: otherwise carry = 1, B = P - 1 and the window value P is even *)
             destruct (Z_lt_le_dec B P) as [HBP|]; [exfalso|assumption].
             assert (carry + B = P) by (destruct Hc as [-> | ->]; lia).
             rewrite H0 in Hodd. lia.
  Qed.

  (** Every non-zero digit is odd and strictly between -2^w and 2^w (w = w1 - 1). *)
  Lemma wnaf_loop_digit_bounds : forall fuel pos carry, 0 <= pos -> (carry = 0 \/ carry = 1) ->
    Forall (fun d => d = 0 \/ (Z.odd d = true /\ - P < d < P))
           (wnaf_loop fuel w1 ls num_bits pos carry).
  Proof.
    pose proof P_facts as (HP2 & HE & HE2 & HPev & HP62).
    induction fuel as [|fuel IH]; intros pos carry Hpos Hc; cbn [wnaf_loop]; [constructor|].
    destruct (Z.ltb_spec pos num_bits); [|constructor].
    rewrite window_val_spec by (try assumption; lia). fold V.
    destruct (Q_decomp pos Hpos) as (HQ & HB & _).
    set (B := (V / 2 ^ pos) mod 2 ^ w1) in *.
    rewrite land_1_even. destruct (Z.even (carry + B)) eqn:Hev.
    - constructor; [left; reflexivity|]. apply IH; [lia|assumption].
    - assert (Hodd : Z.odd (carry + B) = true) by (rewrite <- Z.negb_even, Hev; reflexivity).
      assert (Hodd2 : (carry + B) mod 2 = 1) by (rewrite Zmod_odd, Hodd; reflexivity).
      assert (Hzeros : forall k rest, Forall (fun d => d = 0 \/ Z.odd d = true /\ - P < d < P) rest ->
                 Forall (fun d => d = 0 \/ Z.odd d = true /\ - P < d < P) (repeat 0 k ++ rest)).
      { intros k rest Hr. induction k; cbn [repeat app]; [assumption|constructor; [left; reflexivity|assumption]]. }
      rewrite HE2. destruct (Z.ltb_spec (carry + B) P).
      + constructor.
        * right. split; [assumption|]. destruct Hc as [-> | ->]; lia.
        * apply Hzeros. apply IH; [lia|left; reflexivity].
      + rewrite wrap_i64_small by (destruct Hc as [-> | ->]; lia).
        constructor.
        * right. split.
          -- rewrite HE. replace (carry + B - 2 * P) with (carry + B + 2 * (- P)) by lia.
             rewrite Z.odd_add_mul_2. assumption.
          -- (* carry + B <= 2P and odd, so <= 2P - 1; and = P is impossible since P is even *)
             assert (carry + B <> 2 * P).
             { intros E. rewrite E in Hodd2. rewrite Z.mul_comm, Z.mod_mul in Hodd2; lia. }
             assert (carry + B <> P).
             { intros E. rewrite E in Hodd2. lia. }
             destruct Hc as [-> | ->]; lia.
        * apply Hzeros. apply IH; [lia|right; reflexivity].
  Qed.

  Lemma nth_cons_zeros_app (d : Z) k rest j :
    nth j (d :: repeat 0 k ++ rest) 0 =
    if (j =? 0)%nat then d else if (j <=? k)%nat then 0 else nth (j - S k) rest 0.
  Proof.
    destruct j as [|j]; [reflexivity|]. cbn [nth Nat.eqb].
    revert j. induction k as [|k IH]; intros j.
    - cbn [repeat app]. cbn [Nat.leb]. f_equal. lia.
    - cbn [repeat app]. destruct j as [|j]; [reflexivity|]. cbn [nth]. rewrite IH.
      change (S (S j) <=? S k)%nat with (S j <=? k)%nat. reflexivity.
  Qed.

  (** wnaf_top: a non-zero digit at list index [j] (= bit position [pos + j]) implies
      [pos + j <= nb] whenever the scalar is below [2^nb]. *)
  Lemma wnaf_loop_top (nb : Z) : 0 <= nb -> V < 2 ^ nb ->
    forall fuel pos carry, 0 <= pos -> carry_ok V pos carry ->
    forall j, nth j (wnaf_loop fuel w1 ls num_bits pos carry) 0 <> 0 -> pos + Z.of_nat j <= nb.
  Proof.
    intros Hnb HVnb. pose proof P_facts as (HP2 & HE & HE2 & HPev & HP62). pose proof V_nonneg as HV.
    induction fuel as [|fuel IH]; intros pos carry Hpos Hinv j Hj; cbn [wnaf_loop] in Hj.
    - destruct j; contradiction.
    - destruct (Z.ltb_spec pos num_bits); [|destruct j; contradiction].
      rewrite window_val_spec in Hj by (try assumption; lia). fold V in Hj.
      destruct (Q_decomp pos Hpos) as (HQ & HB & HQB & HH & HQ2 & Hb0 & HQ2n & Htop).
      set (Q := V / 2 ^ pos) in *. set (B := Q mod 2 ^ w1) in *.
      destruct Hinv as [Hc Hc1].
      rewrite land_1_even in Hj. destruct (Z.even (carry + B)) eqn:Hev.
      + destruct j as [|j]; [contradiction|]. cbn [nth] in Hj.
        apply IH in Hj; [lia|lia|]. split; [assumption|]. intros ->. split; [lia|].
        replace (pos + 1 - 1) with pos by lia. fold Q.
        apply Zeven_bool_iff in Hev. apply Zeven_ex_iff in Hev. destruct Hev as [m Hm]. lia.
      + assert (Hodd : (carry + B) mod 2 = 1) by (rewrite Zmod_even, Hev; reflexivity).
        (* the window position itself is at most nb *)
        assert (Hposnb : pos <= nb).
        { destruct (Z_le_gt_dec pos nb); [assumption|exfalso].
          assert (Q = 0) by (unfold Q; apply (div_small_pow2 V nb pos); lia).
          assert (B = 0) by (unfold B; rewrite H0; apply Z.mod_0_l; apply Z.pow_nonzero; lia).
          destruct Hc as [-> | ->]; [rewrite H1 in Hodd; discriminate|].
          destruct (Hc1 eq_refl) as [_ Hbit].
          rewrite (div_small_pow2 V nb (pos - 1)) in Hbit by lia. discriminate. }
        rewrite HE2 in Hj.
        destruct (Z.ltb_spec (carry + B) P).
        * rewrite nth_cons_zeros_app in Hj.
          destruct (Nat.eqb_spec j 0); [subst; lia|].
          destruct (Nat.leb_spec j (Z.to_nat (w1 - 1))); [contradiction|].
          apply IH in Hj; [lia|lia|]. split; [left; reflexivity|discriminate].
        * rewrite nth_cons_zeros_app in Hj.
          destruct (Nat.eqb_spec j 0); [subst; lia|].
          destruct (Nat.leb_spec j (Z.to_nat (w1 - 1))); [contradiction|].
          apply IH in Hj; [lia|lia|]. split; [right; reflexivity|]. intros _. split; [lia|].
          apply Htop.
          destruct (Z_lt_le_dec B P) as [HBP|]; [exfalso|assumption].
          assert (carry + B = P) by (destruct Hc as [-> | ->]; lia).
          rewrite H2 in Hodd. lia.
  Qed.
End Recoding.

(** * Statements about [wnaf] *)

Lemma carry_ok_init V : carry_ok V 0 0.
Proof. split; [left; reflexivity|discriminate]. Qed.

Theorem wnaf_sum_lemma : forall w ls, 1 <= w < 62 -> wf_limbs ls ->
  limbs_val ls < 2 ^ (64 * Z.of_nat (length ls) - 1) ->
  digits_val (wnaf w ls) = limbs_val ls.
Proof.
  intros w ls Hw Hwf Htop. unfold wnaf.
  destruct ls as [|l ls'].
  - reflexivity.
  - rewrite wnaf_loop_sum; try assumption; try lia.
    + rewrite Z.pow_0_r, Z.div_1_r. lia.
    + cbn [length]. lia.
    + apply carry_ok_init.
Qed.

Theorem wnaf_digit_bounds_lemma : forall w ls, 1 <= w < 62 -> wf_limbs ls ->
  Forall (fun d => d = 0 \/ (Z.odd d = true /\ - 2 ^ w < d < 2 ^ w)) (wnaf w ls).
Proof.
  intros w ls Hw Hwf. unfold wnaf.
  assert (Hw1 : 2 <= w + 1 < 63) by lia.
  pose proof (wnaf_loop_digit_bounds (w + 1) ls Hw1 Hwf (64 * Z.of_nat (length ls))
                (Z.to_nat (64 * Z.of_nat (length ls))) 0 0 (Z.le_refl 0) (or_introl eq_refl)) as H.
  replace (w + 1 - 1) with w in H by lia. exact H.
Qed.

Theorem wnaf_top_lemma : forall w ls nb, 1 <= w < 62 -> wf_limbs ls -> 0 <= nb ->
  limbs_val ls < 2 ^ nb ->
  forall j, (Z.to_nat nb < j)%nat -> nth j (wnaf w ls) 0 = 0.
Proof.
  intros w ls nb Hw Hwf Hnb HV j Hj.
  destruct (Z.eq_dec (nth j (wnaf w ls) 0) 0) as [|Hne]; [assumption|exfalso].
  unfold wnaf in Hne. apply wnaf_loop_top with (nb := nb) in Hne; try assumption; try lia.
  apply carry_ok_init.
Qed.

(** the digits beyond [nb] contribute nothing: the truncated vector has the same value *)
Lemma digits_val_firstn ds n : (forall j, (n <= j)%nat -> nth j ds 0 = 0) ->
  digits_val (firstn n ds) = digits_val ds.
Proof.
  revert n. induction ds as [|d ds IH]; intros n Hz.
  - destruct n; reflexivity.
  - destruct n as [|n].
    + cbn [firstn]. change (digits_val []) with 0.
      assert (Hall : forall ds', (forall j, nth j ds' 0 = 0) -> digits_val ds' = 0).
      { induction ds' as [|x xs IHx]; intros Hx; [reflexivity|]. cbn [digits_val].
        rewrite (Hx O : x = 0). rewrite IHx; [reflexivity|]. intros j. apply (Hx (S j)). }
      symmetry. apply (Hall (d :: ds)). intros j. apply Hz. lia.
    + cbn [firstn digits_val]. rewrite IH; [reflexivity|]. intros j Hj. apply (Hz (S j)). lia.
Qed.

Lemma digits_val_firstn_S ds j :
  digits_val (firstn (S j) ds) = digits_val (firstn j ds) + 2 ^ Z.of_nat j * nth j ds 0.
Proof.
  revert ds. induction j as [|j IH]; intros ds.
  - change (Z.of_nat 0) with 0. rewrite Z.pow_0_r.
    destruct ds as [|d ds]; cbn [firstn digits_val nth]; lia.
  - destruct ds as [|d ds].
    + cbn [firstn digits_val nth]. lia.
    + change (firstn (S (S j)) (d :: ds)) with (d :: firstn (S j) ds).
      change (firstn (S j) (d :: ds)) with (d :: firstn j ds).
      cbn [digits_val nth]. rewrite IH.
      replace (Z.of_nat (S j)) with (1 + Z.of_nat j) by lia. rewrite Z.pow_add_r by lia. lia.
Qed.

(** * Evaluation in an abelian group *)

(** The laws assumed of the curve operations: an abelian group in which [minus_point] is
    addition of the inverse and [double_point] is [a + a]. *)
Definition abelian_group_laws {G : Type} (gzero : G) (gadd gsub : G -> G -> G) (gdbl gneg : G -> G) : Prop :=
  (forall a b c, gadd a (gadd b c) = gadd (gadd a b) c) /\
  (forall a b, gadd a b = gadd b a) /\
  (forall a, gadd gzero a = a) /\
  (forall a, gadd a (gneg a) = gzero) /\
  (forall a b, gsub a b = gadd a (gneg b)) /\
  (forall a, gdbl a = gadd a a).

Section GroupProofs.
  Variable G : Type.
  Variable gzero : G.
  Variables gadd gsub : G -> G -> G.
  Variables gdbl gneg : G -> G.
  Hypothesis gadd_assoc : forall a b c, gadd a (gadd b c) = gadd (gadd a b) c.
  Hypothesis gadd_comm : forall a b, gadd a b = gadd b a.
  Hypothesis gadd_0_l : forall a, gadd gzero a = a.
  Hypothesis gadd_neg_r : forall a, gadd a (gneg a) = gzero.
  Hypothesis gsub_def : forall a b, gsub a b = gadd a (gneg b).
  Hypothesis gdbl_def : forall a, gdbl a = gadd a a.

  Local Notation "a [+] b" := (gadd a b) (at level 50, left associativity).

  Lemma gadd_0_r a : a [+] gzero = a.
  Proof. rewrite gadd_comm. apply gadd_0_l. Qed.

  Lemma gadd_cancel_l a b c : a [+] b = a [+] c -> b = c.
  Proof.
    intros H. rewrite <- (gadd_0_l b), <- (gadd_0_l c).
    rewrite <- (gadd_neg_r a). rewrite (gadd_comm a (gneg a)).
    rewrite <- !gadd_assoc. rewrite H. reflexivity.
  Qed.

  Lemma gneg_unique a b : a [+] b = gzero -> b = gneg a.
  Proof. intros H. apply (gadd_cancel_l a). rewrite H, gadd_neg_r. reflexivity. Qed.

  Lemma gadd_swap4 a b c d : (a [+] b) [+] (c [+] d) = (a [+] c) [+] (b [+] d).
  Proof.
    rewrite <- !gadd_assoc. f_equal. rewrite !gadd_assoc. f_equal. apply gadd_comm.
  Qed.

  Lemma gneg_add a b : gneg (a [+] b) = gneg a [+] gneg b.
  Proof.
    symmetry. apply gneg_unique. rewrite gadd_swap4, !gadd_neg_r. apply gadd_0_l.
  Qed.

  (** Integer multiples: [nmul n g = g + ... + g] ([n] times), extended to [Z] by negation. *)
  Fixpoint nmul (n : nat) (g : G) : G :=
    match n with O => gzero | S n' => g [+] nmul n' g end.
  Definition zmul (z : Z) (g : G) : G :=
    if 0 <=? z then nmul (Z.to_nat z) g else gneg (nmul (Z.to_nat (- z)) g).

  Lemma nmul_add a b g : nmul (a + b) g = nmul a g [+] nmul b g.
  Proof.
    induction a as [|a IH]; cbn [nmul Nat.add].
    - rewrite gadd_0_l. reflexivity.
    - rewrite IH, gadd_assoc. reflexivity.
  Qed.

  Lemma nmul_gadd n a b : nmul n (a [+] b) = nmul n a [+] nmul n b.
  Proof.
    induction n as [|n IH]; cbn [nmul].
    - rewrite gadd_0_l. reflexivity.
    - rewrite IH. apply gadd_swap4.
  Qed.

  Lemma zmul_diff a b g : zmul (Z.of_nat a - Z.of_nat b) g = nmul a g [+] gneg (nmul b g).
  Proof.
    unfold zmul. destruct (Z.leb_spec 0 (Z.of_nat a - Z.of_nat b)).
    - replace (Z.to_nat (Z.of_nat a - Z.of_nat b)) with (a - b)%nat by lia.
      assert (Ha : nmul a g = nmul (a - b) g [+] nmul b g).
      { rewrite <- nmul_add. f_equal. lia. }
      rewrite Ha, <- gadd_assoc, gadd_neg_r, gadd_0_r. reflexivity.
    - replace (Z.to_nat (- (Z.of_nat a - Z.of_nat b))) with (b - a)%nat by lia.
      assert (Hb : nmul b g = nmul (b - a) g [+] nmul a g).
      { rewrite <- nmul_add. f_equal. lia. }
      rewrite Hb, gneg_add.
      rewrite (gadd_comm (gneg (nmul (b - a) g))), gadd_assoc, gadd_neg_r, gadd_0_l. reflexivity.
  Qed.

  Lemma zmul_repr z g : zmul z g = nmul (Z.to_nat z) g [+] gneg (nmul (Z.to_nat (- z)) g).
  Proof. rewrite <- zmul_diff. f_equal. lia. Qed.

  Lemma zmul_add x y g : zmul (x + y) g = zmul x g [+] zmul y g.
  Proof.
    rewrite (zmul_repr x), (zmul_repr y).
    replace (x + y) with (Z.of_nat (Z.to_nat x + Z.to_nat y) - Z.of_nat (Z.to_nat (- x) + Z.to_nat (- y))) by lia.
    rewrite zmul_diff, !nmul_add, gneg_add. apply gadd_swap4.
  Qed.

  Lemma zmul_0 g : zmul 0 g = gzero.
  Proof. reflexivity. Qed.

  Lemma zmul_1 g : zmul 1 g = g.
  Proof. unfold zmul. cbn [Z.leb Z.compare]. change (Z.to_nat 1) with 1%nat. cbn [nmul]. apply gadd_0_r. Qed.

  Lemma zmul_opp z g : zmul (- z) g = gneg (zmul z g).
  Proof.
    apply gneg_unique. rewrite <- zmul_add. replace (z + - z) with 0 by lia. reflexivity.
  Qed.

  Lemma zmul_nonneg z g : 0 <= z -> zmul z g = nmul (Z.to_nat z) g.
  Proof. intros H. unfold zmul. destruct (Z.leb_spec 0 z); [reflexivity|lia]. Qed.

  (** ** The table of odd multiples *)
  Lemma table_loop_nth n sq : forall tmp k, (k < n)%nat ->
    nth k (table_loop G gadd n sq tmp) gzero = tmp [+] nmul (S k) sq.
  Proof.
    induction n as [|n IH]; intros tmp k Hk; [lia|]. cbn [table_loop].
    destruct k as [|k]; cbn [nth].
    - cbn [nmul]. rewrite gadd_0_r. reflexivity.
    - rewrite IH by lia. change (nmul (S (S k)) sq) with (sq [+] nmul (S k) sq).
      rewrite gadd_assoc. reflexivity.
  Qed.

  Lemma table_nth w g k : 1 <= w -> 0 <= k < 2 ^ (w - 1) ->
    nth (Z.to_nat k) (table G gadd w g) gzero = zmul (2 * k + 1) g.
  Proof.
    intros Hw Hk. unfold table.
    replace (2 * k + 1) with (1 + (k + k)) by lia. rewrite !zmul_add, zmul_1.
    destruct (Z.eq_dec k 0) as [->|Hne].
    - cbn [Z.to_nat nth]. rewrite zmul_0, !gadd_0_r. reflexivity.
    - replace (Z.to_nat k) with (S (Z.to_nat (k - 1))) by lia. cbn [nth].
      rewrite table_loop_nth by lia. f_equal.
      replace (S (Z.to_nat (k - 1))) with (Z.to_nat k) by lia.
      rewrite nmul_gadd, zmul_nonneg by lia. reflexivity.
  Qed.

  (** ** One step of the inner loop adds [digit * g] *)
  Lemma eval_step_spec w j a s g : 1 <= w < 62 -> wf_limbs s ->
    eval_step G gzero gadd gsub j a (wnaf w s) (table G gadd w g)
    = a [+] zmul (nth j (wnaf w s) 0) g.
  Proof.
    intros Hw Hwf. unfold eval_step.
    pose proof (wnaf_digit_bounds_lemma w s Hw Hwf) as Hb. rewrite Forall_forall in Hb.
    assert (Hpow : 2 ^ w = 2 * 2 ^ (w - 1)).
    { replace w with (1 + (w - 1)) at 1 by lia. rewrite Z.pow_add_r by lia. reflexivity. }
    destruct (nth_error (wnaf w s) j) as [ge|] eqn:Hnth.
    - rewrite (nth_error_nth _ _ 0 Hnth).
      specialize (Hb ge (nth_error_In _ _ Hnth)).
      destruct (Z.ltb_spec 0 ge) as [Hpos|Hnpos]; [|destruct (Z.ltb_spec ge 0) as [Hneg|Hz]].
      + destruct Hb as [->|[Hodd Hrange]]; [lia|].
        assert (Hm : ge mod 2 = 1) by (rewrite Zmod_odd, Hodd; reflexivity).
        pose proof (Z.div_mod ge 2 ltac:(lia)) as Hdm.
        rewrite Z.quot_div_nonneg by lia.
        rewrite table_nth by lia. f_equal. f_equal. lia.
      + destruct Hb as [->|[Hodd Hrange]]; [lia|].
        assert (Hodd' : Z.odd (- ge) = true) by (rewrite Z.odd_opp; assumption).
        assert (Hm : (- ge) mod 2 = 1) by (rewrite Zmod_odd, Hodd'; reflexivity).
        pose proof (Z.div_mod (- ge) 2 ltac:(lia)) as Hdm.
        rewrite Z.quot_div_nonneg by lia.
        rewrite table_nth by lia. rewrite gsub_def. f_equal.
        replace (2 * (- ge / 2) + 1) with (- ge) by lia. rewrite zmul_opp.
        symmetry. apply gneg_unique. rewrite gadd_comm. apply gadd_neg_r.
      + replace ge with 0 by lia. rewrite zmul_0, gadd_0_r. reflexivity.
    - apply nth_error_None in Hnth. rewrite nth_overflow by assumption.
      rewrite zmul_0, gadd_0_r. reflexivity.
  Qed.

  (** ** Sums of scalar multiples over the zipped (scalar, point) list *)
  Fixpoint msum (f : list Z -> Z) (ps : list (list Z * G)) : G :=
    match ps with
    | [] => gzero
    | p :: t => zmul (f (fst p)) (snd p) [+] msum f t
    end.

  Lemma msum_add f h ps : msum f ps [+] msum h ps = msum (fun s => f s + h s) ps.
  Proof.
    induction ps as [|p t IH]; cbn [msum]; [apply gadd_0_l|].
    rewrite gadd_swap4, IH, zmul_add. reflexivity.
  Qed.

  Lemma msum_ext f h ps : (forall p, In p ps -> f (fst p) = h (fst p)) -> msum f ps = msum h ps.
  Proof.
    induction ps as [|p t IH]; intros H; cbn [msum]; [reflexivity|].
    rewrite (H p (or_introl eq_refl)), IH; [reflexivity|]. intros q Hq. apply H. right; assumption.
  Qed.

  Lemma msum_zero ps : msum (fun _ => 0) ps = gzero.
  Proof. induction ps as [|p t IH]; cbn [msum]; [reflexivity|]. rewrite IH, zmul_0. apply gadd_0_l. Qed.

  Section Eval.
    Variable w : Z.
    Hypothesis Hw : 1 <= w < 62.

    Definition step_pair (j : nat) (a : G) (p : list Z * G) : G :=
      eval_step G gzero gadd gsub j a (wnaf w (fst p)) (table G gadd w (snd p)).

    Lemma eval_inner_combine j : forall ss gs a,
      eval_inner G gzero gadd gsub j a (map (wnaf w) ss) (map (table G gadd w) gs)
      = fold_left (step_pair j) (combine ss gs) a.
    Proof.
      induction ss as [|s ss IH]; intros gs a; [reflexivity|].
      destruct gs as [|g gs]; [reflexivity|]. cbn [map eval_inner combine fold_left].
      rewrite IH. reflexivity.
    Qed.

    Lemma fold_step_spec j ps : (forall p, In p ps -> wf_limbs (fst p)) -> forall a,
      fold_left (step_pair j) ps a = a [+] msum (fun s => nth j (wnaf w s) 0) ps.
    Proof.
      induction ps as [|p t IH]; intros Hwf a; cbn [fold_left msum].
      - rewrite gadd_0_r. reflexivity.
      - rewrite IH by (intros q Hq; apply Hwf; right; assumption).
        unfold step_pair. rewrite eval_step_spec by (try assumption; apply Hwf; left; reflexivity).
        rewrite gadd_assoc. reflexivity.
    Qed.

    Lemma eval_outer_spec ss gs : Forall wf_limbs ss -> forall n f,
      eval_outer G gzero gadd gsub gdbl n (msum f (combine ss gs))
                 (map (wnaf w) ss) (map (table G gadd w) gs)
      = msum (fun s => f s * 2 ^ Z.of_nat n + digits_val (firstn n (wnaf w s))) (combine ss gs).
    Proof.
      intros Hss.
      assert (Hps : forall p, In p (combine ss gs) -> wf_limbs (fst p)).
      { intros [s g] Hin. apply in_combine_l in Hin. rewrite Forall_forall in Hss. apply Hss. assumption. }
      induction n as [|n IH]; intros f.
      - cbn [eval_outer]. apply msum_ext. intros p _. cbn [firstn digits_val Z.of_nat]. rewrite Z.pow_0_r. lia.
      - cbn [eval_outer]. rewrite eval_inner_combine, fold_step_spec by assumption.
        rewrite gdbl_def, !msum_add, IH. apply msum_ext. intros p _.
        rewrite digits_val_firstn_S.
        replace (Z.of_nat (S n)) with (1 + Z.of_nat n) by lia. rewrite Z.pow_add_r by lia. lia.
    Qed.
  End Eval.

  (** multiexp_correct: the result of [multiexp] is the sum of the scalar multiples
      [limbs_val s_i * g_i] over the zipped inputs. *)
  Theorem multiexp_sum w field_bits gs ss : 1 <= w < 62 ->
    Forall (fun s => wf_limbs s /\ limbs_val s < 2 ^ Z.of_nat field_bits
                     /\ Z.of_nat field_bits < 64 * Z.of_nat (length s)) ss ->
    multiexp G gzero gadd gsub gdbl w field_bits gs ss = msum limbs_val (combine ss gs).
  Proof.
    intros Hw Hss. unfold multiexp, multiexp_digits.
    assert (Hwf : Forall wf_limbs ss) by (eapply Forall_impl; [|exact Hss]; cbn; tauto).
    transitivity (eval_outer G gzero gadd gsub gdbl (S field_bits) (msum (fun _ => 0) (combine ss gs))
                             (map (wnaf w) ss) (map (table G gadd w) gs)).
    { rewrite msum_zero. reflexivity. }
    rewrite eval_outer_spec by assumption.
    apply msum_ext. intros [s g] Hin. cbn [fst]. apply in_combine_l in Hin.
    rewrite Forall_forall in Hss. destruct (Hss s Hin) as (Hs & Hlt & Hfb).
    rewrite Z.mul_0_l, Z.add_0_l.
    rewrite digits_val_firstn.
    - apply wnaf_sum_lemma; try assumption.
      apply Z.lt_le_trans with (2 ^ Z.of_nat field_bits); [assumption|]. apply Z.pow_le_mono_r; lia.
    - intros j Hj. apply (wnaf_top_lemma w s (Z.of_nat field_bits)); try assumption; lia.
  Qed.
End GroupProofs.

Theorem multiexp_correct_lemma : forall (G : Type) (gzero : G) (gadd gsub : G -> G -> G) (gdbl gneg : G -> G),
  abelian_group_laws gzero gadd gsub gdbl gneg ->
  forall w field_bits gs ss, 1 <= w < 62 ->
    Forall (fun s => wf_limbs s /\ limbs_val s < 2 ^ Z.of_nat field_bits
                     /\ Z.of_nat field_bits < 64 * Z.of_nat (length s)) ss ->
    multiexp G gzero gadd gsub gdbl w field_bits gs ss
    = msum G gzero gadd gneg limbs_val (combine ss gs).
Proof.
  intros G gzero gadd gsub gdbl gneg (H1 & H2 & H3 & H4 & H5 & H6). intros.
  apply multiexp_sum; assumption.
Qed.

(** The table has [2^(w-1)] rows, so the index [|d| / 2] of every non-zero digit is in range. *)
Lemma table_loop_length {G} (gadd : G -> G -> G) n sq tmp : length (table_loop G gadd n sq tmp) = n.
Proof. revert tmp. induction n as [|n IH]; intros tmp; cbn [table_loop length]; [reflexivity|]. rewrite IH. reflexivity. Qed.

Lemma table_length {G} (gadd : G -> G -> G) w g : 1 <= w -> length (table G gadd w g) = Z.to_nat (2 ^ (w - 1)).
Proof.
  intros Hw. unfold table. cbn [length]. rewrite table_loop_length.
  assert (0 < 2 ^ (w - 1)) by (apply Z.pow_pos_nonneg; lia). lia.
Qed.

Theorem wnaf_table_index_lemma : forall {G} (gadd : G -> G -> G) w ls g d, 1 <= w < 62 -> wf_limbs ls ->
  In d (wnaf w ls) -> d <> 0 ->
  Z.odd d = true /\ (Z.to_nat (Z.quot (Z.abs d) 2) < length (table G gadd w g))%nat.
Proof.
  intros G gadd w ls g d Hw Hwf Hin Hne.
  pose proof (wnaf_digit_bounds_lemma w ls Hw Hwf) as Hb. rewrite Forall_forall in Hb.
  destruct (Hb d Hin) as [->|[Hodd Hr]]; [contradiction|]. split; [assumption|].
  rewrite table_length by lia.
  assert (Hpow : 2 ^ w = 2 * 2 ^ (w - 1)).
  { replace w with (1 + (w - 1)) at 1 by lia. rewrite Z.pow_add_r by lia. reflexivity. }
  rewrite Z.quot_div_nonneg by lia.
  assert (Z.abs d / 2 < 2 ^ (w - 1)) by (apply Z.div_lt_upper_bound; lia).
  assert (0 <= Z.abs d / 2) by (apply Z.div_pos; lia). lia.
Qed.
