(** C12 - model of [make_transfer_data] / [verify_transfer_data] and of
    [make_sec_to_pub_transfer_data] / [verify_sec_to_pub_transfer_data]
    (encrypted_transfers/mod.rs, encrypted_transfers/proofs/generate_proofs.rs), definitions only.

    The pieces are the finished models of C07 and C11: the [EncTrans] sigma protocol
    ([Sigma_enc_trans.v], Fiat-Shamir [prove]/[verify] of [SigmaGeneric.v] over the byte-level
    transcript) and the bulletproof range proof ([RangeProof.v]).  The algebra is the class-based
    one of [Alg.v]; [bpOps] repackages it as the operations record of the bulletproof model.

    All randomness is explicit.  As in C11, the challenges of the two range proofs are inputs
    ([bp_chal]); prover and verifier get the same ones (that both derive them from the same
    transcript is C11's transcript tie, not restated here). *)
From Coq Require Import ZArith NArith List Lia Bool String InitialRing.
From CB Require Import Crypto.Alg Crypto.Transcript Crypto.SigmaGeneric Crypto.SigmaCodec Crypto.Sigma_dlog
  Crypto.Sigma_com_eq Crypto.Sigma_enc_trans Crypto.Chunks Crypto.BpAlg Crypto.Ipa Crypto.RangeProof.
Import ListNotations.

Inductive tv_result := TvOk | TvSigmaProofError | TvFirstBulletproofError | TvSecondBulletproofError.

Section EncTransfer.
  Context {K : FieldOps} {M : ModOps K} (Cd : CodecOps M).
  Variable H : bytes -> bytes.             (* SHA3-256 *)
  Variable sfb : bytes -> K.               (* Curve::scalar_from_bytes *)
  Local Open Scope G_scope.

  (** [C::scalar_from_u64]: the canonical image of an integer *)
  Definition kofZ (z : Z) : K := gen_phiZ (F0 K) (F1 K) (Fadd K) (Fmul K) (Fopp K) z.
  Definition kofN (n : N) : K := kofZ (Z.of_N n).

  (** the operations record of the bulletproof model *)
  Definition bpOps : bp_ops :=
    mkOps K (F0 K) (F1 K) (Fadd K) (Fmul K) (Fsub K) (Fopp K) (Feqb K) M (G0 M) (Gadd M) (Gopp M) (smul M) (Geqb M).

  (** global parameters: elgamal generator [g], encryption-in-the-exponent generator [h],
      bulletproof generators [Gs], [Hs] *)
  Variables (g h : M) (Gs Hs : list M).

  Definition cipher : Type := (M * M)%type.
  Definition enc_amount : Type := (cipher * cipher)%type.     (* encryptions[0] (low), encryptions[1] (high) *)
  (** [PublicKey::encrypt_exponent_rand_given_generator]: (k*g, multiexp [pk, h] [k, x]) *)
  Definition encrypt_exp (pk : M) (x k : K) : cipher := (k *: g, k *: pk + x *: h).
  Definition decrypt (sk : K) (c : cipher) : M := snd c - sk *: fst c.
  (** [EncryptedAmount::join]: [encryptions[1].scale_u64(1 << 32).combine(&encryptions[0])] *)
  Definition join (e : enc_amount) : cipher :=
    let s := kofN (2 ^ 32) in (s *: fst (snd e) + fst (fst e), s *: snd (snd e) + snd (fst e)).
  Definition encrypt_chunks (pk : M) (chunks : list N) (ks : list K) : list cipher :=
    map2 (fun x k => encrypt_exp pk (kofN x) k) chunks ks.
  (** [ComEqSecret { r: PedersenRandomness::from_u64(chunk), a: encryption randomness }] *)
  Definition chunk_secrets (chunks : list N) (ks : list K) : list (K * K) :=
    map2 (fun x k => (kofN x, k)) chunks ks.

  (** [gen_enc_exp_info]: one ComEq per ciphertext, commitment key (pk, h), base g *)
  Definition enc_exp_info (pk : M) (c : cipher) : com_eq_stmt M := mkComEq (snd c) (fst c) pk h g.
  (** [gen_enc_trans_proof_info] *)
  Definition gen_enc_trans_proof_info (pk_sender pk_receiver : M) (S : cipher) (A S' : list cipher) : enc_trans_stmt M :=
    mkEncTrans (mkDlog pk_sender g) (mkElgDec (snd S) (fst S) h)
               (map (enc_exp_info pk_receiver) A) (map (enc_exp_info pk_sender) S').

  (** randomness and challenges of one bulletproof *)
  Record bp_rand := mkBpRand { br_sL : list K; br_sR : list K; br_at : K; br_st : K; br_t1t : K; br_t2t : K }.
  Record bp_chal := mkBpChal { bc_y : K; bc_z : K; bc_x : K; bc_w : K; bc_us : list K }.
  Definition with_inv (us : list K) : list (K * K) := map (fun u => (u, Finv K u)) us.

  (** [bulletprove(Version1, ro, csprng, 32, chunks.len(), chunks, gens, CommitmentKey { g: h, h: pk }, randomness)];
      the prover uses the first n*m = 64 generators *)
  Definition bulletprove (pk : M) (chunks : list N) (ks : list K) (r : bp_rand) (c : bp_chal) : bproof bpOps :=
    range_prove bpOps 32 (map Z.of_N chunks) ks (firstn 64 Gs) (firstn 64 Hs) h pk
      (br_sL r) (br_sR r) (br_at r) (br_st r) (br_t1t r) (br_t2t r)
      (bc_y c) (Finv K (bc_y c)) (bc_z c) (bc_x c) (bc_w c) (with_inv (bc_us c)).
  (** [verify_efficient(Version1, ro, 32, commitments, proof, gens, CommitmentKey { g: h, h: pk })] *)
  Definition bulletverify (pk : M) (commitments : list M) (p : bproof bpOps) (c : bp_chal) : verdict :=
    range_verdict bpOps 32 commitments (firstn 64 Gs) (firstn 64 Hs) h pk p
      (bc_y c) (Finv K (bc_y c)) (bc_z c) (bc_x c) (bc_w c) (with_inv (bc_us c)).

  (** ** encrypted transfer *)
  Record transfer_data := mkTD {
    td_remaining : enc_amount; td_transfer : enc_amount; td_index : N;
    td_accounting : bytes * @et_rand K; td_bp_transfer : bproof bpOps; td_bp_remaining : bproof bpOps }.
  Record transfer_rand := mkTR {
    tr_A : list K; tr_S : list K;          (* encryption randomness of the chunks of a and of s - a *)
    tr_sigma : @et_rand K;                     (* (common, (alpha, R) per chunk of A, per chunk of S') *)
    tr_bp_a : bp_rand; tr_bp_s : bp_rand }.

  (** [gen_enc_trans]; [ctx] is the transcript state on entry *)
  Definition gen_enc_trans (k : tkind) (ctx : bytes) (pk_sender : M) (sk_sender : K) (pk_receiver : M)
      (index : N) (S : cipher) (s a : N) (rnd : transfer_rand) (ch_a ch_s : bp_chal) : option transfer_data :=
    if (s <? a)%N then None else
    match u64_to_chunks_checked 32 (s - a), u64_to_chunks_checked 32 a with
    | Some s_prime_chunks, Some a_chunks =>
        let A := encrypt_chunks pk_receiver a_chunks (tr_A rnd) in
        let S' := encrypt_chunks pk_sender s_prime_chunks (tr_S rnd) in
        let protocol := gen_enc_trans_proof_info pk_sender pk_receiver S A S' in
        let secret := (sk_sender, chunk_secrets a_chunks (tr_A rnd), chunk_secrets s_prime_chunks (tr_S rnd)) in
        match prove H sfb (enc_trans_proto Cd) k ctx protocol secret (tr_sigma rnd) with
        | None => None
        | Some (sigma_proof, _) =>
            let bp_a := bulletprove pk_receiver a_chunks (tr_A rnd) (tr_bp_a rnd) ch_a in
            let bp_s := bulletprove pk_sender s_prime_chunks (tr_S rnd) (tr_bp_s rnd) ch_s in
            match A, S' with
            | [A0; A1], [S0; S1] => Some (mkTD (S0, S1) (A0, A1) index sigma_proof bp_a bp_s)
            | _, _ => None
            end
        end
    | _, _ => None
    end.

  (** the transcript prefix built by [make_transfer_data] / [verify_transfer_data]:
      legacy [RandomOracle::domain("EncryptedTransfer")], "ctx", "receiver_pk", "sender_pk"
      ([gc] = serialised global context; a public key serialises as generator then key) *)
  Definition ser_pk (pk : M) : bytes := serG Cd g ++ serG Cd pk.
  Definition transfer_ctx (gc : bytes) (pk_receiver pk_sender : M) : bytes :=
    domain Legacy (str "EncryptedTransfer") ++ msg Legacy (str "ctx") gc
    ++ msg Legacy (str "receiver_pk") (ser_pk pk_receiver) ++ msg Legacy (str "sender_pk") (ser_pk pk_sender).

  (** [make_transfer_data]: input = (agg_encrypted_amount, agg_amount, agg_index) *)
  Definition make_transfer_data (gc : bytes) (pk_receiver : M) (sk_sender : K)
      (agg_enc : enc_amount) (agg_amount agg_index : N) (to_transfer : N)
      (rnd : transfer_rand) (ch_a ch_s : bp_chal) : option transfer_data :=
    let pk_sender := sk_sender *: g in
    gen_enc_trans Legacy (transfer_ctx gc pk_receiver pk_sender) pk_sender sk_sender pk_receiver
      agg_index (join agg_enc) agg_amount to_transfer rnd ch_a ch_s.

  Definition enc_list (e : enc_amount) : list cipher := [fst e; snd e].

  (** [verify_enc_trans]: sigma proof, then the two range proofs, first failure reported *)
  Definition verify_enc_trans (k : tkind) (ctx : bytes) (td : transfer_data) (pk_sender pk_receiver : M) (S : cipher)
      (ch_a ch_s : bp_chal) : tv_result :=
    let protocol := gen_enc_trans_proof_info pk_sender pk_receiver S (enc_list (td_transfer td)) (enc_list (td_remaining td)) in
    if negb (fst (verify H sfb (enc_trans_proto Cd) k ctx protocol (td_accounting td))) then TvSigmaProofError else
    match bulletverify pk_receiver (map snd (enc_list (td_transfer td))) (td_bp_transfer td) ch_a with
    | VOk =>
        match bulletverify pk_sender (map snd (enc_list (td_remaining td))) (td_bp_remaining td) ch_s with
        | VOk => TvOk
        | _ => TvSecondBulletproofError
        end
    | _ => TvFirstBulletproofError
    end.
  Definition verify_transfer_data (gc : bytes) (pk_receiver pk_sender : M) (before_amount : enc_amount)
      (td : transfer_data) (ch_a ch_s : bp_chal) : bool :=
    match verify_enc_trans Legacy (transfer_ctx gc pk_receiver pk_sender) td pk_sender pk_receiver (join before_amount) ch_a ch_s with
    | TvOk => true
    | _ => false
    end.

  (** ** secret to public transfer: [A] is the trivial encryption (0, a*h) of the public amount, one chunk *)
  Record sec_to_pub_data := mkSD {
    sd_remaining : enc_amount; sd_transfer_amount : N; sd_index : N;
    sd_accounting : bytes * @et_rand K; sd_bp_remaining : bproof bpOps }.
  Record sec_to_pub_rand := mkSR { sr_S : list K; sr_sigma : @et_rand K; sr_bp_s : bp_rand }.

  Definition dummy_encryption (a : N) : cipher := (G0 M, kofN a *: h).

  Definition gen_sec_to_pub_trans (k : tkind) (ctx : bytes) (pk : M) (sk : K) (index : N) (S : cipher) (s a : N)
      (rnd : sec_to_pub_rand) (ch_s : bp_chal) : option sec_to_pub_data :=
    if (s <? a)%N then None else
    match u64_to_chunks_checked 32 (s - a) with
    | Some s_prime_chunks =>
        let S' := encrypt_chunks pk s_prime_chunks (sr_S rnd) in
        let protocol := gen_enc_trans_proof_info pk pk S [dummy_encryption a] S' in
        let secret := (sk, [(kofN a, F0 K)], chunk_secrets s_prime_chunks (sr_S rnd)) in
        match prove H sfb (enc_trans_proto Cd) k ctx protocol secret (sr_sigma rnd) with
        | None => None
        | Some (sigma_proof, _) =>
            let bp_s := bulletprove pk s_prime_chunks (sr_S rnd) (sr_bp_s rnd) ch_s in
            match S' with
            | [S0; S1] => Some (mkSD (S0, S1) a index sigma_proof bp_s)
            | _ => None
            end
        end
    | None => None
    end.

  Definition sec_to_pub_ctx (gc : bytes) (pk : M) : bytes :=
    domain Legacy (str "SecToPubTransfer") ++ msg Legacy (str "ctx") gc ++ msg Legacy (str "pk") (ser_pk pk).

  Definition make_sec_to_pub_transfer_data (gc : bytes) (sk : K) (agg_enc : enc_amount) (agg_amount agg_index : N)
      (to_transfer : N) (rnd : sec_to_pub_rand) (ch_s : bp_chal) : option sec_to_pub_data :=
    let pk := sk *: g in
    gen_sec_to_pub_trans Legacy (sec_to_pub_ctx gc pk) pk sk agg_index (join agg_enc) agg_amount to_transfer rnd ch_s.

  Definition verify_sec_to_pub_trans (k : tkind) (ctx : bytes) (sd : sec_to_pub_data) (pk : M) (S : cipher)
      (ch_s : bp_chal) : tv_result :=
    let protocol := gen_enc_trans_proof_info pk pk S [dummy_encryption (sd_transfer_amount sd)] (enc_list (sd_remaining sd)) in
    if negb (fst (verify H sfb (enc_trans_proto Cd) k ctx protocol (sd_accounting sd))) then TvSigmaProofError else
    match bulletverify pk (map snd (enc_list (sd_remaining sd))) (sd_bp_remaining sd) ch_s with
    | VOk => TvOk
    | _ => TvSecondBulletproofError
    end.
  Definition verify_sec_to_pub_transfer_data (gc : bytes) (pk : M) (before_amount : enc_amount)
      (sd : sec_to_pub_data) (ch_s : bp_chal) : bool :=
    match verify_sec_to_pub_trans Legacy (sec_to_pub_ctx gc pk) sd pk (join before_amount) ch_s with
    | TvOk => true
    | _ => false
    end.
End EncTransfer.
