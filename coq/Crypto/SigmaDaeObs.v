(** C07 round 4: the response-count observation about dlogaggequal.rs in both directions, for ALL
    statements: [extract_commit_message] zips [aggregate_dlogs] with [response.responses], so
    surplus inner vectors are ignored and missing ones make the verifier reconstruct fewer points. *)
From Coq Require Import ZArith NArith List Lia Bool.
From CB Require Import Crypto.Alg Crypto.Transcript Crypto.SigmaGeneric Crypto.SigmaCodec
  Crypto.Sigma_dlog Crypto.Sigma_aggregate_dlog Crypto.Sigma_dlogaggequal.
Import ListNotations.

Section DaeObs.
  Context {K : FieldOps} {M : ModOps K}.
  Notation len := (@List.length _).
  Theorem dae_points_surplus_ignored_ : forall (aggs : list (agg_stmt M)) (c zc : K) (ws extra : list (list K)),
    len ws = len aggs -> dae_points aggs c zc (ws ++ extra) = dae_points aggs c zc ws.
  Proof.
    induction aggs as [|a aggs IH]; intros c zc [|w ws] extra L; try discriminate.
    - destruct extra; reflexivity.
    - cbn [dae_points app]. rewrite IH by (cbn in L; lia). reflexivity.
  Qed.
  Theorem dae_extract_surplus_ignored_ : forall (s : dae_stmt (M:=M)) (c zc : K) (ws extra : list (list K)),
    len ws = len (snd s) -> dae_extract s c (zc, ws ++ extra) = dae_extract s c (zc, ws).
  Proof. intros s c zc ws extra L. unfold dae_extract. cbn [fst snd]. now rewrite dae_points_surplus_ignored_. Qed.
  (** missing inner vectors: the verifier reconstructs only as many aggregate points as there are inner vectors *)
  Theorem dae_points_truncated_ : forall (aggs more : list (agg_stmt M)) (c zc : K) (ws : list (list K)),
    len ws = len aggs -> dae_points (aggs ++ more) c zc ws = dae_points aggs c zc ws.
  Proof.
    induction aggs as [|a aggs IH]; intros more c zc [|w ws] L; try discriminate.
    - destruct more; reflexivity.
    - cbn [dae_points app]. rewrite IH by (cbn in L; lia). reflexivity.
  Qed.
End DaeObs.
