(** A lawful instance of the hypotheses of VrfProofs.v: the cyclic group with five elements,
    base point of exact order l = 5 (the hypotheses are jointly satisfiable). *)
From Coq Require Import ZArith List Lia.
From CB Require Import Crypto.PairingAlg Crypto.Vrf.
Local Open Scope Z_scope.

Definition g5_add (a b : five) : five := five_of_Z (five_to_Z a + five_to_Z b).
Definition g5_opp (a : five) : five := five_of_Z (- five_to_Z a).
Definition g5_zmul (n : Z) (a : five) : five := five_of_Z (n * five_to_Z a).

Lemma five_of_to a : five_of_Z (five_to_Z a) = a.
Proof. destruct a; reflexivity. Qed.

Lemma five_to_of z : five_to_Z (five_of_Z z) = z mod 5.
Proof.
  unfold five_of_Z. pose proof (Z.mod_pos_bound z 5 ltac:(lia)) as B.
  assert (C : z mod 5 = 0 \/ z mod 5 = 1 \/ z mod 5 = 2 \/ z mod 5 = 3 \/ z mod 5 = 4) by lia.
  destruct C as [E|[E|[E|[E|E]]]]; rewrite E; reflexivity.
Qed.

Lemma five_of_eq a b : a mod 5 = b mod 5 -> five_of_Z a = five_of_Z b.
Proof. unfold five_of_Z. now intros ->. Qed.

Lemma g5_zmul_add_l x y a : g5_zmul (x + y) a = g5_add (g5_zmul x a) (g5_zmul y a).
Proof.
  unfold g5_zmul, g5_add. rewrite !five_to_of. apply five_of_eq.
  rewrite <- Z.add_mod by lia. f_equal. ring.
Qed.

Lemma g5_zmul_add_r x a b : g5_zmul x (g5_add a b) = g5_add (g5_zmul x a) (g5_zmul x b).
Proof.
  unfold g5_zmul, g5_add. rewrite !five_to_of. apply five_of_eq.
  rewrite Z.mul_mod_idemp_r by lia. rewrite <- Z.add_mod by lia. f_equal. ring.
Qed.

Lemma g5_zmul_mul x y a : g5_zmul (x * y) a = g5_zmul x (g5_zmul y a).
Proof.
  unfold g5_zmul. rewrite !five_to_of. apply five_of_eq.
  rewrite Z.mul_mod_idemp_r by lia. f_equal. ring.
Qed.

Lemma g5_zmul_1 a : g5_zmul 1 a = a.
Proof. unfold g5_zmul. rewrite Z.mul_1_l. apply five_of_to. Qed.

Lemma g5_B_order n : g5_zmul n V1 = V0 <-> (5 | n).
Proof.
  unfold g5_zmul. cbn [five_to_Z]. rewrite Z.mul_1_r. split.
  - intros E. apply (f_equal five_to_Z) in E. rewrite five_to_of in E. cbn in E.
    apply Z.mod_divide; [lia | exact E].
  - intros D. apply Z.mod_divide in D; [|lia]. rewrite (five_of_eq n 0); [reflexivity|]. now rewrite D.
Qed.

Lemma g5_kills a : g5_zmul 5 a = V0.
Proof. destruct a; reflexivity. Qed.
