(** Executable entry points for the C07 correspondence: the protocol models instantiated "in the
    exponent" (F = G = Z mod r, [ZrCodec]: a group element is ONE pseudo-byte [2^260 + dlog], a
    scalar its real 32 bytes).  Definitions only. *)
From Coq Require Import ZArith NArith List String Bool.
From CB Require Import Crypto.Alg Crypto.AlgPairing Crypto.Transcript Crypto.SigmaGeneric Crypto.SigmaCodec
  Crypto.Sigma_dlog Crypto.Sigma_com_eq Crypto.Sigma_com_enc_eq Crypto.Sigma_com_mult Crypto.Sigma_aggregate_dlog
  Crypto.Sigma_enc_trans Crypto.Sigma_com_lin Crypto.Sigma_com_eq_diff Crypto.Sigma_vcom_eq Crypto.Sigma_com_eq_sig Crypto.Sigma_ps_sig_known.
Import ListNotations.
Local Open Scope Z_scope.
Local Open Scope bool_scope.

Record xproto : Type := mkX {
  xp : proto ZrF;
  x_stmt : list Z -> p_stmt xp;
  x_wit : list Z -> p_wit xp;
  x_resp : list Z -> p_resp xp;
  x_recover : p_stmt xp -> p_wit xp -> Z -> p_resp xp -> p_rand xp;
  (** the relation, decided in the exponent *)
  x_relb : p_stmt xp -> p_wit xp -> bool }.

Definition nz (l : list Z) (i : nat) : Z := nth i l 0.

(** Compact output (printing a list of a thousand numbers is slow): runs of ordinary bytes are packed,
    up to 30 at a time, into one number [count * 2^240 + big-endian value] (< 2^248); pseudo-bytes
    (group-element tokens, >= 256) are kept as they are (>= 2^260). *)
Fixpoint pack_go (acc n : N) (l : bytes) : list N :=
  match l with
  | [] => if N.eqb n 0 then [] else [(n * 2 ^ 240 + acc)%N]
  | b :: l' =>
    if N.leb 256 b then (if N.eqb n 0 then [] else [(n * 2 ^ 240 + acc)%N]) ++ b :: pack_go 0%N 0%N l'
    else if N.eqb n 29 then (30 * 2 ^ 240 + (acc * 256 + b))%N :: pack_go 0%N 0%N l'
    else pack_go (acc * 256 + b)%N (n + 1)%N l'
  end.
Definition pack (l : bytes) : list N := pack_go 0%N 0%N l.

(** honest proof: [c] the challenge scalar, [resp] the response scalars the prover output.
    Result: (commit = reconstruction?, recomputed response = response?, relation holds?,
             bytes hashed into the challenge, transcript state after the proof). *)
Definition x_honest (X : xproto) (k : tkind) (ctx : bytes) (pub wit : list Z) (c : Z) (resp : list Z)
  : option (bool * bool * bool * bytes * bytes) :=
  let s := x_stmt X pub in let w := x_wit X wit in let z := x_resp X resp in
  let r := x_recover X s w c z in
  match p_commit (xp X) s r, p_extract (xp X) s c z, p_respond (xp X) s w r c with
  | Some a, Some a', Some z' =>
    Some (bytes_eqb (p_ser_cm (xp X) a) (p_ser_cm (xp X) a'),
          bytes_eqb (p_ser_resp (xp X) z') (p_ser_resp (xp X) z),
          x_relb X s w,
          pack (frame (xp X) k ctx s a), pack (after (xp X) k ctx s a z))
  | _, _, _ => None
  end.

(** verification of an arbitrary (possibly perturbed) proof: the challenge scalar derived from the
    challenge bytes, the frame the verifier hashes, and the state afterwards; [None] = rejected
    because [extract_commit_message] fails. *)
Definition x_verify (X : xproto) (k : tkind) (ctx : bytes) (pub : list Z) (chal : bytes) (resp : list Z)
  : option (Z * bytes * bytes) :=
  let s := x_stmt X pub in let z := x_resp X resp in
  let c := scalar_from_bytes_bls chal in
  match p_extract (xp X) s c z with
  | Some a => Some (c, pack (frame (xp X) k ctx s a), pack (after (xp X) k ctx s a z))
  | None => None
  end.

Definition fadd := Fadd ZrF. Definition fmul := Fmul ZrF.
Definition geq (a b : Z) : bool := Z.eqb (a mod bls_r) (b mod bls_r).

Definition X_dlog : xproto := {|
  xp := dlog_proto ZrCodec;
  x_stmt := fun p => @mkDlog ZrF ZrG (nz p 0) (nz p 1);
  x_wit := fun w => nz w 0; x_resp := fun z => nz z 0;
  x_recover := fun s w c z => dlog_recover s w c z;
  x_relb := fun s w => geq (dl_public s) (smul ZrG w (dl_coeff s)) |}.

Definition X_com_eq : xproto := {|
  xp := com_eq_proto ZrCodec;
  x_stmt := fun p => @mkComEq ZrF ZrG (nz p 0) (nz p 1) (nz p 2) (nz p 3) (nz p 4);
  x_wit := fun w => (nz w 0, nz w 1); x_resp := fun z => (nz z 0, nz z 1);
  x_recover := fun s w c z => com_eq_recover s w c z;
  x_relb := fun s w => geq (ce_commitment s) (Gadd ZrG (smul ZrG (snd w) (ce_kg s)) (smul ZrG (fst w) (ce_kh s)))
                       && geq (ce_y s) (smul ZrG (snd w) (ce_g s)) |}.

Definition X_com_enc_eq : xproto := {|
  xp := com_enc_eq_proto ZrCodec;
  x_stmt := fun p => @mkComEncEq ZrF ZrG (nz p 0) (nz p 1) (nz p 2) (nz p 3) (nz p 4) (nz p 5) (nz p 6) (nz p 7);
  x_wit := fun w => (nz w 0, nz w 1, nz w 2); x_resp := fun z => (nz z 0, nz z 1, nz z 2);
  x_recover := fun s w c z => com_enc_eq_recover s w c z;
  x_relb := fun s w => let '(x, cR, pr) := w in
     geq (cee_e1 s) (smul ZrG cR (cee_pkg s))
     && geq (cee_e2 s) (Gadd ZrG (smul ZrG x (cee_hin s)) (smul ZrG cR (cee_pkh s)))
     && geq (cee_cmm s) (Gadd ZrG (smul ZrG x (cee_ckg s)) (smul ZrG pr (cee_ckh s))) |}.

Definition X_com_mult : xproto := {|
  xp := com_mult_proto ZrCodec;
  x_stmt := fun p => @mkComMult ZrF ZrG (nz p 0) (nz p 1) (nz p 2) (nz p 3) (nz p 4);
  x_wit := fun w => (nz w 0, nz w 1, nz w 2, nz w 3, nz w 4);
  x_resp := fun z => (nz z 0, nz z 1, nz z 2, nz z 3, nz z 4);
  x_recover := fun s w c z => com_mult_recover s w c z;
  x_relb := fun s w => let '(x1, x2, r1, r2, r3) := w in
     let cm x r := Gadd ZrG (smul ZrG x (cm_g s)) (smul ZrG r (cm_h s)) in
     geq (cm_c1 s) (cm x1 r1) && geq (cm_c2 s) (cm x2 r2) && geq (cm_c3 s) (cm (fmul x1 x2) r3) |}.

Definition X_aggregate_dlog : xproto := {|
  xp := agg_proto ZrCodec;
  x_stmt := fun p => @mkAgg ZrF ZrG (nz p 0) (tl p);
  x_wit := fun w => w; x_resp := fun z => z;
  x_recover := fun s w c z => agg_recover s w c z;
  x_relb := fun s w => Nat.eqb (List.length w) (List.length (ag_coeff s)) && geq (ag_public s) (msm (M:=ZrG) w (ag_coeff s)) |}.

(** AndAdapter<Dlog, ComEq> *)
Definition X_and_dlog_com_eq : xproto := {|
  xp := and_proto (xp X_dlog) (xp X_com_eq);
  x_stmt := fun p => (x_stmt X_dlog (firstn 2 p), x_stmt X_com_eq (skipn 2 p));
  x_wit := fun w => (x_wit X_dlog (firstn 1 w), x_wit X_com_eq (skipn 1 w));
  x_resp := fun z => (x_resp X_dlog (firstn 1 z), x_resp X_com_eq (skipn 1 z));
  x_recover := fun s w c z => (x_recover X_dlog (fst s) (fst w) c (fst z), x_recover X_com_eq (snd s) (snd w) c (snd z));
  x_relb := fun s w => x_relb X_dlog (fst s) (fst w) && x_relb X_com_eq (snd s) (snd w) |}.

(** ReplicateAdapter<Dlog> *)
Fixpoint chunk2 (l : list Z) : list (list Z) :=
  match l with a :: b :: l' => [a; b] :: chunk2 l' | _ => [] end.
Definition X_replicate_dlog : xproto := {|
  xp := rep_proto (xp X_dlog);
  x_stmt := fun p => map (x_stmt X_dlog) (chunk2 p);
  x_wit := fun w => w; x_resp := fun z => z;
  x_recover := fun s w c z => map3 (fun si wi zi => x_recover X_dlog si wi c zi) s w z;
  x_relb := fun s w => Nat.eqb (List.length s) (List.length w) && forallb (fun b => b) (map2 (x_relb X_dlog) s w) |}.

(** ComLin: pubs = us(n) ++ cmms(n) ++ [cmm; g; h]; wit = xs(n) ++ rs(n) ++ [r]; resp = zs(n) ++ ss(n) ++ [s] *)
Definition half_n (extra : nat) (l : list Z) : nat := Nat.div (List.length l - extra) 2.
Definition hideZ (g h x r : Z) : Z := Gadd ZrG (smul ZrG x g) (smul ZrG r h).
Definition list_geq (a b : list Z) : bool := Nat.eqb (List.length a) (List.length b) && forallb (fun b => b) (map2 geq a b).
Definition X_com_lin : xproto := {|
  xp := com_lin_proto ZrCodec;
  x_stmt := fun p => let n := half_n 3 p in
    @mkComLin ZrF ZrG (firstn n p) (firstn n (skipn n p)) (nz p (2 * n)) (nz p (2 * n + 1)) (nz p (2 * n + 2));
  x_wit := fun w => let n := half_n 1 w in (firstn n w, firstn n (skipn n w), nz w (2 * n));
  x_resp := fun z => let n := half_n 1 z in (firstn n z, firstn n (skipn n z), nz z (2 * n));
  x_recover := fun s w c z => com_lin_recover s w c z;
  x_relb := fun s w => let '(xs, rs, rr) := w in
     Nat.eqb (List.length xs) (List.length (cl_us s)) && Nat.eqb (List.length rs) (List.length (cl_us s))
     && list_geq (cl_cmms s) (map2 (hideZ (cl_g s) (cl_h s)) xs rs)
     && geq (cl_cmm s) (hideZ (cl_g s) (cl_h s) (Fdot (K:=ZrF) (cl_us s) xs) rr) |}.

(** ComEqDiffGroups instantiated with the same group twice (as the harness does) *)
Definition X_com_eq_diff : xproto := {|
  xp := ced_proto ZrCodec ZrCodec;
  x_stmt := fun p => @mkCed ZrF ZrG ZrG (nz p 0) (nz p 1) (nz p 2) (nz p 3) (nz p 4) (nz p 5);
  x_wit := fun w => (nz w 0, nz w 1, nz w 2); x_resp := fun z => (nz z 0, nz z 1, nz z 2);
  x_recover := fun s w c z => ced_recover s w c z;
  x_relb := fun s w => let '(x, r1, r2) := w in
     geq (cd_c1 s) (hideZ (cd_g1 s) (cd_h1 s) x r1) && geq (cd_c2 s) (hideZ (cd_g2 s) (cd_h2 s) x r2) |}.

(** EncTrans with n1 = n2 = n chunks: pubs = [dlog.public; dlog.coeff; elg.public; elg.c0; elg.c1] ++ 5 per chunk;
    wit = sk :: (r, a) per chunk; resp = common :: (s, t) per chunk *)
Fixpoint chunk5 (l : list Z) : list (list Z) :=
  match l with a :: b :: c :: d :: e :: l' => [a; b; c; d; e] :: chunk5 l' | _ => [] end.
Fixpoint pairs (l : list Z) : list (Z * Z) :=
  match l with a :: b :: l' => (a, b) :: pairs l' | _ => [] end.
Definition halves {A} (l : list A) : list A * list A := let n := Nat.div (List.length l) 2 in (firstn n l, skipn n l).
Definition et_triple (l : list Z) : Z * list (Z * Z) * list (Z * Z) :=
  let '(a, b) := halves (pairs (tl l)) in (nz l 0, a, b).
Definition X_enc_trans : xproto := {|
  xp := enc_trans_proto ZrCodec;
  x_stmt := fun p => let '(e1, e2) := halves (map (x_stmt X_com_eq) (chunk5 (skipn 5 p))) in
    @mkEncTrans ZrF ZrG (@mkDlog ZrF ZrG (nz p 0) (nz p 1)) (@mkElgDec ZrF ZrG (nz p 2) (nz p 3) (nz p 4)) e1 e2;
  x_wit := et_triple; x_resp := et_triple;
  x_recover := fun s w c z => enc_trans_recover s w c z;
  x_relb := fun s w => let '(sk, w1, w2) := w in
     geq (dl_public (et_dlog s)) (smul ZrG sk (dl_coeff (et_dlog s)))
     && Nat.eqb (List.length w1) (List.length (et_e1 s)) && Nat.eqb (List.length w2) (List.length (et_e2 s))
     && forallb (fun b => b) (map2 (x_relb X_com_eq) (et_e1 s) w1)
     && forallb (fun b => b) (map2 (x_relb X_com_eq) (et_e2 s) w2)
     && geq (ed_public (et_elg s))
            (hideZ (ed_c0 (et_elg s)) (ed_c1 (et_elg s)) sk (fadd (lin2 (K:=ZrF) (map fst w1)) (lin2 (K:=ZrF) (map fst w2)))) |}.

(** VecComEq as the harness builds it: n generators, individual commitments at the even indices;
    pubs = [comm] ++ comms(m) ++ gis(n) ++ [h; g_bar; h_bar] with m = ceil(n/2);
    wit = xis(n) ++ [r] ++ ris(m); resp = sis(n) ++ [t] ++ tis(m) *)
Fixpoint even_keys (i : N) (vals : list Z) : list (N * Z) :=
  match vals with [] => [] | v :: vals' => (i, v) :: even_keys (i + 2)%N vals' end.
Definition vc_n (extra : nat) (l : list Z) : nat := Nat.div (2 * (List.length l - extra)) 3.
Definition vc_triple (l : list Z) : list Z * Z * list (N * Z) :=
  let n := vc_n 1 l in (firstn n l, nz l n, even_keys 0%N (skipn (S n) l)).
Definition X_vcom_eq : xproto := {|
  xp := vcom_proto ZrCodec;
  x_stmt := fun p => let n := vc_n 4 p in let m := Nat.div (n + 1) 2 in
    @mkVcom ZrF ZrG (nz p 0) (even_keys 0%N (firstn m (tl p))) (firstn n (skipn (S m) p))
            (nz p (1 + m + n)) (nz p (2 + m + n)) (nz p (3 + m + n));
  x_wit := vc_triple; x_resp := vc_triple;
  x_recover := fun s w c z => vcom_recover s w c z;
  x_relb := fun s w => let '(xis, r, ris) := w in
     geq (vc_comm s) (Gadd ZrG (msm (M:=ZrG) xis (vc_gis s)) (smul ZrG r (vc_h s)))
     && list_geq (map snd (vc_comms s))
          (map2 (fun (p q : N * Z) => hideZ (vc_gbar s) (vc_hbar s) (nth (N.to_nat (fst p)) xis 0) (snd q)) (vc_comms s) ris) |}.

(** ComEqSig over the pairing "in the exponent" ([e a b = a*b]); G2 elements are tokens 2^261 + dlog, target
    group elements 2^262 + dlog.  pubs = [n; a_hat; b_hat] ++ cmts(n) ++ [pk.g; pk.g_tilda] ++ ys(l) ++ y_tildas(l)
    ++ [x_tilda; cmm_g; cmm_h]  (the check prepends n); wit = r' :: (m_i, r_i); resp = z_r' :: (z_m, z_r) *)
Definition G2_TOKEN : N := 2 ^ 261.
Definition GT_TOKEN : N := 2 ^ 262.
Definition ZrCodec2 : CodecOps (PM2 ZrPair) := mkCodecOps ZrF ZrG (fun g => [(G2_TOKEN + Z.to_N g)%N]) ser_scalar_bls 1 32.
Definition ZrCodecT : CodecOps (PMT ZrPair) := mkCodecOps ZrF ZrG (fun g => [(GT_TOKEN + Z.to_N g)%N]) ser_scalar_bls 1 32.
Definition ces_pair (l : list Z) : Z * list (Z * Z) := (nz l 0, pairs (tl l)).
Definition X_com_eq_sig : xproto := {|
  xp := ces_proto (P:=ZrPair) (MC:=ZrG) ZrCodec ZrCodec2 ZrCodecT ZrCodec;
  x_stmt := fun p0 => let n := Z.to_nat (nz p0 0) in let p := tl p0 in
    let l := Nat.div (List.length p - 7 - n) 2 in
    @mkCes ZrF ZrPair ZrG (nz p 0) (nz p 1) (firstn n (skipn 2 p)) (nz p (2 + n)) (nz p (3 + n))
           (firstn l (skipn (4 + n) p)) (firstn l (skipn (4 + n + l) p)) (nz p (4 + n + 2 * l))
           (nz p (5 + n + 2 * l)) (nz p (6 + n + 2 * l));
  x_wit := ces_pair; x_resp := ces_pair;
  x_recover := fun s w c z => ces_recover s w c z;
  x_relb := fun s w => let '(r', vals) := w in
     Nat.eqb (List.length vals) (List.length (cs_cmts s))
     && list_geq (cs_cmts s) (map (fun v => hideZ (cs_g s) (cs_h s) (fst v) (snd v)) vals)
     && geq (fmul (cs_b s) (cs_gt s))
            (fmul (cs_a s) (fadd (cs_xt s) (fadd (msm (M:=ZrG) (map fst vals) (cs_yts s)) (fmul r' (cs_gt s))))) |}.

(** PsSigKnown as the harness builds it: message i is EqualToCommitment / Public / Known for i mod 3 = 0 / 1 / 2.
    pubs = [n; a_hat; b_hat] ++ (commitment | public value | nothing per message) ++ [pk.g; pk.g_tilda] ++ ys(l) ++
    y_tildas(l) ++ [x_tilda; cmm_g; cmm_h]; wit = [n; r'] ++ (m_i, r_i per message); resp = [n; z_r'] ++ (2 | 0 | 1 scalars) *)
Fixpoint pss_msgs (n : nat) (i : nat) (l : list Z) : list (psmsg Z Z) * list Z :=
  match n with
  | O => ([], l)
  | S n' =>
    match Nat.modulo i 3 with
    | 0%nat => let '(ms, r) := pss_msgs n' (S i) (tl l) in (MEq (nz l 0) :: ms, r)
    | 1%nat => let '(ms, r) := pss_msgs n' (S i) (tl l) in (MPub (nz l 0) :: ms, r)
    | _ => let '(ms, r) := pss_msgs n' (S i) l in (MKnown :: ms, r)
    end
  end.
Fixpoint pss_wits (n : nat) (i : nat) (l : list Z) : list (psval Z) :=
  match n with
  | O => []
  | S n' =>
    (match Nat.modulo i 3 with 0%nat => VEq (nz l 0) (nz l 1) | 1%nat => VPub | _ => VKnown (nz l 0) end)
    :: pss_wits n' (S i) (tl (tl l))
  end.
Fixpoint pss_resps (n : nat) (i : nat) (l : list Z) : list (psval Z) :=
  match n with
  | O => []
  | S n' =>
    match Nat.modulo i 3 with
    | 0%nat => VEq (nz l 0) (nz l 1) :: pss_resps n' (S i) (tl (tl l))
    | 1%nat => VPub :: pss_resps n' (S i) l
    | _ => VKnown (nz l 0) :: pss_resps n' (S i) (tl l)
    end
  end.
Definition rec1 (c z w : Z) : Z := fadd z (fmul c w).
Fixpoint pss_recover_go (c : Z) (zs ws : list (psval Z)) : list (psval Z) :=
  match zs, ws with
  | VEq a b :: zs', VEq m r :: ws' => VEq (rec1 c a m) (rec1 c b r) :: pss_recover_go c zs' ws'
  | VPub :: zs', VPub :: ws' => VPub :: pss_recover_go c zs' ws'
  | VKnown a :: zs', VKnown m :: ws' => VKnown (rec1 c a m) :: pss_recover_go c zs' ws'
  | _, _ => []
  end.
Fixpoint pss_relb_go (g h : Z) (msgs : list (psmsg Z Z)) (ws : list (psval Z)) : bool :=
  match msgs, ws with
  | [], [] => true
  | MEq C :: msgs', VEq m r :: ws' => geq C (hideZ g h m r) && pss_relb_go g h msgs' ws'
  | MPub _ :: msgs', VPub :: ws' => pss_relb_go g h msgs' ws'
  | MKnown :: msgs', VKnown _ :: ws' => pss_relb_go g h msgs' ws'
  | _, _ => false
  end.
Definition X_ps_sig_known : xproto := {|
  xp := pss_proto (P:=ZrPair) (MC:=ZrG) ZrCodec ZrCodec2 ZrCodecT ZrCodec;
  x_stmt := fun p0 => let n := Z.to_nat (nz p0 0) in
    let '(msgs, p) := pss_msgs n 0 (skipn 3 p0) in
    let l := Nat.div (List.length p - 5) 2 in
    @mkPss ZrF ZrPair ZrG (nz p0 1) (nz p0 2) msgs (nz p 0) (nz p 1)
           (firstn l (skipn 2 p)) (firstn l (skipn (2 + l) p)) (nz p (2 + 2 * l)) (nz p (3 + 2 * l)) (nz p (4 + 2 * l));
  x_wit := fun w => (nz w 1, pss_wits (Z.to_nat (nz w 0)) 0 (skipn 2 w));
  x_resp := fun z => (nz z 1, pss_resps (Z.to_nat (nz z 0)) 0 (skipn 2 z));
  x_recover := fun s w c z => (rec1 c (fst z) (fst w), pss_recover_go c (snd z) (snd w));
  x_relb := fun s w =>
     pss_relb_go (ps_g s) (ps_h s) (ps_msgs s) (snd w)
     && geq (fmul (ps_b s) (ps_gt s))
            (fmul (ps_a s) (fadd (ps_xt s) (fadd (pss_sum (P:=ZrPair) (ps_msgs s) (snd w) (ps_yts s)) (fmul (fst w) (ps_gt s))))) |}.
