(** Proofs about the derivation paths of [ConcordiumHdWallet] (model: Paths.v). *)
From Coq Require Import NArith List Lia Arith.
From CB Require Import Crypto.Paths.
Import ListNotations.
Local Open Scope N_scope.

Definition H31 : N := 2147483648.

(** [checked_harden] accepts exactly the indices below 2^31 and adds 2^31 to them. *)
Lemma land_H31_small i : i < H31 -> N.land i H31 = 0.
Proof.
  intros Hi. apply N.bits_inj. intros n. rewrite N.land_spec, N.bits_0.
  change H31 with (2 ^ 31). rewrite N.pow2_bits_eqb.
  destruct (N.eqb_spec 31 n) as [<-|]; [|apply Bool.andb_false_r].
  rewrite <- (N.mod_small i (2 ^ 31)) by exact Hi. rewrite N.mod_pow2_bits_high by lia. reflexivity.
Qed.

Lemma land_H31_large i : H31 <= i < 2 ^ 32 -> N.land i H31 <> 0.
Proof.
  intros Hi E. assert (Hb : N.testbit (N.land i H31) 31 = false) by (rewrite E; apply N.bits_0).
  rewrite N.land_spec in Hb. change H31 with (2 ^ 31) in Hb. rewrite N.pow2_bits_true in Hb.
  rewrite Bool.andb_true_r in Hb. rewrite N.testbit_eqb in Hb.
  assert (Hd : i / 2 ^ 31 = 1).
  { change (2 ^ 31) with H31. symmetry. apply (N.div_unique i H31 1 (i - H31)); unfold H31 in *; lia. }
  rewrite Hd in Hb. discriminate.
Qed.

Lemma lor_H31_small i : i < H31 -> N.lor i H31 = i + H31.
Proof.
  intros Hi. pose proof (land_H31_small i Hi) as Hl.
  rewrite <- N.lxor_lor by assumption. symmetry. apply N.add_nocarry_lxor. assumption.
Qed.

Theorem checked_harden_spec_lemma i : i < 2 ^ 32 ->
  checked_harden i = if i <? 2 ^ 31 then Some (i + 2 ^ 31) else None.
Proof.
  intros Hi. unfold checked_harden. change HARDENED_OFFSET with H31. change (2 ^ 31) with H31.
  destruct (N.ltb_spec i H31) as [Hlt|Hge].
  - rewrite land_H31_small by assumption. cbn [N.eqb]. rewrite lor_H31_small by assumption. reflexivity.
  - destruct (N.eqb_spec (N.land i H31) 0) as [E|]; [|reflexivity].
    exfalso. apply (land_H31_large i); [split; assumption|assumption].
Qed.

Lemma harden_small i : i < H31 -> harden i = i + H31.
Proof. apply lor_H31_small. Qed.

(** [harden_all] succeeds iff every index is below 2^31; it adds 2^31 everywhere *)
Lemma harden_all_spec path p : Forall (fun i => i < 2 ^ 32) path -> harden_all path = Some p ->
  p = map (fun i => i + H31) path /\ Forall (fun i => i < H31) path.
Proof.
  intros Hu. revert p. induction Hu as [|i t Hi _ IH]; intros p H; cbn [harden_all] in H.
  - injection H as <-. split; constructor.
  - rewrite checked_harden_spec_lemma in H by assumption. change (2 ^ 31) with H31 in H.
    destruct (N.ltb_spec i H31) as [Hlt|]; [|discriminate].
    destruct (harden_all t) as [t'|]; [|discriminate]. injection H as <-.
    destruct (IH t' eq_refl) as [-> Hall]. split; [reflexivity|constructor; assumption].
Qed.

(** the un-hardened index list of a key kind (with its root) *)
Definition spec_path (n : net) (k : key_kind) : list N :=
  match k with
  | AccountSigningKey ip id cred => [44; net_code n; ip; id; 0; cred]
  | IdCredSec ip id => [44; net_code n; ip; id; 2]
  | PrfKey ip id => [44; net_code n; ip; id; 3]
  | BlindingRandomness ip id => [44; net_code n; ip; id; 4]
  | AttributeCommitmentRandomness ip id cred tag => [44; net_code n; ip; id; 5; cred; tag]
  | VerifiableCredentialSigningKey ix sx vc =>
      [1958950021; net_code n; 0] ++ split_u64_into_chunks ix ++ split_u64_into_chunks sx ++ [vc; 0]
  | VerifiableCredentialBackupEncryptionKey => [1958950021; net_code n; 1]
  end.

Lemma net_code_small n : net_code n < H31.
Proof. destruct n; reflexivity. Qed.

Lemma chunk_bound x d : (x / d) mod 2 ^ 16 < 2 ^ 32.
Proof. eapply N.lt_trans; [apply N.mod_lt; discriminate|reflexivity]. Qed.

Lemma split_u32 x : Forall (fun i => i < 2 ^ 32) (split_u64_into_chunks x).
Proof.
  unfold split_u64_into_chunks. repeat constructor; try apply chunk_bound.
  eapply N.lt_trans; [apply N.mod_lt; discriminate|reflexivity].
Qed.

Lemma path_of_spec n k p : wf_kind k -> path_of n k = Some p ->
  p = map (fun i => i + H31) (spec_path n k).
Proof.
  intros Hwf H. pose proof (net_code_small n) as Hn.
  assert (Hroot : forall c path q, c < H31 -> Forall (fun i => i < 2 ^ 32) path ->
            match harden_all path with Some p' => Some (harden c :: harden (net_code n) :: p') | None => None end = Some q ->
            q = map (fun i => i + H31) (c :: net_code n :: path)).
  { intros c path q Hc Hu Hq. destruct (harden_all path) as [p'|] eqn:E; [|discriminate].
    injection Hq as <-. destruct (harden_all_spec path p' Hu E) as [-> _].
    cbn [map]. rewrite !harden_small by assumption. reflexivity. }
  unfold u32 in *.
  destruct k; cbn [path_of spec_path wf_kind] in *; unfold make_path, make_verifiable_credential_path in H.
  - apply Hroot in H; [assumption|reflexivity|]. repeat constructor; try tauto.
  - apply Hroot in H; [assumption|reflexivity|]. repeat constructor; try tauto.
  - apply Hroot in H; [assumption|reflexivity|]. repeat constructor; try tauto.
  - apply Hroot in H; [assumption|reflexivity|]. repeat constructor; try tauto.
  - apply Hroot in H; [assumption|reflexivity|]. repeat constructor; try tauto.
    destruct Hwf as (_ & _ & _ & Ht). eapply N.lt_trans; [exact Ht|reflexivity].
  - apply Hroot in H; [assumption|reflexivity|].
    cbn [app]. constructor; [reflexivity|]. apply Forall_app. split; [apply split_u32|].
    apply Forall_app. split; [apply split_u32|]. repeat constructor; tauto.
  - apply Hroot in H; [assumption|reflexivity|]. repeat constructor.
Qed.

Lemma map_add_inj a b : map (fun i => i + H31) a = map (fun i => i + H31) b -> a = b.
Proof.
  revert b. induction a as [|x a IH]; intros [|y b] H; try discriminate; [reflexivity|].
  cbn [map] in H. injection H as Hxy Hab. f_equal; [lia|apply IH; assumption].
Qed.

Lemma net_code_inj n1 n2 : net_code n1 = net_code n2 -> n1 = n2.
Proof. destruct n1, n2; cbn; intros H; try reflexivity; discriminate. Qed.

(** the four 16-bit chunks determine a u64 *)
Lemma split_u64_recompose x : x < 2 ^ 64 ->
  x = (x / 2 ^ 48) mod 2 ^ 16 * 2 ^ 48 + (x / 2 ^ 32) mod 2 ^ 16 * 2 ^ 32
      + (x / 2 ^ 16) mod 2 ^ 16 * 2 ^ 16 + x mod 2 ^ 16.
Proof.
  intros Hx.
  assert (E2 : x / 2 ^ 32 = x / 2 ^ 16 / 2 ^ 16) by (rewrite N.div_div by discriminate; reflexivity).
  assert (E3 : x / 2 ^ 48 = x / 2 ^ 32 / 2 ^ 16) by (rewrite N.div_div by discriminate; reflexivity).
  pose proof (N.div_mod x (2 ^ 16) ltac:(discriminate)) as D1.
  pose proof (N.div_mod (x / 2 ^ 16) (2 ^ 16) ltac:(discriminate)) as D2.
  pose proof (N.div_mod (x / 2 ^ 32) (2 ^ 16) ltac:(discriminate)) as D3.
  rewrite <- E2 in D2. rewrite <- E3 in D3.
  assert (H3 : x / 2 ^ 48 < 2 ^ 16) by (apply N.div_lt_upper_bound; [discriminate|exact Hx]).
  rewrite (N.mod_small (x / 2 ^ 48)) by assumption.
  change (2 ^ 64) with 18446744073709551616 in *. change (2 ^ 48) with 281474976710656 in *.
  change (2 ^ 32) with 4294967296 in *. change (2 ^ 16) with 65536 in *.
  lia.
Qed.

Lemma split_u64_inj x y : x < 2 ^ 64 -> y < 2 ^ 64 ->
  split_u64_into_chunks x = split_u64_into_chunks y -> x = y.
Proof.
  unfold split_u64_into_chunks. intros Hx Hy H.
  rewrite (split_u64_recompose x Hx), (split_u64_recompose y Hy).
  pose proof (f_equal (fun l => nth 0 l 0) H) as H3. pose proof (f_equal (fun l => nth 1 l 0) H) as H2.
  pose proof (f_equal (fun l => nth 2 l 0) H) as H1. pose proof (f_equal (fun l => nth 3 l 0) H) as H0.
  cbn [nth] in H3, H2, H1, H0. rewrite H3, H2, H1, H0. reflexivity.
Qed.

Lemma app_inv_len {A} (a a' b b' : list A) : length a = length a' -> a ++ b = a' ++ b' -> a = a' /\ b = b'.
Proof.
  revert a'. induction a as [|x a IH]; intros [|y a'] Hl H; try discriminate; [split; [reflexivity|assumption]|].
  cbn [app] in H. injection H as -> H. cbn [length] in Hl. destruct (IH a' ltac:(lia) H) as [-> ->]. split; reflexivity.
Qed.

(** paths_injective: distinct (network, key kind, indices) give distinct index lists *)
Theorem paths_injective_lemma n1 k1 n2 k2 p : wf_kind k1 -> wf_kind k2 ->
  path_of n1 k1 = Some p -> path_of n2 k2 = Some p -> n1 = n2 /\ k1 = k2.
Proof.
  intros W1 W2 P1 P2. apply path_of_spec in P1; [|assumption]. apply path_of_spec in P2; [|assumption].
  rewrite P1 in P2. apply map_add_inj in P2. clear P1 p.
  destruct k1, k2; cbn [spec_path] in P2;
    try (solve [unfold split_u64_into_chunks in P2; cbn [app] in P2;
                first [discriminate
                      | injection P2; intros; subst; split; [apply net_code_inj; assumption|reflexivity]]]).
  (* the verifiable-credential signing key: recover the contract address from its chunks *)
  cbn [wf_kind] in W1, W2. destruct W1 as (Hx1 & Hs1 & _). destruct W2 as (Hx2 & Hs2 & _).
  pose proof (f_equal (fun l => nth 1 l 0) P2) as Hn. cbn [nth app] in Hn.
  pose proof (f_equal (skipn 3) P2) as Hrest. cbn [skipn app] in Hrest.
  apply app_inv_len in Hrest; [|reflexivity]. destruct Hrest as [Hix Hrest].
  apply app_inv_len in Hrest; [|reflexivity]. destruct Hrest as [Hsx Hrest].
  pose proof (f_equal (fun l => nth 0 l 0) Hrest) as Hvc. cbn [nth] in Hvc.
  split; [apply net_code_inj; assumption|].
  f_equal; [apply split_u64_inj; assumption|apply split_u64_inj; assumption|assumption].
Qed.

(** paths_prefix_free: no derivation path is a proper prefix of another one (no derived key is
    an ancestor of another derived key in the SLIP-10 tree). *)
Lemma firstn_map_app {A B} (f : A -> B) s1 s2 q : map f s2 = map f s1 ++ q ->
  map f (firstn (length s1) s2) = map f s1.
Proof.
  intros H. rewrite <- firstn_map, H. rewrite <- (map_length f s1). rewrite firstn_app, Nat.sub_diag.
  rewrite firstn_all. cbn [firstn]. apply app_nil_r.
Qed.

Theorem paths_prefix_free_lemma n1 k1 n2 k2 p1 p2 q : wf_kind k1 -> wf_kind k2 ->
  path_of n1 k1 = Some p1 -> path_of n2 k2 = Some p2 -> p2 = p1 ++ q -> n1 = n2 /\ k1 = k2 /\ q = [].
Proof.
  intros W1 W2 P1 P2 Hq.
  pose proof P1 as P1'. pose proof P2 as P2'.
  apply path_of_spec in P1; [|assumption]. apply path_of_spec in P2; [|assumption].
  assert (Hpre : firstn (length (spec_path n1 k1)) (spec_path n2 k2) = spec_path n1 k1).
  { apply map_add_inj. apply (firstn_map_app _ _ _ q). rewrite <- P1, <- P2. assumption. }
  assert (Hsame : n1 = n2 /\ k1 = k2).
  { destruct k1, k2; cbn [spec_path] in Hpre;
      try (solve [unfold split_u64_into_chunks in Hpre; cbn [app length firstn] in Hpre;
                  first [discriminate
                        | injection Hpre; intros; subst; split; [apply net_code_inj; congruence|reflexivity]]]).
    cbn [wf_kind] in W1, W2. destruct W1 as (Hx1 & Hs1 & _). destruct W2 as (Hx2 & Hs2 & _).
    match type of Hpre with firstn ?n _ = _ => change n with 13%nat in Hpre end.
    rewrite firstn_all2 in Hpre by (unfold split_u64_into_chunks; cbn [app length]; lia).
    pose proof (f_equal (fun l => nth 1 l 0) Hpre) as Hn. cbn [nth app] in Hn.
    pose proof (f_equal (skipn 3) Hpre) as Hrest. cbn [skipn app] in Hrest.
    apply app_inv_len in Hrest; [|reflexivity]. destruct Hrest as [Hix Hrest].
    apply app_inv_len in Hrest; [|reflexivity]. destruct Hrest as [Hsx Hrest].
    pose proof (f_equal (fun l => nth 0 l 0) Hrest) as Hvc. cbn [nth] in Hvc.
    split; [apply net_code_inj; symmetry; assumption|].
    f_equal; [apply split_u64_inj; try assumption; symmetry; assumption
             |apply split_u64_inj; try assumption; symmetry; assumption|symmetry; assumption]. }
  destruct Hsame as [-> ->]. split; [reflexivity|split; [reflexivity|]].
  rewrite P1' in P2'. injection P2' as <-.
  rewrite <- (app_nil_r p1) in Hq at 1. apply app_inv_head in Hq. symmetry. assumption.
Qed.

(** * [CredentialContext]: the wrappers derive along the paths of the direct getters for the same
    (identity provider, identity, credential, tag); swapping two different indices changes the path. *)
Theorem context_paths_agree_lemma (c : credential_context) (tag : N) :
  ctx_attribute_randomness_path c tag
  = path_of (ctx_net c) (AttributeCommitmentRandomness (ctx_ip c) (ctx_id c) (ctx_cred c) tag)
  /\ ctx_cred_id_prf_path c = path_of (ctx_net c) (PrfKey (ctx_ip c) (ctx_id c)).
Proof. split; reflexivity. Qed.

Theorem context_paths_order_sensitive_lemma n ip id cred tag p :
  u32 ip -> u32 id -> u32 cred -> tag < 256 ->
  path_of n (AttributeCommitmentRandomness ip id cred tag) = Some p ->
  path_of n (AttributeCommitmentRandomness id ip cred tag) = Some p -> ip = id.
Proof.
  intros Hip Hid Hc Ht P1 P2.
  assert (W1 : wf_kind (AttributeCommitmentRandomness ip id cred tag)) by (cbn [wf_kind]; tauto).
  assert (W2 : wf_kind (AttributeCommitmentRandomness id ip cred tag)) by (cbn [wf_kind]; tauto).
  destruct (paths_injective_lemma n _ n _ p W1 W2 P1 P2) as [_ E].
  injection E. intros. assumption.
Qed.
