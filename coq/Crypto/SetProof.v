(** C11 - set membership / non-membership proofs as instances of the bulletproof skeleton
    (set_membership_proof.rs, set_non_membership_proof.rs).  Definitions only.
    The set is padded with [pad_pow2] (utils.rs pad_vector_to_power_of_two) before use.     *)
From Coq Require Import List ZArith Bool.
From CB Require Import Crypto.BpAlg Crypto.Ipa Crypto.RangeProof Crypto.RangeStmt.
Import ListNotations.

Section SetProof.
  Variable Ops : bp_ops.
  Local Notation F := (o_F Ops).
  Local Notation G := (o_G Ops).
  Local Notation f0 := (o_f0 Ops).
  Local Notation f1 := (o_f1 Ops).
  Local Notation fadd := (o_fadd Ops).
  Local Notation fmul := (o_fmul Ops).
  Local Notation fsub := (o_fsub Ops).
  Local Notation fopp := (o_fopp Ops).
  Local Notation feqb := (o_feqb Ops).
  Local Notation g0 := (o_g0 Ops).
  Local Notation gadd := (o_gadd Ops).
  Local Notation gopp := (o_gopp Ops).
  Local Notation smul := (o_smul Ops).
  Local Notation geqb := (o_geqb Ops).
  Local Notation dot := (dot Ops).
  Local Notation msum := (msum Ops).
  Local Notation vadd := (vadd Ops).
  Local Notation vmul := (vmul Ops).
  Local Notation vscale := (vscale Ops).
  Local Notation vconst := (@vconst Ops).
  Local Notation vsum := (vsum Ops).
  Local Notation gvadd := (gvadd Ops).
  Local Notation gvscale := (gvscale Ops).
  Local Notation gvmul := (gvmul Ops).
  Local Notation z_vec := (z_vec Ops).
  Local Notation fpow := (fpow Ops).
  Local Notation powers_from := (powers_from Ops).
  Local Notation gsub := (gsub Ops).
  Local Notation ipa_prove := (ipa_prove Ops).
  Local Notation ipa_code_lhs := (ipa_code_lhs Ops).
  Local Notation svec := (svec Ops).
  Local Notation lr_sum := (lr_sum Ops).
  Local Notation vsub := (vsub Ops).
  Local Notation bp_prove := (bp_prove Ops).
  Local Notation bp_accepts := (bp_accepts Ops).
  Local Notation bp_verdict := (bp_verdict Ops).
  Local Notation bproof := (bproof Ops).

  (** [a_L_a_R]: indicator of the FIRST occurrence of v (None when v does not occur) *)
  Fixpoint indicator (v : F) (s : list F) (found : bool) : list F :=
    match s with
    | [] => []
    | si :: s' => if negb found && feqb v si then f1 :: indicator v s' true
                  else f0 :: indicator v s' found
    end.
  Definition memb (v : F) (s : list F) : bool := existsb (feqb v) s.
  Definition fofnat (n : nat) : F := vsum (vconst f1 n).

  (** ** membership *)
  Definition mem_e (z : F) (s : list F) : list F :=
    let zz := fmul z z in map (fun si => fadd (fmul zz z) (fmul zz si)) s.
  Definition mem_prove (set : list F) (v vr : F) (Gs Hs : list G) (B Bt : G)
             (sL sR : list F) (at_ st t1t t2t : F) (y yi z x w : F) (us : list (F * F)) : option bproof :=
    let s := pad_pow2 set in
    let n := length s in
    if memb v s then
      let aL := indicator v s false in
      Some (bp_prove Gs Hs B Bt aL (map (fun b => fsub b f1) aL) sL sR at_ st t1t t2t
                     (vconst (fopp z) n) (vconst z n) (mem_e z s) (fmul (fmul z z) vr) y yi z x w us)
    else None.
  Definition mem_delta (s : list F) (y z : F) : F :=
    let zz := fmul z z in let n := length s in
    fadd (fmul (fsub z zz) (vsum (z_vec y 0 n)))
         (fmul (fsub (fsub f1 (fmul (fofnat n) z)) (vsum s)) (fmul zz z)).
  Definition mem_eH (s : list F) (yi z : F) : list F :=
    vadd (vconst z (length s)) (vmul (z_vec yi 0 (length s)) (mem_e z s)).
  Definition mem_accepts (set : list F) (V : G) (Gs Hs : list G) (B Bt : G) (p : bproof)
             (y yi z x w : F) (us : list (F * F)) : Prop :=
    let s := pad_pow2 set in
    bp_accepts Gs Hs B Bt p (smul (fmul z z) V) (mem_delta s y z)
               (vconst (fopp z) (length s)) (mem_eH s yi z) yi x w us.
  Definition mem_verdict (set : list F) (V : G) (Gs Hs : list G) (B Bt : G) (p : bproof)
             (y yi z x w : F) (us : list (F * F)) : verdict :=
    let s := pad_pow2 set in
    bp_verdict Gs Hs B Bt p (smul (fmul z z) V) (mem_delta s y z)
               (vconst (fopp z) (length s)) (mem_eH s yi z) y yi x w us.

  (** ** non-membership: a_L_i = (v - s_i)^-1 (inverses supplied as [invs]), a_R_i = v *)
  Definition nonmem_prove (set : list F) (v vr : F) (invs : list F) (Gs Hs : list G) (B Bt : G)
             (sL sR : list F) (at_ st t1t t2t : F) (y yi z x w : F) (us : list (F * F)) : option bproof :=
    let s := pad_pow2 set in
    let n := length s in
    if memb v s then None else
      Some (bp_prove Gs Hs B Bt invs (vconst v n) sL sR at_ st t1t t2t
                     (vconst z n) (map fopp s) (vconst f0 n)
                     (fmul (fmul z (vsum (z_vec y 0 n))) vr) y yi z x w us).
  Definition nonmem_delta (s : list F) (y z : F) : F :=
    let yn := z_vec y 0 (length s) in fsub (vsum yn) (fmul z (dot s yn)).
  Definition nonmem_accepts (set : list F) (V : G) (Gs Hs : list G) (B Bt : G) (p : bproof)
             (y yi z x w : F) (us : list (F * F)) : Prop :=
    let s := pad_pow2 set in
    bp_accepts Gs Hs B Bt p (smul (fmul z (vsum (z_vec y 0 (length s)))) V) (nonmem_delta s y z)
               (vconst z (length s)) (map fopp s) yi x w us.
  Definition nonmem_verdict (set : list F) (V : G) (Gs Hs : list G) (B Bt : G) (p : bproof)
             (y yi z x w : F) (us : list (F * F)) : verdict :=
    let s := pad_pow2 set in
    bp_verdict Gs Hs B Bt p (smul (fmul z (vsum (z_vec y 0 (length s)))) V) (nonmem_delta s y z)
               (vconst z (length s)) (map fopp s) y yi x w us.
End SetProof.
