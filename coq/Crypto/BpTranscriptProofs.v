(** C11 - every Fiat-Shamir challenge of the bulletproofs code is the hash of a frame that
    injectively contains every earlier prover message (both transcript implementations).

    Shape: two message lists have the same shape when they carry the same labels and payloads of the
    same lengths - always the case for two proofs checked in the same context, because group elements
    and scalars have fixed-width [Serial] encodings and vectors are length-prefixed.                 *)
From Coq Require Import NArith List String Lia.
From CB Require Import Crypto.Transcript Crypto.TranscriptProofs Crypto.BpTranscript.
Import ListNotations.

Definition plen (m : lmsg) : nat := List.length (snd m).
Definition same_shape (ms ms' : list lmsg) : Prop :=
  map fst ms = map fst ms' /\ map plen ms = map plen ms'.

Lemma enc_lmsgs_cons k m ms : enc_lmsgs k (m :: ms) = lbl k (fst m) ++ snd m ++ enc_lmsgs k ms.
Proof. unfold enc_lmsgs. cbn [map List.concat]. unfold enc_lmsg, msg. rewrite <- app_assoc. reflexivity. Qed.

Lemma enc_lmsgs_app k a b : enc_lmsgs k (a ++ b) = enc_lmsgs k a ++ enc_lmsgs k b.
Proof. unfold enc_lmsgs. rewrite map_app, concat_app. reflexivity. Qed.

(** same labels + same payload lengths: the framed bytes determine every payload (V1 and legacy) *)
Theorem enc_same_shape_inj : forall k ms ms' x y,
  same_shape ms ms' -> enc_lmsgs k ms ++ x = enc_lmsgs k ms' ++ y -> ms = ms' /\ x = y.
Proof.
  intros k. induction ms as [|[l p] ms IH]; intros [|[l' p'] ms'] x y [Hl Hp] E;
    cbn [map] in Hl, Hp; try discriminate.
  - cbn in E. auto.
  - injection Hl as Hl0 Hl. injection Hp as Hp0 Hp. cbn [fst] in Hl0. unfold plen in Hp0. cbn [snd] in Hp0. subst l'.
    rewrite !enc_lmsgs_cons in E. cbn [fst snd] in E. rewrite <- !app_assoc in E.
    apply app_inv_head in E. apply app_eq_len in E; [|exact Hp0]. destruct E as [-> E].
    destruct (IH ms' x y (conj Hl Hp) E) as [-> ->]. auto.
Qed.

Corollary state_same_shape_inj : forall k st ms ms',
  same_shape ms ms' -> st ++ enc_lmsgs k ms = st ++ enc_lmsgs k ms' -> ms = ms'.
Proof.
  intros k st ms ms' Hs E. apply app_inv_head in E.
  assert (E' : enc_lmsgs k ms ++ [] = enc_lmsgs k ms' ++ []) by (rewrite !app_nil_r; exact E).
  destruct (enc_same_shape_inj k ms ms' [] [] Hs E'). assumption.
Qed.

(** an explicit collision of the hash *)
Definition collision (H : bytes -> bytes) : Prop := exists s s', s <> s' /\ H s = H s'.

(** * inner-product argument *)
Lemma ipa_rounds_inj : forall lrs lrs', flat_map ipa_round lrs = flat_map ipa_round lrs' -> lrs = lrs'.
Proof.
  induction lrs as [|[l r] lrs IH]; intros [|[l' r'] lrs'] E; cbn in E; try discriminate.
  - reflexivity.
  - unfold lm, lb in E. injection E. intros Et -> ->. f_equal. auto.
Qed.

(** the challenge u_j is the hash of a string that determines L_0..L_j and R_0..R_j *)
Theorem ipa_challenges_bind_L_and_R_l : forall k st lrs lrs' j,
  same_shape (ipa_items lrs j) (ipa_items lrs' j) ->
  ipa_state_at k st lrs j = ipa_state_at k st lrs' j ->
  firstn (S j) lrs = firstn (S j) lrs'.
Proof.
  intros k st lrs lrs' j Hs E. unfold ipa_state_at in E.
  apply state_same_shape_inj in E; [|exact Hs]. apply ipa_rounds_inj. exact E.
Qed.

Theorem ipa_alter_gives_collision_l : forall (H : bytes -> bytes) k st lrs lrs' j,
  same_shape (ipa_items lrs j) (ipa_items lrs' j) ->
  firstn (S j) lrs <> firstn (S j) lrs' ->
  H (ipa_state_at k st lrs j) = H (ipa_state_at k st lrs' j) ->
  collision H.
Proof.
  intros H k st lrs lrs' j Hs Hne E. exists (ipa_state_at k st lrs j), (ipa_state_at k st lrs' j).
  split; [|exact E]. intro E'. apply Hne. eapply ipa_challenges_bind_L_and_R_l; eauto.
Qed.

(** * range / set proofs *)
Theorem challenge_frame_injective_l : forall k st pre pre' p p' s,
  same_shape (items_at pre p s) (items_at pre' p' s) ->
  state_at k st pre p s = state_at k st pre' p' s ->
  items_at pre p s = items_at pre' p' s.
Proof. intros k st pre pre' p p' s Hs E. unfold state_at in E. eapply state_same_shape_inj; eauto. Qed.

Lemma app_same_length_inj {A} (a b x y : list A) :
  List.length a = List.length b -> a ++ x = b ++ y -> a = b /\ x = y.
Proof. apply app_eq_len. Qed.

(** what the items of each stage determine (same number of public-input messages) *)
Lemma items_w_inj pre pre' p p' : List.length pre = List.length pre' ->
  items_w pre p = items_w pre' p' ->
  pre = pre' /\ mA p = mA p' /\ mS p = mS p' /\ mT1 p = mT1 p' /\ mT2 p = mT2 p'
  /\ mtx p = mtx p' /\ mtxt p = mtxt p' /\ met p = met p'.
Proof.
  intros Hl E. unfold items_w, items_x, items_z, items_y in E. rewrite <- !app_assoc in E.
  apply app_same_length_inj in E; [|exact Hl]. destruct E as [-> E]. cbn in E. unfold lm in E.
  injection E. intros. repeat split; auto.
Qed.

Lemma items_y_inj pre pre' p p' : List.length pre = List.length pre' ->
  items_y pre p = items_y pre' p' -> pre = pre' /\ mA p = mA p' /\ mS p = mS p'.
Proof.
  intros Hl E. unfold items_y in E. apply app_same_length_inj in E; [|exact Hl]. destruct E as [-> E].
  unfold lm in E. injection E. intros. repeat split; auto.
Qed.
Lemma items_x_inj pre pre' p p' : List.length pre = List.length pre' ->
  items_x pre p = items_x pre' p' ->
  pre = pre' /\ mA p = mA p' /\ mS p = mS p' /\ mT1 p = mT1 p' /\ mT2 p = mT2 p'.
Proof.
  intros Hl E. unfold items_x, items_z, items_y in E. rewrite <- !app_assoc in E.
  apply app_same_length_inj in E; [|exact Hl]. destruct E as [-> E]. cbn in E. unfold lm in E.
  injection E. intros. repeat split; auto.
Qed.

Theorem range_challenges_bind_all_commitments_l : forall k st pre pre' p p' j,
  List.length pre = List.length pre' ->
  same_shape (items_at pre p (SU j)) (items_at pre' p' (SU j)) ->
  state_at k st pre p (SU j) = state_at k st pre' p' (SU j) ->
  pre = pre' /\ mA p = mA p' /\ mS p = mS p' /\ mT1 p = mT1 p' /\ mT2 p = mT2 p'
  /\ mtx p = mtx p' /\ mtxt p = mtxt p' /\ met p = met p'
  /\ firstn (S j) (mlr p) = firstn (S j) (mlr p').
Proof.
  intros k st pre pre' p p' j Hl Hs E.
  apply challenge_frame_injective_l in E; [|exact Hs]. cbn [items_at] in E.
  assert (Lw : List.length (items_w pre p) = List.length (items_w pre' p')).
  { unfold items_w, items_x, items_z, items_y. rewrite !app_length. cbn [List.length]. lia. }
  apply app_same_length_inj in E; [|exact Lw]. destruct E as [Ew Eu].
  apply items_w_inj in Ew; [|exact Hl]. apply ipa_rounds_inj in Eu. intuition.
Qed.

(** the earlier challenges: y, z bind the public inputs, A and S; x additionally T1, T2; w additionally
    t_x, tx~, e~ *)
Theorem early_challenges_bind_l : forall k st pre pre' p p',
  List.length pre = List.length pre' ->
  (same_shape (items_at pre p SY) (items_at pre' p' SY) ->
   state_at k st pre p SY = state_at k st pre' p' SY ->
   pre = pre' /\ mA p = mA p' /\ mS p = mS p')
  /\ (same_shape (items_at pre p SX) (items_at pre' p' SX) ->
      state_at k st pre p SX = state_at k st pre' p' SX ->
      pre = pre' /\ mA p = mA p' /\ mS p = mS p' /\ mT1 p = mT1 p' /\ mT2 p = mT2 p')
  /\ (same_shape (items_at pre p SW) (items_at pre' p' SW) ->
      state_at k st pre p SW = state_at k st pre' p' SW ->
      pre = pre' /\ mA p = mA p' /\ mS p = mS p' /\ mT1 p = mT1 p' /\ mT2 p = mT2 p'
      /\ mtx p = mtx p' /\ mtxt p = mtxt p' /\ met p = met p').
Proof.
  intros k st pre pre' p p' Hl. split; [|split]; intros Hs E;
    apply challenge_frame_injective_l in E; try exact Hs; cbn [items_at] in E.
  - apply items_y_inj in E; [|exact Hl]. exact E.
  - apply items_x_inj in E; [|exact Hl]. exact E.
  - apply items_w_inj in E; [|exact Hl]. exact E.
Qed.

Theorem alter_gives_collision_l : forall (H : bytes -> bytes) k st pre pre' p p' s,
  same_shape (items_at pre p s) (items_at pre' p' s) ->
  items_at pre p s <> items_at pre' p' s ->
  H (state_at k st pre p s) = H (state_at k st pre' p' s) ->
  collision H.
Proof.
  intros H k st pre pre' p p' s Hs Hne E. exists (state_at k st pre p s), (state_at k st pre' p' s).
  split; [|exact E]. intro E'. apply Hne. eapply challenge_frame_injective_l; eauto.
Qed.

(** each stage extends the previous one: a later challenge binds everything an earlier one does *)
Lemma stage_prefix : forall pre p j,
  (exists t, items_at pre p SZ = items_at pre p SY ++ t)
  /\ (exists t, items_at pre p SX = items_at pre p SZ ++ t)
  /\ (exists t, items_at pre p SW = items_at pre p SX ++ t)
  /\ (exists t, items_at pre p (SU j) = items_at pre p SW ++ t)
  /\ (exists t, items_at pre p (SU (S j)) = items_at pre p (SU j) ++ t).
Proof.
  intros pre p j. repeat split; cbn [items_at]; unfold items_w, items_x, items_z; eauto.
  unfold ipa_items. rewrite <- (firstn_skipn (S j) (firstn (S (S j)) (mlr p))).
  rewrite flat_map_app, firstn_firstn. replace (Nat.min (S j) (S (S j))) with (S j) by lia.
  rewrite app_assoc. eauto.
Qed.
