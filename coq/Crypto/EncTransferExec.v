(** C12 - executable entry points of [EncTransfer.v] on the instance Z mod r ("in the exponent":
    a group element is its discrete logarithm) - used for non-vacuity and by the correspondence. *)
From Coq Require Import ZArith NArith List String.
From CB Require Import Crypto.Alg Crypto.Transcript Crypto.SigmaGeneric Crypto.SigmaCodec Crypto.Sigma_dlog
  Crypto.Sigma_com_eq Crypto.Sigma_enc_trans Crypto.BpAlg Crypto.RangeProof Crypto.EncTransfer.
Import ListNotations.
Local Open Scope Z_scope.

(** a toy "hash" (any function is allowed: completeness holds for every [H] and [sfb]) *)
Definition toy_H (b : bytes) : bytes := [N.of_nat (List.length b) mod 256; fold_right N.add 0%N b mod 256]%N.
Definition toy_sfb (b : bytes) : Z := Z.of_N (fold_right (fun x acc => (x + 256 * acc)%N) 0%N b) + 3.

Definition demo_g : Z := 1.
Definition demo_h : Z := 7.
Definition demo_Gs : list Z := map (fun i => 1000 + Z.of_nat i) (seq 0 70).
Definition demo_Hs : list Z := map (fun i => 2000 + Z.of_nat i) (seq 0 70).
Definition zseq (a : Z) (n : nat) : list Z := map (fun i => a + Z.of_nat i) (seq 0 n).
Definition demo_bp_rand (a : Z) : @bp_rand ZrF := @mkBpRand ZrF (zseq a 64) (zseq (a + 100) 64) (a + 200) (a + 201) (a + 202) (a + 203).
Definition demo_chal (a : Z) : @bp_chal ZrF := @mkBpChal ZrF a (a + 1) (a + 2) (a + 3) (zseq (a + 4) 6).

(** the input ciphertext: fixed-randomness encryption of [s] ([encrypt_amount_with_fixed_randomness]) *)
Definition fixed_enc (s : N) : @enc_amount ZrF ZrG :=
  ((0, Fmul ZrF (Z.of_N (s mod 2 ^ 32)) demo_h), (0, Fmul ZrF (Z.of_N (s / 2 ^ 32)) demo_h)).

Definition demo_transfer (s a : N) : option bool :=
  let rnd := @mkTR ZrF [21; 22] [23; 24] (31, [(32, 33); (34, 35)], [(36, 37); (38, 39)]) (demo_bp_rand 300) (demo_bp_rand 600) in
  let sk := 11 in let pk_r := 13 in
  match make_transfer_data ZrCodec toy_H toy_sfb demo_g demo_h demo_Gs demo_Hs [1; 2; 3]%N pk_r sk (fixed_enc s) s 5%N a rnd
          (demo_chal 41) (demo_chal 61) with
  | Some td => Some (verify_transfer_data ZrCodec toy_H toy_sfb demo_g demo_h demo_Gs demo_Hs [1; 2; 3]%N pk_r
                       (Fmul ZrF sk demo_g) (fixed_enc s) td (demo_chal 41) (demo_chal 61))
  | None => None
  end.

Definition demo_sec_to_pub (s a : N) : option bool :=
  let rnd := @mkSR ZrF [23; 24] (31, [(32, 33)], [(36, 37); (38, 39)]) (demo_bp_rand 600) in
  let sk := 11 in
  match make_sec_to_pub_transfer_data ZrCodec toy_H toy_sfb demo_g demo_h demo_Gs demo_Hs [1; 2; 3]%N sk (fixed_enc s) s 5%N a rnd
          (demo_chal 61) with
  | Some sd => Some (verify_sec_to_pub_transfer_data ZrCodec toy_H toy_sfb demo_g demo_h demo_Gs demo_Hs [1; 2; 3]%N
                       (Fmul ZrF sk demo_g) (fixed_enc s) sd (demo_chal 61))
  | None => None
  end.

(** ** wiring of [gen_enc_trans_proof_info] on tokens: every input point is a distinct integer; the
    function does no arithmetic, so the output lists which input ends up in which statement field.
    Order: dlog.public, dlog.coeff, elg_dec.public, elg_dec.coeff[0], elg_dec.coeff[1], then per
    ComEq of encexp1 and encexp2: commitment, y, cmm_key.g, cmm_key.h, g. *)
Definition com_eq_fields (s : com_eq_stmt ZrG) : list Z := [ce_commitment s; ce_y s; ce_kg s; ce_kh s; ce_g s].
Definition wiring (g h pk_s pk_r : Z) (S : Z * Z) (A S' : list (Z * Z)) : list Z * list (list Z) * list (list Z) :=
  let st := @gen_enc_trans_proof_info ZrF ZrG g h pk_s pk_r S A S' in
  ([dl_public (et_dlog st); dl_coeff (et_dlog st); ed_public (et_elg st); ed_c0 (et_elg st); ed_c1 (et_elg st)],
   map com_eq_fields (et_e1 st), map com_eq_fields (et_e2 st)).

(** ** the bytes hashed for the sigma proof's challenge (the FIRST challenge of a transfer): transcript
    initialisation of [make_transfer_data] / [make_sec_to_pub_transfer_data] (legacy [RandomOracle] domain,
    "ctx", "receiver_pk", "sender_pk" / "pk", each appended as a whole [Serial] value), EncTrans [public],
    then the commit message under "point".  Group elements are tokens (pseudo-byte 2^260 + token) and the
    serialised global context is the single marker 2^259; the check expands both to the real bytes and
    compares sha3-256 with the challenge of the real proof. *)
Definition GC_MARK : N := (2 ^ 259)%N.
Definition frame_tokens (sec2pub : bool) (g h pk_s pk_r : Z) (S : Z * Z) (A S' : list (Z * Z))
    (cm : Z * Z * list (Z * Z) * list (Z * Z)) : bytes :=
  let ctx := if sec2pub then sec_to_pub_ctx ZrCodec g [GC_MARK] pk_s else transfer_ctx ZrCodec g [GC_MARK] pk_r pk_s in
  frame (enc_trans_proto ZrCodec) Legacy ctx (@gen_enc_trans_proof_info ZrF ZrG g h pk_s pk_r S A S') cm.
