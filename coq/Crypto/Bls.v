(** Model of rust-src/concordium_base/src/aggregate_sig/mod.rs (BLS aggregate signatures and
    the proof of possession), over an abstract pairing setting [A : pops] (PairingAlg.v).
    Definitions only; everything is executable once [A] and the hash functions are
    instantiated (see [ZrP] in PairingAlg.v).  The target group is written additively, so the
    code's product of pairings is a sum here.

      Msg        byte strings
      hm         [hash_message] = SHA-512 (only its equality is observed, by [has_duplicates])
      H1         [P::G1::hash_to_group]
      Hc         the random oracle of the dlog sigma protocol after absorbing
                 "public", "coeff" and "point" in the context [ctx]
      ch_scalar  [C::scalar_from_bytes] *)
From Coq Require Import List Bool.
From CB Require Import Crypto.PairingAlg.
Import ListNotations.

Section Bls.
  Variable A : pops.
  Variable Msg : Type.
  Variable Dg : Type.
  Variable dg_eqb : Dg -> Dg -> bool.
  Variable hm : Msg -> Dg.
  Variable H1 : Msg -> P1 A.

  Notation K := (PF A).
  Notation G1 := (P1 A).
  Notation G2 := (P2 A).
  Notation GT := (PT A).

  (** [PublicKey::from_secret], [SecretKey::sign], [PublicKey::verify] *)
  Definition pk_of (sk : K) : G2 := msmul G2 sk (gen2 A).
  Definition sign (sk : K) (m : Msg) : G1 := msmul G1 sk (H1 m).
  Definition verify (pk : G2) (m : Msg) (sig : G1) : bool :=
    check_pairing_eq A sig (gen2 A) (H1 m) pk.

  (** [Signature::aggregate], [Signature::empty]; a list is aggregated left to right starting
      from its first element, as the callers do. *)
  Definition aggregate (s t : G1) : G1 := madd G1 s t.
  Definition empty_sig : G1 := m0 G1.
  Definition aggregate_list (sigs : list G1) : G1 :=
    match sigs with
    | [] => empty_sig
    | s :: rest => fold_left aggregate rest s
    end.

  (** [has_duplicates]: the code sorts the SHA-512 digests and compares neighbours; the model
      is the quadratic "some digest occurs twice". *)
  Fixpoint has_dup (ds : list Dg) : bool :=
    match ds with
    | [] => false
    | d :: ds' => existsb (dg_eqb d) ds' || has_dup ds'
    end.

  (** the fold of [verify_aggregate_sig]: [prod * pair(hash_to_group(m), pk)] *)
  Definition pair_step (acc : GT) (p : Msg * G2) : GT := madd GT acc (pair A (H1 (fst p)) (snd p)).
  Definition prod_pairs (pairs : list (Msg * G2)) : GT := fold_left pair_step pairs (m0 GT).

  Definition verify_aggregate_sig (pairs : list (Msg * G2)) (sig : G1) : bool :=
    if has_dup (map (fun p => hm (fst p)) pairs) then false
    else match pairs with
         | [] => false
         | _ => meqb GT (pair A sig (gen2 A)) (prod_pairs pairs)
         end.

  (** sum of public keys (sequential below 150 keys, rayon fold/reduce above; see [par_sum]) *)
  Definition sum_pks (pks : list G2) : G2 := fold_left (madd G2) pks (m0 G2).

  Definition hybrid_step (acc : GT) (g : Msg * list G2) : GT :=
    madd GT acc (pair A (H1 (fst g)) (sum_pks (snd g))).
  Definition prod_groups (groups : list (Msg * list G2)) : GT := fold_left hybrid_step groups (m0 GT).

  (** [verify_aggregate_sig_hybrid]: no duplicate check, no emptiness check. *)
  Definition verify_aggregate_sig_hybrid (groups : list (Msg * list G2)) (sig : G1) : bool :=
    meqb GT (pair A sig (gen2 A)) (prod_groups groups).

  (** [verify_aggregate_sig_trusted_keys] *)
  Definition verify_aggregate_sig_trusted_keys (m : Msg) (pks : list G2) (sig : G1) : bool :=
    match pks with
    | [] => false
    | _ => check_pairing_eq A sig (gen2 A) (H1 m) (sum_pks pks)
    end.

  (** rayon's [par_iter().fold(id, f).reduce(id, op)]: the input is split into consecutive
      chunks, each chunk is folded from the identity, the partial results are combined. *)
  Definition par_prod (chunks : list (list (Msg * G2))) : GT :=
    fold_left (madd GT) (map prod_pairs chunks) (m0 GT).
  Definition par_prod_groups (chunks : list (list (Msg * list G2))) : GT :=
    fold_left (madd GT) (map prod_groups chunks) (m0 GT).
  Definition par_sum (chunks : list (list G2)) : G2 :=
    fold_left (madd G2) (map sum_pks chunks) (m0 G2).

  (** *** Proof of possession: [SecretKey::prove] / [PublicKey::check_proof] = the [Dlog]
      sigma protocol in G2 with base [one_point], inside the caller's random-oracle context. *)
  Variable Ctx : Type.
  Variable Ch : Type.
  Variable ch_eqb : Ch -> Ch -> bool.
  Variable Hc : Ctx * G2 * G2 * G2 -> Ch.
  Variable ch_scalar : Ch -> K.

  (** [w] is the prover's randomness ([generate_non_zero_scalar]). *)
  Definition pop_prove (ctx : Ctx) (sk w : K) : Ch * K :=
    let commit := msmul G2 w (gen2 A) in
    let ch := Hc (ctx, pk_of sk, gen2 A, commit) in
    let c := ch_scalar ch in
    (ch, fadd K (fmul K c sk) w).

  Definition pop_point (pk : G2) (proof : Ch * K) : G2 :=
    let c := ch_scalar (fst proof) in
    msub G2 (msmul G2 (snd proof) (gen2 A)) (msmul G2 c pk).

  Definition pop_check (ctx : Ctx) (pk : G2) (proof : Ch * K) : bool :=
    ch_eqb (Hc (ctx, pk, gen2 A, pop_point pk proof)) (fst proof).
End Bls.
