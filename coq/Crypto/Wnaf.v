(** Model of [GenericMultiExp::new] and [GenericMultiExp::multiexp]
    (rust-src/concordium_base/src/curve_arithmetic/mod.rs), definitions only.

    Scalars are what [PrimeField::into_repr] returns: a list of little-endian 64-bit
    limbs (each a [Z] in [0, 2^64)).  Everything [u64]/[i64]-specific is explicit:
    [>>] and [<<] on u64 (bits shifted out of 64 bits are dropped), the window mask
    [width - 1], the [as i64] casts and [wrapping_sub].  [window_size_plus1] of the
    code is [w1] here ([w1 = w + 1], the code asserts [2 <= w1 < 63]).

    The group is abstract (Section variables): [gadd] = [plus_point], [gsub] =
    [minus_point], [gdbl] = [double_point], [gzero] = [zero_point]. *)
From Coq Require Import ZArith List.
Import ListNotations.
Local Open Scope Z_scope.

Definition W64 : Z := 2 ^ 64.

(** [repr_limbs[i]] (in range whenever the code indexes) and
    [repr_limbs.get(i).copied().unwrap_or(0)]. *)
Definition limb (ls : list Z) (i : Z) : Z := nth (Z.to_nat i) ls 0.

(** u64 [x >> s] and [x << s] (0 <= s < 64; the result of [<<] is truncated to 64 bits). *)
Definition shr64 (x s : Z) : Z := Z.shiftr x s.
Definition shl64 (x s : Z) : Z := (Z.shiftl x s) mod W64.

(** two's-complement wrap of an integer into i64 ([wrapping_sub] on [i64]). *)
Definition wrap_i64 (x : Z) : Z := (x + 2 ^ 63) mod 2 ^ 64 - 2 ^ 63.

(** The buffer of bits of the scalar starting at bit [pos]:
<<
   let u64_idx = pos / 64;  let bit_idx = pos % 64;  let cur_u64 = repr_limbs[u64_idx];
   if bit_idx + window_size_plus1 < 64 { cur_u64 >> bit_idx }
   else { let next_u64 = repr_limbs.get(u64_idx + 1).copied().unwrap_or(0);
          (cur_u64 >> bit_idx) | (next_u64 << (64 - bit_idx)) }
>> *)
Definition bit_buf (w1 : Z) (ls : list Z) (pos : Z) : Z :=
  let u64_idx := pos / 64 in
  let bit_idx := pos mod 64 in
  let cur_u64 := limb ls u64_idx in
  if bit_idx + w1 <? 64 then shr64 cur_u64 bit_idx
  else
    let next_u64 := limb ls (u64_idx + 1) in
    Z.lor (shr64 cur_u64 bit_idx) (shl64 next_u64 (64 - bit_idx)).

(** [window_val = carry + (bit_buf & window_mask)] with [width = 1u64 << w1],
    [window_mask = width - 1]. *)
Definition window_val (w1 : Z) (ls : list Z) (pos carry : Z) : Z :=
  carry + Z.land (bit_buf w1 ls pos) (2 ^ w1 - 1).

(** The recoding loop [while pos < num_bits { ... }].  The vector [v] of the code is
    the returned list (so [v.len() = pos] throughout); [fuel] bounds the number of
    iterations (every iteration advances [pos] by at least 1, so [num_bits] suffices).
<<
   if window_val & 1 == 0 { v.push(0); pos += 1; }
   else { v.push(if window_val < width / 2 { carry = 0; window_val as i64 }
                 else { carry = 1; (window_val as i64).wrapping_sub(width as i64) });
          v.extend(repeat(0).take(window_size_plus1 - 1)); pos += window_size_plus1; }
>> *)
Fixpoint wnaf_loop (fuel : nat) (w1 : Z) (ls : list Z) (num_bits pos carry : Z) : list Z :=
  match fuel with
  | O => []
  | S fuel' =>
      if pos <? num_bits then
        let wv := window_val w1 ls pos carry in
        if Z.land wv 1 =? 0 then
          0 :: wnaf_loop fuel' w1 ls num_bits (pos + 1) carry
        else if wv <? 2 ^ w1 / 2 then
          wv :: repeat 0 (Z.to_nat (w1 - 1)) ++ wnaf_loop fuel' w1 ls num_bits (pos + w1) 0
        else
          wrap_i64 (wv - 2 ^ w1) :: repeat 0 (Z.to_nat (w1 - 1))
            ++ wnaf_loop fuel' w1 ls num_bits (pos + w1) 1
      else []
  end.

(** The digit vector computed for one scalar with window size [w] ([self.window_size]). *)
Definition wnaf (w : Z) (ls : list Z) : list Z :=
  let num_bits := 64 * Z.of_nat (length ls) in
  wnaf_loop (Z.to_nat num_bits) (w + 1) ls num_bits 0 0.

(** Integer value of a limb vector and of a digit vector ([sum_j d_j 2^j]). *)
Fixpoint limbs_val (ls : list Z) : Z :=
  match ls with [] => 0 | l :: ls' => l + W64 * limbs_val ls' end.
Fixpoint digits_val (ds : list Z) : Z :=
  match ds with [] => 0 | d :: ds' => d + 2 * digits_val ds' end.

Section Group.
  Variable G : Type.
  Variable gzero : G.
  Variable gadd gsub : G -> G -> G.
  Variable gdbl : G -> G.

  (** [GenericMultiExp::new], one row: [g, 3g, ..., (2^w - 1) g]:
<<
   let sq = g + g; let mut tmp = g; let num_exponents = 1 << (window_size - 1);
   exps.push(tmp); for _ in 1..num_exponents { tmp = tmp + sq; exps.push(tmp); }
>> *)
  Fixpoint table_loop (n : nat) (sq tmp : G) : list G :=
    match n with
    | O => []
    | S n' => let tmp' := gadd tmp sq in tmp' :: table_loop n' sq tmp'
    end.
  Definition table (w : Z) (g : G) : list G :=
    let sq := gadd g g in
    let num_exponents := 2 ^ (w - 1) in
    g :: table_loop (Z.to_nat (num_exponents - 1)) sq g.

  (** One arm of the inner loop:
<<
   match wnaf_i.get(j) { Some(&ge) if ge > 0 => a = a + table_i[(ge / 2) as usize],
                         Some(&ge) if ge < 0 => a = a - table_i[((-ge) / 2) as usize], _ => () }
>>
      ([/] on i64 truncates; [nth .. gzero] stands for the indexing, which the
      theorems show to be in range). *)
  Definition eval_step (j : nat) (a : G) (wnaf_i : list Z) (table_i : list G) : G :=
    match nth_error wnaf_i j with
    | Some ge =>
        if 0 <? ge then gadd a (nth (Z.to_nat (Z.quot ge 2)) table_i gzero)
        else if ge <? 0 then gsub a (nth (Z.to_nat (Z.quot (- ge) 2)) table_i gzero)
        else a
    | None => a
    end.

  (** [for (wnaf_i, table_i) in wnaf.iter().zip(self.table.iter())] *)
  Fixpoint eval_inner (j : nat) (a : G) (wnafs : list (list Z)) (tables : list (list G)) : G :=
    match wnafs, tables with
    | wi :: ws, ti :: ts => eval_inner j (eval_step j a wi ti) ws ts
    | _, _ => a
    end.

  (** [for j in (0..n).rev() { a = a.double_point(); inner }] *)
  Fixpoint eval_outer (n : nat) (a : G) (wnafs : list (list Z)) (tables : list (list G)) : G :=
    match n with
    | O => a
    | S j => eval_outer j (eval_inner j (gdbl a) wnafs tables) wnafs tables
    end.

  (** [GenericMultiExp::new(gs, w).multiexp(exps)] where [field_bits] is
      [C::Scalar::NUM_BITS]; the outer loop is [for j in (0..=NUM_BITS).rev()]. *)
  Definition multiexp_digits (field_bits : nat) (wnafs : list (list Z)) (tables : list (list G)) : G :=
    eval_outer (S field_bits) gzero wnafs tables.
  Definition multiexp (w : Z) (field_bits : nat) (gs : list G) (ss : list (list Z)) : G :=
    multiexp_digits field_bits (map (wnaf w) ss) (map (table w) gs).
End Group.

(** Executable instance "in the exponent": the group is Z mod r written additively;
    a point is its discrete logarithm w.r.t. the generator. *)
Definition zr_multiexp (r : Z) (w : Z) (field_bits : nat) (gs : list Z) (ss : list (list Z)) : Z :=
  multiexp Z 0 (fun a b => (a + b) mod r) (fun a b => (a - b) mod r) (fun a => (a + a) mod r)
    w field_bits gs ss.

(** limbs of a non-negative integer, [n] limbs, little endian *)
Fixpoint to_limbs (n : nat) (x : Z) : list Z :=
  match n with O => [] | S n' => x mod W64 :: to_limbs n' (x / W64) end.
