(** Framing theorems for [Transcript.v]: the V1 framing is uniquely decodable; the legacy framing is
    not (label splitting), but is injective for a fixed schema. *)
From Coq Require Import NArith ZArith List String Ascii Lia.
From CB Require Import Crypto.Transcript.
Import ListNotations.
Local Open Scope N_scope.

Lemma app_eq_len {A} (a b x y : list A) :
  List.length a = List.length b -> a ++ x = b ++ y -> a = b /\ x = y.
Proof.
  revert b. induction a as [|h a IH]; intros [|h' b] Hl E; try discriminate; cbn in *.
  - auto.
  - injection E as -> E. destruct (IH b) as [-> ->]; auto.
Qed.

Lemma le_bytes_length n : forall x, List.length (le_bytes n x) = n.
Proof. induction n; intros x; cbn; auto. Qed.
Lemma be_bytes_length n x : List.length (be_bytes n x) = n.
Proof. unfold be_bytes. now rewrite rev_length, le_bytes_length. Qed.

Lemma le_bytes_inj n : forall x y, x < 256 ^ N.of_nat n -> y < 256 ^ N.of_nat n ->
  le_bytes n x = le_bytes n y -> x = y.
Proof.
  induction n as [|n IH]; intros x y Hx Hy E.
  - cbn in Hx, Hy. lia.
  - cbn [le_bytes] in E. injection E as E0 E1.
    rewrite Nat2N.inj_succ, N.pow_succ_r' in Hx, Hy.
    assert (x / 256 = y / 256).
    { apply IH; auto; apply N.div_lt_upper_bound; lia. }
    rewrite (N.div_mod x 256), (N.div_mod y 256) by lia. congruence.
Qed.
Lemma be_bytes_inj n x y : x < 256 ^ N.of_nat n -> y < 256 ^ N.of_nat n ->
  be_bytes n x = be_bytes n y -> x = y.
Proof.
  unfold be_bytes. intros Hx Hy E. apply (le_bytes_inj n); auto.
  rewrite <- (rev_involutive (le_bytes n x)), E. apply rev_involutive.
Qed.
Lemma be_bytes_lt n x : Forall (fun b => b < 256) (be_bytes n x).
Proof.
  unfold be_bytes. apply Forall_rev. revert x. induction n; intros x; cbn; constructor; auto.
  apply N.mod_lt. lia.
Qed.

Definition W64 : N := 2 ^ 64.
Lemma be64_inj x y : x < W64 -> y < W64 -> be64 x = be64 y -> x = y.
Proof. unfold be64, W64. intros Hx Hy. apply be_bytes_inj; assumption. Qed.
Lemma be64_length x : List.length (be64 x) = 8%nat.
Proof. apply be_bytes_length. Qed.

(** labels whose List.length fits the [as u64] conversion (always the case in Rust: a slice is shorter
    than 2^64 bytes) *)
Definition short (l : bytes) : Prop := len l < W64.

(** *** V1: one label frame is self-delimiting *)
Lemma lbl_v1_split l l' x y : short l -> short l' ->
  lbl V1 l ++ x = lbl V1 l' ++ y -> l = l' /\ x = y.
Proof.
  unfold lbl. intros Hl Hl'. rewrite <- !app_assoc. intro E.
  apply app_eq_len in E; [|now rewrite !be64_length]. destruct E as [E1 E2].
  apply be64_inj in E1; auto. unfold len in E1. apply Nat2N.inj in E1.
  apply app_eq_len in E2; auto.
Qed.

(** *** [frame_v1_injective], part 1: label sequences are uniquely decodable *)
Theorem frame_v1_labels_injective_ : forall ls ls',
  Forall short ls -> Forall short ls' ->
  enc_labels V1 ls = enc_labels V1 ls' -> ls = ls'.
Proof.
  unfold enc_labels. induction ls as [|l ls IH]; intros [|l' ls'] Hs Hs' E; cbn [map List.concat] in E.
  - reflexivity.
  - apply (f_equal (@List.length N)) in E. unfold lbl in E. rewrite ?app_length, be64_length in E. cbn [List.length] in E. lia.
  - apply (f_equal (@List.length N)) in E. unfold lbl in E. rewrite ?app_length, be64_length in E. cbn [List.length] in E. lia.
  - inversion Hs; inversion Hs'; subst.
    apply lbl_v1_split in E; auto. destruct E as [-> E]. f_equal. now apply IH.
Qed.

(** *** part 2: with prefix-free message codecs the framed bytes determine every message.
    A schema assigns to every label the set of [Serial] encodings that may follow it. *)
Definition prefix_free (P : bytes -> Prop) : Prop :=
  forall a b x y, P a -> P b -> a ++ x = b ++ y -> a = b.
Definition schema := bytes -> bytes -> Prop.
Definition schema_prefix_free (sch : schema) : Prop := forall l, prefix_free (sch l).
Definition conforms (sch : schema) (m : lmsg) : Prop := short (fst m) /\ sch (fst m) (snd m).

Theorem frame_v1_messages_injective_ : forall sch, schema_prefix_free sch ->
  forall ms ms', Forall (conforms sch) ms -> Forall (conforms sch) ms' ->
  enc_lmsgs V1 ms = enc_lmsgs V1 ms' -> ms = ms'.
Proof.
  intros sch Hpf. unfold enc_lmsgs.
  induction ms as [|[l p] ms IH]; intros [|[l' p'] ms'] Hc Hc' E; cbn [map List.concat] in E.
  - reflexivity.
  - apply (f_equal (@List.length N)) in E. unfold enc_lmsg, msg, lbl in E.
    rewrite ?app_length, be64_length in E. cbn [List.length] in E. lia.
  - apply (f_equal (@List.length N)) in E. unfold enc_lmsg, msg, lbl in E.
    rewrite ?app_length, be64_length in E. cbn [List.length] in E. lia.
  - inversion Hc as [|? ? [Hs Hp] Hc1]; inversion Hc' as [|? ? [Hs' Hp'] Hc1']; subst. cbn [fst snd] in *.
    unfold enc_lmsg, msg in E. cbn [fst snd] in E. rewrite <- !app_assoc in E.
    apply lbl_v1_split in E; auto. destruct E as [-> E].
    assert (p = p') by (eapply Hpf; eauto). subst p'.
    apply app_inv_head in E. f_equal. now apply IH.
Qed.

(** a fixed-List.length codec is prefix free *)
Lemma fixed_length_prefix_free (P : bytes -> Prop) n :
  (forall a, P a -> List.length a = n) -> prefix_free P.
Proof.
  intros Hn a b x y Ha Hb E. apply app_eq_len in E; [tauto|]. now rewrite (Hn a), (Hn b).
Qed.

(** *** legacy [RandomOracle]: labels are absorbed raw, so label boundaries are lost *)
Theorem frame_legacy_labels_refuted_ :
  exists ls ls', ls <> ls' /\ enc_labels Legacy ls = enc_labels Legacy ls'.
Proof.
  exists [str "ab"; str "c"], [str "a"; str "bc"]. split; [discriminate|reflexivity].
Qed.
(** the same at the level of labelled messages: label "ab" with message bytes "c.." collides with
    label "a" and message bytes "bc.." *)
Theorem frame_legacy_messages_refuted_ :
  exists m m' : lmsg, m <> m' /\ enc_lmsg Legacy m = enc_lmsg Legacy m'.
Proof.
  exists (str "ab", str "c"), (str "a", str "bc"). split; [discriminate|reflexivity].
Qed.

(** *** positive part for both framings: with a *fixed schema* (the same label sequence, a
    prefix-free codec at every position) the bytes determine every message, and the whole frame is
    itself prefix free.  This is what a fixed protocol's [public] relies on under the legacy oracle. *)
Definition fixed_schema := list (bytes * (bytes -> Prop)).
Definition conforms_fixed (sch : fixed_schema) (ms : list lmsg) : Prop :=
  Forall2 (fun s m => fst m = fst s /\ snd s (snd m)) sch ms.

Theorem frame_fixed_schema_injective_ : forall k (sch : fixed_schema),
  Forall (fun s => prefix_free (snd s)) sch ->
  forall ms ms' x y, conforms_fixed sch ms -> conforms_fixed sch ms' ->
  enc_lmsgs k ms ++ x = enc_lmsgs k ms' ++ y -> ms = ms' /\ x = y.
Proof.
  intros k sch Hpf. unfold enc_lmsgs, conforms_fixed.
  induction Hpf as [|[l P] sch HP Hpf IH]; intros ms ms' x y Hc Hc' E.
  - inversion Hc; inversion Hc'; subst. cbn in E. auto.
  - inversion Hc as [|? [l1 p1] ? ? [Hl1 Hp1] Hc1]; inversion Hc' as [|? [l2 p2] ? ? [Hl2 Hp2] Hc2]; subst.
    cbn in *. subst l1 l2. unfold enc_lmsg, msg in E. cbn [fst snd] in E.
    rewrite <- !app_assoc in E. apply app_inv_head in E.
    assert (p1 = p2) by (eapply HP; eauto). subst p2. apply app_inv_head in E.
    destruct (IH _ _ _ _ Hc1 Hc2 E) as [-> ->]. auto.
Qed.

(** scalar_from_bytes keeps 254 bits: the result is a canonical scalar *)
Lemma scalar_from_bytes_bls_range bs :
  (0 <= scalar_from_bytes_bls bs < 2 ^ 254)%Z.
Proof.
  unfold scalar_from_bytes_bls. split; [apply N2Z.is_nonneg|].
  change (2 ^ 254)%Z with (Z.of_N (2 ^ 254)). apply N2Z.inj_lt. apply N.mod_lt. discriminate.
Qed.
