(** C08 - proofs about the identity pipeline model (IdPipeline.v). *)
From Coq Require Import List NArith ZArith Bool Lia Field Ring Setoid.
From CB Require Import Crypto.Shamir Crypto.ElGamalExp Crypto.IdShamirProofs Crypto.IdPipeline.
Import ListNotations.

(* ------------------------------------------------------------------------------------------ *)
(** * Revocation: decrypt-and-combine over any >= threshold revokers *)
Section Revocation.
  Variable F : Type.
  Variables (f0 f1 : F) (fadd fmul fsub : F -> F -> F) (fopp : F -> F) (fdiv : F -> F -> F) (finv_t : F -> F).
  Hypothesis Ffield : field_theory f0 f1 fadd fmul fsub fopp fdiv finv_t (@eq F).
  Variable finv : F -> option F.
  Hypothesis finv_zero : finv f0 = None.
  Hypothesis finv_nonzero : forall x, x <> f0 -> finv x = Some (finv_t x).
  Variable G : Type.
  Variables (gzero : G) (gadd : G -> G -> G) (gopp : G -> G) (smul : F -> G -> G).
  Hypothesis gadd_assoc : forall a b c, gadd a (gadd b c) = gadd (gadd a b) c.
  Hypothesis gadd_comm : forall a b, gadd a b = gadd b a.
  Hypothesis gadd_0_l : forall a, gadd gzero a = a.
  Hypothesis gadd_opp : forall a, gadd a (gopp a) = gzero.
  Hypothesis smul_add_l : forall x y a, smul (fadd x y) a = gadd (smul x a) (smul y a).
  Hypothesis smul_add_r : forall x a b, smul x (gadd a b) = gadd (smul x a) (smul x b).
  Hypothesis smul_mul : forall x y a, smul (fmul x y) a = smul x (smul y a).
  Hypothesis smul_1 : forall a, smul f1 a = a.
  Variables (g h : G).

  Let Fring : ring_theory f0 f1 fadd fmul fsub fopp (@eq F) := F_R Ffield.

  Local Notation evalS := (eval_share F f0 fadd fmul).
  Local Notation pointOf := (fun ac : revoker F * cipher G => ar_point F (fst ac)).
  Local Notation encOf secret coeffs a k :=
    (encrypt_exp F G gadd smul g h (ar_pk F G smul g a) (evalS secret coeffs (ar_point F a)) k).

  Lemma decrypt_share_enc secret coeffs (a : revoker F) k :
    decrypt_share F G gadd gopp smul (a, encOf secret coeffs a k)
    = (ar_point F a, smul (evalS secret coeffs (ar_point F a)) h).
  Proof.
    unfold decrypt_share, ar_pk; cbn [fst snd]. f_equal.
    eapply encrypt_exp_decrypt; eassumption.
  Qed.

  Lemma In_enc_shares secret coeffs ars : forall ks ac,
    In ac (enc_shares F f0 fadd fmul G gadd smul g h secret coeffs ars ks) ->
    exists k, snd ac = encOf secret coeffs (fst ac) k.
  Proof.
    induction ars as [|a ars IH]; intros [|k ks] ac Hin; cbn [enc_shares] in Hin; try contradiction.
    destruct Hin as [<-|Hin]; [exists k; reflexivity | eapply IH; eassumption].
  Qed.

  Lemma combine_map_self {A B} (f : A -> B) (l : list A) : List.combine l (map f l) = map (fun x => (x, f x)) l.
  Proof. induction l as [|x l IH]; cbn; [reflexivity | f_equal; exact IH]. Qed.

  Lemma decrypt_sel secret coeffs : forall sel : list (revoker F * cipher G),
    (forall ac, In ac sel -> exists k, snd ac = encOf secret coeffs (fst ac) k) ->
    map (decrypt_share F G gadd gopp smul) sel
    = List.combine (map pointOf sel)
              (map (fun s => smul s h) (share F f0 fadd fmul secret coeffs (map pointOf sel))).
  Proof.
    intros sel Hsel. unfold share. rewrite map_map, combine_map_self, map_map.
    apply map_ext_in. intros [a c] Hin. destruct (Hsel _ Hin) as [k Hk]. cbn [fst snd] in Hk. subst c.
    rewrite decrypt_share_enc. reflexivity.
  Qed.

  (** Every list [sel] of (revoker, ciphertext) pairs, each ciphertext an encryption to that revoker of
      its share of [secret], at pairwise distinct non-zero points, with at least threshold
      (= [length coeffs + 1]) members, reconstructs [secret * h]. *)
  Theorem revocation_correct_any secret coeffs (sel : list (revoker F * cipher G)) :
    (forall ac, In ac sel -> exists k, snd ac = encOf secret coeffs (fst ac) k) ->
    NoDup (map pointOf sel) -> ~ In f0 (map pointOf sel) -> (length coeffs < length sel)%nat ->
    revoke_in_group F f1 fmul fsub finv G gzero gadd gopp smul sel = smul secret h.
  Proof.
    intros Hsel Hnd Hnz Hlen. unfold revoke_in_group. rewrite (decrypt_sel secret coeffs sel Hsel).
    eapply shamir_reveal_group; try eassumption. rewrite map_length. exact Hlen.
  Qed.

  (** The form used by the pipeline: the credential carries [enc_shares] for all chosen revokers;
      any sub-collection of them (in any order) of size >= threshold reveals [secret * h]. *)
  Theorem revocation_correct_subset secret coeffs ars ks (sel : list (revoker F * cipher G)) :
    incl sel (enc_shares F f0 fadd fmul G gadd smul g h secret coeffs ars ks) ->
    NoDup (map pointOf sel) -> ~ In f0 (map pointOf sel) -> (length coeffs < length sel)%nat ->
    revoke_in_group F f1 fmul fsub finv G gzero gadd gopp smul sel = smul secret h.
  Proof.
    intros Hincl. apply revocation_correct_any. intros ac Hin. eapply In_enc_shares. apply Hincl, Hin.
  Qed.

  (** PRF key: the revokers decrypt their shares down to scalars; [reveal_prf_key] = [reveal]. *)
  Theorem revocation_correct_scalar secret coeffs pts :
    NoDup pts -> ~ In f0 pts -> (length coeffs < length pts)%nat ->
    revoke_scalar F f0 f1 fadd fmul fsub finv (List.combine pts (share F f0 fadd fmul secret coeffs pts)) = secret.
  Proof. intros. unfold revoke_scalar. eapply shamir_reveal_field; eassumption. Qed.

  (** A commitment to [b] minus a commitment to [a] is a commitment to [b - a] under the difference of
      the randomness: the opening that [prove_less_than_or_equal] uses. *)
  Definition hide (x rnd : F) : G := gadd (smul x g) (smul rnd h).
  Lemma smul_sub_l x y a : smul (fsub x y) a = gsub G gadd gopp (smul x a) (smul y a).
  Proof.
    assert (E : smul x a = gadd (smul (fsub x y) a) (smul y a)).
    { rewrite <- smul_add_l. f_equal. pose proof Fring as R. clear -R.
      rewrite (Rsub_def R). rewrite <- (Radd_assoc R). rewrite (Radd_comm R (fopp y) y).
      rewrite (Ropp_def R). rewrite (Radd_comm R). rewrite (Radd_0_l R). reflexivity. }
    rewrite E. unfold gsub. rewrite <- gadd_assoc, gadd_opp, gadd_comm, gadd_0_l. reflexivity.
  Qed.
  Lemma gopp_add' a b : gopp (gadd a b) = gadd (gopp a) (gopp b).
  Proof.
    assert (U : forall x y, gadd x y = gzero -> y = gopp x).
    { intros x y Hxy. rewrite <- (gadd_0_l y), <- (gadd_opp x), (gadd_comm x (gopp x)).
      rewrite <- gadd_assoc, Hxy. rewrite gadd_comm. apply gadd_0_l. }
    symmetry. apply U.
    rewrite gadd_assoc. rewrite <- (gadd_assoc a b (gopp a)). rewrite (gadd_comm b (gopp a)).
    rewrite (gadd_assoc a (gopp a) b), gadd_opp, gadd_0_l. apply gadd_opp.
  Qed.
  Theorem commitment_difference a b ra rb :
    gsub G gadd gopp (hide b rb) (hide a ra) = hide (fsub b a) (fsub rb ra).
  Proof.
    unfold hide. rewrite !smul_sub_l. unfold gsub. rewrite gopp_add'.
    rewrite <- !gadd_assoc. f_equal. rewrite !gadd_assoc. f_equal. apply gadd_comm.
  Qed.
End Revocation.

(* ------------------------------------------------------------------------------------------ *)
(** * Chunking of PRF key shares *)
Local Open Scope N_scope.
Lemma from_to_chunks : forall n x, x < 2 ^ (chunk_bits * N.of_nat n) -> from_chunks (to_chunks n x) = x.
Proof.
  induction n as [|n IH]; intros x Hx.
  - cbn in *. lia.
  - cbn [to_chunks from_chunks]. rewrite IH.
    + rewrite N.add_comm. symmetry. rewrite N.mul_comm. rewrite (N.mul_comm (x / _)). apply N.div_mod'.
    + apply N.div_lt_upper_bound; [apply N.pow_nonzero; discriminate|].
      rewrite <- N.pow_add_r. replace (chunk_bits + chunk_bits * N.of_nat n) with (chunk_bits * N.of_nat (S n)) by lia.
      exact Hx.
Qed.

Lemma to_chunks_bound : forall n x, Forall (fun c => c < 2 ^ chunk_bits) (to_chunks n x).
Proof.
  induction n as [|n IH]; intros x; cbn [to_chunks]; constructor; [|apply IH].
  apply N.mod_lt. apply N.pow_nonzero. discriminate.
Qed.

Lemma to_chunks_length : forall n x, length (to_chunks n x) = n.
Proof. induction n as [|n IH]; intros x; cbn [to_chunks length]; [reflexivity | f_equal; apply IH]. Qed.

Theorem prf_share_chunks_roundtrip : forall x, x < 2 ^ 256 ->
  from_chunks (prf_share_chunks x) = x /\ length (prf_share_chunks x) = 8%nat
  /\ Forall (fun c => c < 2 ^ 32) (prf_share_chunks x).
Proof.
  intros x Hx. unfold prf_share_chunks. split; [|split].
  - apply from_to_chunks. exact Hx.
  - apply to_chunks_length.
  - apply to_chunks_bound.
Qed.
Local Close Scope N_scope.

(** Each chunk is encrypted in the exponent and recovered by the discrete-log table. *)
Section ChunkDecrypt.
  Variable F : Type.
  Variables (f0 f1 : F) (fadd fmul fsub : F -> F -> F) (fopp : F -> F).
  Hypothesis Fring : ring_theory f0 f1 fadd fmul fsub fopp (@eq F).
  Variable G : Type.
  Variables (gzero : G) (gadd : G -> G -> G) (gopp : G -> G) (smul : F -> G -> G).
  Hypothesis gadd_assoc : forall a b c, gadd a (gadd b c) = gadd (gadd a b) c.
  Hypothesis gadd_comm : forall a b, gadd a b = gadd b a.
  Hypothesis gadd_0_l : forall a, gadd gzero a = a.
  Hypothesis gadd_opp : forall a, gadd a (gopp a) = gzero.
  Hypothesis smul_mul : forall x y a, smul (fmul x y) a = smul x (smul y a).
  Variables (g h : G).
  Variable dlog : G -> N.
  Hypothesis dlog_spec : forall x, (x < 2 ^ 32)%N -> dlog (smul (f_of_N F f0 f1 fadd fmul x) h) = x.

  Fixpoint enc_chunks (pk : G) (cs : list N) (ks : list F) : list (cipher G) :=
    match cs, ks with
    | c :: cs', k :: ks' => encrypt_exp F G gadd smul g h pk (f_of_N F f0 f1 fadd fmul c) k :: enc_chunks pk cs' ks'
    | _, _ => []
    end.
  Definition dec_chunks (sk : F) (cs : list (cipher G)) : list N :=
    map (decrypt_chunk F G gadd gopp smul dlog sk) cs.

  Lemma dec_enc_chunks sk : forall cs ks, length ks = length cs -> Forall (fun c => (c < 2 ^ 32)%N) cs ->
    dec_chunks sk (enc_chunks (pk_of F G smul g sk) cs ks) = cs.
  Proof.
    induction cs as [|c cs IH]; intros [|k ks] Hl Hb; try discriminate; [reflexivity|].
    inversion Hb; subst. cbn [enc_chunks dec_chunks map]. f_equal.
    - unfold decrypt_chunk. erewrite encrypt_exp_decrypt by eassumption. apply dlog_spec. assumption.
    - apply IH; [cbn in Hl; lia | assumption].
  Qed.

  (** A revoker recovers its PRF key share from the eight encrypted chunks. *)
  Theorem prf_share_decrypt sk x ks : (x < 2 ^ 256)%N -> length ks = 8%nat ->
    from_chunks (dec_chunks sk (enc_chunks (pk_of F G smul g sk) (prf_share_chunks x) ks)) = x.
  Proof.
    intros Hx Hk. destruct (prf_share_chunks_roundtrip x Hx) as (Hr & Hl & Hb).
    rewrite dec_enc_chunks; [exact Hr | lia | exact Hb].
  Qed.
End ChunkDecrypt.

(* ------------------------------------------------------------------------------------------ *)
(** * The counter <= max_accounts range statement *)
Local Open Scope Z_scope.

Lemma neg_mod r d : 0 < d <= r -> (- d) mod r = r - d.
Proof. intros H. symmetry. apply Z.mod_unique_pos with (q := -1); lia. Qed.

(** General form for 64-bit inputs: the statement holds iff a <= b and both range-proved values fit. *)
Theorem range_stmt_u64 : forall r a b, 2 ^ 65 <= r -> 0 <= a < 2 ^ 64 -> 0 <= b < 2 ^ 64 ->
  (range_stmt r counter_width a b <-> (a <= b /\ a < 2 ^ 8 /\ b - a < 2 ^ 8)).
Proof.
  intros r a b Hr Ha Hb. unfold range_stmt, counter_width.
  assert (P65 : 2 ^ 65 = 36893488147419103232) by reflexivity.
  assert (P64 : 2 ^ 64 = 18446744073709551616) by reflexivity.
  assert (P8 : 2 ^ 8 = 256) by reflexivity.
  rewrite P65 in *. rewrite P64 in *. rewrite P8 in *. split.
  - intros (v1 & v2 & H1 & H2 & E1 & E2).
    rewrite (Z.mod_small v1 r) in E1 by lia. rewrite (Z.mod_small v2 r) in E2 by lia.
    rewrite (Z.mod_small a r) in E2 by lia.
    destruct (Z_le_gt_dec a b) as [Hle|Hgt].
    + rewrite (Z.mod_small (b - a) r) in E1 by lia. lia.
    + exfalso. replace (b - a) with (- (a - b)) in E1 by lia. rewrite neg_mod in E1 by lia. lia.
  - intros (Hle & Ha8 & Hd). exists (b - a), a. repeat split; lia.
Qed.

(** For the types in the code ([cred_counter : u8], [max_accounts : u8]): exactly [counter <= max]. *)
Theorem counter_boundary_thm : forall r a b, 2 ^ 9 <= r -> 0 <= a < 2 ^ 8 -> 0 <= b < 2 ^ 8 ->
  (range_stmt r counter_width a b <-> a <= b).
Proof.
  intros r a b Hr Ha Hb. unfold range_stmt, counter_width.
  assert (P9 : 2 ^ 9 = 512) by reflexivity. assert (P8 : 2 ^ 8 = 256) by reflexivity.
  rewrite P9 in *. rewrite P8 in *. split.
  - intros (v1 & v2 & H1 & H2 & E1 & E2).
    rewrite (Z.mod_small v1 r) in E1 by lia.
    destruct (Z_le_gt_dec a b) as [Hle|Hgt]; [exact Hle|exfalso].
    replace (b - a) with (- (a - b)) in E1 by lia. rewrite neg_mod in E1 by lia. lia.
  - intros Hle. exists (b - a), a. repeat split; lia.
Qed.

Theorem counter_boundary_dec : forall r a b, 2 ^ 9 <= r -> 0 <= a < 2 ^ 8 -> 0 <= b < 2 ^ 8 ->
  range_stmt_dec r a b = counter_ok a b.
Proof.
  intros r a b Hr Ha Hb. unfold range_stmt_dec, counter_ok, counter_width.
  assert (P9 : 2 ^ 9 = 512) by reflexivity. assert (P8 : 2 ^ 8 = 256) by reflexivity.
  rewrite P9 in *. rewrite P8 in *.
  rewrite (Z.mod_small a r) by lia.
  destruct (Z.leb_spec a b) as [Hle|Hgt].
  - rewrite (Z.mod_small (b - a) r) by lia.
    destruct (Z.ltb_spec (b - a) 256); destruct (Z.ltb_spec a 256); try reflexivity; lia.
  - replace (b - a) with (- (a - b)) by lia. rewrite neg_mod by lia.
    destruct (Z.ltb_spec (r - (a - b)) 256); [lia | reflexivity].
Qed.

(** The prover's checked subtraction is defined exactly when the statement is true. *)
Theorem prover_difference_defined : forall a b,
  (exists d, prover_difference_checked a b = Some d /\ d = b - a) <-> a <= b.
Proof.
  intros a b. unfold prover_difference_checked. destruct (Z.ltb_spec b a); split.
  - intros (d & E & _). discriminate.
  - lia.
  - lia.
  - intros _. eexists; split; reflexivity.
Qed.

(** Distinct non-zero 32-bit revoker identities are distinct non-zero scalars (r > 2^32). *)
Theorem ar_points_distinct : forall r x y, 2 ^ 32 <= r -> 0 < x < 2 ^ 32 -> 0 < y < 2 ^ 32 ->
  x mod r <> 0 /\ (x <> y -> x mod r <> y mod r).
Proof.
  intros r x y Hr Hx Hy. rewrite (Z.mod_small x r) by lia. rewrite (Z.mod_small y r) by lia. lia.
Qed.
Local Close Scope Z_scope.

(* ------------------------------------------------------------------------------------------ *)
(** * Completeness of the composed proof *)
Section SigmaComplete.
  Variable Chal : Type.
  Arguments s_rel {Chal W R M Z}. Arguments s_rok {Chal W R M Z}. Arguments s_commit {Chal W R M Z}.
  Arguments s_respond {Chal W R M Z}. Arguments s_extract {Chal W R M Z}.

  Definition complete {W R M Z} (p : sigma Chal W R M Z) : Prop :=
    forall w rho c, s_rel p w -> s_rok p rho -> s_extract p c (s_respond p w rho c) = Some (s_commit p rho).

  Lemma and_complete {W1 R1 M1 Z1 W2 R2 M2 Z2} (p : sigma Chal W1 R1 M1 Z1) (q : sigma Chal W2 R2 M2 Z2) :
    complete p -> complete q -> complete (and_adapter Chal p q).
  Proof.
    intros Hp Hq [w1 w2] [r1 r2] c [Hw1 Hw2] [Hr1 Hr2]. cbn in *.
    rewrite (Hp w1 r1 c Hw1 Hr1), (Hq w2 r2 c Hw2 Hr2). reflexivity.
  Qed.

  Lemma replicate_complete {W R M Z} (ps : list (sigma Chal W R M Z)) :
    Forall complete ps -> complete (replicate_adapter Chal ps).
  Proof.
    intros Hall. unfold complete. cbn [s_rel s_rok s_extract s_respond s_commit replicate_adapter].
    induction Hall as [|p ps Hp Hps IH]; intros ws rs c Hw Hr.
    - destruct ws, rs; cbn in *; try contradiction. reflexivity.
    - destruct ws as [|w ws], rs as [|r rs]; cbn in *; try contradiction.
      destruct Hw as [Hw Hws]. destruct Hr as [Hr Hrs].
      rewrite (Hp w r c Hw Hr). rewrite (IH ws rs c Hws Hrs). reflexivity.
  Qed.

  Variable H : list N -> list N.
  Variable chal : list N -> Chal.
  Variable bytes_eqb : list N -> list N -> bool.
  Hypothesis bytes_eqb_refl : forall x, bytes_eqb x x = true.
  Hypothesis bytes_eqb_eq : forall x y, bytes_eqb x y = true -> x = y.

  Theorem fs_complete {W R M Z} (p : sigma Chal W R M Z) prefix pub (encM : M -> list N) w rho :
    complete p -> s_rel p w -> s_rok p rho ->
    fs_verify Chal H chal bytes_eqb p prefix pub encM (fs_prove Chal H chal p prefix pub encM w rho) = true.
  Proof.
    intros Hc Hw Hr. unfold fs_verify, fs_prove; cbn [fst snd].
    rewrite (Hc w rho _ Hw Hr). apply bytes_eqb_refl.
  Qed.

  (** Acceptance pins the challenge to the hash of the transcript. *)
  Theorem fs_verify_hash {W R M Z} (p : sigma Chal W R M Z) prefix pub (encM : M -> list N) proof :
    fs_verify Chal H chal bytes_eqb p prefix pub encM proof = true ->
    exists m, s_extract p (chal (fst proof)) (snd proof) = Some m
              /\ H (fs_input prefix pub encM m) = fst proof.
  Proof.
    unfold fs_verify. destruct (s_extract p (chal (fst proof)) (snd proof)) as [m|]; [|discriminate].
    intros E. exists m. split; [reflexivity | apply bytes_eqb_eq, E].
  Qed.

  (** [verify_cdi] accepts the credential made by [create_credential]: composition of the completeness
      of the three sigma protocols (hypotheses), of the range proof for a true statement and of the
      account-ownership signatures (hypotheses). *)
  Section Cdi.
    Variables W1 R1 M1 Z1 W2 R2 M2 Z2 W3 R3 M3 Z3 : Type.
    Variable com_mult : sigma Chal W1 R1 M1 Z1.            (* reg_id = PRF(K, counter) *)
    Variable com_eq_sig : sigma Chal W2 R2 M2 Z2.          (* knowledge of the provider's signature *)
    Variable com_enc_eqs : list (sigma Chal W3 R3 M3 Z3).  (* one per revoker: share encrypted = share committed *)
    Hypothesis com_mult_complete : complete com_mult.
    Hypothesis com_eq_sig_complete : complete com_eq_sig.
    Hypothesis com_enc_eq_complete : Forall complete com_enc_eqs.
    Variables RangeProof SigT Msg : Type.
    Variable range_prove : Z -> Z -> RangeProof.
    Variable range_verify : RangeProof -> bool.
    Hypothesis range_complete : forall a b, counter_ok a b = true -> range_verify (range_prove a b) = true.
    Variable acc_sign : Msg -> SigT.
    Variable acc_verify : Msg -> SigT -> bool.
    Hypothesis acc_sig_complete : forall m, acc_verify m (acc_sign m) = true.

    Theorem cdi_complete_partial_thm :
      forall (threshold : nat) prefix pub encM (w : (W1 * W2) * list W3) (rho : (R1 * R2) * list R3)
             (counter max_accounts : Z) (msg : Msg),
        s_rel com_mult (fst (fst w)) -> s_rel com_eq_sig (snd (fst w)) -> rep_rel Chal com_enc_eqs (snd w) ->
        s_rok com_mult (fst (fst rho)) -> s_rok com_eq_sig (snd (fst rho)) -> rep_rok Chal com_enc_eqs (snd rho) ->
        (counter <= max_accounts)%Z ->
        verify_cdi_shape Chal H chal bytes_eqb threshold threshold com_mult com_eq_sig com_enc_eqs prefix pub encM
          (fs_prove Chal H chal (and_adapter Chal (and_adapter Chal com_mult com_eq_sig) (replicate_adapter Chal com_enc_eqs))
                    prefix pub encM w rho)
          (range_verify (range_prove counter max_accounts)) (acc_verify msg (acc_sign msg)) = true.
    Proof.
      intros t prefix pub encM [[w1 w2] w3] [[r1 r2] r3] counter maxa msg Hw1 Hw2 Hw3 Hr1 Hr2 Hr3 Hle.
      cbn [fst snd] in *. unfold verify_cdi_shape.
      rewrite Nat.eqb_refl. rewrite fs_complete.
      - rewrite range_complete by (unfold counter_ok; apply Z.leb_le; exact Hle).
        rewrite acc_sig_complete. reflexivity.
      - apply and_complete; [apply and_complete; assumption | apply replicate_complete; assumption].
      - cbn. tauto.
      - cbn. tauto.
    Qed.
  End Cdi.

  (** The first check of [verify_cdi]: threshold must equal the number of coefficient commitments. *)
  Lemma threshold_mismatch_rejected {W1 R1 M1 Z1 W2 R2 M2 Z2 W3 R3 M3 Z3}
      (p1 : sigma Chal W1 R1 M1 Z1) (p2 : sigma Chal W2 R2 M2 Z2) (p3 : list (sigma Chal W3 R3 M3 Z3))
      (threshold ncoeff : nat) prefix pub encM proof rg sg :
    threshold <> ncoeff ->
    verify_cdi_shape Chal H chal bytes_eqb threshold ncoeff p1 p2 p3 prefix pub encM proof rg sg = false.
  Proof.
    intros Hne. unfold verify_cdi_shape. destruct (Nat.eqb_spec threshold ncoeff); [contradiction | reflexivity].
  Qed.
End SigmaComplete.

(* ------------------------------------------------------------------------------------------ *)
(** * The transcript binds every absorbed field *)
Section TranscriptBinding.
  (** An encoder is self-delimiting when a value can be parsed off the front of a byte string in only
      one way - the property [Deserial] gives for every [Serial] type in the transcript (C05). *)
  Definition self_delimiting {A} (enc : A -> bytes) : Prop :=
    forall x y r s, enc x ++ r = enc y ++ s -> x = y /\ r = s.

  Lemma sd_list {A} (enc : A -> bytes) : self_delimiting enc ->
    forall xs ys r s, length xs = length ys ->
      concat (map enc xs) ++ r = concat (map enc ys) ++ s -> xs = ys /\ r = s.
  Proof.
    intros Hsd. induction xs as [|x xs IH]; intros [|y ys] r s Hl E; try discriminate.
    - cbn in E. split; [reflexivity | exact E].
    - cbn [map concat] in E. rewrite <- !app_assoc in E.
      destruct (Hsd _ _ _ _ E) as [-> E']. injection Hl as Hl.
      destruct (IH ys r s Hl E') as [-> ->]. split; reflexivity.
  Qed.

  Variables Values Addr Ctx Cmm Key BSig PsKey Ciph Pk : Type.
  Variable enc_values : Values -> bytes.
  Variable enc_addr : option Addr -> bytes.
  Variable enc_ctx : Ctx -> bytes.
  Variable enc_cmm : Cmm -> bytes.
  Variable enc_key : Key -> bytes.
  Variable enc_bsig : BSig -> bytes.
  Variable enc_pskey : PsKey -> bytes.
  Variable enc_ciph : Ciph -> bytes.
  Variable enc_pk : Pk -> bytes.
  Hypothesis sd_values : self_delimiting enc_values.
  Hypothesis sd_addr : self_delimiting enc_addr.
  Hypothesis sd_ctx : self_delimiting enc_ctx.
  Hypothesis sd_cmm : self_delimiting enc_cmm.
  Hypothesis sd_key : self_delimiting enc_key.
  Hypothesis sd_bsig : self_delimiting enc_bsig.
  Hypothesis sd_pskey : self_delimiting enc_pskey.
  Hypothesis sd_ciph : self_delimiting enc_ciph.
  Hypothesis sd_pk : self_delimiting enc_pk.
  Variables (L_domain L_cred_values L_address L_global_context L_cmms L_cmm_key L_blinded_sig
             L_commitments L_ps_pub_key L_comm_key L_cipher L_commitment L_pub_key : bytes).

  Local Notation public := (cdi_public Values Addr Ctx Cmm Key BSig PsKey Ciph Pk).
  Local Notation transcript :=
    (cdi_transcript Values Addr Ctx Cmm Key BSig PsKey Ciph Pk enc_values enc_addr enc_ctx enc_cmm enc_key
       enc_bsig enc_pskey enc_ciph enc_pk L_domain L_cred_values L_address L_global_context L_cmms L_cmm_key
       L_blinded_sig L_commitments L_ps_pub_key L_comm_key L_cipher L_commitment L_pub_key).
  Local Notation ar_its := (ar_items Cmm Key Ciph Pk enc_cmm enc_key enc_ciph enc_pk L_cmm_key L_cipher L_commitment L_pub_key).

  (** The two variable-length parts (the commitments of the signature statement, the revokers) carry no
      count in the legacy framing; they are compared at equal lengths (see design/C08.md). *)
  Definition same_shape (p q : public) : Prop :=
    length (p_sig_cmms _ _ _ _ _ _ _ _ _ p) = length (p_sig_cmms _ _ _ _ _ _ _ _ _ q)
    /\ length (p_ars _ _ _ _ _ _ _ _ _ p) = length (p_ars _ _ _ _ _ _ _ _ _ q).

  Lemma ars_inj : forall (xs ys : list (Ciph * Cmm * Pk * Key)) r s, length xs = length ys ->
    flatten (concat (map ar_its xs)) ++ r = flatten (concat (map ar_its ys)) ++ s -> xs = ys /\ r = s.
  Proof.
    induction xs as [|[[[c m] k] ck] xs IH]; intros [|[[[c' m'] k'] ck'] ys] r s Hl E; try discriminate.
    - cbn in E. split; [reflexivity | exact E].
    - injection Hl as Hl. unfold flatten in E. cbn [map concat ar_items app fst snd] in E.
      repeat rewrite <- app_assoc in E. cbn [app] in E. repeat rewrite <- app_assoc in E.
      apply app_inv_head in E. destruct (sd_ciph _ _ _ _ E) as [-> E1].
      apply app_inv_head in E1. destruct (sd_cmm _ _ _ _ E1) as [-> E2].
      apply app_inv_head in E2. destruct (sd_pk _ _ _ _ E2) as [-> E3].
      apply app_inv_head in E3. destruct (sd_key _ _ _ _ E3) as [-> E4].
      destruct (IH ys r s Hl E4) as [-> ->]. split; reflexivity.
  Qed.

  Theorem cdi_transcript_injective : forall (p q : public) r s, same_shape p q ->
    transcript p ++ r = transcript q ++ s -> p = q /\ r = s.
  Proof.
    intros [v a c [[c0 c1] c2] mk bs cms psk sk ars] [v' a' c' [[c0' c1'] c2'] mk' bs' cms' psk' sk' ars'] r s [Hs1 Hs2] E.
    cbn [p_sig_cmms p_ars] in Hs1, Hs2.
    unfold cdi_transcript, cdi_items, flatten in E.
    cbn [p_values p_addr p_ctx p_cmms p_mult_key p_bsig p_sig_cmms p_pskey p_sig_key p_ars] in E.
    rewrite !map_app, !concat_app in E. cbn [map concat app fst snd] in E.
    repeat rewrite <- app_assoc in E. cbn [app] in E. repeat rewrite <- app_assoc in E.
    apply app_inv_head in E.                                   (* domain *)
    apply app_inv_head in E. destruct (sd_values _ _ _ _ E) as [-> E1].
    apply app_inv_head in E1. destruct (sd_addr _ _ _ _ E1) as [-> E2].
    apply app_inv_head in E2. destruct (sd_ctx _ _ _ _ E2) as [-> E3].
    apply app_inv_head in E3. destruct (sd_cmm _ _ _ _ E3) as [-> E4].
    destruct (sd_cmm _ _ _ _ E4) as [-> E5]. destruct (sd_cmm _ _ _ _ E5) as [-> E6].
    apply app_inv_head in E6. destruct (sd_key _ _ _ _ E6) as [-> E7].
    apply app_inv_head in E7. destruct (sd_bsig _ _ _ _ E7) as [-> E8].
    apply app_inv_head in E8. destruct (sd_list enc_cmm sd_cmm _ _ _ _ Hs1 E8) as [-> E9].
    apply app_inv_head in E9. destruct (sd_pskey _ _ _ _ E9) as [-> E10].
    apply app_inv_head in E10. destruct (sd_key _ _ _ _ E10) as [-> E11].
    fold (flatten (concat (map ar_its ars))) in E11. fold (flatten (concat (map ar_its ars'))) in E11.
    destruct (ars_inj _ _ _ _ Hs2 E11) as [-> ->]. split; reflexivity.
  Qed.

  (** Accepting two different public inputs with one challenge exhibits a hash collision: the two
      hashed strings are the transcripts followed by the ("point", first message) items. *)
  Theorem cdi_fields_bound_thm : forall (H : bytes -> bytes) (p q : public) (tail_p tail_q c : bytes),
    same_shape p q -> p <> q ->
    H (transcript p ++ tail_p) = c -> H (transcript q ++ tail_q) = c ->
    exists x y, x <> y /\ H x = H y.
  Proof.
    intros H p q tp tq c Hs Hne Hp Hq. exists (transcript p ++ tp), (transcript q ++ tq). split.
    - intros E. apply Hne. exact (proj1 (cdi_transcript_injective p q tp tq Hs E)).
    - congruence.
  Qed.
End TranscriptBinding.

(** The statement of the signature proof determines the credential's fields it is derived from. *)
Section SigStatementBinding.
  Variables Cmm Scalar : Type.
  Variable hide0 : Scalar -> Cmm.
  Hypothesis hide0_inj : forall x y, hide0 x = hide0 y -> x = y.

  Definition same_kind (a b : Scalar + Cmm) : Prop :=
    match a, b with inl _, inl _ => True | inr _, inr _ => True | _, _ => False end.

  Lemma attrs_inj : forall xs ys : list (Scalar + Cmm), Forall2 same_kind xs ys ->
    map (fun a => match a with inl v => hide0 v | inr c => c end) xs
    = map (fun a => match a with inl v => hide0 v | inr c => c end) ys -> xs = ys.
  Proof.
    induction 1 as [|x y xs ys Hk _ IH]; intros E; [reflexivity|]. cbn [map] in E.
    injection E as E1 E2. rewrite (IH E2). destruct x, y; cbn in Hk; try contradiction.
    - apply hide0_inj in E1. subst. reflexivity.
    - subst. reflexivity.
  Qed.

  Theorem sig_commitments_bind : forall c1 p1 pp1 ars1 tg1 m1 at1 c2 p2 pp2 ars2 tg2 m2 at2,
    length ars1 = length ars2 -> Forall2 same_kind at1 at2 ->
    sig_commitments Cmm Scalar hide0 c1 p1 pp1 ars1 tg1 m1 at1
    = sig_commitments Cmm Scalar hide0 c2 p2 pp2 ars2 tg2 m2 at2 ->
    c1 = c2 /\ p1 = p2 /\ pp1 = pp2 /\ ars1 = ars2 /\ tg1 = tg2 /\ m1 = m2 /\ at1 = at2.
  Proof.
    intros c1 p1 pp1 ars1 tg1 m1 at1 c2 p2 pp2 ars2 tg2 m2 at2 Hl Hk E.
    unfold sig_commitments in E. cbn [app] in E. injection E as -> -> Hpp E.
    apply hide0_inj in Hpp. subst pp2.
    assert (A : map hide0 ars1 = map hide0 ars2 /\
                [hide0 tg1; m1] ++ map (fun a => match a with inl v => hide0 v | inr c => c end) at1
                = [hide0 tg2; m2] ++ map (fun a => match a with inl v => hide0 v | inr c => c end) at2).
    { clear Hk. revert ars2 Hl E. induction ars1 as [|x xs IH]; intros [|y ys] Hl E; try discriminate.
      - cbn in E. split; [reflexivity | exact E].
      - cbn [map app] in E. injection E as E1 E2. injection Hl as Hl.
        destruct (IH ys Hl E2) as [A1 A2]. split; [cbn [map]; congruence | exact A2]. }
    destruct A as [A1 A2]. cbn [app] in A2. injection A2 as Htg -> Hat.
    apply hide0_inj in Htg. subst tg2.
    assert (ars1 = ars2).
    { clear -A1 hide0_inj. revert ars2 A1. induction ars1 as [|x xs IH]; intros [|y ys] A1; try discriminate; [reflexivity|].
      cbn [map] in A1. injection A1 as E1 E2. apply hide0_inj in E1. rewrite (IH ys E2). congruence. }
    subst ars2. rewrite (attrs_inj at1 at2 Hk Hat). repeat split; reflexivity.
  Qed.
End SigStatementBinding.
