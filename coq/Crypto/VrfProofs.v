(** Theorems about the ECVRF model (Vrf.v), for every abelian group with an integer action in
    which the base point has exact order [l], [gcd(l, 8) = 1], and hash-to-curve outputs are
    killed by [l] (the code clears the cofactor of a group of order [8 l]). *)
From Coq Require Import ZArith List Lia.
From CB Require Import Crypto.Vrf.
Import ListNotations.
Local Open Scope Z_scope.

Section VrfProofs.
  Variable G : Type.
  Variable gzero : G.
  Variable gadd : G -> G -> G.
  Variable gopp : G -> G.
  Variable zmul : Z -> G -> G.
  Hypothesis gadd_assoc : forall a b c, gadd a (gadd b c) = gadd (gadd a b) c.
  Hypothesis gadd_comm : forall a b, gadd a b = gadd b a.
  Hypothesis gadd_0_l : forall a, gadd gzero a = a.
  Hypothesis gadd_opp_r : forall a, gadd a (gopp a) = gzero.
  Hypothesis zmul_add_l : forall x y a, zmul (x + y) a = gadd (zmul x a) (zmul y a).
  Hypothesis zmul_add_r : forall x a b, zmul x (gadd a b) = gadd (zmul x a) (zmul x b).
  Hypothesis zmul_mul : forall x y a, zmul (x * y) a = zmul x (zmul y a).
  Hypothesis zmul_1 : forall a, zmul 1 a = a.

  Variable l : Z.
  Hypothesis l_pos : 0 < l.
  Variable B : G.
  Hypothesis B_order : forall n, zmul n B = gzero <-> (l | n).

  Variable Msg : Type.
  Variable Out : Type.
  Variable Nonce : Type.
  Variable h2c : G -> Msg -> option G.
  Hypothesis h2c_order : forall Y a H, h2c Y a = Some H -> zmul l H = gzero.
  Variable hpoints : G * G * G * G -> Z.
  Variable hout : G -> Out.
  Variable noncegen : Nonce -> G -> Z.

  Notation gsub := (gsub G gadd gopp).
  Notation vrf_prove := (vrf_prove G zmul l B Msg Nonce h2c hpoints noncegen).
  Notation vrf_verify := (vrf_verify G gadd gopp zmul B Msg h2c hpoints).
  Notation vrf_to_hash := (vrf_to_hash G zmul Out hout).
  Notation vrf_pk_of := (vrf_pk_of G zmul B).
  Notation dleq := (dleq G zmul B).

  Lemma gadd_0_r a : gadd a gzero = a.
  Proof. rewrite gadd_comm. apply gadd_0_l. Qed.

  Lemma gadd_cancel_l a b c : gadd a b = gadd a c -> b = c.
  Proof.
    intros H. assert (E : gadd (gopp a) (gadd a b) = gadd (gopp a) (gadd a c)) by now rewrite H.
    rewrite !gadd_assoc, (gadd_comm (gopp a) a), gadd_opp_r, !gadd_0_l in E. exact E.
  Qed.

  Lemma gsub_add a b : gsub (gadd a b) b = a.
  Proof. unfold Vrf.gsub. now rewrite <- gadd_assoc, gadd_opp_r, gadd_0_r. Qed.

  Lemma zmul_0_l a : zmul 0 a = gzero.
  Proof. apply (gadd_cancel_l (zmul 0 a)). now rewrite <- zmul_add_l, gadd_0_r. Qed.

  Lemma zmul_0_r x : zmul x gzero = gzero.
  Proof. apply (gadd_cancel_l (zmul x gzero)). now rewrite <- zmul_add_r, !gadd_0_r. Qed.

  Lemma zmul_opp x a : zmul (- x) a = gopp (zmul x a).
  Proof.
    apply (gadd_cancel_l (zmul x a)). rewrite <- zmul_add_l, gadd_opp_r, Z.add_opp_diag_r. apply zmul_0_l.
  Qed.

  Lemma zmul_multiple a n q : zmul n a = gzero -> zmul (n * q) a = gzero.
  Proof. intros H. now rewrite Z.mul_comm, zmul_mul, H, zmul_0_r. Qed.

  (** scalars act modulo [l] on points killed by [l] *)
  Lemma zmul_mod_l a x : zmul l a = gzero -> zmul (x mod l) a = zmul x a.
  Proof.
    intros H. rewrite (Z.div_mod x l) at 2 by lia.
    now rewrite zmul_add_l, (zmul_multiple a l (x / l) H), gadd_0_l.
  Qed.

  Lemma B_l : zmul l B = gzero.
  Proof. apply B_order. apply Z.divide_refl. Qed.

  (** *** completeness *)
  Lemma vrf_complete_l x nonce alpha pi :
    vrf_prove x nonce (vrf_pk_of x) alpha = Some pi -> vrf_verify (vrf_pk_of x) pi alpha = true.
  Proof.
    unfold Vrf.vrf_prove, Vrf.vrf_verify. destruct (h2c (vrf_pk_of x) alpha) as [H|] eqn:EH; [|discriminate].
    intros E. inversion E; subst pi; clear E. cbn [fst snd].
    pose proof (h2c_order _ _ _ EH) as Hl.
    set (k := noncegen nonce H). set (c := hpoints (H, zmul x H, zmul k B, zmul k H)).
    assert (EU : gsub (zmul ((k + c * x) mod l) B) (zmul c (vrf_pk_of x)) = zmul k B).
    { unfold Vrf.vrf_pk_of. rewrite (zmul_mod_l B _ B_l), zmul_add_l, zmul_mul. apply gsub_add. }
    assert (EV : gsub (zmul ((k + c * x) mod l) H) (zmul c (zmul x H)) = zmul k H).
    { rewrite (zmul_mod_l H _ Hl), zmul_add_l, zmul_mul. apply gsub_add. }
    rewrite EU, EV. apply Z.eqb_refl.
  Qed.

  (** *** the output depends on the key and the input only *)
  Lemma vrf_output_l x nonce Y alpha pi :
    vrf_prove x nonce Y alpha = Some pi ->
    exists H, h2c Y alpha = Some H /\ vrf_to_hash pi = hout (zmul 8 (zmul x H)).
  Proof.
    unfold Vrf.vrf_prove. destruct (h2c Y alpha) as [H|]; [|discriminate].
    intros E. inversion E; subst pi. exists H. split; reflexivity.
  Qed.

  Lemma vrf_output_deterministic_l x nonce nonce' Y alpha pi pi' :
    vrf_prove x nonce Y alpha = Some pi -> vrf_prove x nonce' Y alpha = Some pi' ->
    vrf_to_hash pi = vrf_to_hash pi'.
  Proof.
    intros E E'. apply vrf_output_l in E, E'. destruct E as (H & EH & ->), E' as (H' & EH' & ->).
    congruence.
  Qed.

  (** *** the exact acceptance condition *)
  Lemma vrf_verify_iff_l Y gamma c s alpha :
    vrf_verify Y (gamma, c, s) alpha = true <->
    exists H, h2c Y alpha = Some H /\
      c = hpoints (H, gamma, gsub (zmul s B) (zmul c Y), gsub (zmul s H) (zmul c gamma)).
  Proof.
    unfold Vrf.vrf_verify. cbn [fst snd]. destruct (h2c Y alpha) as [H|].
    - rewrite Z.eqb_eq. split; [intros E; exists H; now split | intros (H' & EH & E); now inversion EH; subst].
    - split; [discriminate | intros (H' & EH & _); discriminate].
  Qed.

  (** *** uniqueness given the DLEQ relation; the cofactor removes small-order components *)
  Lemma dleq_honest x H : dleq (vrf_pk_of x) H (zmul x H).
  Proof.
    exists x. unfold Vrf.vrf_pk_of, cofactor. rewrite !zmul_mul. split; reflexivity.
  Qed.

  Lemma vrf_unique_given_dleq_l Y H gamma1 c1 s1 gamma2 c2 s2 :
    zmul l H = gzero ->
    dleq Y H gamma1 -> dleq Y H gamma2 ->
    vrf_to_hash (gamma1, c1, s1) = vrf_to_hash (gamma2, c2, s2).
  Proof.
    intros Hl (x1 & Y1 & G1) (x2 & Y2 & G2). unfold Vrf.vrf_to_hash. cbn [fst]. f_equal.
    unfold cofactor in *. rewrite G1, G2.
    assert (D : (l | 8 * x1 - 8 * x2)).
    { apply B_order. unfold Z.sub. rewrite zmul_add_l, zmul_opp, <- Y1, <- Y2. apply gadd_opp_r. }
    destruct D as [q D].
    replace (8 * x1) with (8 * x2 + l * q) by lia.
    now rewrite zmul_add_l, (zmul_multiple H l q Hl), gadd_0_r.
  Qed.

  Lemma vrf_torsion_same_output_l gamma T c s c' s' :
    zmul 8 T = gzero -> vrf_to_hash (gadd gamma T, c, s) = vrf_to_hash (gamma, c', s').
  Proof.
    intros HT. unfold Vrf.vrf_to_hash, cofactor. cbn [fst]. now rewrite zmul_add_r, HT, gadd_0_r.
  Qed.

  (** the secret scalar is determined modulo [l] by the public key (so "the" output of a key
      is well defined): two scalars with the same public key give the same output *)
  Lemma vrf_output_of_key_l x x' H :
    zmul l H = gzero -> vrf_pk_of x = vrf_pk_of x' -> zmul 8 (zmul x H) = zmul 8 (zmul x' H).
  Proof.
    intros Hl E. unfold Vrf.vrf_pk_of in E.
    assert (D : (l | x - x')).
    { apply B_order. unfold Z.sub. rewrite zmul_add_l, zmul_opp, E. apply gadd_opp_r. }
    destruct D as [q D]. replace x with (x' + l * q) by lia.
    now rewrite zmul_add_l, (zmul_multiple H l q Hl), gadd_0_r.
  Qed.

  (** *** key validity is a genuine precondition
      [Deserial for PublicKey] rejects points of small order ([is_small_order], i.e. 8*Y = 0).
      Without that check nothing is left: for a key killed by [d] (d = 1, 2, 4, 8) the proof
      (Gamma = 0, c, s = k) with c = hash_points(H, 0, k*B, k*H) is accepted for EVERY input as soon
      as d divides c (one nonce in d under the random oracle; unconditionally for the identity
      key), it needs no secret, and its output is the same for all inputs. *)
  Lemma gopp_zero : gopp gzero = gzero.
  Proof. rewrite <- (gadd_0_l (gopp gzero)). apply gadd_opp_r. Qed.

  Lemma gsub_zero a : gsub a gzero = a.
  Proof. unfold Vrf.gsub. rewrite gopp_zero. apply gadd_0_r. Qed.

  Lemma vrf_small_order_key_forgeable_l Y alpha H k d :
    h2c Y alpha = Some H -> zmul d Y = gzero ->
    (d | hpoints (H, gzero, zmul k B, zmul k H)) ->
    vrf_verify Y (gzero, hpoints (H, gzero, zmul k B, zmul k H), k) alpha = true /\
    vrf_to_hash (gzero, hpoints (H, gzero, zmul k B, zmul k H), k) = hout gzero.
  Proof.
    intros EH HY [q Hq]. split.
    - unfold Vrf.vrf_verify. rewrite EH. cbn [fst snd].
      set (c := hpoints (H, gzero, zmul k B, zmul k H)) in *.
      assert (EU : gsub (zmul k B) (zmul c Y) = zmul k B).
      { rewrite Hq, zmul_mul, HY, zmul_0_r. apply gsub_zero. }
      assert (EV : gsub (zmul k H) (zmul c gzero) = zmul k H).
      { rewrite zmul_0_r. apply gsub_zero. }
      rewrite EU, EV. apply Z.eqb_refl.
    - unfold Vrf.vrf_to_hash. cbn [fst]. now rewrite zmul_0_r.
  Qed.

  Lemma vrf_identity_key_forgeable_l alpha H k :
    h2c gzero alpha = Some H ->
    vrf_verify gzero (gzero, hpoints (H, gzero, zmul k B, zmul k H), k) alpha = true.
  Proof.
    intros EH. apply (vrf_small_order_key_forgeable_l gzero alpha H k 1 EH).
    - apply zmul_1.
    - apply Z.divide_1_l.
  Qed.

  (** for a small-order key the attested relation is satisfied by Gamma = 0 (secret "0") ... *)
  Lemma dleq_small_order_key_l Y H : zmul 8 Y = gzero -> dleq Y H gzero.
  Proof.
    intros HY. exists 0. unfold cofactor. rewrite Z.mul_0_r, !zmul_0_l, zmul_0_r. split; [exact HY | reflexivity].
  Qed.

  (** ... whereas for a VALID key (8*Y <> 0) no Gamma of small order satisfies it: the output of a
      valid key is never the degenerate constant.  This is where key validity is needed. *)
  Lemma vrf_valid_key_excludes_small_order_gamma_l Y H gamma :
    zmul 8 Y <> gzero ->
    (forall n, zmul n H = gzero <-> (l | n)) ->
    dleq Y H gamma -> zmul 8 gamma <> gzero.
  Proof.
    intros HY HH (x & EY & EG) Z8. unfold cofactor in *. apply HY.
    rewrite EY. apply B_order. apply HH. now rewrite <- EG.
  Qed.

  (** *** binding: the challenge covers H (hence key and input) and Gamma *)
  Lemma vrf_challenge_binds_gamma_l Y alpha gamma1 gamma2 c s1 s2 :
    vrf_verify Y (gamma1, c, s1) alpha = true -> vrf_verify Y (gamma2, c, s2) alpha = true ->
    gamma1 <> gamma2 ->
    exists u v, u <> v /\ hpoints u = hpoints v.
  Proof.
    intros V1 V2 N. apply vrf_verify_iff_l in V1, V2.
    destruct V1 as (H & EH & E1), V2 as (H' & EH' & E2).
    eexists; eexists; split; [|rewrite <- E1; exact E2]. intros E. apply N. congruence.
  Qed.

  Lemma vrf_challenge_binds_input_l Y alpha Y' alpha' H H' pi :
    h2c Y alpha = Some H -> h2c Y' alpha' = Some H' -> H <> H' ->
    vrf_verify Y pi alpha = true -> vrf_verify Y' pi alpha' = true ->
    exists u v, u <> v /\ hpoints u = hpoints v.
  Proof.
    intros EH EH' N V1 V2. destruct pi as [[gamma c] s]. apply vrf_verify_iff_l in V1, V2.
    destruct V1 as (H1 & EH1 & E1), V2 as (H2 & EH2 & E2).
    rewrite EH in EH1. rewrite EH' in EH2. inversion EH1; inversion EH2; subst H1 H2.
    eexists; eexists; split; [|rewrite <- E1; exact E2]. intros E. apply N. congruence.
  Qed.
End VrfProofs.
