(** C11 - proofs about the statement arithmetic of [RangeStmt.v]. *)
From Coq Require Import ZArith List Bool Lia Arith.
From CB Require Import Crypto.RangeStmt.
Import ListNotations.
Local Open Scope Z_scope.

(** * bit decomposition *)
Lemma bit_of_b2z v i : bit_of v i = Z.b2z (Z.testbit v (Z.of_nat i)).
Proof. unfold bit_of. destruct Z.testbit; reflexivity. Qed.

Lemma bit_of_01 v i : bit_of v i = 0 \/ bit_of v i = 1.
Proof. unfold bit_of; destruct Z.testbit; auto. Qed.

Lemma bits_S v n : bits v (S n) = bits v n ++ [bit_of v n].
Proof. unfold bits. rewrite seq_S, map_app. reflexivity. Qed.

Lemma pow2s_S n : pow2s (S n) = pow2s n ++ [2 ^ Z.of_nat n].
Proof. unfold pow2s. rewrite seq_S, map_app. reflexivity. Qed.

Lemma bits_length v n : length (bits v n) = n.
Proof. unfold bits. rewrite map_length, seq_length. reflexivity. Qed.

Lemma pow2s_length n : length (pow2s n) = n.
Proof. unfold pow2s. rewrite map_length, seq_length. reflexivity. Qed.

Lemma idot_app a b c d : length a = length c ->
  idot (a ++ b) (c ++ d) = idot a c + idot b d.
Proof.
  revert c. induction a as [|x a IH]; intros [|y c] H; simpl in H; try discriminate.
  - reflexivity.
  - injection H as H. specialize (IH c H). unfold idot in *. simpl. rewrite IH. ring.
Qed.

Lemma idot_bits v n : idot (bits v n) (pow2s n) = v mod 2 ^ Z.of_nat n.
Proof.
  induction n.
  - simpl. rewrite Z.mod_1_r. reflexivity.
  - rewrite bits_S, pow2s_S, idot_app by (rewrite bits_length, pow2s_length; reflexivity).
    rewrite IHn. unfold idot at 1. simpl fold_right.
    rewrite Nat2Z.inj_succ, Z.pow_succ_r by lia.
    rewrite (Z.mul_comm 2), Z.rem_mul_r by lia.
    rewrite bit_of_b2z, Z.testbit_spec' by lia. ring.
Qed.

Lemma had_zero_bits v n : had_zero (bits v n) (aR_of (bits v n)).
Proof.
  unfold had_zero, aR_of, bits. induction (seq 0 n) as [|i l IH]; simpl.
  - constructor.
  - constructor; [|exact IH]. simpl. destruct (bit_of_01 v i) as [H|H]; rewrite H; reflexivity.
Qed.

Theorem bits_iff_in_range_Z : forall v n, 0 <= v ->
  (bits_ok v n <-> v < 2 ^ Z.of_nat n).
Proof.
  intros v n Hv. unfold bits_ok. rewrite idot_bits. split.
  - intros [_ H]. rewrite <- H. apply Z.mod_pos_bound. lia.
  - intros H. split; [apply had_zero_bits|]. apply Z.mod_small. lia.
Qed.

(** the same with the second condition read in the scalar field Z/r (as the verifier's
    equations do), for widths up to 64 and a modulus above 2^65 *)
Theorem bits_iff_in_range_field : forall r v n, 2 ^ 65 < r -> 0 <= v < r -> (n <= 64)%nat ->
  ((had_zero (bits v n) (aR_of (bits v n)) /\ idot (bits v n) (pow2s n) mod r = v mod r)
   <-> v < 2 ^ Z.of_nat n).
Proof.
  intros r v n Hr Hv Hn.
  assert (Hp : 0 < 2 ^ Z.of_nat n <= 2 ^ 64).
  { split; [lia|]. apply Z.pow_le_mono_r; lia. }
  assert (H65 : 2 ^ 64 < 2 ^ 65) by (apply Z.pow_lt_mono_r; lia).
  rewrite idot_bits. rewrite (Z.mod_small v r) by lia.
  assert (Hm := Z.mod_pos_bound v (2 ^ Z.of_nat n) ltac:(lia)).
  rewrite (Z.mod_small (v mod _) r) by lia.
  split.
  - intros [_ H]. rewrite <- H. lia.
  - intros H. split; [apply had_zero_bits|]. apply Z.mod_small. lia.
Qed.

(** * modular helpers *)
Lemma mod_neg_wrap x r : - r <= x < 0 -> x mod r = x + r.
Proof. intros H. symmetry. apply Z.mod_unique with (q := -1); lia. Qed.

Ltac pows := change (2 ^ 64) with 18446744073709551616 in *;
             change (2 ^ 65) with 36893488147419103232 in *.

(** * a <= b *)
Theorem leq_statement_exact_l : forall r n a b,
  2 ^ 65 < r -> 0 <= n <= 64 -> 0 <= a < W64 -> 0 <= b < W64 ->
  (pair_in_range n (leq_committed r a b) <-> (a <= b /\ b - a < 2 ^ n /\ a < 2 ^ n)).
Proof.
  intros r n a b Hr Hn Ha Hb. unfold pair_in_range, leq_committed, W64 in *. cbn [fst snd].
  assert (Hp : 0 < 2 ^ n <= 2 ^ 64) by (split; [lia | apply Z.pow_le_mono_r; lia]).
  pows. rewrite (Z.mod_small a r) by lia.
  destruct (Z_le_gt_dec a b) as [Hab|Hab].
  - rewrite (Z.mod_small (b - a) r) by lia. lia.
  - rewrite mod_neg_wrap by lia. lia.
Qed.

Corollary leq_statement_given_b_small : forall r n a b,
  2 ^ 65 < r -> 0 <= n <= 64 -> 0 <= a < W64 -> 0 <= b < 2 ^ n ->
  (pair_in_range n (leq_committed r a b) <-> a <= b).
Proof.
  intros r n a b Hr Hn Ha Hb.
  assert (Hp : 0 < 2 ^ n <= 2 ^ 64) by (split; [lia | apply Z.pow_le_mono_r; lia]).
  rewrite leq_statement_exact_l by (unfold W64 in *; lia). lia.
Qed.

Lemma leq_prover_checked_spec : forall a b p,
  leq_prover_checked a b = Some p <-> (a <= b /\ p = (b - a, a)).
Proof.
  intros a b p. unfold leq_prover_checked. destruct (Z.leb_spec a b) as [Hle|Hgt]; split.
  - intros E; injection E as <-. auto.
  - intros [_ ->]. reflexivity.
  - discriminate.
  - intros [H0 _]. lia.
Qed.

Lemma pair_in_rangeb_spec n p : pair_in_rangeb n p = true <-> pair_in_range n p.
Proof.
  unfold pair_in_rangeb, pair_in_range. rewrite !andb_true_iff, !Z.leb_le, !Z.ltb_lt. tauto.
Qed.

(** wrapping build: the proof the prover produces is about [(b - a) mod 2^64, a]; it can only be
    checked successfully against the committed scalars when the two tuples coincide *)
Theorem leq_accepts_wrapping_iff : forall r n a b,
  2 ^ 65 < r -> 0 <= n <= 64 -> 0 <= a < W64 -> 0 <= b < W64 ->
  (leq_accepts_wrapping r n a b = true <-> (a <= b /\ b - a < 2 ^ n /\ a < 2 ^ n)).
Proof.
  intros r n a b Hr Hn Ha Hb. unfold leq_accepts_wrapping, leq_committed, leq_prover_wrapping.
  cbn [fst snd]. rewrite !andb_true_iff, !Z.eqb_eq, pair_in_rangeb_spec.
  unfold pair_in_range, W64 in *. cbn [fst snd].
  assert (Hp : 0 < 2 ^ n <= 2 ^ 64) by (split; [lia | apply Z.pow_le_mono_r; lia]).
  pows. rewrite (Z.mod_small a r) by lia.
  destruct (Z_le_gt_dec a b) as [Hab|Hab].
  - rewrite (Z.mod_small (b - a) r), (Z.mod_small (b - a) 18446744073709551616) by lia. lia.
  - rewrite (mod_neg_wrap (b - a) r), (mod_neg_wrap (b - a) 18446744073709551616) by lia. lia.
Qed.

(** * v in [a, b) *)
Theorem in_range_statement_exact_l : forall r v a b,
  2 ^ 65 < r -> 0 <= v < W64 -> 0 <= a < W64 -> 0 <= b < W64 ->
  (pair_in_range 64 (in_range_committed r v a b) <-> a <= v < b).
Proof.
  intros r v a b Hr Hv Ha Hb. unfold pair_in_range, in_range_committed, W64 in *.
  cbn [fst snd]. pows.
  rewrite (Z.mod_small (v + _ - b) r) by lia.
  destruct (Z_le_gt_dec a v) as [Hav|Hav].
  - rewrite (Z.mod_small (v - a) r) by lia. lia.
  - rewrite mod_neg_wrap by lia. lia.
Qed.

Theorem in_range_accepts_iff : forall r v a b,
  2 ^ 65 < r -> 0 <= v < W64 -> 0 <= a < W64 -> 0 <= b < W64 ->
  (in_range_accepts r v a b = true <-> a <= v < b).
Proof.
  intros r v a b Hr Hv Ha Hb. unfold in_range_accepts, in_range_prover, in_range_committed, low64, W64 in *.
  cbn [fst snd]. rewrite andb_true_iff, !Z.eqb_eq. pows.
  rewrite (Z.mod_small (v + _ - b) r) by lia.
  assert (M1 := Z.mod_pos_bound (v + 18446744073709551616 - b) 18446744073709551616 ltac:(lia)).
  destruct (Z_le_gt_dec a v) as [Hav|Hav].
  - rewrite (Z.mod_small (v - a) r) by lia.
    rewrite (Z.mod_small (v - a) 18446744073709551616) by lia.
    destruct (Z_lt_ge_dec v b) as [Hvb|Hvb].
    + rewrite (Z.mod_small (v + _ - b) 18446744073709551616) by lia. lia.
    + split; [|lia]. intros [H _]. lia.
  - rewrite (mod_neg_wrap (v - a) r) by lia.
    assert (M2 := Z.mod_pos_bound (v - a + r) 18446744073709551616 ltac:(lia)).
    split; [|lia]. intros [_ H]. lia.
Qed.

Corollary in_range_boundaries : forall r a b,
  2 ^ 65 < r -> 0 <= a < W64 -> 0 <= b < W64 ->
  (a < b -> in_range_accepts r a a b = true /\ in_range_accepts r (b - 1) a b = true)
  /\ in_range_accepts r b a b = false
  /\ (a = b -> forall v, 0 <= v < W64 -> in_range_accepts r v a b = false)
  /\ (0 < a -> in_range_accepts r (a - 1) a b = false).
Proof.
  intros r a b Hr Ha Hb. repeat split.
  - apply in_range_accepts_iff; lia.
  - apply in_range_accepts_iff; lia.
  - apply not_true_is_false. rewrite in_range_accepts_iff by lia. lia.
  - intros -> v Hv. apply not_true_is_false. rewrite in_range_accepts_iff by lia. lia.
  - intros H. apply not_true_is_false. rewrite in_range_accepts_iff by lia. lia.
Qed.

Corollary leq_boundaries : forall r n a,
  2 ^ 65 < r -> 0 <= n <= 64 -> 0 <= a < 2 ^ n ->
  leq_accepts_wrapping r n a a = true
  /\ (a + 1 < 2 ^ n -> leq_accepts_wrapping r n (a + 1) a = false
                      /\ leq_prover_checked (a + 1) a = None
                      /\ leq_accepts_wrapping r n a (a + 1) = true).
Proof.
  intros r n a Hr Hn Ha.
  assert (Hp : 0 < 2 ^ n <= 2 ^ 64) by (split; [lia | apply Z.pow_le_mono_r; lia]).
  split; [apply leq_accepts_wrapping_iff; unfold W64; lia|].
  intros H. repeat split.
  - apply not_true_is_false. rewrite leq_accepts_wrapping_iff by (unfold W64; lia). lia.
  - unfold leq_prover_checked. destruct (Z.leb_spec (a + 1) a); [lia | reflexivity].
  - apply leq_accepts_wrapping_iff; unfold W64; lia.
Qed.

(** * padding *)
Definition is_pow2 (m : nat) : Prop := exists e, m = Nat.pow 2 e.

Lemma np2_ge : forall fuel k n, (n <= k * Nat.pow 2 fuel)%nat -> (n <= next_pow2_from fuel k n)%nat.
Proof.
  induction fuel; intros k n H; simpl next_pow2_from; destruct (Nat.leb_spec n k); try lia.
  - simpl in H. lia.
  - apply IHfuel. simpl Nat.pow in H. lia.
Qed.

Lemma np2_pow2 : forall fuel k n, is_pow2 k -> is_pow2 (next_pow2_from fuel k n).
Proof.
  induction fuel; intros k n H; simpl next_pow2_from; destruct (Nat.leb n k); auto.
  apply IHfuel. destruct H as [e ->]. exists (S e). simpl. lia.
Qed.

Lemma np2_lt : forall fuel k n, (k < 2 * n)%nat -> (next_pow2_from fuel k n < 2 * n)%nat.
Proof.
  induction fuel; intros k n H; simpl next_pow2_from; destruct (Nat.leb_spec n k); try lia.
  apply IHfuel. lia.
Qed.

Lemma next_pow2_spec n : (1 <= n)%nat ->
  is_pow2 (next_pow2 n) /\ (n <= next_pow2 n < 2 * n)%nat.
Proof.
  intros H. unfold next_pow2. split; [apply np2_pow2; exists O; reflexivity|]. split.
  - apply np2_ge. pose proof (Nat.pow_gt_lin_r 2 n ltac:(lia)). lia.
  - apply np2_lt. lia.
Qed.

Lemma last_In {A} (l : list A) d : l <> [] -> In (last l d) l.
Proof.
  induction l as [|x l IH]; [congruence|]. intros _. destruct l as [|y l].
  - left; reflexivity.
  - right. apply IH. discriminate.
Qed.

Theorem pad_pow2_In : forall A (l : list A) v, In v (pad_pow2 l) <-> In v l.
Proof.
  intros A l v. destruct l as [|x l]; [tauto|]. unfold pad_pow2. rewrite in_app_iff. split.
  - intros [H|H]; [exact H|]. apply repeat_spec in H. subst. apply last_In. discriminate.
  - auto.
Qed.

Theorem pad_pow2_length : forall A (l : list A), l <> [] ->
  length (pad_pow2 l) = next_pow2 (length l) /\ is_pow2 (length (pad_pow2 l))
  /\ (length l <= length (pad_pow2 l) < 2 * length l)%nat.
Proof.
  intros A l H. destruct l as [|x l]; [congruence|].
  destruct (next_pow2_spec (length (x :: l))) as [P [L U]]; [simpl; lia|].
  assert (E : length (pad_pow2 (x :: l)) = next_pow2 (length (x :: l))).
  { unfold pad_pow2. rewrite app_length, repeat_length. lia. }
  rewrite E. auto.
Qed.

Theorem pad_pow2_prefix : forall A (l : list A), firstn (length l) (pad_pow2 l) = l.
Proof.
  intros A l. destruct l as [|x l]; [reflexivity|]. unfold pad_pow2.
  rewrite firstn_app, Nat.sub_diag, firstn_all. simpl firstn. apply app_nil_r.
Qed.

Theorem pad_pow2_idem_on_pow2 : forall A (l : list A), is_pow2 (length l) -> pad_pow2 l = l.
Proof.
  intros A l [e He]. destruct l as [|x l]; [reflexivity|]. unfold pad_pow2.
  assert (next_pow2 (length (x :: l)) = length (x :: l)) as ->.
  { unfold next_pow2. rewrite He. clear.
    assert (G : forall fuel e0 k, (fuel + k >= e0)%nat -> (k <= e0)%nat ->
              next_pow2_from fuel (Nat.pow 2 k) (Nat.pow 2 e0) = Nat.pow 2 e0).
    { induction fuel; intros e0 k H1 H2; simpl next_pow2_from.
      - assert (k = e0) by lia. subst. rewrite Nat.leb_refl. reflexivity.
      - destruct (Nat.leb_spec (Nat.pow 2 e0) (Nat.pow 2 k)) as [Hl|Hl].
        + apply Nat.pow_le_mono_r_iff in Hl; [|lia]. assert (k = e0) by lia. subst. reflexivity.
        + assert (k < e0)%nat.
          { destruct (Nat.eq_dec k e0); [subst; lia | lia]. }
          replace (Nat.pow 2 k + (Nat.pow 2 k + 0))%nat with (Nat.pow 2 (S k)) by (simpl; lia).
          apply IHfuel; lia. }
    apply (G (Nat.pow 2 e) e O); [|lia].
    pose proof (Nat.pow_gt_lin_r 2 e ltac:(lia)). lia. }
  rewrite Nat.sub_diag. cbn [repeat]. apply app_nil_r.
Qed.
