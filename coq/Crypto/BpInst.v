(** C11 - executable instance for the correspondence check ("in the exponent", DESIGN 4.6):
    F := integers mod r (r = BLS12-381 scalar order), G := F, scalar action = multiplication.
    Every group element is represented by its discrete logarithm.  The carrier is [bigZ]
    (coq-bignums, primitive 63-bit limbs) only to make vm_compute fast; this file is used by the
    differential check, never by a theorem.                                                   *)
From Coq Require Import ZArith List Bool Uint63.
From Bignums Require Import BigZ.
From CB Require Import Crypto.BpAlg Crypto.Ipa Crypto.RangeProof Crypto.SetProof Crypto.RangeStmt.
Import ListNotations.

(** input encoding for the check: little-endian limbs base 2^60 as primitive integers (a 255-bit
    [Z] literal is a 255-constructor term; elaborating thousands of them dominates the run time) *)
Definition zL (l : list int) : Z :=
  fold_right (fun x acc => (Uint63.to_Z x + acc * 1152921504606846976)%Z) 0%Z l.

Definition r_bls : Z := 0x73eda753299d7d483339d80809a1d80553bda402fffe5bfeffffffff00000001%Z.
Definition rB : bigZ := BigZ.of_Z r_bls.
Definition T := bigZ.
Definition tz : T := BigZ.zero.
Definition to : T := BigZ.one.
Definition tadd (a b : T) : T := BigZ.modulo (BigZ.add a b) rB.
Definition tmul (a b : T) : T := BigZ.modulo (BigZ.mul a b) rB.
Definition tsub (a b : T) : T := BigZ.modulo (BigZ.sub a b) rB.
Definition topp (a : T) : T := BigZ.modulo (BigZ.opp a) rB.
Definition teqb (a b : T) : bool := BigZ.eqb a b.
Fixpoint tpow_pos (b : T) (e : positive) : T :=
  match e with
  | xH => b
  | xO e' => let t := tpow_pos b e' in tmul t t
  | xI e' => let t := tpow_pos b e' in tmul (tmul t t) b
  end.
(** Fermat inverse; 0 |-> 0 (the code's [inverse] returns None there: the verdict functions test u*ui = 1) *)
Definition tinv (a : T) : T := tpow_pos a (Z.to_pos (r_bls - 2)).
Definition ofZ (z : Z) : T := BigZ.modulo (BigZ.of_Z z) rB.
Definition tsum (l : list T) : T := fold_right tadd tz l.

Fixpoint deint (l : list T) : list T * list T :=
  match l with
  | a :: b :: l' => let (x, y) := deint l' in (a :: x, b :: y)
  | _ => ([], [])
  end.

Definition TO : bp_ops := mkOps T tz to tadd tmul tsub topp teqb T tz tadd topp tmul teqb.
Definition bpr := bproof TO.
Definition flatten (p : bpr) : list Z :=
  map BigZ.to_Z ([pA _ p; pS _ p; pT1 _ p; pT2 _ p; ptx _ p; ptxt _ p; pet _ p]
                 ++ flat_map (fun lr => [fst lr; snd lr]) (plr _ p) ++ [pa _ p; pb _ p]).
Fixpoint pairs (l : list T) : list (T * T) :=
  match l with a :: b :: l' => (a, b) :: pairs l' | _ => [] end.
Definition unflatten (parts : list T) : option bpr :=
  match parts with
  | cA :: cS :: cT1 :: cT2 :: tx :: txt :: et :: rest =>
      let k2 := (length rest - 2)%nat in
      match skipn k2 rest with
      | [a; b] => Some (mkProof TO cA cS cT1 cT2 tx txt et (pairs (firstn k2 rest)) a b)
      | _ => None
      end
  | _ => None
  end.
Fixpoint bump (parts : list T) (i : nat) : list T :=
  match parts, i with
  | x :: l, O => tadd x to :: l
  | x :: l, S i' => x :: bump l i'
  | [], _ => []
  end.
Definition vcode (v : verdict) : Z :=
  match v with VOk => 0 | VFirst => 1 | VSecond => 2 | VDivision => 3 end%Z.
Definition with_inv (us : list T) : list (T * T) := map (fun u => (u, tinv u)) us.

(** ** range proofs *)
Definition range_eval (n : Z) (vs rs g h : list Z) (b bt : Z) (draws chal : list Z) : list Z :=
  let n' := Z.to_nat n in
  let m := length vs in
  let N := (n' * m)%nat in
  let d := map ofZ draws in
  let '(sL, sR) := deint (firstn (2 * N) d) in
  let '(ats, sts) := deint (firstn (2 * m) (skipn (2 * N) d)) in
  let '(t1s, t2s) := deint (skipn (2 * N + 2 * m) d) in
  match map ofZ chal with
  | y :: z :: x :: w :: us =>
      flatten (range_prove TO n' vs (map ofZ rs) (map ofZ g) (map ofZ h)
                           (ofZ b) (ofZ bt) sL sR (tsum ats) (tsum sts) (tsum t1s) (tsum t2s)
                           y (tinv y) z x w (with_inv us))
  | _ => []
  end.

Definition job_verdict (f : bpr -> T -> T -> T -> T -> T -> list (T * T) -> verdict)
           (parts : list T) (job : Z * list Z) : Z :=
  let parts' := if (fst job <? 0)%Z then parts else bump parts (Z.to_nat (fst job)) in
  match unflatten parts', map ofZ (snd job) with
  | Some p, y :: z :: x :: w :: us => vcode (f p y (tinv y) z x w (with_inv us))
  | _, _ => (-1)%Z
  end.

Definition range_verify_many (n : Z) (g h : list Z) (b bt : Z) (Vd parts : list Z)
           (jobs : list (Z * list Z)) : list Z :=
  let Gs := map ofZ g in let Hs := map ofZ h in
  map (job_verdict (fun p y yi z x w us =>
         range_verdict TO (Z.to_nat n) (map ofZ Vd)
                       Gs Hs (ofZ b) (ofZ bt) p y yi z x w us) (map ofZ parts)) jobs.

(** ** set proofs *)
Definition set_eval (member : bool) (set : list Z) (v vr : Z) (g h : list Z) (b bt : Z)
           (draws chal : list Z) : list Z :=
  let s := map ofZ set in
  let n := length (pad_pow2 s) in
  let d := map ofZ draws in
  match map ofZ chal with
  | y :: z :: x :: w :: us =>
      let res :=
        if member then
          let '(sL, sR) := deint (firstn (2 * n) d) in
          match skipn (2 * n) d with
          | at_ :: st :: t1t :: t2t :: _ =>
              mem_prove TO s (ofZ v) (ofZ vr) (map ofZ g) (map ofZ h)
                        (ofZ b) (ofZ bt) sL sR at_ st t1t t2t y (tinv y) z x w (with_inv us)
          | _ => None
          end
        else
          match d with
          | at_ :: d' =>
              let sL := firstn n d' in
              let sR := firstn n (skipn n d') in
              match skipn (2 * n) d' with
              | st :: t1t :: t2t :: _ =>
                  nonmem_prove TO s (ofZ v) (ofZ vr)
                               (map (fun si => tinv (tsub (ofZ v) si)) (pad_pow2 s))
                               (map ofZ g) (map ofZ h) (ofZ b) (ofZ bt) sL sR at_ st t1t t2t
                               y (tinv y) z x w (with_inv us)
              | _ => None
              end
          | _ => None
          end in
      match res with Some p => flatten p | None => [] end
  | _ => []
  end.

Definition set_verify_many (member : bool) (set g h : list Z) (b bt : Z) (Vd : Z) (parts : list Z)
           (jobs : list (Z * list Z)) : list Z :=
  let s := map ofZ set in
  let Gs := map ofZ g in let Hs := map ofZ h in
  map (job_verdict (fun p y yi z x w us =>
         if member then
           mem_verdict TO s (ofZ Vd) Gs Hs (ofZ b) (ofZ bt) p y yi z x w us
         else
           nonmem_verdict TO s (ofZ Vd) Gs Hs (ofZ b) (ofZ bt) p y yi z x w us)
       (map ofZ parts)) jobs.

(** ** inner-product argument alone *)
Definition svec_eval (us : list Z) : list Z :=
  map BigZ.to_Z (svec TO (with_inv (map ofZ us))).
Definition svec_iter_eval (us : list Z) : list Z :=
  map BigZ.to_Z (svec_iter TO (with_inv (map ofZ us))).
Definition ipa_eval (g h : list Z) (q : Z) (a b us : list Z) : list Z * list Z :=
  match ipa_prove TO (with_inv (map ofZ us)) (map ofZ g) (map ofZ h) (ofZ q)
                  (map ofZ a) (map ofZ b) with
  | (lr, fa, fb) => (map BigZ.to_Z (flat_map (fun p => [fst p; snd p]) lr ++ [fa; fb]), svec_eval us)
  end.
