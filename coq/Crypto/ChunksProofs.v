From Coq Require Import NArith List Lia.
From CB Require Import Crypto.Chunks.
Import ListNotations.
Local Open Scope N_scope.

Lemma land_mask x s : N.land x (mask s) = x mod 2 ^ s.
Proof. unfold mask. rewrite N.sub_1_r, <- N.ones_equiv. apply N.land_ones. Qed.

Lemma to_chunks_length n s x : length (to_chunks n s x) = n.
Proof. revert x; induction n as [|n IH]; intros x; unfold to_chunks in *; cbn [to_chunks_gen length]; [reflexivity|]. now rewrite IH. Qed.

Lemma to_chunks_bound n s x : Forall (fun c => c < 2 ^ s) (to_chunks n s x).
Proof.
  revert x; induction n as [|n IH]; intros x; unfold to_chunks in *; cbn [to_chunks_gen]; constructor; [|apply IH].
  rewrite land_mask. apply N.mod_lt. apply N.pow_nonzero. lia.
Qed.

Lemma chunk_sum_shift s f xs : chunk_sum s f xs = 2 ^ f * chunk_sum s 0 xs.
Proof.
  revert f; induction xs as [|x xs IH]; intros f; cbn [chunk_sum]; [lia|].
  rewrite (IH (f + s)), (IH (0 + s)). rewrite !N.pow_add_r, N.pow_0_r. ring.
Qed.

(** Heart of the round trip: the chunks of [x] sum to [x mod 2^(n*s)]. *)
Lemma to_chunks_sum n s x :
  chunk_sum s 0 (to_chunks n s x) = x mod 2 ^ (N.of_nat n * s).
Proof.
  revert x; induction n as [|n IH]; intros x.
  - cbn. now rewrite N.mod_1_r.
  - unfold to_chunks in *. cbn [to_chunks_gen chunk_sum]. rewrite chunk_sum_shift, IH, land_mask.
    rewrite N.shiftr_div_pow2, N.add_0_l, N.pow_0_r, N.mul_1_r.
    replace (N.of_nat (S n) * s) with (s + N.of_nat n * s) by lia.
    rewrite (N.pow_add_r 2 s).
    rewrite N.mod_mul_r by (apply N.pow_nonzero; lia).
    reflexivity.
Qed.

(** The checked build computes the mathematical sum whenever every shift is
    below 64 bits and the running sum stays below 2^64. *)
Lemma from_checked_sum s xs : forall f out,
  0 < s ->
  Forall (fun c => c < 2 ^ s) xs ->
  f + N.of_nat (length xs) * s <= 64 ->
  out < 2 ^ f ->
  from_chunks_checked s f out xs = Some (out + chunk_sum s f xs).
Proof.
  induction xs as [|x xs IH]; intros f out Hs Hb Hlen Hout; cbn [from_chunks_checked chunk_sum].
  - f_equal. lia.
  - inversion Hb as [|? ? Hx Hb']; subst.
    cbn [length] in Hlen.
    assert (Hf : f + s <= 64) by lia.
    assert (Hxf : x * 2 ^ f < 2 ^ (f + s)).
    { rewrite N.pow_add_r. rewrite (N.mul_comm (2^f)). apply N.mul_lt_mono_pos_r; [|exact Hx].
      apply N.neq_0_lt_0, N.pow_nonzero; lia. }
    assert (Hpow : 2 ^ (f + s) <= W64) by (unfold W64; apply N.pow_le_mono_r; lia).
    destruct (N.leb_spec 64 f) as [H64|H64]; [lia|].
    rewrite (N.mod_small (x * 2 ^ f)) by lia.
    assert (Hsum : out + x * 2 ^ f < 2 ^ (f + s)).
    { rewrite N.pow_add_r in *.
      assert (x + 1 <= 2 ^ s) by lia.
      assert (out + x * 2 ^ f < (x + 1) * 2 ^ f) by lia.
      eapply N.lt_le_trans; [eassumption|].
      rewrite (N.mul_comm (2 ^ f)). apply N.mul_le_mono_r. lia. }
    destruct (N.leb_spec W64 (out + x * 2 ^ f)) as [Hc|Hc]; [lia|].
    destruct (N.leb_spec 256 (f + s)) as [Hu|Hu]; [lia|].
    rewrite IH; [f_equal; lia|assumption|assumption|lia|assumption].
Qed.

Lemma in_chunk_sizes s : In s chunk_sizes -> 0 < s /\ N.of_nat (num_chunks s) * s = 64.
Proof.
  unfold chunk_sizes; cbn [In]. intros H.
  repeat (destruct H as [<-|H]; [split; [lia|vm_compute; reflexivity]|]). contradiction.
Qed.

(** Round trip in the checked build for every chunk size below 64 bits. *)
Theorem chunks_roundtrip_checked s x :
  In s chunk_sizes -> s < 64 -> x < W64 ->
  exists cs, u64_to_chunks_checked s x = Some cs
    /\ length cs = num_chunks s
    /\ Forall (fun c => c <= mask s) cs
    /\ chunks_to_u64_checked s cs = Some x.
Proof.
  intros Hin Hs Hx. destruct (in_chunk_sizes s Hin) as [Hpos Hn].
  exists (to_chunks (num_chunks s) s x). unfold u64_to_chunks_checked.
  destruct (N.ltb_spec s 64) as [_|]; [|lia].
  split; [reflexivity|]. split; [apply to_chunks_length|]. split.
  - eapply Forall_impl; [|apply to_chunks_bound]. cbn beta. intros c Hc. unfold mask. lia.
  - unfold chunks_to_u64_checked. rewrite from_checked_sum.
    + rewrite to_chunks_sum, Hn. f_equal. rewrite N.mod_small; [lia|exact Hx].
    + exact Hpos.
    + apply to_chunks_bound.
    + rewrite to_chunks_length. lia.
    + cbn. lia.
Qed.

(** The wrapping build agrees with the mathematical sum under the same guards. *)
Lemma from_wrapping_sum s xs : forall f out,
  0 < s ->
  Forall (fun c => c < 2 ^ s) xs ->
  f + N.of_nat (length xs) * s <= 64 ->
  out < 2 ^ f ->
  from_chunks_wrapping s f out xs = out + chunk_sum s f xs.
Proof.
  induction xs as [|x xs IH]; intros f out Hs Hb Hlen Hout; cbn [from_chunks_wrapping chunk_sum].
  - lia.
  - inversion Hb as [|? ? Hx Hb']; subst. cbn [length] in Hlen.
    destruct xs as [|y ys].
    + cbn [from_chunks_wrapping chunk_sum].
      assert (Hf : f < 64) by lia.
      rewrite (N.mod_small f 64) by lia.
      assert (Hxf : x * 2 ^ f < 2 ^ (f + s)).
      { rewrite N.pow_add_r. rewrite (N.mul_comm (2^f)). apply N.mul_lt_mono_pos_r; [|exact Hx].
        apply N.neq_0_lt_0, N.pow_nonzero; lia. }
      assert (Hpow : 2 ^ (f + s) <= W64) by (unfold W64; apply N.pow_le_mono_r; cbn [length] in *; lia).
      assert (Hsum : out + x * 2 ^ f < 2 ^ (f + s)).
      { rewrite N.pow_add_r in *.
        assert (out + x * 2 ^ f < (x + 1) * 2 ^ f) by lia.
        eapply N.lt_le_trans; [eassumption|].
        rewrite (N.mul_comm (2 ^ f)). apply N.mul_le_mono_r. lia. }
      rewrite (N.mod_small (x * 2 ^ f)) by lia. rewrite N.mod_small by lia. lia.
    + assert (Hf : f + s < 64) by (cbn [length] in Hlen; lia).
      rewrite (N.mod_small f 64) by lia.
      rewrite (N.mod_small (f + s) 256) by lia.
      assert (Hxf : x * 2 ^ f < 2 ^ (f + s)).
      { rewrite N.pow_add_r. rewrite (N.mul_comm (2^f)). apply N.mul_lt_mono_pos_r; [|exact Hx].
        apply N.neq_0_lt_0, N.pow_nonzero; lia. }
      assert (Hpow : 2 ^ (f + s) <= W64) by (unfold W64; apply N.pow_le_mono_r; lia).
      assert (Hsum : out + x * 2 ^ f < 2 ^ (f + s)).
      { rewrite N.pow_add_r in *.
        assert (out + x * 2 ^ f < (x + 1) * 2 ^ f) by lia.
        eapply N.lt_le_trans; [eassumption|].
        rewrite (N.mul_comm (2 ^ f)). apply N.mul_le_mono_r. lia. }
      rewrite (N.mod_small (x * 2 ^ f)) by lia. rewrite (N.mod_small (out + _)) by lia.
      rewrite IH; [lia|assumption|assumption|cbn [length] in *; lia|assumption].
Qed.

(** Round trip in the wrapping (release) build for all seven sizes, including 64
    where [tmp >>= 64] is a no-op shift and there is a single chunk. *)
Theorem chunks_roundtrip_wrapping s x :
  In s chunk_sizes -> x < W64 ->
  chunks_to_u64_wrapping s (u64_to_chunks_wrapping s x) = x.
Proof.
  intros Hin Hx. destruct (in_chunk_sizes s Hin) as [Hpos Hn].
  unfold chunks_to_u64_wrapping, u64_to_chunks_wrapping.
  destruct (N.eq_dec s 64) as [->|Hne].
  - change (num_chunks 64) with 1%nat. cbn [to_chunks_gen from_chunks_wrapping].
    rewrite land_mask. change (0 mod 64) with 0. rewrite N.pow_0_r, N.mul_1_r, N.add_0_l.
    change (2 ^ 64) with W64. rewrite (N.mod_small x W64) by exact Hx.
    rewrite (N.mod_small x W64) by exact Hx. apply N.mod_small; exact Hx.
  - assert (Hs : s < 64).
    { unfold chunk_sizes in Hin; cbn [In] in Hin.
      repeat (destruct Hin as [<-|Hin]; [lia|]). contradiction. }
    rewrite (N.mod_small s 64) by lia. fold (to_chunks (num_chunks s) s x).
    rewrite from_wrapping_sum.
    + rewrite to_chunks_sum, Hn. rewrite N.mod_small; [lia|exact Hx].
    + exact Hpos.
    + apply to_chunks_bound.
    + rewrite to_chunks_length. lia.
    + cbn. lia.
Qed.

(** Checked build with size 64: the encoder itself overflows its shift (observation O6). *)
Lemma u64_to_chunks_checked_64 x : u64_to_chunks_checked 64 x = None.
Proof. reflexivity. Qed.

(** Oversized chunks wrap (the documented "does not ensure there is no overflow"). *)
Example chunks_to_u64_overflow_example :
  chunks_to_u64_checked 32 [2 ^ 32; 2 ^ 32 - 1] = None
  /\ chunks_to_u64_wrapping 32 [2 ^ 32; 2 ^ 32] = 2 ^ 32.
Proof. split; vm_compute; reflexivity. Qed.

(** Aggregation: chunk-wise addition adds the denoted values. *)
Fixpoint zip_add (a b : list N) : list N :=
  match a, b with
  | x :: a', y :: b' => (x + y) :: zip_add a' b'
  | _, _ => []
  end.

Lemma chunk_sum_zip_add s : forall a b f, length a = length b ->
  chunk_sum s f (zip_add a b) = chunk_sum s f a + chunk_sum s f b.
Proof.
  induction a as [|x a IH]; intros [|y b] f Hl; cbn [zip_add chunk_sum length] in *; try lia.
  rewrite IH by lia. lia.
Qed.
