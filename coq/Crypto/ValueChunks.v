(** C12 - model of [value_to_chunks] / [chunks_to_value] (rust-src/concordium_base/src/elgamal/mod.rs)
    for multi-limb scalars (definitions only, executable).

    A scalar is a natural number below the field order [r]; [into_repr] is its list of [nl]
    little-endian u64 limbs ([nl = 4] for BLS12-381).  [value_to_chunks] chunks every limb with
    [ChunkSize::u64_to_chunks] and wraps every chunk by [scalar_from_u64]; [chunks_to_value]
    cuts the chunk list into sections of [64/size] chunks ([slice::chunks]), reads limb 0 of
    every chunk ([into_repr()[0]]: a chunk above 64 bits is silently truncated), reassembles one
    u64 per section with [ChunkSize::chunks_to_u64] (which "does not ensure there is no overflow")
    and Horner-sums the sections with the factor 2^64 in the field.  The u64 parts come in the
    checked build ([None] = overflow panic) and in the wrapping build, as in [Chunks.v]. *)
From Coq Require Import NArith List Lia.
From CB Require Import Crypto.Chunks.
Import ListNotations.
Local Open Scope N_scope.

(** [PrimeField::into_repr]: little-endian u64 limbs *)
Definition into_repr (nl : nat) (x : N) : list N := to_chunks nl 64 x.

Fixpoint concat_opt (l : list (option (list N))) : option (list N) :=
  match l with
  | [] => Some []
  | None :: _ => None
  | Some a :: l' => match concat_opt l' with Some b => Some (a ++ b) | None => None end
  end.

(** [value_to_chunks]: [for chunk in val.into_repr() { out.extend(u64_to_chunks(chunk).map(scalar_from_u64)) }] *)
Definition value_to_chunks_gen (tof : N -> option (list N)) (r : N) (nl : nat) (x : N) : option (list N) :=
  match concat_opt (map tof (into_repr nl x)) with
  | Some cs => Some (map (fun c => c mod r) cs)
  | None => None
  end.
Definition value_to_chunks_checked (r : N) (nl : nat) (s : N) (x : N) : option (list N) :=
  value_to_chunks_gen (u64_to_chunks_checked s) r nl x.
Definition value_to_chunks_wrapping (r : N) (nl : nat) (s : N) (x : N) : option (list N) :=
  value_to_chunks_gen (fun l => Some (u64_to_chunks_wrapping s l)) r nl x.

(** [slice::chunks(k)] (k >= 1): sections of k items, the last one possibly shorter *)
Fixpoint sections_fuel (fuel k : nat) (xs : list N) : list (list N) :=
  match fuel with
  | O => []
  | S f => match xs with
           | [] => []
           | _ => firstn k xs :: sections_fuel f k (skipn k xs)
           end
  end.
Definition sections (k : nat) (xs : list N) : list (list N) := sections_fuel (length xs) k xs.

(** the loop of [chunks_to_value]: [val = scalar_from_u64(v) * factor; ret += val; factor *= 2^64],
    all in the field Z/r *)
Fixpoint ctv_loop (fromf : list N -> option N) (r : N) (factor ret : N) (secs : list (list N)) : option N :=
  match secs with
  | [] => Some ret
  | sec :: rest =>
      match fromf (map (fun c => c mod W64) sec) with   (* repr[0] of every chunk *)
      | None => None
      | Some v => ctv_loop fromf r ((factor * (W64 mod r)) mod r) ((ret + ((v mod r) * factor) mod r) mod r) rest
      end
  end.
Definition chunks_to_value_gen (fromf : list N -> option N) (r : N) (s : N) (cs : list N) : option N :=
  ctv_loop fromf r (1 mod r) (0 mod r) (sections (num_chunks s) cs).
Definition chunks_to_value_checked (r : N) (s : N) (cs : list N) : option N :=
  chunks_to_value_gen (chunks_to_u64_checked s) r s cs.
Definition chunks_to_value_wrapping (r : N) (s : N) (cs : list N) : option N :=
  chunks_to_value_gen (fun l => Some (chunks_to_u64_wrapping s l)) r s cs.

(** BLS12-381 scalar field *)
Definition r_bls_N : N := 0x73eda753299d7d483339d80809a1d80553bda402fffe5bfeffffffff00000001.
