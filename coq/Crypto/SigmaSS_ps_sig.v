(** C07 round 4: special soundness of ps_sig_known.rs (knowledge of a Pointcheval-Sanders signature on
    committed / public / known messages; pairings as the bilinear map [pe] of [AlgPairing.v], target
    group written additively, so the "product of pairings" of the code is a sum) and response
    injectivity of com_eq_sig.rs.

    The protocol is an instance of the one-row homomorphism theorem [ss_row_l] of SigmaGeneric.v:
    the verifier's equations are, row by row,  [c *: Y + phi_row z = a_row]  with
      pairing row:   Y = e(b,g~) - e(a,X~) - e(a, sum_{public i} m_i*Y~_i),
                     phi (zr, zs) = zr * e(a,g~) + e(a, sum_{committed/known i} z_i*Y~_i)
      commitment i:  Y = C_i,  phi (zm, zr) = zm*g + zr*h
    ([pss_go_rows] shows the coded loop [pss_extract_go] computes exactly these rows). *)
From Coq Require Import ZArith NArith List Field Lia String Bool.
From CB Require Import Crypto.Alg Crypto.AlgPairing Crypto.Transcript Crypto.TranscriptProofs Crypto.SigmaGeneric Crypto.SigmaCodec
  Crypto.Sigma_com_eq_sig Crypto.Sigma_ps_sig_known.
Import ListNotations.

Section PsSigSS.
  Context {K : FieldOps} {P : PairOps K} {MC : ModOps K}
          (Cd1 : CodecOps (PM1 P)) (Cd2 : CodecOps (PM2 P)) (CdT : CodecOps (PMT P)) (CdC : CodecOps MC).
  Context {KL : FieldLaws K} {PL : PairLaws P} {MLC : ModLaws MC}.
  Add Field Kf_pss_ss : (@F_th K KL).
  Local Open Scope G_scope.
  Notation len := (@List.length _).
  Notation M2 := (PM2 P).

  (** extractor: (z - z')/(c' - c) componentwise, shape by shape *)
  Definition exv (c c' : K) (v v' : psval K) : psval K :=
    match v, v' with
    | VEq a b, VEq a' b' => VEq (exd c c' a a') (exd c c' b b')
    | VKnown a, VKnown a' => VKnown (exd c c' a a')
    | _, _ => VPub
    end.
  Definition pss_extractor (s : pss_stmt P MC) (c c' : K) (z z' : pss_wit) : pss_wit :=
    (exd c c' (fst z) (fst z'), map2 (exv c c') (snd z) (snd z')).

  (** the coded loop computes the rows: [e = L - c*Pb] where [L] is linear in the responses and [Pb]
      the public-message sum; two accepting loops with the same commitment points give the
      per-message relation for the extracted values, and the signed sum of the extracted values is
      [(L - L')/(c' - c) + Pb] *)
  Lemma pss_go_rows (g h : MC) (c c' : K) : c <> c' ->
    forall (msgs : list (psmsg MC K)) (zs zs' : list (psval K)) (yts : list M2) e e' cs,
    len zs = len msgs -> len zs' = len msgs ->
    pss_extract_go g h c msgs zs yts = Some (e, cs) -> pss_extract_go g h c' msgs zs' yts = Some (e', cs) ->
    Forall2 (shape_rel g h) msgs (map2 (exv c c') zs zs') /\ (len msgs <= len yts)%nat /\
    exists L L' Pb : M2, e = L + Fopp K c *: Pb /\ e' = L' + Fopp K c' *: Pb /\
      pss_sum msgs (map2 (exv c c') zs zs') yts = Finv K (Fsub K c' c) *: (L - L') + Pb.
  Proof.
    intro Hc. induction msgs as [|m msgs IH]; intros [|z zs] [|z' zs'] yts e e' cs Lz Lz' E E'; try discriminate.
    - cbn in E, E'. injection E as <- <-. injection E' as <-. split; [constructor|]. split; [cbn; lia|].
      exists (G0 M2), (G0 M2), (G0 M2). cbn. repeat split; mod_norm.
    - cbn [len] in Lz, Lz'.
      destruct m as [C|m|]; destruct z as [zm zr| |zk]; try (cbn in E; discriminate);
        destruct z' as [zm' zr'| |zk']; try (cbn in E'; discriminate);
        (destruct yts as [|y yts]; [cbn in E; discriminate|]); cbn [pss_extract_go] in E, E';
        destruct (pss_extract_go g h c msgs zs yts) as [[e1 cs1]|] eqn:R; try discriminate;
        destruct (pss_extract_go g h c' msgs zs' yts) as [[e1' cs1']|] eqn:R'; try discriminate;
        injection E as <- <-; injection E' as <- Hcs.
      + subst cs1'. rename Hcs into H0.
        destruct (IH zs zs' yts e1 e1' cs1 ltac:(lia) ltac:(lia) R R') as (F & Ly & L & L' & Pb & E1 & E1' & ES).
        assert (EC : C = exd c c' zm zm' *: g + exd c c' zr zr' *: h).
        { symmetry in H0. apply (ss_row_l c c' C _ _ Hc) in H0. rewrite H0. unfold exd. mod_norm. }
        split; [|split; [cbn [len]; lia|]].
        * cbn [map2 exv]. constructor; [|exact F]. rewrite EC at 1. constructor.
        * exists (zm *: y + L), (zm' *: y + L'), Pb. cbn [map2 exv pss_sum]. rewrite ES, E1, E1'.
          repeat split; unfold exd; mod_norm.
      + subst cs1'.
        destruct (IH zs zs' yts e1 e1' cs1 ltac:(lia) ltac:(lia) R R') as (F & Ly & L & L' & Pb & E1 & E1' & ES).
        split; [|split; [cbn [len]; lia|]].
        * cbn [map2 exv]. constructor; [constructor|exact F].
        * exists L, L', (m *: y + Pb). cbn [map2 exv pss_sum]. rewrite ES, E1, E1'. repeat split; mod_norm.
      + subst cs1'.
        destruct (IH zs zs' yts e1 e1' cs1 ltac:(lia) ltac:(lia) R R') as (F & Ly & L & L' & Pb & E1 & E1' & ES).
        split; [|split; [cbn [len]; lia|]].
        * cbn [map2 exv]. constructor; [constructor|exact F].
        * exists (zk *: y + L), (zk' *: y + L'), Pb. cbn [map2 exv pss_sum]. rewrite ES, E1, E1'.
          repeat split; unfold exd; mod_norm.
  Qed.

  (** special soundness with the exact relation [pss_rel] of the completeness theorem: lengths,
      per-message relation ([C_i = m_i*g + r_i*h] for the committed ones) and the pairing equation
        e(b, g~) = e(a, X~ + sum_i m_i*Y~_i + r'*g~) *)
  Theorem pss_special_sound_ : special_sound (pss_proto Cd1 Cd2 CdT CdC) (pss_rel (P:=P) (MC:=MC)) pss_extractor.
  Proof.
    intros [a b msgs pg gt ys yts xt g h] cmsg c c' [zr zs] [zr' zs'] Hc E E'.
    cbn [p_extract pss_proto] in E, E'. unfold pss_extract in E, E'.
    cbn [ps_a ps_b ps_msgs ps_pkg ps_gt ps_ys ps_yts ps_xt ps_g ps_h] in *.
    destruct (Nat.ltb (len ys) (len msgs)) eqn:Ly; [discriminate|]. apply Nat.ltb_ge in Ly.
    destruct (Nat.eqb (len msgs) (len zs)) eqn:Lz; [|discriminate].
    destruct (Nat.eqb (len msgs) (len zs')) eqn:Lz'; [|discriminate].
    apply Nat.eqb_eq in Lz, Lz'. cbn [negb] in E, E'.
    destruct (pss_extract_go g h c msgs zs yts) as [[e cs]|] eqn:R; [|discriminate].
    destruct (pss_extract_go g h c' msgs zs' yts) as [[e' cs']|] eqn:R'; [|discriminate].
    rewrite <- E' in E. injection E as E1 E2. subst cs'.
    destruct (pss_go_rows g h c c' Hc msgs zs zs' yts e e' cs (eq_sym Lz) (eq_sym Lz') R R')
      as (F & Lyt & L & L' & Pb & He & He' & ES).
    unfold pss_rel, pss_extractor. cbn [ps_a ps_b ps_msgs ps_pkg ps_gt ps_ys ps_yts ps_xt ps_g ps_h fst snd].
    repeat split; auto.
    rewrite ES. subst e e'. unfold Gsub in *.
    repeat (rewrite pe_add_r in * || rewrite pe_smul_r in * || rewrite pe_opp_r in *).
    set (Y := pe P b gt + (Gopp (PMT P) (pe P a xt) + Gopp (PMT P) (pe P a Pb))).
    set (A := zr *: pe P a gt + pe P a L).
    set (A' := zr' *: pe P a gt + pe P a L').
    assert (EY : c *: Y + A = c' *: Y + A').
    { transitivity (c *: pe P b gt + (zr *: pe P a gt + (Fopp K c *: pe P a xt + (pe P a L + Fopp K c *: pe P a Pb))));
        [unfold Y, A; mod_norm|]. rewrite E1. unfold Y, A'. mod_norm. }
    apply (ss_row_l c c' Y A A' Hc) in EY.
    transitivity (Y + (pe P a xt + pe P a Pb)); [unfold Y; mod_norm|]. rewrite EY. unfold A, A', exd. mod_norm.
  Qed.

  (** * com_eq_sig: a reconstructed commit message determines the response when [phi] is injective:
      the commitment key is binding as a map ([x*g + y*h] determines [(x,y)]) and [e(a_hat, g~)] has
      trivial annihilator.  Both are genuine preconditions (identity points violate them; the harness
      observes exactly these acceptances in its identity_generator variant). *)
  Lemma ces_zs_injective (c : K) (g h : MC) :
    (forall x y x' y' : K, x *: g + y *: h = x' *: g + y' *: h -> x = x' /\ y = y') ->
    forall (cm : list MC) (zs zs' : list (K * K)), len zs = len cm -> len zs' = len cm ->
    map2 (fun Ci z => c *: Ci + (fst z *: g + snd z *: h)) cm zs =
    map2 (fun Ci z => c *: Ci + (fst z *: g + snd z *: h)) cm zs' -> zs = zs'.
  Proof.
    intro Hped. induction cm as [|C cm IH]; intros [|[x y] zs] [|[x' y'] zs'] L L' E; try discriminate; [reflexivity|].
    cbn [map2 fst snd] in E. injection E as E0 E. apply Gadd_cancel_l in E0. apply Hped in E0. destruct E0 as [-> ->].
    f_equal. apply IH; cbn in *; auto; lia.
  Qed.
  Theorem ces_response_injective_ : forall (s : ces_stmt P MC) (c : K) (z z' : ces_wit) cm,
    (forall x y x' y' : K, x *: cs_g s + y *: cs_h s = x' *: cs_g s + y' *: cs_h s -> x = x' /\ y = y') ->
    (forall x x' : K, x *: pe P (cs_a s) (cs_gt s) = x' *: pe P (cs_a s) (cs_gt s) -> x = x') ->
    ces_extract s c z = Some cm -> ces_extract s c z' = Some cm -> z = z'.
  Proof.
    intros [a b cm0 pg gt ys yts xt g h] c [zr zs] [zr' zs'] cm Hped Hgt E E'. unfold ces_extract, Sigma_com_eq_sig.neqb in E, E'.
    cbn [cs_a cs_b cs_cmts cs_pkg cs_gt cs_ys cs_yts cs_xt cs_g cs_h] in *.
    destruct (Nat.eqb (len zs) (len cm0)) eqn:L; [|discriminate].
    destruct (Nat.eqb (len zs') (len cm0)) eqn:L'; [|discriminate].
    destruct (Nat.ltb (len yts) (len cm0)); [discriminate|].
    apply Nat.eqb_eq in L, L'. cbn [negb] in E, E'. rewrite <- E' in E. injection E as E1 E2.
    apply (ces_zs_injective c g h Hped cm0 zs zs' L L') in E2. subst zs'. f_equal.
    apply Gadd_cancel_l in E1. rewrite !pe_add_r, !pe_smul_r in E1. apply Gadd_cancel_r in E1. now apply Hgt.
  Qed.

  (** com_eq_sig is the special case "all messages committed" of ps_sig_known: its verifier's rows
      are the same one-row homomorphism equations (used by [ces_special_sound_]); here the
      unconditional form of its special soundness: the side condition [|commitments| <= |ys|] that only
      the prover-side code checks is the ONLY part of [ces_rel] that two accepting transcripts do not give *)
  Theorem ces_special_sound_key_length_ : forall (s : ces_stmt P MC) a c c' z z', c <> c' ->
    ces_extract s c z = Some a -> ces_extract s c' z' = Some a ->
    let w := ces_extractor s c c' z z' in
    len (snd w) = len (cs_cmts s) /\ (len (cs_cmts s) <= len (cs_yts s))%nat /\
    cs_cmts s = map (fun v => fst v *: cs_g s + snd v *: cs_h s) (snd w) /\
    pe P (cs_b s) (cs_gt s) = pe P (cs_a s) (cs_xt s + (msm (map fst (snd w)) (cs_yts s) + fst w *: cs_gt s)) /\
    ((len (cs_cmts s) <= len (cs_ys s))%nat -> ces_rel s w).
  Proof.
    intros s a c c' z z' Hc E E' w.
    assert (S := ces_special_sound_ Cd1 Cd2 CdT CdC s a c c' z z' Hc E E'). cbn beta in S. fold w in S.
    (* the four unconditional parts do not depend on [ys]: replay the proof on the statement whose [ys] is long enough *)
    set (s' := mkCes (cs_a s) (cs_b s) (cs_cmts s) (cs_pkg s) (cs_gt s) (repeat (cs_pkg s) (len (cs_cmts s))) (cs_yts s) (cs_xt s) (cs_g s) (cs_h s)).
    assert (X : forall c0 z0, ces_extract s' c0 z0 = ces_extract s c0 z0) by (intros c0 [zr0 zs0]; reflexivity).
    assert (S' := ces_special_sound_ Cd1 Cd2 CdT CdC s' a c c' z z' Hc).
    cbn [p_extract ces_proto] in S'. rewrite !X in S'. specialize (S' E E').
    assert (Lr : (len (cs_cmts s') <= len (cs_ys s'))%nat) by (unfold s'; cbn [cs_cmts cs_ys]; rewrite repeat_length; lia).
    specialize (S' Lr). unfold ces_rel in S'. change (ces_extractor s' c c' z z') with w in S'.
    destruct w as [r' vals]. cbn [fst snd]. unfold s' in S'. cbn [cs_a cs_b cs_cmts cs_pkg cs_gt cs_ys cs_yts cs_xt cs_g cs_h] in S'.
    destruct S' as (S1 & _ & S3 & S4 & S5). repeat split; auto.
  Qed.
End PsSigSS.
