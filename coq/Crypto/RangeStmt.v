(** C11 - arithmetic of the statements behind the bulletproof range / set proofs.
    Definitions only (executable).  Anchors:
      range_proof.rs  a_L_a_R, two_n_vec, prove_given_scalars (takes limb 0 of the scalar),
                      prove_/verify_less_than_or_equal, prove_/verify_in_range
      utils.rs        pad_vector_to_power_of_two                                         *)
From Coq Require Import ZArith List Bool.
Import ListNotations.
Local Open Scope Z_scope.

Definition W64 : Z := 2 ^ 64.

(** [ith_bit_bool v i] / [a_L_a_R v n]: the n low bits of v, and a_R = a_L - 1. *)
Definition bit_of (v : Z) (i : nat) : Z := if Z.testbit v (Z.of_nat i) then 1 else 0.
Definition bits (v : Z) (n : nat) : list Z := map (bit_of v) (seq 0 n).
Definition aR_of (aL : list Z) : list Z := map (fun b => b - 1) aL.
(** [two_n_vec n] = (1, 2, ..., 2^(n-1)). *)
Definition pow2s (n : nat) : list Z := map (fun i => 2 ^ Z.of_nat i) (seq 0 n).
Definition idot (a b : list Z) : Z :=
  fold_right Z.add 0 (map (fun p => fst p * snd p) (combine a b)).
Definition had_zero (a b : list Z) : Prop :=
  Forall (fun p => fst p * snd p = 0) (combine a b).

(** The two conditions the bit commitment has to satisfy for the value v at width n. *)
Definition bits_ok (v : Z) (n : nat) : Prop :=
  had_zero (bits v n) (aR_of (bits v n)) /\ idot (bits v n) (pow2s n) = v.

(** ** a <= b  (prove_less_than_or_equal / verify_less_than_or_equal)
    The verifier range-checks the commitments  C_b - C_a  and  C_a  at width n, i.e. the
    scalars (b - a) mod r and a mod r.  The prover range-proves the u64 values [b - a, a]. *)
Definition leq_committed (r a b : Z) : Z * Z := ((b - a) mod r, a mod r).
(** prover's values: checked build (overflow-checks on: a > b panics = None) and wrapping build *)
Definition leq_prover_checked (a b : Z) : option (Z * Z) :=
  if a <=? b then Some (b - a, a) else None.
Definition leq_prover_wrapping (a b : Z) : Z * Z := ((b - a) mod W64, a).
Definition pair_in_range (n : Z) (p : Z * Z) : Prop :=
  0 <= fst p < 2 ^ n /\ 0 <= snd p < 2 ^ n.
Definition pair_in_rangeb (n : Z) (p : Z * Z) : bool :=
  (0 <=? fst p) && (fst p <? 2 ^ n) && (0 <=? snd p) && (snd p <? 2 ^ n).

(** ** v in [a, b)  (prove_in_range / verify_in_range), width 64
    verifier: commitments to  v - b + 2^64  and  v - a  (as scalars);
    prover (prove_given_scalars): limb 0 (the low 64 bits) of those scalars. *)
Definition in_range_committed (r v a b : Z) : Z * Z :=
  ((v + W64 - b) mod r, (v - a) mod r).
Definition low64 (x : Z) : Z := x mod W64.
Definition in_range_prover (r v a b : Z) : Z * Z :=
  (low64 (fst (in_range_committed r v a b)), low64 (snd (in_range_committed r v a b))).
(** acceptance predicted for the honest prover: the proof is about the prover's u64 values, the
    verifier checks it against the committed scalars - it can only verify when they coincide *)
Definition in_range_accepts (r v a b : Z) : bool :=
  let c := in_range_committed r v a b in
  let p := in_range_prover r v a b in
  (fst c =? fst p) && (snd c =? snd p).
Definition leq_accepts_wrapping (r n a b : Z) : bool :=
  let c := leq_committed r a b in
  let p := leq_prover_wrapping a b in
  (fst c =? fst p) && (snd c =? snd p) && pair_in_rangeb n p.

(** ** pad_vector_to_power_of_two *)
Fixpoint next_pow2_from (fuel k n : nat) : nat :=
  if Nat.leb n k then k else
  match fuel with O => k | S f => next_pow2_from f (2 * k) n end.
Definition next_pow2 (n : nat) : nat := next_pow2_from n 1 n.
Definition pad_pow2 {A} (l : list A) : list A :=
  match l with
  | [] => []
  | x :: _ => l ++ repeat (last l x) (next_pow2 (length l) - length l)
  end.
