(** sigma_protocols/aggregate_dlog.rs: knowledge of [w_1..w_n] with [public = sum w_i * coeff_i],
    for every n (0, 1, n).  The linear map is the single row [coeff]. *)
From Coq Require Import ZArith NArith List Field Lia String Bool.
From CB Require Import Crypto.Alg Crypto.Transcript Crypto.TranscriptProofs Crypto.SigmaGeneric Crypto.SigmaCodec.
Import ListNotations.

Record agg_stmt {K : FieldOps} (M : ModOps K) := mkAgg { ag_public : M; ag_coeff : list M }.
Arguments mkAgg {K M} _ _. Arguments ag_public {K M} _. Arguments ag_coeff {K M} _.

Section AggDlog.
  Context {K : FieldOps} {M : ModOps K} (Cd : CodecOps M).
  Local Open Scope G_scope.

  (** [public]: append_message("public", public); append_messages("coeff", coeff) *)
  Definition agg_public (k : tkind) (s : agg_stmt M) : bytes :=
    msg k (str "public") (serG Cd (ag_public s)) ++ msgs k (str "coeff") (map (serG Cd) (ag_coeff s)).
  (** n = coeff.len() random scalars; multiexp(coeff, rands) *)
  Definition agg_commit (s : agg_stmt M) (r : list K) : option M := Some (msm r (ag_coeff s)).
  (** [if state.len() != secret.len() return None]; r_i - c*s_i (as -(c*s) + r) *)
  Definition agg_respond (s : agg_stmt M) (w r : list K) (c : K) : option (list K) :=
    if negb (Nat.eqb (List.length r) (List.length w)) then None
    else Some (map2 (fun wi ri => Fadd K (Fopp K (Fmul K c wi)) ri) w r).
  (** [if response.len() != coeff.len() return None]; public*c + sum w_i*g_i *)
  Definition agg_extract (s : agg_stmt M) (c : K) (z : list K) : option M :=
    if negb (Nat.eqb (List.length z) (List.length (ag_coeff s))) then None
    else Some (c *: ag_public s + msm z (ag_coeff s)).

  Definition agg_proto : proto K := {|
    p_stmt := agg_stmt M; p_wit := list K; p_rand := list K; p_cm := M; p_resp := list K;
    p_public := agg_public; p_commit := agg_commit; p_respond := agg_respond; p_extract := agg_extract;
    p_ser_cm := serG Cd; p_ser_resp := fun z => ser_vec32 (map (serF Cd) z) |}.

  Definition agg_rel (s : agg_stmt M) (w : list K) : Prop :=
    List.length w = List.length (ag_coeff s) /\ ag_public s = msm w (ag_coeff s).
  Definition agg_rok (s : agg_stmt M) (r : list K) : Prop := List.length r = List.length (ag_coeff s).
  Definition agg_recover (s : agg_stmt M) (w : list K) (c : K) (z : list K) : list K :=
    map2 (fun zi wi => Fadd K zi (Fmul K c wi)) z w.

  Definition agg_A (s : agg_stmt M) : list (list M) := [ag_coeff s].
  Definition agg_y (s : agg_stmt M) : list M := [ag_public s].

  Context {KL : FieldLaws K} {ML : ModLaws M}.
  Add Field Kf_agg : (@F_th K KL).

  Lemma agg_respond_is_generic : forall (w r : list K) c,
    map2 (fun wi ri => Fadd K (Fopp K (Fmul K c wi)) ri) w r = m_respond RespMinus c w r.
  Proof.
    unfold m_respond, vsub, vscale. induction w as [|x w IH]; intros [|y r] c; cbn [map map2]; try reflexivity.
    rewrite IH. f_equal. ring.
  Qed.
  Lemma agg_commit_generic s r a : agg_commit s r = Some a -> [a] = m_commit (agg_A s) r.
  Proof. intro E. injection E as <-. reflexivity. Qed.
  Lemma agg_respond_generic s w r c z : agg_respond s w r c = Some z -> z = m_respond RespMinus c w r.
  Proof.
    unfold agg_respond. destruct (negb _); [discriminate|]. intro E. injection E as <-. apply agg_respond_is_generic.
  Qed.
  Lemma agg_extract_generic s c z a : agg_extract s c z = Some a ->
    [a] = m_reconstruct RespMinus (agg_A s) (agg_y s) c z /\ List.length z = List.length (ag_coeff s).
  Proof.
    unfold agg_extract. destruct (Nat.eqb _ _) eqn:L; [|discriminate]. cbn. intro E. injection E as <-.
    apply Nat.eqb_eq in L. split; [reflexivity|exact L].
  Qed.
  Lemma agg_rel_generic s w : List.length w = List.length (ag_coeff s) ->
    (agg_rel s w <-> phi (agg_A s) w = agg_y s).
  Proof.
    intro L. unfold agg_rel, phi, agg_A, agg_y. cbn. split.
    - intros [_ ->]. reflexivity.
    - intro E. injection E as E. auto.
  Qed.

  (** completeness for every n, including n = 0 (public must then be the identity) *)
  Theorem agg_complete_ : complete agg_proto agg_rel agg_rok.
  Proof.
    intros s w r [Lw Hp] Lr. eexists. split; [reflexivity|]. intro c. cbn. unfold agg_respond, agg_extract.
    unfold agg_rok in Lr. rewrite Lr, Lw, Nat.eqb_refl. cbn [negb]. eexists. split; [reflexivity|].
    rewrite map2_length, Lw, Lr, Nat.min_id, Nat.eqb_refl. cbn [negb]. f_equal.
    rewrite agg_respond_is_generic. unfold m_respond. rewrite msm_vsub by (rewrite vscale_length; congruence).
    rewrite msm_vscale, Hp. mod_norm.
  Qed.

  Definition agg_extractor (s : agg_stmt M) (c c' : K) (z z' : list K) : list K := m_extract RespMinus c c' z z'.
  Theorem agg_special_sound_ : special_sound agg_proto agg_rel agg_extractor.
  Proof.
    intros s a c c' z z' Hc E E'.
    destruct (agg_extract_generic s c z a E) as [G1 L1]. destruct (agg_extract_generic s c' z' a E') as [G2 L2].
    assert (L : List.length (agg_extractor s c c' z z') = List.length (ag_coeff s)).
    { unfold agg_extractor, m_extract, vsub. rewrite vscale_length, map2_length, L1, L2. apply Nat.min_id. }
    apply agg_rel_generic; [exact L|].
    apply (sigma_special_sound_ RespMinus (agg_A s) (agg_y s) [a] c c' z z' Hc); auto; congruence.
  Qed.

  Context {CL : CodecLaws Cd}.
  (** V1: the count written by [append_messages] makes the number of generators part of the frame *)
  Theorem agg_public_prefix_free_v1_ :
    public_prefix_free agg_proto V1 (fun s => (N.of_nat (List.length (ag_coeff s)) < W64)%N).
  Proof.
    intros [p cs] [p' cs'] x y L L' E. cbn [ag_coeff] in L, L'. cbn [p_public agg_proto] in E. unfold agg_public in E. cbn [ag_public ag_coeff] in E.
    rewrite <- !app_assoc in E. apply (msg_split_G Cd) in E. destruct E as [-> E].
    apply (msgs_v1_split_G Cd) in E; auto. destruct E as [-> ->]. auto.
  Qed.
  (** legacy: no count is written; [public] is prefix free only among statements of one size *)
  Theorem agg_public_prefix_free_legacy_fixed_size_ : forall n,
    public_prefix_free agg_proto Legacy (fun s => List.length (ag_coeff s) = n).
  Proof.
    intros n [p cs] [p' cs'] x y L L' E. cbn [ag_coeff] in L, L'. cbn [p_public agg_proto] in E. unfold agg_public in E. cbn [ag_public ag_coeff] in E.
    rewrite <- !app_assoc in E. apply (msg_split_G Cd) in E. destruct E as [-> E].
    apply (msgs_split_G_samelen Cd) in E; [|congruence]. destruct E as [-> ->]. auto.
  Qed.
End AggDlog.
