(** Theorems about the BLS model (Bls.v), for every lawful pairing setting. *)
From Coq Require Import List Bool Field Ring Permutation Lia.
From CB Require Import Crypto.PairingAlg Crypto.Bls.
Import ListNotations.

Lemma bool_eq_of_iff (a b : bool) : (a = true <-> b = true) -> a = b.
Proof. destruct a, b; intros [H1 H2]; try reflexivity; [symmetry; now apply H1 | now apply H2]. Qed.

Section BlsProofs.
  Variable A : pops.
  Hypothesis L : plaws A.
  Add Field PFfield_bls : (pf_th A L).
  Variable Msg : Type.
  Variable Dg : Type.
  Variable dg_eqb : Dg -> Dg -> bool.
  Hypothesis dg_eqb_spec : forall a b, dg_eqb a b = true <-> a = b.
  Variable hm : Msg -> Dg.
  Variable H1 : Msg -> P1 A.

  Notation K := (PF A).
  Notation h m := (dl1 A (H1 m)).
  Notation "a +' b" := (fadd K a b) (at level 50, left associativity).
  Notation "a *' b" := (fmul K a b) (at level 40, left associativity).
  Notation sign := (sign A Msg H1).
  Notation verify := (verify A Msg H1).
  Notation pk_of := (pk_of A).
  Notation has_dup := (has_dup Dg dg_eqb).
  Notation verify_aggregate_sig := (verify_aggregate_sig A Msg Dg dg_eqb hm H1).
  Notation verify_hybrid := (verify_aggregate_sig_hybrid A Msg H1).
  Notation verify_trusted := (verify_aggregate_sig_trusted_keys A Msg H1).
  Notation aggregate := (aggregate A).
  Notation aggregate_list := (aggregate_list A).
  Notation prod_pairs := (prod_pairs A Msg H1).
  Notation prod_groups := (prod_groups A Msg H1).
  Notation sum_pks := (sum_pks A).
  Notation gT := (gT A).
  Notation msg_dg := (fun p : Msg * P2 A => hm (fst p)).

  (** *** field helpers *)
  Lemma fmul_eq_0 (a b : K) : a *' b = f0 K -> a = f0 K \/ b = f0 K.
  Proof.
    intros H. destruct (f_eq_dec K (pf_eqb A L) a (f0 K)) as [|N]; [now left|right].
    transitivity (finv K a *' (a *' b)); [field; assumption | rewrite H; ring].
  Qed.

  Lemma fmul_cancel_l (a b c : K) : a <> f0 K -> a *' b = a *' c -> b = c.
  Proof.
    intros N H. transitivity (finv K a *' (a *' b)); [field; assumption|].
    rewrite H. field; assumption.
  Qed.

  Lemma fadd_cancel_r (a b c : K) : a +' c = b +' c -> a = b.
  Proof.
    intros H. transitivity ((a +' c) +' fopp K c); [ring|]. rewrite H. ring.
  Qed.

  (** *** single signatures *)
  Lemma verify_iff pk m sig :
    verify pk m sig = true <-> pair A sig (gen2 A) = pair A (H1 m) pk.
  Proof. apply (check_pairing_eq_iff A L). Qed.

  Lemma verify_exp pk m sig : verify pk m sig = true <-> dl1 A sig = h m *' dl2 A pk.
  Proof.
    rewrite verify_iff, (pair_eq_iff A L), (dl2_gen A L).
    replace (dl1 A sig *' f1 K) with (dl1 A sig) by ring. reflexivity.
  Qed.

  Lemma dl2_pk_of sk : dl2 A (pk_of sk) = sk.
  Proof. unfold Bls.pk_of. rewrite (dl2_smul A L), (dl2_gen A L). ring. Qed.

  Lemma dl1_sign sk m : dl1 A (sign sk m) = sk *' h m.
  Proof. unfold Bls.sign. apply (dl1_smul A L). Qed.

  Lemma bls_complete_l sk m : verify (pk_of sk) m (sign sk m) = true.
  Proof. apply verify_exp. rewrite dl1_sign, dl2_pk_of. ring. Qed.

  (** acceptance of an honest signature under another key / message = a coincidence in the exponent *)
  Lemma bls_forgery_event_l sk m pk' m' :
    verify pk' m' (sign sk m) = true <-> sk *' h m = h m' *' dl2 A pk'.
  Proof. rewrite verify_exp, dl1_sign. reflexivity. Qed.

  Lemma bls_wrong_key_rejected_l sk m pk' :
    H1 m <> m0 (P1 A) -> pk' <> pk_of sk -> verify pk' m (sign sk m) = false.
  Proof.
    intros Hm Hpk. destruct (verify pk' m (sign sk m)) eqn:E; [|reflexivity]. exfalso.
    apply bls_forgery_event_l in E. apply Hpk. apply (dl2_eq A L). rewrite dl2_pk_of.
    assert (Hh : h m <> f0 K) by (intros Z; apply Hm; now apply (dl1_eq_zero A L)).
    apply (fmul_cancel_l (h m)); [assumption|]. rewrite <- E. ring.
  Qed.

  Lemma bls_wrong_message_collision_l sk m m' :
    sk <> f0 K -> verify (pk_of sk) m' (sign sk m) = true -> H1 m' = H1 m.
  Proof.
    intros Hsk E. apply bls_forgery_event_l in E. rewrite dl2_pk_of in E.
    apply (dl1_eq A L). apply (fmul_cancel_l sk); [assumption|]. rewrite E. ring.
  Qed.

  (** *** aggregation *)
  Fixpoint sum_dl1 (l : list (P1 A)) : K :=
    match l with [] => f0 K | s :: t => dl1 A s +' sum_dl1 t end.

  Lemma dl1_fold_aggregate rest s :
    dl1 A (fold_left aggregate rest s) = dl1 A s +' sum_dl1 rest.
  Proof.
    revert s; induction rest as [|t rest IH]; intros s; cbn [fold_left sum_dl1].
    - ring.
    - rewrite IH. unfold Bls.aggregate. rewrite (dl1_add A L). ring.
  Qed.

  Lemma dl1_aggregate_list sigs : dl1 A (aggregate_list sigs) = sum_dl1 sigs.
  Proof.
    destruct sigs as [|s rest]; cbn [Bls.aggregate_list sum_dl1].
    - apply (dl1_zero A L).
    - apply dl1_fold_aggregate.
  Qed.

  Lemma sum_dl1_perm l l' : Permutation l l' -> sum_dl1 l = sum_dl1 l'.
  Proof.
    induction 1; cbn [sum_dl1] in *; try congruence; ring.
  Qed.

  Lemma aggregate_perm_l sigs sigs' : Permutation sigs sigs' -> aggregate_list sigs = aggregate_list sigs'.
  Proof. intros P. apply (dl1_eq A L). rewrite !dl1_aggregate_list. now apply sum_dl1_perm. Qed.

  Lemma aggregate_assoc_l a b c : aggregate a (aggregate b c) = aggregate (aggregate a b) c.
  Proof. apply (madd_assoc _ (p1_laws A L)). Qed.

  Lemma aggregate_comm_l a b : aggregate a b = aggregate b a.
  Proof. apply (madd_comm _ (p1_laws A L)). Qed.

  Lemma aggregate_empty_l a : aggregate (empty_sig A) a = a.
  Proof. apply (madd_0_l _ (p1_laws A L)). Qed.

  (** *** the product of pairings in the exponent *)
  Fixpoint exp_sum (pairs : list (Msg * P2 A)) : K :=
    match pairs with [] => f0 K | p :: t => h (fst p) *' dl2 A (snd p) +' exp_sum t end.

  Lemma fold_pair_step_exp pairs : forall acc x, acc = msmul (PT A) x gT ->
    fold_left (pair_step A Msg H1) pairs acc = msmul (PT A) (x +' exp_sum pairs) gT.
  Proof.
    induction pairs as [|p t IH]; intros acc x Hacc; cbn [fold_left exp_sum].
    - rewrite Hacc. f_equal. ring.
    - rewrite (IH _ (x +' h (fst p) *' dl2 A (snd p))).
      + f_equal. ring.
      + unfold pair_step. rewrite Hacc, (pair_exp A L), <- (msmul_add_l _ (pt_laws A L)). reflexivity.
  Qed.

  Lemma zero_as_gT : m0 (PT A) = msmul (PT A) (f0 K) gT.
  Proof. symmetry. apply msmul_0_l; [exact (pf_th A L) | exact (pt_laws A L)]. Qed.

  Lemma prod_pairs_exp pairs : prod_pairs pairs = msmul (PT A) (exp_sum pairs) gT.
  Proof.
    unfold Bls.prod_pairs. rewrite (fold_pair_step_exp pairs _ (f0 K) zero_as_gT). f_equal. ring.
  Qed.

  Lemma pair_sig_exp sig : pair A sig (gen2 A) = msmul (PT A) (dl1 A sig) gT.
  Proof. rewrite (pair_exp A L), (dl2_gen A L). f_equal. ring. Qed.

  Lemma exp_sum_app l1 l2 : exp_sum (l1 ++ l2) = exp_sum l1 +' exp_sum l2.
  Proof. induction l1 as [|p t IH]; cbn [app exp_sum] in *; [ring | rewrite IH; ring]. Qed.

  Lemma exp_sum_perm l l' : Permutation l l' -> exp_sum l = exp_sum l'.
  Proof. induction 1; cbn [exp_sum] in *; try congruence; ring. Qed.

  (** *** duplicate detection *)
  Lemma existsb_dg_false d l : existsb (dg_eqb d) l = false <-> ~ In d l.
  Proof.
    induction l as [|x l IH]; cbn [existsb In].
    - split; [intros _ []|reflexivity].
    - rewrite orb_false_iff, IH. split.
      + intros [E N] [->|I]; [|now apply N]. assert (T : dg_eqb d d = true) by now apply dg_eqb_spec. congruence.
      + intros N. split.
        * destruct (dg_eqb d x) eqn:E; [|reflexivity]. apply dg_eqb_spec in E. subst. exfalso. apply N. now left.
        * intros I. apply N. now right.
  Qed.

  Lemma has_dup_false_iff ds : has_dup ds = false <-> NoDup ds.
  Proof.
    induction ds as [|d ds IH]; cbn [Bls.has_dup].
    - split; [constructor|reflexivity].
    - rewrite orb_false_iff, existsb_dg_false, IH. split.
      + intros [N D]. now constructor.
      + intros D. inversion D; subst. now split.
  Qed.

  (** *** the exact acceptance condition of [verify_aggregate_sig] *)
  Lemma verify_aggregate_iff_l pairs sig :
    verify_aggregate_sig pairs sig = true <->
    has_dup (map msg_dg pairs) = false /\ pairs <> [] /\ dl1 A sig = exp_sum pairs.
  Proof.
    unfold Bls.verify_aggregate_sig. destruct (has_dup (map msg_dg pairs)) eqn:D.
    - split; [discriminate | intros [? _]; discriminate].
    - destruct pairs as [|p t].
      + split; [discriminate | intros (_ & N & _); now elim N].
      + rewrite (meqb_spec _ (pt_laws A L)), pair_sig_exp, prod_pairs_exp. split.
        * intros H. apply (gT_inj A L) in H. repeat split; [discriminate | assumption].
        * intros (_ & _ & H). now rewrite H.
  Qed.

  (** *** honest signer sets: a list of (secret key, message) *)
  Definition pairs_of (signers : list (K * Msg)) : list (Msg * P2 A) :=
    map (fun s => (snd s, pk_of (fst s))) signers.
  Definition sigs_of (signers : list (K * Msg)) : list (P1 A) :=
    map (fun s => sign (fst s) (snd s)) signers.
  Fixpoint signer_sum (signers : list (K * Msg)) : K :=
    match signers with [] => f0 K | s :: t => fst s *' h (snd s) +' signer_sum t end.

  Lemma sum_dl1_sigs_of signers : sum_dl1 (sigs_of signers) = signer_sum signers.
  Proof.
    induction signers as [|s t IH]; cbn [sigs_of map sum_dl1 signer_sum] in *; [reflexivity|].
    rewrite dl1_sign. unfold sigs_of in IH. rewrite IH. reflexivity.
  Qed.

  Lemma exp_sum_pairs_of signers : exp_sum (pairs_of signers) = signer_sum signers.
  Proof.
    induction signers as [|s t IH]; cbn [pairs_of map exp_sum signer_sum fst snd] in *; [reflexivity|].
    rewrite dl2_pk_of. unfold pairs_of in IH. rewrite IH. ring.
  Qed.

  Lemma signer_sum_perm l l' : Permutation l l' -> signer_sum l = signer_sum l'.
  Proof. induction 1; cbn [signer_sum] in *; try congruence; ring. Qed.

  Lemma dl1_honest_aggregate signers : dl1 A (aggregate_list (sigs_of signers)) = signer_sum signers.
  Proof. now rewrite dl1_aggregate_list, sum_dl1_sigs_of. Qed.

  Lemma map_dg_pairs_of signers :
    map msg_dg (pairs_of signers) = map (fun s : K * Msg => hm (snd s)) signers.
  Proof. unfold pairs_of. rewrite map_map. reflexivity. Qed.

  Lemma aggregate_verifies_its_multiset_l signers order sigs' :
    signers <> [] ->
    NoDup (map (fun s : K * Msg => hm (snd s)) signers) ->
    Permutation signers order ->
    Permutation (sigs_of signers) sigs' ->
    verify_aggregate_sig (pairs_of order) (aggregate_list sigs') = true.
  Proof.
    intros Hne Hnd Hp Hs. apply verify_aggregate_iff_l. repeat split.
    - apply has_dup_false_iff. rewrite map_dg_pairs_of.
      eapply Permutation_NoDup; [|exact Hnd]. now apply Permutation_map.
    - destruct order as [|o order']; [|discriminate].
      apply Permutation_sym, Permutation_nil in Hp. contradiction.
    - rewrite <- (aggregate_perm_l _ _ Hs), dl1_honest_aggregate, exp_sum_pairs_of.
      now apply signer_sum_perm.
  Qed.

  (** acceptance of an honest aggregate against an arbitrary claimed list of pairs *)
  Lemma aggregate_accept_iff_l signers claimed :
    verify_aggregate_sig claimed (aggregate_list (sigs_of signers)) = true <->
    has_dup (map msg_dg claimed) = false /\ claimed <> [] /\ signer_sum signers = exp_sum claimed.
  Proof. rewrite verify_aggregate_iff_l, dl1_honest_aggregate. reflexivity. Qed.

  Lemma aggregate_missing_signer_rejected_l s signers :
    fst s <> f0 K -> H1 (snd s) <> m0 (P1 A) ->
    verify_aggregate_sig (pairs_of signers) (aggregate_list (sigs_of (s :: signers))) = false.
  Proof.
    intros Hsk Hm.
    destruct (verify_aggregate_sig (pairs_of signers) (aggregate_list (sigs_of (s :: signers)))) eqn:E; [|reflexivity].
    exfalso. apply aggregate_accept_iff_l in E. destruct E as (_ & _ & E).
    rewrite exp_sum_pairs_of in E. cbn [signer_sum] in E.
    assert (Z : fst s *' h (snd s) = f0 K).
    { apply (fadd_cancel_r _ _ (signer_sum signers)). rewrite E. ring. }
    apply fmul_eq_0 in Z. destruct Z as [Z|Z]; [contradiction|]. apply Hm. now apply (dl1_eq_zero A L).
  Qed.

  Lemma aggregate_extra_pair_rejected_l p signers :
    dl2 A (snd p) <> f0 K -> H1 (fst p) <> m0 (P1 A) ->
    verify_aggregate_sig (p :: pairs_of signers) (aggregate_list (sigs_of signers)) = false.
  Proof.
    intros Hpk Hm.
    destruct (verify_aggregate_sig (p :: pairs_of signers) (aggregate_list (sigs_of signers))) eqn:E; [|reflexivity].
    exfalso. apply aggregate_accept_iff_l in E. destruct E as (_ & _ & E).
    cbn [exp_sum] in E. rewrite exp_sum_pairs_of in E.
    assert (Z : h (fst p) *' dl2 A (snd p) = f0 K).
    { apply (fadd_cancel_r _ _ (signer_sum signers)). rewrite <- E. ring. }
    apply fmul_eq_0 in Z. destruct Z as [Z|Z]; [|contradiction]. apply Hm. now apply (dl1_eq_zero A L).
  Qed.

  (** *** duplicates and the empty set *)
  Lemma empty_rejected_l sig : verify_aggregate_sig [] sig = false.
  Proof. reflexivity. Qed.

  Lemma dup_digest_rejected_l pairs sig :
    ~ NoDup (map msg_dg pairs) -> verify_aggregate_sig pairs sig = false.
  Proof.
    intros N. unfold Bls.verify_aggregate_sig. destruct (has_dup (map msg_dg pairs)) eqn:D; [reflexivity|].
    apply has_dup_false_iff in D. contradiction.
  Qed.

  Lemma dup_message_rejected_l l1 l2 l3 m pk pk' sig :
    verify_aggregate_sig (l1 ++ (m, pk) :: l2 ++ (m, pk') :: l3) sig = false.
  Proof.
    apply dup_digest_rejected_l. rewrite map_app. cbn [map fst]. rewrite map_app. cbn [map fst].
    intros N. apply NoDup_remove_2 in N. apply N. apply in_or_app. right. apply in_or_app. right. now left.
  Qed.

  Lemma trusted_empty_rejected_l m sig : verify_trusted m [] sig = false.
  Proof. reflexivity. Qed.

  (** *** the hybrid and trusted-key variants *)
  Fixpoint sum_dl2 (l : list (P2 A)) : K :=
    match l with [] => f0 K | s :: t => dl2 A s +' sum_dl2 t end.

  Lemma dl2_fold_sum pks : forall acc, dl2 A (fold_left (madd (P2 A)) pks acc) = dl2 A acc +' sum_dl2 pks.
  Proof.
    induction pks as [|p t IH]; intros acc; cbn [fold_left sum_dl2].
    - ring.
    - rewrite IH, (dl2_add A L). ring.
  Qed.

  Lemma dl2_sum_pks pks : dl2 A (sum_pks pks) = sum_dl2 pks.
  Proof. unfold Bls.sum_pks. rewrite dl2_fold_sum, (dl2_zero A L). ring. Qed.

  Lemma sum_dl2_app l1 l2 : sum_dl2 (l1 ++ l2) = sum_dl2 l1 +' sum_dl2 l2.
  Proof. induction l1 as [|p t IH]; cbn [app sum_dl2] in *; [ring | rewrite IH; ring]. Qed.

  Fixpoint grp_sum (groups : list (Msg * list (P2 A))) : K :=
    match groups with [] => f0 K | g :: t => h (fst g) *' sum_dl2 (snd g) +' grp_sum t end.

  Lemma fold_hybrid_step_exp groups : forall acc x, acc = msmul (PT A) x gT ->
    fold_left (hybrid_step A Msg H1) groups acc = msmul (PT A) (x +' grp_sum groups) gT.
  Proof.
    induction groups as [|g t IH]; intros acc x Hacc; cbn [fold_left grp_sum].
    - rewrite Hacc. f_equal. ring.
    - rewrite (IH _ (x +' h (fst g) *' sum_dl2 (snd g))).
      + f_equal. ring.
      + unfold hybrid_step. rewrite Hacc, (pair_exp A L), dl2_sum_pks, <- (msmul_add_l _ (pt_laws A L)). reflexivity.
  Qed.

  Lemma prod_groups_exp groups : prod_groups groups = msmul (PT A) (grp_sum groups) gT.
  Proof.
    unfold Bls.prod_groups. rewrite (fold_hybrid_step_exp groups _ (f0 K) zero_as_gT). f_equal. ring.
  Qed.

  Lemma hybrid_iff_l groups sig : verify_hybrid groups sig = true <-> dl1 A sig = grp_sum groups.
  Proof.
    unfold Bls.verify_aggregate_sig_hybrid.
    rewrite (meqb_spec _ (pt_laws A L)), pair_sig_exp, prod_groups_exp. split.
    - apply (gT_inj A L).
    - now intros ->.
  Qed.

  Lemma trusted_iff_l m pks sig :
    verify_trusted m pks sig = true <-> pks <> [] /\ dl1 A sig = h m *' sum_dl2 pks.
  Proof.
    unfold Bls.verify_aggregate_sig_trusted_keys. destruct pks as [|p t].
    - split; [discriminate | intros [N _]; now elim N].
    - fold (Bls.verify A Msg H1 (sum_pks (p :: t)) m sig). rewrite verify_exp, dl2_sum_pks.
      split; [intros H; split; [discriminate|assumption] | now intros [_ H]].
  Qed.

  (** the expanded multiset of (message, key) pairs of a grouped input *)
  Definition flatten (groups : list (Msg * list (P2 A))) : list (Msg * P2 A) :=
    flat_map (fun g => map (fun pk => (fst g, pk)) (snd g)) groups.

  Lemma exp_sum_same_msg m pks : exp_sum (map (fun pk => (m, pk)) pks) = h m *' sum_dl2 pks.
  Proof.
    induction pks as [|p t IH]; cbn [map exp_sum sum_dl2 fst snd] in *; [ring|].
    rewrite IH. ring.
  Qed.

  Lemma grp_sum_flatten groups : grp_sum groups = exp_sum (flatten groups).
  Proof.
    induction groups as [|g t IH]; cbn [flatten flat_map grp_sum]; [reflexivity|].
    fold (flatten t). rewrite exp_sum_app, exp_sum_same_msg, <- IH. reflexivity.
  Qed.

  Definition singletons (pairs : list (Msg * P2 A)) : list (Msg * list (P2 A)) :=
    map (fun p => (fst p, [snd p])) pairs.

  Lemma flatten_singletons pairs : flatten (singletons pairs) = pairs.
  Proof.
    induction pairs as [|[m pk] t IH]; cbn [singletons map flatten flat_map fst snd app]; [reflexivity|].
    unfold flatten, singletons in IH. now rewrite IH.
  Qed.

  Lemma plain_is_hybrid_singletons_l pairs sig :
    has_dup (map msg_dg pairs) = false -> pairs <> [] ->
    verify_aggregate_sig pairs sig = verify_hybrid (singletons pairs) sig.
  Proof.
    intros D N. apply bool_eq_of_iff.
    rewrite verify_aggregate_iff_l, hybrid_iff_l, grp_sum_flatten, flatten_singletons. tauto.
  Qed.

  Lemma trusted_is_hybrid_one_group_l m pks sig :
    pks <> [] -> verify_trusted m pks sig = verify_hybrid [(m, pks)] sig.
  Proof.
    intros N. apply bool_eq_of_iff. rewrite trusted_iff_l, hybrid_iff_l. cbn [grp_sum fst snd].
    replace (h m *' sum_dl2 pks +' f0 K) with (h m *' sum_dl2 pks) by ring. tauto.
  Qed.

  Lemma hybrid_is_plain_equation_l groups sig :
    verify_hybrid groups sig = true <-> dl1 A sig = exp_sum (flatten groups).
  Proof. rewrite hybrid_iff_l, grp_sum_flatten. reflexivity. Qed.

  (** all signers sign the same message: [verify_aggregate_sig_trusted_keys] accepts *)
  Lemma trusted_complete_l m sks :
    sks <> [] ->
    verify_trusted m (map pk_of sks) (aggregate_list (map (fun sk => sign sk m) sks)) = true.
  Proof.
    intros N. apply trusted_iff_l. split; [destruct sks; [now elim N | discriminate]|].
    rewrite dl1_aggregate_list. clear N.
    induction sks as [|sk t IH]; cbn [map sum_dl1 sum_dl2]; [ring|].
    rewrite IH, dl1_sign, dl2_pk_of. ring.
  Qed.

  (** *** the rayon fold/reduce paths compute the sequential folds *)
  Lemma fold_madd_exp (xs : list K) : forall acc x, acc = msmul (PT A) x gT ->
    fold_left (madd (PT A)) (map (fun e => msmul (PT A) e gT) xs) acc
    = msmul (PT A) (fold_left (fadd K) xs x) gT.
  Proof.
    induction xs as [|e t IH]; intros acc x Hacc; cbn [map fold_left]; [assumption|].
    apply IH. rewrite Hacc, <- (msmul_add_l _ (pt_laws A L)). reflexivity.
  Qed.

  Lemma fold_fadd_sum (xs : list K) : forall x, fold_left (fadd K) xs x = x +' fold_right (fadd K) (f0 K) xs.
  Proof.
    induction xs as [|e t IH]; intros x; cbn [fold_left fold_right]; [ring|]. rewrite IH. ring.
  Qed.

  Lemma exp_sum_concat chunks :
    exp_sum (concat chunks) = fold_right (fadd K) (f0 K) (map exp_sum chunks).
  Proof.
    induction chunks as [|c t IH]; cbn [concat map fold_right]; [reflexivity|].
    now rewrite exp_sum_app, IH.
  Qed.

  Lemma par_prod_seq_l chunks : par_prod A Msg H1 chunks = prod_pairs (concat chunks).
  Proof.
    unfold par_prod. rewrite prod_pairs_exp, exp_sum_concat.
    rewrite (map_ext _ (fun c => msmul (PT A) (exp_sum c) gT) prod_pairs_exp).
    rewrite <- (map_map exp_sum (fun e => msmul (PT A) e gT)).
    rewrite (fold_madd_exp _ _ (f0 K) zero_as_gT), fold_fadd_sum. f_equal. ring.
  Qed.

  Lemma grp_sum_app l1 l2 : grp_sum (l1 ++ l2) = grp_sum l1 +' grp_sum l2.
  Proof. induction l1 as [|p t IH]; cbn [app grp_sum] in *; [ring | rewrite IH; ring]. Qed.

  Lemma grp_sum_concat chunks :
    grp_sum (concat chunks) = fold_right (fadd K) (f0 K) (map grp_sum chunks).
  Proof.
    induction chunks as [|c t IH]; cbn [concat map fold_right]; [reflexivity|].
    now rewrite grp_sum_app, IH.
  Qed.

  Lemma par_prod_groups_seq_l chunks : par_prod_groups A Msg H1 chunks = prod_groups (concat chunks).
  Proof.
    unfold par_prod_groups. rewrite prod_groups_exp, grp_sum_concat.
    rewrite (map_ext _ (fun c => msmul (PT A) (grp_sum c) gT) prod_groups_exp).
    rewrite <- (map_map grp_sum (fun e => msmul (PT A) e gT)).
    rewrite (fold_madd_exp _ _ (f0 K) zero_as_gT), fold_fadd_sum. f_equal. ring.
  Qed.

  Lemma par_sum_seq_l chunks : par_sum A chunks = sum_pks (concat chunks).
  Proof.
    apply (dl2_eq A L). unfold par_sum. rewrite dl2_fold_sum, (dl2_zero A L), dl2_sum_pks.
    induction chunks as [|c t IH]; cbn [map concat sum_dl2]; [ring|].
    rewrite sum_dl2_app, dl2_sum_pks.
    transitivity (sum_dl2 c +' (f0 K +' sum_dl2 (map sum_pks t))); [ring|]. rewrite IH. ring.
  Qed.

  (** *** packaged statements *)
  Lemma duplicates_and_empty_rejected_l :
    (forall sig, verify_aggregate_sig [] sig = false) /\
    (forall m sig, verify_trusted m [] sig = false) /\
    (forall l1 l2 l3 m pk pk' sig, verify_aggregate_sig (l1 ++ (m, pk) :: l2 ++ (m, pk') :: l3) sig = false) /\
    (forall pairs sig, ~ NoDup (map msg_dg pairs) -> verify_aggregate_sig pairs sig = false).
  Proof.
    split; [exact empty_rejected_l|]. split; [exact trusted_empty_rejected_l|].
    split; [exact dup_message_rejected_l | exact dup_digest_rejected_l].
  Qed.

  Lemma aggregate_variants_agree_l :
    (forall pairs sig, has_dup (map msg_dg pairs) = false -> pairs <> [] ->
       verify_aggregate_sig pairs sig = verify_hybrid (singletons pairs) sig) /\
    (forall m pks sig, pks <> [] -> verify_trusted m pks sig = verify_hybrid [(m, pks)] sig) /\
    (forall groups sig, verify_hybrid groups sig = true <-> dl1 A sig = exp_sum (flatten groups)) /\
    (forall chunks, par_prod A Msg H1 chunks = prod_pairs (concat chunks)) /\
    (forall chunks, par_prod_groups A Msg H1 chunks = prod_groups (concat chunks)) /\
    (forall chunks, par_sum A chunks = sum_pks (concat chunks)).
  Proof.
    split; [exact plain_is_hybrid_singletons_l|]. split; [exact trusted_is_hybrid_one_group_l|].
    split; [exact hybrid_is_plain_equation_l|]. split; [exact par_prod_seq_l|].
    split; [exact par_prod_groups_seq_l | exact par_sum_seq_l].
  Qed.

  (** *** proof of possession *)
  Variable Ctx : Type.
  Variable Ch : Type.
  Variable ch_eqb : Ch -> Ch -> bool.
  Hypothesis ch_eqb_spec : forall a b, ch_eqb a b = true <-> a = b.
  Variable Hc : Ctx * P2 A * P2 A * P2 A -> Ch.
  Variable ch_scalar : Ch -> K.
  Notation pop_prove := (pop_prove A Ctx Ch Hc ch_scalar).
  Notation pop_check := (pop_check A Ctx Ch ch_eqb Hc ch_scalar).
  Notation pop_point := (pop_point A Ch ch_scalar).

  Lemma pop_point_honest ctx sk w :
    pop_point (pk_of sk) (pop_prove ctx sk w) = msmul (P2 A) w (gen2 A).
  Proof.
    apply (dl2_eq A L). unfold Bls.pop_point, Bls.pop_prove. cbn [fst snd].
    rewrite (dl2_sub A L), !(dl2_smul A L), dl2_pk_of, (dl2_gen A L). ring.
  Qed.

  Lemma pop_complete_l ctx sk w : pop_check ctx (pk_of sk) (pop_prove ctx sk w) = true.
  Proof.
    unfold Bls.pop_check. rewrite pop_point_honest. apply ch_eqb_spec. reflexivity.
  Qed.

  Lemma pop_check_iff_l ctx pk ch resp :
    pop_check ctx pk (ch, resp) = true <->
    Hc (ctx, pk, gen2 A, msub (P2 A) (msmul (P2 A) resp (gen2 A)) (msmul (P2 A) (ch_scalar ch) pk)) = ch.
  Proof. unfold Bls.pop_check, Bls.pop_point. cbn [fst snd]. apply ch_eqb_spec. Qed.

  (** one proof accepted for two different (context, key) pairs exhibits a collision of the oracle *)
  Lemma pop_binding_l ctx pk ctx' pk' proof :
    pop_check ctx pk proof = true -> pop_check ctx' pk' proof = true ->
    (ctx, pk) <> (ctx', pk') ->
    exists x y, x <> y /\ Hc x = Hc y.
  Proof.
    unfold Bls.pop_check. intros H H' N. apply ch_eqb_spec in H, H'.
    exists (ctx, pk, gen2 A, pop_point pk proof), (ctx', pk', gen2 A, pop_point pk' proof). split.
    - intros E. apply N. congruence.
    - congruence.
  Qed.

  (** special soundness: two accepting answers to different challenges for the same commitment
      reveal the secret key *)
  Lemma pop_extract_l pk P c1 r1 c2 r2 :
    c1 <> c2 ->
    msub (P2 A) (msmul (P2 A) r1 (gen2 A)) (msmul (P2 A) c1 pk) = P ->
    msub (P2 A) (msmul (P2 A) r2 (gen2 A)) (msmul (P2 A) c2 pk) = P ->
    pk = pk_of (fdiv K (fsub K r1 r2) (fsub K c1 c2)).
  Proof.
    intros N E1 E2. apply (dl2_eq A L). rewrite dl2_pk_of.
    rewrite <- E2 in E1. apply (dl2_eq A L) in E1.
    rewrite !(dl2_sub A L), !(dl2_smul A L), (dl2_gen A L) in E1.
    assert (D : fsub K c1 c2 <> f0 K).
    { intros Z. apply N. transitivity (fsub K c1 c2 +' c2); [ring | rewrite Z; ring]. }
    assert (E : fsub K c1 c2 *' dl2 A pk = fsub K r1 r2).
    { transitivity (fsub K (r1 *' f1 K) (fsub K (r1 *' f1 K) (c1 *' dl2 A pk)) +' fopp K (c2 *' dl2 A pk)); [ring|].
      rewrite E1. ring. }
    rewrite <- E. field. assumption.
  Qed.
End BlsProofs.
