(** Lagrange reconstruction theorems for the Shamir secret sharing model [Crypto.Shamir]
    (rust-src/concordium_base/src/id/secret_sharing.rs).

    Everything is proved for an arbitrary field [F] (a [field_theory]) whose partial
    inverse [finv] is [None] exactly on zero, and an arbitrary [F]-module [G].

    Main results (all about the code-shaped definitions of [Shamir.v]):
    - [lagrange_sum_one]        the Lagrange coefficients at distinct points sum to one;
    - [reveal_explicit], [reveal_lagrange_sum]
                                [reveal] of arbitrary values is sum_i lagrange(pts, x_i) * y_i;
    - [shamir_reveal_field]     any >= t shares at distinct points reconstruct the secret;
    - [shamir_reveal_group]     the same "in the exponent";
    - [shamir_fewer_unconstrained]
                                t-1 shares are consistent with every candidate secret. *)
From Coq Require Import List Arith Lia Field Ring Setoid.
From CB Require Import Crypto.Shamir.
Import ListNotations.

Declare Scope ShamirF_scope.

Section ShamirProofs.
  Variable F : Type.
  Variables (f0 f1 : F) (fadd fmul fsub : F -> F -> F) (fopp : F -> F)
            (fdiv : F -> F -> F) (finv_t : F -> F).
  Hypothesis Ffield : field_theory f0 f1 fadd fmul fsub fopp fdiv finv_t (@eq F).
  Add Field FF : Ffield.
  Variable finv : F -> option F.                      (* Field::inverse of the code *)
  Hypothesis finv_zero : finv f0 = None.
  Hypothesis finv_nonzero : forall x, x <> f0 -> finv x = Some (finv_t x).
  (* group = F-module *)
  Variable G : Type.
  Variables (gzero : G) (gadd : G -> G -> G) (gopp : G -> G) (smul : F -> G -> G).
  Hypothesis gadd_assoc : forall a b c, gadd a (gadd b c) = gadd (gadd a b) c.
  Hypothesis gadd_comm : forall a b, gadd a b = gadd b a.
  Hypothesis gadd_0_l : forall a, gadd gzero a = a.
  Hypothesis gadd_opp : forall a, gadd a (gopp a) = gzero.
  Hypothesis smul_add_l : forall x y a, smul (fadd x y) a = gadd (smul x a) (smul y a).
  Hypothesis smul_add_r : forall x a b, smul x (gadd a b) = gadd (smul x a) (smul x b).
  Hypothesis smul_mul : forall x y a, smul (fmul x y) a = smul x (smul y a).
  Hypothesis smul_1 : forall a, smul f1 a = a.

  Local Notation "0" := f0 : ShamirF_scope.
  Local Notation "1" := f1 : ShamirF_scope.
  Local Infix "+" := fadd : ShamirF_scope.
  Local Infix "*" := fmul : ShamirF_scope.
  Local Infix "-" := fsub : ShamirF_scope.
  Local Infix "/" := fdiv : ShamirF_scope.
  Local Open Scope ShamirF_scope.

  Local Notation eval_share' := (eval_share F f0 fadd fmul).
  Local Notation share' := (share F f0 fadd fmul).
  Local Notation lagrange' := (lagrange F f1 fsub fmul finv).
  Local Notation reveal' := (reveal F f0 f1 fadd fsub fmul finv).
  Local Notation reveal_g := (reveal_in_group F f1 fsub fmul finv G gzero gadd smul).

  Lemma sub_ne : forall a b : F, a <> b -> a - b <> 0.
  Proof.
    intros a b ne H. apply ne.
    transitivity ((a - b) + b); [ring|]. rewrite H. ring.
  Qed.

  (** * Polynomials as coefficient lists, lowest coefficient first *)

  Fixpoint peval (p : list F) (x : F) : F :=
    match p with
    | [] => 0
    | c :: cs => c + x * peval cs x
    end.

  Lemma peval_cons : forall c cs x, peval (c :: cs) x = c + x * peval cs x.
  Proof. reflexivity. Qed.

  (** The code's Horner loop is polynomial evaluation of [secret :: coeffs]. *)
  Lemma eval_share_peval : forall secret coeffs x,
      eval_share' secret coeffs x = peval (secret :: coeffs) x.
  Proof.
    intros secret coeffs x. unfold eval_share.
    rewrite <- fold_left_rev_right, rev_involutive.
    assert (E : fold_right (fun (y : F) (x0 : F) => x0 * x + y) 0 coeffs = peval coeffs x).
    { induction coeffs as [|c cs IH]; simpl; [reflexivity|]. rewrite IH. ring. }
    rewrite E. simpl. ring.
  Qed.

  Lemma share_peval : forall secret coeffs pts,
      share' secret coeffs pts = map (peval (secret :: coeffs)) pts.
  Proof.
    intros. unfold share. apply map_ext. intro x. apply eval_share_peval.
  Qed.

  (** Synthetic division by [X - a]: [p(X) = p(a) + (X - a) * (pquo a p)(X)]. *)
  Fixpoint pquo (a : F) (p : list F) : list F :=
    match p with
    | [] => []
    | c :: cs => match cs with
                 | [] => []
                 | _ :: _ => peval cs a :: pquo a cs
                 end
    end.

  Lemma pquo_cons : forall a c cs, cs <> [] -> pquo a (c :: cs) = peval cs a :: pquo a cs.
  Proof. intros a c cs H. destruct cs; [congruence | reflexivity]. Qed.

  Lemma pquo_length : forall a p, length (pquo a p) = pred (length p).
  Proof.
    intros a p. induction p as [|c cs IH]; [reflexivity|].
    destruct cs as [|d ds]; [reflexivity|].
    rewrite pquo_cons by discriminate.
    change (length (peval (d :: ds) a :: pquo a (d :: ds)))
      with (S (length (pquo a (d :: ds)))).
    rewrite IH. reflexivity.
  Qed.

  Lemma pquo_spec : forall a x p, peval p x = peval p a + (x - a) * peval (pquo a p) x.
  Proof.
    intros a x p. induction p as [|c cs IH]; [simpl; ring|].
    assert (D : cs = [] \/ cs <> []) by (destruct cs; [left; reflexivity | right; discriminate]).
    destruct D as [->|Hne]; [simpl; ring|].
    rewrite (pquo_cons a c cs Hne), !peval_cons. rewrite IH. ring.
  Qed.

  (** Multiplication by a linear factor plus constant:
      [(mlin z v q)(X) = v + (X - z) * q(X)]. *)
  Fixpoint mlin (z carry : F) (q : list F) : list F :=
    match q with
    | [] => [carry]
    | c :: cs => (carry - z * c) :: mlin z c cs
    end.

  Lemma mlin_length : forall z q v, length (mlin z v q) = S (length q).
  Proof. intros z q. induction q as [|c cs IH]; intro v; simpl; [|rewrite IH]; reflexivity. Qed.

  Lemma mlin_eval : forall z x q v, peval (mlin z v q) x = v + (x - z) * peval q x.
  Proof.
    intros z x q. induction q as [|c cs IH]; intro v; simpl; [ring|].
    rewrite IH. ring.
  Qed.

  (** * The Lagrange coefficient, as a clean recursion *)

  Fixpoint lam (xs : list F) (i : F) : F :=
    match xs with
    | [] => 1
    | j :: r => match finv (j - i) with
                | None => lam r i
                | Some z => (j * z) * lam r i
                end
    end.

  Lemma lagrange_fold : forall xs i acc,
      fold_left (fun accum j => match finv (j - i) with
                                | None => accum
                                | Some z => (j * z) * accum
                                end) xs acc = acc * lam xs i.
  Proof.
    intros xs i. induction xs as [|j r IH]; intro acc; simpl; [ring|].
    rewrite IH. destruct (finv (j - i)); ring.
  Qed.

  Lemma lagrange_lam : forall xs i, lagrange' xs i = lam xs i.
  Proof. intros. unfold lagrange. rewrite lagrange_fold. ring. Qed.

  Lemma lam_cons_ne : forall j i r, j <> i -> lam (j :: r) i = (j / (j - i)) * lam r i.
  Proof.
    intros j i r ne. simpl. rewrite finv_nonzero by (apply sub_ne; exact ne).
    field. apply sub_ne; exact ne.
  Qed.

  Lemma lam_cons_eq : forall i r, lam (i :: r) i = lam r i.
  Proof.
    intros i r. simpl. replace (i - i) with 0 by ring. rewrite finv_zero. reflexivity.
  Qed.

  (** * Finite sums *)

  Fixpoint gsum (h : F -> F) (xs : list F) : F :=
    match xs with
    | [] => 0
    | x :: r => h x + gsum h r
    end.

  Lemma gsum_fold_right : forall h xs, gsum h xs = fold_right (fun x acc => h x + acc) 0 xs.
  Proof. intros h xs. induction xs as [|x r IH]; simpl; [|rewrite IH]; reflexivity. Qed.

  Lemma gsum_ext : forall h g xs, (forall x, In x xs -> h x = g x) -> gsum h xs = gsum g xs.
  Proof.
    intros h g xs. induction xs as [|x r IH]; intro H; simpl; [reflexivity|].
    rewrite (H x (or_introl eq_refl)), IH; [reflexivity|].
    intros y Hy. apply H. right. exact Hy.
  Qed.

  Lemma gsum_lin : forall c d g h xs,
      gsum (fun x => c * g x + d * h x) xs = c * gsum g xs + d * gsum h xs.
  Proof.
    intros c d g h xs. induction xs as [|x r IH]; simpl; [ring|]. rewrite IH. ring.
  Qed.

  (** * The Lagrange coefficients sum to one *)

  Lemma lam_sum_one_aux : forall n xs,
      (length xs <= n)%nat -> xs <> [] -> NoDup xs -> gsum (lam xs) xs = 1.
  Proof.
    induction n as [|n IHn]; intros xs Hlen Hne Hnd.
    - destruct xs; [congruence | simpl in Hlen; lia].
    - destruct xs as [|a [|b r]]; [congruence | |].
      + cbn [gsum]. rewrite lam_cons_eq. simpl. ring.
      + inversion Hnd as [|? ? Ha Hnd1]; subst.
        inversion Hnd1 as [|? ? Hb Hnd2]; subst.
        assert (Hab : a <> b) by (intro; subst; apply Ha; left; reflexivity).
        assert (Hba : b <> a) by (intro; subst; apply Ha; left; reflexivity).
        assert (Har : ~ In a r) by (intro; apply Ha; right; assumption).
        assert (IHa : gsum (lam (a :: r)) (a :: r) = 1).
        { apply IHn; [simpl in *; lia | discriminate | constructor; assumption]. }
        assert (IHb : gsum (lam (b :: r)) (b :: r) = 1).
        { apply IHn; [simpl in *; lia | discriminate | constructor; assumption]. }
        cbn [gsum] in IHa, IHb |- *.
        rewrite lam_cons_eq in IHa, IHb.
        rewrite (gsum_ext (lam (a :: r)) (fun x => (a / (a - x)) * lam r x) r) in IHa
          by (intros x Hx; apply lam_cons_ne; intro; subst; contradiction).
        rewrite (gsum_ext (lam (b :: r)) (fun x => (b / (b - x)) * lam r x) r) in IHb
          by (intros x Hx; apply lam_cons_ne; intro; subst; contradiction).
        rewrite lam_cons_eq, (lam_cons_ne b a r) by exact Hba.
        rewrite (lam_cons_ne a b (b :: r)) by exact Hab. rewrite lam_cons_eq.
        rewrite (gsum_ext (lam (a :: b :: r))
                   (fun x => (b / (b - a)) * ((a / (a - x)) * lam r x)
                             + (a / (a - b)) * ((b / (b - x)) * lam r x)) r).
        2:{ intros x Hx.
            assert (a <> x) by (intro; subst; contradiction).
            assert (b <> x) by (intro; subst; contradiction).
            rewrite (lam_cons_ne a x (b :: r)) by assumption.
            rewrite (lam_cons_ne b x r) by assumption.
            field. repeat split; apply sub_ne; assumption. }
        rewrite gsum_lin.
        set (A := gsum (fun x => (a / (a - x)) * lam r x) r) in *.
        set (B := gsum (fun x => (b / (b - x)) * lam r x) r) in *.
        assert (EA : A = 1 - lam r a) by (rewrite <- IHa; ring).
        assert (EB : B = 1 - lam r b) by (rewrite <- IHb; ring).
        rewrite EA, EB. field. split; apply sub_ne; assumption.
  Qed.

  Lemma lam_sum_one : forall xs, xs <> [] -> NoDup xs -> gsum (lam xs) xs = 1.
  Proof. intros xs. apply (lam_sum_one_aux (length xs)). apply le_n. Qed.

  (** Sum of the code's Lagrange coefficients over distinct points is one. *)
  Theorem lagrange_sum_one : forall pts,
      pts <> [] -> NoDup pts ->
      fold_right (fun x acc => lagrange' pts x + acc) 0 pts = 1.
  Proof.
    intros pts Hne Hnd.
    assert (E : forall k l, fold_right (fun x acc => lagrange' k x + acc) 0 l = gsum (lam k) l).
    { intros k l. induction l as [|x r IH]; cbn [fold_right gsum]; [reflexivity|].
      rewrite lagrange_lam, IH. reflexivity. }
    rewrite E. apply lam_sum_one; assumption.
  Qed.

  (** * Lagrange interpolation at zero of a polynomial of degree < number of points *)

  Lemma interp_at_zero : forall xs,
      NoDup xs -> forall p, (length p <= length xs)%nat ->
      gsum (fun x => lam xs x * peval p x) xs = peval p 0.
  Proof.
    induction xs as [|a rest IH]; intros Hnd p Hlen.
    - destruct p; [reflexivity | simpl in Hlen; lia].
    - inversion Hnd as [|? ? Ha Hnd']; subst.
      set (q := pquo a p).
      assert (Hq : (length q <= length rest)%nat).
      { unfold q. rewrite pquo_length. simpl in Hlen. lia. }
      specialize (IH Hnd' q Hq).
      assert (H1 := lam_sum_one (a :: rest) ltac:(discriminate) Hnd).
      cbn [gsum] in H1 |- *. rewrite lam_cons_eq in H1. rewrite lam_cons_eq.
      rewrite (gsum_ext (fun x => lam (a :: rest) x * peval p x)
                 (fun x => peval p a * lam (a :: rest) x
                           + (0 - a) * (lam rest x * peval q x)) rest).
      2:{ intros x Hx.
          assert (Hax : a <> x) by (intro; subst; contradiction).
          rewrite (pquo_spec a x p). fold q.
          assert (E : lam (a :: rest) x * (x - a) = (0 - a) * lam rest x).
          { rewrite (lam_cons_ne a x rest Hax). field. apply sub_ne; exact Hax. }
          replace (lam (a :: rest) x * (peval p a + (x - a) * peval q x))
            with (peval p a * lam (a :: rest) x + (lam (a :: rest) x * (x - a)) * peval q x)
            by ring.
          rewrite E. ring. }
      rewrite gsum_lin, IH.
      assert (E : gsum (lam (a :: rest)) rest = 1 - lam rest a) by (rewrite <- H1; ring).
      rewrite E. rewrite (pquo_spec a 0 p). fold q. ring.
  Qed.

  (** * [reveal] as an explicit sum *)

  Fixpoint psum (k : list F) (sh : list (F * F)) : F :=
    match sh with
    | [] => 0
    | iv :: r => lam k (fst iv) * snd iv + psum k r
    end.

  Lemma reveal_fold : forall k sh acc,
      fold_left (fun accum iv => lagrange' k (fst iv) * snd iv + accum) sh acc
      = acc + psum k sh.
  Proof.
    intros k sh. induction sh as [|iv r IH]; intro acc; simpl; [ring|].
    rewrite IH, lagrange_lam. ring.
  Qed.

  Lemma reveal_explicit : forall sh, reveal' sh = psum (map fst sh) sh.
  Proof. intro sh. unfold reveal. rewrite reveal_fold. ring. Qed.

  (** [reveal] of arbitrary shares is the sum of [lagrange(points, x_i) * y_i]. *)
  Theorem reveal_lagrange_sum : forall sh,
      reveal' sh
      = fold_right (fun iv acc => lagrange' (map fst sh) (fst iv) * snd iv + acc) 0 sh.
  Proof.
    intro sh. rewrite reveal_explicit. generalize (map fst sh) as k. intro k.
    induction sh as [|iv r IH]; simpl; [reflexivity|].
    rewrite IH, lagrange_lam. reflexivity.
  Qed.

  Lemma psum_combine_map : forall k f l,
      psum k (combine l (map f l)) = gsum (fun x => lam k x * f x) l.
  Proof.
    intros k f l. induction l as [|x r IH]; simpl; [reflexivity|]. rewrite IH. reflexivity.
  Qed.

  Lemma map_fst_combine_le : forall (B : Type) (l : list F) (l' : list B),
      (length l <= length l')%nat -> map fst (combine l l') = l.
  Proof.
    intros B l. induction l as [|x r IH]; intros l' H; [reflexivity|].
    destruct l' as [|y r']; simpl in H; [lia|].
    simpl. f_equal. apply IH. lia.
  Qed.

  Lemma reveal_map : forall f pts,
      reveal' (combine pts (map f pts)) = gsum (fun x => lam pts x * f x) pts.
  Proof.
    intros f pts. rewrite reveal_explicit, map_fst_combine_le by (rewrite map_length; apply le_n).
    apply psum_combine_map.
  Qed.

  (** Reconstruction from any list of at least [length coeffs + 1] shares at distinct
      points (the points need not even be non-zero for this direction). *)
  Theorem shamir_reveal_field_gen : forall secret coeffs pts,
      NoDup pts -> (length coeffs < length pts)%nat ->
      reveal' (combine pts (share' secret coeffs pts)) = secret.
  Proof.
    intros secret coeffs pts Hnd Hlen.
    rewrite share_peval, reveal_map, interp_at_zero by (simpl; auto; lia).
    simpl. ring.
  Qed.

  Theorem shamir_reveal_field : forall secret coeffs pts,
      NoDup pts -> ~ In f0 pts -> (length coeffs < length pts)%nat ->
      reveal F f0 f1 fadd fsub fmul finv (combine pts (share F f0 fadd fmul secret coeffs pts))
      = secret.
  Proof. intros secret coeffs pts Hnd _ Hlen. apply shamir_reveal_field_gen; assumption. Qed.

  (** * In the group *)

  Lemma smul_0 : forall P, smul 0 P = gzero.
  Proof.
    intro P.
    assert (H : smul 0 P = gadd (smul 0 P) (smul 0 P)).
    { rewrite <- smul_add_l. f_equal. ring. }
    rewrite <- (gadd_opp (smul 0 P)). rewrite H at 2.
    rewrite <- gadd_assoc, gadd_opp, gadd_comm, gadd_0_l. reflexivity.
  Qed.

  Lemma reveal_g_fold : forall k P f l acc,
      fold_left (fun accum (iv : F * G) => gadd (smul (lagrange' k (fst iv)) (snd iv)) accum)
                (combine l (map (fun s => smul s P) (map f l))) acc
      = gadd (smul (gsum (fun x => lam k x * f x) l) P) acc.
  Proof.
    intros k P f l. induction l as [|x r IH]; intro acc; simpl.
    - rewrite smul_0, gadd_0_l. reflexivity.
    - rewrite IH, lagrange_lam, smul_add_l, smul_mul.
      rewrite gadd_assoc.
      rewrite (gadd_comm (smul (lam k x) (smul (f x) P))). reflexivity.
  Qed.

  Lemma reveal_g_map : forall P f pts,
      reveal_g (combine pts (map (fun s => smul s P) (map f pts)))
      = smul (gsum (fun x => lam pts x * f x) pts) P.
  Proof.
    intros P f pts. unfold reveal_in_group.
    rewrite map_fst_combine_le by (rewrite !map_length; apply le_n).
    rewrite reveal_g_fold, gadd_comm, gadd_0_l. reflexivity.
  Qed.

  Theorem shamir_reveal_group_gen : forall secret coeffs pts (P : G),
      NoDup pts -> (length coeffs < length pts)%nat ->
      reveal_g (combine pts (map (fun s => smul s P) (share' secret coeffs pts)))
      = smul secret P.
  Proof.
    intros secret coeffs pts P Hnd Hlen.
    rewrite share_peval, reveal_g_map, interp_at_zero by (simpl; auto; lia).
    f_equal. simpl. ring.
  Qed.

  Theorem shamir_reveal_group : forall secret coeffs pts (P : G),
      NoDup pts -> ~ In f0 pts -> (length coeffs < length pts)%nat ->
      reveal_in_group F f1 fsub fmul finv G gzero gadd smul
        (combine pts (map (fun s => smul s P) (share F f0 fadd fmul secret coeffs pts)))
      = smul secret P.
  Proof. intros secret coeffs pts P Hnd _ Hlen. apply shamir_reveal_group_gen; assumption. Qed.

  (** * Fewer than threshold many shares leave the secret unconstrained *)

  Lemma interp_step : forall z v q zs vs,
      length vs = length zs -> ~ In z zs ->
      map (peval q) zs = map (fun zv => (snd zv - v) / (fst zv - z)) (combine zs vs) ->
      map (peval (mlin z v q)) zs = vs.
  Proof.
    intros z v q zs. induction zs as [|w zs IH]; intros [|u vs] Hl Hz H; try discriminate.
    - reflexivity.
    - simpl in Hl, H. injection H as H1 H2. cbn [map]. f_equal.
      + rewrite mlin_eval, H1. field. apply sub_ne. intro; subst. apply Hz. left. reflexivity.
      + apply IH; [lia | intro; apply Hz; right; assumption | exact H2].
  Qed.

  (** Interpolation: through any values at distinct points there is a polynomial with
      as many coefficients as points. *)
  Lemma interp_exists : forall zs,
      NoDup zs -> forall vs, length vs = length zs ->
      exists p, length p = length zs /\ map (peval p) zs = vs.
  Proof.
    induction zs as [|z zs IH]; intros Hnd vs Hl.
    - destruct vs; [|discriminate]. exists []. split; reflexivity.
    - destruct vs as [|v vs]; [discriminate|].
      inversion Hnd as [|? ? Hz Hnd']; subst.
      destruct (IH Hnd' (map (fun zv => (snd zv - v) / (fst zv - z)) (combine zs vs)))
        as [q [Hq1 Hq2]].
      { rewrite map_length, combine_length. simpl in Hl. lia. }
      exists (mlin z v q). split.
      + rewrite mlin_length. simpl. f_equal. exact Hq1.
      + cbn [map]. f_equal.
        * rewrite mlin_eval. ring.
        * apply interp_step; [simpl in Hl; lia | exact Hz | exact Hq2].
  Qed.

  Theorem shamir_fewer_unconstrained : forall pts ys s,
      NoDup pts -> ~ In f0 pts -> length ys = length pts ->
      exists coeffs, length coeffs = length pts /\ share F f0 fadd fmul s coeffs pts = ys.
  Proof.
    intros pts ys s Hnd Hz Hl.
    destruct (interp_exists (0 :: pts) (NoDup_cons 0 Hz Hnd) (s :: ys)) as [p [Hp1 Hp2]].
    { simpl. f_equal. exact Hl. }
    destruct p as [|c0 coeffs]; [discriminate|].
    cbn [map] in Hp2. injection Hp2 as H0 Hrest.
    assert (Ec : c0 = s) by (rewrite <- H0; simpl; ring).
    subst c0. exists coeffs. split.
    - simpl in Hp1. lia.
    - rewrite share_peval. exact Hrest.
  Qed.
End ShamirProofs.
