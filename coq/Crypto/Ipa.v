(** C11 - the inner-product argument of inner_product_proof.rs (definitions only).

    Challenges are arbitrary ring elements supplied as pairs (u, u^-1); the theorems assume
    u * u^-1 = 1 and nothing else, so they hold for every challenge a hash could produce.

    [prove_inner_product_with_scalars G H c Q a b] works with H' = c o H implicitly: in round 0 it
    multiplies the scalars by c instead of the points.  [ipa_prove] below is the plain algorithm on
    H' (what the paper and the later rounds use); [ipa_round0_LR_scalars] / [ipa_round0_H_scalars]
    are the expressions the code evaluates in round 0, proved equal in [BpProofs.v].            *)
From Coq Require Import List.
From CB Require Import Crypto.BpAlg.
Import ListNotations.

Section Ipa.
  Variable Ops : bp_ops.
  Local Notation F := (o_F Ops).
  Local Notation G := (o_G Ops).
  Local Notation f0 := (o_f0 Ops).
  Local Notation f1 := (o_f1 Ops).
  Local Notation fadd := (o_fadd Ops).
  Local Notation fmul := (o_fmul Ops).
  Local Notation fsub := (o_fsub Ops).
  Local Notation fopp := (o_fopp Ops).
  Local Notation feqb := (o_feqb Ops).
  Local Notation g0 := (o_g0 Ops).
  Local Notation gadd := (o_gadd Ops).
  Local Notation gopp := (o_gopp Ops).
  Local Notation smul := (o_smul Ops).
  Local Notation geqb := (o_geqb Ops).
  Local Notation dot := (dot Ops).
  Local Notation msum := (msum Ops).
  Local Notation vadd := (vadd Ops).
  Local Notation vmul := (vmul Ops).
  Local Notation vscale := (vscale Ops).
  Local Notation vconst := (@vconst Ops).
  Local Notation vsum := (vsum Ops).
  Local Notation gvadd := (gvadd Ops).
  Local Notation gvscale := (gvscale Ops).
  Local Notation gvmul := (gvmul Ops).
  Local Notation z_vec := (z_vec Ops).
  Local Notation fpow := (fpow Ops).
  Local Notation powers_from := (powers_from Ops).
  Local Notation gsub := (gsub Ops).

  (** one round: L_j, R_j and the folded vectors *)
  Definition ipa_L (Gs Hs : list G) (Q : G) (a b : list F) : G :=
    gadd (gadd (msum (lo a) (hi Gs)) (msum (hi b) (lo Hs))) (smul (dot (lo a) (hi b)) Q).
  Definition ipa_R (Gs Hs : list G) (Q : G) (a b : list F) : G :=
    gadd (gadd (msum (hi a) (lo Gs)) (msum (lo b) (hi Hs))) (smul (dot (hi a) (lo b)) Q).
  Definition fold_a (u ui : F) (a : list F) := vadd (vscale u (lo a)) (vscale ui (hi a)).
  Definition fold_b (u ui : F) (b : list F) := vadd (vscale ui (lo b)) (vscale u (hi b)).
  Definition fold_G (u ui : F) (Gs : list G) := gvadd (gvscale ui (lo Gs)) (gvscale u (hi Gs)).
  Definition fold_H (u ui : F) (Hs : list G) := gvadd (gvscale u (lo Hs)) (gvscale ui (hi Hs)).

  (** the prover: one (L,R) pair per challenge, then the two remaining scalars *)
  Fixpoint ipa_prove (us : list (F * F)) (Gs Hs : list G) (Q : G) (a b : list F)
    : list (G * G) * F * F :=
    match us with
    | [] => ([], hd f0 a, hd f0 b)
    | (u, ui) :: us' =>
        let L := ipa_L Gs Hs Q a b in
        let R := ipa_R Gs Hs Q a b in
        match ipa_prove us' (fold_G u ui Gs) (fold_H u ui Hs) Q (fold_a u ui a) (fold_b u ui b) with
        | (lr, fa, fb) => ((L, R) :: lr, fa, fb)
        end
    end.

  (** round 0 as coded (scalars c folded into the exponents instead of the points) *)
  Definition ipa_round0_L_scalars (Gs Hs : list G) (c : list F) (Q : G) (a b : list F) : G :=
    gadd (gadd (msum (lo a) (hi Gs)) (msum (vmul (hi b) (lo c)) (lo Hs))) (smul (dot (lo a) (hi b)) Q).
  Definition ipa_round0_R_scalars (Gs Hs : list G) (c : list F) (Q : G) (a b : list F) : G :=
    gadd (gadd (msum (hi a) (lo Gs)) (msum (vmul (lo b) (hi c)) (hi Hs))) (smul (dot (hi a) (lo b)) Q).
  Definition ipa_round0_H_scalars (u ui : F) (Hs : list G) (c : list F) : list G :=
    gvadd (gvmul (vscale u (lo c)) (lo Hs)) (gvmul (vscale ui (hi c)) (hi Hs)).

  (** [verify_scalars]: s_i = prod_j u_j^(+1 if bit (k-1-j) of i is set, else -1); the first
      challenge governs the most significant bit.  (The code computes the same vector iteratively,
      s_i = s_(i - 2^lg i) * u^2_(k-1-lg i); the two are compared on the implementation's output
      of the public function [verify_scalars] by the correspondence check.) *)
  Fixpoint svec (us : list (F * F)) : list F :=
    match us with
    | [] => [f1]
    | (u, ui) :: us' => let s' := svec us' in vscale ui s' ++ vscale u s'
    end.

  (** [verify_scalars] as coded: s_0 = prod_j u_j^-1 (left to right); for i = 1 .. n-1:
      lg = floor(log2 i), s_i = s_(i - 2^lg) * u_sq[k - 1 - lg].  Proved equal to [svec] in [BpExtras.v]. *)
  Definition s_zero (us : list (F * F)) : F := fold_left (fun acc p => fmul acc (snd p)) us f1.
  Fixpoint svec_iter_go (fuel i : nat) (usq : list F) (k : nat) (s : list F) : list F :=
    match fuel with
    | O => s
    | S fuel' =>
        let lg := Nat.log2 i in
        let si := fmul (nth (i - Nat.pow 2 lg) s f0) (nth (k - 1 - lg) usq f0) in
        svec_iter_go fuel' (S i) usq k (s ++ [si])
    end.
  Definition svec_iter (us : list (F * F)) : list F :=
    svec_iter_go (Nat.pow 2 (length us) - 1) 1 (map (fun p => fmul (fst p) (fst p)) us) (length us) [s_zero us].

  Definition lr_sum (us : list (F * F)) (lr : list (G * G)) : G :=
    fold_right gadd g0
      (map (fun p => gadd (smul (fmul (fst (fst p)) (fst (fst p))) (fst (snd p)))
                          (smul (fmul (snd (fst p)) (snd (fst p))) (snd (snd p))))
           (combine us lr)).

  (** the check in its textbook form:  P' + sum_j (u_j^2 L_j + u_j^-2 R_j) = a<s,G> + b<rev s,H'> + ab Q *)
  Definition ipa_check (us : list (F * F)) (Gs Hs : list G) (Q P : G) (lr : list (G * G)) (a b : F) : Prop :=
    gadd P (lr_sum us lr)
    = gadd (gadd (smul a (msum (svec us) Gs)) (smul b (msum (rev (svec us)) Hs))) (smul (fmul a b) Q).

  (** [verify_inner_product_with_scalars]: one multi-exponentiation that must be the neutral element.
      P' is given as exponents over the bases  G | H | Q | extra  (H unscaled, H'_i = c_i H_i):
        sum_i (a s_i - eG_i) G_i + sum_i (c_i s_(n-1-i) b - eH_i) H_i + (ab - eQ) Q
        + sum_j (-u_j^2 L_j - u_j^-2 R_j) + sum_k (-eX_k) X_k                               *)
  Definition vsub (a b : list F) : list F := vzip fsub a b.
  Definition ipa_code_lhs (us : list (F * F)) (c : list F) (Gs Hs : list G) (Q : G) (Xs : list G)
             (eG eH : list F) (eQ : F) (eX : list F) (lr : list (G * G)) (a b : F) : G :=
    let s := svec us in
    let gexp := vsub (vscale a s) eG in
    let hexp := vsub (vscale b (vmul c (rev s))) eH in
    gadd (gadd (gadd (gadd (msum gexp Gs) (msum hexp Hs)) (smul (fsub (fmul a b) eQ) Q))
               (gopp (lr_sum us lr)))
         (msum (map fopp eX) Xs).
End Ipa.
