(** C08 - executable model of the identity pipeline's data flow
    (rust-src/concordium_base/src/id/{account_holder,identity_provider,chain,anonymity_revoker,utils}.rs).

    Definitions only (the proofs are in IdPipelineProofs.v).  The scalar field and the group are
    abstract: [F] with ring operations and the code's [inverse : F -> option F], [G] an [F]-module.

    Parts:
      1. sharing + encryption of the shares to the anonymity revokers and revocation
         ([compute_sharing_data], [ChainArData], [reveal_id_cred_pub], [reveal_prf_key]),
      2. the 32-bit chunking of a PRF key share ([utils::encrypt_prf_share], [value_to_chunks],
         [chunks_to_value]),
      3. the range statement that [create_credential]/[verify_cdi] use for
         [cred_counter <= max_accounts],
      4. composition of sigma protocols as done by [AndAdapter], [ReplicateAdapter], [prove], [verify]
         (sigma_protocols/common.rs) and the shape of [verify_cdi],
      5. the transcript of [verify_cdi] up to the challenge. *)
From Coq Require Import List NArith ZArith Bool.
From CB Require Import Crypto.Shamir Crypto.ElGamalExp.
Import ListNotations.

(* ------------------------------------------------------------------------------------------ *)
(** * 1. Sharing to the revokers and revocation *)
Section IdSharing.
  Variable F : Type.
  Variables (f0 f1 : F) (fadd fmul fsub : F -> F -> F).
  Variable finv : F -> option F.
  Variable G : Type.
  Variables (gzero : G) (gadd : G -> G -> G) (gopp : G -> G) (smul : F -> G -> G).

  (** An anonymity revoker: its evaluation point ([ArIdentity::to_scalar], a non-zero u32) and
      its ElGamal secret key. *)
  Record revoker := mkRevoker { ar_point : F; ar_sk : F }.

  (** [g]: the base of the revokers' ElGamal keys ([on_chain_commitment_key.g]);
      [h]: the generator the share is encrypted "in the exponent" of. *)
  Variables (g h : G).

  Definition ar_pk (a : revoker) : G := pk_of F G smul g (ar_sk a).

  (** [compute_sharing_data]: share [secret] with the polynomial [secret + c1 X + ...] at the revokers'
      points ([share], secret_sharing.rs) and encrypt each share to its revoker
      ([pk.encrypt_exponent_rand]); [ks] is the encryption randomness. *)
  Fixpoint enc_shares (secret : F) (coeffs : list F) (ars : list revoker) (ks : list F)
    : list (revoker * cipher G) :=
    match ars, ks with
    | a :: ars', k :: ks' =>
        (a, encrypt_exp F G gadd smul g h (ar_pk a) (eval_share F f0 fadd fmul secret coeffs (ar_point a)) k)
          :: enc_shares secret coeffs ars' ks'
    | _, _ => []
    end.

  (** One revoker decrypts its share: [SecretKey::decrypt] gives the group element [share * h]. *)
  Definition decrypt_share (ac : revoker * cipher G) : F * G :=
    (ar_point (fst ac), decrypt F G gadd gopp smul (ar_sk (fst ac)) (snd ac)).

  (** [reveal_id_cred_pub]: combine the decrypted shares of a set of revokers. *)
  Definition revoke_in_group (sel : list (revoker * cipher G)) : G :=
    reveal_in_group F f1 fsub fmul finv G gzero gadd smul (map decrypt_share sel).

  (** [reveal_prf_key]: the shares have been decrypted down to scalars (discrete logs of the chunks). *)
  Definition revoke_scalar (sel : list (F * F)) : F := reveal F f0 f1 fadd fsub fmul finv sel.
End IdSharing.

(* ------------------------------------------------------------------------------------------ *)
(** * 2. Chunking of a PRF key share: 8 little-endian 32-bit limbs ([CHUNK_SIZE = ThirtyTwo]) *)
Local Open Scope N_scope.
Definition chunk_bits : N := 32.
Fixpoint to_chunks (n : nat) (x : N) : list N :=
  match n with
  | O => []
  | S n' => (x mod 2 ^ chunk_bits) :: to_chunks n' (x / 2 ^ chunk_bits)
  end.
Fixpoint from_chunks (cs : list N) : N :=
  match cs with
  | [] => 0
  | c :: cs' => c + 2 ^ chunk_bits * from_chunks cs'
  end.
Definition prf_share_chunks (x : N) : list N := to_chunks 8 x.
Local Close Scope N_scope.

(* ------------------------------------------------------------------------------------------ *)
(** * 3. The range statement for [cred_counter <= max_accounts]

    [prove_less_than_or_equal(ro, rng, 8, a = cred_counter, b = max_accounts, ..)] range-proves the two
    values [b - a] and [a] at width 8; [verify_less_than_or_equal(ro, 8, cmm_a, cmm_b, ..)] checks the
    proof against the commitments [cmm_b - cmm_a] and [cmm_a].  A commitment determines its value only
    modulo the group order [r], so the statement that is established is: *)
Local Open Scope Z_scope.
Definition range_stmt (r : Z) (width : Z) (a b : Z) : Prop :=
  exists v1 v2, 0 <= v1 < 2 ^ width /\ 0 <= v2 < 2 ^ width /\
                v1 mod r = (b - a) mod r /\ v2 mod r = a mod r.
Definition counter_width : Z := 8.
(** The decision the chain is meant to take. *)
Definition counter_ok (counter max_accounts : Z) : bool := counter <=? max_accounts.
(** The prover computes [b - a] on [u64]: with overflow checks it panics when [a > b], without it wraps. *)
Definition prover_difference_checked (a b : Z) : option Z := if b <? a then None else Some (b - a).
Definition prover_difference_wrapping (a b : Z) : Z := (b - a) mod 2 ^ 64.
(** Executable form of the statement for values that fit a byte: both range-proved values are
    determined ([a] itself and [(b - a) mod r]). *)
Definition range_stmt_dec (r : Z) (a b : Z) : bool :=
  ((b - a) mod r <? 2 ^ counter_width) && (a mod r <? 2 ^ counter_width).
Local Close Scope Z_scope.

(* ------------------------------------------------------------------------------------------ *)
(** * 4. Sigma protocol composition (sigma_protocols/common.rs) *)
Section Sigma.
  Variable Chal : Type.                 (* protocol challenge: a scalar derived from the hash output *)

  (** One sigma protocol instance with its public data fixed: witness relation, first message,
      response, and the verifier's reconstruction of the first message ([extract_commit_message]). *)
  Record sigma (W R M Z : Type) := mkSigma {
    s_rel : W -> Prop;
    s_rok : R -> Prop;                  (* well-formed prover randomness (vector lengths) *)
    s_commit : R -> M;
    s_respond : W -> R -> Chal -> Z;
    s_extract : Chal -> Z -> option M
  }.
  Arguments s_rel {W R M Z}. Arguments s_rok {W R M Z}. Arguments s_commit {W R M Z}.
  Arguments s_respond {W R M Z}. Arguments s_extract {W R M Z}.

  (** [AndAdapter]: same challenge to both, pairs everywhere. *)
  Definition and_adapter {W1 R1 M1 Z1 W2 R2 M2 Z2} (p : sigma W1 R1 M1 Z1) (q : sigma W2 R2 M2 Z2)
    : sigma (W1 * W2) (R1 * R2) (M1 * M2) (Z1 * Z2) :=
    {| s_rel := fun w => s_rel p (fst w) /\ s_rel q (snd w);
       s_rok := fun r => s_rok p (fst r) /\ s_rok q (snd r);
       s_commit := fun r => (s_commit p (fst r), s_commit q (snd r));
       s_respond := fun w r c => (s_respond p (fst w) (fst r) c, s_respond q (snd w) (snd r) c);
       s_extract := fun c z =>
         match s_extract p c (fst z) with
         | None => None
         | Some m1 => match s_extract q c (snd z) with None => None | Some m2 => Some (m1, m2) end
         end |}.

  (** [ReplicateAdapter]: a vector of instances of one protocol, one challenge. *)
  Fixpoint rep_rel {W R M Z} (ps : list (sigma W R M Z)) (ws : list W) : Prop :=
    match ps, ws with
    | [], [] => True
    | p :: ps', w :: ws' => s_rel p w /\ rep_rel ps' ws'
    | _, _ => False
    end.
  (** [if state.len() != n { return None }] in [compute_response] *)
  Fixpoint rep_rok {W R M Z} (ps : list (sigma W R M Z)) (rs : list R) : Prop :=
    match ps, rs with
    | [], [] => True
    | p :: ps', r :: rs' => s_rok p r /\ rep_rok ps' rs'
    | _, _ => False
    end.
  Fixpoint rep_commit {W R M Z} (ps : list (sigma W R M Z)) (rs : list R) : list M :=
    match ps, rs with
    | p :: ps', r :: rs' => s_commit p r :: rep_commit ps' rs'
    | _, _ => []
    end.
  Fixpoint rep_respond {W R M Z} (ps : list (sigma W R M Z)) (ws : list W) (rs : list R) (c : Chal) : list Z :=
    match ps, ws, rs with
    | p :: ps', w :: ws', r :: rs' => s_respond p w r c :: rep_respond ps' ws' rs' c
    | _, _, _ => []
    end.
  (** [if response.responses.len() != n { return None }], then every reconstruction must succeed. *)
  Fixpoint rep_extract {W R M Z} (ps : list (sigma W R M Z)) (c : Chal) (zs : list Z) : option (list M) :=
    match ps, zs with
    | [], [] => Some []
    | p :: ps', z :: zs' =>
        match s_extract p c z with
        | None => None
        | Some m => match rep_extract ps' c zs' with None => None | Some ms => Some (m :: ms) end
        end
    | _, _ => None
    end.
  Definition replicate_adapter {W R M Z} (ps : list (sigma W R M Z))
    : sigma (list W) (list R) (list M) (list Z) :=
    {| s_rel := rep_rel ps; s_rok := rep_rok ps; s_commit := rep_commit ps;
       s_respond := rep_respond ps; s_extract := rep_extract ps |}.

  (** Fiat-Shamir ([prove]/[verify] of common.rs with the legacy [RandomOracle]: the final response is
      not absorbed).  [H] hashes the transcript bytes; [chal] maps the 32 output bytes to a scalar;
      [pub] are the bytes [public] feeds, [encM] the serialisation of the first message. *)
  Variable H : list N -> list N.
  Variable chal : list N -> Chal.
  Definition point_label : list N := [112; 111; 105; 110; 116]%N.   (* "point" *)

  Definition fs_input {M} (prefix pub : list N) (encM : M -> list N) (m : M) : list N :=
    prefix ++ pub ++ point_label ++ encM m.
  Definition fs_prove {W R M Z} (p : sigma W R M Z) (prefix pub : list N) (encM : M -> list N)
      (w : W) (rho : R) : list N * Z :=
    let c := H (fs_input prefix pub encM (s_commit p rho)) in
    (c, s_respond p w rho (chal c)).
  Variable bytes_eqb : list N -> list N -> bool.
  Definition fs_verify {W R M Z} (p : sigma W R M Z) (prefix pub : list N) (encM : M -> list N)
      (proof : list N * Z) : bool :=
    match s_extract p (chal (fst proof)) (snd proof) with
    | None => false
    | Some m => bytes_eqb (H (fs_input prefix pub encM m)) (fst proof)
    end.

  (** The shape of [verify_cdi]: threshold = number of sharing-coefficient commitments; one
      Fiat-Shamir proof for  AndAdapter(AndAdapter(com_mult, com_eq_sig), Replicate(com_enc_eq));
      the range proof for counter <= max_accounts; the account-ownership signatures. *)
  Definition verify_cdi_shape {W1 R1 M1 Z1 W2 R2 M2 Z2 W3 R3 M3 Z3}
      (threshold ncoeff : nat)
      (reg_id : sigma W1 R1 M1 Z1) (ip_sig : sigma W2 R2 M2 Z2) (id_cred_pub : list (sigma W3 R3 M3 Z3))
      (prefix pub : list N) (encM : (M1 * M2) * list M3 -> list N)
      (proof : list N * ((Z1 * Z2) * list Z3))
      (range_ok sigs_ok : bool) : bool :=
    Nat.eqb threshold ncoeff
    && fs_verify (and_adapter (and_adapter reg_id ip_sig) (replicate_adapter id_cred_pub)) prefix pub encM proof
    && range_ok && sigs_ok.
End Sigma.

(* ------------------------------------------------------------------------------------------ *)
(** * 5. The transcript of [verify_cdi] (legacy [RandomOracle]: domain bytes, then for every
    [append_message(label, m)] the raw label bytes followed by [Serial] bytes of [m]; no length
    framing of labels, no item counts). *)
Section CdiTranscript.
  Definition bytes := list N.
  (** One absorbed item: label and serialised message. *)
  Definition item := (bytes * bytes)%type.
  Definition flatten (its : list item) : bytes := concat (map (fun it => fst it ++ snd it) its).

  Variables Values Addr Ctx Cmm Key BSig PsKey Ciph Pk : Type.
  Variable enc_values : Values -> bytes.      (* Serial of CredentialDeploymentValues *)
  Variable enc_addr : option Addr -> bytes.   (* Serial of Option<&AccountAddress>: tag byte, then 32 bytes *)
  Variable enc_ctx : Ctx -> bytes.            (* Serial of GlobalContext *)
  Variable enc_cmm : Cmm -> bytes.            (* a group element *)
  Variable enc_key : Key -> bytes.            (* CommitmentKey: two group elements *)
  Variable enc_bsig : BSig -> bytes.          (* BlindedSignature *)
  Variable enc_pskey : PsKey -> bytes.        (* ps_sig::PublicKey, length-prefixed vectors *)
  Variable enc_ciph : Ciph -> bytes.          (* elgamal::Cipher *)
  Variable enc_pk : Pk -> bytes.              (* elgamal::PublicKey *)

  (** Labels, as the byte strings in the source. *)
  Variables (L_domain L_cred_values L_address L_global_context L_cmms L_cmm_key L_blinded_sig
             L_commitments L_ps_pub_key L_comm_key L_cipher L_commitment L_pub_key : bytes).

  (** What [verify_cdi] and the three [public] functions absorb, in order. *)
  Record cdi_public := mkCdiPublic {
    p_values : Values;                       (* ro.append_message(b"cred_values", &cdi.values) *)
    p_addr : option Addr;                    (* ro.append_message(b"address", &addr)           *)
    p_ctx : Ctx;                             (* ro.append_message(b"global_context", ..)       *)
    p_cmms : Cmm * Cmm * Cmm;                (* com_mult: cmm_prf + cmm_cred_counter, cred_id, g *)
    p_mult_key : Key;
    p_bsig : BSig;                           (* com_eq_sig: blinded signature                  *)
    p_sig_cmms : list Cmm;                   (* com_eq_sig: commitments (see [sig_commitments])  *)
    p_pskey : PsKey;                         (* the provider's PS public key                   *)
    p_sig_key : Key;
    p_ars : list (Ciph * Cmm * Pk * Key)     (* per revoker: cipher, commitment to share, key, cmm key *)
  }.

  Definition ar_items (x : Ciph * Cmm * Pk * Key) : list item :=
    let '(c, m, k, ck) := x in
    [(L_cipher, enc_ciph c); (L_commitment, enc_cmm m); (L_pub_key, enc_pk k); (L_cmm_key, enc_key ck)].

  Definition cdi_items (p : cdi_public) : list item :=
    let '(c0, c1, c2) := p_cmms p in
    [(L_domain, []); (L_cred_values, enc_values (p_values p)); (L_address, enc_addr (p_addr p));
     (L_global_context, enc_ctx (p_ctx p));
     (L_cmms, enc_cmm c0 ++ enc_cmm c1 ++ enc_cmm c2); (L_cmm_key, enc_key (p_mult_key p));
     (L_blinded_sig, enc_bsig (p_bsig p));
     (L_commitments, concat (map enc_cmm (p_sig_cmms p)));
     (L_ps_pub_key, enc_pskey (p_pskey p)); (L_comm_key, enc_key (p_sig_key p));
     ([], [])]                                            (* append_each_message(&[], ..): empty label *)
    ++ concat (map ar_items (p_ars p)).

  Definition cdi_transcript (p : cdi_public) : bytes := flatten (cdi_items p).
End CdiTranscript.

(** How the statement of the signature proof is derived from the credential
    ([pok_sig_verifier], chain.rs): the list of commitments the provider's signature is checked against.
    [hide0 x] is the commitment to [x] with randomness zero.  [attrs] are the attribute slots in tag
    order, revealed ([inl value], from the policy) or hidden ([inr commitment]). *)
Section SigStatement.
  Variables Cmm Scalar : Type.
  Variable hide0 : Scalar -> Cmm.
  Definition sig_commitments (cmm_id_cred_sec cmm_prf : Cmm) (public_params : Scalar) (ar_scalars : list Scalar)
      (tags : Scalar) (cmm_max_accounts : Cmm) (attrs : list (Scalar + Cmm)) : list Cmm :=
    [cmm_id_cred_sec; cmm_prf; hide0 public_params] ++ map hide0 ar_scalars
    ++ [hide0 tags; cmm_max_accounts]
    ++ map (fun a => match a with inl v => hide0 v | inr c => c end) attrs.
End SigStatement.

(* ------------------------------------------------------------------------------------------ *)
(** * Executable instance for the correspondence: Z mod r, group = its discrete logarithms *)
Local Open Scope Z_scope.
Definition c08_r : Z := 0x73eda753299d7d483339d80809a1d80553bda402fffe5bfeffffffff00000001.
(** Inverse by the extended Euclidean algorithm (the differences of revoker points are small, so this
    takes a few dozen small steps; [zr_inv] of Shamir.v uses a 255-bit Fermat exponentiation).
    Invariant of [egcd]: a = s0 * x and b = s1 * x modulo r. *)
Fixpoint egcd (fuel : nat) (a b s0 s1 : Z) : Z :=
  match fuel with
  | O => 0
  | S f => if b =? 0 then s0 else let q := a / b in egcd f b (a - q * b) s1 (s0 - q * s1)
  end.
Definition c08_inv (x : Z) : option Z :=
  let x' := x mod c08_r in
  if x' =? 0 then None else Some ((egcd 800 x' c08_r 1 0) mod c08_r).
Definition c08_lagrange (kxs : list Z) (i : Z) : Z :=
  lagrange Z 1 (zr_sub c08_r) (zr_mul c08_r) c08_inv kxs i.
Definition c08_reveal (shares : list (Z * Z)) : Z :=
  reveal Z 0 1 (zr_add c08_r) (zr_sub c08_r) (zr_mul c08_r) c08_inv shares.
Definition c08_share (secret : Z) (coeffs pts : list Z) : list Z := zr_share c08_r secret coeffs pts.
(** For one subset of revokers (points [kxs]): the Lagrange coefficient of every member, i.e. the
    coefficient vector of [reveal_in_group] over the free module on the decrypted shares. *)
Definition c08_coeffs (kxs : list Z) : list Z := map (c08_lagrange kxs) kxs.
Definition c08_counter_ok (a b : Z) : bool := counter_ok a b.
Definition c08_range_stmt (a b : Z) : bool := range_stmt_dec c08_r a b.
