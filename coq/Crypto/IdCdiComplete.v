(** C08 - completeness of the composed credential proof, from the C07 development (import only):
    the protocol that [create_credential] proves and [verify_cdi] checks is
      AndAdapter(AndAdapter(com_mult, com_eq_sig), ReplicateAdapter(com_enc_eq ..))
    over the legacy transcript.  Completeness of the three instances and of the two adapters are the
    C07 lemmas [com_mult_complete_], [ces_complete_], [com_enc_eq_complete_], [and_complete_],
    [rep_complete_]; Fiat-Shamir completeness is [prove_verify_complete_].  What remains a hypothesis:
    completeness of the bulletproof range proof for a true statement (C11) and of ed25519 signing. *)
From Coq Require Import ZArith NArith List Bool.
From CB Require Import Crypto.Alg Crypto.AlgPairing Crypto.Transcript Crypto.SigmaGeneric Crypto.SigmaCodec
  Crypto.Sigma_com_mult Crypto.Sigma_com_enc_eq Crypto.Sigma_com_eq_sig.
From CB Require Crypto.IdPipeline.
Import ListNotations.

Section CdiC07.
  Context {K : FieldOps} {KL : FieldLaws K} {P : PairOps K} {PL : PairLaws P} {MC : ModOps K} {MLC : ModLaws MC}
          (Cd1 : CodecOps (PM1 P)) (Cd2 : CodecOps (PM2 P)) (CdT : CodecOps (PMT P)) (CdC : CodecOps MC).

  (** commitments and revoker keys live in [MC] (= G1 in the deployment) *)
  Definition cdi_proto : proto K :=
    and_proto (and_proto (com_mult_proto CdC) (ces_proto Cd1 Cd2 CdT CdC)) (rep_proto (com_enc_eq_proto CdC)).
  Definition cdi_rel : p_stmt cdi_proto -> p_wit cdi_proto -> Prop :=
    prod_rel (prod_rel com_mult_rel ces_rel) (rep_rel com_enc_eq_rel).
  Definition cdi_rok : p_stmt cdi_proto -> p_rand cdi_proto -> Prop :=
    prod_rel (prod_rel (fun _ _ => True) ces_rok) (rep_rok (fun _ _ => True)).

  Theorem cdi_sigma_complete_ : complete cdi_proto cdi_rel cdi_rok.
  Proof.
    unfold cdi_proto, cdi_rel, cdi_rok. apply and_complete_.
    - apply and_complete_; [apply com_mult_complete_ | apply ces_complete_]; assumption.
    - apply rep_complete_. apply com_enc_eq_complete_; assumption.
  Qed.

  Variable H : bytes -> bytes.
  Variable sfb : bytes -> K.

  (** [verify_cdi]: threshold = number of sharing-coefficient commitments, the sigma proof under the
      legacy transcript with prefix [ctx] (domain, cred_values, address, global_context), the range
      proof, the account-ownership signatures. *)
  Definition verify_cdi_c07 (threshold ncoeff : nat) (ctx : bytes) (s : p_stmt cdi_proto)
      (pi : bytes * p_resp cdi_proto) (range_ok sigs_ok : bool) : bool :=
    Nat.eqb threshold ncoeff && fst (verify H sfb cdi_proto Legacy ctx s pi) && range_ok && sigs_ok.

  Variables RangeProof SigT Msg : Type.
  Variable range_prove : Z -> Z -> RangeProof.
  Variable range_verify : RangeProof -> bool.
  Hypothesis range_complete : forall a b, IdPipeline.counter_ok a b = true -> range_verify (range_prove a b) = true.
  Variable acc_sign : Msg -> SigT.
  Variable acc_verify : Msg -> SigT -> bool.
  Hypothesis acc_sig_complete : forall m, acc_verify m (acc_sign m) = true.

  Theorem cdi_complete_c07_ : forall (threshold : nat) ctx s w r (counter max_accounts : Z) (msg : Msg),
    cdi_rel s w -> cdi_rok s r -> (counter <= max_accounts)%Z ->
    exists pi st, prove H sfb cdi_proto Legacy ctx s w r = Some (pi, st)
      /\ verify_cdi_c07 threshold threshold ctx s pi
           (range_verify (range_prove counter max_accounts)) (acc_verify msg (acc_sign msg)) = true.
  Proof.
    intros t ctx s w r counter maxa msg Hrel Hrok Hle.
    destruct (prove_verify_complete_ H sfb cdi_proto cdi_rel cdi_rok cdi_sigma_complete_ Legacy ctx s w r Hrel Hrok)
      as (pi & st & Hp & Hv).
    exists pi, st. split; [exact Hp|]. unfold verify_cdi_c07. rewrite Nat.eqb_refl, Hv. cbn [fst andb].
    rewrite range_complete by (unfold IdPipeline.counter_ok; apply Z.leb_le; exact Hle).
    apply acc_sig_complete.
  Qed.
End CdiC07.
