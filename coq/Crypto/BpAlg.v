(** C11 - vectors over an abstract commutative ring F and an F-module G (definitions only).
    The carrier operations are Section variables; nothing here depends on any law, so the
    definitions stay executable for every instance (see [BpInst.v]).                      *)
From Coq Require Import List.
Import ListNotations.

(** all carrier operations in one record, so that every model function takes one argument *)
Record bp_ops := mkOps {
  o_F : Type; o_f0 : o_F; o_f1 : o_F;
  o_fadd : o_F -> o_F -> o_F; o_fmul : o_F -> o_F -> o_F; o_fsub : o_F -> o_F -> o_F; o_fopp : o_F -> o_F;
  o_feqb : o_F -> o_F -> bool;
  o_G : Type; o_g0 : o_G; o_gadd : o_G -> o_G -> o_G; o_gopp : o_G -> o_G;
  o_smul : o_F -> o_G -> o_G; o_geqb : o_G -> o_G -> bool }.

Section BpAlg.
  Variable Ops : bp_ops.
  Local Notation F := (o_F Ops).
  Local Notation G := (o_G Ops).
  Local Notation f0 := (o_f0 Ops).
  Local Notation f1 := (o_f1 Ops).
  Local Notation fadd := (o_fadd Ops).
  Local Notation fmul := (o_fmul Ops).
  Local Notation fsub := (o_fsub Ops).
  Local Notation fopp := (o_fopp Ops).
  Local Notation feqb := (o_feqb Ops).
  Local Notation g0 := (o_g0 Ops).
  Local Notation gadd := (o_gadd Ops).
  Local Notation gopp := (o_gopp Ops).
  Local Notation smul := (o_smul Ops).
  Local Notation geqb := (o_geqb Ops).

  (** inner product <a,b> (inner_product_proof.rs [inner_product]: zip, i.e. shorter length) *)
  Fixpoint dot (a b : list F) : F :=
    match a, b with
    | x :: a', y :: b' => fadd (fmul x y) (dot a' b')
    | _, _ => f0
    end.

  (** multi-exponentiation  sum_i a_i * P_i *)
  Fixpoint msum (a : list F) (P : list G) : G :=
    match a, P with
    | x :: a', p :: P' => gadd (smul x p) (msum a' P')
    | _, _ => g0
    end.

  Definition vzip {A B C} (f : A -> B -> C) (a : list A) (b : list B) : list C :=
    map (fun p => f (fst p) (snd p)) (combine a b).
  Definition vadd : list F -> list F -> list F := vzip fadd.
  Definition vmul : list F -> list F -> list F := vzip fmul.
  Definition vscale (c : F) (a : list F) : list F := map (fmul c) a.
  Definition vconst (c : F) (n : nat) : list F := repeat c n.
  Definition gvadd : list G -> list G -> list G := vzip gadd.
  Definition gvscale (c : F) (P : list G) : list G := map (smul c) P.
  Definition gvmul : list F -> list G -> list G := vzip smul.      (* c o H, pointwise *)
  Definition vsum (a : list F) : F := fold_right fadd f0 a.

  Fixpoint fpow (z : F) (e : nat) : F :=
    match e with O => f1 | S e' => fmul z (fpow z e') end.
  (** utils.rs [z_vec z first n] = (z^first, z^(first+1), ..., z^(first+n-1)) *)
  Fixpoint powers_from (z cur : F) (n : nat) : list F :=
    match n with O => [] | S n' => cur :: powers_from z (fmul cur z) n' end.
  Definition z_vec (z : F) (first n : nat) : list F := powers_from z (fpow z first) n.

  Definition lo {A} (l : list A) : list A := firstn (Nat.div2 (length l)) l.
  Definition hi {A} (l : list A) : list A := skipn (Nat.div2 (length l)) l.

  Definition gsub (x y : G) : G := gadd x (gopp y).
End BpAlg.
