(** C11 - evaluation entry points of the transcript model for the correspondence check.
    Payloads are replaced by one-element "marker" strings (numbers >= 1000, never a real byte); the
    check expands each marker to the real [Serial] bytes of that message, hashes the result with
    SHA3-256 and compares with the challenge the implementation extracted.  The framing (labels, length
    prefixes, counts, order, extraction points) is computed by the model functions of [BpTranscript.v]. *)
From Coq Require Import NArith List String.
From CB Require Import Crypto.Transcript Crypto.BpTranscript.
Import ListNotations.
Local Open Scope N_scope.

Definition mk (x : N) : bytes := [x].
Definition mks (base : N) (n : nat) : list bytes := map (fun i => mk (base + N.of_nat i)) (seq 0 n).
Definition marker_pmsgs (rounds : nat) : pmsgs :=
  mkPmsgs (mk 1002) (mk 1003) (mk 1004) (mk 1005) (mk 1006) (mk 1007) (mk 1008)
          (map (fun i => (mk (400000 + N.of_nat i), mk (500000 + N.of_nat i))) (seq 0 rounds))
          (mk 1009) (mk 1010).

Definition states_and_post (k : tkind) (dom : string) (pre : list lmsg) (rounds : nat) : list bytes * bytes :=
  let st := domain k (str dom) in
  (proof_states k st pre (marker_pmsgs rounds), state_after k st pre (marker_pmsgs rounds)).

(** range proof with nm generators, bit width n (one byte), m commitments *)
Definition range_states_eval (k : tkind) (dom : string) (v2 : bool) (nm : nat) (n : N) (m rounds : nat) :=
  states_and_post k dom (range_pre v2 (mks 100000 nm) (mks 200000 nm) (mk 1001) [n] (mks 300000 m)) rounds.

(** set proofs with padded size sz *)
Definition set_states_eval (k : tkind) (dom : string) (member v2 : bool) (sz rounds : nat) :=
  states_and_post k dom (set_pre member v2 (mks 100000 sz) (mks 200000 sz) (mk 1001) (mk 1011) (mks 600000 sz)) rounds.

(** inner-product argument alone *)
Definition ipa_states_eval (k : tkind) (dom : string) (rounds : nat) : list bytes :=
  let st := domain k (str dom) in
  map (ipa_state_at k st (mlr (marker_pmsgs rounds))) (seq 0 rounds).
