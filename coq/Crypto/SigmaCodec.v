(** Serialisation interface for protocol instances: [Serial] of group elements and scalars are
    parameters ([CodecOps]); the theorems assume fixed length and injectivity ([CodecLaws]; for
    BLS12-381: compressed points of 48/96 bytes, scalars of 32 bytes big endian - C05/C20 territory,
    assumed here).  The executable instance encodes a group element by ONE pseudo-byte
    [2^260 + dlog] (a token that the check replaces by the real compressed point) and a scalar by
    its real 32-byte big-endian form. *)
From Coq Require Import ZArith NArith List Lia String.
From CB Require Import Crypto.Alg Crypto.Transcript Crypto.TranscriptProofs Crypto.SigmaGeneric.
Import ListNotations.

Record CodecOps {K : FieldOps} (M : ModOps K) : Type := mkCodecOps {
  serG : M -> bytes;
  serF : K -> bytes;
  glen : nat; flen : nat }.
Arguments serG {K M} _ _. Arguments serF {K M} _ _. Arguments glen {K M} _. Arguments flen {K M} _.

Class CodecLaws {K : FieldOps} {M : ModOps K} (Cd : CodecOps M) : Prop := mkCodecLaws {
  serG_len : forall g, List.length (serG Cd g) = glen Cd;
  serF_len : forall x, List.length (serF Cd x) = flen Cd;
  serG_inj : forall g h, serG Cd g = serG Cd h -> g = h;
  serF_inj : forall x y, serF Cd x = serF Cd y -> x = y }.

Definition G1_TOKEN : N := 2 ^ 260.
Definition ZrCodec : CodecOps ZrG :=
  mkCodecOps _ ZrG (fun g => [(G1_TOKEN + Z.to_N g)%N]) ser_scalar_bls 1 32.

Section Helpers.
  Context {K : FieldOps} {M : ModOps K} (Cd : CodecOps M) {CL : CodecLaws Cd}.

  Lemma msg_split_G k l (g h : M) x y :
    msg k l (serG Cd g) ++ x = msg k l (serG Cd h) ++ y -> g = h /\ x = y.
  Proof.
    unfold msg. rewrite <- !app_assoc. intro E. apply app_inv_head in E.
    apply app_eq_len in E; [|now rewrite !serG_len]. destruct E as [E ->]. split; auto. now apply serG_inj.
  Qed.
  Lemma serG_split (g h : M) x y : serG Cd g ++ x = serG Cd h ++ y -> g = h /\ x = y.
  Proof.
    intro E. apply app_eq_len in E; [|now rewrite !serG_len]. destruct E as [E ->]. split; auto. now apply serG_inj.
  Qed.
  Lemma serF_split (a b : K) x y : serF Cd a ++ x = serF Cd b ++ y -> a = b /\ x = y.
  Proof.
    intro E. apply app_eq_len in E; [|now rewrite !serF_len]. destruct E as [E ->]. split; auto. now apply serF_inj.
  Qed.
  (** concatenations of equally many fixed-length encodings *)
  Lemma concat_serG_split : forall (gs hs : list M) x y, List.length gs = List.length hs ->
    List.concat (map (serG Cd) gs) ++ x = List.concat (map (serG Cd) hs) ++ y -> gs = hs /\ x = y.
  Proof.
    induction gs as [|g gs IH]; intros [|h hs] x y Hl E; try discriminate; cbn in *; auto.
    rewrite <- !app_assoc in E. apply serG_split in E. destruct E as [-> E].
    destruct (IH hs x y) as [-> ->]; auto.
  Qed.
  Lemma concat_serF_split : forall (gs hs : list K) x y, List.length gs = List.length hs ->
    List.concat (map (serF Cd) gs) ++ x = List.concat (map (serF Cd) hs) ++ y -> gs = hs /\ x = y.
  Proof.
    induction gs as [|g gs IH]; intros [|h hs] x y Hl E; try discriminate; cbn in *; auto.
    rewrite <- !app_assoc in E. apply serF_split in E. destruct E as [-> E].
    destruct (IH hs x y) as [-> ->]; auto.
  Qed.
  (** [append_messages] under V1: the count makes the list self-delimiting *)
  Lemma msgs_v1_split_G l (gs hs : list M) x y :
    (N.of_nat (List.length gs) < W64)%N -> (N.of_nat (List.length hs) < W64)%N ->
    msgs V1 l (map (serG Cd) gs) ++ x = msgs V1 l (map (serG Cd) hs) ++ y -> gs = hs /\ x = y.
  Proof.
    intros Lg Lh. unfold msgs. rewrite <- !app_assoc. intro E. apply app_inv_head in E.
    cbn [cnt] in E. rewrite !map_length in E.
    apply app_eq_len in E; [|now rewrite !be64_length]. destruct E as [E1 E].
    apply be64_inj in E1; auto. apply Nat2N.inj in E1. now apply concat_serG_split.
  Qed.
  Lemma msgs_v1_split_F l (gs hs : list K) x y :
    (N.of_nat (List.length gs) < W64)%N -> (N.of_nat (List.length hs) < W64)%N ->
    msgs V1 l (map (serF Cd) gs) ++ x = msgs V1 l (map (serF Cd) hs) ++ y -> gs = hs /\ x = y.
  Proof.
    intros Lg Lh. unfold msgs. rewrite <- !app_assoc. intro E. apply app_inv_head in E.
    cbn [cnt] in E. rewrite !map_length in E.
    apply app_eq_len in E; [|now rewrite !be64_length]. destruct E as [E1 E].
    apply be64_inj in E1; auto. apply Nat2N.inj in E1. now apply concat_serF_split.
  Qed.
  (** same list length known in advance (any framing, e.g. legacy with a fixed size parameter) *)
  Lemma msgs_split_G_samelen k l (gs hs : list M) x y : List.length gs = List.length hs ->
    msgs k l (map (serG Cd) gs) ++ x = msgs k l (map (serG Cd) hs) ++ y -> gs = hs /\ x = y.
  Proof.
    intros Hl. unfold msgs. rewrite <- !app_assoc. intro E. apply app_inv_head in E.
    rewrite !map_length, Hl in E. apply app_inv_head in E. now apply concat_serG_split.
  Qed.
  Lemma msgs_split_F_samelen k l (gs hs : list K) x y : List.length gs = List.length hs ->
    msgs k l (map (serF Cd) gs) ++ x = msgs k l (map (serF Cd) hs) ++ y -> gs = hs /\ x = y.
  Proof.
    intros Hl. unfold msgs. rewrite <- !app_assoc. intro E. apply app_inv_head in E.
    rewrite !map_length, Hl in E. apply app_inv_head in E. now apply concat_serF_split.
  Qed.
End Helpers.

(** strip one labelled fixed-size message from both sides of a prefix-freeness goal *)
Ltac pf_msg Cd E :=
  unfold msg in E; rewrite <- ?app_assoc in E; apply app_inv_head in E;
  rewrite <- ?app_assoc in E.

Section Helpers32.
  Context {K : FieldOps} {M : ModOps K} (Cd : CodecOps M) {CL : CodecLaws Cd}.
  Definition W32 : N := (2 ^ 32)%N.
  (** [#[size_length = 4] Vec<group element>] is self-delimiting *)
  Lemma ser_vec32_split_G (gs hs : list M) x y :
    (N.of_nat (List.length gs) < W32)%N -> (N.of_nat (List.length hs) < W32)%N ->
    ser_vec32 (map (serG Cd) gs) ++ x = ser_vec32 (map (serG Cd) hs) ++ y -> gs = hs /\ x = y.
  Proof.
    intros Lg Lh. unfold ser_vec32. rewrite <- !app_assoc, !map_length. intro E.
    apply app_eq_len in E; [|unfold be32; now rewrite !be_bytes_length]. destruct E as [E1 E].
    apply (be_bytes_inj 4) in E1; auto. apply Nat2N.inj in E1. now apply (concat_serG_split Cd).
  Qed.
End Helpers32.
