(** sigma_protocols/dlog.rs: knowledge of [w] with [public = w * coeff].
    Response style: [z = c*w + rho] ([RespPlus]); reconstruction [z*coeff - c*public]. *)
From Coq Require Import ZArith NArith List Field Lia String.
From CB Require Import Crypto.Alg Crypto.Transcript Crypto.TranscriptProofs Crypto.SigmaGeneric Crypto.SigmaCodec.
Import ListNotations.

Record dlog_stmt {K : FieldOps} (M : ModOps K) := mkDlog { dl_public : M; dl_coeff : M }.
Arguments mkDlog {K M} _ _. Arguments dl_public {K M} _. Arguments dl_coeff {K M} _.

Section Dlog.
  Context {K : FieldOps} {M : ModOps K} (Cd : CodecOps M).
  Local Open Scope G_scope.

  (** [fn public]: ro.append_message("public", &self.public); ro.append_message("coeff", &self.coeff) *)
  Definition dlog_public (k : tkind) (s : dlog_stmt M) : bytes :=
    msg k (str "public") (serG Cd (dl_public s)) ++ msg k (str "coeff") (serG Cd (dl_coeff s)).
  (** [compute_commit_message]: coeff * rand_scalar *)
  Definition dlog_commit (s : dlog_stmt M) (r : K) : option M := Some (r *: dl_coeff s).
  (** [compute_response]: challenge * secret + state *)
  Definition dlog_respond (s : dlog_stmt M) (w r c : K) : option K := Some (Fadd K (Fmul K c w) r).
  (** [extract_commit_message]: coeff * response - public * challenge *)
  Definition dlog_extract (s : dlog_stmt M) (c z : K) : option M :=
    Some (z *: dl_coeff s - c *: dl_public s).

  Definition dlog_proto : proto K := {|
    p_stmt := dlog_stmt M; p_wit := K; p_rand := K; p_cm := M; p_resp := K;
    p_public := dlog_public; p_commit := dlog_commit; p_respond := dlog_respond;
    p_extract := dlog_extract; p_ser_cm := serG Cd; p_ser_resp := serF Cd |}.

  Definition dlog_rel (s : dlog_stmt M) (w : K) : Prop := dl_public s = w *: dl_coeff s.
  (** recover the prover's randomness from a response (used by the correspondence check) *)
  Definition dlog_recover (s : dlog_stmt M) (w c z : K) : K := Fsub K z (Fmul K c w).

  (** the linear map: one row, one column *)
  Definition dlog_A (s : dlog_stmt M) : list (list M) := [[dl_coeff s]].
  Definition dlog_y (s : dlog_stmt M) : list M := [dl_public s].

  Context {KL : FieldLaws K} {ML : ModLaws M}.
  Add Field Kf_dlog : (@F_th K KL).

  Lemma dlog_commit_generic s r a : dlog_commit s r = Some a -> [a] = m_commit (dlog_A s) [r].
  Proof. intro E. injection E as <-. cbn. f_equal. mod_norm. Qed.
  Lemma dlog_respond_generic s w r c z :
    dlog_respond s w r c = Some z -> [z] = m_respond RespPlus c [w] [r].
  Proof. intro E. injection E as <-. cbn. f_equal. ring. Qed.
  Lemma dlog_extract_generic s c z a :
    dlog_extract s c z = Some a -> [a] = m_reconstruct RespPlus (dlog_A s) (dlog_y s) c [z].
  Proof. intro E. injection E as <-. cbn. f_equal. mod_norm. Qed.
  Lemma dlog_rel_generic s w : dlog_rel s w <-> phi (dlog_A s) [w] = dlog_y s.
  Proof.
    unfold dlog_rel, phi, dlog_A, dlog_y. cbn. rewrite Gadd_0_r. split; [intros ->; reflexivity|intro E; now injection E].
  Qed.

  (** completeness for every witness, randomness and challenge *)
  Theorem dlog_complete_ : complete dlog_proto dlog_rel (fun _ _ => True).
  Proof.
    intros s w r Hrel _. eexists. split; [reflexivity|]. intro c. eexists. split; [reflexivity|].
    cbn. unfold dlog_extract. f_equal. rewrite Hrel. mod_norm.
  Qed.

  (** special soundness, as a corollary of the generic theorem through [dlog_extract_generic] *)
  Definition dlog_extractor (s : dlog_stmt M) (c c' z z' : K) : K :=
    hd (F0 K) (m_extract RespPlus c c' [z] [z']).
  Theorem dlog_special_sound_ : special_sound dlog_proto dlog_rel dlog_extractor.
  Proof.
    intros s a c c' z z' Hc E E'. apply dlog_rel_generic.
    pose proof (dlog_extract_generic s c z a E) as G1. pose proof (dlog_extract_generic s c' z' a E') as G2.
    exact (sigma_special_sound_ RespPlus (dlog_A s) (dlog_y s) [a] c c' [z] [z'] Hc eq_refl eq_refl
             (eq_sym G1) (eq_sym G2)).
  Qed.

  (** [public] covers both fields of the statement, under both framings *)
  Context {CL : CodecLaws Cd}.
  Theorem dlog_public_prefix_free_ : forall k, public_prefix_free dlog_proto k (fun _ => True).
  Proof.
    intros k [p c] [p' c'] x y _ _ E. cbn in E. unfold dlog_public in E. cbn [dl_public dl_coeff] in E.
    rewrite <- !app_assoc in E. apply (msg_split_G Cd) in E. destruct E as [-> E].
    apply (msg_split_G Cd) in E. destruct E as [-> ->]. auto.
  Qed.
  (** the dlog frame is three labelled messages with fixed-length payloads: the hypothesis of
      [context_binding_v1_any_length_] is satisfiable (and satisfied) *)
  Definition fixed_len_schema (n : nat) : schema := fun _ p => List.length p = n.
  Lemma fixed_len_schema_pf n : schema_prefix_free (fixed_len_schema n).
  Proof. intro l. apply (fixed_length_prefix_free _ n). auto. Qed.
  Theorem dlog_frame_is_messages_ : frame_is_messages dlog_proto (fixed_len_schema (glen Cd)) 3.
  Proof.
    intros s a. exists [(str "public", serG Cd (dl_public s)); (str "coeff", serG Cd (dl_coeff s)); (str "point", serG Cd a)].
    split; [|split; [reflexivity|]].
    - repeat constructor; cbn; try apply serG_len; unfold short, W64; vm_compute; reflexivity.
    - cbn. unfold dlog_public, enc_lmsg. cbn [fst snd]. now rewrite <- !app_assoc, app_nil_r.
  Qed.
End Dlog.
