(** sigma_protocols/dlogeq.rs (private module, reference only): knowledge of [w] with
    [public1 = w*coeff1] and [public2 = w*coeff2].  Built from two [Dlog] instances sharing randomness
    and response; style [RespPlus].  Matrix: two rows, one column. *)
From Coq Require Import ZArith NArith List Field Lia String.
From CB Require Import Crypto.Alg Crypto.Transcript Crypto.TranscriptProofs Crypto.SigmaGeneric Crypto.SigmaCodec Crypto.Sigma_dlog.
Import ListNotations.

Section DlogEq.
  Context {K : FieldOps} {M : ModOps K} (Cd : CodecOps M).
  Local Open Scope G_scope.
  Definition dlogeq_stmt : Type := dlog_stmt M * dlog_stmt M.

  Definition dlogeq_public (k : tkind) (s : dlogeq_stmt) : bytes := dlog_public Cd k (fst s) ++ dlog_public Cd k (snd s).
  Definition dlogeq_commit (s : dlogeq_stmt) (r : K) : option (M * M) :=
    Some (r *: dl_coeff (fst s), r *: dl_coeff (snd s)).
  (** [self.dlog1.compute_response(secret, state, challenge)] *)
  Definition dlogeq_respond (s : dlogeq_stmt) (w r c : K) : option K := dlog_respond (fst s) w r c.
  Definition dlogeq_extract (s : dlogeq_stmt) (c z : K) : option (M * M) :=
    opt_pair (dlog_extract (fst s) c z) (dlog_extract (snd s) c z).
  Definition dlogeq_proto : proto K := {|
    p_stmt := dlogeq_stmt; p_wit := K; p_rand := K; p_cm := M * M; p_resp := K;
    p_public := dlogeq_public; p_commit := dlogeq_commit; p_respond := dlogeq_respond; p_extract := dlogeq_extract;
    p_ser_cm := fun a => serG Cd (fst a) ++ serG Cd (snd a); p_ser_resp := serF Cd |}.
  Definition dlogeq_rel (s : dlogeq_stmt) (w : K) : Prop := dlog_rel (fst s) w /\ dlog_rel (snd s) w.
  Definition dlogeq_A (s : dlogeq_stmt) : list (list M) := [[dl_coeff (fst s)]; [dl_coeff (snd s)]].
  Definition dlogeq_y (s : dlogeq_stmt) : list M := [dl_public (fst s); dl_public (snd s)].

  Context {KL : FieldLaws K} {ML : ModLaws M}.
  Add Field Kf_dlogeq : (@F_th K KL).

  Lemma dlogeq_commit_generic s r a : dlogeq_commit s r = Some a -> [fst a; snd a] = m_commit (dlogeq_A s) [r].
  Proof. intro E. injection E as <-. cbn. list_split; mod_norm. Qed.
  Lemma dlogeq_extract_generic s c z a : dlogeq_extract s c z = Some a ->
    [fst a; snd a] = m_reconstruct RespPlus (dlogeq_A s) (dlogeq_y s) c [z].
  Proof. intro E. injection E as <-. cbn. list_split; mod_norm. Qed.
  Lemma dlogeq_rel_generic s w : dlogeq_rel s w <-> phi (dlogeq_A s) [w] = dlogeq_y s.
  Proof.
    unfold dlogeq_rel, dlog_rel, phi, dlogeq_A, dlogeq_y. cbn. rewrite !Gadd_0_r. split.
    - intros [-> ->]. reflexivity.
    - intro E. injection E as -> ->. auto.
  Qed.
  Theorem dlogeq_complete_ : complete dlogeq_proto dlogeq_rel (fun _ _ => True).
  Proof.
    intros [s1 s2] w r [H1 H2] _. eexists. split; [reflexivity|]. intro c. eexists. split; [reflexivity|].
    cbn. unfold dlog_rel in *. cbn in H1, H2. rewrite H1, H2. list_split; mod_norm.
  Qed.
  Theorem dlogeq_special_sound_ : special_sound dlogeq_proto dlogeq_rel (fun s => dlog_extractor (fst s)).
  Proof.
    intros s a c c' z z' Hc E E'. apply dlogeq_rel_generic.
    pose proof (dlogeq_extract_generic s c z a E) as G1. pose proof (dlogeq_extract_generic s c' z' a E') as G2.
    exact (sigma_special_sound_ RespPlus (dlogeq_A s) (dlogeq_y s) [fst a; snd a] c c' [z] [z'] Hc eq_refl eq_refl
             (eq_sym G1) (eq_sym G2)).
  Qed.
  Context {CL : CodecLaws Cd}.
  Theorem dlogeq_public_prefix_free_ : forall k, public_prefix_free dlogeq_proto k (fun _ => True).
  Proof.
    intros k [s1 s2] [s1' s2'] x y _ _ E. cbn [p_public dlogeq_proto] in E. unfold dlogeq_public in E. cbn [fst snd] in E.
    rewrite <- !app_assoc in E.
    destruct (dlog_public_prefix_free_ Cd k s1 s1' _ _ I I E) as [-> E'].
    destruct (dlog_public_prefix_free_ Cd k s2 s2' _ _ I I E') as [-> ->]. auto.
  Qed.
End DlogEq.
