(** C18 - the sub-protocol completeness hypotheses of [statement_complete_rel], discharged per
    statement kind by the C07 / C11 developments (imports only; nothing of those files is changed).

      reveal / value  : sigma_protocols/dlog over the statement  C - x*g = r*h   (Sigma_dlog.v, SigmaGeneric.v)
      in range        : bulletproof range proof, n = 64, m = 2                    (BpTheorems.range_complete_p)
      in set          : set membership proof on the vector of scalars             (BpTheorems.mem_complete_p)
      not in set      : set non-membership proof                                  (BpTheorems.nonmem_complete_p)

    The scalar field is abstract in both developments; attribute encodings enter through an arbitrary
    map [emb : N -> scalars] (the reduction mod r of the concrete curve). *)
From Coq Require Import ZArith NArith List Bool Lia Field.
From CB Require Import Crypto.Alg Crypto.Transcript Crypto.TranscriptProofs Crypto.SigmaGeneric Crypto.SigmaCodec Crypto.Sigma_dlog.
From CB Require Import Crypto.BpAlg Crypto.Ipa Crypto.RangeProof Crypto.SetProof Crypto.RangeStmt Crypto.BpTheorems.
From CB Require Crypto.Statements Crypto.StatementsProofs.
Import ListNotations.

Module S := CB.Crypto.Statements.
Module SP := CB.Crypto.StatementsProofs.

(** * reveal / attribute value: the dlog statement the verifier forms is in the dlog relation *)
Section Reveal.
  Context {K : FieldOps} {M : ModOps K} (Cd : CodecOps M).
  Context {KL : FieldLaws K} {ML : ModLaws M}.
  Variable H : bytes -> bytes.
  Variable sfb : bytes -> K.
  Local Open Scope G_scope.
  Add Field Kf_c18 : (@F_th K KL).

  (** commitment to x with randomness r under the key (g, h); the statement of
      [verify_value_equal_to_commitment]: public = C - x*g, coeff = h; witness r *)
  Definition reveal_stmt (g h : M) (C : M) (x : K) : dlog_stmt M := mkDlog (C - x *: g) h.

  Lemma reveal_in_relation g h x r : dlog_rel (reveal_stmt g h (x *: g + r *: h) x) r.
  Proof. unfold dlog_rel, reveal_stmt. cbn [dl_public dl_coeff]. mod_norm. Qed.

  (** for every key, value, commitment randomness, transcript state, prover randomness and hash:
      the honest reveal proof exists and verifies, leaving prover and verifier in the same state *)
  Theorem reveal_complete_c07 : forall g h x r k ctx rho,
    exists pi st,
      prove H sfb (dlog_proto Cd) k ctx (reveal_stmt g h (x *: g + r *: h) x) r rho = Some (pi, st)
      /\ verify H sfb (dlog_proto Cd) k ctx (reveal_stmt g h (x *: g + r *: h) x) pi = (true, st).
  Proof.
    intros g h x r k ctx rho.
    eapply (prove_verify_complete_ H sfb (dlog_proto Cd) (dlog_rel) (fun _ _ => True)).
    - apply dlog_complete_; assumption.
    - apply reveal_in_relation.
    - exact I.
  Qed.

  (** a value statement with another scalar x' is NOT in the relation unless (x - x')*g = 0:
      the honest "proof" for a false value is a proof about another statement *)
  Lemma reveal_other_value_relation g h x x' r :
    dlog_rel (reveal_stmt g h (x *: g + r *: h) x') r <-> (x *: g - x' *: g = G0 M).
  Proof.
    unfold dlog_rel, reveal_stmt. cbn [dl_public dl_coeff]. split; intros E.
    - assert (X : x *: g - x' *: g = (x *: g + r *: h - x' *: g) - r *: h) by mod_norm.
      rewrite X, E. mod_norm.
    - assert (X : x *: g + r *: h - x' *: g = (x *: g - x' *: g) + r *: h) by mod_norm.
      rewrite X, E. mod_norm.
  Qed.
End Reveal.

(** * range / set statements over every [bp_ops] with [bp_laws] *)
Section Bulletproofs.
  Variable Ops : bp_ops.
  Hypothesis L : bp_laws Ops.
  (** embedding of the integer encodings into the scalar ring *)
  Variable emb : N -> o_F Ops.

  (** in range: the prover range-proves the two u64 limbs [range_proved]; the proof verifies against
      the commitments to the scalars those 64 bits represent - for EVERY v, a, b.  (They are the
      verifier's derived commitments exactly when [range_scalars_ok], by [in_range_arith_exact].) *)
  Theorem range_stmt_complete_c11 : forall r v a b rs Gs Hs B Bt sL sR at_ st t1t t2t y yi z x w us,
    let vs := [fst (S.range_proved r v a b); snd (S.range_proved r v a b)] in
    length rs = 2%nat ->
    length Gs = Nat.pow 2 (length us) -> length Gs = 128%nat -> length Hs = length Gs ->
    length sL = length Gs -> length sR = length Gs ->
    o_fmul Ops y yi = o_f1 Ops -> inv_ok Ops us ->
    range_verdict Ops 64 (vzip (commit Ops B Bt) (map (fval Ops 64) vs) rs) Gs Hs B Bt
      (range_prove Ops 64 vs rs Gs Hs B Bt sL sR at_ st t1t t2t y yi z x w us) y yi z x w us = VOk.
  Proof.
    intros r v a b rs Gs Hs B Bt sL sR at_ st t1t t2t y yi z x w us vs Hrs HG HG128 HH HsL HsR Hy Hus.
    apply (range_complete_p Ops L); try assumption; try (rewrite Hrs; reflexivity); try (rewrite HG128; reflexivity).
  Qed.

  (** when the statement is provable ([range_scalars_ok]) the proved limbs ARE the derived scalars *)
  Lemma range_proved_eq_scalars r v a b : (0 < r)%Z -> S.range_scalars_ok r v a b = true ->
    S.range_proved r v a b = S.range_scalars r v a b.
  Proof.
    intros Hr Hok. rewrite <- SP.range_verifies_eq_ok in Hok by exact Hr.
    unfold S.range_verifies in Hok. apply andb_true_iff in Hok as [E1 E2].
    apply Z.eqb_eq in E1. apply Z.eqb_eq in E2.
    destruct (S.range_proved r v a b) as [p1 p2] eqn:P, (S.range_scalars r v a b) as [s1 s2] eqn:Q.
    cbn [fst snd] in *. congruence.
  Qed.

  Definition enc_set (set : list S.attr) : list (o_F Ops) := map (fun x => emb (S.encode x)) set.

  Lemma mem_enc_In v set : S.mem_enc (S.encode v) set = true -> In (emb (S.encode v)) (enc_set set).
  Proof.
    intros Hm. apply SP.mem_enc_spec in Hm as [x [Hi He]]. unfold enc_set. apply in_map_iff.
    exists x. split; [rewrite He; reflexivity|exact Hi].
  Qed.

  (** in set: a true statement has an honest proof and it verifies against the commitment *)
  Theorem set_member_stmt_complete_c11 : forall set v vr Gs Hs B Bt sL sR at_ st t1t t2t y yi z x w us,
    S.mem_enc (S.encode v) set = true ->
    length Gs = Nat.pow 2 (length us) -> length Gs = length (pad_pow2 (enc_set set)) -> length Hs = length Gs ->
    length sL = length Gs -> length sR = length Gs ->
    o_fmul Ops y yi = o_f1 Ops -> inv_ok Ops us ->
    exists p, mem_prove Ops (enc_set set) (emb (S.encode v)) vr Gs Hs B Bt sL sR at_ st t1t t2t y yi z x w us = Some p
      /\ mem_verdict Ops (enc_set set) (commit Ops B Bt (emb (S.encode v)) vr) Gs Hs B Bt p y yi z x w us = VOk.
  Proof.
    intros set v vr Gs Hs B Bt sL sR at_ st t1t t2t y yi z x w us Hm. intros.
    apply (mem_complete_p Ops L); try assumption. apply mem_enc_In. exact Hm.
  Qed.

  (** ... and a false one has none (the prover's refusal [CouldNotFindValueInSet]) *)
  Theorem set_member_stmt_refused_c11 : forall set v vr Gs Hs B Bt sL sR at_ st t1t t2t y yi z x w us,
    (forall a b, emb a = emb b -> a = b) ->
    S.mem_enc (S.encode v) set = false ->
    mem_prove Ops (enc_set set) (emb (S.encode v)) vr Gs Hs B Bt sL sR at_ st t1t t2t y yi z x w us = None.
  Proof.
    intros set v vr Gs Hs B Bt sL sR at_ st t1t t2t y yi z x w us Hinj Hm.
    apply (mem_no_proof_p Ops L). intros Hin. unfold enc_set in Hin. apply in_map_iff in Hin as [a [Ea Hi]].
    apply Hinj in Ea. assert (S.mem_enc (S.encode v) set = true) by (apply SP.mem_enc_spec; exists a; auto). congruence.
  Qed.

  (** not in set (for an injective embedding, i.e. encodings below the group order) *)
  Theorem set_nonmember_stmt_complete_c11 : forall set v vr invs Gs Hs B Bt sL sR at_ st t1t t2t y yi z x w us,
    (forall a b, emb a = emb b -> a = b) ->
    S.mem_enc (S.encode v) set = false ->
    Forall2 (fun si iv => o_fmul Ops (o_fsub Ops (emb (S.encode v)) si) iv = o_f1 Ops) (pad_pow2 (enc_set set)) invs ->
    length Gs = Nat.pow 2 (length us) -> length Gs = length (pad_pow2 (enc_set set)) -> length Hs = length Gs ->
    length sL = length Gs -> length sR = length Gs ->
    o_fmul Ops y yi = o_f1 Ops -> inv_ok Ops us ->
    exists p, nonmem_prove Ops (enc_set set) (emb (S.encode v)) vr invs Gs Hs B Bt sL sR at_ st t1t t2t y yi z x w us = Some p
      /\ nonmem_verdict Ops (enc_set set) (commit Ops B Bt (emb (S.encode v)) vr) Gs Hs B Bt p y yi z x w us = VOk.
  Proof.
    intros set v vr invs Gs Hs B Bt sL sR at_ st t1t t2t y yi z x w us Hinj Hm. intros.
    apply (nonmem_complete_p Ops L); try assumption.
    intros Hin. unfold enc_set in Hin. apply in_map_iff in Hin as [a [Ea Hi]].
    apply Hinj in Ea. assert (S.mem_enc (S.encode v) set = true) by (apply SP.mem_enc_spec; exists a; auto). congruence.
  Qed.

  Theorem set_nonmember_stmt_refused_c11 : forall set v vr invs Gs Hs B Bt sL sR at_ st t1t t2t y yi z x w us,
    S.mem_enc (S.encode v) set = true ->
    nonmem_prove Ops (enc_set set) (emb (S.encode v)) vr invs Gs Hs B Bt sL sR at_ st t1t t2t y yi z x w us = None.
  Proof.
    intros set v vr invs Gs Hs B Bt sL sR at_ st t1t t2t y yi z x w us Hm.
    apply (nonmem_no_proof_p Ops L). apply mem_enc_In. exact Hm.
  Qed.
End Bulletproofs.
