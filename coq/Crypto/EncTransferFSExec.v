(** C12 (round 4) - executable entry points of [EncTransferFS.v] for the END-TO-END correspondence.

    Instance: F = G = integers mod r on [bigZ] ("in the exponent": a group element is its discrete
    logarithm w.r.t. one base point; the harness builds the global context from known multiples of that
    base point).  Codec: a group element is ONE pseudo-byte [2^260 + dlog], a scalar its real 32 bytes, the
    serialised global context the marker [2^259]; the check expands them to the real bytes.

    The hash is a table: [H_tab tab frame] returns the entry whose key is the LENGTH of [frame].  All byte
    strings hashed during one transfer are strict extensions of one another (legacy RandomOracle), so the
    length identifies the extraction point; the table holds sha3-256 of the real bytes at that point.

    [e2e_frames] (no arithmetic: group elements are opaque identifiers of real points) = the verifier-side
    transcript of a REAL transfer; [e2e_transfer] / [e2e_sec2pub] = the whole model run from the secrets and
    the prover's random scalars; [tab] is the hash table of the prover's run, [tabv] the one of the verifier's run
    (they differ when the data is perturbed between the two: [bumpi] >= 0).  Used by the differential check only, never by a theorem. *)
From Coq Require Import ZArith NArith List String Bool.
From Bignums Require Import BigZ.
From CB Require Import Crypto.Alg Crypto.Transcript Crypto.SigmaGeneric Crypto.SigmaCodec Crypto.Sigma_dlog
  Crypto.Sigma_com_eq Crypto.Sigma_enc_trans Crypto.BpAlg Crypto.Ipa Crypto.RangeProof Crypto.BpTranscript Crypto.BpInst
  Crypto.EncTransfer Crypto.EncTransferExec Crypto.EncTransferFS.
Import ListNotations.

Definition BZF : FieldOps := mkFieldOps T tz to tadd tmul tsub topp (fun a b => tmul a (tinv b)) tinv teqb.
Definition BZG : ModOps BZF := mkModOps BZF T tz tadd topp tmul teqb.
Definition BZCodec : CodecOps BZG :=
  mkCodecOps BZF BZG (fun g => [(G1_TOKEN + Z.to_N (BigZ.to_Z g))%N]) (fun x => ser_scalar_bls (BigZ.to_Z x)) 1 32.

Definition H_tab (tab : list (N * bytes)) (fr : bytes) : bytes :=
  match find (fun e => N.eqb (fst e) (N.of_nat (List.length fr))) tab with
  | Some e => snd e
  | None => []
  end.
Definition sfb_bz (b : bytes) : T := ofZ (scalar_from_bytes_bls b).

(** all hashed byte strings of one transfer are prefixes of the last one: print the last one, the lengths and the
    prefix test (printing thousands of 261-bit tokens dominates the run time otherwise) *)
Fixpoint is_prefix (a b : bytes) : bool :=
  match a, b with
  | [], _ => true
  | x :: a', y :: b' => N.eqb x y && is_prefix a' b'
  | _, _ => false
  end.
Definition compress (frames : list bytes) : bytes * list N * bool :=
  let lst := last frames [] in
  (lst, map (fun f => N.of_nat (List.length f)) frames, forallb (fun f => is_prefix f lst) frames).
(** identifiers as small numbers: 1000 + id, the global-context marker as 999 *)
Definition shrink (n : N) : N :=
  if (G1_TOKEN <=? n)%N then (n - G1_TOKEN + 1000)%N else if (n =? GC_MARK)%N then 999%N else n.

(** ** verifier-side transcript of a real transfer (identifiers, no arithmetic) *)
Definition unflatZ (parts : list Z) : option (bproof (@bpOps ZrF ZrG)) :=
  match parts with
  | cA :: cS :: cT1 :: cT2 :: tx :: txt :: et :: rest =>
      let k2 := (List.length rest - 2)%nat in
      let fix prs (l : list Z) : list (Z * Z) := match l with a :: b :: l' => (a, b) :: prs l' | _ => [] end in
      match skipn k2 rest with
      | [a; b] => Some (mkProof (@bpOps ZrF ZrG) cA cS cT1 cT2 tx txt et (prs (firstn k2 rest)) a b)
      | _ => None
      end
  | _ => None
  end.

Definition e2e_frames_all (sec2pub : bool) (g h pk_s pk_r : Z) (S : Z * Z) (A S' : list (Z * Z))
    (cm : Z * Z * list (Z * Z) * list (Z * Z)) (bps : list (list Z)) : list bytes :=
  let st1 := frame_tokens sec2pub g h pk_s pk_r S A S' cm in
  match sec2pub, map unflatZ bps with
  | false, [Some pa; Some ps] =>
      let preA := bp_pre ZrCodec (map snd A) in
      let st2 := fs_after ZrCodec st1 preA pa in
      st1 :: fs_states ZrCodec st1 preA pa ++ fs_states ZrCodec st2 (bp_pre ZrCodec (map snd S')) ps
  | true, [Some ps] => st1 :: fs_states ZrCodec st1 (bp_pre ZrCodec (map snd S')) ps
  | _, _ => []
  end.

Definition e2e_frames (sec2pub : bool) (g h pk_s pk_r : Z) (S : Z * Z) (A S' : list (Z * Z))
    (cm : Z * Z * list (Z * Z) * list (Z * Z)) (bps : list (list Z)) : bytes * list N * bool :=
  let '(lst, lens, ok) := compress (e2e_frames_all sec2pub g h pk_s pk_r S A S' cm bps) in (map shrink lst, lens, ok).

(** ** the whole model, from secrets and random scalars *)
Definition bz_rand (sL sR ats sts t1s t2s : list Z) : @bp_rand BZF :=
  @mkBpRand BZF (map ofZ sL) (map ofZ sR) (tsum (map ofZ ats)) (tsum (map ofZ sts)) (tsum (map ofZ t1s)) (tsum (map ofZ t2s)).
Definition bz_pairs (l : list (Z * Z)) : list (T * T) := map (fun p => (ofZ (fst p), ofZ (snd p))) l.
Definition tv_code (v : tv_result) : Z :=
  match v with TvOk => 0 | TvSigmaProofError => 1 | TvFirstBulletproofError => 2 | TvSecondBulletproofError => 3 end%Z.
Definition flat_cipher (c : T * T) : list Z := [BigZ.to_Z (fst c); BigZ.to_Z (snd c)].
Definition flat_enc (e : (T * T) * (T * T)) : list Z := flat_cipher (fst e) ++ flat_cipher (snd e).
Definition split_chunks (s : N) : list N := [(s mod 2 ^ 32)%N; (s / 2 ^ 32)%N].
Definition EA := @enc_amount BZF BZG.
Definition bz_balance (g h pk : T) (s : N) (ks : list Z) : EA :=
  match encrypt_chunks (K:=BZF) (M:=BZG) g h pk (split_chunks s) (map ofZ ks) with
  | [c0; c1] => ((c0, c1) : (T * T) * (T * T))
  | _ => ((tz, tz), (tz, tz))
  end.

(** perturbation of a finished transfer, in the exponent: position i of
    [remaining (4) ++ transfer (4) ++ bp_transfer (21) ++ bp_remaining (21)] gets +1 (a point: + base point) *)
Definition bump_enc (e : EA) (i : nat) : EA :=
  let '((a, b), (c, d)) := (e : (T * T) * (T * T)) in
  match i with
  | 0%nat => ((tadd a to, b), (c, d)) | 1%nat => ((a, tadd b to), (c, d))
  | 2%nat => ((a, b), (tadd c to, d)) | 3%nat => ((a, b), (c, tadd d to))
  | _ => (e : (T * T) * (T * T))
  end.
Definition bump_bp (p : bproof (@bpOps BZF BZG)) (i : nat) : bproof (@bpOps BZF BZG) :=
  match unflatten (bump (map ofZ (flatten p)) i) with Some q => q | None => p end.
Definition bump_td (td : @transfer_data BZF BZG) (i : Z) : @transfer_data BZF BZG :=
  if (i <? 0)%Z then td else
  let n := Z.to_nat i in
  if (n <? 4)%nat then mkTD (bump_enc (td_remaining td) n) (td_transfer td) (td_index td) (td_accounting td) (td_bp_transfer td) (td_bp_remaining td)
  else if (n <? 8)%nat then mkTD (td_remaining td) (bump_enc (td_transfer td) (n - 4)) (td_index td) (td_accounting td) (td_bp_transfer td) (td_bp_remaining td)
  else if (n <? 29)%nat then mkTD (td_remaining td) (td_transfer td) (td_index td) (td_accounting td) (bump_bp (td_bp_transfer td) (n - 8)) (td_bp_remaining td)
  else mkTD (td_remaining td) (td_transfer td) (td_index td) (td_accounting td) (td_bp_transfer td) (bump_bp (td_bp_remaining td) (n - 29)).

(** result: (remaining ++ transfer as dlogs, (sigma challenge, serialised sigma response), flat transfer
    range proof, flat remaining range proof), verdict code of the model verifier on the (possibly
    perturbed) data, and every byte string the model verifier hashed *)
Definition e2e_transfer (tab tabv : list (N * bytes)) (dg dh : Z) (dGs dHs : list Z) (sk pk_r : Z) (s a idx : N)
    (bal_ks kA kS : list Z) (common : Z) (sig1 sig2 : list (Z * Z))
    (a_sL a_sR a_at a_st a_t1 a_t2 s_sL s_sR s_at s_st s_t1 s_t2 : list Z) (bumpi : Z)
  : option ((list Z * (bytes * bytes) * list Z * list Z) * Z * (bytes * list N * bool)) :=
  let g := ofZ dg in let h := ofZ dh in let Gs := map ofZ dGs in let Hs := map ofZ dHs in
  let skz := ofZ sk in let pks := tmul skz g in let pkr := ofZ pk_r in
  let agg := bz_balance g h pks s bal_ks in
  let rnd := @mkTR BZF (map ofZ kA) (map ofZ kS) (ofZ common, bz_pairs sig1, bz_pairs sig2)
               (bz_rand a_sL a_sR a_at a_st a_t1 a_t2) (bz_rand s_sL s_sR s_at s_st s_t1 s_t2) in
  let Hh := H_tab tab in let Hv := H_tab tabv in
  match make_transfer_data_fs BZCodec Hh sfb_bz g h Gs Hs [GC_MARK] pkr skz agg s idx a rnd with
  | None => None
  | Some td0 =>
      let td := bump_td td0 bumpi in
      let ctx := transfer_ctx BZCodec g [GC_MARK] pkr pks in
      Some ((flat_enc (td_remaining td) ++ flat_enc (td_transfer td),
             (fst (td_accounting td), p_ser_resp (enc_trans_proto BZCodec) (snd (td_accounting td))),
             flatten (td_bp_transfer td), flatten (td_bp_remaining td)),
            tv_code (verify_enc_trans_fs BZCodec Hv sfb_bz g h Gs Hs ctx td pks pkr (join (M:=BZG) agg)),
            compress (transfer_hashed BZCodec Hv sfb_bz g h ctx td pks pkr (join (M:=BZG) agg)))
  end.

Definition bump_sd (sd : @sec_to_pub_data BZF BZG) (i : Z) : @sec_to_pub_data BZF BZG :=
  if (i <? 0)%Z then sd else
  let n := Z.to_nat i in
  if (n <? 4)%nat then mkSD (bump_enc (sd_remaining sd) n) (sd_transfer_amount sd) (sd_index sd) (sd_accounting sd) (sd_bp_remaining sd)
  else if (n <? 5)%nat then mkSD (sd_remaining sd) (sd_transfer_amount sd + 1)%N (sd_index sd) (sd_accounting sd) (sd_bp_remaining sd)
  else mkSD (sd_remaining sd) (sd_transfer_amount sd) (sd_index sd) (sd_accounting sd) (bump_bp (sd_bp_remaining sd) (n - 5)).

Definition e2e_sec2pub (tab tabv : list (N * bytes)) (dg dh : Z) (dGs dHs : list Z) (sk : Z) (s a idx : N)
    (bal_ks kS : list Z) (common : Z) (sig1 sig2 : list (Z * Z))
    (s_sL s_sR s_at s_st s_t1 s_t2 : list Z) (bumpi : Z)
  : option ((list Z * (bytes * bytes) * list Z) * Z * (bytes * list N * bool)) :=
  let g := ofZ dg in let h := ofZ dh in let Gs := map ofZ dGs in let Hs := map ofZ dHs in
  let skz := ofZ sk in let pk := tmul skz g in
  let agg := bz_balance g h pk s bal_ks in
  let rnd := @mkSR BZF (map ofZ kS) (ofZ common, bz_pairs sig1, bz_pairs sig2) (bz_rand s_sL s_sR s_at s_st s_t1 s_t2) in
  let Hh := H_tab tab in let Hv := H_tab tabv in
  match make_sec_to_pub_transfer_data_fs BZCodec Hh sfb_bz g h Gs Hs [GC_MARK] skz agg s idx a rnd with
  | None => None
  | Some sd0 =>
      let sd := bump_sd sd0 bumpi in
      let ctx := sec_to_pub_ctx BZCodec g [GC_MARK] pk in
      Some ((flat_enc (sd_remaining sd),
             (fst (sd_accounting sd), p_ser_resp (enc_trans_proto BZCodec) (snd (sd_accounting sd))),
             flatten (sd_bp_remaining sd)),
            tv_code (verify_sec_to_pub_trans_fs BZCodec Hv sfb_bz g h Gs Hs ctx sd pk (join (M:=BZG) agg)),
            compress (sec_to_pub_hashed BZCodec Hv sfb_bz g h ctx sd pk (join (M:=BZG) agg)))
  end.
