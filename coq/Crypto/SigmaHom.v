(** C07 round 4: the one-row sigma protocol for an ABSTRACT homomorphism [phi : W -> M] (any response
    type [W] with a subtraction and a scaling that [phi] respects).  Special soundness and response
    injectivity; the rows of com_eq_sig / ps_sig_known / vcom_eq are instances ([ped_row_*]: the
    Pedersen-commitment row [c*C + (zm*g + zr*h)] as coded IS [c*y + phi z]). *)
From Coq Require Import ZArith List Field Lia.
From CB Require Import Crypto.Alg Crypto.SigmaGeneric.
Import ListNotations.

Section Hom.
  Context {K : FieldOps} {KL : FieldLaws K} {M : ModOps K} {ML : ModLaws M}.
  Add Field Kf_hom : (@F_th K KL).
  Local Open Scope G_scope.
  Variable W : Type.
  Variables (wsub : W -> W -> W) (wscale : K -> W -> W) (phi : W -> M).
  Hypothesis phi_linear : forall d z z', phi (wscale d (wsub z z')) = d *: (phi z - phi z').

  Theorem hom_special_sound_ : forall (y : M) (c c' : K) (z z' : W), c <> c' ->
    c *: y + phi z = c' *: y + phi z' -> phi (wscale (Finv K (Fsub K c' c)) (wsub z z')) = y.
  Proof. intros y c c' z z' Hc E. rewrite phi_linear. symmetry. now apply ss_row_l. Qed.
  Theorem hom_response_injective_ : forall (y : M) (c : K) (z z' : W),
    (forall u v, phi u = phi v -> u = v) -> c *: y + phi z = c *: y + phi z' -> z = z'.
  Proof. intros y c z z' Hinj E. apply Hinj. eapply Gadd_cancel_l; eauto. Qed.
End Hom.

(** the Pedersen row: [W = K * K], [phi (x, y) = x*g + y*h] *)
Section PedRow.
  Context {K : FieldOps} {KL : FieldLaws K} {M : ModOps K} {ML : ModLaws M}.
  Add Field Kf_ped : (@F_th K KL).
  Local Open Scope G_scope.
  Variables g h : M.
  Definition ped_phi (z : K * K) : M := fst z *: g + snd z *: h.
  Definition ped_sub (z z' : K * K) : K * K := (Fsub K (fst z) (fst z'), Fsub K (snd z) (snd z')).
  Definition ped_scale (d : K) (z : K * K) : K * K := (Fmul K d (fst z), Fmul K d (snd z)).
  Lemma ped_phi_linear : forall d z z', ped_phi (ped_scale d (ped_sub z z')) = d *: (ped_phi z - ped_phi z').
  Proof. intros d [x y] [x' y']. unfold ped_phi, ped_scale, ped_sub. cbn [fst snd]. mod_norm. Qed.
  (** two accepting rows as coded in com_eq_sig.rs / ps_sig_known.rs / vcom_eq.rs give the opening *)
  Theorem ped_row_special_sound_ : forall (C : M) (c c' : K) (z z' : K * K), c <> c' ->
    c *: C + (fst z *: g + snd z *: h) = c' *: C + (fst z' *: g + snd z' *: h) ->
    C = ped_phi (ped_scale (Finv K (Fsub K c' c)) (ped_sub z z')).
  Proof.
    intros C c c' z z' Hc E. symmetry.
    exact (hom_special_sound_ (K * K) ped_sub ped_scale ped_phi ped_phi_linear C c c' z z' Hc E).
  Qed.
End PedRow.
