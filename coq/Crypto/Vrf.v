(** Model of rust-src/concordium_base/src/ecvrf/{secret,public,proof}.rs: the structure of
    ECVRF-EDWARDS25519-SHA512-TAI as coded.  The curve group is an abstract abelian group with
    the integer action [zmul] (NOT assumed to have prime order: ed25519 has cofactor 8, and a
    deserialised [Gamma] or public key may have a small-order component).  Scalars are integers;
    the code's [Scalar] arithmetic is arithmetic modulo [l].  Hashes are abstract:

      h2c      [PublicKey::hash_to_curve] (try-and-increment, cofactor cleared; [None] = no
               counter value produced a point)
      hpoints  [hash_points] (the 128-bit challenge)
      hout     the framing of [Proof::to_hash]: SHA512(suite || 3 || point || 0)
      noncegen [ExpandedSecretKey::nonce_generation]

    Definitions only. *)
From Coq Require Import ZArith List.
Import ListNotations.
Local Open Scope Z_scope.

Section Vrf.
  Variable G : Type.
  Variable gzero : G.
  Variable gadd : G -> G -> G.
  Variable gopp : G -> G.
  Variable zmul : Z -> G -> G.
  Variable l : Z.
  Variable B : G.
  Variable Msg : Type.
  Variable Out : Type.
  Variable Nonce : Type.
  Variable h2c : G -> Msg -> option G.
  Variable hpoints : G * G * G * G -> Z.
  Variable hout : G -> Out.
  Variable noncegen : Nonce -> G -> Z.

  Definition gsub (a b : G) : G := gadd a (gopp b).

  Definition cofactor : Z := 8.

  (** [PublicKey::from(&ExpandedSecretKey)] *)
  Definition vrf_pk_of (x : Z) : G := zmul x B.

  (** [ExpandedSecretKey::prove]; [None] = the [expect] on [hash_to_curve] fails *)
  Definition vrf_prove (x : Z) (nonce : Nonce) (Y : G) (alpha : Msg) : option (G * Z * Z) :=
    match h2c Y alpha with
    | None => None
    | Some H =>
        let k := noncegen nonce H in
        let gamma := zmul x H in
        let c := hpoints (H, gamma, zmul k B, zmul k H) in
        Some (gamma, c, (k + c * x) mod l)
    end.

  (** [PublicKey::verify] *)
  Definition vrf_verify (Y : G) (pi : G * Z * Z) (alpha : Msg) : bool :=
    match h2c Y alpha with
    | None => false
    | Some H =>
        let gamma := fst (fst pi) in
        let c := snd (fst pi) in
        let s := snd pi in
        let U := gsub (zmul s B) (zmul c Y) in
        let V := gsub (zmul s H) (zmul c gamma) in
        Z.eqb c (hpoints (H, gamma, U, V))
    end.

  (** [Proof::to_hash] *)
  Definition vrf_to_hash (pi : G * Z * Z) : Out := hout (zmul cofactor (fst (fst pi))).

  (** the relation a proof attests (discrete-log equality up to the cofactor) *)
  Definition dleq (Y H gamma : G) : Prop :=
    exists x, zmul cofactor Y = zmul (cofactor * x) B /\ zmul cofactor gamma = zmul (cofactor * x) H.
End Vrf.
